"""C06 — the feasibility check matches the phasor definition; the three checkers agree; the
linear relaxation is conservative; a constraint-free network is usable by schedulers."""
from __future__ import annotations

import cmath
import math
import random
from datetime import datetime
from fractions import Fraction

import numpy as np

from core.common import f2b, b2f, close
from core import impl as I

ID = "C06"
LEAN_MODULES = ["AcnProofs.C06", "AcnProofs.Lemmas.FeasConvex", "AcnProofs.Lemmas.FeasFindings", "AcnProofs.Lemmas.FeasRestore"]
TIE_MODULES = ["AcnProofs.Lemmas.CodeTieNet"]
DRIVER = "drv_C06"
REQUIRED_THEOREMS = [
    "Acn.C06.net_feasible_iff", "Acn.C06.net_infeasible_of_neg_bound", "Acn.C06.net_feasible_iff_fin", "Acn.C06.net_feasible_iff_phasor", "Acn.C06.constraint_current_select",
    "Acn.C06.three_agree", "Acn.C06.linear_modes_agree", "Acn.C06.iface_rejects_ragged",
    "Acn.C06.three_agree_entry", "Acn.C06.no_constraints_feasible", "Acn.C06.infra_of_unconstrained_ok",
    "Acn.C06.linear_conservative", "Acn.C06.linear_conservative_entry", "Acn.C06.gen_tolerances",
    "Acn.Feas.algFeasible_convex", "Acn.Feas.algFeasible_interval",
    "Acn.C06.restore_preserves_checks", "Acn.Feas.Net.restore_eq",
]
BUDGET = {"quick": 900, "thorough": 30000, "search": 6000}
TRUSTED = [
    "numpy: `@` on real/complex arrays, np.abs of complex (hypot), np.linalg.norm(axis=0), np.maximum, np.tile, "
    "np.exp(1j·x)/np.cos/np.sin — the phasor coordinates are passed to the model as the doubles numpy produced",
    "pandas alignment inside ChargingNetwork.add_constraint (the matrix the network stores is compared with the "
    "case's coefficient table before anything else)",
    "IEEE-754 rounding at the razor edge (oracle abstains within 1e-9 relative of limit+tolerance off the exact "
    "stream; the dyadic angle-0 stream decides the edge itself with Fractions)",
]
ASSUMPTIONS = [
    "theorems are over an arbitrary linear ordered field with unit phasors (c_j, s_j); the implementation computes "
    "in doubles with (cos φ_j, sin φ_j) rounded — validated by correspondence to 1e-9, not proved",
    "the linear modes and the infrastructure view of a constraint-free network follow the repaired code "
    "(fixes/F3.diff, F4.diff, F5.diff); on the unrepaired tree these are reported as known findings F3/F4/F5",
    "the algorithm-side check cannot see the network's tolerances: agreement is for equal tolerances passed to all three",
    "save/restore: the model (AcnModel/FeasRestore.lean) carries the part of the JSON document the feasibility checks read "
    "back (station key order of `_EVSEs`, positional arrays, matrix with its row-less reshape, tolerances); the EVSE objects "
    "behind the keys, the registry/context layer of BaseSimObj and the json module itself are exercised by the "
    "correspondence only (their round trip is C16's subject); copy.deepcopy / pickle restores have no model counterpart "
    "beyond 'nothing changes'",
    "restored objects are judged per station ID against the CASE (coefficients, phase angle, voltage, tolerances as built): "
    "a restore that reordered stations AND every positional array consistently would pass, one that reorders only some of them "
    "is a violation",
]
RULE = ("per case a real ChargingNetwork (1-8 EVSEs with voltages and phase angles: site angles 30/-90/150, random, "
        "or all 0; station ids REGISTERED IN NON-SORTED ORDER in ~3/4 of the multi-station cases: shuffled site-style ids "
        "CA-513/CA-148, ids whose numeric, lexicographic and registration orders all differ, reversed, mixed-case; "
        "constraint names not sorted either), 0-6 constraints built from Current objects (delta-wye shaped mixed-sign rows with 1/4 "
        "transformer ratios, or random sparse rows; positive, zero and negative limits), default or non-default "
        "tolerances given to the constructor and/or the call, a {station: rates} mapping with 0-5 periods (omitted "
        "stations, foreign keys, shuffled order, empty, ragged) scaled so that the worst constraint (phase-aware or "
        "linear) sits at limit + k*tol, k in {-3,-1,-0.01,+0.01,1,3} (k = 0 exactly on the dyadic angle-0 stream); "
        "a third of the non-exact cases continue with a HISTORY on the same network and the same Interface object: 1-3 "
        "steps of add_constraint / remove_constraint (first, middle, last) / update_constraint (new limit, new "
        "coefficients, new name), each followed by a re-query of all entry points with a schedule placed at the "
        "changed constraint's edge or between the removed/old version's edge and the current constraints' edge, "
        "judged against the CURRENT constraints; "
        "SAVE/RESTORE as a scenario step: in ~1/3 of all cases (exact stream included) the freshly built objects are saved "
        "and restored BEFORE the first use, and in ~1/2 of the history steps a restore stands alone between two uses, or "
        "before / between / after the constraint edits of the step, or between 'remove every constraint' and 'add a new "
        "one' — as ChargingNetwork.from_json(net.to_json()) (new Simulator and Interface on what comes back) or "
        "Simulator.from_json(sim.to_json()) + update_scheduler (Interface registered by update_scheduler, or a fresh one), "
        "each as a string, through a file-like buffer or through a file on disk, once or twice in a row, or as "
        "copy.deepcopy / pickle of the simulator; the scenario continues on the restored objects only. Everything "
        "station-indexed goes to the implementation through ITS public orderings (rows in network.station_ids order for "
        "the network side, InfrastructureInfo.get_station_index for the algorithm side, the mapping for the Interface) and "
        "is judged per station ID against the case: coefficient column, phase angle and voltage of every station as the "
        "network and the infrastructure view report them, the tolerances the network was built with, and the verdicts "
        "against the phasor definition evaluated from the case's own table (the phasors given to the model are computed "
        "from the case's angles, never read back from an object); "
        "non-trivial = constrained case with |k| <= 3 and a mixed-sign or multi-phase row active, or a "
        "constraint-free / ragged case; distinct by hash of the case")

KS = [-3.0, -1.0, -0.01, 0.01, 1.0, 3.0]
DEF_VT, DEF_RT = 1e-5, 1e-7
EDGE = 1e-10   # relative; the generator's k = ±0.01 sits 1e-7 A off the edge (≥ 1e-9 relative for limits ≤ 100 A)


# ------------------------------------------------------------------ generation

def _station_ids(rng, n):
    """station ids in REGISTRATION order.  Most schemes are deliberately not in lexicographic order (and not
    in numeric order either), so that anything that re-derives the station order from sorted keys — a JSON
    dump with sorted keys, a sorted() over a dict, a DataFrame column sort — relabels the stations."""
    scheme = rng.choice(["plain", "site", "site", "numeric", "reversed", "mixed_case"])
    if scheme == "plain":
        ids = [f"S{j}" if rng.random() < 0.9 else f"st-{j}x" for j in range(n)]
    elif scheme == "site":
        pre = rng.choice(["CA-", "PS-", "AG-1F", "AG-4F"])
        ids = [f"{pre}{v:03d}" if pre in ("CA-", "PS-") else f"{pre}{v:02d}" for v in rng.sample(range(1, 100 if "AG" in pre else 600), n)]
    elif scheme == "numeric":
        # numeric order, lexicographic order and registration order all differ ("10" < "9" as strings)
        ids = [f"{rng.choice(['', 'S', 'EV'])}{v}" for v in rng.sample([1, 2, 3, 8, 9, 10, 11, 12, 20, 21, 100, 101], n)]
        if len(set(ids)) < n:
            ids = [f"S{v}" for v in rng.sample([1, 2, 3, 8, 9, 10, 11, 12, 20, 21, 100, 101], n)]
    elif scheme == "reversed":
        ids = [f"S{n - 1 - j}" for j in range(n)]
    else:
        ids = rng.sample(["a1", "B2", "c3", "D4", "e5", "F6", "g7", "H8", "_x", "Zz", "zA"], n)
    return ids, scheme


def _restore_op(rng):
    """a save/restore of the objects under test: JSON (string, file-like buffer, file path) of the network or
    of the whole simulator (then update_scheduler, which registers a new Interface), or an in-memory copy
    (copy.deepcopy / pickle) of the simulator.  The history continues on what comes back."""
    level = rng.choice(["net", "net", "sim", "sim", "sim", "copy"])
    via = rng.choice(["deepcopy", "pickle"]) if level == "copy" else rng.choice(["str", "str", "buf", "path"])
    op = {"op": "restore", "level": level, "via": via, "iface": rng.choice(["fresh", "registered"]),
          "times": 1 if rng.random() < 0.85 else 2}
    op["how"] = f"{level}/{via}" + ("x2" if op["times"] == 2 else "")
    return op


def _stations(rng, exact):
    n = rng.choice([1, 2, 3, 3, 4, 5, 6, 8])
    mode = "zero" if exact else rng.choice(["site", "site", "random", "mixed", "zero", "special"])
    ids, _scheme = _station_ids(rng, n)
    out = []
    for j in range(n):
        if mode == "zero":
            ph = 0
        elif mode == "site":
            ph = [30, -90, 150][j % 3] if rng.random() < 0.8 else rng.choice([30, -90, 150])
        elif mode == "random":
            ph = round(rng.uniform(-180, 180), 3)
        elif mode == "special":
            ph = rng.choice([0, 180, 90, -90, 45, 60, 120, -120, 360, -30])
        else:
            ph = rng.choice([30, -90, 150, 0, round(rng.uniform(-180, 180), 2)])
        out.append({"id": ids[j], "V": rng.choice([208, 208, 240, 120, 277]), "phase": ph})
    return out, mode


def _dy_rows(rng, st):
    """delta-wye shaped rows as in acnsim/network/sites: groups AB / BC / CA by phase angle."""
    ids = [s["id"] for s in st]
    grp = {0: [], 1: [], 2: []}
    for j, s in enumerate(st):
        grp[j % 3].append(s["id"])

    def cur(weights):
        d = {}
        for g, w in weights.items():
            for i in grp[g]:
                if w != 0:
                    d[i] = d.get(i, 0.0) + float(w)
        return d

    rows = [
        cur({0: 1, 2: -1}), cur({1: 1, 0: -1}), cur({2: 1, 1: -1}),            # secondary lines
        cur({0: 0.25, 1: 0.25, 2: -0.5}), cur({0: -0.5, 1: 0.25, 2: 0.25}),     # primary lines (1/4 ratio)
        cur({0: 1}), cur({1: 1}), cur({2: 1}), {i: 1.0 for i in ids},           # pods / total
    ]
    rows = [r for r in rows if r]
    rng.shuffle(rows)
    return rows[: rng.randint(1, min(6, len(rows)))]


def _rand_rows(rng, st, exact):
    ids = [s["id"] for s in st]
    m = rng.randint(1, 6)
    rows = []
    for _ in range(m):
        d = {}
        for i in ids:
            if rng.random() < 0.7:
                if exact or rng.random() < 0.7:
                    d[i] = float(rng.choice([-2, -1, -1, -0.5, -0.25, 0.25, 0.5, 1, 1, 2, 0]))
                else:
                    d[i] = round(rng.uniform(-2, 2), 3)
        if not d:
            d[rng.choice(ids)] = 1.0
        rows.append(d)
    return rows


def _dense(stations, sched, T):
    return [[float(v) for v in sched[s["id"]]] if s["id"] in sched else [0.0] * T for s in stations]


def _matrix(case):
    ids = [s["id"] for s in case["stations"]]
    return [[float(c["coeffs"].get(i, 0.0)) for i in ids] for c in case["constraints"]]


def _tols(case, net_tol=None):
    """tolerances in force for the calls of this case (what `None` defaults to): the case's own when it
    gives them to the constructor; otherwise `net_tol` = the public attributes of the network AS BUILT (before
    any save/restore) when they have been observed."""
    nvt, nrt = case["net_tol"] if case.get("net_tol") else net_tol if net_tol else (DEF_VT, DEF_RT)
    cvt, crt = case.get("call_tol") or (None, None)
    return (nvt if cvt is None else cvt), (nrt if crt is None else crt)


def _phasor(ph):
    return cmath.exp(1j * math.radians(ph))


def _scale_to_edge(case, S, k, target):
    """scale S so that the worst (constraint, period) sits at bound + k*tol."""
    M = _matrix(case)
    vt, rt = _tols(case)
    ph = [_phasor(s["phase"]) for s in case["stations"]]
    T = len(S[0]) if S else 0
    best = None
    for row, c in zip(M, case["constraints"]):
        lim = c["limit"]
        tol = max(vt, rt * lim)
        goal = lim + tol + k * (tol if tol > 0 else 1e-5)
        if goal <= 0:
            continue
        for t in range(T):
            if target == "linear":
                mag = abs(sum(abs(a) * S[j][t] for j, a in enumerate(row)))
            else:
                mag = abs(sum(a * S[j][t] * ph[j] for j, a in enumerate(row)))
            if mag > 1e-9:
                lam = goal / mag
                if best is None or lam < best:
                    best = lam
    if best is None:
        return S
    return [[v * best for v in r] for r in S]


def _edge_scale(stations, cons, vt, rt, S, k, target):
    """the factor λ for which λ·S puts the worst (constraint, period) of `cons` at bound + k*tol; None if
    no constraint of `cons` is touched by S."""
    ids = [s["id"] for s in stations]
    ph = [_phasor(s["phase"]) for s in stations]
    T = len(S[0]) if S else 0
    best = None
    for c in cons:
        row = [float(c["coeffs"].get(i, 0.0)) for i in ids]
        lim = c["limit"]
        tol = max(vt, rt * lim)
        goal = lim + tol + k * (tol if tol > 0 else 1e-5)
        if goal <= 0:
            continue
        for t in range(T):
            if target == "linear":
                mag = abs(sum(abs(a) * S[j][t] for j, a in enumerate(row)))
            else:
                mag = abs(sum(a * S[j][t] * ph[j] for j, a in enumerate(row)))
            if mag > 1e-9:
                lam = goal / mag
                if best is None or lam < best:
                    best = lam
    return best


def _apply_ops(cons, ops):
    """specification of the constraint list after add / remove / update (update = remove + append under the
    same or the new name, charging_network.py:303-324)."""
    cur = [dict(c) for c in cons]
    for o in ops:
        if o["op"] == "add":
            cur.append({"name": o["name"], "coeffs": dict(o["coeffs"]), "limit": o["limit"]})
        elif o["op"] == "remove":
            cur = [c for c in cur if c["name"] != o["name"]]
        elif o["op"] == "update":
            cur = [c for c in cur if c["name"] != o["name"]]
            cur.append({"name": o.get("new_name") or o["name"], "coeffs": dict(o["coeffs"]), "limit": o["limit"]})
    return cur


def _views(case):
    """one case-like dict per query: the initial query, then one per history step with the CURRENT constraints."""
    base = {k: v for k, v in case.items() if k != "history"}
    nres = int((case.get("restore") or {}).get("times", 1)) if case.get("restore") else 0
    base["restores"] = nres
    out = [base]
    cur = case["constraints"]
    for i, step in enumerate(case.get("history") or []):
        cur = _apply_ops(cur, step["ops"])     # a restore leaves the specification untouched
        nres += sum(int(o.get("times", 1)) for o in step["ops"] if o["op"] == "restore")
        v = dict(base)
        v.update({"constraints": cur, "sched": step["sched"], "k": step.get("k"), "target": step.get("target", "phasor"),
                  "sel": step.get("sel"), "call_tol": step.get("call_tol", base.get("call_tol")),
                  "step": i + 1, "ops": step["ops"], "restores": nres})
        out.append(v)
    return out


def _gen_history(rng, case):
    """1-3 steps on the SAME network and Interface: each applies 1-2 of add_constraint / remove_constraint
    (first, middle, last) / update_constraint (same name, new limit and/or new coefficients, sometimes a new
    name) and re-queries with a schedule scaled to the boundary of what changed: the new constraint's edge, or
    between the edges of the removed / old version (the 'ghost') and the current constraints."""
    st = case["stations"]
    ids = [s["id"] for s in st]
    cur = [dict(c) for c in case["constraints"]]
    fresh = [0]
    steps = []

    def new_row():
        rows = _dy_rows(rng, st) if len(st) >= 2 and rng.random() < 0.5 else _rand_rows(rng, st, False)
        return rng.choice(rows)

    def new_limit():
        return float(rng.choice([rng.choice([10, 20, 32, 80, 100, 180, 400]), round(rng.uniform(5, 500), 3)]))

    for _ in range(rng.randint(1, 3)):
        ops, ghosts, focus = [], [], []
        T = rng.choice([1, 1, 2, 3])
        S = [[(rng.uniform(1, 32) if rng.random() < 0.85 else 0.0) for _ in range(T)] for _ in ids]
        vt0, rt0 = _tols(case)
        shape = rng.random()
        emptied = bool(cur) and shape < 0.07
        only_restore = not emptied and shape < 0.17
        if emptied:
            # every constraint removed (the matrix keeps its 0 x N shape), save/restore of the emptied network,
            # then a new constraint on what came back
            for c in cur:
                ghosts.append(dict(c))
                ops.append({"op": "remove", "name": c["name"], "pos": "all"})
            ops.append(_restore_op(rng))
            fresh[0] += 1
            o = {"op": "add", "name": f"h{fresh[0]}", "coeffs": new_row(), "limit": new_limit()}
            focus.append(o["name"])
            ops.append(o)
            cur = _apply_ops(cur, ops)
        elif only_restore:
            # nothing but a save/restore between two uses: the verdicts are those of the unchanged constraints
            ops.append(_restore_op(rng))
        for _ in range(0 if emptied or only_restore else 1 if rng.random() < 0.8 else 2):
            kinds = ["add"] + (["remove", "remove", "update_limit", "update_limit", "update_coeffs", "update_rename"] if cur else [])
            kind = rng.choice(kinds)
            if kind == "add":
                fresh[0] += 1
                o = {"op": "add", "name": f"h{fresh[0]}", "coeffs": new_row(), "limit": new_limit()}
                focus.append(o["name"])
            else:
                pos = rng.choice(["first", "middle", "last"])
                i = 0 if pos == "first" else len(cur) - 1 if pos == "last" else len(cur) // 2
                if rng.random() < 0.5:
                    # change the constraint that binds first under this step's schedule
                    lams = [_edge_scale(st, [c], vt0, rt0, S, 1.0, "phasor") for c in cur]
                    cand = [(l, j) for j, l in enumerate(lams) if l is not None]
                    if cand:
                        i = min(cand)[1]
                        pos = "first" if i == 0 else "last" if i == len(cur) - 1 else "middle"
                        pos += "/binding"
                old = cur[i]
                ghosts.append(dict(old))
                if kind == "remove":
                    o = {"op": "remove", "name": old["name"], "pos": pos}
                else:
                    lim = old["limit"] * rng.choice([0.5, 0.8, 1.25, 2.0]) if kind != "update_coeffs" or rng.random() < 0.5 else old["limit"]
                    if old["limit"] <= 0:
                        lim = new_limit()
                    coeffs = new_row() if kind == "update_coeffs" else dict(old["coeffs"])
                    o = {"op": "update", "name": old["name"], "coeffs": coeffs, "limit": float(lim), "pos": pos, "how": kind}
                    if kind == "update_rename":
                        fresh[0] += 1
                        o["new_name"] = f"r{fresh[0]}"
                    focus.append(o.get("new_name") or o["name"])
            ops.append(o)
            cur = _apply_ops(cur, [o])
        if not emptied and not only_restore and rng.random() < 0.35:
            # a save/restore before, between or after the constraint edits of this step
            ops.insert(rng.randint(0, len(ops)), _restore_op(rng))
        view = dict(case, constraints=cur)
        call_tol = case.get("call_tol") if rng.random() < 0.8 else rng.choice([None, [1e-3, None], [1e-4, 1e-5]])
        view["call_tol"] = call_tol
        vt, rt = _tols(view)
        touched = set()
        for c in ghosts + [c for c in cur if c["name"] in focus]:
            touched |= {i for i, a in c["coeffs"].items() if a}
        S = [[(v if v or i not in touched else rng.uniform(1, 32)) for v in S[ids.index(i)]] for i in ids]
        k = rng.choice(KS)
        target = rng.choice(["phasor", "phasor", "linear"])
        lam_cur = _edge_scale(st, cur, vt, rt, S, k, target)
        lam_in = _edge_scale(st, cur, vt, rt, S, -1.0, target)
        lam_focus = _edge_scale(st, [c for c in cur if c["name"] in focus], vt, rt, S, k, target)
        lam_ghost = _edge_scale(st, ghosts, vt, rt, S, rng.choice([0.01, 1.0, 3.0, 3.0]), target) if ghosts else None
        mode = rng.random()
        lam = None
        if ghosts and lam_ghost is not None and mode < 0.6:
            if lam_in is None:
                lam, how = lam_ghost * rng.choice([1.0, 1.2, 2.0]), "ghost_only"
            elif lam_ghost <= lam_in:
                # the removed / old version is violated, the current constraints are not
                lam, how = rng.choice([lam_ghost, math.sqrt(lam_ghost * lam_in), lam_in]), "ghost_violated_current_ok"
            else:
                # the current constraints are violated before the old version is (tightened)
                lam, how = rng.choice([lam_ghost, math.sqrt(lam_ghost * lam_in)]), "current_violated_before_ghost"
        elif lam_focus is not None and mode < 0.85:
            lam, how = lam_focus, "changed_constraint_edge"
        elif lam_cur is not None:
            lam, how = lam_cur, "worst_current_edge"
        else:
            how = "unscaled"
        if lam is not None:
            S = [[v * lam for v in r] for r in S]
        order = list(ids)
        rng.shuffle(order)
        sched = {i: S[ids.index(i)] for i in order if any(S[ids.index(i)]) or rng.random() < 0.7} or {ids[0]: S[0]}
        step = {"ops": ops, "sched": sched, "k": k, "target": target, "scaled": how, "call_tol": call_tol}
        if cur and rng.random() < 0.4:
            names = [c["name"] for c in cur]
            pick = [n for n in names if rng.random() < 0.6] + ([ghosts[0]["name"]] if ghosts and rng.random() < 0.5 else [])
            rng.shuffle(pick)
            step["sel"] = {"names": pick, "ts": None if rng.random() < 0.5 else [rng.randrange(T) for _ in range(rng.randint(1, 3))]}
        steps.append(step)
    return steps


def _gen_case(rng, exact=False, history=False):
    case = _gen_case0(rng, exact)
    if rng.random() < 0.35:
        # save/restore BEFORE the first use: every query of this case is answered by restored objects
        case["restore"] = _restore_op(rng)
    if history and not exact:
        lens = {len(v) for v in case["sched"].values()}
        if len(lens) <= 1:
            case["history"] = _gen_history(rng, case)
    return case


def _gen_case0(rng, exact=False):
    st, amode = _stations(rng, exact)
    r = rng.random()
    if r < 0.1:
        cons_rows, shape = [], "none"
    elif r < 0.55 and len(st) >= 2:
        cons_rows, shape = _dy_rows(rng, st), "delta-wye"
    else:
        cons_rows, shape = _rand_rows(rng, st, exact), "random"
    # tolerances
    if exact:
        net_tol = rng.choice([[2.0 ** -10, 0.0], [2.0 ** -10, 2.0 ** -20]])
        call_tol = rng.choice([None, [2.0 ** -10, 0.0], [None, 0.0]])
    else:
        net_tol = rng.choice([None, None, [1e-5, 1e-7], [1e-3, 1e-7], [0.5, 0.0], [0.0, 1e-3], [1e-5, 0.05], [0.0, 0.0]])
        call_tol = rng.choice([None, None, None, [1e-3, None], [None, 1e-3], [1e-4, 1e-5], [0.25, 0.0], [0.0, 0.01]])
    T = rng.choice([1, 1, 2, 3, 4, 5, 0] if not exact else [1, 2, 3])
    # limits
    cons = []
    # constraint names are not in sorted order either (rows are kept in the order they were added)
    cnum = rng.sample(range(12), len(cons_rows)) if rng.random() < 0.7 else list(range(len(cons_rows)))
    for i, d in enumerate(cons_rows):
        if exact:
            lim = float(rng.choice([8, 16, 20, 32.5, 64, 100.25, 180]))
        else:
            lim = rng.choice([rng.choice([10, 20, 32, 80, 100, 180, 400]), round(rng.uniform(5, 500), 3)])
            if rng.random() < 0.03:
                lim = rng.choice([0.0, -1.0, -1e-6])
        cons.append({"name": f"c{cnum[i]}", "coeffs": d, "limit": float(lim)})
    case = {"stations": st, "constraints": cons, "net_tol": net_tol, "call_tol": call_tol, "exact": exact,
            "angles": amode, "shape": shape}
    if net_tol:
        _sub = random.Random(repr(("tol_by", net_tol, len(st), len(cons))))     # private stream: the main one is not shifted
        if _sub.random() < 0.5:
            case["tol_by"] = "assign"
            case["tol_probe"] = _sub.random() < 0.5
    # schedule
    ids = [s["id"] for s in st]
    included = [i for i in ids if rng.random() < 0.8] or [rng.choice(ids)]
    neg = (not exact) and rng.random() < 0.12
    S = []
    for i in ids:
        if i in included:
            if exact:
                row = [rng.randint(0, 256) / 8.0 for _ in range(T)]
            else:
                row = [rng.choice([0.0, rng.uniform(0, 32), rng.uniform(0, 32), float(rng.choice([6, 8, 16, 32]))])
                       for _ in range(T)]
                if neg:
                    row = [(-v if rng.random() < 0.3 else v) for v in row]
        else:
            row = [0.0] * T
        S.append(row)
    k = None
    target = rng.choice(["phasor", "phasor", "linear"])
    if cons and T > 0 and not exact and rng.random() < 0.9:
        k = rng.choice(KS)
        S = _scale_to_edge(case, S, k, target)
    if exact and cons and T > 0:
        # put one constraint exactly on (or one tolerance step around) its edge by choosing its limit
        vt, rt = _tols(case)
        M = _matrix(case)
        i = rng.randrange(len(cons))
        mags = [abs(sum(Fraction(a) * Fraction(S[j][t]) for j, a in enumerate(M[i]))) for t in range(T)]
        z = max(mags)
        delta = rng.choice([0, 0, 0, 1, -1, 2, -2, 64, -64]) * Fraction(1, 1024)
        lim = z - Fraction(vt) + delta
        if 0 < lim < 512:
            cons[i]["limit"] = float(lim)
            k = float(delta / Fraction(vt))
        # the others get either a comfortable or a random limit
    case["k"] = k
    case["target"] = target
    # arguments for constraint_current(constraints=…, time_indices=…)
    if cons and rng.random() < 0.6:
        names = [c["name"] for c in cons]
        pick = [n for n in names if rng.random() < 0.6]
        rng.shuffle(pick)
        if rng.random() < 0.15:
            pick.append("no-such-constraint")
        ts = None
        if T > 0 and rng.random() < 0.7:
            ts = [rng.randrange(T) for _ in range(rng.randint(0, 4))]
            if rng.random() < 0.05:
                ts.append(T + rng.randint(0, 2))
        case["sel"] = {"names": pick if rng.random() < 0.8 else None, "ts": ts}
    sched = {}
    order = list(included)
    rng.shuffle(order)
    for i in order:
        sched[i] = S[ids.index(i)]
    mal = rng.random()
    if mal < 0.04:
        sched["not-a-station"] = [rng.uniform(0, 100) if not exact else 50.0 for _ in range(T)]
    elif mal < 0.08 and len(sched) >= 2:
        key = rng.choice(list(sched))
        sched[key] = sched[key] + [1.0] if rng.random() < 0.5 or T == 0 else sched[key][:-1]
    elif mal < 0.10:
        sched = {}
    case["sched"] = sched
    return case


def corpus():
    site = [{"id": "A", "V": 208, "phase": 30}, {"id": "B", "V": 208, "phase": -90}, {"id": "C", "V": 208, "phase": 150}]
    ac = [{"name": "AC", "coeffs": {"A": 1.0, "C": -1.0}, "limit": 20.0}]
    return [
        # F3: constraint-free network (infrastructure view, schedulers)
        {"stations": [{"id": "A", "V": 208, "phase": 0}], "constraints": [], "net_tol": None, "call_tol": None,
         "sched": {"A": [1e9]}, "exact": False, "k": None, "angles": "zero", "shape": "none", "target": "phasor"},
        # F4: A - C, 12 A each: linear mode accepts, phase-aware magnitude is 20.78 A
        {"stations": site, "constraints": ac, "net_tol": None, "call_tol": None,
         "sched": {"A": [12.0], "B": [12.0], "C": [12.0]}, "exact": False, "k": None, "angles": "site",
         "shape": "delta-wye", "target": "phasor"},
        # F5: 4 periods x 12 A on A only (limit 20): per period fine, norm across time 24
        {"stations": site, "constraints": ac, "net_tol": None, "call_tol": None,
         "sched": {"A": [12.0] * 4, "B": [0.0] * 4, "C": [0.0] * 4}, "exact": False, "k": None, "angles": "site",
         "shape": "delta-wye", "target": "phasor"},
        # exact edge, angle 0: |8 - 3| = 5 = 4.9990234375 + 2^-10
        {"stations": [{"id": "A", "V": 208, "phase": 0}, {"id": "B", "V": 208, "phase": 0}],
         "constraints": [{"name": "d", "coeffs": {"A": 1.0, "B": -1.0}, "limit": 5.0 - 2.0 ** -10}],
         "net_tol": [2.0 ** -10, 0.0], "call_tol": None, "sched": {"B": [3.0, 8.0], "A": [8.0, 3.0]}, "exact": True,
         "k": 0.0, "angles": "zero", "shape": "random", "target": "phasor"},
        # ragged mapping / empty mapping / negative limit with empty mapping
        {"stations": site, "constraints": ac, "net_tol": None, "call_tol": None, "sched": {"A": [1.0, 2.0], "B": [1.0]},
         "exact": False, "k": None, "angles": "site", "shape": "delta-wye", "target": "phasor"},
        {"stations": site, "constraints": [{"name": "n", "coeffs": {"A": 1.0}, "limit": -1.0}], "net_tol": None,
         "call_tol": None, "sched": {}, "exact": False, "k": None, "angles": "site", "shape": "random", "target": "phasor"},
    ] + _restore_corpus()


def _restore_corpus():
    """stations wired (registered) in an order that is not the sorted order of their ids, one pod constraint per
    phase and one mixed-sign line constraint, custom tolerances; the objects are saved and restored before use /
    between uses / between constraint edits; each schedule loads ONE station beyond its own pod limit, so the
    verdict belongs to that station id and to no other."""
    st = [{"id": "CA-513", "V": 208, "phase": 30}, {"id": "CA-148", "V": 240, "phase": -90},
          {"id": "CA-322", "V": 208, "phase": 150}, {"id": "CA-303", "V": 277, "phase": 30}]
    cons = [{"name": "pod_AB", "coeffs": {"CA-513": 1.0, "CA-303": 1.0}, "limit": 40.0},
            {"name": "line_A", "coeffs": {"CA-513": 1.0, "CA-303": 1.0, "CA-322": -1.0}, "limit": 60.0},
            {"name": "pod_BC", "coeffs": {"CA-148": 1.0}, "limit": 16.0}]
    base = {"stations": st, "constraints": cons, "net_tol": [1e-3, 1e-7], "call_tol": None, "exact": False, "k": None,
            "angles": "site", "shape": "delta-wye", "target": "phasor"}

    def rop(level, via, iface="fresh", times=1):
        return {"op": "restore", "level": level, "via": via, "iface": iface, "times": times,
                "how": f"{level}/{via}" + ("x2" if times == 2 else "")}
    out = []
    for level, via, iface in (("net", "str", "fresh"), ("sim", "str", "registered"), ("sim", "buf", "fresh"),
                              ("net", "path", "fresh"), ("copy", "deepcopy", "registered"), ("copy", "pickle", "fresh")):
        # before use: 20 A on CA-148 alone breaks pod_BC (16 A) and nothing else; 20 A on CA-322 alone is fine
        out.append(dict(base, restore=rop(level, via, iface), sched={"CA-148": [20.0, 0.0], "CA-322": [0.0, 20.0]},
                        sel={"names": ["pod_BC", "line_A"], "ts": [1, 0]}))
    # between uses, and between the edits of one step: restore, then a constraint added on what came back
    out.append(dict(base, sched={"CA-513": [25.0], "CA-303": [14.0]}, history=[
        {"ops": [rop("sim", "str")], "sched": {"CA-303": [30.0], "CA-322": [45.0]}, "k": None, "target": "phasor",
         "call_tol": None, "scaled": "unscaled"},
        {"ops": [{"op": "remove", "name": "pod_BC", "pos": "last"}, rop("net", "buf", times=2),
                 {"op": "add", "name": "pod_CA", "coeffs": {"CA-322": 1.0}, "limit": 32.0}],
         "sched": {"CA-148": [31.0], "CA-322": [33.0]}, "k": None, "target": "phasor", "call_tol": None, "scaled": "unscaled"},
        {"ops": [{"op": "update", "name": "line_A", "coeffs": {"CA-148": 1.0, "CA-513": -1.0}, "limit": 30.0, "pos": "middle",
                  "how": "update_coeffs"}, rop("sim", "path", "registered")],
         "sched": {"CA-148": [20.0], "CA-513": [20.0], "CA-322": [30.0]}, "k": None, "target": "phasor", "call_tol": None,
         "scaled": "unscaled"}]))
    # every constraint removed, the emptied network saved and restored, a new constraint on what came back
    out.append(dict(base, sched={"CA-513": [10.0], "CA-148": [10.0]}, history=[
        {"ops": [{"op": "remove", "name": "pod_AB", "pos": "all"}, {"op": "remove", "name": "line_A", "pos": "all"},
                 {"op": "remove", "name": "pod_BC", "pos": "all"}, rop("sim", "str"),
                 {"op": "add", "name": "h1", "coeffs": {"CA-322": 1.0, "CA-148": -1.0}, "limit": 25.0}],
         "sched": {"CA-322": [15.0], "CA-148": [15.0], "CA-513": [32.0]}, "k": None, "target": "phasor", "call_tol": None,
         "scaled": "unscaled"}]))
    return out


def _small_scope(rng, n):
    """thorough tier: systematic small scope — every sign pattern in {-1,0,1}^3 as the single row over
    the three site phases, every schedule in {0,8,16}^3 (one period), the limit placed at the
    phase-aware or the linear magnitude ± one tolerance (sampled down to n cases)."""
    site = [{"id": "A", "V": 208, "phase": 30}, {"id": "B", "V": 208, "phase": -90}, {"id": "C", "V": 208, "phase": 150}]
    out = []
    vals = [0.0, 8.0, 16.0]
    for a in range(27):
        row = [float((a // 3 ** j) % 3 - 1) for j in range(3)]
        if not any(row):
            continue
        for b in range(1, 27):
            x = [vals[(b // 3 ** j) % 3] for j in range(3)]
            z = abs(sum(r * v * _phasor(s["phase"]) for r, v, s in zip(row, x, site)))
            lin = sum(abs(r) * v for r, v in zip(row, x))
            for base, tg in ((z, "phasor"), (lin, "linear")):
                for k in (-1.0, 1.0):
                    lim = base - DEF_VT + k * DEF_VT
                    if lim <= 0:
                        continue
                    out.append({"stations": site, "constraints": [{"name": "r", "coeffs": {s["id"]: r for s, r in zip(site, row) if r},
                                                                   "limit": lim}],
                                "net_tol": None, "call_tol": None, "sched": {s["id"]: [v] for s, v in zip(site, x)},
                                "exact": False, "k": k, "angles": "site", "shape": "small-scope", "target": tg})
    rng.shuffle(out)
    return out[:n]


def generate(rng, n, tier):
    out = []
    if tier == "thorough":
        out = _small_scope(rng, n // 4)
    return out + [_gen_case(rng, exact=(i % 5 == 4), history=(i % 3 == 0)) for i in range(n - len(out))]


# ------------------------------------------------------------------ implementation

def _call(f):
    try:
        r = f()
        return bool(r)
    except Exception as e:  # noqa
        n = type(e).__name__
        return "err:" + ("InvalidSchedule" if n == "InvalidScheduleError" else n)


def _start():
    return datetime(2020, 1, 1)


def _build(case):
    from acnportal.acnsim.network import ChargingNetwork, Current
    from acnportal.acnsim.models import EVSE
    from acnportal.acnsim import Simulator, EventQueue, Interface
    from acnportal.algorithms import BaseAlgorithm
    # tol_by = "assign": the tolerances are ASSIGNED to the public attributes after the last station / constraint was added
    # (the only way to set them on networks built by a factory, e.g. the predefined sites), not passed to the constructor
    assign = bool(case.get("net_tol")) and case.get("tol_by") == "assign"
    net = ChargingNetwork(*case["net_tol"]) if (case.get("net_tol") and not assign) else ChargingNetwork()
    for s in case["stations"]:
        net.register_evse(EVSE(s["id"], max_rate=32), s["V"], s["phase"])
    for c in case["constraints"]:
        net.add_constraint(Current(dict(c["coeffs"])), c["limit"], name=c["name"])
    if assign and case.get("tol_probe"):
        try:                      # the network has been asked once under its first tolerances before they are changed
            net.is_feasible(np.zeros((len(case["stations"]), 1)))
        except Exception:  # noqa: BLE001
            pass
    if assign:
        net.violation_tolerance, net.relative_tolerance = case["net_tol"][0], case["net_tol"][1]
    sim = Simulator(net, BaseAlgorithm(), EventQueue(), _start(), verbose=False)
    return net, Interface(sim), sim


def _json_round_trip(cls, obj, via):
    """cls.from_json(obj.to_json()) as a string, through a file-like buffer, or through a file on disk"""
    if via == "str":
        return cls.from_json(obj.to_json())
    if via == "buf":
        import io
        b = io.StringIO()
        obj.to_json(b)
        b.seek(0)
        return cls.from_json(b)
    if via == "path":
        import os
        import tempfile
        with tempfile.TemporaryDirectory(prefix="verif_C06_") as d:
            path = os.path.join(d, "saved.json")
            obj.to_json(path)
            return cls.from_json(path)
    raise ValueError(via)


def _restore(net, iface, sim, op):
    """save and restore the objects under test; returns the (network, Interface, simulator) the scenario
    continues on.  Nothing of the old objects is used afterwards."""
    import copy
    import pickle
    import warnings
    from acnportal.acnsim.network import ChargingNetwork
    from acnportal.acnsim import Simulator, EventQueue, Interface
    from acnportal.algorithms import BaseAlgorithm
    for _ in range(int(op.get("times", 1))):
        with warnings.catch_warnings():
            warnings.simplefilter("ignore")
            if op["level"] == "net":
                net = _json_round_trip(ChargingNetwork, net, op["via"])
                sim = Simulator(net, BaseAlgorithm(), EventQueue(), _start(), verbose=False)
            elif op["level"] == "sim":
                sim = _json_round_trip(Simulator, sim, op["via"])
                sim.update_scheduler(BaseAlgorithm())
                net = sim.network
            else:
                sim = copy.deepcopy(sim) if op["via"] == "deepcopy" else pickle.loads(pickle.dumps(sim))
                net = sim.network
        iface = sim.scheduler.interface if op.get("iface") == "registered" else Interface(sim)
    return net, iface, sim


def _run_schedulers(case):
    """a constraint-free network must be usable by schedulers: run two real ones on it."""
    from acnportal.acnsim.network import ChargingNetwork
    from acnportal.acnsim.models import EVSE, EV, Battery
    from acnportal.acnsim import Simulator, EventQueue
    from acnportal.acnsim.events import PluginEvent
    from acnportal.algorithms import UncontrolledCharging, SortedSchedulingAlgo, first_come_first_served
    out = {}
    for name, mk in (("uncontrolled", UncontrolledCharging), ("sorted_fcfs", lambda: SortedSchedulingAlgo(first_come_first_served))):
        try:
            net = ChargingNetwork(*case["net_tol"]) if case.get("net_tol") else ChargingNetwork()
            for s in case["stations"]:
                net.register_evse(EVSE(s["id"], max_rate=32), s["V"], s["phase"])
            sid = case["stations"][0]["id"]
            ev = EV(0, 3, 2.0, sid, "sess0", Battery(40, 0, 7))
            sim = Simulator(net, mk(), EventQueue([PluginEvent(0, ev)]), datetime(2020, 1, 1), verbose=False)
            sim.run()
            out[name] = {"err": None, "pilot0": float(sim.pilot_signals[0, 0]), "delivered": float(ev.energy_delivered)}
        except Exception as e:  # noqa
            out[name] = {"err": type(e).__name__}
    return out


def _apply_ops_impl(net, iface, sim, ops):
    from acnportal.acnsim.network import Current
    for o in ops:
        if o["op"] == "add":
            net.add_constraint(Current(dict(o["coeffs"])), o["limit"], name=o["name"])
        elif o["op"] == "remove":
            net.remove_constraint(o["name"])
        elif o["op"] == "update":
            net.update_constraint(o["name"], Current(dict(o["coeffs"])), o["limit"], new_name=o.get("new_name"))
        elif o["op"] == "restore":
            net, iface, sim = _restore(net, iface, sim, o)
    return net, iface, sim


def run_impl(case):
    net, iface, sim = _build(case)
    # the tolerances of the network AS BUILT (what `None` in the case means); restored objects are judged
    # against these, never against their own attributes
    built_tol = [float(net.violation_tolerance), float(net.relative_tolerance)]
    views = _views(case)
    if case.get("restore"):
        try:
            net, iface, sim = _restore(net, iface, sim, case["restore"])
        except Exception as ex:  # noqa
            return {"restore_err": f"{type(ex).__name__}: {ex}"}
    obs = _query(views[0], net, iface, built_tol)
    if len(views) > 1:
        obs["history"] = []
        for v in views[1:]:
            try:
                net, iface, sim = _apply_ops_impl(net, iface, sim, v["ops"])
            except Exception as ex:  # noqa
                obs["history"].append({"op_err": f"{type(ex).__name__}: {ex}"})
                break
            # the SAME network and the SAME Interface object (or what the last restore returned) are queried again
            obs["history"].append(_query(v, net, iface, built_tol))
    return obs


def _query(case, net, iface, built_tol=None):
    """all entry points on one (network, Interface) pair.  Everything station-indexed is exchanged with the
    implementation PER STATION ID through its public orderings (`network.station_ids` for the network side,
    `InfrastructureInfo.get_station_index` for the algorithm side, the mapping itself for the Interface); what
    the objects say about a station (coefficients, phase, voltage) is recorded by id for the oracle, and the
    phasor coordinates handed to the model are computed from the CASE's angles, not read back from the object."""
    from acnportal.algorithms.utils import infrastructure_constraints_feasible as icf
    ids = [s["id"] for s in case["stations"]]
    cvt, crt = case.get("call_tol") or (None, None)
    vt, rt = _tols(case, built_tol)
    sids = [str(x) for x in net.station_ids]
    obs = {"station_ids": sids,
           "matrix": None if net.constraint_matrix is None else [[float(x) for x in r] for r in net.constraint_matrix],
           "limits": [float(x) for x in net.magnitudes], "cids": list(net.constraint_index),
           "net_tol": [float(net.violation_tolerance), float(net.relative_tolerance)]}
    if built_tol is not None:
        obs["built_tol"] = list(built_tol)
    try:
        obs["phase_by_id"] = {str(k): float(v) for k, v in net.phase_angles.items()}
        obs["volt_by_id"] = {str(k): float(v) for k, v in net.voltages.items()}
    except Exception as ex:  # noqa
        obs["station_data_err"] = type(ex).__name__
    # the phasor coordinates exactly as the code computes them from the registered angles
    ang = np.array([float(s["phase"]) for s in case["stations"]], dtype=float)
    e = np.exp(1j * np.deg2rad(ang))
    rad = np.deg2rad(ang)
    obs["c_net"], obs["s_net"] = [float(x) for x in e.real], [float(x) for x in e.imag]
    obs["c_alg"], obs["s_alg"] = [float(x) for x in np.cos(rad)], [float(x) for x in np.sin(rad)]
    sched = {k: list(v) for k, v in case["sched"].items()}
    # interface side
    obs["iface"] = _call(lambda: iface.is_feasible(sched, False, cvt, crt))
    obs["iface_lin"] = _call(lambda: iface.is_feasible(sched, True, cvt, crt))
    if cvt is None and crt is None:
        # the defaulted call must equal the call with the network's own tolerances spelled out
        obs["iface_explicit"] = _call(lambda: iface.is_feasible(sched, False, vt, rt))
    # infrastructure view
    info = None
    try:
        info = iface.infrastructure_info()
        obs["infra"] = {"err": None, "shape": [int(x) for x in info.constraint_matrix.shape],
                        "nlims": len(info.constraint_limits), "ncids": len(info.constraint_ids),
                        "nstations": len(info.station_ids),
                        "same_matrix": bool(np.array_equal(info.constraint_matrix, net.constraint_matrix))
                        if net.constraint_matrix is not None else None,
                        "phases": [float(x) for x in info.phases],
                        "station_ids": [str(x) for x in info.station_ids],
                        "voltages": [float(x) for x in info.voltages],
                        "matrix": [[float(x) for x in r] for r in info.constraint_matrix],
                        "limits": [float(x) for x in info.constraint_limits],
                        "cids": [str(x) for x in info.constraint_ids]}
        try:
            obs["infra"]["index_of"] = {i: int(info.get_station_index(i)) for i in ids}
        except Exception as ex:  # noqa
            obs["infra"]["index_err"] = type(ex).__name__
        gc = iface.get_constraints()
        obs["infra"]["get_constraints_shape"] = [int(x) for x in gc.constraint_matrix.shape]
    except Exception as ex:  # noqa
        obs["infra"] = {"err": type(ex).__name__}
    if not case["constraints"] and not case.get("step"):
        obs["schedulers"] = _run_schedulers(case)
    # dense matrix: `S` in the case's station order is the specification (oracle, model); the arrays handed to
    # the implementation carry the same rows in the implementation's own public station order
    lens = {len(v) for v in sched.values()}
    if len(sched) > 0 and len(lens) == 1:
        T = lens.pop()
        rows = dict(zip(ids, _dense(case["stations"], sched, T)))
        obs["S"] = [[float(x) for x in rows[i]] for i in ids]
        if sorted(sids) != sorted(ids):
            obs["station_ids_foreign"] = True
            return obs
        S = np.array([rows[i] for i in sids], dtype=float).reshape(len(ids), T)
        kw = {}
        if cvt is not None:
            kw["violation_tolerance"] = cvt
        if crt is not None:
            kw["relative_tolerance"] = crt
        obs["net"] = _call(lambda: net.is_feasible(S, **kw))
        obs["net_lin"] = _call(lambda: net.is_feasible(S, linear=True, **kw))
        if case["constraints"]:
            try:
                z = net.constraint_current(S)
                obs["sq"] = [[float(v.real * v.real + v.imag * v.imag) for v in r] for r in z]
                obs["absz"] = [[float(abs(v)) for v in r] for r in z]
                zl = net.constraint_current(S, linear=True)
                obs["lin"] = [[float(v.real) for v in r] for r in zl]
                obs["lin_imag_zero"] = bool(np.all(zl.imag == 0))
            except Exception as ex:  # noqa
                obs["cc_err"] = type(ex).__name__
            sel = case.get("sel")
            if sel:
                for key, lin in (("sel_sq", False), ("sel_lin", True)):
                    try:
                        zz = net.constraint_current(S, constraints=sel["names"], time_indices=sel["ts"], linear=lin)
                        obs[key] = [[float(v.real) if lin else float(v.real * v.real + v.imag * v.imag) for v in r]
                                    for r in zz]
                    except Exception as ex:  # noqa
                        obs[key] = "err:" + type(ex).__name__
        if info is not None and "index_of" in obs["infra"] and sorted(obs["infra"]["index_of"].values()) == list(range(len(ids))):
            # rates for the algorithm side are placed with InfrastructureInfo.get_station_index, as algorithms do
            SA = np.zeros((len(ids), T), dtype=float)
            for i in ids:
                SA[obs["infra"]["index_of"][i]] = rows[i]
            obs["alg"] = _call(lambda: icf(SA, info, False, vt, rt))
            obs["alg_lin"] = _call(lambda: icf(SA, info, True, vt, rt))
            if T == 1:
                obs["alg1"] = _call(lambda: icf(SA[:, 0], info, False, vt, rt))
                obs["alg1_lin"] = _call(lambda: icf(SA[:, 0], info, True, vt, rt))
            if cvt is None and crt is None and not case.get("net_tol"):
                # default network, default call: the algorithm side's own defaults must agree
                obs["alg_default"] = _call(lambda: icf(SA, info))
    return obs


# ------------------------------------------------------------------ model

def model_request(case, obs):
    if "__harness_exception__" in obs or "restore_err" in obs:
        return None
    views = _views(case)
    if len(views) == 1:
        return _req(views[0], obs)
    reqs = [_req(views[0], obs)]
    for v, o in zip(views[1:], obs.get("history", [])):
        if "op_err" in o:
            break
        reqs.append(_req(v, o))
    return {"batch": reqs}


def _req(case, obs):
    M = _matrix(case)
    cvt, crt = case.get("call_tol") or (None, None)
    req = {
        "stations": [s["id"] for s in case["stations"]],
        "has_matrix": bool(case["constraints"]) or bool(case.get("step")), "cols": len(case["stations"]),
        "M": [[f2b(x) for x in r] for r in M], "lims": [f2b(c["limit"]) for c in case["constraints"]],
        "cids": [c["name"] for c in case["constraints"]],
        "c_net": [f2b(x) for x in obs["c_net"]], "s_net": [f2b(x) for x in obs["s_net"]],
        "c_alg": [f2b(x) for x in obs["c_alg"]], "s_alg": [f2b(x) for x in obs["s_alg"]],
        "voltages": [f2b(s["V"]) for s in case["stations"]],
        # null = the constructor's defaults, which the driver takes from the regenerated Gen/Consts.lean
        "net_vt": f2b(case["net_tol"][0]) if case.get("net_tol") else None,
        "net_rt": f2b(case["net_tol"][1]) if case.get("net_tol") else None,
        "vt": None if cvt is None else f2b(cvt), "rt": None if crt is None else f2b(crt),
        "sched": [[k, [f2b(x) for x in v]] for k, v in case["sched"].items()],
        "S": [[f2b(x) for x in r] for r in obs["S"]] if "S" in obs else None,
        "x": [f2b(r[0]) for r in obs["S"]] if "S" in obs and obs["S"] and len(obs["S"][0]) == 1 else None,
        "sel": case.get("sel") if "sel_sq" in obs else None,
        # number of save/restore round trips the objects have been through before this query: the driver sends
        # the model network through its own codec (AcnModel/FeasRestore.lean) that many times
        "restores": int(case.get("restores") or 0),
    }
    return req


def _mres(v):
    """model result → harness encoding (bool or 'err:<name>')."""
    return v if isinstance(v, bool) else "err:" + str(v)


def compare(case, obs, model):
    views = _views(case)
    if len(views) == 1:
        return _compare_one(views[0], obs, model)
    ms = model.get("batch") or []
    out = _compare_one(views[0], obs, ms[0]) if ms else ["model: no batch answer"]
    for i, (v, o) in enumerate(zip(views[1:], obs.get("history", []))):
        if "op_err" in o:
            out.append(f"after step {i + 1}: constraint operation raised {o['op_err']}")
            break
        if i + 1 >= len(ms):
            out.append(f"after step {i + 1}: model answer missing")
            break
        out.extend(f"after step {i + 1} ({'+'.join(op['op'] for op in v['ops'])}): {d}" for d in _compare_one(v, o, ms[i + 1]))
    return out


def _on_razor_edge(case, obs):
    """some aggregate of this query lies within 1e-9 (relative) of its bound while the arithmetic is NOT exact (a phase angle
    other than 0, or a non-dyadic stream): numpy's exp(1j·φ) and the model's cos / sin may differ in the last bit, so the two
    DECISIONS may legitimately differ there (DESIGN §4); off the exact stream such inputs are not compared on decisions"""
    try:
        if "S" not in obs:
            return False
        rows, exact, _T = _independent(case, obs["S"], obs.get("built_tol"))
        if exact:
            return False
        for r in rows:
            b = float(r["bound"])
            for key in ("mag", "doc", "blind"):
                if any(abs(float(x) - b) <= 1e-9 * max(1.0, abs(b)) for x in r[key]):
                    return True
    except Exception:  # noqa: BLE001
        return False
    return False


def _compare_one(case, obs, model):
    out = []
    razor = None
    for k in ("iface", "iface_lin", "net", "net_lin", "alg", "alg_lin", "alg1", "alg1_lin"):
        if k in obs:
            if k not in model:
                out.append(f"{k}: impl={obs[k]} model=<absent>")
            elif obs[k] != _mres(model[k]):
                if isinstance(obs[k], bool) and isinstance(_mres(model[k]), bool):
                    razor = _on_razor_edge(case, obs) if razor is None else razor
                    if razor:
                        continue
                out.append(f"{k}: impl={obs[k]} model={_mres(model[k])}")
    mi, ii = model["infra"], obs["infra"]
    if (ii["err"] is None) != (mi["err"] is None):
        out.append(f"infrastructure_info: impl err={ii['err']} model err={mi['err']}")
    elif ii["err"] is None:
        for k in ("shape", "nlims", "ncids", "nstations"):
            if ii[k] != mi[k]:
                out.append(f"infrastructure_info.{k}: impl={ii[k]} model={mi[k]}")
    if "S" in obs and model.get("dense") is not None:
        md = [[b2f(x) for x in r] for r in model["dense"]]
        if md != obs["S"]:
            out.append(f"densify: harness={obs['S']} model={md}")
    for k in ("sel_sq", "sel_lin"):
        if k in obs and k in model and (isinstance(obs[k], str) or isinstance(model[k], str)):
            if obs[k] != ("err:" + model[k] if isinstance(model[k], str) else model[k]):
                out.append(f"{k}: impl={obs[k]} model={model[k]}")
    for k in ("sq", "lin", "sel_sq", "sel_lin"):
        if k in obs and k in model and not isinstance(obs[k], str) and not isinstance(model[k], str):
            mm = [[b2f(x) for x in r] for r in model.get(k, [])]
            if len(mm) != len(obs[k]) or any(len(a) != len(b) for a, b in zip(mm, obs[k])):
                out.append(f"{k}: shape impl={np.shape(obs[k])} model={np.shape(mm)}")
            else:
                for i, (ra, rb) in enumerate(zip(obs[k], mm)):
                    for t, (a, b) in enumerate(zip(ra, rb)):
                        if not close(a, b):
                            out.append(f"{k}[{i}][{t}]: impl={a!r} model={b!r}")
    return out


# ------------------------------------------------------------------ property oracle

def _independent(case, S, net_tol=None):
    """Exact (Fractions, angle-0 dyadic stream) or complex-double evaluation, independent of the model
    and of numpy: per constraint/period the phase-aware magnitude, the documented linear aggregate
    Σ|a_j|·S_jt, the sign-blind |Σ a_j·S_jt|, and the bound limit + max(vt, rt·limit)."""
    M = _matrix(case)
    vt, rt = _tols(case, net_tol)
    exact = bool(case.get("exact")) and all(s["phase"] == 0 for s in case["stations"])
    T = len(S[0]) if S else 0
    rows = []
    for row, c in zip(M, case["constraints"]):
        lim = c["limit"]
        if exact:
            b = Fraction(lim) + max(Fraction(vt), Fraction(rt) * Fraction(lim))
        else:
            b = lim + max(vt, rt * lim)
        mags, docs, blind = [], [], []
        for t in range(T):
            if exact:
                z = sum(Fraction(a) * Fraction(S[j][t]) for j, a in enumerate(row))
                mags.append(abs(z))
                docs.append(abs(sum(abs(Fraction(a)) * Fraction(S[j][t]) for j, a in enumerate(row))))
                blind.append(abs(z))
            else:
                z = sum(a * S[j][t] * _phasor(case["stations"][j]["phase"]) for j, a in enumerate(row))
                mags.append(abs(z))
                docs.append(abs(math.fsum(abs(a) * S[j][t] for j, a in enumerate(row))))
                blind.append(abs(math.fsum(a * S[j][t] for j, a in enumerate(row))))
        rows.append({"bound": b, "mag": mags, "doc": docs, "blind": blind})
    return rows, exact, T


def _verdict(rows, key, exact):
    """True / False / None(abstain: some constraint within 1e-9 relative of its edge and none definitely over)."""
    unsure = False
    for r in rows:
        b = r["bound"]
        for v in r[key]:
            if exact:
                if v > b:
                    return False
            elif v == 0:
                # an aggregate whose terms are all exactly zero is exact in doubles, and `b` is computed
                # with the code's own operations: 0 <= b is decided exactly (limit 0 with tolerance 0 is an
                # exact edge, not a rounding hazard)
                if b < 0:
                    return False
            else:
                slack = EDGE * max(1.0, abs(b), abs(v))
                if v > b + slack:
                    return False
                if v > b - slack:
                    unsure = True
    return None if unsure else True


def _norm_time_verdict(rows, exact):
    """what the unrepaired algorithm-side linear mode computes on 2-D input: ‖(Σ_j|a_j|S_jt)_t‖₂ ≤ bound."""
    unsure = False
    for r in rows:
        b = r["bound"]
        n2 = sum((Fraction(v) if exact else v) ** 2 for v in r["doc"])
        if exact:
            if b < 0 or n2 > b * b:
                return False
        elif n2 == 0:
            if b < 0:
                return False
        else:
            n = math.sqrt(n2)
            slack = EDGE * max(1.0, abs(b), n)
            if n > b + slack:
                return False
            if n > b - slack:
                unsure = True
    return None if unsure else True


def oracle(case, obs):
    # de-duplicate by kind, keep the first detail
    seen, out = set(), []
    for f in _oracle(case, obs):
        if f["kind"] not in seen:
            seen.add(f["kind"])
            out.append(f)
    return out


def _oracle(case, obs):
    views = _views(case)
    if "restore_err" in obs:
        return [{"kind": "restore_exception", "detail": f"save/restore {case['restore'].get('how')} of freshly built "
                 f"objects raised {obs['restore_err']}"}]
    fails = list(_oracle_one(views[0], obs))
    for i, (v, o) in enumerate(zip(views[1:], obs.get("history", []))):
        what = "+".join(op["op"] + ("(" + op.get("how", op.get("pos", "")) + ")" if op["op"] != "add" else "") for op in v["ops"])
        if "op_err" in o:
            fails.append({"kind": "constraint_operation_exception", "detail": f"step {i + 1} ({what}): {o['op_err']}"})
            break
        for f in _oracle_one(v, o):
            fails.append({"kind": f["kind"], "detail": f"after step {i + 1} ({what}) on the same network and Interface"
                          f"{' (or what the save/restore returned)' if v.get('restores') else ''}, "
                          f"judged against the CURRENT constraints {[c['name'] for c in v['constraints']]}: " + f["detail"]})
    return fails


def _oracle_one(case, obs):
    fails = []

    def fail(kind, detail):
        fails.append({"kind": kind, "detail": detail})

    ids = [s["id"] for s in case["stations"]]
    sched = case["sched"]
    cons = case["constraints"]
    where = f" [objects went through {case['restores']} save/restore round trip(s)]" if case.get("restores") else ""
    # 0. what the network says about each station, BY STATION ID, is what was registered / specified: the
    #    coefficient column, the phase angle, the voltage; and the tolerances are those it was built with
    sids = obs["station_ids"]
    if sorted(sids) != sorted(ids) or len(set(sids)) != len(sids):
        fail("station_ids_not_as_registered", f"network.station_ids={sids} registered={ids}{where}")
    elif cons:
        M = obs["matrix"]
        if M is None or len(M) != len(cons) or any(len(r) != len(sids) for r in M):
            fail("matrix_not_as_specified", f"stored={M} for {len(cons)} constraints x {len(ids)} stations{where}")
        else:
            for j, i in enumerate(sids):
                got = [r[j] for r in M]
                want = [float(c["coeffs"].get(i, 0.0)) for c in cons]
                if got != want:
                    fail("matrix_not_as_specified", f"coefficients of station {i} (column {j} of constraint_matrix, "
                         f"network.station_ids={sids}): stored={got} specified={want} for constraints "
                         f"{[c['name'] for c in cons]}{where}")
                    break
    if obs["cids"] != [c["name"] for c in cons] or obs["limits"] != [float(c["limit"]) for c in cons]:
        fail("matrix_not_as_specified", f"names/limits stored={obs['cids']}/{obs['limits']} "
             f"specified={[c['name'] for c in cons]}/{[c['limit'] for c in cons]}{where}")
    if "station_data_err" in obs:
        fail("station_data_not_as_registered", f"network.phase_angles / voltages raised {obs['station_data_err']}{where}")
    else:
        for s_ in case["stations"]:
            got = (obs["phase_by_id"].get(s_["id"]), obs["volt_by_id"].get(s_["id"]))
            if got != (float(s_["phase"]), float(s_["V"])):
                fail("station_data_not_as_registered", f"station {s_['id']}: network.phase_angles / voltages say "
                     f"{got}, registered with ({float(s_['phase'])}, {float(s_['V'])}){where}")
                break
    want_tol = [float(x) for x in case["net_tol"]] if case.get("net_tol") else obs.get("built_tol")
    if want_tol is not None and obs["net_tol"] != want_tol:
        fail("network_tolerances_not_as_built", f"violation/relative tolerance of the network = {obs['net_tol']}, "
             f"built with {want_tol}{where}")
    # 1. infrastructure view
    inf = obs["infra"]
    if inf["err"] is not None:
        if not cons and inf["err"] == "AttributeError":
            fail("infra_unconstrained_crash", f"infrastructure_info() on a network with {len(ids)} station(s) and no "
                 f"constraint raised {inf['err']}")
        else:
            fail("infrastructure_info_exception", f"infrastructure_info() raised {inf['err']}")
    else:
        if inf["shape"] != [len(cons), len(ids)] or inf["nlims"] != len(cons) or inf["ncids"] != len(cons) \
                or inf["nstations"] != len(ids) or inf.get("get_constraints_shape") != [len(cons), len(ids)]:
            fail("infrastructure_info_shape", f"{inf} for {len(cons)} constraints x {len(ids)} stations")
        if inf.get("same_matrix") is False:
            fail("infrastructure_info_shape", "infrastructure_info().constraint_matrix differs from the network's")
        # the view by station ID: get_station_index(id) points at that station's coefficients, phase and voltage
        iids = inf.get("station_ids")
        if iids is not None:
            idx = inf.get("index_of")
            if sorted(iids) != sorted(ids) or idx is None or any(not (0 <= idx[i] < len(iids)) or iids[idx[i]] != i for i in ids):
                fail("infrastructure_info_station_data_wrong", f"station_ids={iids} get_station_index={idx} "
                     f"({inf.get('index_err')}) registered={ids}{where}")
            elif len(inf["phases"]) == len(ids) and len(inf["voltages"]) == len(ids) and \
                    all(len(r) == len(ids) for r in inf["matrix"]) and len(inf["matrix"]) == len(cons):
                for s_ in case["stations"]:
                    j = idx[s_["id"]]
                    got = (inf["phases"][j], inf["voltages"][j], [r[j] for r in inf["matrix"]])
                    want = (float(s_["phase"]), float(s_["V"]), [float(c["coeffs"].get(s_["id"], 0.0)) for c in cons])
                    if got != want:
                        fail("infrastructure_info_station_data_wrong", f"station {s_['id']} (index {j}): (phase, voltage, "
                             f"coefficients) in infrastructure_info() = {got}, specified {want}{where}")
                        break
            if inf["cids"] != [c["name"] for c in cons] or inf["limits"] != [float(c["limit"]) for c in cons]:
                fail("infrastructure_info_station_data_wrong", f"constraint ids/limits {inf['cids']}/{inf['limits']} "
                     f"specified {[c['name'] for c in cons]}/{[c['limit'] for c in cons]}{where}")
    for name, r in (obs.get("schedulers") or {}).items():
        if r["err"] is not None:
            kind = "infra_unconstrained_crash" if r["err"] == "AttributeError" and inf["err"] == "AttributeError" \
                else "scheduler_unusable_without_constraints"
            fail(kind, f"{name} on the constraint-free network raised {r['err']}")
        elif not (r["pilot0"] > 0 and r["delivered"] > 0):
            fail("scheduler_unusable_without_constraints", f"{name}: pilot {r['pilot0']} delivered {r['delivered']}")
    # 2. interface-side special cases
    lens = {len(v) for v in sched.values()}
    if len(sched) == 0:
        for k in ("iface", "iface_lin"):
            if obs[k] is not True:
                fail("empty_mapping_not_feasible", f"{k}={obs[k]}")
        return fails
    if len(lens) > 1:
        for k in ("iface", "iface_lin"):
            if obs[k] != "err:InvalidSchedule":
                fail("ragged_not_refused", f"{k}={obs[k]} for row lengths {sorted(lens)}")
        return fails
    S = _dense(case["stations"], sched, lens.pop())
    if obs.get("S") != S:
        fail("oracle_exception", "harness densification differs from oracle's")
    # 3. no exceptions on well-formed input
    for k in ("iface", "iface_lin", "net", "net_lin", "alg", "alg_lin", "alg1", "alg1_lin", "iface_explicit", "alg_default"):
        v = obs.get(k)
        if isinstance(v, str):
            if k == "alg1_lin" and v == "err:AxisError":
                fail("alg_linear_not_per_period", "infrastructure_constraints_feasible(linear=True) on a 1-D rate "
                     "vector raised AxisError")
            else:
                fail("feasibility_check_exception", f"{k} raised {v}")
    if "cc_err" in obs:
        fail("feasibility_check_exception", f"constraint_current raised {obs['cc_err']}")
    # 4. no constraints ⇒ everything is feasible
    if not cons:
        for k in ("iface", "iface_lin", "net", "net_lin", "alg", "alg_lin", "alg1", "alg1_lin"):
            if k in obs and obs[k] is False:
                fail("unconstrained_not_feasible", f"{k}=False on a network without constraints")
        return fails
    rows, exact, T = _independent(case, S, obs.get("built_tol"))
    exp = _verdict(rows, "mag", exact)
    doc = _verdict(rows, "doc", exact)
    blind = _verdict(rows, "blind", exact)
    # 5. phase-aware mode = phasor definition, on all three entry points
    if exp is not None:
        for k in ("net", "iface", "alg", "alg1", "iface_explicit", "alg_default"):
            if isinstance(obs.get(k), bool) and obs[k] != exp:
                worst = max((float(v - r["bound"]) for r in rows for v in r["mag"]), default=None)
                fail("phasor_check_wrong" if k == "net" else "three_disagree",
                     f"{k}={obs[k]} but max_t |Σ_j M_ij S_jt e^(iφ_j)| ≤ limit+tol is {exp} (worst excess {worst})")
    # reported magnitudes
    if "absz" in obs and not exact:
        for i, r in enumerate(rows):
            for t, v in enumerate(r["mag"]):
                if not close(obs["absz"][i][t], v):
                    fail("constraint_current_wrong", f"|constraint_current|[{i}][{t}]={obs['absz'][i][t]} expected {v}")
    sel = case.get("sel")
    if sel and "sel_sq" in obs and "absz" in obs:
        names = [c["name"] for c in cons]
        ri = [i for i, n in enumerate(names) if sel["names"] is None or n in sel["names"]]
        ti = list(range(T)) if sel["ts"] is None else sel["ts"]
        if any(t >= T for t in ti):
            if obs["sel_sq"] != "err:IndexError":
                fail("constraint_current_selection_wrong", f"time_indices {ti} beyond {T} periods gave {obs['sel_sq']}")
        elif isinstance(obs["sel_sq"], str):
            fail("feasibility_check_exception", f"constraint_current(constraints={sel['names']}, time_indices={ti}) raised {obs['sel_sq']}")
        else:
            want_sq = [[float(rows[i]["mag"][t]) ** 2 for t in ti] for i in ri]
            got = obs["sel_sq"]
            if len(got) != len(want_sq) or any(len(a) != len(b) for a, b in zip(got, want_sq)) or \
                    any(not close(a, b) for ra, rb in zip(got, want_sq) for a, b in zip(ra, rb)):
                fail("constraint_current_selection_wrong",
                     f"constraint_current(constraints={sel['names']}, time_indices={sel['ts']})² = {got}, expected rows {ri} x periods {ti} of the full table: {want_sq}")
    # 6. linear mode: documented aggregate Σ|a_j| S_jt, agreement, conservativeness
    # the defect-specific classes (F4: sign-blind aggregate, F5: norm across time) are only named when the objects
    # describe every station as specified; a relabelled network is reported under the general classes
    spec = not any(f["kind"] in ("station_ids_not_as_registered", "matrix_not_as_specified", "station_data_not_as_registered",
                                 "infrastructure_info_station_data_wrong", "network_tolerances_not_as_built") for f in fails)
    sign_blind = False
    if "lin" in obs:
        for i, r in enumerate(rows):
            for t, v in enumerate(r["doc"]):
                got = obs["lin"][i][t]
                if not close(got, float(v)):
                    if spec and close(got, float(r["blind"][t])):
                        sign_blind = True
                        fail("net_linear_ignores_coefficient_signs",
                             f"constraint_current(linear=True)[{i}][{t}]={got} = |Σ a_j S_j|, documented Σ|a_j| S_j = {float(v)}")
                    else:
                        fail("net_linear_wrong", f"constraint_current(linear=True)[{i}][{t}]={got} expected {float(v)}")
                    break
            else:
                continue
            break
    nonneg = all(v >= 0 for r in S for v in r)
    if doc is not None:
        for k in ("net_lin", "iface_lin"):
            if isinstance(obs.get(k), bool) and obs[k] != doc:
                if spec and ((blind is not None and obs[k] == blind) or (blind is None and sign_blind)):
                    fail("net_linear_ignores_coefficient_signs",
                         f"{k}={obs[k]}: decided on |Σ a_j S_j| instead of Σ|a_j| S_j (which gives {doc})")
                else:
                    fail("net_linear_wrong", f"{k}={obs[k]} but Σ|a_j| S_j ≤ limit+tol is {doc}")
        nt = _norm_time_verdict(rows, exact)
        for k in ("alg_lin", "alg1_lin"):
            if isinstance(obs.get(k), bool) and obs[k] != doc:
                if spec and k == "alg_lin" and T != 1 and nt is not None and obs[k] == nt:
                    fail("alg_linear_not_per_period",
                         f"alg_lin={obs[k]}: the 2-norm across the {T} periods was compared with the limit "
                         f"(per period Σ|a_j| S_j ≤ limit+tol is {doc})")
                else:
                    fail("alg_linear_wrong", f"{k}={obs[k]} but Σ|a_j| S_j ≤ limit+tol is {doc}")
    # conservativeness, stated directly on the observed answers
    if nonneg and exp is False:
        for k in ("net_lin", "iface_lin", "alg_lin", "alg1_lin"):
            if obs.get(k) is True:
                if spec and k in ("net_lin", "iface_lin") and doc is False and (blind is True or (blind is None and sign_blind)):
                    fail("net_linear_ignores_coefficient_signs",
                         f"{k} accepts a non-negative schedule that the phase-aware check rejects")
                else:
                    fail("linear_not_conservative", f"{k} accepts a non-negative schedule that the phase-aware check rejects")
    return fails


def nontrivial(case, obs):
    if "__harness_exception__" in obs or "restore_err" in obs:
        return False
    if not case["constraints"] or case.get("history"):
        return True
    lens = {len(v) for v in case["sched"].values()}
    if len(lens) > 1:
        return True
    if case.get("k") is None or abs(case["k"]) > 3:
        return False
    for c in case["constraints"]:
        vs = [v for v in c["coeffs"].values() if v != 0]
        if len(vs) >= 2:
            return True
    return False


def features(case, obs):
    if "__harness_exception__" in obs:
        return ["harness_exception"]
    if "restore_err" in obs:
        return ["restore_err"]
    ids_ = [s["id"] for s in case["stations"]]
    out = ["id_order:" + ("single" if len(ids_) < 2 else "sorted" if ids_ == sorted(ids_) else "unsorted"),
           "restore:pre:" + (case["restore"]["how"] if case.get("restore") else "none")]
    if case.get("restore") or any(o["op"] == "restore" for st_ in case.get("history") or [] for o in st_["ops"]):
        out.append("restore:some/" + ("ids_unsorted" if ids_ != sorted(ids_) else "ids_sorted"))
    out += [f"stations:{len(case['stations'])}", f"constraints:{len(case['constraints'])}",
           f"angles:{case.get('angles')}", f"shape:{case.get('shape')}", f"k:{case.get('k')}" if not case.get("exact") else
           f"exact_k:{case.get('k')}", f"target:{case.get('target')}" if case.get("k") is not None else "unscaled"]
    lens = {len(v) for v in case["sched"].values()}
    out.append("mapping:empty" if not case["sched"] else "mapping:ragged" if len(lens) > 1 else f"periods:{min(lens)}")
    if any(k not in [s["id"] for s in case["stations"]] for k in case["sched"]):
        out.append("mapping:foreign_key")
    if len([k for k in case["sched"] if k in [s["id"] for s in case["stations"]]]) < len(case["stations"]):
        out.append("mapping:omits_station")
    out.append("net_tol:" + ("default" if not case.get("net_tol") else "custom"))
    ct = case.get("call_tol") or (None, None)
    out.append("call_tol:" + ("none" if ct[0] is None and ct[1] is None else "partial" if None in ct else "both"))
    vt, rt = _tols(case, obs.get("built_tol"))
    for c in case["constraints"]:
        out.append("tol:relative" if rt * c["limit"] > vt else "tol:absolute")
        if c["limit"] + max(vt, rt * c["limit"]) < 0:
            out.append("bound:negative")
        sg = {v > 0 for v in c["coeffs"].values() if v != 0}
        out.append("row:mixed_sign" if len(sg) == 2 else "row:one_sign")
    if "S" in obs and any(v < 0 for r in obs["S"] for v in r):
        out.append("schedule:has_negative")
    for k in ("net", "net_lin", "iface", "iface_lin", "alg", "alg_lin", "alg1", "alg1_lin"):
        if k in obs:
            out.append(f"{k}:{obs[k]}")
    out.append("infra:" + ("ok" if obs["infra"]["err"] is None else obs["infra"]["err"]))
    if case.get("history"):
        out.append(f"history:steps:{len(case['history'])}")
        for step, o in zip(case["history"], obs.get("history", [])):
            for op in step["ops"]:
                out.append("history:op:" + op["op"] + (":" + op["pos"] if "pos" in op else "") + (":" + op["how"] if "how" in op else ""))
            if any(op["op"] == "restore" for op in step["ops"]):
                kinds_ = [op["op"] for op in step["ops"]]
                out.append("history:restore:" + ("alone" if len(kinds_) == 1 else "first" if kinds_[0] == "restore" else
                                                  "last" if kinds_[-1] == "restore" else "between"))
            out.append("history:scaled:" + step.get("scaled", "?"))
            if "op_err" in o:
                out.append("history:op_err")
                continue
            for k in ("net", "iface", "alg"):
                if k in o:
                    out.append(f"history:{k}:{o[k]}")
    if "sel_sq" in obs:
        sel = case["sel"]
        out.append("current_select:" + ("names" if sel["names"] is not None else "all") + "/" +
                   ("times" if sel["ts"] is not None else "all") +
                   (":" + obs["sel_sq"] if isinstance(obs["sel_sq"], str) else ""))
    return out


def shrink(case, kind):
    """greedy: drop constraints, periods and stations while the same failure kind persists."""
    import copy

    def bad(c):
        try:
            return any(f["kind"] == kind for f in oracle(c, run_impl(c)))
        except Exception:
            return False

    cur = copy.deepcopy(case)
    if not bad(cur):
        return case
    # a failure that does not need the save/restore steps is reported without them
    c = copy.deepcopy(cur)
    c.pop("restore", None)
    for st_ in c.get("history") or []:
        st_["ops"] = [o for o in st_["ops"] if o["op"] != "restore"]
    if c != cur and bad(c):
        cur = c
    else:
        for o in [cur.get("restore")] + [o for st_ in cur.get("history") or [] for o in st_["ops"] if o["op"] == "restore"]:
            if o and o.get("times", 1) > 1:
                c = copy.deepcopy(cur)
                for oo in [c.get("restore")] + [oo for st_ in c.get("history") or [] for oo in st_["ops"] if oo["op"] == "restore"]:
                    if oo:
                        oo["times"] = 1
                        oo["how"] = oo["how"].replace("x2", "")
                if bad(c):
                    cur = c
                break
    changed = True
    while changed:
        changed = False
        if cur.get("history"):
            for cut in (1, len(cur["history"]) - 1):
                if 0 < cut <= len(cur["history"]) - 1 or (cut == 1 and len(cur["history"]) > 1):
                    c = copy.deepcopy(cur)
                    c["history"] = c["history"][:cut]
                    if bad(c):
                        cur, changed = c, True
                        break
            if changed:
                continue
            c = copy.deepcopy(cur)
            del c["history"]
            if bad(c):
                cur, changed = c, True
                continue
        for i in range(len(cur["constraints"])):
            c = copy.deepcopy(cur)
            if any(op.get("name") == c["constraints"][i]["name"] for st_ in c.get("history") or [] for op in st_["ops"]):
                continue
            del c["constraints"][i]
            if bad(c):
                cur, changed = c, True
                break
        if changed:
            continue
        if cur.get("history"):
            break
        T = max((len(v) for v in cur["sched"].values()), default=0)
        for t in range(T):
            c = copy.deepcopy(cur)
            c["sched"] = {k: v[:t] + v[t + 1:] for k, v in c["sched"].items()}
            if bad(c):
                cur, changed = c, True
                break
        if changed:
            continue
        for j in range(len(cur["stations"])):
            if len(cur["stations"]) <= 1:
                break
            c = copy.deepcopy(cur)
            sid = c["stations"][j]["id"]
            del c["stations"][j]
            c["sched"].pop(sid, None)
            for cc in c["constraints"]:
                cc["coeffs"].pop(sid, None)
            c["constraints"] = [cc for cc in c["constraints"] if cc["coeffs"]]
            if bad(c):
                cur, changed = c, True
                break
    return cur
