"""C10 — results are deterministic and independent of incidental ordering.

ORACLE on PAIRS of real implementation runs built from one scenario:
  twice        the same scenario run twice in-process                      -> bitwise identical, same orders
  stations     stations registered in a permuted order                     -> per-station rows keyed by id equal
  constraints  constraints added in a permuted order                       -> equal
  sessions     sessions / recompute events listed in a permuted order      -> per-session / per-station results equal
  shift        every arrival/departure/estimate/recompute/script entry +k  -> outputs shifted by k, first k columns 0
  combined     all of the above at once (this run is also compared with the Lean model, drv_C01)
  json_net     the `stations` run with the network replaced by type(net).from_json(net.to_json()) BEFORE the
               simulator is built                                          -> bitwise identical to the `stations` run
  json_sim     the `combined` run with the whole simulator replaced by Simulator.from_json(sim.to_json()) BEFORE
               run() (scheduler re-attached with update_scheduler)         -> bitwise identical to the `combined` run
  hashseed     the same runs in SUBPROCESSES with three different PYTHONHASHSEED values

A case is  {"sc": <scenario>, "var": {"stations": perm, "constraints": perm, "sessions": perm,
            "recomputes": perm, "shift": k}, "exact": bool, "ties": bool, "hashseeds": [..] | absent}
<sched> of a sorted algorithm may carry "opts": {"uninterrupted": true, "estimate": true} (uninterrupted_charging; the stateful
SimpleRampdown estimator).  Aborted runs (the `abort` stream) are compared AT THE ABORT: fully, or — when update_pilots
raised under a changed registration order — on everything update_pilots does not write.
<scenario> is the simcase layout (core/simcase.py) with "constraints": [{"name", "coeffs": [[station, c]…], "limit"}]
instead of the single aggregate "constraint".  Scheduler types beyond simcase's: every sort order of
acnportal.algorithms — "fcfs" | "lcfs" | "edf" | "llf" | "lrpt" (SortedSchedulingAlgo) and "rr" (= "rr:fcfs") |
"rr:<sort>" (RoundRobin).  For these the wrapped algorithm's `before` hook records, per invocation, the fields of
every active session that the TRUE sort keys are made of (arrival, estimated departure, remaining demand); the
oracle computes the keys from them and the scenario data (voltage, maximum rate, period) — not through the
implementation's key functions — and skips the station-order relation only where two sessions that can still
receive charge have (nearly) EQUAL true keys.
"""
from __future__ import annotations

import atexit
import copy
import json
import os
import random
import subprocess
import sys
import warnings

from core import simcase as S
from core import impl as I
from core.common import close, HARNESS, REPO

ID = "C10"
LEAN_MODULES = ["AcnProofs.C10", "AcnProofs.C10Stations", "AcnProofs.C10Shift", "AcnProofs.C10Sessions", "AcnProofs.C10Rampdown"]
DRIVER = "drv_C01"
REQUIRED_THEOREMS = [
    "Acn.C10.feasible_perm_constraints", "Acn.C10.feasible_perm_stations", "Acn.C10.densify_equivariant",
    "Acn.C10.updateSchedules_equivariant", "Acn.C10.popCurrent_perm", "Acn.C10.plugins_commute",
    "Acn.C10.unplugs_commute", "Acn.C10.eventsStage_perm", "Acn.C10.run_perm_sessions_partial",
    "Acn.C10.run_equivariant_stations_partial", "Acn.C10.body_shift", "Acn.C10.run_shift_partial",
    "Acn.C10.updateSchedules_shift", "Acn.C10.run_equivariant_stations", "Acn.C10.scripted_schedEquivariant",
    "Acn.C10.sort_perm_of_distinct_keys", "Acn.C10.run_shift", "Acn.C10.run_shift_anchored",
    "Acn.C10.run_shift_from", "Acn.C10.scripted_schedShiftInvariant", "Acn.C10.run_perm_sessions_core", "Acn.C10.anchor_of_event", "Acn.C10.run_perm_sessions",
    "Acn.C10.scripted_ignoresEvsePilot",
    "Acn.C10.run_shift_core", "Acn.C10.run_shift_aligned", "Acn.C10.run_perm_constraints",
    "Acn.C10.run_perm_sessions_sorted", "Acn.C10.run_equivariant_stations_dict",
    "Acn.C10.run_equivariant_stations_sorted", "Acn.C10.run_equivariant_stations_uncontrolled",
    "Acn.C10.run_shift_sorted",
    # AcnProofs/C10Stations.lean: raising runs, uninterrupted_charging
    "Acn.C10.run_equivariant_stations_raise", "Acn.C10.schedEquivariantE_of_equivariant",
    "Acn.C10.run_equivariant_stations_sorted_any", "Acn.C10.run_equivariant_stations_sorted_uninterrupted",
    "Acn.C10.run_equivariant_stations_uncontrolled_any",
    # AcnProofs/C10Shift.lean: uninterrupted_charging, max_recompute != None for the sorted algorithms
    "Acn.C10.run_shift_sorted_any", "Acn.C10.run_shift_anchored_zero", "Acn.C10.run_shift_aligned_zero",
    "Acn.C10.run_shift_sorted_recompute", "Acn.C10.shOut_of_shEquiv", "Acn.C10.run_shift_sorted_late",
    # AcnProofs/C10Sessions.lean: raising runs under a permuted listing
    "Acn.C10.run_perm_sessions_raise", "Acn.C10.run_perm_sessions_sorted_raise",
    # AcnProofs/C10Rampdown.lean: the stateful rampdown estimator under a station permutation
    "Acn.C10.runSt_equivariant_stations_rampdown",
]
BUDGET = {"quick": 200, "thorough": 1600, "search": 1200}
TRUSTED = ["CPython heapq / sorted (stable) / dict insertion order; numpy `@`, `sum`, `abs` (a changed summation "
           "order may move a double by an ulp: numbers are compared with 1e-9 slack, bitwise on the dyadic stream)",
           "PYTHONHASHSEED nondeterminism is explored with three seeds per scenario, not proved absent",
           "schedulers with a tie in their sort key legitimately depend on the station order (documented, "
           "counted under feature `tie:*`, not a violation); a tie is a tie of the TRUE key (the quantity the sort "
           "order is defined by, recomputed by the oracle), within 1e-6 — keys one period / one ampere apart or "
           "closer are NOT ties",
           "JSON-restored runs: the scheduler is not part of the serialised state (DESIGN §8) and is re-attached "
           "with Simulator.update_scheduler; the harness network subclass (occupancy log) travels as an extra "
           "JSON attribute"]
ASSUMPTIONS = ["theorems: exact arithmetic over a linear ordered field; Valid layouts; the scheduler is equivariant "
               "(scripted by station name, uncontrolled, sorted with distinct keys) resp. depends on the view only "
               "through relative time (shift)",
               "shift: the idle prefix does not abort (an EVSE with min_rate > 0 refuses pilot 0 in period 0 of ANY "
               "scenario, DESIGN §8: such scenarios are excluded from the shift relation only)",
               "random draws are an input stream consumed in station order: the station-permutation relation is "
               "claimed for a constant stream",
               "shift with max_recompute = m: proved when something is due in period 0 (run_shift_anchored; the "
               "generator anchors scripted scenarios with an event at 0) or m | k (run_shift_aligned); false otherwise "
               "(counter-example after run_shift_core)",
               "stations x sorted algorithms: no view of the run with a tie in the key that decides the order of that mode — "
               "the sort key when interruptible (run_equivariant_stations_sorted), remaining_time with "
               "uninterrupted_charging (run_equivariant_stations_sorted_uninterrupted: ties of the main key are then "
               "broken by the remaining-time order in every registration order); with the rampdown estimator the same "
               "on the sessions as apply_upper_bound_estimate leaves them (runSt_equivariant_stations_rampdown)",
               "raising runs x stations: an abort by update_pilots leaves the stations BEFORE the offender charged, and "
               "'before' is the registration order: related are iteration, queue, histories, pilot / rate matrices, peak, "
               "invocations, occupancy (AbortEquiv), not the EV records / EVSE.current_pilot / draw count; every other "
               "abort leaves fully related states (run_equivariant_stations_raise, run_perm_sessions_raise)",
               "shift x rampdown estimator: Interface.last_applied_pilot_signals is {} while iteration - 1 <= 0 whatever "
               "was applied in period 0 (DESIGN §8), so the shift relation is claimed for the estimator only when the "
               "first event is in period >= 1",
               "shift x sorted algorithms with max_recompute = m: they answer all-zero rows while idle, which leaves the "
               "zero pilot matrix unchanged (SchedIdleZ); outputs coincide from the first event on for EVERY shift "
               "(run_shift_sorted_late: both runs are shifts of the run of the anchored scenario); the invocation "
               "periods before the first event are each run's own (compared from the first event on)",
               "JSON round trip (json_net / json_sim pairs): implementation pairs only — the simulator model has no "
               "JSON text, C09 owns the codec; claimed here: a network or a not-yet-run simulator restored with "
               "from_json(to_json()) is the same input (same per-station / per-session results)"]
RULE = ("scenario = 1-6 stations with non-sorted ids, mixed EVSE classes, voltages, phases in {0,30,-90,150}; 0-4 "
        "constraints with coefficients in {1,-1,0.5,2} over random station subsets and limits off level boundaries; "
        "0-12 sessions laid out per station (half back-to-back), arrivals from a small range (many ties) except "
        "for sorted schedulers (pairwise distinct arrivals, departures and estimated departures — 30% of the "
        "sessions carry an estimate != departure —, so the static sort keys are distinct and adjacent values one "
        "period apart are common; a separate `ties` stream keeps ties and skips the station-permutation "
        "comparison); schedulers (cycle of 24) scripted-by-station-name / empty (7) / UncontrolledCharging (2) / "
        "SortedSchedulingAlgo with EVERY sort order fcfs, lcfs, edf, llf, lrpt (5) / RoundRobin(fcfs) and "
        "RoundRobin(any sort) (2, mostly finite-rate EVSEs: it walks a continuous one in 0.1 A steps); every 5th "
        "case dyadic (phase 0, coefficients ±1, dyadic pilots and limits: bitwise comparison); 8% malformed; per "
        "case random permutations of stations, constraints, sessions, recomputes and a shift k in 0..30; three "
        "`abort` stream (2/24): runs that abort while cars are charging on 2-6 stations — a scripted schedule over all "
        "stations with one or two pilots the EVSE refuses (update_pilots raises in the middle of its station loop), a "
        "scheduler that raises, a schedule for an unknown station, a ragged schedule, or a REAL sorting-based algorithm "
        "on DeadbandEVSEs under a binding limit (hands out a pilot inside the deadband); every registration order when "
        "<= 3 stations; the states AT THE ABORT are compared (fully, or — update_pilots aborts — on everything "
        "update_pilots does not write); 30% of the sorted cases run with the stateful rampdown estimator "
        "(estimate_max_rate=True, SimpleRampdown; feature estimate:car_draws_less_than_pilot when it bites); "
        "with uninterrupted_charging the tie that matters is a tie of remaining_time (recorded per invocation; features "
        "rt:tied / rt:distinct), ties of the main key are judged; "
        "targeted streams for the sorted algorithms: `tight` (2/24) = uninterrupted_charging on finite-rate EVSEs "
        "(non-zero minimum pilot), 3-4 cars at once, aggregate limit below the sum of the minima, registration "
        "order unrelated to remaining time, any sort order; `threshold` (2/24) = plain FCFS, mixed minimum pilots / "
        "voltages (mixed finished-thresholds), stations without sessions, demands that leave a last-period "
        "remainder between two thresholds; `contested` (3/24: llf, lrpt, any sort incl. RoundRobin) = 2-4 "
        "non-interchangeable stations, an aggregate limit that cannot carry every car at its maximum (+ a "
        "sub-feeder half of the time), one long session per station overlapping all others plus follow-ups, demands "
        "of 30-95% of the stay, re-scheduled every 1-2 periods, so that the queue ORDER decides who charges and the "
        "state-dependent keys of LLF / LRPT drift past each other: DISTINCT true keys less than one period apart "
        "occur in most of these runs (features keys:within_1 / keys:within_0.1); on the targeted streams (tight / "
        "threshold <=4, contested <=3 stations) EVERY registration order is run and compared per station id; 35% "
        "of the other sorted cases use uninterrupted_charging; corpus: a two-feeder site under LLF and LRPT whose "
        "real-valued keys come within a tenth of a period of each other. TRUE sort keys: the wrapped algorithm records arrival, "
        "estimated departure and remaining demand of every active session per invocation; the oracle computes each "
        "order's key from them and the scenario (voltage, maximum rate, period), never through the implementation's "
        "key functions, and abstains from the station relation only when two sessions that can still receive "
        "charge have keys within 1e-6 (feature keys:tied). JSON: every case also runs its `stations` variant from "
        "a network restored with from_json(to_json()) and its `combined` variant from a whole simulator restored "
        "before run() (ids are registered in random, mostly non-alphabetical order; stations mostly not "
        "interchangeable: features json_*:non_alphabetical_registration, stations:not_interchangeable), compared "
        "per id, bitwise while the round trip keeps station and constraint order; hash-seed subprocess runs for "
        "every 8th case in the quick tier, every case in the thorough tier; "
        "non-trivial = >=2 stations under a non-identity station permutation, >=2 sessions and energy delivered; "
        "distinct by hash of the case")

PHASES = [0, 30, -90, 150]
LIMITS = [40.3, 64.7, 23.9, 200.1, 1000.0, 31.9, 15.7]
DY_LIMITS = [40.5, 64.25, 24.0, 200.0, 1000.0, 32.0, 16.0]

# every sort order of acnportal/algorithms/sorted_algorithms.py:449-555
SORTS = ("fcfs", "lcfs", "edf", "llf", "lrpt")
SORTED_TYPES = SORTS + ("rr",) + tuple("rr:" + s for s in SORTS)


def sort_of(sched):
    """(sort order, is RoundRobin) of a sorted scheduler spec, None for the other schedulers"""
    t = (sched or {}).get("type")
    if t == "rr":
        return "fcfs", True
    if isinstance(t, str) and t.startswith("rr:") and t[3:] in SORTS:
        return t[3:], True
    if t in SORTS:
        return t, False
    return None


def _any_sorted(rng):
    return rng.choice(SORTS + SORTS + tuple("rr:" + s for s in SORTS))


# ------------------------------------------------------------------------------- scenarios


def _ids(rng, n):
    pool = ["Zeta", "S3", "A-1", "mid", "S10", "B2", "S2", "CA-9", "aa", "Q"]
    return rng.sample(pool, n)


def _dyadic_kind(rng):
    r = rng.random()
    if r < 0.4:
        return {"t": "cont", "min": 0, "max": 32}
    if r < 0.7:
        return {"t": "finite", "rates": list(S.CC_RATES)}
    return {"t": "finite", "rates": list(S.AV_RATES)}


def _dyadic_sched(rng, sc):
    sts = sc["stations"]
    sub = [s for s in sts if rng.random() < 0.75] or [rng.choice(sts)]
    rng.shuffle(sub)
    n = rng.choice([1, 1, 2, 3, 5])
    out = []
    for s in sub:
        k = s["kind"]
        if k["t"] == "finite":
            row = [float(rng.choice([0] + list(k["rates"]))) for _ in range(n)]
        else:
            row = [rng.choice([0.0, 8.0, 16.0, 32.0, 12.5, 6.25, 24.0]) for _ in range(n)]
        out.append([s["id"], row])
    return out


def gen_scenario(rng, algo=None, exact=False, ties=False, malformed=False):
    ns = rng.randint(1, 6)
    ids = _ids(rng, ns)
    stations = []
    for sid in ids:
        kind = _dyadic_kind(rng) if exact else S.gen_kind(rng)
        if algo in SORTED_TYPES:
            if kind["t"] == "cont" and kind["max"] == "inf":
                kind["max"] = 32
            if kind["t"] == "deadband":          # sorted algorithms hand out pilots inside a deadband
                kind = {"t": "cont", "min": 0, "max": kind["max"]}
            if sort_of({"type": algo})[1] and kind["t"] == "cont":
                kind["max"] = min(kind["max"], 32)
            if sort_of({"type": algo})[1] and kind["t"] == "cont" and rng.random() < 0.75:
                # RoundRobin walks a continuous EVSE in 0.1 A steps (one feasibility test each): keep most of its
                # stations finite-rate so that the quick tier stays within its budget
                kind = {"t": "finite", "rates": list(rng.choice([S.CC_RATES, S.AV_RATES, [10, 16, 24, 32]]))}
        stations.append({"id": sid, "kind": kind, "V": rng.choice([208, 208, 240, 120, 277.5]),
                         "phase": 0 if exact else rng.choice(PHASES)})
    sc = {"stations": stations}
    ncon = rng.choice([0, 1, 1, 2, 3, 4])
    if algo is not None and ncon == 0:
        ncon = 1                                  # F3 (open, C06): real algorithms need one constraint
    cons = []
    for j in range(ncon):
        sub = [s["id"] for s in stations if rng.random() < 0.7] or [rng.choice(ids)]
        rng.shuffle(sub)
        if exact:
            coeffs = [[s, rng.choice([1, 1, -1])] for s in sub]
        else:
            coeffs = [[s, rng.choice([1, 1, 1, -1, 0.5, 2])] for s in sub]
        cons.append({"name": f"c{j}", "coeffs": coeffs, "limit": rng.choice(DY_LIMITS if exact else LIMITS)})
    sc["constraints"] = cons
    total = rng.choice([0, 1, 2, 3, 4, 6, 8, 12])
    horizon0 = rng.choice([0, 2, 4, 8])
    cursor = {s: rng.randint(0, horizon0) for s in ids}
    distinct = algo in SORTED_TYPES and not ties
    used_a, used_d = set(), set()            # used_d: departures AND effective estimated departures (EDF / LLF key)
    sessions = []
    tries = 0
    while len(sessions) < total and tries < 60:
        tries += 1
        st = rng.choice(ids)
        gap = rng.choice([0, 0, 0, 1, 2, 3]) if any(s["station"] == st for s in sessions) else 0
        arr = cursor[st] + gap
        dep = arr + rng.choice([1, 1, 2, 3, 4, 6, 9])
        if distinct and (arr in used_a or dep in used_d):
            cursor[st] = arr + 1 if not any(s["station"] == st and s["departure"] > arr for s in sessions) else cursor[st]
            continue
        est = None
        if distinct and not exact and rng.random() < 0.3:
            # an estimate that differs from the real departure: the key of EDF / LLF is the ESTIMATE (kept distinct)
            # (an estimate BEFORE the real departure leaves the session with remaining_time 0 while it is still
            # plugged in: the sorted algorithms then raise IndexError — the same in every run; kept rare)
            late = (dep + 1, dep + 2, dep + 3) + ((dep - 1,) if rng.random() < 0.15 else ())
            cand = [e for e in late if e > arr and e not in used_d]
            est = rng.choice(cand) if cand else None
        used_a.add(arr)
        used_d.add(dep)
        if est is not None:
            used_d.add(est)
        cursor[st] = dep
        batt = S.gen_battery(rng)
        if exact:
            batt = {"two": False, "cap": rng.choice([10, 40, 100]), "init": rng.choice([0, 2.5, 8]), "maxp": rng.choice([6.5, 50])}
        elif batt.get("two") and batt.get("noise"):
            batt["noise"] = rng.choice([0, 0.5])
        if not (distinct or ties):
            est = rng.choice([None, None, dep + 1, max(arr + 1, dep - 1)])
        sessions.append({"session": f"x{len(sessions)}", "station": st, "arrival": arr, "departure": dep,
                         "requested": rng.choice([2.0, 8.5, 30.0]) if exact else round(rng.uniform(0.05, 12), 3),
                         "batt": batt, "est": est})
    rng.shuffle(sessions)
    sc["sessions"] = sessions
    hi = max([s["departure"] for s in sessions] + [horizon0])
    sc["recomputes"] = [rng.randint(0, hi + 2) for _ in range(rng.choice([0, 0, 1, 2, 3]))]
    if sessions and rng.random() < 0.3:
        sc["recomputes"].append(rng.choice(sessions)["departure"])
    sc["period"] = rng.choice([1, 4, 16]) if exact else rng.choice([0.5, 1, 5, 15])
    sc["max_recompute"] = rng.choice([None, None, 1, 2, 5])
    # ONE draw value: the stream is consumed in station order, so only a constant stream is
    # independent of the registration order (ASSUMPTIONS)
    sc["noise"] = [round(rng.gauss(0, 1.0), 4)]
    last = max([s["departure"] for s in sessions] + sc["recomputes"] + [0])
    if algo is not None:
        sc["sched"] = {"type": algo}
        return sc
    if rng.random() < 0.12:
        sc["sched"] = {"type": "empty"}
    else:
        g = (lambda: _dyadic_sched(rng, sc)) if exact else (lambda: S.gen_schedule(rng, sc))
        default = g() if rng.random() < 0.5 else []
        script = [{"t": t, "sched": g()} for t in range(0, last + 2) if rng.random() < 0.55]
        sc["sched"] = {"type": "scripted", "default": default, "script": script}
    if malformed:
        S._malform(rng, sc, last)
    # shift relation for a scripted scheduler with max_recompute: the periodic invocations before the
    # first event are anchored at period 0, not at the first event; anchor the scenario with an event at 0
    if sc["max_recompute"] is not None and sc["sched"]["type"] == "scripted" and _first_event(sc) != 0:
        sc["recomputes"].append(0)
    return sc


def gen_targeted(rng, kind):
    """Two classes of scenarios in which an index / order mix-up inside the sorted algorithms' preprocessing shows:
    `tight`      uninterrupted_charging=True, EVSEs with a NON-ZERO minimum pilot, several cars plugged in at
                 once (distinct departures), an aggregate limit below the sum of the minima, registration order
                 unrelated to the remaining-time order;
    `threshold`  plain FCFS, stations with MIXED minimum pilots and voltages (so mixed "finished" thresholds
                 min_pilot*V*period/60/1000 kWh, incl. 0 for a continuous EVSE), partial occupancy (stations
                 without any session, registered anywhere), requested energies a few thresholds large so that
                 the remaining demand of the last periods falls between two stations' thresholds."""
    ns = rng.randint(3, 4) if kind == "tight" else rng.randint(2, 4)
    ids = _ids(rng, ns)
    finite = [{"t": "finite", "rates": list(S.CC_RATES)}, {"t": "finite", "rates": list(S.AV_RATES)},
              {"t": "finite", "rates": [10, 16, 24, 32]}, {"t": "finite", "rates": [12.5, 20, 30]}]
    stations = []
    for sid in ids:
        if kind == "tight":
            kd = copy.deepcopy(rng.choice(finite))
        else:
            kd = copy.deepcopy(rng.choice(finite + [{"t": "cont", "min": 0, "max": 32}]))
        stations.append({"id": sid, "kind": kd, "V": rng.choice([208, 240, 120, 277.5]), "phase": rng.choice([0, 0, 30, -90])})
    if kind == "threshold" and len({(json.dumps(st["kind"]), st["V"]) for st in stations}) == 1:
        stations[0]["V"] = 120 if stations[0]["V"] != 120 else 240
    sc = {"stations": stations}
    period = rng.choice([1, 5, 5, 15])
    if kind == "tight":
        minima = sorted(min(r for r in st["kind"]["rates"] if r > 0) for st in stations)
        lim = rng.choice([minima[0] + 0.7, minima[0] + minima[1] + 0.7, sum(minima) - 0.9, sum(minima[:-1]) + 0.3])
        sc["constraints"] = [{"name": "agg", "coeffs": [[s_, 1] for s_ in rng.sample(ids, len(ids))], "limit": round(lim, 2)}]
        occupied = list(ids)
    else:
        sc["constraints"] = [{"name": "agg", "coeffs": [[s_, 1] for s_ in rng.sample(ids, len(ids))], "limit": rng.choice([40.3, 64.7, 200.1])}]
        occupied = rng.sample(ids, rng.randint(1, len(ids) - 1))       # at least one station stays empty
    deps = rng.sample(range(4, 14), len(occupied))
    arrs = rng.sample(range(0, 4), min(4, len(occupied))) + [0] * 4
    sessions = []
    for j, st_id in enumerate(occupied):
        st = next(x for x in stations if x["id"] == st_id)
        if kind == "tight":
            req = round(rng.uniform(3, 20), 3)
            arr = rng.choice([0, 0, 1]) if j else 0
            arr = arrs[j] if rng.random() < 0.5 else arr
        else:
            ths = sorted({round((min([r for r in x["kind"].get("rates", [0]) if r > 0] or [0])) * I.num(x["V"]) * period / 60 / 1000, 6)
                          for x in stations})
            lo, hi = (ths + [ths[-1] * 2 + 0.05])[rng.randrange(len(ths))], 0
            hi = min([t for t in ths if t > lo] or [lo + 0.08])
            # the demand left for the last period(s): between two thresholds, after 0-3 full periods at >= min pilot
            left = round(rng.uniform(lo, hi) if hi > lo else lo + 0.01, 4)
            full = rng.choice([0, 1, 2, 3]) * rng.choice([8, 16, 32, 6]) * I.num(st["V"]) * period / 60 / 1000
            req = round(left + full, 4)
            arr = arrs[j]
        sessions.append({"session": f"x{j}", "station": st_id, "arrival": arr, "departure": deps[j],
                         "requested": max(req, 0.01), "batt": {"two": False, "cap": 100, "init": 5, "maxp": 50}, "est": None})
    # distinct arrivals (FCFS key) as well
    seen = set()
    for x in sessions:
        while x["arrival"] in seen:
            x["arrival"] += 1
        seen.add(x["arrival"])
        x["departure"] = max(x["departure"], x["arrival"] + 2)
    while len({x["departure"] for x in sessions}) < len(sessions):
        for a in sessions:
            if sum(1 for b in sessions if b["departure"] == a["departure"]) > 1:
                a["departure"] += 1
                break
    rng.shuffle(sessions)
    sc["sessions"] = sessions
    sc["recomputes"] = []
    sc["period"] = period
    sc["max_recompute"] = 1
    sc["noise"] = [0.0]
    if kind == "tight":
        sc["sched"] = {"type": rng.choice(["fcfs", "edf", "rr", _any_sorted(rng)]), "opts": {"uninterrupted": True}}
    else:
        sc["sched"] = {"type": "fcfs"}
    sc["targeted"] = kind
    return sc


def gen_contested(rng, algo):
    """The scenario class in which the ORDER of the sorted queue decides who charges, for every sort order:
    2-4 NON-INTERCHANGEABLE stations (mixed EVSE types, voltages, phases, ids in a random non-alphabetical
    registration order), one aggregate constraint that cannot carry every car at its maximum (plus, half of the
    time, a sub-feeder over two stations), one long session per station overlapping all the others (then 0-2
    follow-up sessions), demands that take 30-95 % of the stay at the maximum rate, the algorithm re-run every
    period or two.  Arrivals, departures and estimates are pairwise distinct; the keys of LLF / LRPT are real
    numbers that drift past each other while a car waits (a waiting car loses one period of laxity per period,
    a charging car's remaining time shrinks), so pairs of DISTINCT keys less than one period apart occur in most
    runs (feature `keys:within_1`)."""
    ns = rng.choice([2, 3, 3, 4])
    ids = _ids(rng, ns)
    kinds = [{"t": "finite", "rates": list(S.CC_RATES)}, {"t": "finite", "rates": list(S.AV_RATES)},
             {"t": "finite", "rates": [10, 16, 24, 32]}, {"t": "finite", "rates": [12.5, 20, 30]},
             {"t": "cont", "min": 0, "max": 32}, {"t": "cont", "min": 0, "max": 16}, {"t": "finite", "rates": list(S.CC_RATES)}]
    if sort_of({"type": algo})[1]:
        kinds = [k_ for k_ in kinds if k_["t"] == "finite"]      # RoundRobin walks a continuous EVSE in 0.1 A steps: slow
    stations = [{"id": sid, "kind": copy.deepcopy(rng.choice(kinds)), "V": rng.choice([208, 240, 120, 277.5]),
                 "phase": rng.choice([0, 0, 0, 30, -90])} for sid in ids]
    if len({(json.dumps(st["kind"]), st["V"]) for st in stations}) == 1:
        stations[0]["V"] = 120 if stations[0]["V"] != 120 else 240
    sc = {"stations": stations}
    mx = {st["id"]: float(max(st["kind"]["rates"]) if st["kind"]["t"] == "finite" else st["kind"]["max"]) for st in stations}
    top, tot = max(mx.values()), sum(mx.values())
    # well below the sum of the maxima: one or two cars charge, the others wait (and lose laxity) until the order flips
    lims = [x for x in (20.3, 32.4, 40.3, 47.9, 56.3, 64.7) if top * 0.6 < x < tot * 0.7] or [round(tot / 2 + 0.3, 2)]
    cons = [{"name": "agg", "coeffs": [[s_, 1] for s_ in rng.sample(ids, ns)], "limit": rng.choice(lims)}]
    if ns >= 3 and rng.random() < 0.5:
        pair = rng.sample(ids, 2)
        cons.append({"name": "feeder", "coeffs": [[pair[0], 1], [pair[1], rng.choice([1, 1, 0.5])]],
                     "limit": rng.choice([23.9, 31.9, 40.3])})
        rng.shuffle(cons)
    sc["constraints"] = cons
    period = rng.choice([1, 5, 5, 15])
    arrs = rng.sample(range(0, ns + 2), ns)
    deps = rng.sample(range(max(arrs) + 5, max(arrs) + 16), ns)
    used_a, used_d = set(arrs), set(deps)
    sessions = []

    def add(st, arr, dep):
        frac = rng.uniform(0.3, 0.95)
        req = round(frac * (dep - arr) * mx[st["id"]] * I.num(st["V"]) * period / 60 / 1000, 3)
        est = None
        if rng.random() < 0.3:
            cand = [e for e in (dep + 1, dep + 2, dep + 3) if e not in used_d]
            est = rng.choice(cand) if cand else None
            if est is not None:
                used_d.add(est)
        batt = {"two": False, "cap": 150, "init": 5, "maxp": rng.choice([50, 50, 6.6])}
        if rng.random() < 0.2:
            batt = {"two": True, "cap": 150, "init": 20, "maxp": 50, "noise": 0, "ts": 0.8, "calc": rng.choice(["continuous", "stepwise"])}
        sessions.append({"session": f"x{len(sessions)}", "station": st["id"], "arrival": arr, "departure": dep,
                         "requested": max(req, 0.05), "batt": batt, "est": est})

    for st, a, d in zip(stations, arrs, deps):
        add(st, a, d)
    for _ in range(rng.choice([0, 0, 1, 1, 2])):
        st = rng.choice(stations)
        free = max(x["departure"] for x in sessions if x["station"] == st["id"])
        # a follow-up session on a station that is still needed by the others: arrives while they are charging
        a = next(t for t in range(free + rng.choice([0, 0, 1]), free + 60) if t not in used_a)
        d = next(t for t in range(a + rng.choice([3, 5, 8]), a + 80) if t not in used_d)
        used_a.add(a)
        used_d.add(d)
        add(st, a, d)
    rng.shuffle(sessions)
    sc["sessions"] = sessions
    sc["recomputes"] = []
    sc["period"] = period
    sc["max_recompute"] = rng.choice([1, 1, 1, 2])
    sc["noise"] = [0.0]
    sc["sched"] = {"type": algo}
    if rng.random() < 0.2:
        sc["sched"]["opts"] = {"uninterrupted": True}
    sc["targeted"] = "contested"
    return sc


def gen_abort(rng):
    """Runs that ABORT while cars are charging, on >= 2 (mostly 3-5) stations — the state at the abort is what the
    pair relations are judged on (run_equivariant_stations_raise, run_perm_sessions_raise):
      invalid_rate            a scripted schedule over ALL stations (shuffled dict order, mostly non-zero valid pilots)
                              with one (20%: two) pilot(s) the EVSE does not accept: update_pilots raises in the middle of
                              its station loop, stations before the offender have charged;
      sched_fail / sched_unknown_station / ragged
                              the scheduler raises / _update_schedules raises KeyError / InvalidScheduleError;
      deadband                a REAL sorting-based algorithm on a site with DeadbandEVSEs under a binding limit: it hands
                              out a pilot inside the deadband sooner or later and update_pilots raises."""
    mode = rng.choice(["invalid_rate", "invalid_rate", "invalid_rate", "sched_fail", "sched_unknown_station", "ragged",
                       "deadband", "deadband"])
    if mode == "deadband":
        algo = rng.choice(["fcfs", "edf", "llf", "lrpt", "lcfs"])
        sc = gen_contested(rng, algo)
        for st in rng.sample(sc["stations"], rng.choice([1, 1, 2])):
            st["kind"] = {"t": "deadband", "db": rng.choice([6, 8]), "max": 32}
        sc["constraints"][0]["limit"] = rng.choice([13.7, 20.3, 26.9, 35.3])
        sc["sched"].pop("opts", None)
        sc["targeted"] = "abort"
        sc["abort"] = mode
        return sc
    for _ in range(40):
        sc = gen_scenario(rng, None)
        if len(sc["stations"]) >= 2 and len(sc["sessions"]) >= 2 and sc["sched"]["type"] == "scripted":
            break
    sts = sc["stations"]
    ss = sc["sessions"]
    lo = min(x["arrival"] for x in ss)
    hi = max(x["departure"] for x in ss)
    # a period in which as many cars as possible are plugged in, not the very first one (something has been delivered)
    cand = sorted(range(lo, hi), key=lambda t_: (-sum(1 for x in ss if x["arrival"] <= t_ < x["departure"]), rng.random()))
    t = cand[0] if len(cand) == 1 or rng.random() < 0.6 else rng.choice(cand[:3])
    script = [e for e in sc["sched"].get("script", []) if e["t"] != t]
    if mode == "sched_fail":
        script.append({"t": t, "fail": True})
    else:
        n = rng.choice([1, 1, 2, 3])
        order = list(sts)
        rng.shuffle(order)
        rows = []
        for st in order:
            row = []
            for _j in range(n):
                v = S.valid_pilot(rng, st["kind"])
                if v == 0 and rng.random() < 0.8:
                    v = S.valid_pilot(rng, st["kind"])
                row.append(v)
            rows.append([st["id"], row])
        if mode == "invalid_rate":
            for j in rng.sample(range(len(rows)), 2 if (len(rows) > 2 and rng.random() < 0.2) else 1):
                kind = next(st["kind"] for st in sts if st["id"] == rows[j][0])
                rows[j][1][0] = S.invalid_pilot(rng, kind)
        elif mode == "sched_unknown_station":
            rows.insert(rng.randrange(len(rows) + 1), ["nowhere", [0.0] * n])
        else:
            rows[rng.randrange(len(rows))][1].append(0.0)
        script.append({"t": t, "sched": rows})
    script.sort(key=lambda e: e["t"])
    sc["sched"]["script"] = script
    sc["targeted"] = "abort"
    sc["abort"] = mode
    return sc


def _first_event(sc):
    ts = [s["arrival"] for s in sc["sessions"]] + list(sc["recomputes"])
    return min(ts) if ts else None


def _perm(rng, n):
    p = list(range(n))
    r = rng.random()
    if r < 0.15:
        return p
    if r < 0.3:
        return p[::-1]
    rng.shuffle(p)
    return p


def gen_case(rng, i=0, tier="quick"):
    r = i % 24
    exact = (i % 5 == 4)
    ties = False
    malformed = False
    targeted = None
    if r in (4, 5):
        algo, targeted = "x", "abort"
    elif r in (0, 1, 2, 3, 6):
        algo = None
        malformed = (r == 6) and rng.random() < 0.8
    elif r in (7, 8):
        algo = "uncontrolled"
    elif r in (9, 10, 11, 12):
        algo = ("fcfs", "lcfs", "edf", "llf")[r - 9]
    elif r == 13:
        algo = "rr"
    elif r == 14:
        algo = rng.choice(["rr:" + s_ for s_ in SORTS])
    elif r in (15, 16):
        algo, targeted = "x", "tight"
    elif r in (17, 18):
        algo, targeted = "x", "threshold"
    elif r == 19:
        algo = _any_sorted(rng)
        ties = True
    elif r == 20:
        algo, targeted = "llf", "contested"
    elif r == 21:
        algo, targeted = "lrpt", "contested"
    elif r == 22:
        algo, targeted = rng.choice(["llf", "lrpt", "rr:llf", "rr:lrpt", _any_sorted(rng), _any_sorted(rng)]), "contested"
    else:
        algo = rng.choice(["lrpt", "lrpt", "llf", "lcfs"])
    if targeted == "abort":
        exact = False
        sc = gen_abort(rng)
    elif targeted == "contested":
        exact = False
        sc = gen_contested(rng, algo)
        if rng.random() < 0.25:
            sc["sched"].setdefault("opts", {})["estimate"] = True
    elif targeted:
        exact = False
        sc = gen_targeted(rng, targeted)
    else:
        sc = gen_scenario(rng, algo, exact=exact and not malformed, ties=ties, malformed=malformed)
        if algo in SORTED_TYPES and rng.random() < 0.35:
            sc["sched"]["opts"] = {"uninterrupted": True}
        if algo in SORTED_TYPES and rng.random() < 0.3:
            # the stateful rampdown estimator (runSt_equivariant_stations_rampdown)
            sc["sched"].setdefault("opts", {})["estimate"] = True
    var = {"stations": _perm(rng, len(sc["stations"])), "constraints": _perm(rng, len(sc["constraints"])),
           "sessions": _perm(rng, len(sc["sessions"])), "recomputes": _perm(rng, len(sc["recomputes"])),
           "shift": rng.choice([0, 1, 1, 2, 3, 5, 7, 13, 30, rng.randint(0, 30)])}
    case = {"sc": sc, "var": var, "exact": bool(exact and not malformed), "ties": ties}
    if targeted == "tight" and rng.random() < 0.3:
        sc["sched"]["opts"]["estimate"] = True
    if targeted and len(sc["stations"]) <= (3 if targeted in ("contested", "abort") else 4):
        case["allperms"] = True          # every registration order is compared, per station id
    if tier == "thorough" or i % 8 == 0:
        case["hashseeds"] = [1, 2, 3]
    return case


def generate(rng, n, tier):
    out = [gen_case(rng, i, tier) for i in range(n)]
    sub = random.Random(repr(("scribble", n, tier, len(out))))      # private stream: the main one is not shifted
    for c in out:
        if isinstance(c.get("sc"), dict) and sub.random() < 0.3:
            c["sc"]["scribble"] = True
    return out


def _b(cap=40, init=5):
    return {"two": False, "cap": cap, "init": init, "maxp": 7}


def _s(sid, st, a, d, req=10.0):
    return {"session": sid, "station": st, "arrival": a, "departure": d, "requested": req, "batt": _b(), "est": None}


def corpus():
    def st(i, kind=None, phase=0):
        return {"id": i, "kind": kind or {"t": "cont", "min": 0, "max": 32}, "V": 208, "phase": phase}
    out = []
    # three stations registered "backwards", two constraints sharing a station, scripted by name
    sc = {"stations": [st("B"), st("A", {"t": "finite", "rates": [8, 16, 24, 32]}), st("C", None, 30)],
          "constraints": [{"name": "ab", "coeffs": [["A", 1], ["B", 1]], "limit": 40.3},
                          {"name": "bc", "coeffs": [["C", 2], ["B", -1]], "limit": 23.9}],
          "sessions": [_s("p", "A", 0, 4), _s("q", "B", 0, 3), _s("r", "C", 1, 5), _s("s", "B", 3, 6)],
          "recomputes": [3, 0], "period": 5, "max_recompute": 2, "noise": [0.25],
          "sched": {"type": "scripted", "default": [["A", [16.0]], ["C", [5.5]]],
                    "script": [{"t": 1, "sched": [["B", [32.0, 8.0]], ["A", [24.0, 8.0]]]}, {"t": 3, "sched": [["C", [7.0, 7.0, 7.0]]]}]}}
    out.append({"sc": sc, "var": {"stations": [2, 0, 1], "constraints": [1, 0], "sessions": [3, 1, 0, 2], "recomputes": [1, 0], "shift": 4},
                "exact": False, "ties": False, "hashseeds": [1, 2, 3]})
    for algo in ("uncontrolled", "fcfs", "rr", "edf"):
        sc2 = copy.deepcopy(sc)
        sc2["sched"] = {"type": algo}
        sc2["sessions"] = [_s("p", "A", 0, 4, 3.0), _s("q", "B", 1, 3), _s("r", "C", 2, 7), _s("s", "B", 3, 6, 1.5)]
        out.append({"sc": sc2, "var": {"stations": [1, 2, 0], "constraints": [1, 0], "sessions": [2, 3, 0, 1], "recomputes": [0, 1], "shift": 7},
                    "exact": False, "ties": False})
    # all simultaneous: six plug-ins and three unplugs in one period
    sc3 = {"stations": [st("S3"), st("S1"), st("S2")], "constraints": [],
           "sessions": [_s("a", "S1", 0, 2), _s("b", "S2", 0, 2), _s("c", "S3", 0, 2), _s("d", "S1", 2, 3), _s("e", "S2", 2, 3), _s("f", "S3", 2, 3)],
           "recomputes": [2, 2], "period": 1, "max_recompute": None, "noise": [0.0],
           "sched": {"type": "scripted", "default": [["S1", [8.0]], ["S2", [16.0]], ["S3", [24.0]]], "script": []}}
    out.append({"sc": sc3, "var": {"stations": [2, 1, 0], "constraints": [], "sessions": [5, 4, 3, 2, 1, 0], "recomputes": [1, 0], "shift": 30},
                "exact": True, "ties": False})
    # a site with two feeders under a common limit, every sort order: arrivals, departures and the real-valued
    # laxities / remaining times are pairwise distinct but close (keys of cars that wait drift past the others less
    # than one period apart); the feeders make the stations non-interchangeable; the permuted runs register them
    # against the key order
    cc = {"t": "finite", "rates": [8, 16, 24, 32]}
    site = {"stations": [{"id": i, "kind": dict(cc), "V": v, "phase": 0}
                         for i, v in (("N-01", 208), ("N-02", 208), ("N-03", 208), ("N-04", 208))],
            "constraints": [{"name": "north", "coeffs": [["N-01", 1], ["N-02", 1]], "limit": 32.0},
                            {"name": "south", "coeffs": [["N-03", 1], ["N-04", 1]], "limit": 40.0},
                            {"name": "site", "coeffs": [["N-01", 1], ["N-02", 1], ["N-03", 1], ["N-04", 1]], "limit": 64.0}],
            "sessions": [{"session": n, "station": s_, "arrival": a_, "departure": d_, "requested": q,
                          "batt": {"two": False, "cap": 40, "init": 0, "maxp": 6.656}, "est": None}
                         for n, s_, a_, d_, q in (("a", "N-01", 0, 41, 10.0), ("b", "N-02", 1, 40, 10.31), ("c", "N-03", 2, 37, 7.13),
                                                  ("d", "N-04", 3, 45, 9.47), ("e", "N-02", 46, 70, 5.21), ("f", "N-01", 47, 66, 4.57))],
            "recomputes": [], "period": 5, "max_recompute": 1, "noise": [0.0]}
    for algo, perm in (("llf", [1, 0, 3, 2]), ("lrpt", [3, 2, 1, 0])):
        sc4 = copy.deepcopy(site)
        sc4["sched"] = {"type": algo}
        out.append({"sc": sc4, "var": {"stations": perm, "constraints": [2, 0, 1], "sessions": [5, 4, 3, 2, 1, 0], "recomputes": [], "shift": 7},
                    "exact": False, "ties": False})
    # ---- the relations proved in AcnProofs/C10Stations / C10Sessions / C10Rampdown / C10Shift, on every run ----
    bt = {"two": False, "cap": 60, "init": 5, "maxp": 7}

    def ss(n, s_, a_, d_, q, b=None, est=None):
        return {"session": n, "station": s_, "arrival": a_, "departure": d_, "requested": q, "batt": dict(b or bt), "est": est}
    # (i) update_pilots raises in the MIDDLE of its station loop (B refuses 3.3 A) while A and C are sent non-zero
    # pilots: every registration order, the states at the abort compared on what update_pilots does not write
    ab = {"stations": [st("A"), st("B", {"t": "finite", "rates": [8, 16, 24, 32]}), st("C", {"t": "deadband", "db": 6, "max": 32}, 30)],
          "constraints": [{"name": "all", "coeffs": [["A", 1], ["B", 1], ["C", 1]], "limit": 64.7}],
          "sessions": [ss("p", "A", 0, 4, 6.0), ss("q", "B", 0, 5, 6.0), ss("r", "C", 1, 6, 6.0)],
          "recomputes": [], "period": 5, "max_recompute": 1, "noise": [0.0],
          "sched": {"type": "scripted", "default": [["A", [16.0]], ["B", [16.0]], ["C", [10.0]]],
                    "script": [{"t": 2, "sched": [["C", [12.0]], ["B", [3.3]], ["A", [20.0]]]}]},
          "targeted": "abort", "abort": "invalid_rate"}
    out.append({"sc": ab, "var": {"stations": [2, 0, 1], "constraints": [0], "sessions": [2, 0, 1], "recomputes": [], "shift": 5},
                "exact": False, "ties": False, "allperms": True})
    # ... and the scheduler itself raising in period 2 (fully related states at the abort)
    ab2 = copy.deepcopy(ab)
    ab2["sched"]["script"] = [{"t": 2, "fail": True}]
    ab2["abort"] = "sched_fail"
    out.append({"sc": ab2, "var": {"stations": [1, 2, 0], "constraints": [0], "sessions": [1, 2, 0], "recomputes": [], "shift": 2},
                "exact": False, "ties": False, "allperms": True})
    # (ii) a REAL algorithm aborted by update_pilots: DeadbandEVSE behind a 4 A limit is handed 4 A
    db = {"stations": [st("A", {"t": "deadband", "db": 6, "max": 32}), st("B", {"t": "finite", "rates": [8, 16]})],
          "constraints": [{"name": "a", "coeffs": [["A", 1]], "limit": 4.0}],
          "sessions": [ss("x", "A", 1, 4, 10.0), ss("y", "B", 0, 6, 10.0)],
          "recomputes": [], "period": 5, "max_recompute": 1, "noise": [0.0], "sched": {"type": "edf"},
          "targeted": "abort", "abort": "deadband"}
    out.append({"sc": db, "var": {"stations": [1, 0], "constraints": [0], "sessions": [1, 0], "recomputes": [], "shift": 3},
                "exact": False, "ties": False, "allperms": True})
    # (iii) the stateful rampdown estimator: car x cannot take more than 3 kW (14.4 A), is offered 32 A, and is capped
    # from then on — which frees current for y; first event in period 1, so the shift relation is judged as well
    rd = {"stations": [st("A"), st("B", {"t": "finite", "rates": [8, 16, 24, 32]})],
          "constraints": [{"name": "ab", "coeffs": [["A", 1], ["B", 1]], "limit": 40.3}],
          "sessions": [ss("x", "A", 1, 9, 8.0, {"two": False, "cap": 60, "init": 5, "maxp": 3}),
                       ss("y", "B", 2, 11, 12.0, {"two": False, "cap": 60, "init": 5, "maxp": 7})],
          "recomputes": [], "period": 5, "max_recompute": 1, "noise": [0.0]}
    for algo, opts in (("edf", {"estimate": True}), ("rr:llf", {"estimate": True}), ("lrpt", {"estimate": True, "uninterrupted": True})):
        sc5 = copy.deepcopy(rd)
        sc5["sched"] = {"type": algo, "opts": opts}
        out.append({"sc": sc5, "var": {"stations": [1, 0], "constraints": [0], "sessions": [1, 0], "recomputes": [], "shift": 3},
                    "exact": False, "ties": False, "allperms": True})
    # (iv) uninterrupted_charging with a TIE in the main key (three cars arrive together, FCFS) but distinct remaining
    # times, under a limit that cannot carry three minimum pilots: who keeps its minimum is decided by the
    # remaining-time order in EVERY registration order (run_equivariant_stations_sorted_uninterrupted)
    un = {"stations": [st(i, {"t": "finite", "rates": [8, 16, 24, 32]}) for i in ("S2", "S10", "S1")],
          "constraints": [{"name": "agg", "coeffs": [["S1", 1], ["S2", 1], ["S10", 1]], "limit": 20.3}],
          "sessions": [ss("a", "S1", 0, 9, 9.0), ss("b", "S2", 0, 5, 9.0), ss("c", "S10", 0, 7, 9.0)],
          "recomputes": [], "period": 5, "max_recompute": 1, "noise": [0.0], "targeted": "tight"}
    for algo in ("fcfs", "rr", "lcfs"):
        sc6 = copy.deepcopy(un)
        sc6["sched"] = {"type": algo, "opts": {"uninterrupted": True}}
        out.append({"sc": sc6, "var": {"stations": [2, 0, 1], "constraints": [0], "sessions": [1, 2, 0], "recomputes": [], "shift": 4},
                    "exact": False, "ties": False, "allperms": True})
    return out


# ------------------------------------------------------------------------------- variants


def _shift_sched(sched, k):
    if sched["type"] != "scripted" or k == 0:
        return copy.deepcopy(sched)
    out = {"type": "scripted", "default": copy.deepcopy(sched.get("default", [])), "script": []}
    for t in range(k):                        # relative-time scheduler: nothing before the (shifted) origin
        out["script"].append({"t": t, "sched": []})
    for e in sched.get("script", []):
        e2 = copy.deepcopy(e)
        e2["t"] = int(e["t"]) + k
        out["script"].append(e2)
    return out


def variant(sc, stations=None, constraints=None, sessions=None, recomputes=None, shift=0):
    v = copy.deepcopy(sc)
    if stations is not None:
        v["stations"] = [v["stations"][i] for i in stations]
    if constraints is not None:
        v["constraints"] = [v["constraints"][i] for i in constraints]
    if sessions is not None:
        v["sessions"] = [v["sessions"][i] for i in sessions]
    if recomputes is not None:
        v["recomputes"] = [v["recomputes"][i] for i in recomputes]
    if shift:
        for s in v["sessions"]:
            s["arrival"] += shift
            s["departure"] += shift
            if s.get("est") is not None:
                s["est"] += shift
        v["recomputes"] = [r + shift for r in v["recomputes"]]
        v["sched"] = _shift_sched(v["sched"], shift)
    return v


VARIANTS = ("twice", "stations", "constraints", "sessions", "shift", "combined", "json_net", "json_sim")


def variants_of(case):
    sc, var = case["sc"], case["var"]
    return {
        "twice": variant(sc),
        "stations": variant(sc, stations=var["stations"]),
        "constraints": variant(sc, constraints=var["constraints"]),
        "sessions": variant(sc, sessions=var["sessions"], recomputes=var["recomputes"]),
        "shift": variant(sc, shift=var["shift"]),
        "combined": variant(sc, var["stations"], var["constraints"], var["sessions"], var["recomputes"], var["shift"]),
        # the same two scenarios again, built from a JSON-restored network / simulator (marker read by build_sim)
        "json_net": dict(variant(sc, stations=var["stations"]), _restore="net"),
        "json_sim": dict(variant(sc, var["stations"], var["constraints"], var["sessions"], var["recomputes"], var["shift"]),
                         _restore="sim"),
    }


# ------------------------------------------------------------------------------- implementation


class RestoreFailed(Exception):
    """to_json / from_json of a freshly built network or simulator raised"""


def make_scheduler(sc, hooks):
    """simcase's scheduler (scripted / empty / uncontrolled), or a sorted algorithm of any sort order
    (`{"type": <sort> | "rr" | "rr:<sort>", "opts": {"uninterrupted": true}}`)"""
    sd = sc.get("sched") or {"type": "empty"}
    opts = sd.get("opts") or {}
    so = sort_of(sd)
    if so is None:
        return S.make_scheduler(sc, hooks)
    from acnportal import algorithms as A
    fn = {"fcfs": A.first_come_first_served, "lcfs": A.last_come_first_served, "edf": A.earliest_deadline_first,
          "llf": A.least_laxity_first, "lrpt": A.largest_remaining_processing_time}[so[0]]
    cls = A.RoundRobin if so[1] else A.SortedSchedulingAlgo
    if opts.get("estimate"):
        # the stateful rampdown estimator (one SimpleRampdown object for the whole run, default thresholds)
        from acnportal.algorithms import SimpleRampdown
        inner = cls(fn, estimate_max_rate=True, max_rate_estimator=SimpleRampdown(),
                    uninterrupted_charging=bool(opts.get("uninterrupted")))
    else:
        inner = cls(fn, uninterrupted_charging=bool(opts.get("uninterrupted")))
    inner.max_recompute = sc.get("max_recompute")
    algo = S.WrappedAlgo(inner, hooks)
    algo.max_recompute = sc.get("max_recompute")
    return algo


def build_sim(sc):
    """The REAL Simulator for a scenario: stations registered, constraints added and events listed
    in exactly the order of the scenario."""
    from acnportal.acnsim.simulator import Simulator
    from acnportal.acnsim.network.current import Current
    from acnportal.acnsim.events import EventQueue, PluginEvent, RecomputeEvent
    restore = sc.get("_restore")
    net = S.SnapshotNetwork()
    for st in sc["stations"]:
        net.register_evse(I.make_evse(st["kind"], st["id"]), I.num(st["V"]), I.num(st.get("phase", 0)))
    for con in sc.get("constraints", []):
        net.add_constraint(Current({s: c for s, c in con["coeffs"]}), I.num(con["limit"]), name=con["name"])
    if restore == "net":
        # a stored network is still the same input: written out and read back before anything uses it
        try:
            net = type(net).from_json(net.to_json())
        except Exception as e:  # noqa: BLE001
            raise RestoreFailed(f"network: {type(e).__name__}: {e}")
    evs = [I.make_ev(s) for s in sc["sessions"]]
    events = [PluginEvent(ev.arrival, ev) for ev in evs]
    events += [RecomputeEvent(int(r)) for r in sc.get("recomputes", [])]
    feas = []

    def probe(algo_, interface, sessions, schedule):
        # the PUBLIC feasibility query a scheduler may use (interface.py:612-673 densifies by station order)
        try:
            with warnings.catch_warnings():
                warnings.simplefilter("ignore")
                v = bool(interface.is_feasible(schedule))
        except Exception as e:  # noqa: BLE001
            v = S.err_name(e)
        feas.append([int(interface.current_time), v])
        # a PRICE-AWARE scheduler: when the simulation carries a tariff signal it stops charging.  None of the scenarios here is
        # given one (signals is left at its default), so this never triggers — unless a signal leaks in from an unrelated
        # simulation of the same process (observe_all runs one between the base run and the variants)
        try:
            interface.get_prices(1)
            return {k: [0.0] * len(vv) for k, vv in schedule.items()}
        except Exception:  # noqa: BLE001
            pass
        if sc.get("scribble"):
            # a scheduler that keeps a safety margin by DERATING, in place, the description it was handed — and halves what it
            # was told about the sessions.  What it is handed are its own copies (C05), so nothing may accumulate anywhere: equal
            # inputs still give equal outputs and a shifted scenario the shifted outputs, however often it is invoked while idle
            try:
                info = interface.infrastructure_info()
                for nm in ("constraint_limits", "voltages", "max_pilot", "min_pilot", "constraint_matrix"):
                    arr = getattr(info, nm, None)
                    if arr is not None and hasattr(arr, "__imul__") and getattr(arr, "dtype", None) is not None and arr.dtype.kind == "f":
                        arr *= 0.9
                for s_ in interface.active_sessions():
                    s_.max_rates *= 0.5
                    s_.requested_energy = 0.0
            except Exception:  # noqa: BLE001
                pass
        return None

    keys = []

    def record(algo_, interface, sessions):
        # what the TRUE sort keys are made of, per invocation, in the order the sessions are handed over
        keys.append([int(interface.current_time),
                     [[s_.session_id, s_.station_id, float(s_.arrival), float(s_.estimated_departure),
                       float(s_.remaining_demand), int(s_.remaining_time)] for s_ in sessions]])

    hooks = S.Hooks(before=record if sort_of(sc.get("sched")) else None, after=probe)
    algo = make_scheduler(sc, hooks)
    sim = Simulator(net, algo, EventQueue(events), S.START, period=I.num(sc["period"]), verbose=False)
    if restore == "sim":
        # the whole (not yet run) simulator through JSON; the scheduler is not serialised (by design, DESIGN §8):
        # it is attached again with the public update_scheduler
        try:
            sim = Simulator.from_json(sim.to_json())
            sim.update_scheduler(algo)
        except Exception as e:  # noqa: BLE001
            raise RestoreFailed(f"simulator: {type(e).__name__}: {e}")
        net = sim.network
        by_id = {}
        for _, e in sim.event_queue.queue:
            if hasattr(e, "ev"):
                by_id.setdefault(e.ev.session_id, []).append(e.ev)
        # the restored EV objects, in the listing order of the scenario (equal ids: in queue order)
        restored = []
        for ev in evs:
            lst = by_id.get(ev.session_id)
            restored.append(lst.pop(0) if lst else ev)
        evs = restored
    return sim, {"network": net, "scheduler": algo, "evs": evs, "hooks": hooks, "feas": feas, "keys": keys}


def run_scenario(sc):
    """raw `simcase.observe` observation + the station order it refers to"""
    with S.noise_stream(sc.get("noise", [])) as ns:
        failed = None
        with warnings.catch_warnings():
            warnings.simplefilter("ignore")
            try:
                sim, ctx = build_sim(sc)
            except RestoreFailed as e:
                failed = str(e)
                sim, ctx = build_sim({k: v for k, v in sc.items() if k != "_restore"})
        err = ("RestoreFailed: " + failed) if failed else S.run_sim(sim)
        raw = S.observe(sim, ctx, err)
        raw["noise_draws"] = ns["k"]
    raw["station_ids"] = list(sim.network.station_ids)
    raw["feas"] = list(ctx["feas"])
    raw["keys"] = list(ctx["keys"])
    raw["constraint_index"] = list(sim.network.constraint_index)
    return raw


def keyed(raw):
    """results keyed by station id / session id (the relabelling under which C10 compares runs)"""
    ids = raw["station_ids"]
    return {
        "err": raw["err"], "iter": raw["iter"], "peak": raw["peak"], "invoked": raw["invoked"],
        "pilots": {s: raw["pilots"][i] for i, s in enumerate(ids)},
        "rates": {s: raw["rates"][i] for i, s in enumerate(ids)},
        "evse_pilot": {s: raw["evse_pilot"][i] for i, s in enumerate(ids)},
        "occ_final": {s: raw["occ_final"][i] for i, s in enumerate(ids)},
        "occ": [{s: row[i] for i, s in enumerate(ids)} for row in raw["occ"]],
        "evs": {e["session"]: e for e in raw["evs"]},
        "events": raw["event_history"], "ev_history": raw["ev_history"], "pending": raw["pending"],
        "feas": raw["feas"], "keys": raw["keys"], "station_ids": ids, "constraint_index": raw["constraint_index"], "noise_draws": raw["noise_draws"],
    }


def _unrelated_experiment(attach):
    """another simulation of the same process, built WITHOUT signals like every scenario here.  attach=False: it makes sure it leaves
    nothing behind in whatever container it was given; attach=True: a user prices it by attaching a tariff IN PLACE when the
    simulator offers a container (`sim.signals["tariff"] = …`), else by binding a new dict.  Equal inputs must still give equal
    outputs afterwards: nothing one simulator is given by default may be shared with the next."""
    try:
        from acnportal.acnsim.simulator import Simulator
        from acnportal.acnsim.network import ChargingNetwork
        from acnportal.acnsim.events import EventQueue
        from acnportal.algorithms import BaseAlgorithm
        from acnportal.signals.tariffs.tou_tariff import TimeOfUseTariff
        sim = Simulator(ChargingNetwork(), BaseAlgorithm(), EventQueue(), S.START, verbose=False)
        if isinstance(sim.signals, dict):
            if attach:
                sim.signals["tariff"] = TimeOfUseTariff("sce_tou_ev_4_march_2019")
            else:
                sim.signals.clear()
        elif attach:
            sim.signals = {"tariff": TimeOfUseTariff("sce_tou_ev_4_march_2019")}
    except Exception:  # noqa: BLE001
        pass


def observe_all(case):
    vs = variants_of(case)
    _unrelated_experiment(False)
    out = {"base": keyed(run_scenario(case["sc"]))}
    _unrelated_experiment(True)
    for name in VARIANTS:
        raw = run_scenario(vs[name])
        out[name] = keyed(raw)
        if name == "combined":
            out["combined_raw"] = raw
    if case.get("allperms"):
        import itertools
        n = len(case["sc"]["stations"])
        out["allperms"] = [[list(p), keyed(run_scenario(variant(case["sc"], stations=list(p))))]
                           for p in itertools.permutations(range(n)) if list(p) != list(range(n))]
    return out


# ---- PYTHONHASHSEED workers (persistent subprocesses, one per seed) -------------------------


_WORKERS = {}


def _worker_main():
    for line in sys.stdin:
        line = line.strip()
        if not line:
            continue
        case = json.loads(line)
        try:
            case.pop("allperms", None)
            o = observe_all(case)
            o.pop("combined_raw", None)
            sys.stdout.write(json.dumps({"ok": o}) + "\n")
        except Exception as e:  # noqa: BLE001
            sys.stdout.write(json.dumps({"exc": f"{type(e).__name__}: {e}"}) + "\n")
        sys.stdout.flush()


def _worker(seed):
    w = _WORKERS.get(seed)
    if w is not None and w.poll() is None:
        return w
    env = dict(os.environ)
    env["PYTHONHASHSEED"] = str(seed)
    env["ACN_REPO"] = REPO
    code = ("import sys; sys.path.insert(0, %r); sys.path.insert(0, %r); "
            "from props import C10; C10._worker_main()") % (HARNESS, REPO)
    w = subprocess.Popen([sys.executable, "-W", "ignore", "-c", code], stdin=subprocess.PIPE, stdout=subprocess.PIPE,
                         stderr=subprocess.DEVNULL, text=True, env=env, cwd=HARNESS)
    _WORKERS[seed] = w
    return w


@atexit.register
def _stop_workers():
    for w in _WORKERS.values():
        try:
            w.stdin.close()
            w.terminate()
        except Exception:
            pass


def hashseed_start(case):
    seeds = case.get("hashseeds") or []
    c = {k: v for k, v in case.items() if k != "hashseeds"}
    ws = [(_worker(s), s) for s in seeds]
    line = json.dumps(c) + "\n"
    for w, _ in ws:
        w.stdin.write(line)
        w.stdin.flush()
    return ws


def hashseed_collect(ws):
    out = {}
    for w, s in ws:
        ans = w.stdout.readline()
        out[str(s)] = json.loads(ans) if ans.strip() else {"exc": "worker died"}
    return out


def hashseed_runs(case):
    return hashseed_collect(hashseed_start(case))


def run_impl(case):
    ws = hashseed_start(case) if case.get("hashseeds") else None      # the workers run while this process does
    try:
        obs = observe_all(case)
    except BaseException:
        if ws:
            hashseed_collect(ws)
        raise
    if ws:
        obs["hashseed"] = hashseed_collect(ws)
    return obs


# ------------------------------------------------------------------------------- model


def _as_simcase(sc):
    v = dict(sc)
    v["constraint"] = None
    return v


def model_request(case):
    vc = variants_of(case)["combined"]
    return S.model_request(_as_simcase(vc))


def compare(case, obs, model):
    vc = variants_of(case)["combined"]
    return ["combined run vs model: " + d for d in S.compare(_as_simcase(vc), obs["combined_raw"], model)]


# ------------------------------------------------------------------------------- oracle


PILOT_ERRS = ("InvalidRate", "ValueError")      # what EVSE.set_pilot raises (evse.py: InvalidRateError; ValueError of a charge)


def _eq(a, b, exact):
    return (a == b) if exact else close(a, b)


def _rows(name, A, B, exact, out, k=0):
    """per-station rows: B's row = k zeros followed by A's row"""
    if set(A) != set(B):
        out.append(f"{name}: station sets differ {sorted(A)} / {sorted(B)}")
        return
    for s in A:
        ra, rb = A[s], B[s]
        if len(rb) != len(ra) + k:
            out.append(f"{name}[{s}]: width {len(ra)} vs {len(rb)} (shift {k})")
            return
        if any(x != 0 for x in rb[:k]):
            out.append(f"{name}[{s}]: non-zero entry in the first {k} (shifted-in) columns: {rb[:k]}")
            return
        for t, (x, y) in enumerate(zip(ra, rb[k:])):
            if not _eq(x, y, exact):
                out.append(f"{name}[{s}][{t}]: {x!r} vs {y!r}")
                return


def _shift_events(evs, k):
    return [[e[0] - k, e[1], e[2]] for e in evs]


def relation(base, v, *, exact, k=0, same_order=False, error_partial=False, check_rows=True, inv_from=None):
    """differences between a base run and a variant run under the relabelling (list of strings)"""
    d = []
    # `update_pilots` stops at the FIRST offending station in registration order: which of the two set_pilot errors
    # comes out may depend on that order when two stations offend differently (AcnProofs/C10Stations.lean, (b))
    both_pilot = error_partial and base["err"] in PILOT_ERRS and v["err"] in PILOT_ERRS
    if base["err"] != v["err"] and not both_pilot:
        d.append(f"error class: {base['err']!r} vs {v['err']!r}")
        return d
    # aborted by update_pilots under a changed registration order: the stations before the offender have charged.
    # Related all the same (AbortEquiv): iteration, queue, histories, pilot matrix, rate matrix, peak, invocations,
    # occupancy — everything update_pilots does not write; NOT related: EV records, EVSE.current_pilot, draws.
    # Every other abort (scheduler, _update_schedules, events of an invalid layout) leaves fully related states.
    pilot_abort = error_partial and base["err"] in PILOT_ERRS
    if base["iter"] + k != v["iter"] and not (base["iter"] == 0 and base["err"] is None and not base["events"]):
        d.append(f"iteration: {base['iter']} (+{k}) vs {v['iter']}")
    ev_b, ev_v = base["events"], _shift_events(v["events"], k)
    if same_order:
        if ev_b != ev_v:
            d.append(f"event history (exact order): {ev_b} vs {ev_v}")
        if base["ev_history"] != v["ev_history"]:
            d.append(f"ev_history order: {base['ev_history']} vs {v['ev_history']}")
    else:
        if S.canon_events(ev_b) != S.canon_events(ev_v):
            d.append(f"event history (ties canonicalised): {S.canon_events(ev_b)} vs {S.canon_events(ev_v)}")
        if sorted(base["ev_history"]) != sorted(v["ev_history"]):
            d.append(f"ev_history keys: {sorted(base['ev_history'])} vs {sorted(v['ev_history'])}")
    if sorted(base["pending"]) != sorted(_shift_events(v["pending"], k)):
        d.append(f"pending events: {base['pending']} vs {v['pending']}")
    if check_rows:
        _rows("pilot_signals", base["pilots"], v["pilots"], exact, d, k)
    _rows("charging_rates", base["rates"], v["rates"], exact, d, k)
    lo = 0 if inv_from is None else inv_from
    inv_b = [t for t in base["invoked"] if t >= lo]
    inv_v = [t - k for t in v["invoked"] if t - k >= lo]
    if inv_b != inv_v:
        d.append(f"scheduler invoked at {inv_b} vs {inv_v} (shift {k}, compared from period {lo})")
    fb = [f for f in base["feas"] if f[0] >= lo]
    fv = [[f[0] - k, f[1]] for f in v["feas"] if f[0] - k >= lo]
    if fb != fv:
        d.append(f"Interface.is_feasible(schedule) per invocation: {fb} vs {fv}")
    if not close(base["peak"], v["peak"]) or (exact and same_order and base["peak"] != v["peak"]):
        d.append(f"peak: {base['peak']!r} vs {v['peak']!r}")
    if set(base["evs"]) != set(v["evs"]):
        d.append("session sets differ")
    elif not pilot_abort:
        for sid, e in base["evs"].items():
            for f in ("delivered", "rate", "charge", "power"):
                if not _eq(e[f], v["evs"][sid][f], exact):
                    d.append(f"session {sid} {f}: {e[f]!r} vs {v['evs'][sid][f]!r}")
    for s in base["evse_pilot"]:
        if pilot_abort:
            break
        if s in v["evse_pilot"] and not _eq(base["evse_pilot"][s], v["evse_pilot"][s], exact):
            d.append(f"EVSE {s} current_pilot: {base['evse_pilot'][s]!r} vs {v['evse_pilot'][s]!r}")
    if base["occ_final"] != v["occ_final"]:
        d.append(f"final occupancy: {base['occ_final']} vs {v['occ_final']}")
    if base["occ"] != v["occ"][k:] or any(any(x is not None for x in row.values()) for row in v["occ"][:k]):
        d.append("occupancy log differs")
    if base["noise_draws"] != v["noise_draws"] and not pilot_abort:
        d.append(f"noise draws consumed: {base['noise_draws']} vs {v['noise_draws']}")
    return d


def _idle_ok(sc):
    """the k idle periods in front of a shifted scenario apply pilot 0 to every (empty) EVSE; an EVSE with
    min_rate > 0 refuses pilot 0 (DESIGN §8, the code's own TODO) and aborts the run in period 0 whatever the
    events are — the shift relation presupposes an idle prefix that does not abort (`hidle` of run_shift_partial)"""
    return not any(st["kind"]["t"] == "cont" and float(I.num(st["kind"].get("min", 0))) > 1e-3 for st in sc["stations"])


def _est_shift_ok(sc):
    """SimpleRampdown reads Interface.last_applied_pilot_signals, which is `{}` while iteration - 1 <= 0 WHATEVER was
    applied in period 0 (interface.py:359-360, DESIGN §8): a scenario whose first event is in period 0 is not
    shift-invariant under the estimator; from period 1 on it is"""
    fe = _first_event(sc)
    return not _estimate(sc) or (fe is not None and fe >= 1)


def _sorted_history(evs):
    key = [(e[0], S.PREC[e[1]]) for e in evs]
    return all(a <= b for a, b in zip(key, key[1:]))


KEY_EDGE = 1e-6        # true keys closer than this (relative to max(1, |key|)) count as tied: the oracle abstains


def true_keys(sc, t, rows):
    """The sort key of every recorded active session as the DEFINITION of the sort order gives it
    (sorted_algorithms.py docstrings), from scenario data and the session fields — independent of the
    implementation's key functions:
      fcfs / lcfs  arrival                           edf   estimated departure
      lrpt         remaining demand [A*periods] / maximum pilot of the station        (periods)
      llf          (estimated departure - t) - remaining demand [A*periods] / maximum pilot
    -> [[session, key, can still receive charge]]"""
    sort = sort_of(sc["sched"])[0]
    st = {x["id"]: x for x in sc["stations"]}
    period = float(I.num(sc["period"]))
    out = []
    for sid, station, arr, est, rem in (r_[:5] for r_ in rows):
        if sort in ("fcfs", "lcfs"):
            k = arr
        elif sort == "edf":
            k = est
        else:
            x = st[station]
            mx = float(max(I.num(r) for r in x["kind"]["rates"]) if x["kind"]["t"] == "finite" else I.num(x["kind"]["max"]))
            periods = rem * 1000 / float(I.num(x["V"])) * 60 / period / mx
            k = (est - t) - periods if sort == "llf" else periods
        out.append([sid, k, rem > 1e-9])
    return out


def key_gaps(sc, obs_run):
    """smallest gap between the true keys of two sessions that can both still receive charge, over all
    invocations of one run, and whether some pair is tied within KEY_EDGE -> (gap | None, tied)"""
    if sort_of(sc["sched"]) is None:
        return None, False
    best, tied = None, False
    for t, rows in obs_run.get("keys") or []:
        ks = sorted(k for _, k, live in true_keys(sc, t, rows) if live)
        for a, b in zip(ks, ks[1:]):
            if best is None or b - a < best:
                best = b - a
            if b - a <= KEY_EDGE * max(1.0, abs(a), abs(b)):
                tied = True
    return best, tied


def rt_tied(obs_run):
    """uninterrupted_charging: two sessions that can still receive charge have the same remaining_time in one
    invocation (the key of the stable sort inside apply_minimum_charging_rate: the station order breaks the tie)"""
    for _t, rows in obs_run.get("keys") or []:
        live = [r_[5] for r_ in rows if len(r_) > 5 and r_[4] > 1e-9]
        if len(set(live)) < len(live):
            return True
    return False


def _uninterrupted(sc):
    return bool(((sc.get("sched") or {}).get("opts") or {}).get("uninterrupted"))


def _estimate(sc):
    return bool(((sc.get("sched") or {}).get("opts") or {}).get("estimate"))


def _tie_sensitive(case, obs):
    """a sorted scheduler whose TRUE sort key has a tie among sessions that are connected at the same time:
    statically (arrival / estimated departure of overlapping sessions) and, for every sort order incl. the
    state-dependent keys of LLF / LRPT, in the recorded invocations of the base run (within KEY_EDGE)"""
    sc = case["sc"]
    so = sort_of(sc["sched"])
    if so is None:
        return False
    if _uninterrupted(sc):
        # the main sort starts from the remaining-time order (apply_minimum_charging_rate returns its queue), so a tie
        # of the main key is broken alike in every registration order: only remaining_time ties are order-sensitive
        # (run_equivariant_stations_sorted_uninterrupted)
        return rt_tied(obs["base"])
    ss = sc["sessions"]
    if so[0] in ("fcfs", "lcfs", "edf"):
        arrival = so[0] != "edf"
        for i, a in enumerate(ss):
            for b in ss[i + 1:]:
                overlap = a["arrival"] < b["departure"] and b["arrival"] < a["departure"]
                ka = a["arrival"] if arrival else (a["est"] if a.get("est") is not None else a["departure"])
                kb = b["arrival"] if arrival else (b["est"] if b.get("est") is not None else b["departure"])
                if overlap and ka == kb:
                    return True
    return key_gaps(sc, obs["base"])[1]


def pair_relations(case, obs):
    """{variant: [differences]} for one set of observations"""
    sc = case["sc"]
    base = obs["base"]
    valid = S.is_valid_layout(_as_simcase(sc))
    exact = bool(case.get("exact"))
    fe = _first_event(sc)
    k = case["var"]["shift"] if fe is not None else 0      # nothing to shift: run() returns at once
    tie = _tie_sensitive(case, obs)
    res = {}
    res["twice"] = relation(base, obs["twice"], exact=True, same_order=True)
    res["constraints"] = relation(base, obs["constraints"], exact=exact, same_order=True)
    if obs["constraints"]["station_ids"] != base["station_ids"]:
        res["constraints"].append("station order changed by a constraint permutation")
    if sorted(obs["constraints"]["constraint_index"]) != sorted(base["constraint_index"]):
        res["constraints"].append("constraint names differ")
    # a network / simulator written to JSON and read back before use is the same input: identical outputs, same
    # station order, same constraint order, same event order — whatever the layout, ties or idle prefix
    # (compared per station / session id like every other pair: a round trip that re-orders stations or constraints
    # CONSISTENTLY is not a violation; bitwise as long as it keeps both orders, which it does today)
    for name, ref in (("json_net", "stations"), ("json_sim", "combined")):
        kept = (obs[name]["station_ids"] == obs[ref]["station_ids"]
                and obs[name]["constraint_index"] == obs[ref]["constraint_index"])
        res[name] = relation(obs[ref], obs[name], exact=(True if kept else exact), same_order=valid, error_partial=not kept)
        if res[name] and not kept:
            res[name].append(f"(station order after the JSON round trip: {obs[name]['station_ids']}, before: {obs[ref]['station_ids']})")
    idle_ok = _idle_ok(sc) and _est_shift_ok(sc)
    if valid:
        # bitwise: neither the station order nor the draw order changes
        res["sessions"] = relation(base, obs["sessions"], exact=True)
        if idle_ok:
            res["shift"] = relation(base, obs["shift"], exact=True, k=k, same_order=True, inv_from=(fe if fe is not None else 10 ** 9))
        if not tie:
            res["stations"] = relation(base, obs["stations"], exact=exact, error_partial=True)
            if idle_ok:
                res["combined"] = relation(base, obs["combined"], exact=exact, k=k, error_partial=True, inv_from=(fe if fe is not None else 10 ** 9))
    else:
        # which of two colliding plug-ins raises depends on the listing order; only the unordered parts
        res["stations"] = relation(base, obs["stations"], exact=exact, error_partial=True) if not tie else []
    if not tie:
        for p, o in obs.get("allperms") or []:
            d = relation(base, o, exact=exact, error_partial=True)
            if d:
                res.setdefault("stations", [])
                res["stations"] = res["stations"] + [f"registration order {p}: " + d[0]]
                break
    return res


def oracle(case, obs):
    fails = []
    for name, diffs in pair_relations(case, obs).items():
        if diffs:
            fails.append({"kind": f"order_dependence:{name}", "detail": diffs[:6]})
    for name in ("base",) + VARIANTS:
        if not _sorted_history(obs[name]["events"]):
            fails.append({"kind": "history_not_key_sorted", "detail": [name, obs[name]["events"]]})
    for seed, ans in (obs.get("hashseed") or {}).items():
        if "exc" in ans:
            fails.append({"kind": "hashseed_worker_failed", "detail": ans["exc"]})
            continue
        o = ans["ok"]
        for name in ("base",) + VARIANTS:
            a = {k: v for k, v in obs[name].items()}
            if json.loads(json.dumps(a)) != o[name]:
                keys = [k for k in a if json.loads(json.dumps(a[k])) != o[name].get(k)]
                fails.append({"kind": "hashseed_dependence", "detail": f"PYTHONHASHSEED={seed} run {name}: fields {keys} differ"})
                break
    return fails


def tie_report(case, obs):
    """what happens with ties in a sort key (documented behaviour, not a violation)"""
    if not _tie_sensitive(case, obs):
        return None
    d = relation(obs["base"], obs["stations"], exact=False, error_partial=True)
    return "tie:station_order_changes_result" if d else "tie:same_result"


def nontrivial(case, obs):
    sc, var = case["sc"], case["var"]
    return (len(sc["stations"]) >= 2 and var["stations"] != list(range(len(sc["stations"])))
            and len(sc["sessions"]) >= 2 and any(e["delivered"] > 0 for e in obs["base"]["evs"].values()))


def features(case, obs):
    sc, var = case["sc"], case["var"]
    f = [f"sched:{sc['sched']['type']}", f"stations:{len(sc['stations'])}", f"constraints:{min(len(sc['constraints']), 3)}",
         f"sessions:{min(len(sc['sessions']) // 3 * 3, 9)}+", f"shift:{'0' if var['shift'] == 0 else '1-7' if var['shift'] <= 7 else '8-30'}",
         f"err:{obs['base']['err']}", f"exact:{bool(case.get('exact'))}"]
    if sc.get("malformed"):
        f.append(f"malformed:{sc['malformed']}")
    if not S.is_valid_layout(_as_simcase(sc)):
        f.append("layout:invalid")
    ts = {}
    for s in sc["sessions"]:
        ts[s["arrival"]] = ts.get(s["arrival"], 0) + 1
    if any(v >= 2 for v in ts.values()):
        f.append("tied_plugins")
    if var["stations"] != list(range(len(sc["stations"]))):
        f.append("perm:stations")
    if var["constraints"] != list(range(len(sc["constraints"]))):
        f.append("perm:constraints")
    if var["sessions"] != list(range(len(sc["sessions"]))):
        f.append("perm:sessions")
    if any(st["phase"] != 0 for st in sc["stations"]):
        f.append("phases:mixed")
    kinds = {st["kind"]["t"] for st in sc["stations"]}
    f.extend(f"evse:{k}" for k in sorted(kinds))
    if sc.get("targeted"):
        f.append(f"targeted:{sc['targeted']}")
    if (sc["sched"].get("opts") or {}).get("uninterrupted"):
        f.append("opt:uninterrupted")
        if sort_of(sc["sched"]):
            f.append("rt:tied" if rt_tied(obs["base"]) else "rt:distinct")
    if _estimate(sc):
        f.append("opt:estimate")
        bb = obs["base"]
        if any(abs(bb["rates"][s_][t_] - bb["pilots"][s_][t_]) > 1.0 for s_ in bb["rates"]
               for t_ in range(min(len(bb["rates"][s_]), len(bb["pilots"][s_])))):
            f.append("estimate:car_draws_less_than_pilot")
        if not _est_shift_ok(sc):
            f.append("shift:skipped(estimator reads absolute time, first event in period 0)")
    if sc.get("abort"):
        f.append(f"abort:{sc['abort']}")
    if obs["base"]["err"] is not None:
        f.append("aborted")
        if obs["base"]["err"] in PILOT_ERRS and any(e_["delivered"] > 0 for e_ in obs["base"]["evs"].values()):
            f.append("aborted:update_pilots_after_delivery")
    if case.get("allperms"):
        f.append("allperms")
    if obs["json_net"]["station_ids"] != sorted(obs["json_net"]["station_ids"]):
        f.append("json_net:non_alphabetical_registration")
    if obs["json_sim"]["station_ids"] != sorted(obs["json_sim"]["station_ids"]):
        f.append("json_sim:non_alphabetical_registration")
    if len({(json.dumps(st["kind"], sort_keys=True), st["V"], st["phase"]) for st in sc["stations"]}) > 1:
        f.append("stations:not_interchangeable")
    if sort_of(sc["sched"]):
        f.append("sort:" + sort_of(sc["sched"])[0] + ("+rr" if sort_of(sc["sched"])[1] else ""))
        g, tied = key_gaps(sc, obs["base"])
        if g is not None:
            f.append("keys:tied" if tied else "keys:within_0.1" if g < 0.1 else "keys:within_1" if g < 1 else "keys:apart")
        if any(s_.get("est") is not None for s_ in sc["sessions"]):
            f.append("estimate!=departure")
        rows = obs["base"]["pilots"]
        act = max((sum(1 for s_ in rows if t < len(rows[s_]) and rows[s_][t] > 0) for t in range(max(len(r) for r in rows.values()))), default=0)
        conn = max((sum(1 for v in row.values() if v is not None) for row in obs["base"]["occ"]), default=0)
        if conn > act:
            f.append("some_connected_car_gets_0")
    tr = tie_report(case, obs)
    if tr:
        f.append(tr)
    if not _idle_ok(sc):
        f.append("shift:skipped(min_rate>0 refuses the idle pilot 0)")
    if case.get("hashseeds"):
        f.append("hashseed:3")
    b, v = obs["base"], obs["stations"]
    if b["err"] is None and v["err"] is None and (b["peak"] != v["peak"] or any(
            b["rates"][s] != v["rates"].get(s) for s in b["rates"])):
        f.append("ulp_drift:stations")
    if any(e["delivered"] > 0 for e in b["evs"].values()):
        f.append("energy_delivered")
    return f


def search(rng, n):
    return [gen_case(rng, i, "search") for i in range(n)]


def shrink(case, kind):
    """greedy: drop sessions / script entries / constraints while the same failure kind remains"""
    def fails(c):
        try:
            return any(f["kind"] == kind for f in oracle(c, run_impl(c)))
        except Exception:
            return False
    cur = copy.deepcopy(case)
    cur.pop("hashseeds", None) if not kind.startswith("hashseed") else None
    if not fails(cur):
        return case
    changed = True
    while changed:
        changed = False
        for field in ("sessions", "constraints", "recomputes"):
            i = 0
            while i < len(cur["sc"][field]):
                c2 = copy.deepcopy(cur)
                del c2["sc"][field][i]
                c2["var"][field] = sorted(range(len(c2["sc"][field])), key=lambda j: -j)
                if fails(c2):
                    cur, changed = c2, True
                else:
                    i += 1
        if cur["sc"]["sched"]["type"] == "scripted":
            i = 0
            while i < len(cur["sc"]["sched"]["script"]):
                c2 = copy.deepcopy(cur)
                del c2["sc"]["sched"]["script"][i]
                if fails(c2):
                    cur, changed = c2, True
                else:
                    i += 1
    return cur
