"""C01 — every session is plugged in and unplugged exactly once; run() terminates."""
from __future__ import annotations

import copy
import itertools

from core import simcase as S

ID = "C01"
LEAN_MODULES = ["AcnProofs.C01", "AcnProofs.Lemmas.EventCorePilots", "AcnProofs.Lemmas.EventCoreSimFail", "AcnProofs.Lemmas.EventCoreStep"]
TIE_MODULES = ["AcnProofs.Lemmas.CodeTieQueue"]
DRIVER = "drv_C01"
REQUIRED_THEOREMS = [
    "Acn.C01.prec_order", "Acn.C01.keyLt_strictWeakOrder", "Acn.C01.cfg0_valid", "Acn.C01.init_Inv",
    "Acn.C01.body_preserves_Inv", "Acn.C01.processed_in_own_period", "Acn.C01.horizon_spec",
    "Acn.C01.run_terminates", "Acn.C01.run_terminates_driver_fuel", "Acn.C01.inv_at_period", "Acn.C01.plugged_once", "Acn.C01.unplugged_once",
    "Acn.C01.history_sorted", "Acn.C01.history_complete", "Acn.C01.ev_history_keys", "Acn.C01.all_vacant_at_end",
    "Acn.C01.connected_iff", "Acn.C01.sim_body_core", "Acn.C01.sim_run_C01",
    "Acn.C01.canonical_queue_meets_spec", "Acn.C01.body_preserves_Inv_any_queue",
    "Acn.C01.run_terminates_any_queue", "Acn.C01.run_terminates_real_heap", "Acn.C01.runQ_canonical_eq_run",
    "Acn.Sim.body_pilots", "Acn.Sim.run_pilots", "Acn.Sim.run_applied_eq_spec",
    "Acn.C01.run_terminates_any_network", "Acn.C01.history_sorted_complete_any_network",
    "Acn.C01.history_sorted_complete_any_network_H",
    "Acn.C01.bodyG_chargingNet_eq_body", "Acn.C01.cfg1_validQ", "Acn.Sim.body_core_any", "Acn.C01.sim_runQ_heap_C01",
    "Acn.Sim.step_runs_first_pass", "Acn.Sim.step_first_pass_error", "Acn.Sim.stepPass_applies_schedule", "Acn.Sim.stepPass_core",
    "Acn.Sim.stepUnfixed_noop_of_resolve", "Acn.Sim.stepUnfixed_typeError", "Acn.Sim.stepPass_sets_resolve", "Acn.Sim.stepsUnfixed_stall",
]
BUDGET = {"quick": 1200, "thorough": 15000, "search": 8000}
TRUSTED = ["CPython heapq: heappop returns a <-minimal entry and keeps the rest (which one among equal "
           "(timestamp, precedence) keys is left open by the theorems; the correspondence canonicalises ties)",
           "dict insertion order, numpy slicing/zeros/sum as used by simulator.py",
           "session ids identify EV objects (the model's events refer to sessions by id)"]
ASSUMPTIONS = ["Valid S R: distinct session ids, registered stations, 0 <= arrival < departure, sessions on one "
               "station pairwise non-overlapping (back-to-back allowed), recompute timestamps >= 0",
               "the scheduler parameter does not raise and only returns schedules the EVSEs accept "
               "(otherwise run() aborts; the abort itself — class and period — is covered by the correspondence)"]
RULE = ("scenario = 1-6 stations of mixed EVSE classes (with/without an aggregate constraint), 0-25 sessions laid "
        "out per station with gaps in {0,0,0,1,2,3} (half of all reuse back-to-back), arrivals from a small range, "
        "shuffled queue insertion order, 0-4 extra recompute events, period in {0.5,1,5,15}, max_recompute in "
        "{None,1,2,5}, scheduler in {scripted multi-period, empty, real algorithms (oracle only)}; 20% malformed "
        "(overlap, unknown station, departure<=arrival, invalid pilot, bad schedules, scheduler crash, min_rate>0); "
        "thorough adds every layout with <=3 sessions on <=2 stations within horizon 5; "
        "non-trivial = valid layout with >=2 sessions and (back-to-back reuse or two events in one period); "
        "distinct by hash of the case")


# ------------------------------------------------------------------ corpus / generation


def _b(cap=40, init=5):
    return {"two": False, "cap": cap, "init": init, "maxp": 7}


def _s(sid, st, a, d, req=10.0):
    return {"session": sid, "station": st, "arrival": a, "departure": d, "requested": req, "batt": _b(), "est": None}


def _basic(i):
    return {"id": f"S{i}", "kind": {"t": "cont", "min": 0, "max": 32}, "V": 208, "phase": 0}


def corpus():
    const = {"type": "scripted", "default": [["S0", [16.0]], ["S1", [8.0]]], "script": []}
    out = []
    # back-to-back reuse on one station
    out.append({"stations": [_basic(0), _basic(1)], "constraint": None,
                "sessions": [_s("b", "S0", 3, 5), _s("a", "S0", 0, 3), _s("c", "S0", 5, 6)],
                "recomputes": [], "period": 5, "max_recompute": 1, "noise": [], "sched": const})
    # three simultaneous unplug / plug-in pairs with a recompute in the same period
    st3 = [_basic(0), _basic(1), _basic(2)]
    out.append({"stations": st3, "constraint": {"limit": 64.0},
                "sessions": [_s("n0", "S0", 4, 7), _s("o0", "S0", 1, 4), _s("n1", "S1", 4, 6), _s("o1", "S1", 0, 4),
                             _s("o2", "S2", 2, 4), _s("n2", "S2", 4, 9)],
                "recomputes": [4, 4, 0], "period": 1, "max_recompute": None, "noise": [],
                "sched": {"type": "scripted", "default": [], "script": [{"t": 4, "sched": [["S0", [8.0, 8.0, 8.0]], ["S2", [32.0, 0.0, 16.0]]]}]}})
    # F2 / F7 regression: multi-period schedule in the last period; scheduler crash in the last period
    out.append({"stations": [_basic(0), _basic(1)], "constraint": None,
                "sessions": [_s("a", "S0", 0, 6), _s("b", "S1", 2, 5)], "recomputes": [], "period": 5,
                "max_recompute": None, "noise": [],
                "sched": {"type": "scripted", "default": [], "script": [{"t": 6, "sched": [["S0", [5.0, 5.0, 5.0]]]}]}})
    out.append({"stations": [_basic(0), _basic(1)], "constraint": None,
                "sessions": [_s("a", "S0", 0, 6), _s("b", "S1", 2, 5)], "recomputes": [], "period": 5,
                "max_recompute": None, "noise": [], "malformed": "sched_fail",
                "sched": {"type": "scripted", "default": [["S1", [13.0]]], "script": [{"t": 6, "fail": True}]}})
    # recompute after the last departure; empty scenario; only recomputes
    out.append({"stations": [_basic(0)], "constraint": None, "sessions": [_s("a", "S0", 1, 2)], "recomputes": [5],
                "period": 15, "max_recompute": 2, "noise": [], "sched": {"type": "empty"}})
    out.append({"stations": [_basic(0)], "constraint": None, "sessions": [], "recomputes": [], "period": 1,
                "max_recompute": 1, "noise": [], "sched": {"type": "empty"}})
    out.append({"stations": [_basic(0)], "constraint": None, "sessions": [], "recomputes": [0, 3], "period": 1,
                "max_recompute": None, "noise": [], "sched": {"type": "empty"}})
    # malformed: overlap with equal arrival, overlap later, unknown station
    out.append({"stations": [_basic(0)], "constraint": None, "sessions": [_s("a", "S0", 1, 4), _s("b", "S0", 1, 3)],
                "recomputes": [], "period": 1, "max_recompute": None, "noise": [], "malformed": "overlap", "sched": {"type": "empty"}})
    out.append({"stations": [_basic(0)], "constraint": None, "sessions": [_s("a", "S0", 1, 4), _s("b", "S0", 3, 6)],
                "recomputes": [], "period": 1, "max_recompute": None, "noise": [], "malformed": "overlap", "sched": {"type": "empty"}})
    out.append({"stations": [_basic(0)], "constraint": None, "sessions": [_s("a", "S0", 0, 2), _s("b", "S9", 1, 3)],
                "recomputes": [], "period": 1, "max_recompute": None, "noise": [], "malformed": "unknown_station", "sched": {"type": "empty"}})
    return out


def exhaustive():
    """Every layout with <= 3 sessions on <= 2 stations within horizon 5 (valid and overlapping)."""
    slots = [(st, a, d) for st in ("S0", "S1") for a in range(0, 5) for d in range(a + 1, 6)]
    sched = {"type": "scripted", "default": [["S0", [16.0]], ["S1", [8.0]]], "script": []}
    out = []
    for n in range(0, 4):
        for combo in itertools.combinations(range(len(slots)), n):
            ss = [_s(f"x{i}", slots[j][0], slots[j][1], slots[j][2], req=50.0) for i, j in enumerate(combo)]
            # insertion order: reversed for every second layout (heap layout differs)
            if sum(combo) % 2:
                ss.reverse()
            out.append({"stations": [_basic(0), _basic(1)], "constraint": None, "sessions": ss, "recomputes": [],
                        "period": 5, "max_recompute": [None, 1, 2][len(out) % 3], "noise": [], "sched": sched,
                        "exhaustive": True})
    return out


def generate(rng, n, tier):
    out = []
    if tier == "thorough":
        out.extend(exhaustive())
    for i in range(n):
        r = i % 10
        if r in (7, 8):
            c = S.gen_case(rng, malformed=True)
            if c.get("malformed") == "sched_fail":
                c["resume"] = True      # the scheduler crashes once; run() is called again
            out.append(c)
        elif r == 9:
            out.append(S.gen_case(rng, real_algos=True, max_sessions=12))
        elif r == 6:
            out.append(S.gen_step_case(rng))
        else:
            out.append(S.gen_case(rng))
    return out


def search(rng, n):
    return generate(rng, n, "search")


# ------------------------------------------------------------------ implementation / model


def run_impl(case):
    if "steps" in case:             # driven through Simulator.step() instead of run()
        return S.run_impl_steps(case)
    if case.get("resume"):          # crash/resume: run() is called again after it raised
        return S.run_impl_resume(case)
    return S.run_impl(case)


def model_request(case):
    # the model runs over the transcription of CPython's array heap: exact tie order
    if "steps" in case:
        return S.model_request(case)
    return S.model_request(case, resume=bool(case.get("resume")), queue="heap")


def compare(case, obs, model):
    return S.compare(case, obs, model, exact_ties="steps" not in case)


# ------------------------------------------------------------------ oracle: C01 stated on the implementation

SCHED_FAULTS = {"invalid_rate", "sched_unknown_station", "ragged", "sched_fail", "min_rate"}
# a scheduler crash followed by a second run() is in scope again: the resumed run must complete the
# history exactly as an uninterrupted one (this is what F7 broke in the last period)
PREC = {"Unplug": 0, "Plugin": 1, "Recompute": 2}
PREMISE_ERRORS = ("InvalidRate", "InvalidSchedule", "SchedulerFailed")


def in_scope(case):
    if "steps" in case:
        return False                 # C01 is about run(); step() is tied by correspondence only
    if case.get("malformed") == "sched_fail" and case.get("resume"):
        return S.is_valid_layout(case)
    return S.is_valid_layout(case) and case.get("malformed") not in SCHED_FAULTS


def oracle(case, obs):
    if not in_scope(case):
        return []
    fails = []
    ss = case["sessions"]
    recs = sorted(case.get("recomputes", []))
    if obs["err"] in PREMISE_ERRORS:
        return []        # the scheduler failed or returned a schedule the EVSEs refuse: premise of C01 not met
    if obs["err"] is not None:
        return [{"kind": "run_raised", "detail": f"run() raised {obs['err']} in period {obs['iter']} on a valid scenario"}]
    evh = obs["event_history"]
    for s in ss:
        plugs = [e for e in evh if e[1] == "Plugin" and e[2] == s["session"]]
        unpl = [e for e in evh if e[1] == "Unplug" and e[2] == s["session"]]
        if plugs != [[s["arrival"], "Plugin", s["session"]]]:
            fails.append({"kind": "plug_count", "detail": f"session {s['session']}: plug-in entries {plugs}, expected one at {s['arrival']}"})
        if unpl != [[s["departure"], "Unplug", s["session"]]]:
            fails.append({"kind": "unplug_count", "detail": f"session {s['session']}: unplug entries {unpl}, expected one at {s['departure']}"})
    if sorted(e[0] for e in evh if e[1] == "Recompute") != recs:
        fails.append({"kind": "recompute_count", "detail": f"recompute entries {[e for e in evh if e[1] == 'Recompute']} expected at {recs}"})
    if len(evh) != 2 * len(ss) + len(recs):
        fails.append({"kind": "history_length", "detail": f"{len(evh)} entries for {len(ss)} sessions and {len(recs)} recomputes"})
    keys = [(e[0], PREC.get(e[1], 9)) for e in evh]
    if keys != sorted(keys):
        fails.append({"kind": "history_unsorted", "detail": f"event_history not ordered by (time, unplug<plugin<recompute): {evh}"})
    ts = [s["departure"] for s in ss] + recs
    expect_iter = (max(ts) + 1) if ts else 0
    if not obs["queue_empty"]:
        fails.append({"kind": "queue_not_empty", "detail": f"pending after run(): {obs['pending']}"})
    if obs["iter"] != expect_iter:
        fails.append({"kind": "final_iteration", "detail": f"iteration {obs['iter']} expected {expect_iter}"})
    if any(x is not None for x in obs["occ_final"]):
        fails.append({"kind": "not_vacant", "detail": f"occupants after run(): {obs['occ_final']}"})
    sts = [st["id"] for st in case["stations"]]
    if len(obs["occ"]) != obs["iter"]:
        fails.append({"kind": "occupancy", "detail": f"{len(obs['occ'])} occupancy snapshots for {obs['iter']} periods"})
    for t, row in enumerate(obs["occ"]):
        exp = []
        for st in sts:
            here = [s["session"] for s in ss if s["station"] == st and s["arrival"] <= t < s["departure"]]
            exp.append(here[0] if here else None)
        if row != exp:
            fails.append({"kind": "occupancy", "detail": f"period {t}: connected {row}, expected {exp}"})
            break
    for i, st in enumerate(sts):
        for t, r in enumerate(obs["rates"][i] if i < len(obs["rates"]) else []):
            if r != 0 and not any(s["station"] == st and s["arrival"] <= t < s["departure"] for s in ss):
                fails.append({"kind": "rate_outside_session", "detail": f"charging_rates[{st}][{t}] = {r} with no session connected"})
                break
    evk = obs["ev_history"]
    arr = {s["session"]: s["arrival"] for s in ss}
    if sorted(evk) != sorted(arr) or [arr[k] for k in evk if k in arr] != sorted(arr[k] for k in evk if k in arr):
        fails.append({"kind": "ev_history", "detail": f"ev_history keys {evk}"})
    return fails


# ------------------------------------------------------------------ statistics


def _b2b(case):
    n = 0
    for a in case["sessions"]:
        for b in case["sessions"]:
            if a is not b and a["station"] == b["station"] and a["departure"] == b["arrival"]:
                n += 1
    return n


def _simul(case):
    ts = [s["arrival"] for s in case["sessions"]] + [s["departure"] for s in case["sessions"]] + list(case.get("recomputes", []))
    return len(ts) - len(set(ts))


def nontrivial(case, obs):
    return in_scope(case) and len(case["sessions"]) >= 2 and (_b2b(case) > 0 or _simul(case) > 0)


def features(case, obs):
    n = len(case["sessions"])
    f = [f"stations={len(case['stations'])}",
         "sessions=" + ("0" if n == 0 else "1-3" if n <= 3 else "4-8" if n <= 8 else "9-25"),
         f"sched={case['sched']['type']}", f"period={case['period']}", f"max_recompute={case['max_recompute']}",
         f"err={obs.get('err')}", f"malformed={case.get('malformed')}",
         f"resumed={'first' in obs}", f"driven_by={'step' if 'steps' in case else 'run'}",
         "back_to_back=" + ("0" if _b2b(case) == 0 else "1-2" if _b2b(case) <= 2 else "3+"),
         "simultaneous=" + ("0" if _simul(case) == 0 else "1-3" if _simul(case) <= 3 else "4+"),
         f"recomputes={min(len(case.get('recomputes', [])), 3)}",
         f"constraint={'yes' if case.get('constraint') else 'no'}"]
    if case.get("exhaustive"):
        f.append("exhaustive_small_scope")
    if in_scope(case) and obs.get("err") in PREMISE_ERRORS:
        f.append("oracle_abstained_premise")
    kinds = sorted({st["kind"]["t"] for st in case["stations"]})
    f.append("evse=" + "+".join(kinds))
    if any(s["batt"].get("two") and s["batt"].get("noise", 0) > 0 for s in case["sessions"]):
        f.append("noisy_battery")
    if obs.get("err") is None and any(any(x != 0 for x in row) for row in obs.get("rates", [])):
        f.append("energy_delivered")
    return f


def shrink(case, kind):
    """Greedy: drop sessions / recomputes / script entries while the same failure kind persists."""
    def bad(c):
        try:
            return any(f["kind"] == kind for f in oracle(c, run_impl(c)))
        except Exception:
            return False
    if not bad(case):
        return case
    cur = copy.deepcopy(case)
    changed = True
    while changed:
        changed = False
        for key in ("sessions", "recomputes"):
            i = 0
            while i < len(cur.get(key, [])):
                c2 = copy.deepcopy(cur)
                del c2[key][i]
                if bad(c2):
                    cur = c2
                    changed = True
                else:
                    i += 1
        sc = cur.get("sched", {})
        i = 0
        while i < len(sc.get("script", [])):
            c2 = copy.deepcopy(cur)
            del c2["sched"]["script"][i]
            if bad(c2):
                cur = c2
                sc = cur["sched"]
                changed = True
            else:
                i += 1
    return cur
