"""C01 — every session is plugged in and unplugged exactly once; run() terminates."""
from __future__ import annotations

import copy
import itertools

from core import simcase as S
from core import impl as I

ID = "C01"
LEAN_MODULES = ["AcnProofs.C01", "AcnProofs.C01Assemble", "AcnProofs.Lemmas.EventCorePilots", "AcnProofs.Lemmas.EventCoreSimFail",
                "AcnProofs.Lemmas.EventCoreStep", "AcnProofs.Lemmas.EventCoreAssemble",
                # interrupted / saved / resumed runs (a module of its own: the ResumeRun lemma family of C09 and the
                # EventCoreSim family of C01 declare the same projection names)
                "AcnProofs.C01Resume"]
TIE_MODULES = ["AcnProofs.Lemmas.CodeTieQueue", "AcnProofs.Lemmas.CodeTieQueueOps", "AcnProofs.Lemmas.CodeTieEvseOps", "AcnProofs.Lemmas.CodeTieNetOps", "AcnProofs.Lemmas.CodeTieSimEvent", "AcnProofs.Lemmas.CodeTieSimEventNet"]
# End-to-end capstone (C15 ∘ C01 ∘ C02 ∘ C18, C07 ∘ C16; lean/AcnProofs/Capstone.lean + CapstoneResume.lean): composes theorems of
# SEVERAL properties, so it is built and audited with this check but can never fail it (check.py: EXTRA_MODULES — a
# broken capstone is a note in evidence/C01.json `coverage.extra_modules`, not a violation, no forced search).
EXTRA_MODULES = ["AcnProofs.Capstone", "AcnProofs.CapstoneResume"]
DRIVER = "drv_C01"
REQUIRED_THEOREMS = [
    "Acn.C01.prec_order", "Acn.C01.keyLt_strictWeakOrder", "Acn.C01.cfg0_valid", "Acn.C01.init_Inv",
    "Acn.C01.body_preserves_Inv", "Acn.C01.processed_in_own_period", "Acn.C01.horizon_spec",
    "Acn.C01.run_terminates", "Acn.C01.run_terminates_driver_fuel", "Acn.C01.inv_at_period", "Acn.C01.plugged_once", "Acn.C01.unplugged_once",
    "Acn.C01.history_sorted", "Acn.C01.history_complete", "Acn.C01.ev_history_keys", "Acn.C01.all_vacant_at_end",
    "Acn.C01.connected_iff", "Acn.C01.sim_body_core", "Acn.C01.sim_run_C01",
    "Acn.C01.canonical_queue_meets_spec", "Acn.C01.body_preserves_Inv_any_queue",
    "Acn.C01.run_terminates_any_queue", "Acn.C01.run_terminates_real_heap", "Acn.C01.runQ_canonical_eq_run",
    "Acn.Sim.body_pilots", "Acn.Sim.run_pilots", "Acn.Sim.run_applied_eq_spec",
    "Acn.C01.run_terminates_any_network", "Acn.C01.history_sorted_complete_any_network",
    "Acn.C01.history_sorted_complete_any_network_H",
    "Acn.C01.bodyG_chargingNet_eq_body", "Acn.C01.cfg1_validQ", "Acn.Sim.body_core_any", "Acn.C01.sim_runQ_heap_C01",
    "Acn.Sim.step_runs_first_pass", "Acn.Sim.step_first_pass_error", "Acn.Sim.stepPass_applies_schedule", "Acn.Sim.stepPass_core",
    "Acn.Sim.stepUnfixed_noop_of_resolve", "Acn.Sim.stepUnfixed_typeError", "Acn.Sim.stepPass_sets_resolve", "Acn.Sim.stepsUnfixed_stall",
    # any split / insertion order of the events between the constructor and later add_events; run() called again
    "Acn.EventCore.foldl_push_ok", "Acn.EventCore.assembled_inv", "Acn.Sim.runStages_replicate_nil",
    "Acn.C01.run_terminates_assembled", "Acn.C01.sim_assembled_heap_C01",
    # interrupted (the scheduler raises in period k), possibly saved through JSON, and resumed — once or twice
    "Acn.C01Resume.uninterrupted_completed", "Acn.C01Resume.exactly_once_across_resume", "Acn.C01Resume.aborted_state_spec",
    "Acn.C01Resume.exactly_once_across_resume_json", "Acn.C01Resume.exactly_once_across_resume_json_text",
    "Acn.C01Resume.exactly_once_across_two_resumes", "Acn.C01Resume.exactly_once_across_two_resumes_json_first",
]
BUDGET = {"quick": 1200, "thorough": 15000, "search": 8000}
TRUSTED = ["CPython heapq: heappop returns a <-minimal entry and keeps the rest (which one among equal "
           "(timestamp, precedence) keys is left open by the theorems; the correspondence canonicalises ties)",
           "dict insertion order, numpy slicing/zeros/sum as used by simulator.py",
           "session ids identify EV objects (the model's events refer to sessions by id)"]
ASSUMPTIONS = ["interrupted runs: the interruption is an exception out of scheduler.run() (any class); the algorithm object "
               "handed to update_scheduler after a JSON load is the one that was attached before (its own state is its own "
               "business: C09); the resume theorems (AcnProofs/C01Resume.lean) are about the canonical queue — the heap's tie "
               "order across a resume is covered by the correspondence (model run over heapQ)",
               "Valid S R: distinct session ids, registered stations, 0 <= arrival < departure, sessions on one "
               "station pairwise non-overlapping (back-to-back allowed), recompute timestamps >= 0",
               "the scheduler parameter does not raise and only returns schedules the EVSEs accept "
               "(otherwise run() aborts; the abort itself — class and period — is covered by the correspondence)",
               "every event is in the queue object the Simulator was constructed on before run() reaches its period "
               "(at construction, added afterwards through any reference to that object, or between two run() calls); "
               "an event handed over later is processed in the first period after it was added — compared with the "
               "model (lean/AcnModel/SimAssemble.lean), not judged by the oracle",
               "objects of a FINISHED simulation (queue, network, scheduler, EV objects after EV.reset()) may be used "
               "for another one: the model of the second simulation is a run from the initial state, i.e. the claim "
               "is that nothing of the first run survives in them (EV.reset() keeping the last charging rate and an "
               "EVSE keeping its last pilot until its first period are masked where the object never takes part)"]
RULE = ("scenario = 1-6 stations of mixed EVSE classes (with/without an aggregate constraint), 0-25 sessions laid "
        "out per station with gaps in {0,0,0,1,2,3} (half of all reuse back-to-back), arrivals from a small range, "
        "shuffled queue insertion order, 0-4 extra recompute events, period in {0.5,1,5,15}, max_recompute in "
        "{None,1,2,5}, scheduler in {scripted multi-period, empty, real algorithms (uncontrolled / sorted fcfs, edf / round "
        "robin: oracle AND C07's composition model — the modelled algorithm inside the simulator model, drv_C01 'sorted' — for "
        "valid layouts whose events are all handed over in time; outside that domain oracle only)}; 20% malformed "
        "(overlap, unknown station, departure<=arrival, invalid pilot, bad schedules, scheduler crash, min_rate>0); "
        "~55% of the valid scenarios (and 30% of the malformed ones) are ASSEMBLED differently from "
        "Simulator(net, algo, EventQueue(all events)).run(): queue empty at construction and filled afterwards "
        "through the caller's own reference or through sim.event_queue, part of the events at construction and the "
        "rest later, 2-4 batches handed over between run() calls (time-closed so that it is the same simulation; one "
        "variant hands an event over too late: model comparison only), run() called again on a finished simulator, "
        "queue built by EventQueue(list) / add_events / add_event one by one in shuffled order, the queue deep-copied "
        "before it is handed over, the constructed simulator deep-copied (copy and original both run and both judged); "
        "~25% of the valid scenarios run on objects of an EARLIER, finished simulation on the same stations (same or "
        "other sessions, longer or shorter): any non-empty subset of {the EventQueue instance, the network, the "
        "scheduler, the EV objects after EV.reset()}; every simulation of a case is judged by the same oracle and "
        "compared with its own model run; "
        "every 12th generator step is an INTERRUPTED scenario (valid layout, stations registered in non-alphabetical id order "
        "at pairwise different voltages, 35% shifted so that period 0 holds an event, 15% real algorithms): the scheduler "
        "raises once in a period of every available kind (arrival, departure, back-to-back hand-over, arrival+departure, "
        "recompute only, quiet, the first event period / period 0, the LAST period) and the simulation is completed by run() "
        "on the same object or through to_json -> Simulator.from_json -> update_scheduler -> run() (core.simcase."
        "run_impl_resume_json), plus runs interrupted TWICE (each hand-over either way); judged: every clause of C01 on the "
        "completed simulation, and on every aborted state event_history = exactly the events with timestamp <= k and the "
        "queue = exactly the later plug-ins / recomputes + the unplugs of the connected sessions (nothing to replay, no "
        "follow-up lost), no session lost by the loader; aborted states and the final state compared with the model (heap "
        "queue, resumed with the script that still fails later; real algorithms: the uninterrupted composition model); "
        "thorough adds every period as crash point (both ways) and every pair of event periods (double, through JSON) on every "
        "12th valid small-scope layout, and every layout with <=3 sessions on <=2 stations within horizon 5 (every 3rd of them fed to an "
        "empty queue after construction, every 5th preceded by a simulation on the same queue object); "
        "non-trivial = valid layout with >=2 sessions and (back-to-back reuse or two events in one period); "
        "distinct by hash of the case")


# ------------------------------------------------------------------ corpus / generation


def _b(cap=40, init=5):
    return {"two": False, "cap": cap, "init": init, "maxp": 7}


def _s(sid, st, a, d, req=10.0):
    return {"session": sid, "station": st, "arrival": a, "departure": d, "requested": req, "batt": _b(), "est": None}


def _basic(i):
    return {"id": f"S{i}", "kind": {"t": "cont", "min": 0, "max": 32}, "V": 208, "phase": 0}


def corpus():
    const = {"type": "scripted", "default": [["S0", [16.0]], ["S1", [8.0]]], "script": []}
    out = []
    # back-to-back reuse on one station
    out.append({"stations": [_basic(0), _basic(1)], "constraint": None,
                "sessions": [_s("b", "S0", 3, 5), _s("a", "S0", 0, 3), _s("c", "S0", 5, 6)],
                "recomputes": [], "period": 5, "max_recompute": 1, "noise": [], "sched": const})
    # three simultaneous unplug / plug-in pairs with a recompute in the same period
    st3 = [_basic(0), _basic(1), _basic(2)]
    out.append({"stations": st3, "constraint": {"limit": 64.0},
                "sessions": [_s("n0", "S0", 4, 7), _s("o0", "S0", 1, 4), _s("n1", "S1", 4, 6), _s("o1", "S1", 0, 4),
                             _s("o2", "S2", 2, 4), _s("n2", "S2", 4, 9)],
                "recomputes": [4, 4, 0], "period": 1, "max_recompute": None, "noise": [],
                "sched": {"type": "scripted", "default": [], "script": [{"t": 4, "sched": [["S0", [8.0, 8.0, 8.0]], ["S2", [32.0, 0.0, 16.0]]]}]}})
    # F2 / F7 regression: multi-period schedule in the last period; scheduler crash in the last period
    out.append({"stations": [_basic(0), _basic(1)], "constraint": None,
                "sessions": [_s("a", "S0", 0, 6), _s("b", "S1", 2, 5)], "recomputes": [], "period": 5,
                "max_recompute": None, "noise": [],
                "sched": {"type": "scripted", "default": [], "script": [{"t": 6, "sched": [["S0", [5.0, 5.0, 5.0]]]}]}})
    out.append({"stations": [_basic(0), _basic(1)], "constraint": None,
                "sessions": [_s("a", "S0", 0, 6), _s("b", "S1", 2, 5)], "recomputes": [], "period": 5,
                "max_recompute": None, "noise": [], "malformed": "sched_fail",
                "sched": {"type": "scripted", "default": [["S1", [13.0]]], "script": [{"t": 6, "fail": True}]}})
    # recompute after the last departure; empty scenario; only recomputes
    out.append({"stations": [_basic(0)], "constraint": None, "sessions": [_s("a", "S0", 1, 2)], "recomputes": [5],
                "period": 15, "max_recompute": 2, "noise": [], "sched": {"type": "empty"}})
    out.append({"stations": [_basic(0)], "constraint": None, "sessions": [], "recomputes": [], "period": 1,
                "max_recompute": 1, "noise": [], "sched": {"type": "empty"}})
    out.append({"stations": [_basic(0)], "constraint": None, "sessions": [], "recomputes": [0, 3], "period": 1,
                "max_recompute": None, "noise": [], "sched": {"type": "empty"}})
    # malformed: overlap with equal arrival, overlap later, unknown station
    out.append({"stations": [_basic(0)], "constraint": None, "sessions": [_s("a", "S0", 1, 4), _s("b", "S0", 1, 3)],
                "recomputes": [], "period": 1, "max_recompute": None, "noise": [], "malformed": "overlap", "sched": {"type": "empty"}})
    out.append({"stations": [_basic(0)], "constraint": None, "sessions": [_s("a", "S0", 1, 4), _s("b", "S0", 3, 6)],
                "recomputes": [], "period": 1, "max_recompute": None, "noise": [], "malformed": "overlap", "sched": {"type": "empty"}})
    out.append({"stations": [_basic(0)], "constraint": None, "sessions": [_s("a", "S0", 0, 2), _s("b", "S9", 1, 3)],
                "recomputes": [], "period": 1, "max_recompute": None, "noise": [], "malformed": "unknown_station", "sched": {"type": "empty"}})
    # ---- the ways of putting the objects together (regressions for seeds C01-7 / C01-8 and their neighbours)
    three = [_s("a", "S0", 1, 5), _s("b", "S0", 5, 9), _s("c", "S1", 3, 7)]

    def base(**kw):
        c = {"stations": [_basic(0), _basic(1)], "constraint": None, "sessions": copy.deepcopy(three), "recomputes": [2],
             "period": 5, "max_recompute": 1, "noise": [], "sched": copy.deepcopy(const)}
        c.update(kw)
        return c
    one = lambda add, via="caller", how="add_events": {"add": add, "via": via, "how": how}
    # queue empty at construction, filled afterwards through the caller's reference / through sim.event_queue
    out.append(base(assembly={"mode": "late_caller", "build": "list", "ctor": [], "stages": [one([0, 1, 2, 3])]}))
    out.append(base(assembly={"mode": "late_sim", "build": "add_events", "ctor": [], "stages": [one([3, 2, 1, 0], "sim", "add_event")]}))
    # part at construction, the rest before run(); run() once more on the finished simulator
    out.append(base(assembly={"mode": "split", "build": "add_event", "ctor": [2, 0], "stages": [one([1, 3]), one([], "sim")]}))
    # batches handed over between run() calls (a: 1-5 | c, b | a recompute), original and deep copy both run
    out.append(base(sessions=[_s("a", "S0", 1, 5), _s("b", "S0", 6, 9), _s("c", "S1", 7, 8)], recomputes=[12],
                    assembly={"mode": "batches", "build": "list", "ctor": [0], "copy": "sim",
                              "stages": [one([]), one([2, 1], "sim"), one([3], "caller", "add_event")]}))
    out.append(base(assembly={"mode": "built", "build": "add_event", "ctor": [3, 2, 1, 0], "copy": "queue", "stages": [one([])]}))
    # ONE EventQueue instance for two simulations (the earlier one runs longer / shorter than the main one)
    longer = [_s("p0", "S0", 0, 6), _s("p1", "S1", 4, 14), _s("p2", "S0", 6, 20)]
    out.append(base(prior={"reuse": ["queue"], "sessions": longer, "recomputes": []}))
    out.append(base(prior={"reuse": ["queue"], "sessions": [_s("p0", "S1", 0, 2)], "recomputes": [],
                           "assembly": {"mode": "late_caller", "ctor": [], "stages": [one([0])]}},
                    assembly={"mode": "late_caller", "build": "add_events", "ctor": [], "stages": [one([1, 0, 3, 2])]}))
    # network, scheduler and EV objects (after EV.reset()) of a finished simulation used again; everything at once
    out.append(base(prior={"reuse": ["network", "scheduler", "evs"], "recomputes": [11]}))
    out.append(base(prior={"reuse": ["queue", "network", "scheduler", "evs"]},
                    assembly={"mode": "split", "build": "add_events", "ctor": [1], "copy": "sim", "stages": [one([0, 2, 3], "sim")]}))
    # outside the premise (model comparison only): session b is handed over after its arrival period has passed
    out.append(base(sessions=[_s("a", "S0", 1, 5), _s("b", "S1", 2, 9)], recomputes=[],
                    assembly={"mode": "late_batch", "build": "list", "ctor": [0], "stages": [one([]), one([1])]}))
    return out


def exhaustive():
    """Every layout with <= 3 sessions on <= 2 stations within horizon 5 (valid and overlapping)."""
    slots = [(st, a, d) for st in ("S0", "S1") for a in range(0, 5) for d in range(a + 1, 6)]
    sched = {"type": "scripted", "default": [["S0", [16.0]], ["S1", [8.0]]], "script": []}
    out = []
    for n in range(0, 4):
        for combo in itertools.combinations(range(len(slots)), n):
            ss = [_s(f"x{i}", slots[j][0], slots[j][1], slots[j][2], req=50.0) for i, j in enumerate(combo)]
            # insertion order: reversed for every second layout (heap layout differs)
            if sum(combo) % 2:
                ss.reverse()
            c = {"stations": [_basic(0), _basic(1)], "constraint": None, "sessions": ss, "recomputes": [],
                 "period": 5, "max_recompute": [None, 1, 2][len(out) % 3], "noise": [], "sched": sched,
                 "exhaustive": True}
            k = len(out)
            if k % 3 == 1:       # the queue is empty at construction; filled through the caller's reference / sim.event_queue
                c["assembly"] = {"mode": "late_caller" if k % 2 else "late_sim", "build": "list", "ctor": [],
                                 "stages": [{"add": list(range(n)), "via": "caller" if k % 2 else "sim",
                                             "how": "add_events" if k % 4 < 2 else "add_event"}]}
            if k % 5 == 2 and S.is_valid_layout(c):      # the same EventQueue instance served a simulation before
                c["prior"] = {"reuse": ["queue"] if k % 2 else ["queue", "network", "scheduler"],
                              "sessions": [_s("p0", "S1", k % 3, 3 + k % 4, req=50.0)], "recomputes": []}
            out.append(c)
    return out


def _ev_ts(case, i):
    """(timestamp, last timestamp it entails) of event i of E(case)"""
    ns = len(case["sessions"])
    if i < ns:
        x = case["sessions"][i]
        return x["arrival"], x["departure"]
    r = int(case["recomputes"][i - ns])
    return r, r


def time_batches(rng, case, k):
    """Split E(case) into <= k batches such that run() on the batches so far ends before any later event is due
    (then handing the next batch over between two run() calls is the same simulation)."""
    left = list(range(n_events(case)))
    out = []
    while left and len(out) < k - 1:
        tss = sorted({_ev_ts(case, i)[0] for i in left})
        if len(tss) < 2:
            break
        cut = rng.choice(tss[1:])
        cur = [i for i in left if _ev_ts(case, i)[0] < cut]
        while True:
            end = max(_ev_ts(case, i)[1] for i in cur) + 1          # iteration at which run() returns
            more = [i for i in left if i not in cur and _ev_ts(case, i)[0] < end]
            if not more:
                break
            cur += more
        left = [i for i in left if i not in cur]
        out.append(cur)
    if left:
        out.append(left)
    return out


def has_late_event(case):
    """Is some event added to the queue only after run() has already simulated its period?  (valid layouts)"""
    asm = assembly_of(case)
    it = 0
    for j, st in enumerate(asm["stages"]):
        ix = (asm["ctor"] if j == 0 else []) + st["add"]
        if any(_ev_ts(case, i)[0] < it for i in ix):
            return True
        if ix:
            it = max(it, max(_ev_ts(case, i)[1] for i in ix) + 1)
    return False


ASSEMBLIES = ("late_caller", "late_caller", "late_sim", "split", "split", "batches", "batches", "rerun", "built",
              "late_batch")


def assemble(rng, case, mode=None):
    """Attach one of the legitimate ways of putting queue and simulator together (see the comment above
    `assembly_of`).  `case` must be a valid scenario whose run() does not raise."""
    n = n_events(case)
    ix = list(range(n))
    mode = mode or rng.choice(ASSEMBLIES)
    how = lambda: rng.choice(["add_events", "add_events", "add_event"])
    via = lambda: rng.choice(["caller", "caller", "sim"])
    a = {"build": rng.choice(["list", "list", "add_events", "add_event"]), "mode": mode}
    if mode in ("late_caller", "late_sim"):
        rng.shuffle(ix)
        a["ctor"] = []
        a["stages"] = [{"add": ix, "via": "caller" if mode == "late_caller" else "sim", "how": how()}]
    elif mode == "split":
        rng.shuffle(ix)
        k = rng.randint(0, n)
        a["ctor"] = ix[:k]
        a["stages"] = [{"add": ix[k:], "via": via(), "how": how()}]
    elif mode in ("batches", "late_batch"):
        bs = time_batches(rng, case, rng.choice([2, 2, 3, 4]))
        for b in bs:
            rng.shuffle(b)
        if mode == "late_batch" and len(bs) >= 2:
            # outside the premise: one event of an earlier batch is handed over one batch too late
            j = rng.randrange(len(bs) - 1)
            e = bs[j].pop(rng.randrange(len(bs[j])))
            bs[j + 1].insert(rng.randrange(len(bs[j + 1]) + 1), e)
            if not bs[j]:
                del bs[j]
        k = rng.randint(0, len(bs[0])) if bs else 0
        a["ctor"] = bs[0][:k] if bs else []
        a["stages"] = [{"add": (b[k:] if j == 0 else b), "via": via(), "how": how()} for j, b in enumerate(bs)] or \
                      [{"add": [], "via": "caller", "how": "add_events"}]
    elif mode == "rerun":
        rng.shuffle(ix)
        a["ctor"] = ix
        a["stages"] = [{"add": [], "via": "caller", "how": "add_events"} for _ in range(rng.choice([2, 2, 3]))]
    else:   # "built": everything there at construction, put in one by one / as a list, in another order
        rng.shuffle(ix)
        a["build"] = rng.choice(["add_events", "add_event"])
        a["ctor"] = ix
        a["stages"] = [{"add": [], "via": "caller", "how": "add_events"}]
    if rng.random() < 0.25 and mode != "late_batch":       # run() once more on the finished simulator: a no-op
        a["stages"].append({"add": [], "via": via(), "how": "add_events"})
    a["copy"] = rng.choice([None, None, None, None, None, "queue", "sim", "sim"])
    case["assembly"] = a
    return case


def other_sessions(rng, case, tag="p"):
    """Another valid layout on the stations of `case` (for the earlier simulation whose objects are re-used)."""
    total = rng.choice([1, 2, 3, 5, 8])
    cursor = {st["id"]: rng.randint(0, 6) for st in case["stations"]}
    out = []
    for k in range(total):
        st = rng.choice(case["stations"])["id"]
        arr = cursor[st] + (rng.choice([0, 0, 1, 2]) if any(s["station"] == st for s in out) else 0)
        dep = arr + rng.choice([1, 2, 3, 5, 9, 14])
        cursor[st] = dep
        out.append({"session": f"{tag}{k}", "station": st, "arrival": arr, "departure": dep,
                    "requested": round(rng.uniform(0.05, 12), 3), "batt": S.gen_battery(rng), "est": None})
    rng.shuffle(out)
    return out


def add_prior(rng, case):
    """An earlier simulation on the same stations, and which of its objects the main one uses again."""
    objs = ["queue", "network", "scheduler", "evs"]
    reuse = [o for o in objs if rng.random() < 0.45] or [rng.choice(objs)]
    if rng.random() < 0.3:
        reuse = ["queue"]
    p = {"reuse": reuse}
    if "evs" not in reuse and rng.random() < 0.7:
        p["sessions"] = other_sessions(rng, case)
        p["recomputes"] = [rng.randint(0, 12) for _ in range(rng.choice([0, 0, 1, 2]))]
    elif "evs" in reuse and not case["sessions"]:
        reuse.remove("evs")
        if not reuse:
            reuse.append("queue")
    if p.get("sessions") is None and rng.random() < 0.5:
        p["recomputes"] = list(case.get("recomputes", [])) + [max([s["departure"] for s in case["sessions"]] + [0]) + rng.randint(1, 6)]
    if "scheduler" not in reuse and case["sched"]["type"] in ("empty", "scripted") and rng.random() < 0.5:
        p["sched"] = {"type": "scripted", "default": S.gen_schedule(rng, case), "script": []}
    p["noise"] = [round(rng.gauss(0, 1.0), 4) for _ in range(rng.randint(1, 4))] if rng.random() < 0.5 else None
    pc = dict(case, sessions=p.get("sessions") or case["sessions"], recomputes=p["recomputes"] if p.get("recomputes") is not None else case.get("recomputes", []))
    if rng.random() < 0.4:
        p["assembly"] = assemble(rng, {"sessions": pc["sessions"], "recomputes": pc["recomputes"]},
                                 mode=rng.choice(["late_caller", "split", "batches", "built"]))["assembly"]
    case["prior"] = p
    return case


def vary(rng, case):
    """~55 % of the valid scenarios are put together in another way than `Simulator(net, algo, EventQueue(all))`,
    run() once; ~40 % of those (and some plain ones) run on objects a finished simulation has used before."""
    r = rng.random()
    if r < 0.45:
        return case
    if r < 0.9:
        assemble(rng, case)
    if r >= 0.75 or rng.random() < 0.3:
        add_prior(rng, case)
    return case


# ---- interrupted / saved / resumed runs
#
# case["resume"] = {"crashes": [{"k": period, "via": "json" | "run"}, ...]}: the scheduler raises once in each period k
# (SchedulerFailure out of schedule(): `Hooks.fail_at`); every time run() aborts the simulation is continued — "run": run()
# again on the same object; "json": to_json -> Simulator.from_json -> update_scheduler(the same algorithm object) -> run()
# (core.simcase.run_impl_resume / run_impl_resume_json; the n-th abort uses the n-th entry, ascending k).
# (case["resume"] = True is the older form: a `fail` entry of the script, run() called again.)


def _non_alphabetical(rng, case):
    """register the stations in an order that is NOT the sorted order of their ids, at pairwise different voltages
    (anything that re-sorts stations on the way through JSON shows up as a session on the wrong station)"""
    sts = case["stations"]
    if len(sts) < 2:
        return
    ids = [st["id"] for st in sts]
    if ids == sorted(ids):
        pool = ["S9", "S10", "S2", "Sb", "SA", "S07"]
        ren = dict(zip(ids, pool))
        for st in sts:
            st["id"] = ren[st["id"]]
        for x in case["sessions"]:
            x["station"] = ren.get(x["station"], x["station"])
        for key in ("default",):
            if case["sched"].get(key):
                case["sched"][key] = [[ren.get(a, a), b] for a, b in case["sched"][key]]
        for e in case["sched"].get("script", []):
            if e.get("sched"):
                e["sched"] = [[ren.get(a, a), b] for a, b in e["sched"]]
    volts = [208, 240, 120, 277.5, 400, 230]
    for i, st in enumerate(sts):
        st["V"] = volts[i % len(volts)]


def crash_candidates(case):
    """the kinds of period in which an interruption is interesting: {kind: [periods]}"""
    ss = case["sessions"]
    arr = sorted({x["arrival"] for x in ss})
    dep = sorted({x["departure"] for x in ss})
    recs = sorted({int(r) for r in case.get("recomputes", [])})
    last = max(dep + recs + [0])
    out = {"arrival": [t for t in arr if t not in dep], "departure": [t for t in dep if t not in arr and t != last],
           "handover": sorted({a["departure"] for a in ss for b in ss
                               if a is not b and a["station"] == b["station"] and a["departure"] == b["arrival"]}),
           "arr+dep": [t for t in arr if t in dep], "last": [last], "first": arr[:1] or recs[:1],
           "recompute": [t for t in recs if t not in arr and t not in dep],
           "quiet": [t for t in range(0, last) if t not in arr and t not in dep and t not in recs]}
    return {k: v for k, v in out.items() if v}


def crash_kind(case, k):
    kinds = [n for n, v in crash_candidates(case).items() if k in v]
    for pref in ("last", "handover", "arr+dep", "arrival", "departure", "recompute", "quiet"):
        if pref in kinds:
            return pref + ("(first_event_period)" if "first" in kinds and pref != "last" else "")
    return "other"


def gen_resume(rng):
    """One valid scenario (>= 1 session; stations registered in non-alphabetical id order), several cases: a crash
    point of every available kind — arrival / departure / back-to-back hand-over / arrival+departure / last period /
    recompute-only / quiet period / period 0 — completed in place or through JSON, and runs interrupted TWICE (both
    crash points in event periods, each hand-over in place or through JSON)."""
    real = rng.random() < 0.15
    for _ in range(30):
        c = S.gen_case(rng, real_algos=real, max_sessions=rng.choice([3, 6, 10, 14]))
        if c["sessions"] and S.is_valid_layout(c):
            break
    if rng.random() < 0.35:            # something happens in period 0 (a crash there leaves iteration 0 behind)
        t0 = min(x["arrival"] for x in c["sessions"])
        for x in c["sessions"]:
            x["arrival"] -= t0
            x["departure"] -= t0
            if x.get("est") is not None:
                x["est"] -= t0
        c["recomputes"] = [max(0, int(r) - t0) for r in c["recomputes"]]
        for e in c["sched"].get("script", []):
            e["t"] = max(0, e["t"] - t0)
        if c["sched"].get("script"):
            by_t = {}
            for e in c["sched"]["script"]:
                by_t[e["t"]] = e                  # one entry per period (the last one wins, as in ScriptedAlgo)
            c["sched"]["script"] = [by_t[t] for t in sorted(by_t)]
    _non_alphabetical(rng, c)
    if not real and rng.random() < 0.5:
        c["max_recompute"] = rng.choice([1, 1, 2])       # the scheduler also runs in quiet periods
    cand = crash_candidates(c)
    picks = []
    for kind, ts in cand.items():
        k = rng.choice(ts)
        if k not in [p[0] for p in picks]:
            picks.append((k, kind))
    rng.shuffle(picks)
    hand = [p for p in picks if p[1] in ("handover", "arr+dep", "last", "first")]
    picks = (hand + [p for p in picks if p not in hand])[:4]
    out = []
    for k, _kind in picks:
        d = copy.deepcopy(c)
        d["resume"] = {"crashes": [{"k": k, "via": "json" if rng.random() < 0.65 else "run"}]}
        out.append(d)
    ev = sorted({x["arrival"] for x in c["sessions"]} | {x["departure"] for x in c["sessions"]})
    if len(ev) >= 2:
        for _ in range(rng.choice([1, 1, 2])):
            k1, k2 = sorted(rng.sample(ev, 2))
            d = copy.deepcopy(c)
            d["resume"] = {"crashes": [{"k": k1, "via": rng.choice(["json", "json", "run"])},
                                       {"k": k2, "via": rng.choice(["json", "json", "run"])}]}
            out.append(d)
    return out


def resume_sweep():
    """thorough tier: every 12th valid small-scope layout, EVERY period 0..last as the crash point, in place and through
    JSON, and every pair of event periods as a double interruption through JSON; stations registered as S9, S10"""
    out = []
    base = [c for c in exhaustive() if c["sessions"] and S.is_valid_layout(c) and "assembly" not in c and "prior" not in c][::12]
    for j, c in enumerate(base):
        c = copy.deepcopy(c)
        c.pop("exhaustive", None)
        ren = {"S0": "S9", "S1": "S10"}
        for st in c["stations"]:
            st["id"] = ren[st["id"]]
        for x in c["sessions"]:
            x["station"] = ren[x["station"]]
        c["sched"] = {"type": "scripted", "default": [["S9", [16.0]], ["S10", [8.0]]], "script": []}
        c["stations"][0]["V"], c["stations"][1]["V"] = 240, 120
        last = max(x["departure"] for x in c["sessions"])
        for k in range(0, last + 1):
            for via in ("json", "run"):
                d = copy.deepcopy(c)
                d["resume"] = {"crashes": [{"k": k, "via": via}]}
                out.append(d)
        ev = sorted({x["arrival"] for x in c["sessions"]} | {x["departure"] for x in c["sessions"]})
        for k1, k2 in itertools.combinations(ev, 2):
            d = copy.deepcopy(c)
            d["resume"] = {"crashes": [{"k": k1, "via": "json"}, {"k": k2, "via": ["json", "run"][(j + k1 + k2) % 2]}]}
            out.append(d)
    return out


def generate(rng, n, tier):
    out = []
    if tier == "thorough":
        out.extend(exhaustive())
        out.extend(resume_sweep())
    for i in range(n):
        if i % 12 == 5:
            out.extend(gen_resume(rng))         # one scenario, 3-6 cases
            continue
        r = i % 10
        if r in (7, 8):
            c = S.gen_case(rng, malformed=True)
            if c.get("malformed") == "sched_fail":
                c["resume"] = True      # the scheduler crashes once; run() is called again
            elif rng.random() < 0.3:
                # the error class and period must not depend on how the queue was filled either
                assemble(rng, c, mode=rng.choice(["late_caller", "late_sim", "split", "built"]))
                c["assembly"]["copy"] = None
                c["assembly"]["stages"] = c["assembly"]["stages"][:1]
            out.append(c)
        elif r == 9:
            out.append(vary(rng, S.gen_case(rng, real_algos=True, max_sessions=12)))
        elif r == 6:
            out.append(S.gen_step_case(rng))
        else:
            out.append(vary(rng, S.gen_case(rng)))
    return out


def search(rng, n):
    return generate(rng, n, "search")


# ------------------------------------------------------------------ implementation / model


# ---- assembling the objects (case["assembly"], case["prior"])
#
# E(case) = the events of a scenario: the PluginEvent of every session (list order), then the RecomputeEvents.
# case["assembly"] = {"build": "list" | "add_events" | "add_event",   how the constructor-time events get into the queue
#                     "ctor": [indices into E],                        what the queue holds when Simulator(...) is called
#                     "stages": [{"add": [indices], "via": "caller" | "sim", "how": "add_events" | "add_event"}, ...],
#                                  per stage: add these events (through the caller's own reference to the queue, or
#                                  through sim.event_queue), then call sim.run()
#                     "copy": None | "queue" | "sim",   the queue is deep-copied before it is handed over / the
#                                  constructed simulator is deep-copied: the copy runs first, then the original ("twin")
#                     "mode": name of the generator branch (statistics only)}
# An event that is added only after run() has passed its period (`has_late_event`) is outside C01's premise: such
# cases are compared with the model but not judged by the oracle.
# case["prior"] = {"reuse": [...of "queue","network","scheduler","evs"], "sessions"/"recomputes"/"sched"/"noise"/
#                  "assembly": overrides (None / absent = as in the main scenario)}: an earlier simulation on the same
#                  stations that ran to its end; the listed objects are then used again for the main one.


def n_events(case):
    return len(case["sessions"]) + len(case.get("recomputes", []))


def assembly_of(case):
    """Normalised assembly (every event exactly once; default: everything at construction, one run())."""
    a = case.get("assembly") or {}
    n = n_events(case)
    seen = set()

    def take(ix):
        out = []
        for i in ix or []:
            if isinstance(i, int) and 0 <= i < n and i not in seen:
                seen.add(i)
                out.append(i)
        return out
    ctor = take(a.get("ctor"))
    stages = [{"add": take(st.get("add")), "via": st.get("via", "caller"), "how": st.get("how", "add_events")}
              for st in (a.get("stages") or [])]
    rest = [i for i in range(n) if i not in seen]
    if not stages:
        stages = [{"add": [], "via": "caller", "how": "add_events"}]
        if "ctor" in a:
            stages[0]["add"] = rest
        else:
            ctor = ctor + rest
    else:
        stages[0]["add"] = stages[0]["add"] + rest
    return {"build": a.get("build", "list"), "ctor": ctor, "stages": stages, "copy": a.get("copy")}


def prior_case(case):
    """The scenario of the earlier simulation whose objects are re-used (None if there is none)."""
    p = case.get("prior")
    if not p:
        return None
    c = {k: v for k, v in case.items() if k not in ("prior", "assembly", "resume", "steps")}
    for k in ("sessions", "recomputes", "sched", "noise"):
        if p.get(k) is not None:
            c[k] = p[k]
    if p.get("assembly"):
        c["assembly"] = dict(p["assembly"], copy=None)
    return c


def _add(queue, events, how):
    if how == "add_event":
        for e in events:
            queue.add_event(e)
    else:
        queue.add_events(events)


def _simulate(case, shared=None, reuse=()):
    """One simulation on the REAL objects, assembled as case["assembly"] says.  `shared` = the objects of an
    earlier, finished simulation; those named in `reuse` are used again.  Returns (observation, objects)."""
    asm = assembly_of(case)
    shared = shared or {}
    if "network" in reuse:
        net = shared["network"]
        net.occ_log = []                    # the harness's own recorder, not state of the network
    else:
        net = S.SnapshotNetwork()
        for st in case["stations"]:
            net.register_evse(I.make_evse(st["kind"], st["id"]), I.num(st["V"]), I.num(st.get("phase", 0)))
        con = case.get("constraint")
        if con:
            net.add_constraint(S.Current([st["id"] for st in case["stations"]]), I.num(con["limit"]), name="agg")
    if "scheduler" in reuse:
        algo = shared["scheduler"]
        algo.calls = []                     # harness recorder
    else:
        algo = S.make_scheduler(case)
    if "evs" in reuse:
        evs = shared["evs"]
        for ev in evs:
            ev.reset()                      # the public way to put an EV back to its initial state
    else:
        evs = [I.make_ev(s) for s in case["sessions"]]
    E = [S.PluginEvent(ev.arrival, ev) for ev in evs] + [S.RecomputeEvent(int(r)) for r in case.get("recomputes", [])]
    first = [E[i] for i in asm["ctor"]]
    if "queue" in reuse:
        q = shared["queue"]                 # the same EventQueue instance, emptied by the earlier run
        _add(q, first, asm["build"])
    elif asm["build"] == "list":
        q = S.EventQueue(first)
    else:
        q = S.EventQueue()
        _add(q, first, asm["build"])
    if asm["copy"] == "queue":
        q, evs, E = copy.deepcopy((q, evs, E))
    sims = []
    sim = S.Simulator(net, algo, q, S.START, period=I.num(case["period"]), verbose=False)
    if asm["copy"] == "sim":                # the copy runs first, the original afterwards
        sims.append(copy.deepcopy((sim, q, evs, E)))
    sims.append((sim, q, evs, E))
    out = []
    for (sim, q, evs, E) in sims:
        with S.noise_stream(case.get("noise", [])) as ns:
            err = None
            runs = 0
            for st in asm["stages"]:
                _add(q if st["via"] == "caller" else sim.event_queue, [E[i] for i in st["add"]], st["how"])
                err = S.run_sim(sim)
                runs += 1
                if err is not None:
                    break
            ctx = {"network": sim.network, "scheduler": sim.scheduler, "evs": evs}
            obs = S.observe(sim, ctx, err)
            obs["noise_draws"] = ns["k"]
            obs["runs"] = runs
            obs["queue_shared"] = sim.event_queue is q
            obs["caller_pending"] = len(q)
            out.append(obs)
    obs = out[0]
    if len(out) > 1:
        obs["twin"] = out[1]
    sim, q, evs, E = sims[-1]
    return obs, {"network": sim.network, "scheduler": sim.scheduler, "evs": evs, "queue": q}


def run_impl_assembled(case):
    pc = prior_case(case)
    if pc is None:
        return _simulate(case)[0]
    pobs, objs = _simulate(pc)
    if pobs["err"] is not None:             # the earlier simulation did not finish: its objects are not re-used
        obs = dict(pobs)
        obs["main_skipped"] = True
        obs["prior"] = pobs
        return obs
    obs, _ = _simulate(case, objs, tuple(case["prior"].get("reuse", [])))
    obs["prior"] = pobs
    return obs


def _resume_chain(case, hooks, crashes):
    """run(); every time it raises SchedulerFailed the simulation is continued — by run() on the same object, or through
    to_json / from_json / update_scheduler / run — as the n-th entry of `crashes` (ascending k) says.  Built from the
    primitives of core.simcase (`run_impl_resume`, `run_impl_resume_json` are the one-crash instances)."""
    import warnings
    from acnportal.acnsim import Simulator as _Sim
    vias = [c["via"] for c in sorted(crashes, key=lambda c: c["k"])]
    hooks.network_cls = S.JsonLogNetwork
    del S._JSON_OCC[:]
    with S.noise_stream(case.get("noise", [])) as ns:
        sim, ctx = S.build_sim(case, hooks)
        aborted, missing, loaded = [], [], 0
        err = S.run_sim(sim)
        n = 0
        while err == "SchedulerFailed" and n < len(vias):
            o = S.observe(sim, ctx, err)
            o["occ"] = [list(r) for r in S._JSON_OCC]
            aborted.append(o)
            if vias[n] == "json":
                with warnings.catch_warnings():
                    warnings.simplefilter("ignore")
                    sim2 = _Sim.from_json(sim.to_json())
                    sim2.update_scheduler(ctx["scheduler"])
                by = S._all_evs_of(sim2)
                ctx = {"network": sim2.network, "scheduler": ctx["scheduler"], "hooks": hooks,
                       "evs": [by[x["session"]] for x in case["sessions"] if x["session"] in by]}
                missing = [x["session"] for x in case["sessions"] if x["session"] not in by]
                sim = sim2
                loaded += 1
            err = S.run_sim(sim)
            n += 1
        obs = S.observe(sim, ctx, err)
        obs["occ"] = [list(r) for r in S._JSON_OCC]
        if aborted:
            obs["first"] = aborted[0]
        obs["missing_evs"] = missing
        obs["via_json"] = loaded > 0
        obs["noise_draws"] = ns["k"]
    return obs, aborted


def _run_resumed(case):
    crashes = sorted(case["resume"]["crashes"], key=lambda c: c["k"])
    hooks = S.Hooks(fail_at={int(c["k"]) for c in crashes})
    if len(crashes) == 1 and crashes[0]["via"] == "json":
        obs = S.run_impl_resume_json(case, hooks)          # the shared helper (C02, C05, C09 use the same)
        aborted = [obs["first"]] if "first" in obs else []
    elif len(crashes) == 1:
        obs = S.run_impl_resume(case, hooks)
        aborted = [obs["first"]] if "first" in obs else []
    else:
        obs, aborted = _resume_chain(case, hooks, crashes)
    obs["aborted"] = aborted
    if not S.is_modelled(case):
        obs["infra"] = _infra_of(case)
    return obs


def _infra_of(case):
    """`Interface.infrastructure_info()` of the scenario's network as the sorted algorithms see it: an input of the
    MODELLED algorithm (lean/AcnModel/WireSorted.lean); None when the network cannot be built"""
    import numpy as np
    try:
        sim, ctx = S.build_sim(case)
        info = ctx["scheduler"].interface.infrastructure_info()
    except Exception:  # noqa: BLE001 - malformed scenario: no model comparison
        return None
    ph = np.deg2rad(info.phases)
    return {"ids": list(info.station_ids),
            "M": [[float(x) for x in row] for row in info.constraint_matrix],
            "lims": [float(x) for x in info.constraint_limits],
            "cos": [float(x) for x in np.cos(ph)], "sin": [float(x) for x in np.sin(ph)],
            "volt": [float(x) for x in info.voltages],
            "maxp": [I.enc(float(x)) for x in info.max_pilot], "minp": [float(x) for x in info.min_pilot],
            "cont": [bool(x) for x in info.is_continuous],
            "allow": [[I.enc(float(a_)) for a_ in al] for al in info.allowable_pilots]}


def run_impl(case):
    if "steps" in case:             # driven through Simulator.step() instead of run()
        return S.run_impl_steps(case)
    if isinstance(case.get("resume"), dict):     # interrupted once or twice; continued in place or through JSON
        return _run_resumed(case)
    if case.get("resume"):          # crash/resume: run() is called again after it raised
        return S.run_impl_resume(case)
    if case.get("assembly") or case.get("prior"):
        obs = run_impl_assembled(case)
    else:
        obs = S.run_impl(case)
    if not S.is_modelled(case):
        obs["infra"] = _infra_of(case)
    return obs


def _wire_events(case, ix):
    ns = len(case["sessions"])
    out = []
    for i in ix:
        if i < ns:
            s = case["sessions"][i]
            out.append([int(s["arrival"]), "Plugin", s["session"]])
        else:
            out.append([int(case["recomputes"][i - ns]), "Recompute", f"r{i - ns}"])
    return out


def _request_one(case):
    req = S.model_request(case, queue="heap")
    if req is not None and case.get("assembly"):
        asm = assembly_of(case)
        req["assembly"] = {"ctor": _wire_events(case, asm["ctor"]),
                           "stages": [_wire_events(case, st["add"]) for st in asm["stages"]]}
    return req


SORTS = {"fcfs": "fcfs", "edf": "edf", "rr": "fcfs", "uncontrolled": "fcfs"}


def sorted_in_domain(case):
    """Is the scenario within the domain of the full-simulator model WITH the sorted algorithms (SimSorted.lean)?
    Not: malformed layouts (the model of the algorithms has no counterpart of a run that dies in the event stage with a
    half-built view), and events handed over after their period has passed (the assembled model exists for scripted
    schedulers only)."""
    if S.is_modelled(case) or "steps" in case or not S.is_valid_layout(case) or case.get("malformed"):
        return False
    if case.get("assembly") and has_late_event(case):
        return False
    return True


def _sorted_request(case, infra):
    """the scenario with its REAL algorithm as a request of lean/AcnModel/WireSortedRd.lean (drv_C01 "sorted"): the
    modelled sorted algorithm / round robin / uncontrolled baseline as the scheduler of the simulator model"""
    f2b = S.f2b
    t = case["sched"]["type"]
    one = f2b(1.0)
    return {"algo": "uncontrolled" if t == "uncontrolled" else "rr" if t == "rr" else "greedy", "sort": SORTS[t],
            "uninterrupted": False, "estimate": False, "inc": f2b(0.1), "period": f2b(I.num(case["period"])),
            "ramp": {"up": one, "down": one, "inc": one},
            "infra": {"ids": infra["ids"], "M": [[f2b(x) for x in r] for r in infra["M"]],
                      "lims": [f2b(x) for x in infra["lims"]], "cos": [f2b(x) for x in infra["cos"]],
                      "sin": [f2b(x) for x in infra["sin"]], "volt": [f2b(x) for x in infra["volt"]],
                      "maxp": [f2b(I.num(x)) for x in infra["maxp"]], "minp": [f2b(x) for x in infra["minp"]],
                      "cont": infra["cont"], "allow": [[f2b(I.num(x)) for x in al] for al in infra["allow"]]},
            "calls": [],
            "simrun": {"stations": [{"id": st["id"], "kind": I.kind_wire(st["kind"]), "V": f2b(I.num(st["V"]))}
                                    for st in case["stations"]],
                       "evs": [I.ev_wire(s_) for s_ in case["sessions"]],
                       "recomputes": [[int(r), f"r{i}"] for i, r in enumerate(case.get("recomputes", []))],
                       "max_recompute": case.get("max_recompute"), "period": f2b(I.num(case["period"])),
                       "noise": [f2b(float(v)) for v in case.get("noise", [])]}}


def model_request(case, obs=None):
    # the model runs over the transcription of CPython's array heap: exact tie order
    if "steps" in case:
        return S.model_request(case)
    if not S.is_modelled(case):
        # a REAL algorithm: C07's composition model (modelled algorithm inside the simulator model, canonical queue),
        # run uninterrupted; an interrupted run of the implementation must complete to the same simulation
        if not sorted_in_domain(case) or not isinstance(obs, dict) or obs.get("infra") is None:
            return None
        req = {"sorted": _sorted_request(case, obs["infra"])}
        pc = prior_case(case)
        if pc is not None and sorted_in_domain(pc):
            req["prior"] = {"sorted": _sorted_request(pc, obs["infra"])}
        return req
    if isinstance(case.get("resume"), dict):
        # the scheduler raises once in each crash period; run() is called again from the state it left.  The in-place and
        # the JSON resume are compared with the SAME model run (C01Resume.exactly_once_across_resume_json: the decoded
        # simulator IS the aborted one).  n-th resumed call: the script that still fails in the later crash periods.
        ks = sorted(int(c["k"]) for c in case["resume"]["crashes"])
        req = S.model_request(case, fail_at=ks, resume=True, queue="heap")
        if req is not None and len(ks) > 1:
            chain = [S.model_request(case, fail_at=ks[j:])["sched"] for j in range(1, len(ks))]
            req["resume"] = chain + [req["resume"]]
        return req
    if case.get("resume"):
        return S.model_request(case, resume=True, queue="heap")
    req = _request_one(case)
    pc = prior_case(case)
    if req is not None and pc is not None:
        req["prior"] = _request_one(pc)
    return req


def _fresh_eyes(case, obs, model):
    """What the model cannot know about RE-USED objects and no property constrains: EV.reset() keeps the last
    charging rate of an EV (ev.py:146-153), and an EVSE keeps its last pilot until the first period of the new
    run.  Both are overwritten as soon as the object takes part in the new simulation; for objects that never do
    (a run that simulates no period; an EV the model never charges: rate and delivered energy exactly 0) the stale
    value is masked."""
    reuse = (case.get("prior") or {}).get("reuse", [])
    if not reuse:
        return obs
    o = dict(obs)
    if "network" in reuse and o["iter"] == 0:
        o["evse_pilot"] = [0.0] * len(o["evse_pilot"])
    if "evs" in reuse:
        idle = {e["session"] for e in S.decode_model(model)["evs"] if e["rate"] == 0.0 and e["delivered"] == 0.0}
        o["evs"] = [dict(e, rate=0.0) if e["session"] in idle else e for e in o["evs"]]
    return o


def _compare_sorted(case, obs, model):
    """a REAL algorithm: the implementation against the composition model (canonical queue: ties canonicalised)"""
    diffs = []
    pc = prior_case(case)
    if pc is not None and obs.get("prior") is not None and (model.get("prior") or {}).get("sorted") is not None:
        po, pm = obs["prior"], model["prior"]["sorted"]
        if not (po["err"] is not None and po["err"] != pm["err"]):
            diffs += ["earlier simulation: " + d for d in S.compare(pc, po, pm)]
    if obs.get("main_skipped"):
        return diffs[:12]
    m = model["sorted"]
    if m is None:
        return diffs + ["the model did not answer the simulation with the modelled algorithm"]
    fired = [o["iter"] for o in obs.get("aborted", [])]
    if fired:
        # an interrupted run: the COMPLETED simulation equals the uninterrupted model run; the scheduler was invoked once
        # more in every period in which it raised
        m = dict(m, invoked=[x for t in m["invoked"] for x in ([t, t] if t in fired else [t])])
    if obs["err"] is not None and obs["err"] != m["err"]:
        # raised inside the algorithm with an error class the composition model names differently: error parity of the
        # sorted algorithms is C07/C08's correspondence; C01's oracle still judges the run (run_raised)
        return diffs[:12]
    o = {k: v for k, v in obs.items() if k != "first"}
    diffs += S.compare(case, _fresh_eyes(case, o, m), m)
    if "twin" in obs:
        diffs += ["original simulator (run after its deep copy): " + d
                  for d in S.compare(case, _fresh_eyes(case, obs["twin"], m), m)]
    return diffs[:12]


def compare(case, obs, model):
    if "steps" in case:
        return S.compare(case, obs, model, exact_ties=False)
    if "sorted" in model:
        return _compare_sorted(case, obs, model)
    if isinstance(case.get("resume"), dict):
        diffs = S.compare(case, obs, model, exact_ties=True)
        ao, am = obs.get("aborted", []), model.get("aborted", [model["first"]] if "first" in model else [])
        if len(ao) != len(am):
            diffs.append(f"interruptions: the implementation aborted {len(ao)} time(s) (periods {[o['iter'] for o in ao]}), "
                         f"the model {len(am)} time(s) (periods {[m['iter'] for m in am]})")
        for j, (o, m) in enumerate(zip(ao, am)):
            if j == 0:
                continue            # the first aborted state is compared as "first" above
            o1 = dict(o)
            o1.pop("noise_draws", None)
            S.compare_state(case, o1, S.decode_model(m), diffs, tag=f"aborted run {j + 1}: ", exact_ties=True)
        return diffs[:12]
    diffs = []
    pc = prior_case(case)
    if pc is not None:
        if "prior" not in model:
            diffs.append("the model did not answer the prior simulation")
        else:
            diffs += ["earlier simulation: " + d for d in S.compare(pc, obs["prior"], model["prior"], exact_ties=True)]
        if obs.get("main_skipped"):
            return diffs[:12]
    diffs += S.compare(case, _fresh_eyes(case, obs, model), model, exact_ties=True)
    if "twin" in obs:
        diffs += ["original simulator (run after its deep copy): " + d
                  for d in S.compare(case, _fresh_eyes(case, obs["twin"], model), model, exact_ties=True)]
    return diffs[:12]


# ------------------------------------------------------------------ oracle: C01 stated on the implementation

SCHED_FAULTS = {"invalid_rate", "sched_unknown_station", "ragged", "sched_fail", "min_rate"}
# a scheduler crash followed by a second run() is in scope again: the resumed run must complete the
# history exactly as an uninterrupted one (this is what F7 broke in the last period)
PREC = {"Unplug": 0, "Plugin": 1, "Recompute": 2}
PREMISE_ERRORS = ("InvalidRate", "InvalidSchedule", "SchedulerFailed")


def in_scope(case):
    if "steps" in case:
        return False                 # C01 is about run(); step() is tied by correspondence only
    if case.get("assembly") and S.is_valid_layout(case) and has_late_event(case):
        return False                 # an event handed over after its period has passed: outside the premise
    if case.get("malformed") == "sched_fail" and case.get("resume"):
        return S.is_valid_layout(case)
    return S.is_valid_layout(case) and case.get("malformed") not in SCHED_FAULTS


def oracle(case, obs):
    """Every simulation of the case (an earlier one whose objects are re-used, the main one, the original of a
    deep-copied simulator) is judged by the same predicate."""
    fails = []
    pc = prior_case(case)
    if pc is not None and "prior" in obs:
        fails += [{"kind": f["kind"], "detail": "earlier simulation (its objects are re-used afterwards): " + f["detail"]}
                  for f in oracle_one(pc, obs["prior"])]
        if obs.get("main_skipped"):
            return fails
    what = ""
    if pc is not None:
        what = "simulation re-using the " + "/".join(case["prior"].get("reuse", [])) + " object(s) of a finished one: "
    fails += [{"kind": f["kind"], "detail": what + f["detail"]} for f in oracle_one(case, obs)]
    if isinstance(case.get("resume"), dict) and in_scope(case):
        fails += oracle_resume(case, obs)
    if "twin" in obs:
        fails += [{"kind": f["kind"], "detail": what + "original simulator, run after its deep copy: " + f["detail"]}
                  for f in oracle_one(case, obs["twin"])]
    return fails


def _expected_events(case, k):
    """(event_history entries, pending entries) as multisets after the events of period k have been processed and
    nothing else of the period has happened (the state an abort inside the scheduler leaves)"""
    ss = case["sessions"]
    recs = [int(r) for r in case.get("recomputes", [])]
    hist = [[x["arrival"], "Plugin", x["session"]] for x in ss if x["arrival"] <= k] + \
           [[x["departure"], "Unplug", x["session"]] for x in ss if x["departure"] <= k] + \
           [[r, "Recompute", ""] for r in recs if r <= k]
    pend = [[x["arrival"], "Plugin", x["session"]] for x in ss if x["arrival"] > k] + \
           [[x["departure"], "Unplug", x["session"]] for x in ss if x["arrival"] <= k < x["departure"]] + \
           [[r, "Recompute", ""] for r in recs if r > k]
    return sorted(hist), sorted(pend)


def oracle_resume(case, obs):
    """C01 across interruptions: what every ABORTED state must look like so that nothing is replayed and nothing is
    lost (the clauses about the COMPLETED simulation are `oracle_one` on the final observation), and what a JSON
    hand-over must preserve."""
    fails = []
    ks = sorted(int(c["k"]) for c in case["resume"]["crashes"])
    ab = obs.get("aborted", [])
    its = [a["iter"] for a in ab]
    if any(a["err"] != "SchedulerFailed" for a in ab):
        return fails                     # aborted by something else: judged as run_raised / premise by oracle_one
    if its != sorted(set(its)) or any(t not in ks for t in its):
        fails.append({"kind": "abort_period", "detail": f"run() aborted in periods {its}; the scheduler raises (once each) in {ks}"})
        return fails
    if obs["err"] == "SchedulerFailed":
        fails.append({"kind": "resumed_run_raised", "detail": f"the scheduler raised once in each of {ks}; run() aborted in {its} and "
                      f"the last run() still ends with SchedulerFailed in period {obs['iter']}"})
    for a in ab:
        k = a["iter"]
        hist, pend = _expected_events(case, k)
        if sorted(a["event_history"]) != hist:
            fails.append({"kind": "aborted_history", "detail": f"run() aborted in period {k}: event_history {a['event_history']}, "
                          f"expected exactly the events with timestamp <= {k}: {hist}"})
        if sorted(a["pending"]) != pend:
            extra = [e for e in a["pending"] if e not in pend]
            lost = [e for e in pend if e not in a["pending"]]
            fails.append({"kind": "aborted_queue", "detail": f"run() aborted in period {k}: the queue holds {a['pending']}; "
                          f"not expected (would be replayed / out of place): {extra}; missing (lost): {lost}"})
    if obs.get("missing_evs"):
        fails.append({"kind": "session_lost_in_json", "detail": f"sessions {obs['missing_evs']} are in none of ev_history / "
                      f"stations / pending events of the simulator loaded from JSON"})
    if obs.get("via_json") and obs.get("same_object"):
        fails.append({"kind": "json_same_object", "detail": "from_json returned the simulator object that was dumped"})
    return fails


def oracle_one(case, obs):
    if not in_scope(case):
        return []
    fails = []
    ss = case["sessions"]
    recs = sorted(case.get("recomputes", []))
    if isinstance(case.get("resume"), dict) and obs["err"] == "SchedulerFailed":
        return []        # reported by oracle_resume (resumed_run_raised / abort_period)
    if obs["err"] in PREMISE_ERRORS:
        return []        # the scheduler failed or returned a schedule the EVSEs refuse: premise of C01 not met
    if obs["err"] is not None:
        return [{"kind": "run_raised", "detail": f"run() raised {obs['err']} in period {obs['iter']} on a valid scenario"}]
    evh = obs["event_history"]
    for s in ss:
        plugs = [e for e in evh if e[1] == "Plugin" and e[2] == s["session"]]
        unpl = [e for e in evh if e[1] == "Unplug" and e[2] == s["session"]]
        if plugs != [[s["arrival"], "Plugin", s["session"]]]:
            fails.append({"kind": "plug_count", "detail": f"session {s['session']}: plug-in entries {plugs}, expected one at {s['arrival']}"})
        if unpl != [[s["departure"], "Unplug", s["session"]]]:
            fails.append({"kind": "unplug_count", "detail": f"session {s['session']}: unplug entries {unpl}, expected one at {s['departure']}"})
    if sorted(e[0] for e in evh if e[1] == "Recompute") != recs:
        fails.append({"kind": "recompute_count", "detail": f"recompute entries {[e for e in evh if e[1] == 'Recompute']} expected at {recs}"})
    if len(evh) != 2 * len(ss) + len(recs):
        fails.append({"kind": "history_length", "detail": f"{len(evh)} entries for {len(ss)} sessions and {len(recs)} recomputes"})
    keys = [(e[0], PREC.get(e[1], 9)) for e in evh]
    if keys != sorted(keys):
        fails.append({"kind": "history_unsorted", "detail": f"event_history not ordered by (time, unplug<plugin<recompute): {evh}"})
    ts = [s["departure"] for s in ss] + recs
    expect_iter = (max(ts) + 1) if ts else 0
    if not obs["queue_empty"]:
        fails.append({"kind": "queue_not_empty", "detail": f"pending after run(): {obs['pending']}"})
    if obs.get("caller_pending"):
        fails.append({"kind": "queue_not_empty", "detail": f"the EventQueue object handed to the constructor still holds "
                      f"{obs['caller_pending']} event(s) after run() (sim.event_queue is that object: {obs.get('queue_shared')})"})
    if obs["iter"] != expect_iter:
        fails.append({"kind": "final_iteration", "detail": f"iteration {obs['iter']} expected {expect_iter}"})
    if any(x is not None for x in obs["occ_final"]):
        fails.append({"kind": "not_vacant", "detail": f"occupants after run(): {obs['occ_final']}"})
    sts = [st["id"] for st in case["stations"]]
    if len(obs["occ"]) != obs["iter"]:
        fails.append({"kind": "occupancy", "detail": f"{len(obs['occ'])} occupancy snapshots for {obs['iter']} periods"})
    for t, row in enumerate(obs["occ"]):
        exp = []
        for st in sts:
            here = [s["session"] for s in ss if s["station"] == st and s["arrival"] <= t < s["departure"]]
            exp.append(here[0] if here else None)
        if row != exp:
            fails.append({"kind": "occupancy", "detail": f"period {t}: connected {row}, expected {exp}"})
            break
    for i, st in enumerate(sts):
        for t, r in enumerate(obs["rates"][i] if i < len(obs["rates"]) else []):
            if r != 0 and not any(s["station"] == st and s["arrival"] <= t < s["departure"] for s in ss):
                fails.append({"kind": "rate_outside_session", "detail": f"charging_rates[{st}][{t}] = {r} with no session connected"})
                break
    evk = obs["ev_history"]
    arr = {s["session"]: s["arrival"] for s in ss}
    if sorted(evk) != sorted(arr) or [arr[k] for k in evk if k in arr] != sorted(arr[k] for k in evk if k in arr):
        fails.append({"kind": "ev_history", "detail": f"ev_history keys {evk}"})
    return fails


# ------------------------------------------------------------------ statistics


def _b2b(case):
    n = 0
    for a in case["sessions"]:
        for b in case["sessions"]:
            if a is not b and a["station"] == b["station"] and a["departure"] == b["arrival"]:
                n += 1
    return n


def _simul(case):
    ts = [s["arrival"] for s in case["sessions"]] + [s["departure"] for s in case["sessions"]] + list(case.get("recomputes", []))
    return len(ts) - len(set(ts))


def nontrivial(case, obs):
    return in_scope(case) and len(case["sessions"]) >= 2 and (_b2b(case) > 0 or _simul(case) > 0)


def features(case, obs):
    n = len(case["sessions"])
    f = [f"stations={len(case['stations'])}",
         "sessions=" + ("0" if n == 0 else "1-3" if n <= 3 else "4-8" if n <= 8 else "9-25"),
         f"sched={case['sched']['type']}", f"period={case['period']}", f"max_recompute={case['max_recompute']}",
         f"err={obs.get('err')}", f"malformed={case.get('malformed')}",
         f"resumed={'first' in obs}", f"driven_by={'step' if 'steps' in case else 'run'}",
         "back_to_back=" + ("0" if _b2b(case) == 0 else "1-2" if _b2b(case) <= 2 else "3+"),
         "simultaneous=" + ("0" if _simul(case) == 0 else "1-3" if _simul(case) <= 3 else "4+"),
         f"recomputes={min(len(case.get('recomputes', [])), 3)}",
         f"constraint={'yes' if case.get('constraint') else 'no'}"]
    if case.get("exhaustive"):
        f.append("exhaustive_small_scope")
    if isinstance(case.get("resume"), dict):
        cr = sorted(case["resume"]["crashes"], key=lambda c: c["k"])
        ab = obs.get("aborted", [])
        f.append(f"resume:crash_points={len(cr)}/fired={len(ab)}")
        f.append("resume:via=" + "+".join(c["via"] for c in cr))
        for c in cr:
            f.append("resume:crash_period=" + crash_kind(case, c["k"]) + (":fired" if c["k"] in [a["iter"] for a in ab] else ":not_invoked"))
        if any(c["k"] == 0 for c in cr) and any(a["iter"] == 0 for a in ab):
            f.append("resume:aborted_in_period_0")
        ids = [st["id"] for st in case["stations"]]
        f.append("resume:station_ids_registered_in_sorted_order=" + str(ids == sorted(ids)))
    if not S.is_modelled(case):
        f.append("real_algo_model=" + ("sorted_composition" if sorted_in_domain(case) and obs.get("infra") is not None
                                       else "outside_domain(oracle_only)"))
    if case.get("assembly"):
        asm = assembly_of(case)
        f.append(f"assembly={case['assembly'].get('mode', 'custom')}")
        f.append(f"queue_at_construction={'empty' if not asm['ctor'] else 'all' if len(asm['ctor']) == n_events(case) else 'part'}")
        f.append(f"run_calls={min(len(asm['stages']), 4)}")
        f.append(f"deepcopy={asm['copy']}")
        f.append("added_via=" + "+".join(sorted({st['via'] for st in asm['stages'] if st['add']})))
        f.append("added_by=" + "+".join(sorted({st['how'] for st in asm['stages'] if st['add']} | ({asm['build']} if asm['ctor'] else set()))))
        if S.is_valid_layout(case) and has_late_event(case):
            f.append("late_event(out_of_scope)")
    else:
        f.append("assembly=ctor_all_run_once")
    if case.get("prior"):
        p = case["prior"]
        f.append("reused=" + "+".join(sorted(p.get("reuse", []))))
        f.append("earlier_simulation=" + ("other_sessions" if p.get("sessions") is not None else "same_sessions"))
        if obs.get("main_skipped"):
            f.append("earlier_simulation_raised")
    if in_scope(case) and obs.get("err") in PREMISE_ERRORS:
        f.append("oracle_abstained_premise")
    kinds = sorted({st["kind"]["t"] for st in case["stations"]})
    f.append("evse=" + "+".join(kinds))
    if any(s["batt"].get("two") and s["batt"].get("noise", 0) > 0 for s in case["sessions"]):
        f.append("noisy_battery")
    if obs.get("err") is None and any(any(x != 0 for x in row) for row in obs.get("rates", [])):
        f.append("energy_delivered")
    return f


def _drop_event(case, key, i):
    """case without sessions[i] / recomputes[i]; the assembly's indices into E(case) follow"""
    c2 = copy.deepcopy(case)
    k = i if key == "sessions" else len(case["sessions"]) + i
    del c2[key][i]
    a = c2.get("assembly")
    if a:
        fix = lambda ix: [j - (j > k) for j in ix if j != k]
        a["ctor"] = fix(a.get("ctor", []))
        for st in a.get("stages", []):
            st["add"] = fix(st.get("add", []))
    return c2


def shrink(case, kind):
    """Greedy: drop the earlier simulation / the deep copy / sessions / recomputes / script entries while the same
    failure kind persists."""
    def bad(c):
        try:
            return any(f["kind"] == kind for f in oracle(c, run_impl(c)))
        except Exception:
            return False
    if not bad(case):
        return case
    cur = copy.deepcopy(case)
    for simpler in (lambda c: c.pop("prior", None), lambda c: c.pop("assembly", None),
                    lambda c: c.get("assembly", {}).update(copy=None),
                    lambda c: c.get("prior", {}).pop("assembly", None),
                    lambda c: c.get("prior", {}).pop("sched", None),
                    lambda c: c.get("prior", {}).update(reuse=c["prior"]["reuse"][:1]) if c.get("prior") else None,
                    lambda c: c.get("prior", {}).update(reuse=c["prior"]["reuse"][-1:]) if c.get("prior") else None):
        c2 = copy.deepcopy(cur)
        simpler(c2)
        if c2 != cur and bad(c2):
            cur = c2
    changed = True
    while changed:
        changed = False
        for key in ("sessions", "recomputes"):
            i = 0
            while i < len(cur.get(key, [])):
                c2 = _drop_event(cur, key, i)
                if bad(c2):
                    cur = c2
                    changed = True
                else:
                    i += 1
        pr = cur.get("prior") or {}
        for key in ("sessions", "recomputes"):
            i = 0
            while i < len(pr.get(key) or []) and not (key == "sessions" and len(pr[key]) <= 1):
                c2 = copy.deepcopy(cur)
                del c2["prior"][key][i]
                if bad(c2):
                    cur = c2
                    pr = cur["prior"]
                    changed = True
                else:
                    i += 1
        sc = cur.get("sched", {})
        i = 0
        while i < len(sc.get("script", [])):
            c2 = copy.deepcopy(cur)
            del c2["sched"]["script"][i]
            if bad(c2):
                cur = c2
                sc = cur["sched"]
                changed = True
            else:
                i += 1
    return cur
