#!/usr/bin/env python3
"""Regenerate MANIFEST.json from harness/manifest_entries.json (claimed checks) + properties.jsonl."""
import json, os
V = os.path.dirname(os.path.dirname(os.path.abspath(__file__)))
entries = json.load(open(os.path.join(V, "harness", "manifest_entries.json")))
props = [json.loads(l) for l in open(os.path.join(V, "properties.jsonl"))]
checks = []
na = []
for p in props:
    pid = p["id"]
    e = entries["checks"].get(pid)
    if e is None:
        na.append({"property_id": pid, "reason": entries["not_applicable"].get(pid, "check not built yet in this session (model + theorems + correspondence pending); no claim is made")})
        continue
    checks.append({
        "property_id": pid,
        "quick_cmd": f"/venv/bin/python harness/check.py {pid} --tier quick",
        "thorough_cmd": f"/venv/bin/python harness/check.py {pid} --tier thorough",
        "evidence_file": f"evidence/{pid}.json",
        "replay_cmd_template": f"/venv/bin/python harness/check.py {pid} --replay {{path}}",
        "engine": "lean4-proof+correspondence",
        "level_claimed": {"category": "proof", "text": e["text"], "design_ref": e.get("design_ref", f"DESIGN.md §6 {pid}")},
        "level_note": e["note"],
        "technique": e.get("technique", "Lean 4 theorems about an executable model + differential correspondence with the Python implementation"),
    })
m = {
    "version": 1,
    "setup_cmd": "/venv/bin/python harness/setup.py",
    "hooks": {
        "guard": "ZACH401_ACNPORTAL_VERIF",
        "enable": "no source hooks are needed: the harness observes through public API, subclasses and patching inside the harness process only",
        "baseline_off_cmd": "cd /repo && /venv/bin/python -m pytest -ra -q -p no:cacheprovider --timeout=900 --continue-on-collection-errors",
        "source_commits": [],
        "add_only": True,
    },
    "engines": [{
        "name": "lean4-proof+correspondence",
        "path": "harness/check.py",
        "serves_properties": [c["property_id"] for c in checks],
        "kind_free_text": "Lean 4 (Mathlib) theorems over executable models in lean/AcnModel; constants/tables regenerated from /repo by harness/translate.py; compiled model drivers compared with the in-process Python implementation; property oracles give concrete replays",
    }],
    "checks": checks,
    "notes": entries.get("notes", ""),
    "not_applicable": na,
}
json.dump(m, open(os.path.join(V, "MANIFEST.json"), "w"), indent=1)
print("checks:", [c["property_id"] for c in checks], "not_applicable:", len(na))
