#!/venv/bin/python
"""Maintainer tool for seeded changes (never part of a registered check).

  seedtool.py confirm <name> [--checks C13,C02] [--tier quick]
      <name> is a directory under seeded/_pending/ or seeded/ holding patch.diff + demo.py (+ notes.md).
      In a scratch worktree of /repo (outside /repo and /verif, removed afterwards):
        1. demo.py on the clean tree            -> must exit 0
        2. git apply patch.diff
        3. the unedited test-suite               -> must give the baseline (386 passed)
        4. demo.py on the patched tree           -> must exit != 0
        5. each requested check with ACN_REPO=<worktree> -> records exit code / VIOLATION line
      Writes seeded/<name>/meta.json (moving the directory out of _pending when steps 1-4 hold).
"""
import argparse
import json
import os
import re
import shutil
import subprocess
import sys
import time

VERIF = os.path.dirname(os.path.dirname(os.path.abspath(__file__)))
PY = "/venv/bin/python"


def sh(cmd, cwd=None, env=None, timeout=3600):
    p = subprocess.run(cmd, cwd=cwd, env=env, shell=isinstance(cmd, str), capture_output=True, text=True, timeout=timeout)
    return p.returncode, p.stdout + p.stderr


def main():
    ap = argparse.ArgumentParser()
    ap.add_argument("cmd", choices=["confirm", "related"])
    ap.add_argument("name")
    ap.add_argument("--checks", default="")
    ap.add_argument("--tier", default="quick")
    ap.add_argument("--seed", default="0")
    ap.add_argument("--fast", action="store_true",
                    help="pass --no-build to the checks (correspondence + oracle only; no lock, no Lean rebuild): regression runs")
    ap.add_argument("--recheck", action="store_true",
                    help="already confirmed at this /repo HEAD: apply the patch and run the checks only")
    a = ap.parse_args()
    if a.cmd == "related":
        # properties whose anchored files are touched by the patch (plus the seed's own property)
        d = os.path.join(VERIF, "seeded", a.name)
        if not os.path.isdir(d):
            d = os.path.join(VERIF, "seeded", "_pending", a.name)
        files = set(re.findall(r"^\+\+\+ b/(\S+)", open(os.path.join(d, "patch.diff")).read(), re.M))
        own = re.match(r"(C\d+)", a.name).group(1)
        rel = [own]
        for l in open(os.path.join(VERIF, "properties.jsonl")):
            pr = json.loads(l)
            if pr["id"] != own and files & set(pr["anchors"].get("files", [])):
                rel.append(pr["id"])
        print(",".join(rel))
        return 0
    src = os.path.join(VERIF, "seeded", "_pending", a.name)
    if not os.path.isdir(src):
        src = os.path.join(VERIF, "seeded", a.name)
    patch = os.path.join(src, "patch.diff")
    demo = os.path.join(src, "demo.py")
    wt = f"/tmp/seedconfirm_{a.name}_{os.getpid()}"
    rc, out = sh(["git", "-C", "/repo", "worktree", "add", "--detach", wt, "HEAD"])
    if rc:
        print(out)
        return 2
    meta_path_old = os.path.join(src, "meta.json")
    meta = json.load(open(meta_path_old)) if os.path.exists(meta_path_old) else {}
    try:
        prop = re.match(r"(C\d+)", a.name).group(1)
        head = sh(["git", "-C", "/repo", "rev-parse", "--short", "HEAD"])[1].strip()
        recheck = a.recheck and meta.get("confirmed")
        rc_clean, out_clean = (0, "") if recheck else sh([PY, demo], cwd=wt)
        rc_apply, out_apply = sh(["git", "apply", patch], cwd=wt)
        if rc_apply:
            print("patch does not apply:", out_apply)
        rc_suite, out_suite = (0, "386 passed (recorded earlier)") if recheck else sh([PY, "-m", "pytest", "-q", "-p", "no:cacheprovider", "--timeout=900", "--continue-on-collection-errors"], cwd=wt)
        m = re.search(r"(\d+) passed", out_suite)
        passed = int(m.group(1)) if m else -1
        mf = re.search(r"(\d+) failed", out_suite)
        failed = int(mf.group(1)) if mf else 0
        rc_demo, out_demo = sh([PY, demo], cwd=wt)
        if recheck:
            rc_clean = meta.get("demo_clean_exit", 0)
        confirmed = rc_clean == 0 and rc_apply == 0 and passed == 386 and failed == 0 and rc_demo != 0
        meta.update({
            "property": prop,
            "repo_head": head,
            "confirmed": confirmed,
            "demo_clean_exit": rc_clean,
            "demo_patched_exit": rc_demo,
            "demo_patched_tail": out_demo.strip().splitlines()[-4:],
            "suite_with_patch": {"passed": passed, "failed": failed},
            "what_i_ran": [
                f"git -C /repo worktree add --detach {wt} HEAD",
                "demo.py on the clean worktree", "git apply patch.diff",
                "/venv/bin/python -m pytest -q -p no:cacheprovider --timeout=900 --continue-on-collection-errors",
                "demo.py on the patched worktree",
            ],
        })
        needs_path = os.path.join(VERIF, "seeded", "needs.json")
        if os.path.exists(needs_path):
            needs = json.load(open(needs_path))
            if a.name in needs:
                meta["needs_to_manifest"] = needs[a.name]
        notes = os.path.join(src, "notes.md")
        if os.path.exists(notes) and "needs_to_manifest" not in meta:
            meta["notes_file"] = "notes.md"
        checks = meta.get("checks", {})
        for c in [c for c in a.checks.split(",") if c]:
            env = dict(os.environ, ACN_REPO=wt, VERIF_SEED=a.seed)
            t0 = time.time()
            rc, out = sh([PY, "harness/check.py", c, "--tier", a.tier] + (["--no-build"] if a.fast else []), cwd=VERIF, env=env, timeout=7200)
            vio = [l for l in out.splitlines() if l.startswith("VIOLATION")]
            replay_kind = None
            if vio:
                mm = re.search(r"replay=(\S+)", vio[0])
                if mm and os.path.exists(os.path.join(VERIF, mm.group(1))):
                    try:
                        replay_kind = json.load(open(os.path.join(VERIF, mm.group(1)))).get("what", {}).get("kind")
                    except Exception:
                        pass
            checks[c] = {"tier": a.tier, "exit": rc, "violation_lines": vio[:3], "first_failure_kind": replay_kind,
                         "caught": rc == 1 and bool(vio), "wall_s": round(time.time() - t0, 1)}
            print(f"check {c}: exit={rc} caught={checks[c]['caught']} {vio[:1]}")
        meta["checks"] = checks
    finally:
        sh(["git", "-C", "/repo", "worktree", "remove", "--force", wt])
        # generated constants may have been rewritten from the mutated tree: restore from /repo
        if not a.fast:
            sh([PY, os.path.join(VERIF, "harness", "translate.py")])
    dst = os.path.join(VERIF, "seeded", a.name)
    if meta.get("confirmed") and src != dst:
        shutil.move(src, dst)
        src = dst
    json.dump(meta, open(os.path.join(src, "meta.json"), "w"), indent=1)
    print(json.dumps({k: meta[k] for k in ("property", "confirmed", "suite_with_patch", "demo_clean_exit", "demo_patched_exit")}))
    return 0


if __name__ == "__main__":
    sys.exit(main())
