#!/venv/bin/python
"""Maintainer tool (never part of a registered check): take candidate changes delivered by independent agents under
<root>/<Cxx>/<k>/{patch.diff,demo.py,notes.md} into seeded/_pending/<Cxx>-<n> (next free number) and print the new names.
usage: seed_intake.py /tmp/seed6 [Cxx ...]"""
import os
import re
import shutil
import sys

VERIF = os.path.dirname(os.path.dirname(os.path.abspath(__file__)))
root = sys.argv[1]
props = sys.argv[2:] or sorted(d for d in os.listdir(root) if re.fullmatch(r"C\d\d", d))
pend = os.path.join(VERIF, "seeded", "_pending")
os.makedirs(pend, exist_ok=True)
for p in props:
    for k in sorted(os.listdir(os.path.join(root, p))):
        src = os.path.join(root, p, k)
        if not (os.path.isfile(os.path.join(src, "patch.diff")) and os.path.isfile(os.path.join(src, "demo.py"))):
            continue
        if os.path.exists(os.path.join(src, ".taken")):
            continue
        used = [int(m.group(1)) for d in os.listdir(os.path.join(VERIF, "seeded")) + os.listdir(pend)
                if (m := re.fullmatch(rf"{p}-(\d+)", d))]
        name = f"{p}-{max(used, default=0) + 1}"
        dst = os.path.join(pend, name)
        os.makedirs(dst)
        for f in ("patch.diff", "demo.py", "notes.md"):
            if os.path.exists(os.path.join(src, f)):
                shutil.copy(os.path.join(src, f), dst)
        open(os.path.join(src, ".taken"), "w").write(name)
        print(name)
