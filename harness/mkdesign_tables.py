#!/usr/bin/env python3
"""Rewrite the generated blocks of DESIGN.md (between <!-- BEGIN:name --> and <!-- END:name -->) from
evidence/*.json, known_findings.json, seeded/*/meta.json and harness/props/*.py.  Maintainer tool."""
import glob, json, os, re
V = os.path.dirname(os.path.dirname(os.path.abspath(__file__)))


def status_table():
    rows = ["| id | theorems (audited) | correspondence cases (quick) | validated vs model | distinct non-trivial | quick wall s | tier of last run |",
            "|----|----|----|----|----|----|----|"]
    for p in sorted(glob.glob(os.path.join(V, "evidence", "C*.json"))):
        e = json.load(open(p)); c = e["coverage"]
        rows.append(f"| {e['property_id']} | {c.get('discharged')}/{c.get('obligations')} | {c.get('evaluations')} | {c.get('traces_validated_against_impl')} | {c.get('distinct_nontrivial')} | {e.get('wall_s')} | {e.get('tier')} |")
    return "\n".join(rows)


def findings_table():
    k = json.load(open(os.path.join(V, "known_findings.json")))["findings"]
    rows = ["| id | property | status | fix commit in /repo | what failed |", "|----|----|----|----|----|"]
    for f in sorted(k, key=lambda f: int(f["id"][1:])):
        rows.append(f"| {f['id']} | {f['property']} | {f['status']} | {f.get('commit') or '—'} | {f['what'][:260].replace('|', '/')} |")
    return "\n".join(rows)


def seeds_table():
    rows = ["| seeded change | breaks | what it needs to manifest | suite with patch | caught by (check → first failure kind) |", "|----|----|----|----|----|"]
    for p in sorted(glob.glob(os.path.join(V, "seeded", "C*", "meta.json")), key=lambda q: [int(x) for x in re.findall(r"\d+", os.path.basename(os.path.dirname(q)))]):
        m = json.load(open(p)); name = os.path.basename(os.path.dirname(p))
        caught = "; ".join(f"{c} → {r.get('first_failure_kind') or ('VIOLATION' if r.get('caught') else 'MISSED')}" + ("" if r.get("caught") else " (missed)") for c, r in sorted(m.get("checks", {}).items()))
        needs = m.get('needs_to_manifest')
        if not needs:
            np_ = os.path.join(os.path.dirname(p), "notes.md")
            needs = open(np_).read().strip().splitlines()[0].lstrip('# ')[:420] if os.path.exists(np_) else ''
        rows.append(f"| {name} | {m.get('property')} | {needs.replace('|','/')} | {m.get('suite_with_patch',{}).get('passed')} passed | {caught} |")
    return "\n".join(rows)


def main():
    path = os.path.join(V, "DESIGN.md")
    s = open(path).read()
    for name, fn in (("status", status_table), ("findings", findings_table), ("seeds", seeds_table)):
        pat = re.compile(rf"(<!-- BEGIN:{name} -->\n).*?(<!-- END:{name} -->)", re.S)
        if pat.search(s):
            s = pat.sub(lambda m: m.group(1) + fn() + "\n" + m.group(2), s)
    open(path, "w").write(s)


if __name__ == "__main__":
    main()
