/-
  CAPSTONE — the per-property results composed into statements about the whole pipeline the package offers:

      ACN-Data documents ──C15──▶ sessions / plug-in events ──C01──▶ Simulator.run ──C02──▶ ledger ──C18──▶ analysis
                                                              ▲
                                   sorted algorithms (C07, any estimator) on any network (C06) / a site network (C16)

  Property theorems only.  Helpers: `Lemmas/CapstoneSessions.lean` (documents ⇒ `Valid` scenario),
  `Lemmas/CapstoneReplay.lean` (a run with a stateful scheduler IS a `Sim.run`), `Lemmas/Capstone.lean`
  (`RunAccounts`: C01 + C02 + C18 of one complete run; feasible column ⇒ transformer within rating).

    1. `pipeline_terminates_and_accounts`(`_stateful`)  C15 ∘ C01 ∘ C02 ∘ C18, ANY scheduler (pure / with state)
    2. `pipeline_sorted_safe`                            … with the sorted algorithms, any estimator, ANY network
    3. `pipeline_site_ratings` / `pipeline_simple_acn_cap`  applied columns keep every transformer within its rating
    4. the JSON-resume variant lives in `CapstoneResume.lean` (the C09 lemma family cannot be imported here)

  The documents are `Sessions.Doc` records (connection / disconnection instants in epoch seconds, energy, ids): what
  `DataClient` yields after `parse_dates` (C20; `C15.generate_events_end_to_end` ties the client path to them).
-/
import AcnProofs.Lemmas.Capstone
import AcnProofs.Lemmas.CapstoneReplay
import AcnProofs.Lemmas.CapstoneSessions
import AcnProofs.C07Est

set_option linter.unusedSectionVars false
set_option linter.unusedVariables false

namespace Acn.Capstone
open Acn Acn.Sessions Acn.SessionsL Acn.Evse Acn.EventCore Acn.Sim Acn.Ledger Acn.AnalysisSim Acn.Sorted

/-! ### 1. documents → events → simulation → ledger → analysis, any scheduler -/

section any_scheduler
variable {K : Type} [Field K] [LinearOrder K] [IsStrictOrderedRing K] [FloorRing K] [HasExp K]

/-- **C15 ∘ C01 ∘ C02 ∘ C18.**  Let `docs` be ACN-Data documents satisfying `DocsOk` for the network's station ids
    (distinct session ids, registered spaces, `start ≤ connect`, connection and disconnection in DIFFERENT periods,
    `max_len ≥ 1` if given, documents of one space not overlapping in period indices), let `get_evs` convert them
    with ANY battery parameters / `max_len` / `force_feasible` (`h`), and let the sessions be simulated on the network
    `net` (distinct station ids; any tolerances, `max_recompute`, noise stream, extra recompute events with distinct
    tags at times ≥ 0) by `Simulator.run` with ANY scheduler.  If the run raises nothing (`hrun`, fuel ≥ horizon):
      * every EV belongs to its document: ids, `arrival = ⌊connect/(60·period)⌋ − ⌊start/(60·period)⌋`, the capped
        departure, `0 ≤ arrival < departure`;
      * `RunAccounts`: the run stopped after `horizon` periods with the queue empty and every station vacated, one
        plug-in / one unplug per session, every session connected in exactly `[arrival, departure)`, each session's
        energy = the integral of its station's recorded rate over that interval = its battery's gain, and the analysis
        totals (`total_energy_delivered`, `aggregate_power`, `aggregate_current`/`peak`, `datetimes_array`) equal the
        ledger. -/
theorem pipeline_terminates_and_accounts (net : Sim.Cfg K) (start V mp : K) (maxLen : Option Int)
    (bp : BattParams K) (ff : Bool) (docs : List (Doc K)) (evs : List (Ev K))
    (hp : 0 < net.period) (hs : 0 ≤ start) (hn : StationsNodup net)
    (hd : DocsOk (net.stations.map (·.id)) start net.period maxLen docs)
    (htags : (net.recomputes.map (·.2)).Nodup) (hrec : ∀ r ∈ net.recomputes, 0 ≤ r.1)
    (h : getEvs start docs net.period V mp maxLen bp ff = .ok evs)
    (sched : View K → Except EventCore.Err (Schedule K)) (n : Nat)
    (hN : horizon (pipelineCfg net evs).core ≤ n) (s : State K)
    (hrun : Sim.run (pipelineCfg net evs) sched n (Sim.init (pipelineCfg net evs)) = (s, none)) (t0 : K) :
    List.Forall₂ (fun d e =>
      e.session = d.session ∧ e.station = d.space ∧
      e.arrival = ⌊d.connect / (60 * net.period)⌋ - ⌊start / (60 * net.period)⌋ ∧
      e.departure = capDeparture e.arrival
        (⌊d.disconnect / (60 * net.period)⌋ - ⌊start / (60 * net.period)⌋) maxLen ∧
      0 ≤ e.arrival ∧ e.arrival < e.departure) docs evs ∧
    RunAccounts (pipelineCfg net evs) s t0 := by
  obtain ⟨hv, _, hfresh⟩ := pipeline_valid net start V mp maxLen bp ff docs evs hp hd htags hrec h
  refine ⟨?_, complete_run_accounts (pipelineCfg net evs) hn hv (fun e he => (hfresh e he).1) t0 sched n hN s hrun⟩
  obtain ⟨hf, _, _⟩ := C15.arrival_departure_spec start docs net.period V mp maxLen bp ff evs hp hs h
  refine forall₂_imp_mem hf ?_
  rintro d hdm e he ⟨h1, h2, _, h4, h5⟩
  have hc0 : 0 ≤ d.connect := le_trans hs (hd.after_start d hdm)
  have hd0 : 0 ≤ d.disconnect := le_trans hc0 (connect_le_disconnect hp (hd.periods_apart d hdm))
  have hx : sessionOf e ∈ (pipelineCfg net evs).core.sessions := List.mem_map.2 ⟨e, he, rfl⟩
  exact ⟨h1, h2, h4 hc0, h5 hd0, hv.arr_nonneg _ hx, hv.arr_lt_dep _ hx⟩

/-- the same for a scheduler WITH STATE (the scheduler object lives across the whole run: rampdown, any estimator,
    any user algorithm that remembers things): `SimSortedRd.runSt` — by `runSt_replay` every such run is a `Sim.run` -/
theorem pipeline_terminates_and_accounts_stateful {σ : Type} (net : Sim.Cfg K) (start V mp : K)
    (maxLen : Option Int) (bp : BattParams K) (ff : Bool) (docs : List (Doc K)) (evs : List (Ev K))
    (hp : 0 < net.period) (hs : 0 ≤ start) (hn : StationsNodup net)
    (hd : DocsOk (net.stations.map (·.id)) start net.period maxLen docs)
    (htags : (net.recomputes.map (·.2)).Nodup) (hrec : ∀ r ∈ net.recomputes, 0 ≤ r.1)
    (h : getEvs start docs net.period V mp maxLen bp ff = .ok evs)
    (sched : σ → View K → Except EventCore.Err (Schedule K × σ)) (st0 : σ) (n : Nat)
    (hN : horizon (pipelineCfg net evs).core ≤ n) (s : State K)
    (hrun : (SimSortedRd.runSt (pipelineCfg net evs) sched n st0 (Sim.init (pipelineCfg net evs))).1 = (s, none))
    (t0 : K) :
    List.Forall₂ (fun d e =>
      e.session = d.session ∧ e.station = d.space ∧
      e.arrival = ⌊d.connect / (60 * net.period)⌋ - ⌊start / (60 * net.period)⌋ ∧
      e.departure = capDeparture e.arrival
        (⌊d.disconnect / (60 * net.period)⌋ - ⌊start / (60 * net.period)⌋) maxLen ∧
      0 ≤ e.arrival ∧ e.arrival < e.departure) docs evs ∧
    RunAccounts (pipelineCfg net evs) s t0 := by
  obtain ⟨f, hf, _⟩ := runSt_replay (pipelineCfg net evs) sched n st0 (Sim.init (pipelineCfg net evs))
  rw [hrun] at hf
  exact pipeline_terminates_and_accounts net start V mp maxLen bp ff docs evs hp hs hn hd htags hrec h f n hN s hf t0

/-- the conversion itself cannot raise on such documents with the default `battery_params` (C15
    `all_sessions_wellformed_default`): the hypothesis `h` of the two theorems above is then dischargeable -/
theorem pipeline_conversion_total (stationIds : List String) (start period V mp : K) (maxLen : Option Int)
    (ff : Bool) (docs : List (Doc K)) (hp : 0 < period) (hm : 0 ≤ mp)
    (hd : DocsOk stationIds start period maxLen docs) (hk : ∀ d ∈ docs, 0 ≤ d.kWh) :
    ∃ evs, getEvs start docs period V mp maxLen defaultParams ff = .ok evs ∧ evs.length = docs.length := by
  obtain ⟨evs, h1, h2, _⟩ := C15.all_sessions_wellformed_default start docs period V mp maxLen ff hp hm
    (fun L hL => le_of_lt (hd.cap_pos L hL))
    (fun d hdm => ⟨connect_le_disconnect hp (hd.periods_apart d hdm), hk d hdm⟩)
  exact ⟨evs, h1, h2⟩

end any_scheduler

/-! ### 2. the sorted algorithms on any network -/

/-- **C15 ∘ C07 ∘ C01 ∘ C02 ∘ C18.**  The same pipeline with the modelled sorted algorithms as the scheduler — greedy
    or round robin, every sort order, uninterrupted charging on/off, ANY upper-bound estimator `E` with any state
    (`SimSortedEst.sortedSchedEst`; rampdown and "no estimator" are instances), any increment, `eps ≥ 0` — on ANY
    network constraint set `cons` (matrix, limits, phasors, tolerances), stations continuous-from-zero or finite-rate
    with positive voltages, batteries built without `capacity_fn` (ideal, or two-stage with `0 ≤ ts < 1`) from
    positive energies and a positive maximum battery power.  Then, for EVERY fuel `n`:
      * the run never raises `InvalidRate` (unconditional);
    and whenever the run has completed without raising (`n ≥ horizon`):
      * all of `RunAccounts` (statement 1),
      * every EV has `delivered ≤ requested` and its battery invariant,
      * every column of pilots applied passes the network's feasibility predicate (or is all zero),
      * hence `proportion_of_energy_delivered(sim) ≤ 1`, with equality iff every request was met (when anything was
        requested at all). -/
theorem pipeline_sorted_safe [HasCeilNat ℝ] {σ : Type} (net : Sim.Cfg ℝ) (cons : SimSorted.NetInfo ℝ) (inf : ℝ)
    (scfg : Config ℝ) (E : SimSortedEst.Estimator σ ℝ) (st0 : σ)
    (start V mp : ℝ) (maxLen : Option Int) (bp : BattParams ℝ) (ff : Bool) (docs : List (Doc ℝ))
    (evs : List (Ev ℝ))
    (hs : 0 ≤ start) (hne : net.stations ≠ []) (hn : StationsNodup net)
    (hkinds : ∀ st ∈ net.stations, KindOk inf st.kind) (hvolt : ∀ st ∈ net.stations, 0 < st.voltage)
    (hp : 0 < net.period) (htol : TolOk net) (heps : 0 ≤ scfg.eps)
    (hd : DocsOk (net.stations.map (·.id)) start net.period maxLen docs)
    (htags : (net.recomputes.map (·.2)).Nodup) (hrec : ∀ r ∈ net.recomputes, 0 ≤ r.1)
    (hb : bp.capFn = none) (hts : bp.type = .twoStage → 0 ≤ bp.ts ∧ bp.ts < 1) (hm : 0 < mp)
    (hk : ∀ d ∈ docs, 0 < d.kWh)
    (h : getEvs start docs net.period V mp maxLen bp ff = .ok evs) :
    (∀ n, (SimSortedRd.runSt (pipelineCfg net evs)
        (SimSortedEst.sortedSchedEst cons inf (pipelineCfg net evs) scfg E) n st0
        (Sim.init (pipelineCfg net evs))).1.2 ≠ some .invalidRate) ∧
    ∀ n s t0, horizon (pipelineCfg net evs).core ≤ n →
      (SimSortedRd.runSt (pipelineCfg net evs)
        (SimSortedEst.sortedSchedEst cons inf (pipelineCfg net evs) scfg E) n st0
        (Sim.init (pipelineCfg net evs))).1 = (s, none) →
      RunAccounts (pipelineCfg net evs) s t0 ∧
      (∀ e ∈ s.evs, e.delivered ≤ e.requested ∧ BattAlg.Inv e.batt) ∧
      (∀ τ, τ < horizon (pipelineCfg net evs).core →
        ColOk (SimSorted.feasOf cons) s.pilots net.stations.length τ) ∧
      (0 < ((allEvs s).map (·.requested)).sum →
        ∃ p, proportionDeliveredSim s = .ok p ∧ p ≤ 1 ∧ (p = 1 ↔ ∀ e ∈ s.evs, e.delivered = e.requested)) := by
  obtain ⟨hv, hids, _⟩ := pipeline_valid net start V mp maxLen bp ff docs evs hp hd htags hrec h
  have hbat := pipeline_batteries start net.period V mp maxLen bp ff docs evs hp hb hts hm hk hd.periods_apart
    hd.cap_pos h
  have hB : ∀ e ∈ (pipelineCfg net evs).evs, BattAlg.Inv e.batt ∧ e.delivered ≤ e.requested := by
    intro e he
    obtain ⟨⟨b1, b2, b3, b4, b5, b6⟩, b7, _⟩ := hbat e he
    exact ⟨⟨b1, b2, b3, b4, b5, b6⟩, b7⟩
  have hid : ((pipelineCfg net evs).evs.map (·.session)).Nodup := by
    show (evs.map (·.session)).Nodup
    rw [hids]; exact hd.ids
  have hc : CfgOk (pipelineCfg net evs) inf := ⟨hn, hne, hkinds, hvolt, hp, htol, hid⟩
  have hsafe := C07.sim_consequences_any_estimator cons inf (pipelineCfg net evs) scfg hc heps hB E st0
  refine ⟨fun n => (hsafe n).1, ?_⟩
  intro n s t0 hN hrun
  obtain ⟨_, h2⟩ := hsafe n
  rw [hrun] at h2
  obtain ⟨hev, hcols⟩ := h2 rfl
  have hacc := (pipeline_terminates_and_accounts_stateful net start V mp maxLen bp ff docs evs hp hs hn hd htags
    hrec h _ st0 n hN s hrun t0).2
  refine ⟨hacc, hev, ?_, ?_⟩
  · intro τ hτ
    exact hcols τ (by rw [hacc.iter_eq]; exact hτ)
  · intro hpos
    unfold proportionDeliveredSim
    rw [C18Sim.proportionDelivered_perm hacc.history]
    exact C18Sim.proportion_le_one_of_le_requested s (fun e he => (hev e he).1) hpos

/-! ### 3. the predefined site networks and `simple_acn` -/

/-- **C07 ∘ C16 (sites).**  On every generated site topology `T` (Caltech / JPL / Office001 as they are in the
    working tree, every voltage variant), with any transformer capacities `caps ≥ 0`, tolerances `vt ≥ 0`, `rt`, any
    `r` with `r·r = 3` (√3): for every well-formed simulation `cfg` with one station per station of `T`, the sorted
    algorithms (any estimator) and EVERY fuel `n`, if the run has not aborted then in every period `τ` simulated so
    far and for every transformer `xf` of the site, the pilots applied draw at 120·r volts at most the transformer's
    capacity plus the declared tolerance:  120·r·Σ_{j∈xf} pilot_j(τ) ≤ cap·1000 + 360·max(vt, rt·cap·1000/360). -/
theorem pipeline_site_ratings [HasCeilNat ℝ] {σ : Type} (T : Gen.Sites.Topo) (hT : T ∈ Gen.Sites.topos)
    (r vt rt : ℝ) (hr : r * r = 3) (hvt : 0 ≤ vt) (caps : List ℝ) (hcaps : ∀ c ∈ caps, 0 ≤ c)
    (cfg : Sim.Cfg ℝ) (inf : ℝ) (hc : CfgOk cfg inf) (hlen : cfg.stations.length = Sites.nStations T)
    (scfg : Config ℝ) (heps : 0 ≤ scfg.eps)
    (hb : ∀ e ∈ cfg.evs, BattAlg.Inv e.batt ∧ e.delivered ≤ e.requested)
    (E : SimSortedEst.Estimator σ ℝ) (st0 : σ) (n : Nat) (s : State ℝ)
    (hrun : (SimSortedRd.runSt cfg (SimSortedEst.sortedSchedEst (siteNetInfo T r vt rt caps) inf cfg scfg E) n st0
      (Sim.init cfg)).1 = (s, none))
    (τ : Nat) (hτ : τ < s.core.iter) (xf : Gen.Sites.Xfmr) (hxf : xf ∈ T.xfmrs) :
    ∃ k ops, Sites.xfmrCap T xf = some (k, ops) ∧
      120 * r * Sites.groupSum xf.sec.evses (colOf s.pilots cfg.stations.length τ)
        ≤ caps.getD k 0 * 1000 + 360 * Feas.tolOf vt rt (caps.getD k 0 * 1000 / 360) := by
  obtain ⟨_, h2⟩ := C07.sim_consequences_any_estimator (siteNetInfo T r vt rt caps) inf cfg scfg hc heps hb E st0 n
  rw [hrun] at h2
  obtain ⟨_, hcols⟩ := h2 rfl
  have hTok : Sites.topoOk T = true := List.all_eq_true.mp C16.site_structure_all_voltages.2.1 T hT
  have hcl : (colOf s.pilots cfg.stations.length τ).length = cfg.stations.length := by simp [colOf]
  have hne : colOf s.pilots cfg.stations.length τ ≠ [] := by
    intro h0
    have : cfg.stations.length = 0 := by rw [← hcl, h0]; rfl
    exact hc.ne (List.eq_nil_of_length_eq_zero this)
  refine site_column_within_ratings T hTok r vt rt hr hvt caps hcaps _ (by rw [hcl, hlen]) hne ?_ xf hxf
  rcases hcols τ hτ with h | h
  · exact Or.inl h
  · right
    intro j
    by_cases hj : j < cfg.stations.length
    · simp [colOf, List.getD_eq_getElem?_getD, hj, h j]
    · simp [colOf, List.getD_eq_getElem?_getD, hj]

/-- **C07 ∘ C16 (`simple_acn`).**  On `simple_acn(ids, voltage, aggregate_cap)` (any ids, voltage > 0, capacity ≥ 0,
    tolerances `vt ≥ 0`, `rt`): every column the sorted algorithms apply draws, at the EVSE voltage, at most
    `aggregate_cap` kW plus the declared tolerance `voltage·max(vt, rt·L)/1000`, `L = cap/voltage·1000`. -/
theorem pipeline_simple_acn_cap [HasCeilNat ℝ] {σ : Type} (ids : List String) (voltage cap vt rt : ℝ)
    (hv : 0 < voltage) (hcap : 0 ≤ cap) (hvt : 0 ≤ vt)
    (cfg : Sim.Cfg ℝ) (inf : ℝ) (hc : CfgOk cfg inf) (hlen : cfg.stations.length = ids.length)
    (scfg : Config ℝ) (heps : 0 ≤ scfg.eps)
    (hb : ∀ e ∈ cfg.evs, BattAlg.Inv e.batt ∧ e.delivered ≤ e.requested)
    (E : SimSortedEst.Estimator σ ℝ) (st0 : σ) (n : Nat) (s : State ℝ)
    (hrun : (SimSortedRd.runSt cfg
      (SimSortedEst.sortedSchedEst (simpleNetInfo ids.length voltage cap vt rt) inf cfg scfg E) n st0
      (Sim.init cfg)).1 = (s, none))
    (τ : Nat) (hτ : τ < s.core.iter) :
    voltage * (colOf s.pilots cfg.stations.length τ).sum / 1000
      ≤ cap + voltage * max vt (rt * (cap / voltage * 1000)) / 1000 := by
  obtain ⟨_, h2⟩ := C07.sim_consequences_any_estimator (simpleNetInfo ids.length voltage cap vt rt) inf cfg scfg hc
    heps hb E st0 n
  rw [hrun] at h2
  obtain ⟨_, hcols⟩ := h2 rfl
  have hcl : (colOf s.pilots cfg.stations.length τ).length = cfg.stations.length := by simp [colOf]
  have hne : colOf s.pilots cfg.stations.length τ ≠ [] := by
    intro h0
    have : cfg.stations.length = 0 := by rw [← hcl, h0]; rfl
    exact hc.ne (List.eq_nil_of_length_eq_zero this)
  refine simple_column_within_cap ids voltage cap vt rt hv hcap hvt _ (by rw [hcl, hlen]) hne ?_
  rcases hcols τ hτ with h | h
  · exact Or.inl h
  · right
    intro j
    by_cases hj : j < cfg.stations.length
    · simp [colOf, List.getD_eq_getElem?_getD, hj, h j]
    · simp [colOf, List.getD_eq_getElem?_getD, hj]

/-! ### non-vacuity: one small scenario through the whole pipeline

  Two stations (CA-1 continuous 0–32 A, CA-2 finite-rate, 208 V), 5-minute periods, `start` = 2019-03-10 08:00 UTC;
  three documents: `a` on CA-1 during periods [0, 2), `b` on CA-1 during [2, 4) (back-to-back reuse of the space), `c` on
  CA-2 during [1, 3); `max_len = 12`, default batteries. -/

section examples

/- `exNet`, `exStart`, `exDocs` and `exDocsOk` (the documents satisfy `DocsOk` over every ordered field with a floor) are in
   `Lemmas/CapstoneSessions.lean`, shared with `CapstoneResume.lean`. -/

section exec
local instance : HasExp ℚ := ⟨fun x => x⟩
local instance : HasCeilNat ℚ := ⟨fun x => (Rat.ceil x).toNat⟩

/-- a fixed schedule: 16 A for CA-1, 8 A for CA-2 in every period -/
def exSched : View ℚ → Except EventCore.Err (Schedule ℚ) := fun _ => .ok [("CA-1", [16]), ("CA-2", [8])]

/-- one aggregate constraint `|x₁ + x₂| ≤ 20` A -/
def exCons (K : Type) [Field K] : SimSorted.NetInfo K :=
  { M := [[1, 1]], lims := [20], cos := [1, 1], sin := [0, 0], vt := 1 / 100000, rt := 1 / 10000000 }

def exAlgo (K : Type) [Field K] : Config K :=
  { algo := .greedy, sort := .fcfs, uninterrupted := false, estimate := true, inc := 1, eps := 1 / 100, fuel := 60 }

/-- an estimator with state: answers "at most 12 A" for every session and counts its calls -/
def exEst (K : Type) [Field K] : SimSortedEst.Estimator Nat K := fun k _ _ => (fun _ => some 12, k + 1)

/-- statement 1, executed: the conversion yields a (0–2), b (2–4), c (1–3); the run with the fixed schedule raises
    nothing, stops after period 4 (horizon 5) with the queue empty; the occupancy snapshots show every session in
    exactly its interval; the recorded rates; `total_energy_delivered` = 104/75 kWh = Σ aggregate_power · 5/60 -/
example :
    (match getEvs (exStart ℚ) (exDocs ℚ) 5 208 (6656 / 1000) (some 12) defaultParams false with
     | .ok evs =>
       let cfg := pipelineCfg (exNet ℚ) evs
       let r := Sim.run cfg exSched 10 (Sim.init cfg)
       (evs.map fun e => (e.session, e.arrival, e.departure, e.requested))
           == [("a", 0, 2, 3), ("b", 2, 4, 1), ("c", 1, 3, 2)] &&
         r.2 == none && decide (horizon cfg.core ≤ 10) && r.1.core.iter == 5 && r.1.core.pending.isEmpty &&
         r.1.occLog == [[some "a", none], [some "a", some "c"], [some "b", some "c"], [some "b", none], [none, none]] &&
         r.1.rates.rows == [[16, 16, 16, 16, 0], [0, 8, 8, 0, 0]] &&
         totalDeliveredSim r.1 == 104 / 75 &&
         aggregatePowerSim cfg r.1 == [416 / 125, 624 / 125, 624 / 125, 416 / 125, 0] &&
         ((416 / 125 + 624 / 125 + 624 / 125 + 416 / 125 + 0 : ℚ) * (5 / 60) == 104 / 75) && r.1.peak == 24
     | .error _ => false) = true := by
  decide +kernel

/-- … and `pipeline_terminates_and_accounts` APPLIED to that run: every hypothesis is discharged, the conclusion
    `RunAccounts` holds for it -/
example : ∃ evs s, getEvs (exStart ℚ) (exDocs ℚ) (exNet ℚ).period 208 (6656 / 1000) (some 12) defaultParams false
      = .ok evs ∧
    Sim.run (pipelineCfg (exNet ℚ) evs) exSched 10 (Sim.init (pipelineCfg (exNet ℚ) evs)) = (s, none) ∧
    RunAccounts (pipelineCfg (exNet ℚ) evs) s 0 := by
  obtain ⟨evs, he, _⟩ := pipeline_conversion_total ((exNet ℚ).stations.map (·.id)) (exStart ℚ) (exNet ℚ).period 208
    (6656 / 1000) (some 12) false (exDocs ℚ) (by norm_num [exNet]) (by norm_num) (exDocsOk ℚ)
    (by intro d hd
        simp only [exDocs, List.mem_cons, List.not_mem_nil, or_false] at hd
        rcases hd with rfl | rfl | rfl <;> norm_num)
  have key : (match getEvs (exStart ℚ) (exDocs ℚ) (exNet ℚ).period 208 (6656 / 1000) (some 12) defaultParams false with
     | .ok evs => decide ((Sim.run (pipelineCfg (exNet ℚ) evs) exSched 10 (Sim.init (pipelineCfg (exNet ℚ) evs))).2 = none)
         && decide (horizon (pipelineCfg (exNet ℚ) evs).core ≤ 10)
     | .error _ => false) = true := by decide +kernel
  rw [he] at key
  simp only [Bool.and_eq_true, decide_eq_true_eq] at key
  have hrun : Sim.run (pipelineCfg (exNet ℚ) evs) exSched 10 (Sim.init (pipelineCfg (exNet ℚ) evs)) =
      ((Sim.run (pipelineCfg (exNet ℚ) evs) exSched 10 (Sim.init (pipelineCfg (exNet ℚ) evs))).1, none) :=
    Prod.ext rfl key.1
  exact ⟨evs, _, he, hrun, (pipeline_terminates_and_accounts (exNet ℚ) (exStart ℚ) 208 (6656 / 1000) (some 12)
    defaultParams false (exDocs ℚ) evs (by norm_num [exNet]) (by norm_num [exStart]) (by simp [StationsNodup, exNet])
    (exDocsOk ℚ) (by simp [exNet]) (by simp [exNet]) he exSched 10 key.2 _ hrun 0).2⟩

/-- statements 1 (stateful) and 2, executed: greedy / first-come-first-served with the stateful estimator under the
    20 A aggregate limit: the estimator holds CA-1 at 12 A, CA-2 gets the largest level that still fits (8 A), every
    applied column respects the limit, nobody receives more than requested, `proportion_of_energy_delivered` = 208/1125 ≤ 1;
    the estimator was consulted in each of the 5 periods -/
example :
    (match getEvs (exStart ℚ) (exDocs ℚ) 5 208 (6656 / 1000) (some 12) defaultParams false with
     | .ok evs =>
       let cfg := pipelineCfg (exNet ℚ) evs
       let r := SimSortedRd.runSt cfg (SimSortedEst.sortedSchedEst (exCons ℚ) 1000 cfg (exAlgo ℚ) (exEst ℚ)) 10 0
         (Sim.init cfg)
       r.1.2 == none && r.2 == 5 && r.1.1.core.iter == 5 &&
         r.1.1.pilots.rows == [[12, 12, 12, 12, 0], [0, 8, 8, 0, 0]] &&
         (r.1.1.evs.map fun e => (e.delivered, e.requested)) == [(52 / 125, 3), (52 / 125, 1), (104 / 375, 2)] &&
         (match proportionDeliveredSim r.1.1 with | .ok p => p == 208 / 1125 | .error _ => false)
     | .error _ => false) = true := by
  decide +kernel

end exec

/-- statement 2 APPLIED (over ℝ): for the example network and documents every hypothesis of `pipeline_sorted_safe`
    is discharged — whatever `get_evs` returned, at every fuel the run with the sorted algorithm and the stateful
    estimator has raised no `InvalidRate` -/
example [HasCeilNat ℝ] (evs : List (Ev ℝ))
    (h : getEvs (exStart ℝ) (exDocs ℝ) (exNet ℝ).period 208 (6656 / 1000) (some 12) defaultParams false = .ok evs)
    (n : Nat) :
    (SimSortedRd.runSt (pipelineCfg (exNet ℝ) evs)
      (SimSortedEst.sortedSchedEst (exCons ℝ) 1000 (pipelineCfg (exNet ℝ) evs) (exAlgo ℝ) (exEst ℝ)) n 0
      (Sim.init (pipelineCfg (exNet ℝ) evs))).1.2 ≠ some .invalidRate := by
  refine (pipeline_sorted_safe (exNet ℝ) (exCons ℝ) 1000 (exAlgo ℝ) (exEst ℝ) 0 (exStart ℝ) 208 (6656 / 1000) (some 12)
    defaultParams false (exDocs ℝ) evs (by norm_num [exStart]) (by simp [exNet]) (by simp [StationsNodup, exNet])
    ?_ ?_ (by norm_num [exNet]) ?_ (by norm_num [exAlgo]) (exDocsOk ℝ) (by simp [exNet]) (by simp [exNet]) rfl
    (by intro ht; cases ht) (by norm_num) ?_ h).1 n
  · intro st hst
    simp only [exNet, List.mem_cons, List.not_mem_nil, or_false] at hst
    rcases hst with rfl | rfl
    · refine ⟨rfl, ?_, ?_⟩ <;> norm_num
    · refine ⟨by simp, ?_⟩
      intro a ha
      simp only [List.mem_cons, List.not_mem_nil, or_false] at ha
      rcases ha with rfl | rfl | rfl | rfl | rfl <;> norm_num
  · intro st hst
    simp only [exNet, List.mem_cons, List.not_mem_nil, or_false] at hst
    rcases hst with rfl | rfl <;> norm_num
  · refine ⟨?_, ?_, ?_⟩ <;> simp [exNet]
  · intro d hd
    simp only [exDocs, List.mem_cons, List.not_mem_nil, or_false] at hd
    rcases hd with rfl | rfl | rfl <;> norm_num

/-- the example pipeline over ℝ is a well-formed configuration in C07's sense, with C03's battery invariant -/
theorem exCfgOk (evs : List (Ev ℝ))
    (h : getEvs (exStart ℝ) (exDocs ℝ) (exNet ℝ).period 208 (6656 / 1000) (some 12) defaultParams false = .ok evs) :
    CfgOk (pipelineCfg (exNet ℝ) evs) 1000 ∧
    ∀ e ∈ (pipelineCfg (exNet ℝ) evs).evs, BattAlg.Inv e.batt ∧ e.delivered ≤ e.requested := by
  have hp : (0 : ℝ) < (exNet ℝ).period := by norm_num [exNet]
  obtain ⟨_, hids, _⟩ := pipeline_valid (exNet ℝ) (exStart ℝ) 208 (6656 / 1000) (some 12) defaultParams false (exDocs ℝ)
    evs hp (exDocsOk ℝ) (by simp [exNet]) (by simp [exNet]) h
  have hbat := pipeline_batteries (exStart ℝ) (exNet ℝ).period 208 (6656 / 1000) (some 12) defaultParams false
    (exDocs ℝ) evs hp rfl (by intro ht; cases ht) (by norm_num)
    (by intro d hd
        simp only [exDocs, List.mem_cons, List.not_mem_nil, or_false] at hd
        rcases hd with rfl | rfl | rfl <;> norm_num)
    (exDocsOk ℝ).periods_apart (exDocsOk ℝ).cap_pos h
  refine ⟨⟨by simp [StationsNodup, pipelineCfg, exNet], by simp [pipelineCfg, exNet], ?_, ?_, hp, ?_, ?_⟩, ?_⟩
  · intro st hst
    simp only [pipelineCfg, exNet, List.mem_cons, List.not_mem_nil, or_false] at hst
    rcases hst with rfl | rfl
    · refine ⟨rfl, ?_, ?_⟩ <;> norm_num
    · refine ⟨by simp, ?_⟩
      intro a ha
      simp only [List.mem_cons, List.not_mem_nil, or_false] at ha
      rcases ha with rfl | rfl | rfl | rfl | rfl <;> norm_num
  · intro st hst
    simp only [pipelineCfg, exNet, List.mem_cons, List.not_mem_nil, or_false] at hst
    rcases hst with rfl | rfl <;> norm_num
  · refine ⟨?_, ?_, ?_⟩ <;> simp [pipelineCfg, exNet]
  · show (evs.map (·.session)).Nodup
    rw [hids]; exact (exDocsOk ℝ).ids
  · intro e he
    obtain ⟨⟨b1, b2, b3, b4, b5, b6⟩, b7, _⟩ := hbat e he
    exact ⟨⟨b1, b2, b3, b4, b5, b6⟩, b7⟩

/-- statement 3 (`simple_acn`) APPLIED: the example pipeline on `simple_acn(["CA-1", "CA-2"], 208 V, 10 kW)` — every
    column the sorted algorithm applies draws at most 10 kW plus the declared tolerance -/
example [HasCeilNat ℝ] (evs : List (Ev ℝ))
    (h : getEvs (exStart ℝ) (exDocs ℝ) (exNet ℝ).period 208 (6656 / 1000) (some 12) defaultParams false = .ok evs)
    (n : Nat) (s : State ℝ)
    (hrun : (SimSortedRd.runSt (pipelineCfg (exNet ℝ) evs)
      (SimSortedEst.sortedSchedEst (simpleNetInfo ["CA-1", "CA-2"].length 208 10 (1 / 100000) (1 / 10000000)) 1000
        (pipelineCfg (exNet ℝ) evs) (exAlgo ℝ) (exEst ℝ)) n 0 (Sim.init (pipelineCfg (exNet ℝ) evs))).1 = (s, none))
    (τ : Nat) (hτ : τ < s.core.iter) :
    208 * (colOf s.pilots (pipelineCfg (exNet ℝ) evs).stations.length τ).sum / 1000
      ≤ 10 + 208 * max (1 / 100000) (1 / 10000000 * (10 / 208 * 1000)) / 1000 :=
  pipeline_simple_acn_cap ["CA-1", "CA-2"] 208 10 (1 / 100000) (1 / 10000000) (by norm_num) (by norm_num)
    (by norm_num) (pipelineCfg (exNet ℝ) evs) 1000 (exCfgOk evs h).1 rfl (exAlgo ℝ) (by norm_num [exAlgo])
    (exCfgOk evs h).2 (exEst ℝ) 0 n s hrun τ hτ

/-- eight continuous 0–32 A stations in the station order of the generated Office001 topology, one EV -/
noncomputable def exSiteCfg : Sim.Cfg ℝ :=
  { stations := [⟨"S0", .cont 0 (some 32), 208⟩, ⟨"S1", .cont 0 (some 32), 208⟩, ⟨"S2", .cont 0 (some 32), 208⟩,
                 ⟨"S3", .cont 0 (some 32), 208⟩, ⟨"S4", .cont 0 (some 32), 208⟩, ⟨"S5", .cont 0 (some 32), 208⟩,
                 ⟨"S6", .cont 0 (some 32), 208⟩, ⟨"S7", .cont 0 (some 32), 208⟩],
    evs := [{ session := "x", station := "S3", arrival := 0, departure := 5, estDeparture := 5, requested := 10,
              delivered := 0, rate := 0, batt := ⟨20, 0, 0, 7, 0, false, 0, 0, .continuous⟩ }],
    recomputes := [], maxRecompute := some 1, period := 5, atolCont := 1 / 1000, atolDeadband := 1 / 1000,
    atolFinite := 1 / 1000, fullEps := 1 / 1000, noise := [] }

/-- statement 3 (sites) APPLIED: Office001 as generated (`topo2`, 8 stations, one 50 kW transformer, r = √3) — every
    hypothesis of `pipeline_site_ratings` is discharged for `exSiteCfg` -/
example [HasCeilNat ℝ] (n : Nat) (s : State ℝ)
    (hrun : (SimSortedRd.runSt exSiteCfg (SimSortedEst.sortedSchedEst
      (siteNetInfo Gen.Sites.topo2 (Real.sqrt 3) (1 / 100000) (1 / 10000000) [50]) 1000 exSiteCfg (exAlgo ℝ)
      (exEst ℝ)) n 0 (Sim.init exSiteCfg)).1 = (s, none))
    (τ : Nat) (hτ : τ < s.core.iter) (xf : Gen.Sites.Xfmr) (hxf : xf ∈ Gen.Sites.topo2.xfmrs) :
    ∃ k ops, Sites.xfmrCap Gen.Sites.topo2 xf = some (k, ops) ∧
      120 * Real.sqrt 3 * Sites.groupSum xf.sec.evses (colOf s.pilots exSiteCfg.stations.length τ)
        ≤ ([50] : List ℝ).getD k 0 * 1000 +
          360 * Feas.tolOf (1 / 100000) (1 / 10000000) (([50] : List ℝ).getD k 0 * 1000 / 360) := by
  refine pipeline_site_ratings Gen.Sites.topo2 (by simp [Gen.Sites.topos]) (Real.sqrt 3) (1 / 100000) (1 / 10000000)
    (Real.mul_self_sqrt (by norm_num)) (by norm_num) [50] (by intro c hc; simp at hc; rw [hc]; norm_num)
    exSiteCfg 1000 ⟨by simp [StationsNodup, exSiteCfg], by simp [exSiteCfg], ?_, ?_, by norm_num [exSiteCfg], ?_,
      by simp [exSiteCfg]⟩ (by decide) (exAlgo ℝ) (by norm_num [exAlgo]) ?_ (exEst ℝ) 0 n s hrun τ hτ xf hxf
  · intro st hst
    simp only [exSiteCfg, List.mem_cons, List.not_mem_nil, or_false] at hst
    rcases hst with rfl | rfl | rfl | rfl | rfl | rfl | rfl | rfl <;> (refine ⟨rfl, ?_, ?_⟩ <;> norm_num)
  · intro st hst
    simp only [exSiteCfg, List.mem_cons, List.not_mem_nil, or_false] at hst
    rcases hst with rfl | rfl | rfl | rfl | rfl | rfl | rfl | rfl <;> norm_num
  · refine ⟨?_, ?_, ?_⟩ <;> simp [exSiteCfg]
  · intro e he
    simp only [exSiteCfg, List.mem_cons, List.not_mem_nil, or_false] at he
    subst he
    exact ⟨⟨by norm_num, by norm_num, by norm_num, by norm_num, by norm_num, by norm_num⟩, by norm_num⟩

end examples

end Acn.Capstone
