/-
  C03 — physical bounds: 0 ≤ actual rate ≤ pilot, power ≤ max power, the stored charge never
  decreases and never exceeds capacity — for every battery model, every state, every
  non-negative pilot, every noise level and every noise draw, along every history.

  Property theorems only (helpers: `Lemmas/Battery*.lean`).  Carriers: an arbitrary linear
  ordered field `K` for the ideal and the stepwise calculation; ℝ (`HasExp ℝ = Real.exp`) for
  the continuous calculation and for everything that dispatches as `Battery.charge` does.

  Preconditions are the guards the code has / what a reachable state satisfies
  (`BattAlg.Inv`: capacity > 0, charge ≤ capacity, init ≤ capacity, maxPower ≥ 0, 0 ≤ ts < 1;
  note that `0 ≤ charge` is NOT needed).  Inputs the code rejects: `V ≤ 0` or `T ≤ 0`
  (`ValueError`), and for the continuous calculation a non-zero pilot with zero maximum power
  (Python's float division raises `ZeroDivisionError`; the model returns `.zeroDivision`
  instead of totalising `0/0`).  In every error case nothing has been written to the state.
-/
import AcnProofs.Lemmas.BatteryReal
import AcnModel.EvseRun

namespace Acn.C03
open Acn Acn.Battery Acn.BattAlg Acn.BattReal Acn.Evse

section field
variable {K : Type} [Field K] [LinearOrder K] [IsStrictOrderedRing K]

/-- ideal battery: the call returns, and
    `0 ≤ rate ≤ pilot ∧ 0 ≤ power ≤ maxPower ∧ charge ≤ charge' ≤ capacity` -/
theorem ideal_bounds {b : Batt K} (hb : Inv b) {pilot V T : K} (hV : 0 < V) (hT : 0 < T)
    (hp : 0 ≤ pilot) :
    ∃ b' r, idealCharge b pilot V T = .ok (b', r) ∧ StepBounds b pilot b' r ∧ Inv b' := by
  obtain ⟨h0, h1, h2, h3⟩ := idealPower_bounds hb hp hV hT
  have hr := rate_bounds hV h0 h1
  have hc := charge_bounds hT h0 h3
  refine ⟨_, _, idealCharge_ok b pilot hV hT, ⟨hr.1, hr.2, h0, h2, hc.1, hc.2⟩, ?_⟩
  exact hb.of_sameParams ⟨rfl, rfl, rfl, rfl, rfl, rfl, rfl⟩ hc.2

/-- stepwise two-stage battery: the same bounds for EVERY noise draw `ν` and noise level,
    in both SoC branches (below / above the transition SoC) -/
theorem stepwise_bounds {b : Batt K} (hb : Inv b) (ν : K) {pilot V T : K} (hV : 0 < V)
    (hT : 0 < T) (hp : 0 ≤ pilot) :
    ∃ b' r, stepCharge b pilot V T ν = .ok (b', r) ∧ StepBounds b pilot b' r ∧ Inv b' := by
  obtain ⟨h0, h1, h2, h3⟩ := stepPower_bounds hb ν hp hV hT
  have hr := rate_bounds hV h0 h1
  have hc := charge_bounds hT h0 h3
  refine ⟨_, _, stepCharge_ok b pilot ν hV hT hb.cap_pos.ne', ⟨hr.1, hr.2, h0, h2, hc.1, hc.2⟩, ?_⟩
  exact hb.of_sameParams ⟨rfl, rfl, rfl, rfl, rfl, rfl, rfl⟩ hc.2

/-- the error branch of the ideal and stepwise calculations: exactly `V ≤ 0 ∨ T ≤ 0` -/
theorem ideal_stepwise_reject (b : Batt K) (pilot ν : K) {V T : K} (h : V ≤ 0 ∨ T ≤ 0) :
    idealCharge b pilot V T = .error .valueError ∧ stepCharge b pilot V T ν = .error .valueError :=
  ⟨idealCharge_err b pilot h, stepCharge_err b pilot ν h⟩

/-- constructor guards: a constructed two-stage battery satisfies the invariant, and the
    constructor fails exactly when `init > capacity ∨ ts < 0 ∨ ts ≥ 1` -/
theorem constructor_guard (cap init maxp noise ts : K) (c : Calc) (hc : 0 < cap) (hm : 0 ≤ maxp) :
    (∀ b, mkTwoStage cap init maxp noise ts c = .ok b → Inv b) ∧
    (mkTwoStage cap init maxp noise ts c = .error .valueError ↔ cap < init ∨ ts < 0 ∨ 1 ≤ ts) ∧
    (∀ b, mkIdeal cap init maxp = .ok b → Inv b) ∧
    (mkIdeal cap init maxp = .error .valueError ↔ cap < init) := by
  refine ⟨?_, ?_, ?_, ?_⟩
  · intro b h
    unfold mkTwoStage at h
    split_ifs at h with h1 h2 h3
    simp only [Except.ok.injEq] at h; subst h
    exact ⟨hc, not_lt.mp h1, not_lt.mp h1, hm, not_lt.mp h2, not_le.mp h3⟩
  · unfold mkTwoStage
    split_ifs with h1 h2 h3 <;> simp [*]
  · intro b h
    unfold mkIdeal at h
    split_ifs at h with h1
    simp only [Except.ok.injEq] at h; subst h
    exact ⟨hc, not_lt.mp h1, not_lt.mp h1, hm, le_refl _, zero_lt_one⟩
  · unfold mkIdeal
    split_ifs with h1 <;> simp [*]

end field

/-! ### the continuous calculation (ℝ) -/

/-- closed form of `_charge`, noise-free, in SoC units, all three regimes (pre-rampdown,
    crossing, rampdown): the SoC gain lies in `[0, min pilot_dsoc max_dsoc]` and the SoC stays
    `≤ 1` -/
theorem continuous_bounds {s ts pd0 md : ℝ} (hmd : 0 < md) (hpd : 0 < pd0) (hts : ts < 1)
    (hs : s ≤ 1) :
    s ≤ contSoc s ts pd0 md ∧ contSoc s ts pd0 md - s ≤ min pd0 md ∧ contSoc s ts pd0 md ≤ 1 :=
  contSoc_bounds hmd hpd hts hs

/-- the continuous calculation with noise, EVERY draw `ν` (and every noise level): the call
    returns and all bounds hold.  (False on the original tree — finding F1, the unclamped
    subtractive noise; true for the repaired code, whose clamp the model follows.) -/
theorem continuous_bounds_noise {b : Batt ℝ} (hb : Inv b) (hm : 0 < b.maxPower) (ν : ℝ)
    {pilot V T : ℝ} (hV : 0 < V) (hT : 0 < T) (hp : 0 ≤ pilot) :
    ∃ b' r, contCharge b pilot V T ν = .ok (b', r) ∧ StepBounds b pilot b' r ∧ Inv b' := by
  obtain ⟨b', r, h, hs, hsp⟩ := contCharge_bounds hb hm ν hV hT hp
  exact ⟨b', r, h, hs, hb.of_sameParams hsp hs.charge_le_cap⟩

/-- why the clamp is needed (finding F1, the code before commit 234ccf3): whenever the scaled
    draw exceeds the pilot's SoC rate, the unclamped `curr_soc − |scaled_noise|` lies strictly
    below the SoC the call started from — negative rate, falling charge -/
theorem noise_clamp_needed {s ts pd0 md x : ℝ} (hmd : 0 < md) (hpd : 0 < pd0) (hts : ts < 1)
    (hs : s ≤ 1) (hx : min pd0 md < |x|) : contSoc s ts pd0 md - |x| < s := by
  have := (contSoc_bounds hmd hpd hts hs).2.1
  linarith

/-- the error branches of `Battery.charge` / `Linear2StageBattery.charge`: `ValueError` for
    `V ≤ 0 ∨ T ≤ 0`, whatever the battery, pilot and draw; and conversely the call returns
    under the guards (for the continuous calculation with a non-zero pilot also
    `maxPower > 0`) -/
theorem charge_rejects_and_returns (b : Batt ℝ) (pilot ν V T : ℝ) :
    (V ≤ 0 ∨ T ≤ 0 → charge b pilot V T ν = .error .valueError) ∧
    (Inv b → 0 < V → 0 < T →
      (0 < b.maxPower ∨ pilot = 0 ∨ b.twoStage = false ∨ b.cmode = .stepwise) →
      ∃ b' r, charge b pilot V T ν = .ok (b', r)) :=
  ⟨charge_rejects b pilot ν, fun hb hV hT hm => charge_total hb ν hV hT hm⟩

/-- every call that returns — any battery kind, noise level, draw, voltage, period — keeps
    the bounds and the invariant -/
theorem charge_bounds_all {b : Batt ℝ} (hb : Inv b) {pilot V T ν : ℝ} (hp : 0 ≤ pilot)
    {b' : Batt ℝ} {r : ℝ} (h : charge b pilot V T ν = .ok (b', r)) :
    StepBounds b pilot b' r ∧ Inv b' := by
  obtain ⟨hs, hsp⟩ := charge_ok_bounds hb hp h
  exact ⟨hs, hb.of_sameParams hsp hs.charge_le_cap⟩

/-- **the invariant `charge ≤ capacity` is preserved by every call, hence the bounds hold at
    every call of ANY history** of `charge` (non-negative pilots; arbitrary voltages, periods
    and noise draws — calls the code rejects leave the state alone) and `reset` calls.
    Induction over the operation list. -/
theorem bounds_along_history (ops : List (Op ℝ)) :
    ∀ b : Batt ℝ, Inv b → (∀ o ∈ ops, OpAdmissible o) → HistoryOK b ops := by
  induction ops with
  | nil => intro b _ _; trivial
  | cons o os ih =>
    intro b hb hops
    have ho := hops o (List.mem_cons_self ..)
    have hos : ∀ o' ∈ os, OpAdmissible o' := fun o' h => hops o' (List.mem_cons_of_mem _ h)
    unfold HistoryOK
    cases h : applyOp b o with
    | error e => exact ih b hb hos
    | ok x =>
      obtain ⟨b', r⟩ := x
      obtain ⟨h1, h2, h3⟩ := applyOp_ok hb ho h
      exact ⟨h1, h2, h3, ih b' h2 hos⟩

/-- consequence for the states visited: along any history every state satisfies the
    invariant (in particular `charge ≤ capacity`) -/
theorem states_along_history (ops : List (Op ℝ)) :
    ∀ b : Batt ℝ, Inv b → (∀ o ∈ ops, OpAdmissible o) → ∀ x ∈ runOps b ops, Inv x.1 := by
  induction ops with
  | nil => intro b _ _ x hx; simp [runOps] at hx
  | cons o os ih =>
    intro b hb hops x hx
    have ho := hops o (List.mem_cons_self ..)
    have hos : ∀ o' ∈ os, OpAdmissible o' := fun o' h => hops o' (List.mem_cons_of_mem _ h)
    unfold runOps at hx
    cases h : applyOp b o with
    | error e =>
      rw [h] at hx
      rcases List.mem_cons.mp hx with rfl | hx
      · exact hb
      · exact ih b hb hos x hx
    | ok y =>
      obtain ⟨b', r⟩ := y
      rw [h] at hx
      have hb' := (applyOp_ok hb ho h).2.1
      rcases List.mem_cons.mp hx with rfl | hx
      · exact hb'
      · exact ih b' hb' hos x hx

/-- through `EV.charge` (ev.py:130-144): the rate the EV records lies in `[0, pilot]`, the
    delivered energy grows by exactly `rate·V/1000·T/60 ≥ 0`, the battery keeps its invariant -/
theorem ev_rate_le_pilot {e e' : Ev ℝ} (hb : Inv e.batt) {pilot V T ν : ℝ} (hp : 0 ≤ pilot)
    (h : e.charge pilot V T ν = .ok e') :
    0 ≤ e'.rate ∧ e'.rate ≤ pilot ∧ e.delivered ≤ e'.delivered ∧
    e'.delivered = e.delivered + e'.rate * V / 1000 * (T / 60) ∧ Inv e'.batt := by
  unfold Ev.charge at h
  cases hc : Battery.charge e.batt pilot V T ν with
  | error x => rw [hc] at h; cases h
  | ok y =>
    obtain ⟨b', r⟩ := y
    rw [hc] at h
    simp only [Except.ok.injEq] at h; subst h
    obtain ⟨hV, hT⟩ := charge_ok_guards hc
    obtain ⟨hs, hi⟩ := charge_bounds_all hb hp hc
    have : 0 ≤ r * V / 1000 * (T / 60) := by
      have := hs.rate_nonneg; positivity
    refine ⟨hs.rate_nonneg, hs.rate_le_pilot, ?_, ?_, hi⟩
    · show e.delivered ≤ e.delivered + r * V / ((1000 : ℕ) : ℝ) * (T / ((60 : ℕ) : ℝ))
      simp only [Nat.cast_ofNat]; linarith
    · show e.delivered + r * V / ((1000 : ℕ) : ℝ) * (T / ((60 : ℕ) : ℝ)) = _
      simp only [Nat.cast_ofNat]

/-! ### through the EVSE (evse.py `BaseEVSE.set_pilot`, every EVSE class) -/

/-- through `set_pilot` with an EV connected — EVERY EVSE class (`s.kind`: continuous, deadband,
    finite rates), every acceptance tolerance: a call that returns has recorded exactly the
    commanded pilot, the rate the EV records lies in `[0, recorded pilot]`, the delivered energy
    does not fall and the battery keeps its invariant.  (What the EVSE presents to the EV is the
    commanded pilot itself, also for the pilots it accepts only within tolerance: just above 0 or
    just below the deadband end on a `DeadbandEVSE`, next to a listed rate on a
    `FiniteRatesEVSE`.) -/
theorem evse_rate_le_pilot (atol fixedAtol : ℝ) {s s' : Evse ℝ} {e : Ev ℝ} (he : s.ev = some e)
    (hb : Inv e.batt) {p V T ν : ℝ} (hp : 0 ≤ p)
    (h : setPilot atol fixedAtol s p V T ν = .ok s') :
    s'.pilot = p ∧ s'.kind = s.kind ∧
    ∃ e', s'.ev = some e' ∧ 0 ≤ e'.rate ∧ e'.rate ≤ s'.pilot ∧ e.delivered ≤ e'.delivered ∧
      Inv e'.batt := by
  unfold setPilot at h
  split at h
  · rw [he] at h
    simp only at h
    cases hc : e.charge p V T ν with
    | error x => rw [hc] at h; cases h
    | ok e' =>
      rw [hc] at h
      simp only [Except.ok.injEq] at h; subst h
      obtain ⟨h0, h1, h2, _, h4⟩ := ev_rate_le_pilot hb hp hc
      exact ⟨rfl, rfl, e', rfl, h0, h1, h2, h4⟩
  · cases h

/-- one `set_pilot` call with the state it leaves behind (`setPilotSt`): a returning call as in
    `evse_rate_le_pilot`; a failing call leaves the EV and its battery untouched, and a call
    refused with `InvalidRateError` leaves the whole EVSE untouched -/
theorem evse_call_spec (atol fixedAtol : ℝ) {s : Evse ℝ} {e : Ev ℝ} (he : s.ev = some e)
    (hb : Inv e.batt) {c : PilotCall ℝ} (hp : 0 ≤ c.p) :
    ((setPilotSt atol fixedAtol s c).2 = none →
      (setPilotSt atol fixedAtol s c).1.pilot = c.p ∧
      ∃ e', (setPilotSt atol fixedAtol s c).1.ev = some e' ∧ 0 ≤ e'.rate ∧ e'.rate ≤ c.p ∧
        e.delivered ≤ e'.delivered ∧ Inv e'.batt) ∧
    ((setPilotSt atol fixedAtol s c).2 ≠ none → (setPilotSt atol fixedAtol s c).1.ev = some e) ∧
    (∀ x, (setPilotSt atol fixedAtol s c).2 = some x → x = .invalidRate →
      (setPilotSt atol fixedAtol s c).1 = s) := by
  unfold setPilotSt
  cases h : setPilot atol fixedAtol s c.p c.V c.T c.ν with
  | ok s' =>
    obtain ⟨h1, _, e', h3, h4, h5, h6, h7⟩ := evse_rate_le_pilot atol fixedAtol he hb hp h
    refine ⟨fun _ => ⟨h1, e', h3, h4, h1 ▸ h5, h6, h7⟩, fun hne => absurd rfl hne, ?_⟩
    intro x hx; cases hx
  | error err =>
    cases err with
    | invalidRate =>
      refine ⟨fun hn => (by cases hn), fun _ => he, fun _ _ _ => rfl⟩
    | stationOccupied =>
      refine ⟨fun hn => (by cases hn), fun _ => he, ?_⟩
      intro x hx hi; subst hi; cases hx
    | valueError =>
      refine ⟨fun hn => (by cases hn), fun _ => he, ?_⟩
      intro x hx hi; subst hi; cases hx

/-- **along ANY history of `set_pilot` calls** (non-negative pilots, arbitrary voltages, periods
    and noise draws, whatever the EVSE class accepts or refuses) on an EVSE whose EV's battery
    satisfies the invariant: after every call the EV is still there with the invariant, and
    after every call that returned the recorded pilot is the commanded one and
    `0 ≤ recorded rate ≤ recorded pilot`.  Induction over the call list. -/
theorem evse_bounds_along_history (atol fixedAtol : ℝ) (calls : List (PilotCall ℝ)) :
    ∀ (s : Evse ℝ) (e : Ev ℝ), s.ev = some e → Inv e.batt → (∀ c ∈ calls, 0 ≤ c.p) →
    ∀ x ∈ runPilots atol fixedAtol s calls, ∃ e', x.2.1.ev = some e' ∧ Inv e'.batt ∧
      (x.2.2 = none → x.2.1.pilot = x.1.p ∧ 0 ≤ e'.rate ∧ e'.rate ≤ x.2.1.pilot) := by
  induction calls with
  | nil => intro s e _ _ _ x hx; simp [runPilots] at hx
  | cons c cs ih =>
    intro s e he hb hcs x hx
    have hc := hcs c (List.mem_cons_self ..)
    have hrest : ∀ c' ∈ cs, 0 ≤ c'.p := fun c' h => hcs c' (List.mem_cons_of_mem _ h)
    obtain ⟨hok, herr, _⟩ := evse_call_spec atol fixedAtol he hb hc
    -- the EV after this call, with its invariant
    have hnext : ∃ e', (setPilotSt atol fixedAtol s c).1.ev = some e' ∧ Inv e'.batt := by
      cases hr : (setPilotSt atol fixedAtol s c).2 with
      | none => obtain ⟨_, e', h1, _, _, _, h5⟩ := hok hr; exact ⟨e', h1, h5⟩
      | some y => exact ⟨e, herr (by rw [hr]; simp), hb⟩
    simp only [runPilots] at hx
    rcases List.mem_cons.mp hx with rfl | hx
    · obtain ⟨e', h1, h2⟩ := hnext
      refine ⟨e', h1, h2, ?_⟩
      intro hn
      obtain ⟨hp', e'', h1', h3, h4, _, _⟩ := hok hn
      have : e'' = e' := by rw [h1'] at h1; exact Option.some.inj h1
      subst this
      exact ⟨hp', h3, hp' ▸ h4⟩
    · obtain ⟨e', h1, h2⟩ := hnext
      exact ih _ e' h1 h2 hrest x hx

/-! ### non-vacuity -/

/-- the F1 replay battery: `Linear2StageBattery(50, 40, 7, noise_level=2.0)` -/
noncomputable def f1Batt : Batt ℝ :=
  { capacity := 50, charge := 40, init := 40, maxPower := 7, power := 0, twoStage := true,
    noiseLevel := 2, ts := 4 / 5, cmode := .continuous }

example : Inv f1Batt := by constructor <;> norm_num [f1Batt]

/-- `charge(1.0, 208, 5)` on the F1 battery, whatever the draw: returns, rate in `[0, 1]`,
    charge does not fall (on the original tree: rate −15.96 A, charge 40 → 39.72) -/
example (ν : ℝ) : ∃ b' r, contCharge f1Batt 1 208 5 ν = .ok (b', r) ∧ 0 ≤ r ∧ r ≤ 1 ∧
    f1Batt.charge ≤ b'.charge := by
  obtain ⟨b', r, h, hs, _⟩ := continuous_bounds_noise (b := f1Batt)
    (by constructor <;> norm_num [f1Batt]) (by norm_num [f1Batt]) ν
    (by norm_num : (0 : ℝ) < 208) (by norm_num : (0 : ℝ) < 5) (by norm_num : (0 : ℝ) ≤ 1)
  exact ⟨b', r, h, hs.rate_nonneg, hs.rate_le_pilot, hs.charge_mono⟩

/-- the F1 input satisfies the hypothesis of `noise_clamp_needed`: the draw of seed 0,
    `3.528…`, scaled to SoC, is about 17 times the pilot's SoC rate for 1 A -/
example : min (pd0Of f1Batt 1 208 5) (mdOf f1Batt 5) < |(3.528 : ℝ) * (5 / 60) / f1Batt.capacity| := by
  have h : min (pd0Of f1Batt 1 208 5) (mdOf f1Batt 5) ≤ pd0Of f1Batt 1 208 5 := min_le_left _ _
  refine lt_of_le_of_lt h ?_
  rw [abs_of_pos (by norm_num [f1Batt])]
  norm_num [pd0Of, f1Batt]

/-- an ideal battery one kWh short of full -/
def nearFull : Batt ℚ :=
  { capacity := 40, charge := 39, init := 5, maxPower := 7, power := 0, twoStage := false,
    noiseLevel := 0, ts := 0, cmode := .continuous }

example : Inv nearFull := by constructor <;> norm_num [nearFull]

/-- the ideal battery near full: `rate_to_full` is the binding term and the rate is strictly
    between 0 and the pilot -/
example : (match idealCharge nearFull 32 208 60 with
    | .ok (b', r) => decide (b'.charge = 40 ∧ 0 < r ∧ r < 32)
    | .error _ => false) = true := by decide +kernel

/-- a history in which every kind of op occurs is admissible -/
example : ∀ o ∈ [Op.charge (16 : ℝ) 208 5 0.3, .charge 0 208 5 (-7), .charge 32 (-1) 5 0,
    .reset none, .reset (some 60)], OpAdmissible o := by
  intro o ho; simp at ho; rcases ho with rfl | rfl | rfl | rfl | rfl <;> simp [OpAdmissible]

/-- the concrete instances below use an ideal battery, which never calls `exp` -/
local instance : HasExp ℚ := ⟨fun x => x⟩

/-- a `DeadbandEVSE(deadband_end=6, max_rate=32)` with the near-full ideal battery's EV: the
    pilot `1/2000` (inside the tolerance of 0) is accepted, recorded as commanded, and the EV
    charges at no more than that -/
def dbEvse : Evse ℚ :=
  { station := "S", kind := .deadband 6 (some 32), pilot := 0,
    ev := some { session := "s", station := "S", arrival := 0, departure := 1, estDeparture := 1,
                 requested := 0, delivered := 0, rate := 0, batt := nearFull } }

example : (match setPilotSt (1 / 1000) (1 / 1000) dbEvse ⟨1 / 2000, 208, 5, 0⟩ with
    | (s', none) => decide (s'.pilot = 1 / 2000) &&
        (match s'.ev with | some e' => decide (0 < e'.rate ∧ e'.rate ≤ 1 / 2000) | none => false)
    | _ => false) = true := by decide +kernel

/-- … and `3` (inside the deadband) is refused, leaving the EVSE untouched -/
example : (match setPilotSt (1 / 1000) (1 / 1000) dbEvse ⟨3, 208, 5, 0⟩ with
    | (s', some CallErr.invalidRate) => decide (s'.pilot = 0)
    | _ => false) = true := by decide +kernel

end Acn.C03
