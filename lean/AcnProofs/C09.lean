/-
  C09 — a run interrupted by a scheduler exception at ANY period, optionally written to JSON and
  loaded back, then resumed, equals the uninterrupted run; the loaded object graph preserves sharing.

  Part 1 (crash / resume) is about the full simulator model `Acn.Sim` (events, pilots, rates, energies,
  batteries, noise stream) for an arbitrary carrier `K`, an arbitrary scheduler `sched` (a function
  of the `Interface` view that may itself fail), an arbitrary crash period `k` and arbitrary fuel.
  `Sim.failAt k sched` raises in period `k`.  Equality is `ObsEq`: every field of the state except the
  ghost list `core.invoked` (the failed call is one more entry there).

  Part 1b: the same for a scheduler WITH STATE (`SimSortedRd.runSt`: the scheduler is a state machine
  `σ → View → Except Err (Schedule × σ)`; the sorted algorithms with the `SimpleRampdown` estimator are one,
  `SimSortedRd.sortedSchedSt`).  The state is not serialised; the property's "given its scheduler again" hands
  the SAME object back.  `resume_eq_stateful` / `crash_json_resume_eq_stateful`: resuming from the failed (resp.
  decoded) simulator state with the scheduler state of the crash is the uninterrupted run, final scheduler
  state included — for every scheduler, crash period and fuel.

  Part 2 (registry) is about `Acn.Registry`: `dump` / `load` are the memoised post-order walk of
  base.py; acyclicity is given by a rank function.  For the concrete per-class codec `Acn.RegistrySim`
  (`encode` = what `to_json()` writes, `decode` = the `_from_dict`s): `decode ∘ load ∘ dump ∘ encode = id` on
  every well-formed state (`decode_encode`, `roundtrip_resume_eq`), well-formedness is an invariant of the run
  (`body_preserves_wf`, `reachable_wf`), hence `crash_json_resume_eq`: crash at ANY period, `to_json`,
  `from_json`, resume = the uninterrupted run.

  Part 2b (the TEXT): `Lawful sh rd` is no longer a hypothesis of the headline statements.  `AcnModel/JsonText.lean`
  models what CPython's `json` module writes and reads (`int.__repr__`, `null` / `true` / `false`,
  `py_encode_basestring_ascii` with every escape incl. `\u00XX` and surrogate pairs, lists, dicts, the default
  separators; `py_scanstring`, the number scanner); `json_string_roundtrip`, `json_int_roundtrip`,
  `json_value_roundtrip` prove `loads (dumps v) = v` for EVERY value built from None, bool, int, str, list, dict and
  float TEXTS; `scalar_codec_lawful` instantiates the scalar codec with it (`RegistryJson.jsonShow / jsonRead`) and
  proves `Lawful` from the ONE remaining, named assumption about doubles `DoubleText.RoundTrip` (`float(repr(x)) = x`
  and `repr(x)` is a float token); `roundtrip_resume_eq_concrete`, `crash_json_resume_eq_concrete(_stateful)` are the
  property with that codec, the document text included (`registry_text_roundtrip`).

  Part 3: the regenerated attribute tables (`Gen/Serial.lean`): every stateful attribute is dumped
  and every dumped key is restored, with an explicit allow-list.
-/
import AcnProofs.Lemmas.ResumeRun
import AcnProofs.Lemmas.ResumeSt
import AcnProofs.Lemmas.RegistryRoundtrip
import AcnProofs.Lemmas.RegistryCodec
import AcnProofs.Lemmas.RegistryDecode
import AcnProofs.Lemmas.RegistryDecode5
import AcnProofs.Lemmas.RegistryDecode6
import AcnProofs.Lemmas.RegistryDecode7
import AcnProofs.Lemmas.RegistryWF2
import AcnProofs.Lemmas.RegistryLawful
import AcnProofs.Lemmas.RegistryJsonDoc
import AcnProofs.Lemmas.RegistryJsonEx
import AcnModel.Gen.Serial

set_option linter.unusedSectionVars false

namespace Acn.C09
open Acn Acn.EventCore Acn.Sim

section Resume
variable {K : Type} [Add K] [Sub K] [Mul K] [Div K] [Neg K] [LT K] [LE K]
  [DecidableLT K] [DecidableLE K] [OfNat K 0] [OfNat K 1] [NatCast K] [HasExp K]

/-- what `ObsEq` says, field by field: pilots, rates, peak, per-EV energy / rate / battery, EVSE
    pilots, noise draws consumed, per-period occupancy, and of the core: iteration, queue,
    occupancy, `_resolve`, `_last_schedule_update`, event history, `ev_history` keys -/
theorem obsEq_fields {s t : State K} (h : ObsEq s t) :
    s.pilots = t.pilots ∧ s.rates = t.rates ∧ s.peak = t.peak ∧ s.evs = t.evs ∧ s.evsePilot = t.evsePilot ∧
    s.noiseIdx = t.noiseIdx ∧ s.occLog = t.occLog ∧ s.core.iter = t.core.iter ∧ s.core.pending = t.core.pending ∧
    s.core.occ = t.core.occ ∧ s.core.resolve = t.core.resolve ∧ s.core.lastUpd = t.core.lastUpd ∧
    s.core.eventHist = t.core.eventHist ∧ s.core.evHist = t.core.evHist := by
  have h' : withInv [] s = withInv [] t := h
  have e1 := congrArg State.pilots h'
  have e2 := congrArg State.rates h'
  have e3 := congrArg State.peak h'
  have e4 := congrArg State.evs h'
  have e5 := congrArg State.evsePilot h'
  have e6 := congrArg State.noiseIdx h'
  have e7 := congrArg State.occLog h'
  have e8 := congrArg (fun x : State K => x.core.iter) h'
  have e9 := congrArg (fun x : State K => x.core.pending) h'
  have e10 := congrArg (fun x : State K => x.core.occ) h'
  have e11 := congrArg (fun x : State K => x.core.resolve) h'
  have e12 := congrArg (fun x : State K => x.core.lastUpd) h'
  have e13 := congrArg (fun x : State K => x.core.eventHist) h'
  have e14 := congrArg (fun x : State K => x.core.evHist) h'
  exact ⟨e1, e2, e3, e4, e5, e6, e7, e8, e9, e10, e11, e12, e13, e14⟩

/-- After a `body` that was aborted by the (injected) scheduler failure in period `k`, the state `s'`
    has nothing due (`get_current_events` returns `[]`), still needs a schedule, still passes the
    loop guard (also when the queue has just become empty: the repaired guard is
    `pending ≠ [] ∨ resolve`, F7), and re-running `body` with the working scheduler gives what the
    un-failed `body` gives.  Premise on the state: `NoOverdue` (preserved by every period, true
    initially for well-formed sessions — `resume_eq`). -/
theorem failed_body_idempotent_prefix (cfg : Sim.Cfg K) (sched : View K → Except EventCore.Err (Schedule K)) (k : Nat)
    (s : State K) (hI : NoOverdue cfg.core s.core) (hk : s.core.iter = k) (hg : EventCore.guard s.core = true)
    (hfired : body cfg (failAt k sched) s ≠ body cfg sched s) :
    let s' := (body cfg (failAt k sched) s).1
    (body cfg (failAt k sched) s).2 = some EventCore.Err.schedulerFailed ∧
    (popCurrent s'.core.iter s'.core.pending).1 = [] ∧
    needsSched cfg.maxRecompute s'.core = true ∧
    EventCore.guard s'.core = true ∧
    ObsEqR (body cfg sched s') (body cfg sched s) := by
  rcases body_failAt_eq cfg sched hk with h | ⟨s1, he, hn, hb⟩
  · exact absurd h hfired
  · obtain ⟨h1, h2, h3, h4⟩ := body_retry cfg sched hI he
    rw [hb]
    exact ⟨rfl, h1, by rw [h2]; exact hn, h3 hg, h4⟩

/-- RESUME, for EVERY crash period `k` (including the one in which the queue becomes empty) and every
    fuel `n`: either the failure never fires (the scheduler is not invoked in period `k`, or the run
    ends earlier) and the run is literally the uninterrupted one, or the run aborts in period `k`
    with `SchedulerFailed` and calling `run` again — `k` periods of fuel are already used up —
    yields the uninterrupted run's outcome: same error (if any) and `ObsEq` state. -/
theorem resume_eq (cfg : Sim.Cfg K) (sched : View K → Except EventCore.Err (Schedule K)) (hS : SessionsOK cfg.core)
    (k n : Nat) :
    let r1 := run cfg (failAt k sched) n (Sim.init cfg)
    r1 = run cfg sched n (Sim.init cfg) ∨
    (r1.2 = some EventCore.Err.schedulerFailed ∧ r1.1.core.iter = k ∧
     ObsEqR (run cfg sched (n - k) r1.1) (run cfg sched n (Sim.init cfg))) := by
  have h0 : NoOverdue cfg.core (Sim.init cfg).core := init_noOverdue hS
  rcases resume_run cfg sched k n h0 (Nat.zero_le k) with h | ⟨h1, h2, _, h4⟩
  · exact Or.inl h
  · exact Or.inr ⟨h1, h2, by simpa [Sim.init, EventCore.init] using h4⟩

/-- a finished run stays finished with more fuel -/
theorem run_fuel_mono (cfg : Sim.Cfg K) (sched : View K → Except EventCore.Err (Schedule K)) :
    ∀ (n m : Nat) (s : State K), n ≤ m →
      ((run cfg sched n s).2.isSome = true ∨ EventCore.guard (run cfg sched n s).1.core = false) →
      run cfg sched m s = run cfg sched n s
  | 0, 0, _, _, _ => rfl
  | 0, m + 1, s, _, h => by
    simp only [Sim.run] at h ⊢
    rcases h with h | h
    · simp at h
    · simp [h]
  | n + 1, 0, _, h, _ => absurd h (by omega)
  | n + 1, m + 1, s, hle, h => by
    simp only [Sim.run] at h ⊢
    by_cases hg : EventCore.guard s.core = true
    · simp only [hg, if_true] at h ⊢
      rcases hb : body cfg sched s with ⟨s', _ | e⟩ <;> rw [hb] at h <;> simp only [] at h ⊢
      exact run_fuel_mono cfg sched n m s' (by omega) h
    · simp only [hg, Bool.false_eq_true, if_false]

/-- the statement of the property: if the uninterrupted run completes (fuel `n` suffices, no error),
    then for EVERY `k` the run with a scheduler failure in period `k`, resumed by a second `run`
    with the same fuel, completes with the same pilots, rates, peak, energies, battery states,
    event history, ev_history, iteration (`obsEq_fields`). -/
theorem resume_eq_complete (cfg : Sim.Cfg K) (sched : View K → Except EventCore.Err (Schedule K)) (hS : SessionsOK cfg.core)
    (n : Nat) (sF : State K) (hrun : run cfg sched n (Sim.init cfg) = (sF, none)) (hdone : EventCore.guard sF.core = false)
    (k : Nat) :
    let r1 := run cfg (failAt k sched) n (Sim.init cfg)
    r1 = (sF, none) ∨
    (r1.2 = some EventCore.Err.schedulerFailed ∧ r1.1.core.iter = k ∧
     ∃ sR, run cfg sched n r1.1 = (sR, none) ∧ EventCore.guard sR.core = false ∧ ObsEq sR sF) := by
  rcases resume_eq cfg sched hS k n with h | ⟨h1, h2, h3⟩
  · exact Or.inl (h.trans hrun)
  · right
    refine ⟨h1, h2, ?_⟩
    rw [hrun] at h3
    set r1 := run cfg (failAt k sched) n (Sim.init cfg) with hr1
    have hgd : EventCore.guard (run cfg sched (n - k) r1.1).1.core = false := by
      rw [Sim.guard_obs h3.1.symm]; exact hdone
    have hm := run_fuel_mono cfg sched (n - k) n r1.1 (Nat.sub_le n k) (Or.inr hgd)
    rcases hres : run cfg sched (n - k) r1.1 with ⟨sR, e⟩
    rw [hres] at h3 hgd hm
    simp only [] at h3 hgd
    obtain ⟨h31, h32⟩ := h3
    simp only [] at h32
    subst h32
    exact ⟨sR, hm, hgd, h31⟩


/-! ### a scheduler with state (hidden in the algorithm object, not serialised) -/

/-- RESUME with a STATEFUL scheduler (`SimSortedRd.runSt`; e.g. a sorted algorithm with its `SimpleRampdown`
    estimator, `SimSortedRd.sortedSchedSt`), for EVERY scheduler `sched`, initial scheduler state `st0`, crash
    period `k` and fuel `n`: either the failure never fires and the run is literally the uninterrupted one, or it
    aborts in period `k` with `SchedulerFailed`, and running again from the failed simulator state WITH THE
    SCHEDULER STATE AT THE CRASH (`r1.2`: what the surviving algorithm object holds — `run()` again, or
    `update_scheduler` with the same object after a load) yields the uninterrupted run's outcome: same error (if
    any), `ObsEq` simulator state, and the SAME final scheduler state. -/
theorem resume_eq_stateful {σ : Type} (cfg : Sim.Cfg K)
    (sched : σ → View K → Except EventCore.Err (Schedule K × σ)) (hS : SessionsOK cfg.core) (st0 : σ) (k n : Nat) :
    let r1 := SimSortedRd.runSt cfg (SimSortedRd.failAtSt k sched) n st0 (Sim.init cfg)
    let r := SimSortedRd.runSt cfg sched n st0 (Sim.init cfg)
    r1 = r ∨
    (r1.1.2 = some EventCore.Err.schedulerFailed ∧ r1.1.1.core.iter = k ∧
     ObsEqR (SimSortedRd.runSt cfg sched (n - k) r1.2 r1.1.1).1 r.1 ∧
     (SimSortedRd.runSt cfg sched (n - k) r1.2 r1.1.1).2 = r.2) := by
  have h0 : NoOverdue cfg.core (Sim.init cfg).core := init_noOverdue hS
  rcases SimSortedRd.resume_runSt cfg sched k n st0 h0 (Nat.zero_le k) with h | ⟨h1, h2, _, h4⟩
  · exact Or.inl h
  · refine Or.inr ⟨h1, h2, ?_⟩
    have h4' : SimSortedRd.ObsEqRS
        (SimSortedRd.runSt cfg sched (n - k) (SimSortedRd.runSt cfg (SimSortedRd.failAtSt k sched) n st0 (Sim.init cfg)).2
          (SimSortedRd.runSt cfg (SimSortedRd.failAtSt k sched) n st0 (Sim.init cfg)).1.1)
        (SimSortedRd.runSt cfg sched n st0 (Sim.init cfg)) := by
      simpa [Sim.init, EventCore.init] using h4
    exact ⟨h4'.1, h4'.2⟩

/-- … in particular for the scheduler the driver runs: the modelled sorted algorithm / round robin WITH its
    `SimpleRampdown` estimator (`SimSortedRd.sortedSchedSt`; state = the estimator object with its per-session
    bounds), from any estimator state `rd0` -/
example [IntCast K] [Sorted.HasCeilNat K] (net : SimSorted.NetInfo K) (inf : K) (cfg : Sim.Cfg K)
    (scfg : Sorted.Config K) (hS : SessionsOK cfg.core) (rd0 : Sorted.Rampdown K) (k n : Nat) :
    let sched := SimSortedRd.sortedSchedSt net inf cfg scfg
    let r1 := SimSortedRd.runSt cfg (SimSortedRd.failAtSt k sched) n rd0 (Sim.init cfg)
    let r := SimSortedRd.runSt cfg sched n rd0 (Sim.init cfg)
    r1 = r ∨
    (r1.1.2 = some EventCore.Err.schedulerFailed ∧ r1.1.1.core.iter = k ∧
     ObsEqR (SimSortedRd.runSt cfg sched (n - k) r1.2 r1.1.1).1 r.1 ∧
     (SimSortedRd.runSt cfg sched (n - k) r1.2 r1.1.1).2 = r.2) :=
  resume_eq_stateful cfg (SimSortedRd.sortedSchedSt net inf cfg scfg) hS rd0 k n

/-! ### non-vacuity: one event of each kind pending at the crash; the crash fires, also in the LAST period (F7) -/
section Examples
local instance : HasExp ℚ := ⟨fun _ => 1⟩

private def exBatt : Battery.Batt ℚ :=
  { capacity := 40, charge := 5, init := 5, maxPower := 7, power := 0, twoStage := false, noiseLevel := 0,
    ts := 4/5, cmode := .continuous }
private def exEv (id st : String) (a d : Int) : Evse.Ev ℚ :=
  { session := id, station := st, arrival := a, departure := d, estDeparture := d, requested := 10,
    delivered := 0, rate := 0, batt := exBatt }
private def exCfg : Sim.Cfg ℚ :=
  { stations := [⟨"S0", .cont 0 (some 32), 208⟩, ⟨"S1", .cont 0 (some 32), 208⟩],
    evs := [exEv "a" "S0" 0 3, exEv "b" "S1" 1 2], recomputes := [(2, "r0")], maxRecompute := none,
    period := 5, atolCont := 1/1000, atolDeadband := 1/1000, atolFinite := 1/1000, fullEps := 1/1000, noise := [] }
private def exSched : View ℚ → Except EventCore.Err (Schedule ℚ) := scripted [(1, some [("S0", [8, 9, 10])])] [("S1", [16])]

example : SessionsOK exCfg.core := ⟨by decide, by decide⟩
-- the failure fires mid-run (plug-in, unplug and recompute events all pending) …
example : (run exCfg (failAt 1 exSched) 6 (Sim.init exCfg)).2 = some EventCore.Err.schedulerFailed := by decide +kernel
example : ((run exCfg (failAt 1 exSched) 6 (Sim.init exCfg)).1.core.pending.map (·.kind)) =
    [.recompute, .unplug, .unplug] := by decide +kernel
-- … and in the last period, when the queue is already empty (the old F7 scenario)
example : (run exCfg (failAt 3 exSched) 6 (Sim.init exCfg)).2 = some EventCore.Err.schedulerFailed ∧
    (run exCfg (failAt 3 exSched) 6 (Sim.init exCfg)).1.core.pending = [] ∧
    EventCore.guard (run exCfg (failAt 3 exSched) 6 (Sim.init exCfg)).1.core = true := by decide +kernel
-- the uninterrupted run completes with this fuel, and so does the resumed one, in the same period
example : (run exCfg exSched 6 (Sim.init exCfg)).2 = none ∧
    EventCore.guard (run exCfg exSched 6 (Sim.init exCfg)).1.core = false ∧
    (run exCfg exSched 6 (Sim.init exCfg)).1.core.iter = 4 := by decide +kernel
example : (run exCfg exSched 6 (run exCfg (failAt 3 exSched) 6 (Sim.init exCfg)).1).1.core.iter = 4 ∧
    (run exCfg exSched 6 (run exCfg (failAt 3 exSched) 6 (Sim.init exCfg)).1).1.pilots.rows =
      (run exCfg exSched 6 (Sim.init exCfg)).1.pilots.rows := by decide +kernel
-- a scheduler WITH hidden state (a call counter: S0's pilot is 8 + the number of earlier calls): the failure in
-- period 1 fires with the counter at 1; resumed with THAT state the pilots are the uninterrupted run's, and the
-- final counters agree (`resume_eq_stateful`); resumed with a FRESH scheduler (counter 0) they are not — the
-- state of the surviving object is what the statement is about
private def exSchedSt : Nat → View ℚ → Except EventCore.Err (Schedule ℚ × Nat) :=
  fun c _ => .ok ([("S0", [(8 : ℚ) + (c : ℚ)]), ("S1", [16])], c + 1)
example : (SimSortedRd.runSt exCfg (SimSortedRd.failAtSt 1 exSchedSt) 6 0 (Sim.init exCfg)).1.2 = some EventCore.Err.schedulerFailed ∧
    (SimSortedRd.runSt exCfg (SimSortedRd.failAtSt 1 exSchedSt) 6 0 (Sim.init exCfg)).2 = 1 := by decide +kernel
example : (SimSortedRd.runSt exCfg exSchedSt 6 1
      (SimSortedRd.runSt exCfg (SimSortedRd.failAtSt 1 exSchedSt) 6 0 (Sim.init exCfg)).1.1).1.1.pilots.rows =
    (SimSortedRd.runSt exCfg exSchedSt 6 0 (Sim.init exCfg)).1.1.pilots.rows ∧
    (SimSortedRd.runSt exCfg exSchedSt 6 1
      (SimSortedRd.runSt exCfg (SimSortedRd.failAtSt 1 exSchedSt) 6 0 (Sim.init exCfg)).1.1).2 =
    (SimSortedRd.runSt exCfg exSchedSt 6 0 (Sim.init exCfg)).2 := by decide +kernel
example : (SimSortedRd.runSt exCfg exSchedSt 6 0
      (SimSortedRd.runSt exCfg (SimSortedRd.failAtSt 1 exSchedSt) 6 0 (Sim.init exCfg)).1.1).1.1.pilots.rows ≠
    (SimSortedRd.runSt exCfg exSchedSt 6 0 (Sim.init exCfg)).1.1.pilots.rows := by decide +kernel
end Examples

end Resume

/-! ## the registry -/

section Reg
open Acn.Registry

/-- `to_json` enters every object reachable from the root exactly once, with the store's attributes,
    children before parents (the context is closed under references) -/
theorem dump_each_object_once {st : Store} {root : Id} (hac : Acyclic st) (hcl : Closed st root) :
    ∃ ctx, dump st root = .ok ctx ∧ ctx.keys.Nodup ∧ (∀ j, j ∈ ctx.keys ↔ Reach st root j) ∧
      (∀ j, Reach st root j → ctx.get j = st.get j) ∧
      (∀ i o, (i, o) ∈ ctx → ∀ j ∈ o.refs, j ∈ ctx.keys) := by
  obtain ⟨ctx, h, hs⟩ := dump_spec hac hcl
  exact ⟨ctx, h, hs.ok.nodup, hs.reach, hs.same, hs.ok.closed⟩

/-- ROUND TRIP: for an acyclic heap, `load (dump st root)` succeeds and is `st ↾ reachable root` —
    the same ids, the same `(class, attributes)` under each id, nothing else — in fact it is the
    dumped context itself, entry by entry and in the same order. -/
theorem roundtrip_store {st : Store} {root : Id} (hac : Acyclic st) (hcl : Closed st root) :
    ∃ ctx, dump st root = .ok ctx ∧ load ctx root = .ok ctx ∧
      (∀ j, j ∈ ctx.keys ↔ Reach st root j) ∧ (∀ j, Reach st root j → ctx.get j = st.get j) := by
  obtain ⟨ctx, h, hs⟩ := dump_spec hac hcl
  exact ⟨ctx, h, load_dump hac h hs, hs.reach, hs.same⟩

/-- SHARING: in the loaded graph every reachable id is ONE object — it sits at exactly one position of
    the `loaded_dict` — and two references denote the same loaded object iff they were the same
    object before (`addr` = position of the entry). -/
theorem sharing_preserved {st : Store} {root : Id} (hac : Acyclic st) (hcl : Closed st root) :
    ∃ loaded, (dump st root).bind (fun ctx => load ctx root) = .ok loaded ∧
      (∀ (a : Id) (k1 k2 : Nat), loaded.keys[k1]? = some a → loaded.keys[k2]? = some a → k1 = k2) ∧
      (∀ a b, Reach st root a → Reach st root b → (addr loaded a = addr loaded b ↔ a = b)) ∧
      (∀ a, Reach st root a → (addr loaded a).isSome = true) := by
  obtain ⟨ctx, h, hs⟩ := dump_spec hac hcl
  refine ⟨ctx, by rw [h]; exact load_dump hac h hs, ?_, ?_, ?_⟩
  · intro a k1 k2 h1 h2
    exact position_unique hs.ok.nodup h1 h2
  · intro a b ha hb
    exact addr_eq_iff ((hs.reach a).2 ha) ((hs.reach b).2 hb)
  · intro a ha
    have hm := (hs.reach a).2 ha
    have : ctx.keys.idxOf a < ctx.length := by
      have := List.idxOf_lt_length_of_mem hm; simpa [Store.keys] using this
    simp [addr, this]

/-
  Full statement: with the concrete per-class codec `encode : Sim.State K → Store`,
  `decode : Store → Id → Option (Sim.State K)` of simulator.py / charging_network.py / evse.py / ev.py /
  battery.py / event.py / event_queue.py,
      decode (load (dump (encode s))) root = some s,
  hence `run cfg sched n (decode …) = run cfg sched n s` — PROVED below as `roundtrip_resume_eq` (for the
  concrete `RegistrySim.encode` / `RegistrySim.decode`, every well-formed state).
  This theorem (kept: it is the codec-independent half): the statement for EVERY codec that reads only objects
  reachable from the root and inverts `encode`.
-/
theorem roundtrip_resume_eq_partial {K : Type} [Add K] [Sub K] [Mul K] [Div K] [Neg K] [LT K] [LE K]
    [DecidableLT K] [DecidableLE K] [OfNat K 0] [OfNat K 1] [NatCast K] [HasExp K]
    (cfg : Sim.Cfg K) (sched : View K → Except EventCore.Err (Schedule K))
    (encode : State K → Store) (decode : Store → Id → Option (State K)) (root : Id)
    (hlocal : ∀ st st', (∀ j, Reach st root j → st'.get j = st.get j) → decode st' root = decode st root)
    (hinv : ∀ s, decode (encode s) root = some s)
    (s : State K) (hac : Acyclic (encode s)) (hcl : Closed (encode s) root) :
    ∃ ctx, dump (encode s) root = .ok ctx ∧ load ctx root = .ok ctx ∧ decode ctx root = some s ∧
      ∀ n, (decode ctx root).map (run cfg sched n) = some (run cfg sched n s) := by
  obtain ⟨ctx, h1, h2, _, h4⟩ := roundtrip_store hac hcl
  have : decode ctx root = some s := by rw [hlocal (encode s) ctx h4, hinv]
  exact ⟨ctx, h1, h2, this, fun n => by rw [this]; rfl⟩

/-! ### the concrete codec (`AcnModel/RegistrySim.lean`, tied to `to_json()` by the correspondence) -/

/-- The store that the model writes for ANY simulator state — Simulator → network → EVSEs → EV →
    battery, queue → events → the same EVs, ev_history, event_history — is acyclic and closed, so
    `to_json` then `from_json` reproduces it: every object once, same attributes, and the EV of a
    session is ONE loaded object however many references (station, ev_history, pending and past
    events) lead to it.  No hypothesis on the state. -/
theorem encode_roundtrip {K : Type} (sh : RegistrySim.Show K) (cfg : Sim.Cfg K) (s : State K) :
    ∃ ctx, dump (RegistrySim.encode sh cfg s) RegistrySim.root = .ok ctx ∧ load ctx RegistrySim.root = .ok ctx ∧
      ctx.keys.Nodup ∧
      (∀ j, j ∈ ctx.keys ↔ Reach (RegistrySim.encode sh cfg s) RegistrySim.root j) ∧
      (∀ j, Reach (RegistrySim.encode sh cfg s) RegistrySim.root j →
        ctx.get j = some (RegistrySim.objAt sh cfg s j)) ∧
      (∀ a b, Reach (RegistrySim.encode sh cfg s) RegistrySim.root a →
        Reach (RegistrySim.encode sh cfg s) RegistrySim.root b → (addr ctx a = addr ctx b ↔ a = b)) := by
  have hac := RegistrySim.encode_acyclic sh cfg s
  have hcl := RegistrySim.encode_closed sh cfg s
  obtain ⟨ctx, h, hs⟩ := dump_spec hac hcl
  refine ⟨ctx, h, load_dump hac h hs, hs.ok.nodup, hs.reach, ?_, ?_⟩
  · intro j hj
    rw [hs.same j hj, RegistrySim.get_encode,
      if_pos (RegistrySim.reach_lt sh cfg s (RegistrySim.root_lt cfg s) hj)]
  · intro a b ha hb
    exact addr_eq_iff ((hs.reach a).2 ha) ((hs.reach b).2 hb)

/-
  Full statement `roundtrip_resume_eq` (PROVED below): for the decoder that follows the `_from_dict`s,
      decode (load (dump (encode cfg s))) = some s   (for well-formed s: every event's / occupant's
      session has an EV object), hence the resumed runs are equal.
  This theorem (kept): the two store-level hypotheses of `roundtrip_resume_eq_partial` (acyclic, closed) hold
  for the CONCRETE `encode`, for every state; the decoder is still a parameter here.  That `encode` is what the
  code writes is checked against `to_json()` on every crash point (harness/props/C09.py `_codec_diffs`).
-/
theorem roundtrip_resume_eq_codec_partial {K : Type} [Add K] [Sub K] [Mul K] [Div K] [Neg K] [LT K] [LE K]
    [DecidableLT K] [DecidableLE K] [OfNat K 0] [OfNat K 1] [NatCast K] [HasExp K]
    (sh : RegistrySim.Show K) (cfg : Sim.Cfg K) (sched : View K → Except EventCore.Err (Schedule K))
    (decode : Store → Id → Option (State K))
    (hlocal : ∀ st st', (∀ j, Reach st RegistrySim.root j → st'.get j = st.get j) →
      decode st' RegistrySim.root = decode st RegistrySim.root)
    (hinv : ∀ s, decode (RegistrySim.encode sh cfg s) RegistrySim.root = some s) (s : State K) :
    ∃ ctx, dump (RegistrySim.encode sh cfg s) RegistrySim.root = .ok ctx ∧ load ctx RegistrySim.root = .ok ctx ∧
      decode ctx RegistrySim.root = some s ∧
      ∀ n, (decode ctx RegistrySim.root).map (run cfg sched n) = some (run cfg sched n s) :=
  roundtrip_resume_eq_partial cfg sched (RegistrySim.encode sh cfg) decode RegistrySim.root hlocal hinv s
    (RegistrySim.encode_acyclic sh cfg s) (RegistrySim.encode_closed sh cfg s)

/-
  Full statement (PROVED below: `decode_encode`, `roundtrip_resume_eq`, and for every reachable state
  `reachable_wf`, `crash_json_resume_eq`): `RegistrySim.decode rd cfg amb ctx.get = some s` for the loaded store
  `ctx`, under WF(s): every occupant and every plug-in / unplug event resolves to an EV object, `evsePilot` and
  `evs` have the configured lengths, every EV object is referenced.  The decoder is executable and is also checked
  on every crash point in both directions (model state: `codec_inverse`; the implementation's own
  `context_dict`: decoded, the model run continued from it and compared with the implementation's resumed
  run).  This theorem (kept): the slice that carries the numbers of the property — after `to_json` →
  `from_json`, the decoder recovers the complete EV list (per session: energy delivered, last rate, battery
  charge and power, all static fields) from the loaded store, for every lawful scalar codec.
-/
theorem roundtrip_evs_decoded_partial {K : Type} {sh : RegistrySim.Show K} {rd : RegistrySim.Read K}
    (hl : RegistrySim.Lawful sh rd) (cfg : Sim.Cfg K) (s : State K)
    (hall : ∀ i, i < (RegistrySim.layout cfg s).size → Reach (RegistrySim.encode sh cfg s) RegistrySim.root i) :
    ∃ ctx, dump (RegistrySim.encode sh cfg s) RegistrySim.root = .ok ctx ∧ load ctx RegistrySim.root = .ok ctx ∧
      RegistrySim.sequence ((List.range s.evs.length).map fun j =>
        RegistrySim.decodeEv rd ctx.get (3 + cfg.stations.length + 2 * j)) = some s.evs := by
  obtain ⟨ctx, h1, h2, _, _, h5, _⟩ := encode_roundtrip sh cfg s
  exact ⟨ctx, h1, h2, RegistrySim.decode_evs hl cfg s ctx.get (fun i hi => h5 i (hall i hi))⟩

/-! ### the concrete decoder inverts the concrete encoder (FULL statement) -/

/-- DECODE ∘ ENCODE = id.  For every carrier, every lawful scalar codec (`Lawful`: the parsers invert the
    renderings), every configuration and EVERY well-formed simulator state `s`, the executable decoder
    `RegistrySim.decode` (the `_from_dict`s, run by the compiled driver against the implementation's own
    `context_dict`) applied to the store that `RegistrySim.encode` writes (compared with `to_json()` on every check
    run) returns `s` — all fields: iteration, queue, occupancy FUNCTION, `_resolve`, `_last_schedule_update`, both
    histories, pilot and rate matrices, peak, every EV with its battery, the EVSE pilots.
    `WF` (AcnProofs/Lemmas/RegistryDecode2.lean) is what the proof needs and no more: `evs` / `evsePilot` have the
    configured lengths, only registered stations are occupied, an occupant is the EV object of its session, and every
    plug-in / unplug event and `ev_history` key has an EV object.  `ambOf s` is the process-level data that does
    not travel through JSON (scheduler-call log, position in the random stream, occupancy log). -/
theorem decode_encode {K : Type} {sh : RegistrySim.Show K} {rd : RegistrySim.Read K}
    (hl : RegistrySim.Lawful sh rd) (cfg : Sim.Cfg K) (s : State K) (hwf : RegistrySim.WF cfg s) :
    RegistrySim.decode rd cfg (RegistrySim.ambOf s) (RegistrySim.encode sh cfg s).get = some s :=
  RegistrySim.decode_of hl hwf _ (fun i hi => by rw [RegistrySim.get_encode, if_pos hi])

/-- the same for ANY process-level data: decoding under `amb` gives the state with exactly those three ghost /
    process fields replaced (`setAmb`) -/
theorem decode_encode_amb {K : Type} {sh : RegistrySim.Show K} {rd : RegistrySim.Read K}
    (hl : RegistrySim.Lawful sh rd) (cfg : Sim.Cfg K) (s : State K) (hwf : RegistrySim.WF cfg s)
    (amb : RegistrySim.Ambient) :
    RegistrySim.decode rd cfg amb (RegistrySim.encode sh cfg s).get =
      some { s with core := { s.core with invoked := amb.invoked }, noiseIdx := amb.noiseIdx, occLog := amb.occLog } :=
  RegistrySim.decode_of_amb hl hwf amb _ (fun i hi => by rw [RegistrySim.get_encode, if_pos hi])

/-- `WF` is EXACTLY the set of states on which the concrete decoder inverts the concrete encoder: none of its
    clauses can be dropped (an over-long `evs`, an occupant of an unregistered station, an occupant record that
    differs from its EV object, an EV event or `ev_history` key without EV object — each makes `decode` fail or
    return a different state). -/
theorem decode_encode_iff {K : Type} {sh : RegistrySim.Show K} {rd : RegistrySim.Read K}
    (hl : RegistrySim.Lawful sh rd) (cfg : Sim.Cfg K) (s : State K) :
    RegistrySim.decode rd cfg (RegistrySim.ambOf s) (RegistrySim.encode sh cfg s).get = some s ↔
      RegistrySim.WF cfg s :=
  ⟨fun h => RegistrySim.wf_of_decode hl (RegistrySim.ambOf s) _
      (fun i hi => by rw [RegistrySim.get_encode, if_pos hi]) h,
   decode_encode hl cfg s⟩

/-- ROUND TRIP + RESUME, unconditional in the decoder: for every well-formed state in which every EV object is
    referenced (`AllRef`: by `ev_history`, an EV event in the queue or in `event_history`, or a station — an
    unreferenced EV is not written by `to_json`), `to_json` succeeds, `from_json` rebuilds exactly the dumped
    context, the CONCRETE decoder applied to the LOADED store returns `s`, and hence every continuation of the run
    from the decoded state is the continuation from `s` — for every scheduler and fuel. -/
theorem roundtrip_resume_eq {K : Type} [Add K] [Sub K] [Mul K] [Div K] [Neg K] [LT K] [LE K]
    [DecidableLT K] [DecidableLE K] [OfNat K 0] [OfNat K 1] [NatCast K] [HasExp K]
    {sh : RegistrySim.Show K} {rd : RegistrySim.Read K} (hl : RegistrySim.Lawful sh rd)
    (cfg : Sim.Cfg K) (sched : View K → Except EventCore.Err (Schedule K)) (s : State K)
    (hwf : RegistrySim.WF cfg s) (href : RegistrySim.AllRef cfg s) :
    ∃ ctx, dump (RegistrySim.encode sh cfg s) RegistrySim.root = .ok ctx ∧ load ctx RegistrySim.root = .ok ctx ∧
      RegistrySim.decode rd cfg (RegistrySim.ambOf s) ctx.get = some s ∧
      ∀ n, (RegistrySim.decode rd cfg (RegistrySim.ambOf s) ctx.get).map (run cfg sched n) =
        some (run cfg sched n s) := by
  obtain ⟨ctx, h1, h2, _, _, h5, _⟩ := encode_roundtrip sh cfg s
  have hd : RegistrySim.decode rd cfg (RegistrySim.ambOf s) ctx.get = some s :=
    RegistrySim.decode_of hl hwf ctx.get (fun i hi => h5 i (RegistrySim.reach_all sh cfg s href i hi))
  exact ⟨ctx, h1, h2, hd, fun n => by rw [hd]; rfl⟩

/-- the hypotheses of `roundtrip_resume_eq` are NECESSARY: whenever the concrete decoder, applied to the context
    that `to_json` writes for `s`, returns `s`, the state is well-formed and every EV object is referenced.  So
    `WF ∧ AllRef` is exactly the set of states that survive `to_json` → `from_json`. -/
theorem roundtrip_iff {K : Type} {sh : RegistrySim.Show K} {rd : RegistrySim.Read K}
    (hl : RegistrySim.Lawful sh rd) (cfg : Sim.Cfg K) (s : State K) :
    (∃ ctx, dump (RegistrySim.encode sh cfg s) RegistrySim.root = .ok ctx ∧
        RegistrySim.decode rd cfg (RegistrySim.ambOf s) ctx.get = some s) ↔
      (RegistrySim.WF cfg s ∧ RegistrySim.AllRef cfg s) := by
  constructor
  · rintro ⟨ctx, hd, h⟩
    have href : RegistrySim.AllRef cfg s := RegistrySim.allRef_of_roundtrip hd h rfl
    obtain ⟨ctx', h1, _, _, _, h5, _⟩ := encode_roundtrip sh cfg s
    rw [hd] at h1
    cases h1
    exact ⟨RegistrySim.wf_of_decode hl (RegistrySim.ambOf s) ctx.get
      (fun i hi => h5 i (RegistrySim.reach_all sh cfg s href i hi)) h, href⟩
  · rintro ⟨hwf, href⟩
    obtain ⟨ctx, h1, _, _, _, h5, _⟩ := encode_roundtrip sh cfg s
    exact ⟨ctx, h1, RegistrySim.decode_of hl hwf ctx.get
      (fun i hi => h5 i (RegistrySim.reach_all sh cfg s href i hi))⟩

/-- `WF` is an invariant: ONE period of the full model, whatever the scheduler and the pilot application do
    (return, raise `SchedulerFailed`, reject the schedule, `InvalidRateError`, …), keeps `SInv` — static EV data
    fixed, one pilot per EVSE, every reference resolvable in the session table, every session referenced —
    provided the events stage itself does not raise (a raising `_process_event` drops the events popped after
    it, and with them the last reference to their EVs: then `to_json` really loses those EVs). -/
theorem body_preserves_wf {K : Type} [Add K] [Sub K] [Mul K] [Div K] [Neg K] [LT K] [LE K]
    [DecidableLT K] [DecidableLE K] [OfNat K 0] [OfNat K 1] [NatCast K] [HasExp K]
    (cfg : Sim.Cfg K) (sched : View K → Except EventCore.Err (Schedule K)) {s : State K}
    (h : RegistrySim.SInv cfg s) (hid : (cfg.core.sessions.map (·.id)).Nodup)
    (hok : (EventCore.eventsStage cfg.core s.core).2 = none) :
    RegistrySim.SInv cfg (body cfg sched s).1 ∧ RegistrySim.WF cfg (body cfg sched s).1 ∧
      RegistrySim.AllRef cfg (body cfg sched s).1 := by
  have hb := RegistrySim.body_sinv cfg sched h hid hok
  exact ⟨hb, hb.wf hid, hb.allRef hid⟩

/-- EVERY state that `Simulator.run` can leave behind in a `Valid` scenario (C01's hypothesis) — completed, out of
    fuel, or aborted in any period by the scheduler, by `_update_schedules` or by `update_pilots` — is
    well-formed and has every EV referenced: for every scheduler and every fuel. -/
theorem reachable_wf {K : Type} [Add K] [Sub K] [Mul K] [Div K] [Neg K] [LT K] [LE K]
    [DecidableLT K] [DecidableLE K] [OfNat K 0] [OfNat K 1] [NatCast K] [HasExp K]
    (cfg : Sim.Cfg K) (sched : View K → Except EventCore.Err (Schedule K)) (hv : Valid cfg.core) (n : Nat) :
    RegistrySim.WF cfg (run cfg sched n (Sim.init cfg)).1 ∧ RegistrySim.AllRef cfg (run cfg sched n (Sim.init cfg)).1 := by
  have h := RegistrySim.run_sinv cfg sched hv n 0 (Sim.init cfg) (init_inv hv) (RegistrySim.init_sinv cfg)
  exact ⟨h.wf hv.ids_nodup, h.allRef hv.ids_nodup⟩

/-- THE PROPERTY, JSON half included: in a `Valid` scenario, for EVERY crash period `k`, fuel `n`, scheduler and
    lawful scalar codec, the state `r1.1` left by the interrupted run can be written (`to_json`), loaded
    (`from_json`) and decoded, the decoded state IS `r1.1`, and either the failure never fired (the run is the
    uninterrupted one) or resuming from the DECODED state yields the uninterrupted run's outcome (`ObsEqR`: same
    error if any, same pilots, rates, peak, energies, batteries, histories, iteration — `obsEq_fields`). -/
theorem crash_json_resume_eq {K : Type} [Add K] [Sub K] [Mul K] [Div K] [Neg K] [LT K] [LE K]
    [DecidableLT K] [DecidableLE K] [OfNat K 0] [OfNat K 1] [NatCast K] [HasExp K]
    {sh : RegistrySim.Show K} {rd : RegistrySim.Read K} (hl : RegistrySim.Lawful sh rd)
    (cfg : Sim.Cfg K) (sched : View K → Except EventCore.Err (Schedule K)) (hv : Valid cfg.core) (k n : Nat) :
    let r1 := run cfg (failAt k sched) n (Sim.init cfg)
    ∃ ctx s', dump (RegistrySim.encode sh cfg r1.1) RegistrySim.root = .ok ctx ∧
      load ctx RegistrySim.root = .ok ctx ∧
      RegistrySim.decode rd cfg (RegistrySim.ambOf r1.1) ctx.get = some s' ∧ s' = r1.1 ∧
      (r1 = run cfg sched n (Sim.init cfg) ∨
       (r1.2 = some EventCore.Err.schedulerFailed ∧ r1.1.core.iter = k ∧
        ObsEqR (run cfg sched (n - k) s') (run cfg sched n (Sim.init cfg)))) := by
  intro r1
  obtain ⟨hwf, href⟩ := reachable_wf cfg (failAt k sched) hv n
  obtain ⟨ctx, h1, h2, h3, _⟩ := roundtrip_resume_eq hl cfg sched r1.1 hwf href
  refine ⟨ctx, r1.1, h1, h2, h3, rfl, ?_⟩
  have hS : SessionsOK cfg.core := ⟨hv.ids_nodup, fun x hx => ⟨hv.arr_nonneg x hx, hv.arr_lt_dep x hx⟩⟩
  exact resume_eq cfg sched hS k n

/-- `reachable_wf` for a scheduler with state: every state `runSt` can leave behind is well-formed -/
theorem reachable_wf_stateful {K : Type} [Add K] [Sub K] [Mul K] [Div K] [Neg K] [LT K] [LE K]
    [DecidableLT K] [DecidableLE K] [OfNat K 0] [OfNat K 1] [NatCast K] [HasExp K] {σ : Type}
    (cfg : Sim.Cfg K) (sched : σ → View K → Except EventCore.Err (Schedule K × σ)) (hv : Valid cfg.core)
    (n : Nat) (st0 : σ) :
    RegistrySim.WF cfg (SimSortedRd.runSt cfg sched n st0 (Sim.init cfg)).1.1 ∧
    RegistrySim.AllRef cfg (SimSortedRd.runSt cfg sched n st0 (Sim.init cfg)).1.1 := by
  have h := RegistrySim.runSt_sinv cfg sched hv n 0 st0 (Sim.init cfg) (init_inv hv) (RegistrySim.init_sinv cfg)
  exact ⟨h.wf hv.ids_nodup, h.allRef hv.ids_nodup⟩

/-- THE PROPERTY for a scheduler WITH STATE, JSON half included: in a `Valid` scenario, for EVERY stateful
    scheduler (e.g. a sorted algorithm with its `SimpleRampdown` estimator), initial scheduler state, crash period
    `k`, fuel `n` and lawful scalar codec, the simulator state `r1.1.1` left by the interrupted run can be written
    (`to_json`), loaded (`from_json`) and decoded, the decoded state IS `r1.1.1`, and either the failure never
    fired, or resuming from the DECODED state with the scheduler state of the crash (`update_scheduler` with the
    same algorithm object — the scheduler is not part of the document) yields the uninterrupted run's outcome
    and final scheduler state. -/
theorem crash_json_resume_eq_stateful {K : Type} [Add K] [Sub K] [Mul K] [Div K] [Neg K] [LT K] [LE K]
    [DecidableLT K] [DecidableLE K] [OfNat K 0] [OfNat K 1] [NatCast K] [HasExp K] {σ : Type}
    {sh : RegistrySim.Show K} {rd : RegistrySim.Read K} (hl : RegistrySim.Lawful sh rd)
    (cfg : Sim.Cfg K) (sched : σ → View K → Except EventCore.Err (Schedule K × σ)) (hv : Valid cfg.core)
    (st0 : σ) (k n : Nat) :
    let r1 := SimSortedRd.runSt cfg (SimSortedRd.failAtSt k sched) n st0 (Sim.init cfg)
    let r := SimSortedRd.runSt cfg sched n st0 (Sim.init cfg)
    ∃ ctx s', dump (RegistrySim.encode sh cfg r1.1.1) RegistrySim.root = .ok ctx ∧
      load ctx RegistrySim.root = .ok ctx ∧
      RegistrySim.decode rd cfg (RegistrySim.ambOf r1.1.1) ctx.get = some s' ∧ s' = r1.1.1 ∧
      (r1 = r ∨
       (r1.1.2 = some EventCore.Err.schedulerFailed ∧ r1.1.1.core.iter = k ∧
        ObsEqR (SimSortedRd.runSt cfg sched (n - k) r1.2 s').1 r.1 ∧
        (SimSortedRd.runSt cfg sched (n - k) r1.2 s').2 = r.2)) := by
  intro r1 r
  obtain ⟨hwf, href⟩ := reachable_wf_stateful cfg (SimSortedRd.failAtSt k sched) hv n st0
  obtain ⟨ctx, h1, h2, h3, _⟩ := roundtrip_resume_eq hl cfg (fun _ => .error EventCore.Err.schedulerFailed) r1.1.1 hwf href
  refine ⟨ctx, r1.1.1, h1, h2, h3, rfl, ?_⟩
  have hS : SessionsOK cfg.core := ⟨hv.ids_nodup, fun x hx => ⟨hv.arr_nonneg x hx, hv.arr_lt_dep x hx⟩⟩
  exact resume_eq_stateful cfg sched hS st0 k n

/-! #### non-vacuity: the crash state of `exCfg` above (plug-in, unplug and recompute events pending, one station
    occupied, one EV referenced only by its pending PluginEvent) -/
section ExamplesWF
local instance : HasExp ℚ := ⟨fun _ => 1⟩

theorem exCfg_valid : Valid exCfg.core := by
  constructor <;> simp [exCfg, exEv, Sim.Cfg.core, sessionOf]

example : RegistrySim.WF exCfg (run exCfg (failAt 1 exSched) 6 (Sim.init exCfg)).1 ∧
    RegistrySim.AllRef exCfg (run exCfg (failAt 1 exSched) 6 (Sim.init exCfg)).1 :=
  reachable_wf exCfg (failAt 1 exSched) exCfg_valid 6
-- the state is not trivial: session `a` is connected, `b`'s plug-in has been processed in period 1 too
example : ((run exCfg (failAt 1 exSched) 6 (Sim.init exCfg)).1.core.occ "S0").map (·.id) = some "a" ∧
    (run exCfg (failAt 1 exSched) 6 (Sim.init exCfg)).1.core.evHist = ["a", "b"] ∧
    (run exCfg (failAt 1 exSched) 6 (Sim.init exCfg)).1.core.eventHist.length = 2 := by decide +kernel
-- a lawful scalar codec exists (over ℚ), so the whole chain applies to the crash state above: written, loaded,
-- decoded by the concrete decoder, resumed
example : RegistrySim.Lawful RegistrySim.exShow RegistrySim.exRead := RegistrySim.exLawful
example : ∃ ctx s', dump (RegistrySim.encode RegistrySim.exShow exCfg (run exCfg (failAt 1 exSched) 6 (Sim.init exCfg)).1)
      RegistrySim.root = .ok ctx ∧ load ctx RegistrySim.root = .ok ctx ∧
    RegistrySim.decode RegistrySim.exRead exCfg (RegistrySim.ambOf (run exCfg (failAt 1 exSched) 6 (Sim.init exCfg)).1)
      ctx.get = some s' ∧
    ObsEqR (run exCfg exSched (6 - 1) s') (run exCfg exSched 6 (Sim.init exCfg)) := by
  obtain ⟨ctx, s', h1, h2, h3, _, h5⟩ := crash_json_resume_eq RegistrySim.exLawful exCfg exSched exCfg_valid 1 6
  refine ⟨ctx, s', h1, h2, h3, ?_⟩
  rcases h5 with h5 | ⟨_, _, h5⟩
  · have : (run exCfg (failAt 1 exSched) 6 (Sim.init exCfg)).2 = some EventCore.Err.schedulerFailed := by decide +kernel
    rw [h5] at this
    have h6 : (run exCfg exSched 6 (Sim.init exCfg)).2 = none := by decide +kernel
    rw [h6] at this
    cases this
  · exact h5
-- a state that is NOT well-formed: an occupant whose session has no EV object
example : ¬ RegistrySim.WF exCfg
    { Sim.init exCfg with core := { (Sim.init exCfg).core with occ := fun _ => some ⟨"zz", "S0", 0, 1⟩ } } := by
  intro h
  have := h.occEv "S0" _ rfl
  revert this
  decide +kernel
end ExamplesWF

/-! ### the concrete scalar codec and the JSON text (`AcnModel/JsonText.lean`, `AcnModel/RegistryJson.lean`)

  Everything below is about the text that CPython's `json` module writes and reads.  The ONLY assumption left is
  about doubles: `RegistryJson.DoubleText.RoundTrip d` — `float(repr(x)) = x` (IEEE-754 shortest round-trip
  printing, correctly rounded reading) and `repr(x)` has the lexical shape of a float (never that of an `int`). -/

open Acn.JsonText Acn.RegistryJson in
/-- STRINGS: `py_scanstring` undoes `py_encode_basestring_ascii` for EVERY string (any `Char` sequence: quote,
    backslash, `\n \r \t \b \f`, the other control characters and DEL as `\u00XX`, non-ASCII as `\uXXXX`, characters
    beyond U+FFFF as a surrogate pair), whatever follows the closing quote; hence `loads(dumps(s)) = s`. -/
theorem json_string_roundtrip (s : String) :
    (∀ rest, scanStr none (escape s.toList ++ '"' :: rest) = some (s.toList, rest)) ∧
    parse (render (.str s)) = some (.str s) :=
  ⟨fun rest => scanStr_escape s.toList rest, parse_render (.str s) rfl⟩

open Acn.JsonText in
/-- INTEGERS: for every Python int `n` (negative ones too) the text `repr(n)` is recognised as an integer text —
    never as a float — and `int(repr(n)) = n`; through the document parser it comes back as `JVal.int n`. -/
theorem json_int_roundtrip (n : Int) :
    isIntTok (toString n).toList = true ∧ isFloatTok (toString n).toList = false ∧
    intOfTok (toString n).toList = n ∧ parse (toString n).toList = some (.int n) :=
  ⟨isIntTok_renderInt n, not_isFloatTok_renderInt n, intOfTok_renderInt n, Acn.RegistryJson.parse_renderInt n⟩

open Acn.JsonText in
/-- VALUES: `json.loads(json.dumps(v)) = v` for EVERY value built from `None`, `bool`, `int`, `str`, `list`,
    `dict` (string keys, insertion order) and float TEXTS that have the shape of a float (`v.wf`) — nested to any
    depth, with any strings as keys and leaves; also with blanks / the trailing newline of `to_json(path)` around
    the document. -/
theorem json_value_roundtrip (v : JVal) (hw : v.wf = true) :
    parse (render v) = some v ∧
    ∀ pre post : List Char, pre.all isWs = true → post.all isWs = true → parse (pre ++ (render v ++ post)) = some v :=
  ⟨parse_render v hw, fun pre post h1 h2 => parse_render_padded v hw pre post h1 h2⟩

open Acn.RegistryJson in
/-- THE SCALAR CODEC, concretely: the writers / readers that produce and consume exactly the text of CPython's
    `json` module are `Lawful` — ints of any sign, naturals, strings, `None`, and the pilot / rate matrices (a dict
    holding a list of lists of floats) with no assumption, floats by `d.RoundTrip`. -/
theorem scalar_codec_lawful {K : Type} (d : DoubleText K) (hd : d.RoundTrip) :
    RegistrySim.Lawful (jsonShow d) (jsonRead d) :=
  jsonLawful d hd

open Acn.JsonText Acn.RegistryJson in
/-- the leaves that `RegistrySim.encode` writes are typed in the document as Python types them: `str`, `int`
    (also the iteration counter), `bool`, `None`, `float` (its `repr` text), references as decimal id strings -/
theorem json_leaf_types {K : Type} (d : DoubleText K) (hd : d.RoundTrip) :
    (∀ x : String, valJ (RegistrySim.sS x) = .str x) ∧ (∀ n : Int, valJ (RegistrySim.sI n) = .int n) ∧
    (∀ n : Nat, valJ (RegistrySim.sN n) = .int n) ∧ (∀ b : Bool, valJ (RegistrySim.sB b) = .bool b) ∧
    valJ RegistrySim.sNull = .null ∧ (∀ x : K, valJ (RegistrySim.sF (jsonShow d) x) = .num (d.repr x)) ∧
    (∀ m : Pilots.Mat K, valJ (.scalar ("m:" ++ (jsonShow d).mat m)) = matJ d m) ∧
    (∀ i : Id, valJ (.ref i) = .str (toString i)) :=
  ⟨valJ_sS, valJ_sI, valJ_sN, valJ_sB, valJ_sNull, valJ_sF d hd, valJ_mat d hd, valJ_ref⟩

open Acn.JsonText Acn.RegistryJson in
/-- THE DOCUMENT: for EVERY store and root — whatever session ids, station ids, class and attribute names it
    holds — `json.loads(obj.to_json())` is the registry value that `_to_registry` built. -/
theorem registry_text_roundtrip (ctx : Store) (root : Id) :
    parseS (toJsonText ctx root) = some (registryJ ctx root) :=
  Acn.RegistryJson.registry_text_roundtrip ctx root

open Acn.JsonText Acn.RegistryJson in
/-- ROUND TRIP + RESUME with the CONCRETE codec (instance of `roundtrip_resume_eq`): the only hypothesis about
    the codec is `d.RoundTrip` (doubles).  `to_json` succeeds, the text it writes parses back to the registry it
    was written from, `from_json` rebuilds exactly the dumped context, the concrete decoder returns `s`, and every
    continuation of the run from the decoded state is the continuation from `s`. -/
theorem roundtrip_resume_eq_concrete {K : Type} [Add K] [Sub K] [Mul K] [Div K] [Neg K] [LT K] [LE K]
    [DecidableLT K] [DecidableLE K] [OfNat K 0] [OfNat K 1] [NatCast K] [HasExp K]
    (d : DoubleText K) (hd : d.RoundTrip)
    (cfg : Sim.Cfg K) (sched : View K → Except EventCore.Err (Schedule K)) (s : State K)
    (hwf : RegistrySim.WF cfg s) (href : RegistrySim.AllRef cfg s) :
    ∃ ctx, dump (RegistrySim.encode (jsonShow d) cfg s) RegistrySim.root = .ok ctx ∧
      parseS (toJsonText ctx RegistrySim.root) = some (registryJ ctx RegistrySim.root) ∧
      load ctx RegistrySim.root = .ok ctx ∧
      RegistrySim.decode (jsonRead d) cfg (RegistrySim.ambOf s) ctx.get = some s ∧
      ∀ n, (RegistrySim.decode (jsonRead d) cfg (RegistrySim.ambOf s) ctx.get).map (run cfg sched n) =
        some (run cfg sched n s) := by
  obtain ⟨ctx, h1, h2, h3, h4⟩ := roundtrip_resume_eq (jsonLawful d hd) cfg sched s hwf href
  exact ⟨ctx, h1, Acn.RegistryJson.registry_text_roundtrip ctx _, h2, h3, h4⟩

open Acn.JsonText Acn.RegistryJson in
/-- THE PROPERTY with the concrete codec: `Valid` scenario, ANY crash period `k`, fuel, scheduler; the document
    text is written and parsed by the modelled `json` module; the only assumption is `d.RoundTrip`. -/
theorem crash_json_resume_eq_concrete {K : Type} [Add K] [Sub K] [Mul K] [Div K] [Neg K] [LT K] [LE K]
    [DecidableLT K] [DecidableLE K] [OfNat K 0] [OfNat K 1] [NatCast K] [HasExp K]
    (d : DoubleText K) (hd : d.RoundTrip)
    (cfg : Sim.Cfg K) (sched : View K → Except EventCore.Err (Schedule K)) (hv : Valid cfg.core) (k n : Nat) :
    let r1 := run cfg (failAt k sched) n (Sim.init cfg)
    ∃ ctx s', dump (RegistrySim.encode (jsonShow d) cfg r1.1) RegistrySim.root = .ok ctx ∧
      parseS (toJsonText ctx RegistrySim.root) = some (registryJ ctx RegistrySim.root) ∧
      load ctx RegistrySim.root = .ok ctx ∧
      RegistrySim.decode (jsonRead d) cfg (RegistrySim.ambOf r1.1) ctx.get = some s' ∧ s' = r1.1 ∧
      (r1 = run cfg sched n (Sim.init cfg) ∨
       (r1.2 = some EventCore.Err.schedulerFailed ∧ r1.1.core.iter = k ∧
        ObsEqR (run cfg sched (n - k) s') (run cfg sched n (Sim.init cfg)))) := by
  intro r1
  obtain ⟨ctx, s', h1, h2, h3, h4, h5⟩ := crash_json_resume_eq (jsonLawful d hd) cfg sched hv k n
  exact ⟨ctx, s', h1, Acn.RegistryJson.registry_text_roundtrip ctx _, h2, h3, h4, h5⟩

open Acn.JsonText Acn.RegistryJson in
/-- … and for a scheduler WITH hidden state (instance of `crash_json_resume_eq_stateful`) -/
theorem crash_json_resume_eq_stateful_concrete {K : Type} [Add K] [Sub K] [Mul K] [Div K] [Neg K] [LT K] [LE K]
    [DecidableLT K] [DecidableLE K] [OfNat K 0] [OfNat K 1] [NatCast K] [HasExp K] {σ : Type}
    (d : DoubleText K) (hd : d.RoundTrip)
    (cfg : Sim.Cfg K) (sched : σ → View K → Except EventCore.Err (Schedule K × σ)) (hv : Valid cfg.core)
    (st0 : σ) (k n : Nat) :
    let r1 := SimSortedRd.runSt cfg (SimSortedRd.failAtSt k sched) n st0 (Sim.init cfg)
    let r := SimSortedRd.runSt cfg sched n st0 (Sim.init cfg)
    ∃ ctx s', dump (RegistrySim.encode (jsonShow d) cfg r1.1.1) RegistrySim.root = .ok ctx ∧
      parseS (toJsonText ctx RegistrySim.root) = some (registryJ ctx RegistrySim.root) ∧
      load ctx RegistrySim.root = .ok ctx ∧
      RegistrySim.decode (jsonRead d) cfg (RegistrySim.ambOf r1.1.1) ctx.get = some s' ∧ s' = r1.1.1 ∧
      (r1 = r ∨
       (r1.1.2 = some EventCore.Err.schedulerFailed ∧ r1.1.1.core.iter = k ∧
        ObsEqR (SimSortedRd.runSt cfg sched (n - k) r1.2 s').1 r.1 ∧
        (SimSortedRd.runSt cfg sched (n - k) r1.2 s').2 = r.2)) := by
  intro r1 r
  obtain ⟨ctx, s', h1, h2, h3, h4, h5⟩ := crash_json_resume_eq_stateful (jsonLawful d hd) cfg sched hv st0 k n
  exact ⟨ctx, s', h1, Acn.RegistryJson.registry_text_roundtrip ctx _, h2, h3, h4, h5⟩

/-! #### non-vacuity of the text layer -/
section ExamplesJson
open Acn.JsonText Acn.RegistryJson
local instance : HasExp ℚ := ⟨fun _ => 1⟩

-- the assumption about doubles is satisfiable (a text form of ℚ that is a float token and is read back) …
example : exDouble.RoundTrip := exDouble_roundTrip
-- … so the whole chain applies to the crash state of `exCfg` with NO hypothesis left
example : ∃ ctx s', dump (RegistrySim.encode (jsonShow exDouble) exCfg (run exCfg (failAt 1 exSched) 6 (Sim.init exCfg)).1)
      RegistrySim.root = .ok ctx ∧
    parseS (toJsonText ctx RegistrySim.root) = some (registryJ ctx RegistrySim.root) ∧
    RegistrySim.decode (jsonRead exDouble) exCfg (RegistrySim.ambOf (run exCfg (failAt 1 exSched) 6 (Sim.init exCfg)).1)
      ctx.get = some s' ∧ s' = (run exCfg (failAt 1 exSched) 6 (Sim.init exCfg)).1 := by
  obtain ⟨ctx, s', h1, h2, _, h4, h5, _⟩ := crash_json_resume_eq_concrete exDouble exDouble_roundTrip exCfg exSched exCfg_valid 1 6
  exact ⟨ctx, s', h1, h2, h4, h5⟩
-- what the encoder writes for ids that need escaping: quote, backslash, newline, NUL, DEL, é, an astral character
example : String.ofList (render (.str "a\"b\\c\n\x00\x7fé😀")) = "\"a\\\"b\\\\c\\n\\u0000\\u007f\\u00e9\\ud83d\\ude00\"" := by
  decide +kernel
-- the decoder accepts upper-case hex, `\/`, a surrogate pair, blanks; refuses a raw control character and a lone surrogate
example : (parse "  [\"\\u00E9\\/\\uD83D\\uDE00\", -12, 0, true, null, {\"\": []}] ".toList).map (fun v => String.ofList (render v)) =
    some "[\"\\u00e9/\\ud83d\\ude00\", -12, 0, true, null, {\"\": []}]" := by decide +kernel
example : parse "\"a\nb\"".toList = none ∧ parse "\"\\ud83d\"".toList = none ∧ parse "\"\\ude00\"".toList = none := by
  refine ⟨?_, ?_, ?_⟩ <;> decide +kernel
-- an id that looks like a number stays a string; an int stays an int; a float text stays a float; `5.0` is not `5`
example : (parse "[\"123\", 123, 123.0, 1e-05, NaN, -Infinity]".toList).map (fun v => String.ofList (render v)) =
    some "[\"123\", 123, 123.0, 1e-05, NaN, -Infinity]" := by decide +kernel
example : isIntTok "123.0".toList = false ∧ isFloatTok "123.0".toList = true ∧ isFloatTok "123".toList = false ∧
    isIntTok "-7".toList = true := by decide +kernel
end ExamplesJson

/-! ### non-vacuity: an EV shared by its station, `ev_history` and its pending UnplugEvent -/

private def exStore : Store :=
  [ (1, ⟨"Simulator", [("network", .ref 2), ("event_queue", .ref 3), ("_iteration", .scalar "1"),
                        ("ev_history", .list [.scalar "a", .ref 5]), ("event_history", .list [.ref 7])]⟩),
    (2, ⟨"ChargingNetwork", [("_EVSEs", .list [.scalar "S0", .ref 4])]⟩),
    (3, ⟨"EventQueue", [("_queue", .list [.scalar "3", .ref 8])]⟩),
    (4, ⟨"EVSE", [("_station_id", .scalar "S0"), ("_ev", .ref 5)]⟩),
    (5, ⟨"EV", [("_session_id", .scalar "a"), ("_battery", .ref 6)]⟩),
    (6, ⟨"Battery", [("_current_charge", .scalar "5.5")]⟩),
    (7, ⟨"PluginEvent", [("timestamp", .scalar "0"), ("ev", .ref 5)]⟩),
    (8, ⟨"UnplugEvent", [("timestamp", .scalar "3"), ("ev", .ref 5)]⟩),
    (9, ⟨"EV", [("_session_id", .scalar "garbage: not reachable")]⟩) ]

example : Acyclic exStore :=
  ⟨fun i => if i = 1 then 5 else if i = 2 then 4 else if i = 3 then 4 else if i = 4 then 3
            else if i = 7 then 3 else if i = 8 then 3 else if i = 5 then 2 else if i = 6 then 1 else 0, by
    intro i o h j hj
    have hm := mem_of_get h
    simp only [exStore, List.mem_cons, Prod.mk.injEq, List.mem_nil_iff, or_false] at hm
    rcases hm with ⟨rfl, rfl⟩ | ⟨rfl, rfl⟩ | ⟨rfl, rfl⟩ | ⟨rfl, rfl⟩ | ⟨rfl, rfl⟩ | ⟨rfl, rfl⟩ | ⟨rfl, rfl⟩ |
      ⟨rfl, rfl⟩ | ⟨rfl, rfl⟩ <;>
      simp [Obj.refs, Val.refs, Item.refs] at hj <;> (try rcases hj with rfl | rfl | rfl | rfl) <;> decide⟩
-- children first, the EV (5) once, the unreachable object (9) not at all
example : (dump exStore 1).map Store.keys = .ok [6, 5, 4, 2, 8, 3, 7, 1] := by decide +kernel
example : (dump exStore 1).bind (fun c => load c 1) = dump exStore 1 := by decide +kernel
-- without the memo the shared EV (and its battery) would be entered once per reference
example : (visitNoMemo exStore 10 1 []).map Store.keys = .ok [6, 5, 4, 2, 6, 5, 8, 3, 6, 5, 6, 5, 7, 1] := by
  decide +kernel
-- a dangling reference is the code's KeyError
example : load [(1, ⟨"EVSE", [("_ev", .ref 2)]⟩)] 1 = .error (.missing 2) := by decide +kernel

end Reg

/-! ## the regenerated attribute tables -/

/-- attributes that `__init__` sets and `_to_dict` deliberately does not write, per class, with the
    reason.  Everything else must be dumped. -/
def notDumped : List (String × String) :=
  -- contrib extension class without `_to_dict` / `_from_dict` of its own: the generic fallback of
  -- `_to_registry` dumps what is JSON-able with a UserWarning; the waiting queue (EV objects) is
  -- documented as not restorable (base.py:295-305).  Out of C09's quantifier (DESIGN §8).
  [("StochasticNetwork", "waiting_queue"), ("StochasticNetwork", "early_departure"),
   ("StochasticNetwork", "swaps"), ("StochasticNetwork", "never_charged"), ("StochasticNetwork", "early_unplug")]

/-- dumped keys that `_from_dict` deliberately does not read: none.  (`scheduler` is read — only the
    class name travels, the object is re-attached by `update_scheduler`; `signals` is read; the
    time zone of `start` is dropped by `strftime`, not by a missing key — DESIGN §8.) -/
def notRestored : List (String × String) := []

def classComplete (c : Gen.SerialClass) : Bool :=
  (c.init.all fun a => c.dumped.contains a || notDumped.contains (c.name, a)) &&
  (c.dumped.all fun a => c.restored.contains a || notRestored.contains (c.name, a)) &&
  (c.refs.all fun a => c.dumped.contains a)

/-- for every serialisable class of the working tree: every attribute assigned in `__init__` is
    written by `_to_dict`, every key written is read back by `_from_dict`, up to the allow-lists -/
theorem attrs_complete : Gen.serialClasses.all classComplete = true := by decide +kernel

/-- the table covers the classes the property quantifies over, and the allow-list is tight: each of
    its entries is really needed -/
theorem attrs_table_covers :
    (["Simulator", "ChargingNetwork", "EventQueue", "EV", "Battery", "Linear2StageBattery", "EVSE", "DeadbandEVSE",
      "FiniteRatesEVSE", "PluginEvent", "UnplugEvent", "RecomputeEvent"].all fun n =>
        Gen.serialClasses.any fun c => c.name == n) = true ∧
    (notDumped.all fun p => Gen.serialClasses.any fun c =>
        c.name == p.1 && c.init.contains p.2 && !c.dumped.contains p.2) = true := by decide +kernel

end Acn.C09
