/-
  C08 — one algorithm object, several networks.

  The modelled algorithms are FUNCTIONS of what one `schedule()` call is handed: the infrastructure view
  (`infra`, and the feasibility predicate `feas` of the constraint view), the sessions, the period / time
  and the estimator's answer (the estimator's state is the estimator's, an input).  They have no memory:
  a modelled algorithm that has served any list of earlier uses — other networks with the same station
  ids, other EVSE classes, maximum pilots, voltages, constraints, sessions — answers the next use exactly
  as if it had never been used.  This is why the harness models the last use of a multi-network case by
  an independent model call, and every clause of `AcnProofs/C08.lean` / `C08Est.lean` applies to it
  with THAT use's infrastructure.  (The implementation is held to this by the check: `_gen_multi` in
  `harness/props/C08.py`.)
-/
import AcnProofs.C08Est

set_option linter.unusedSectionVars false

namespace Acn.C08
open Acn Acn.Sorted

variable {K : Type} [Field K] [LinearOrder K] [IsStrictOrderedRing K]

/-- everything one use of an algorithm object is handed -/
structure Use (K : Type) where
  feas : List K → Bool
  infra : Infra K
  period : K
  time : Int
  est : List (Session K) → Session K → Option K
  raw : List (Session K)

/-- the sorted algorithms serving one use -/
def serve [HasCeilNat K] (cfg : Config K) (u : Use K) : OutcomeE K :=
  scheduleCallEst u.feas cfg u.infra u.period u.time u.est u.raw

/-- the uncontrolled baseline serving one use -/
def serveUncontrolled (u : Use K) : Except Sorted.Err (List (String × List K)) :=
  (resolve u.infra u.raw).map (uncontrolled u.infra)

/-- `no_memory_across_networks`: after ANY earlier uses, the answer to the use `u` is that of a first use. -/
theorem no_memory_across_networks [HasCeilNat K] (cfg : Config K) (earlier : List (Use K)) (u : Use K) :
    ((earlier ++ [u]).map (serve cfg)).getLast? = some (serve cfg u) ∧
    ((earlier ++ [u]).map serveUncontrolled).getLast? = some (serveUncontrolled u) := by
  simp

end Acn.C08
