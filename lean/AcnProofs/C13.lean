/-
  C13 — EVSEs accept exactly their allowable pilots and advertise truthful limits.

  Property theorems only.  Carrier: any linear ordered field `K` (ℚ and ℝ included).
  `atol` is the caller's tolerance (`Gen.Consts.evseAtol` = 1e-3 in the source), and
  `fa` the literal tolerance of `FiniteRatesEVSE` (also 1e-3).
-/
import AcnModel.Evse
import AcnModel.EvseNet
import AcnModel.Gen.Consts
import AcnProofs.Lemmas.Basic
import AcnProofs.Lemmas.EvseNet
import Mathlib.Tactic

namespace Acn.C13
open Acn Acn.Evse Acn.EvseNet

variable {K : Type} [Field K] [LinearOrder K] [IsStrictOrderedRing K]

/-- distance-to-interval characterisation, bounded interval -/
theorem cont_valid_iff (atol fa mn mx p : K) (hmm : mn ≤ mx) (ha : 0 ≤ atol) :
    validRate atol fa (.cont mn (some mx)) p = true ↔ ∃ q, mn ≤ q ∧ q ≤ mx ∧ |p - q| ≤ atol := by
  simp only [validRate, leBound, Bool.and_eq_true, decide_eq_true_eq]
  constructor
  · rintro ⟨h1, h2⟩
    refine ⟨max mn (min p mx), le_max_left _ _, max_le hmm (min_le_right _ _), ?_⟩
    rw [abs_le]
    constructor
    · rcases le_total p mx with h | h
      · rw [min_eq_left h]; rcases le_total mn p with h' | h'
        · rw [max_eq_right h']; linarith
        · rw [max_eq_left h']; linarith
      · rw [min_eq_right h, max_eq_right hmm]; linarith
    · rcases le_total p mx with h | h
      · rw [min_eq_left h]; rcases le_total mn p with h' | h'
        · rw [max_eq_right h']; linarith
        · rw [max_eq_left h']; linarith
      · rw [min_eq_right h, max_eq_right hmm]; linarith
  · rintro ⟨q, h1, h2, h3⟩
    rw [abs_le] at h3
    constructor <;> linarith [h3.1, h3.2]

/-- unbounded (`max_rate = inf`) interval -/
theorem cont_valid_iff_inf (atol fa mn p : K) (ha : 0 ≤ atol) :
    validRate atol fa (.cont mn none) p = true ↔ ∃ q, mn ≤ q ∧ |p - q| ≤ atol := by
  simp only [validRate, leBound, Bool.and_true, decide_eq_true_eq]
  constructor
  · intro h
    refine ⟨max mn p, le_max_left _ _, ?_⟩
    rw [abs_le]
    rcases le_total mn p with h' | h'
    · rw [max_eq_right h']; constructor <;> linarith
    · rw [max_eq_left h']; constructor <;> linarith
  · rintro ⟨q, h1, h3⟩
    rw [abs_le] at h3; linarith [h3.1, h3.2]

/-- deadband EVSE: within `atol` of `{0} ∪ [db, mx]` -/
theorem deadband_valid_iff (atol fa db mx p : K) (hmm : db ≤ mx) (ha : 0 ≤ atol) :
    validRate atol fa (.deadband db (some mx)) p = true ↔
      |p - 0| ≤ atol ∨ ∃ q, db ≤ q ∧ q ≤ mx ∧ |p - q| ≤ atol := by
  have h := cont_valid_iff atol fa db mx p hmm ha
  simp only [validRate, leBound, Bool.and_eq_true, decide_eq_true_eq] at h
  simp only [validRate, leBound, isclose0, absK_eq_abs, Bool.or_eq_true, Bool.and_eq_true,
    decide_eq_true_eq]
  rw [h]

/-- finite-rate EVSE: within `fa` of a listed level -/
theorem finite_valid_iff (atol fa : K) (rates : List K) (p : K) :
    validRate atol fa (.finite rates) p = true ↔ ∃ a ∈ rates, |p - a| ≤ fa := by
  simp [validRate, isclose0]

/-! ### normalisation of the finite list -/

theorem mem_insertUniq (x y : K) (l : List K) : y ∈ insertUniq x l ↔ y = x ∨ y ∈ l := by
  induction l with
  | nil => simp [insertUniq]
  | cons z zs ih =>
    unfold insertUniq
    split
    · simp
    · split
      · simp [ih]; tauto
      · have : x = z := le_antisymm (not_lt.mp ‹_›) (not_lt.mp ‹_›)
        subst this; simp

theorem sorted_insertUniq (x : K) (l : List K) (h : l.Pairwise (· < ·)) :
    (insertUniq x l).Pairwise (· < ·) := by
  induction l with
  | nil => simp [insertUniq]
  | cons z zs ih =>
    rw [List.pairwise_cons] at h
    unfold insertUniq
    split
    · rename_i hxz
      rw [List.pairwise_cons]
      refine ⟨?_, List.pairwise_cons.mpr h⟩
      intro a ha
      rcases List.mem_cons.mp ha with rfl | ha
      · exact hxz
      · exact lt_trans hxz (h.1 a ha)
    · split
      · rename_i hzx
        rw [List.pairwise_cons]
        refine ⟨?_, ih h.2⟩
        intro a ha
        rcases (mem_insertUniq x a zs).mp ha with rfl | ha
        · exact hzx
        · exact h.1 a ha
      · exact List.pairwise_cons.mpr h

theorem normalize_aux (l acc : List K) (h : acc.Pairwise (· < ·)) :
    (l.foldl (fun acc x => insertUniq x acc) acc).Pairwise (· < ·) ∧
    ∀ y, y ∈ l.foldl (fun acc x => insertUniq x acc) acc ↔ y ∈ acc ∨ y ∈ l := by
  induction l generalizing acc with
  | nil => simp [h]
  | cons x xs ih =>
    have := ih (insertUniq x acc) (sorted_insertUniq x acc h)
    refine ⟨this.1, fun y => ?_⟩
    rw [List.foldl_cons, this.2 y, mem_insertUniq]
    simp; tauto

/-- `sorted(set(rates) | {0})`: strictly increasing, contains 0, same set plus 0. -/
theorem normalize_spec (l : List K) :
    (Evse.normalize l).Pairwise (· < ·) ∧ (0 : K) ∈ Evse.normalize l ∧
    ∀ y, y ∈ Evse.normalize l ↔ y = 0 ∨ y ∈ l := by
  have := normalize_aux (0 :: l) ([] : List K) List.Pairwise.nil
  unfold Evse.normalize
  refine ⟨this.1, (this.2 0).mpr (by simp), fun y => ?_⟩
  rw [this.2 y]; simp

theorem listMax_aux (x : K) (xs : List K) :
    (xs.foldl pyMax x = x ∨ xs.foldl pyMax x ∈ xs) ∧ x ≤ xs.foldl pyMax x ∧
    ∀ y ∈ xs, y ≤ xs.foldl pyMax x := by
  induction xs generalizing x with
  | nil => simp
  | cons z zs ih =>
    have := ih (pyMax x z)
    simp only [List.foldl_cons]
    obtain ⟨h1, h2, h3⟩ := this
    rw [pyMax_eq_max] at *
    refine ⟨?_, le_trans (le_max_left _ _) h2, ?_⟩
    · rcases h1 with h1 | h1
      · rcases le_total x z with h | h
        · right; rw [h1, max_eq_right h]; simp
        · left; rw [h1, max_eq_left h]
      · right; exact List.mem_cons_of_mem _ h1
    · intro y hy
      rcases List.mem_cons.mp hy with rfl | hy
      · exact le_trans (le_max_right _ _) h2
      · exact h3 y hy

/-- the advertised maximum of a finite-rate EVSE is a listed level and dominates all levels -/
theorem listMax_spec (l : List K) (hne : l ≠ []) :
    listMax l ∈ l ∧ ∀ y ∈ l, y ≤ listMax l := by
  cases l with
  | nil => exact absurd rfl hne
  | cons x xs =>
    obtain ⟨h1, h2, h3⟩ := listMax_aux x xs
    simp only [listMax]
    refine ⟨?_, ?_⟩
    · rcases h1 with h1 | h1
      · rw [h1]; simp
      · exact List.mem_cons_of_mem _ h1
    · intro y hy
      rcases List.mem_cons.mp hy with rfl | hy
      · exact h2
      · exact h3 y hy

/-! ### every advertised value is accepted -/

/-- continuous EVSE: both advertised bounds, and everything between, are accepted -/
theorem advertised_accepted_cont (atol fa mn mx q : K) (ha : 0 ≤ atol) (h1 : mn ≤ q) (h2 : q ≤ mx) :
    validRate atol fa (.cont mn (some mx)) q = true := by
  simp only [validRate, leBound, Bool.and_eq_true, decide_eq_true_eq]
  constructor <;> linarith

theorem advertised_accepted_cont_inf (atol fa mn q : K) (ha : 0 ≤ atol) (h1 : mn ≤ q) :
    validRate atol fa (.cont mn none) q = true := by
  simp only [validRate, leBound, Bool.and_true, decide_eq_true_eq]; linarith

/-- deadband EVSE: 0, the deadband end, the maximum and everything between are accepted -/
theorem advertised_accepted_deadband (atol fa db mx q : K) (ha : 0 ≤ atol)
    (h : q = 0 ∨ (db ≤ q ∧ q ≤ mx)) :
    validRate atol fa (.deadband db (some mx)) q = true := by
  simp only [validRate, leBound, isclose0, absK_eq_abs, Bool.or_eq_true, Bool.and_eq_true,
    decide_eq_true_eq]
  rcases h with rfl | ⟨h1, h2⟩
  · left; simpa using ha
  · right; constructor <;> linarith

/-- finite EVSE: every listed level (hence 0, the minimum and the maximum) is accepted -/
theorem advertised_accepted_finite (atol fa : K) (rates : List K) (hfa : 0 ≤ fa) (a : K)
    (h : a ∈ rates) : validRate atol fa (.finite rates) a = true := by
  rw [finite_valid_iff]; exact ⟨a, h, by simpa using hfa⟩

theorem advertised_zero_and_max_finite (atol fa : K) (l : List K) (hfa : 0 ≤ fa) :
    validRate atol fa (.finite (Evse.normalize l)) 0 = true ∧
    validRate atol fa (.finite (Evse.normalize l)) (listMax (Evse.normalize l)) = true := by
  have hs := normalize_spec l
  have hne : Evse.normalize l ≠ [] := fun h => by have := hs.2.1; rw [h] at this; simp at this
  exact ⟨advertised_accepted_finite atol fa _ hfa 0 hs.2.1,
         advertised_accepted_finite atol fa _ hfa _ (listMax_spec _ hne).1⟩

/-! ### degenerate ranges: `min_rate = max_rate`, a switched-off station (`max_rate = 0`) -/

/-- `min_rate = max_rate = c` (continuous) / `deadband_end = max_rate = c`: the interval is the point `c` -/
theorem valid_rate_point_range (atol fa c p : K) :
    (validRate atol fa (.cont c (some c)) p = true ↔ |p - c| ≤ atol) ∧
    (validRate atol fa (.deadband c (some c)) p = true ↔ |p| ≤ atol ∨ |p - c| ≤ atol) := by
  have h : (c ≤ p + atol ∧ p - atol ≤ c) ↔ |p - c| ≤ atol := by
    rw [abs_le]; constructor <;> rintro ⟨h1, h2⟩ <;> constructor <;> linarith
  refine ⟨?_, ?_⟩
  · simp only [validRate, leBound, Bool.and_eq_true, decide_eq_true_eq]; exact h
  · simp only [validRate, leBound, isclose0, absK_eq_abs, Bool.or_eq_true, Bool.and_eq_true,
      decide_eq_true_eq, sub_zero]; rw [h]

/-- a finite list that holds nothing but zeros (`[]`, `[0]`, `[0, 0.0]`, of any length) is the list `[0]` -/
theorem normalize_zeros (l : List K) (hl : ∀ y ∈ l, y = 0) : Evse.normalize l = [0] := by
  obtain ⟨hs, h0, hm⟩ := normalize_spec l
  have hall : ∀ y ∈ Evse.normalize l, y = 0 := fun y hy =>
    ((hm y).mp hy).elim id (hl y)
  match hn : Evse.normalize l, hs, h0, hall with
  | [], _, h0, _ => simp at h0
  | [x], _, _, hall => rw [hall x (by simp)]
  | x :: y :: r, hs, _, hall =>
    have hx := hall x (by simp); have hy := hall y (by simp)
    have : x < y := (List.pairwise_cons.mp hs).1 y (by simp)
    rw [hx, hy] at this; exact absurd this (lt_irrefl _)

/-- a switched-off station (`max_rate = 0`; continuous, deadband with `deadband_end = 0`, finite list of
    zeros / empty list): the advertised maximum is 0 (not infinity) and a pilot is accepted iff it is
    within the tolerance of 0 -/
theorem valid_rate_zero_range (atol fa p : K) (l : List K) (hl : ∀ y ∈ l, y = 0) :
    (validRate atol fa (.cont 0 (some 0)) p = true ↔ |p| ≤ atol) ∧
    (validRate atol fa (.deadband 0 (some 0)) p = true ↔ |p| ≤ atol) ∧
    (validRate atol fa (.finite (Evse.normalize l)) p = true ↔ |p| ≤ fa) ∧
    maxRate (.cont (0 : K) (some 0)) = some 0 ∧ maxRate (.deadband (0 : K) (some 0)) = some 0 ∧
    maxRate (.finite (Evse.normalize l)) = some 0 ∧ minRate (.finite (Evse.normalize l)) = 0 := by
  obtain ⟨h1, h2⟩ := valid_rate_point_range atol fa 0 p
  rw [sub_zero] at h1 h2
  refine ⟨h1, by rw [h2, or_self], ?_, rfl, rfl, ?_, ?_⟩
  · rw [normalize_zeros l hl, finite_valid_iff]; simp
  · rw [normalize_zeros l hl]; rfl
  · rw [normalize_zeros l hl]; simp [minRate, firstPositive]

/-! ### rejection leaves the state alone; occupied stations refuse a plug-in -/

section
variable [HasExp K]

/-- `set_pilot` fails with `InvalidRate` exactly when the pilot is not valid, and in the
    functional model a failure returns no new state at all: the caller keeps `s`. -/
theorem reject_iff (atol fa : K) (s : Evse K) (p V T ν : K) :
    setPilot atol fa s p V T ν = .error .invalidRate ↔ validRate atol fa s.kind p = false := by
  unfold setPilot
  split
  · rename_i h
    simp only [h, Bool.true_eq_false, iff_false]
    cases hs : s.ev with
    | none => simp
    | some e => simp only []; split <;> simp
  · rename_i h; simp [Bool.not_eq_true] at h; simp [h]

/-- an accepted pilot becomes the station's pilot, and without an EV nothing else changes -/
theorem accept_sets_pilot (atol fa : K) (s s' : Evse K) (p V T ν : K)
    (h : setPilot atol fa s p V T ν = .ok s') : s'.pilot = p ∧ s'.kind = s.kind ∧ s'.station = s.station := by
  unfold setPilot at h
  split at h
  · cases hs : s.ev with
    | none => simp [hs] at h; subst h; simp
    | some e =>
      simp only [hs] at h
      split at h
      · simp at h
      · simp at h; subst h; simp
  · simp at h

theorem plugin_occupied_refused (s : Evse K) (e e0 : Ev K) (h : s.ev = some e0) :
    plugin s e = .error .stationOccupied := by
  simp [plugin, h]

theorem plugin_vacant (s : Evse K) (e : Ev K) (h : s.ev = none) :
    plugin s e = .ok { s with ev := some e } := by
  simp [plugin, h]
end

/-! ### the description a scheduler reads is the station's own, in a network of any size

`AcnModel/EvseNet.lean`: `register_evse` calls build the network; `_update_info_store` caches the
per-station containers; `Interface.allowable_pilot_signals / max_pilot_signal / min_pilot_signal`
index them through the id → index dict. -/

/-- every network built by `register_evse` calls has pairwise distinct station ids (an `OrderedDict`):
    the hypothesis of `info_cache_eq` holds for all of them -/
theorem registered_ids_nodup (regs : List (Station K)) :
    ((Net.run regs).stations.map (·.id)).Nodup := run_ids_nodup regs

/-- which EVSE answers under an id: the LAST one registered under it, and every registered id answers -/
theorem registered_last_wins (regs : List (Station K)) (s : Station K) :
    s ∈ (Net.run regs).stations ↔
      ∃ pre post, regs = pre ++ s :: post ∧ ∀ t ∈ post, t.id ≠ s.id := mem_run_iff regs s

/-- `InfrastructureInfo` is constructible (its `_validate` passes) exactly for the networks in which
    no id was registered twice; those networks are the registration list itself, in order -/
theorem registered_consistent_iff (regs : List (Station K)) :
    infraOk (Net.run regs) = true ↔ (regs.map (·.id)).Nodup := by
  simp only [infraOk, run_nVolt, beq_iff_eq]
  rw [eq_comm]
  exact run_length_eq_iff regs

/-- INFO CACHE: for every network with distinct ids (of any size, any mix of classes, stations sharing
    class / min / max or not) and every registered station, the three Interface accessors return that
    station's OWN continuity flag, allowable description, maximum and minimum. -/
theorem info_cache_eq (n : Net K) (hn : (n.stations.map (·.id)).Nodup) (hv : infraOk n = true)
    (s : Station K) (hs : s ∈ n.stations) :
    ifaceAllowable n s.id = .ok (isContinuous s.kind, allowable s.kind) ∧
    ifaceMax n s.id = .ok (maxRate s.kind) ∧ ifaceMin n s.id = .ok (minRate s.kind) := by
  obtain ⟨i, hi, hget⟩ := List.mem_iff_getElem.mp hs
  have hget? : n.stations[i]? = some s := by rw [List.getElem?_eq_getElem hi, hget]
  have hidx : stationIndex (List.map (fun x => x.id) n.stations) s.id = some i :=
    stationIndex_of_nodup hn (by simp [List.getElem?_map, hget?])
  simp [ifaceAllowable, ifaceMax, ifaceMin, lookup, hv, infoStore, hidx, List.getElem?_map, hget?]

/-- an id that was never registered is answered by `KeyError`, not by some other station's description -/
theorem info_cache_unknown (n : Net K) (hv : infraOk n = true) (sid : String)
    (h : sid ∉ n.stations.map (·.id)) :
    ifaceAllowable n sid = .error .keyError ∧ ifaceMax n sid = .error .keyError ∧
    ifaceMin n sid = .error .keyError := by
  have hidx : stationIndex (infoStore n).ids sid = none := stationIndex_eq_none.mpr h
  simp [ifaceAllowable, ifaceMax, ifaceMin, lookup, hv, hidx]

/-- the accessors never run past a container (`Err.indexError` is unreachable) -/
theorem info_cache_no_index_error (n : Net K) (sid : String) :
    ifaceAllowable n sid ≠ .error .indexError ∧ ifaceMax n sid ≠ .error .indexError ∧
    ifaceMin n sid ≠ .error .indexError := by
  unfold ifaceAllowable ifaceMax ifaceMin lookup
  by_cases hv : infraOk n = true
  · cases hidx : stationIndex (infoStore n).ids sid with
    | none => simp [hv]
    | some i =>
      have hlt := stationIndex_lt hidx
      simp only [infoStore, List.length_map] at hlt
      simp [hv, infoStore, List.getElem?_map, List.getElem?_eq_getElem hlt]
  · simp [hv]

/-- every finite value of a well-formed EVSE's own description is accepted by that EVSE -/
theorem advertised_values_accepted (atol fa : K) (ha : 0 ≤ atol) (hfa : 0 ≤ fa) (k : Kind K)
    (hwf : WellFormed k) (v : K) (hv : v ∈ advertisedValues k) : validRate atol fa k v = true := by
  cases k with
  | cont mn mx =>
    cases mx with
    | none =>
      simp [advertisedValues, allowable, maxRate] at hv
      subst hv
      exact advertised_accepted_cont_inf atol fa _ _ ha le_rfl
    | some mx =>
      simp only [WellFormed] at hwf
      simp [advertisedValues, allowable, maxRate] at hv
      rcases hv with rfl | rfl
      · exact advertised_accepted_cont atol fa _ _ _ ha le_rfl hwf
      · exact advertised_accepted_cont atol fa _ _ _ ha hwf le_rfl
  | deadband db mx =>
    cases mx with
    | none =>
      simp [advertisedValues, allowable, maxRate] at hv
      subst hv
      simp only [validRate, leBound, isclose0, absK_eq_abs, Bool.or_eq_true, decide_eq_true_eq,
        Bool.and_true]
      right; linarith
    | some mx =>
      simp only [WellFormed] at hwf
      simp [advertisedValues, allowable, maxRate] at hv
      rcases hv with rfl | rfl
      · exact advertised_accepted_deadband atol fa _ _ _ ha (Or.inr ⟨le_rfl, hwf⟩)
      · exact advertised_accepted_deadband atol fa _ _ _ ha (Or.inr ⟨hwf, le_rfl⟩)
  | finite rates =>
    simp only [WellFormed] at hwf
    simp [advertisedValues, allowable, maxRate] at hv
    rcases hv with hv | rfl
    · exact advertised_accepted_finite atol fa rates hfa v hv
    · exact advertised_accepted_finite atol fa rates hfa _ (listMax_spec rates hwf).1

/-- ADVERTISED ⇒ ACCEPTED THROUGH THE NETWORK: for every sequence of `register_evse` calls with
    distinct ids, every station of the resulting network and every finite value that the Interface
    reports for that station's id (each entry of `allowable_pilot_signals`, and `max_pilot_signal`):
    the station itself accepts the value. -/
theorem advertised_accepted_net (atol fa : K) (ha : 0 ≤ atol) (hfa : 0 ≤ fa)
    (regs : List (Station K)) (hreg : (regs.map (·.id)).Nodup)
    (s : Station K) (hs : s ∈ (Net.run regs).stations) (hwf : WellFormed s.kind)
    (c : Bool) (a : List (Bound K)) (m : Bound K)
    (h1 : ifaceAllowable (Net.run regs) s.id = .ok (c, a)) (h2 : ifaceMax (Net.run regs) s.id = .ok m)
    (v : K) (hv : some v ∈ a ∨ m = some v) : validRate atol fa s.kind v = true := by
  obtain ⟨e1, e2, -⟩ := info_cache_eq (Net.run regs) (registered_ids_nodup regs)
    ((registered_consistent_iff regs).mpr hreg) s hs
  rw [e1] at h1
  rw [e2] at h2
  injection h1 with h1
  injection h2 with h2
  injection h1 with _ h1
  subst h1 h2
  apply advertised_values_accepted atol fa ha hfa s.kind hwf
  simp only [advertisedValues, List.mem_filterMap, List.mem_append, List.mem_singleton, id]
  rcases hv with hv | hv
  · exact ⟨some v, Or.inl hv, rfl⟩
  · exact ⟨some v, Or.inr hv.symm, rfl⟩

/-! ### save / resume steps inside the history of a network -/

/-- SAVE / RESUME IS INVISIBLE: for every history of `register_evse` calls with
    `from_json(to_json())` steps anywhere between them (any number, any positions, ids registered twice
    or not), the object that comes out holds exactly the stations of the plain registration sequence, in
    the same order, with the same `len(_voltages)`, and the cache it carries (restored VERBATIM from the
    file, never recomputed by `_from_dict`) is the description `_update_info_store` computes for them. -/
theorem restore_history_eq (h : List (NetEv K)) :
    (CNet.run h).net = Net.run (regsOf h) ∧ (CNet.run h).cache = infoStore (Net.run (regsOf h)) := by
  obtain ⟨h1, h2⟩ := cnet_run_eq h
  exact ⟨h1, by rw [← h1]; exact h2⟩

/-- … hence the three Interface accessors, which read the station order from the rebuilt `_EVSEs` and
    the values from the restored containers, answer every id (registered or not) exactly as on the
    network that was never saved. -/
theorem restore_iface_eq (h : List (NetEv K)) (sid : String) :
    ifaceAllowableC (CNet.run h) sid = ifaceAllowable (Net.run (regsOf h)) sid ∧
    ifaceMaxC (CNet.run h) sid = ifaceMax (Net.run (regsOf h)) sid ∧
    ifaceMinC (CNet.run h) sid = ifaceMin (Net.run (regsOf h)) sid := by
  obtain ⟨h1, h2⟩ := cnet_run_eq h
  have := iface_of_coherent (CNet.run h) h2 sid
  rw [h1] at this
  exact this

/-- ADVERTISED ⇒ ACCEPTED AFTER ANY NUMBER OF SAVE / RESUME STEPS: for every history of registrations
    (distinct ids) and restores, every station of the resulting network and every finite value the
    Interface of the RESTORED object reports under that station's id: the station accepts the value. -/
theorem advertised_accepted_restored (atol fa : K) (ha : 0 ≤ atol) (hfa : 0 ≤ fa)
    (h : List (NetEv K)) (hreg : ((regsOf h).map (·.id)).Nodup)
    (s : Station K) (hs : s ∈ (CNet.run h).net.stations) (hwf : WellFormed s.kind)
    (c : Bool) (a : List (Bound K)) (m : Bound K)
    (h1 : ifaceAllowableC (CNet.run h) s.id = .ok (c, a)) (h2 : ifaceMaxC (CNet.run h) s.id = .ok m)
    (v : K) (hv : some v ∈ a ∨ m = some v) : validRate atol fa s.kind v = true := by
  obtain ⟨e1, e2, -⟩ := restore_iface_eq h s.id
  rw [e1] at h1
  rw [e2] at h2
  rw [(restore_history_eq h).1] at hs
  exact advertised_accepted_net atol fa ha hfa (regsOf h) hreg s hs hwf c a m h1 h2 v hv

/-! ### obligations on the constants and tables regenerated from the source (T1) -/

/-- "within 1e-3 A": every tolerance in evse.py is 1e-3 absolute, 0 relative. -/
theorem gen_tolerances :
    Gen.evseAtol = 1/1000 ∧ Gen.deadbandAtol = 1/1000 ∧ Gen.finiteAtol = 1/1000 ∧
    Gen.finiteRtol = 0 ∧ Gen.deadbandRtol = 0 := by
  decide +kernel

/-- the built-in EVSE types are already in normal form (sorted, duplicate-free, with 0), so
    `normalize` leaves them alone, and the BASIC type is a proper interval from 0. -/
theorem gen_type_tables :
    Evse.normalize Gen.ccRates = Gen.ccRates ∧ Evse.normalize Gen.avRates = Gen.avRates ∧
    Gen.basicMin = 0 ∧ Gen.basicMin ≤ Gen.basicMax := by
  decide +kernel

/-! ### non-vacuity: concrete instances over ℚ -/

example : validRate (1/1000 : ℚ) (1/1000) (.cont 0 (some 32)) (32 + 1/1000) = true := by decide +kernel
example : validRate (1/1000 : ℚ) (1/1000) (.cont 0 (some 32)) (32 + 2/1000) = false := by decide +kernel
example : validRate (1/1000 : ℚ) (1/1000) (.deadband 6 (some 32)) 3 = false := by decide +kernel
example : Evse.normalize ([16, 8, 8, 32] : List ℚ) = [0, 8, 16, 32] := by decide +kernel
-- switched-off stations: 0 ± 1e-3 is taken, anything farther (the old default 16 A, 2e-3) is refused
example : Evse.normalize ([] : List ℚ) = [0] ∧ Evse.normalize ([0, 0] : List ℚ) = [0] := by decide +kernel
example : validRate (1/1000 : ℚ) (1/1000) (.cont 0 (some 0)) (1/1000) = true ∧
    validRate (1/1000 : ℚ) (1/1000) (.cont 0 (some 0)) 16 = false ∧
    validRate (1/1000 : ℚ) (1/1000) (.deadband 0 (some 0)) (2/1000) = false ∧
    validRate (1/1000 : ℚ) (1/1000) (.finite (Evse.normalize [0, 0])) (-1/1000) = true ∧
    validRate (1/1000 : ℚ) (1/1000) (.cont 8 (some 8)) (8 - 2/1000) = false := by decide +kernel

/-- the scenario class of two same-class stations with equal min/max and different allowable sets
    (deadband ends 6 / 8 under one maximum; finite lists with the same smallest and largest step):
    each id is answered with its own description, an unknown id with `KeyError` -/
def exampleRegs : List (Station ℚ) :=
  [⟨"DB-6", .deadband 6 (some 32)⟩, ⟨"DB-8", .deadband 8 (some 32)⟩,
   ⟨"FR-A", .finite (Evse.normalize [0, 8, 16, 32])⟩, ⟨"FR-B", .finite (Evse.normalize [32, 24, 8, 8])⟩]

example :
    (ifaceAllowable (Net.run exampleRegs) "DB-8").toOption = some (true, [some 8, some 32]) ∧
    (ifaceAllowable (Net.run exampleRegs) "FR-B").toOption = some (false, [some 0, some 8, some 24, some 32]) ∧
    (ifaceAllowable (Net.run exampleRegs) "FR-A").toOption = some (false, [some 0, some 8, some 16, some 32]) ∧
    (ifaceMax (Net.run exampleRegs) "nope").toOption = none ∧
    (exampleRegs.map (·.id)).Nodup ∧ infraOk (Net.run exampleRegs) = true := by
  decide +kernel

/-- the hypotheses of `advertised_accepted_net` are satisfiable on that network -/
example : ∀ s ∈ exampleRegs, WellFormed s.kind := by
  intro s hs
  simp only [exampleRegs, List.mem_cons, List.not_mem_nil, or_false] at hs
  rcases hs with rfl | rfl | rfl | rfl
  · simp only [WellFormed]; norm_num
  · simp only [WellFormed]; norm_num
  · simp only [WellFormed]; decide +kernel
  · simp only [WellFormed]; decide +kernel

example : infraOk (Net.run ([⟨"A", .cont 0 (some 32)⟩, ⟨"A", .deadband 6 none⟩] : List (Station ℚ))) = false := by
  decide +kernel

/-- a history with restores before, between and after the registrations of `exampleRegs` -/
def exampleHist : List (NetEv ℚ) :=
  [.restore, .reg ⟨"DB-6", .deadband 6 (some 32)⟩, .reg ⟨"DB-8", .deadband 8 (some 32)⟩, .restore,
   .reg ⟨"FR-A", .finite (Evse.normalize [0, 8, 16, 32])⟩, .restore, .restore,
   .reg ⟨"FR-B", .finite (Evse.normalize [32, 24, 8, 8])⟩, .restore]

example :
    (regsOf exampleHist).map (·.id) = exampleRegs.map (·.id) ∧
    (ifaceAllowableC (CNet.run exampleHist) "DB-8").toOption = some (true, [some 8, some 32]) ∧
    (ifaceAllowableC (CNet.run exampleHist) "FR-B").toOption = some (false, [some 0, some 8, some 24, some 32]) ∧
    (ifaceMaxC (CNet.run exampleHist) "nope").toOption = none ∧
    infraOkC (CNet.run exampleHist) = true := by
  decide +kernel

/-- what the theorem excludes: a writer that emits the `_EVSEs` object with its keys SORTED (ids
    registered in non-sorted order) while the containers stay positional makes the reader advertise
    another station's limits — the model's `Saved.load` shows it. -/
example :
    let c : CNet ℚ := CNet.run [.reg ⟨"Z", .finite [0, 8, 16]⟩, .reg ⟨"B", .cont 6 (some 40)⟩]
    let sorted : Saved ℚ := { c.save with evses := [⟨"B", .cont 6 (some 40)⟩, ⟨"Z", .finite [0, 8, 16]⟩] }
    (ifaceMaxC c.save.load "Z").toOption = some (some 16) ∧
    (ifaceMaxC sorted.load "Z").toOption = some (some 40) := by
  decide +kernel

end Acn.C13
