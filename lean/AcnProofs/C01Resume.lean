/-
  C01, continued — simulations that are INTERRUPTED (the scheduler raises in period `k`), possibly SAVED
  (`to_json` → `Simulator.from_json` → `update_scheduler`) and RESUMED (`run()` again), once or twice.

  Every clause of C01 is stated for the COMPLETED simulation (`EventCore.Completed`, AcnProofs/Lemmas/EventCoreFinal.lean:
  queue empty, no recompute request left, final iteration = horizon, every station vacant, each session exactly one
  plug-in entry at its arrival and exactly one unplug entry at its departure, `event_history` key-sorted and a
  permutation of the scenario's events, `ev_history` keys = the sessions in plug-in order):

  * `uninterrupted_completed`            — the reference: a `Valid` scenario whose run raises nothing ends `Completed`
                                           (= `C01.sim_run_C01`, in the bundle form used below);
  * `exactly_once_across_resume`         — the run whose scheduler raises in period `k`: either the failure never fires
                                           (then it IS the uninterrupted run), or `run()` aborts in period `k` with every
                                           pending event strictly later than `k` (`Fresh`: nothing of the failed period is
                                           still queued, so nothing of it can be replayed), and the second `run()` on that
                                           state raises nothing and ends `Completed` — in particular the unplug of a
                                           session that arrived in the failed period is there exactly once (not lost);
  * `aborted_state_spec`                 — WHAT the abort leaves (`EventCore.Aborted`, Lemmas/EventCoreAbort.lean): whenever
                                           the run with the raising scheduler raises, it is `SchedulerFailed` in period
                                           `k`; `event_history` holds exactly the events with timestamp `≤ k`, once each,
                                           key-sorted; the queue holds exactly the plug-ins and recomputes later than `k`
                                           and the unplug events of the sessions connected now — INCLUDING those that
                                           arrived in period `k` (their follow-up is already queued when the scheduler is
                                           consulted) — and nothing with timestamp `≤ k`; the stations hold the sessions
                                           with `arrival ≤ k < departure`;
  * `exactly_once_across_resume_json`    — the same through a JSON round trip, for every lawful scalar codec: the aborted
                                           state can be written and loaded, the decoded simulator IS the aborted one (its
                                           pending events, iteration, histories, occupancy), and `run()` on it ends
                                           `Completed`;
  * `exactly_once_across_resume_json_text` — the instance for the modelled CPython `json` text layer (`jsonLawful`);
  * `exactly_once_across_two_resumes`    — two interruptions (`k₁ < k₂`, both fire), each resumed in place: the third
                                           `run()` ends `Completed`;
  * `exactly_once_across_two_resumes_json_first` — the first of the two hand-overs goes through JSON.

  All for every carrier `K`, every `Valid` configuration, every scheduler whose uninterrupted run raises nothing, every
  raising period(s) and every fuel `n ≥ horizon` — by the induction over periods of `resume_run` (C09's lemma family)
  and the loop invariant of C01.  The canonical (stable-sort) queue; the heap's tie order is covered for uninterrupted
  runs by `C01.sim_runQ_heap_C01` and for resumed runs by the correspondence (model run over `heapQ`).

  (A module of its own because C09's lemma family — ResumeRun.lean — and C01's — EventCoreSim.lean — declare the same
  projection names and cannot be imported together.  Listed in `LEAN_MODULES` of harness/props/C01.py.)
-/
import AcnProofs.Lemmas.ResumeJson
import AcnProofs.Lemmas.ResumeProj
import AcnProofs.Lemmas.EventCoreFinal
import AcnProofs.Lemmas.EventCoreAbort
import AcnProofs.Lemmas.RegistryJsonLawful

set_option linter.unusedSectionVars false

namespace Acn.C01Resume
open Acn Acn.EventCore Acn.Sim Acn.Registry

section
variable {K : Type} [Add K] [Sub K] [Mul K] [Div K] [Neg K] [LT K] [LE K]
  [DecidableLT K] [DecidableLE K] [OfNat K 0] [OfNat K 1] [NatCast K] [HasExp K]

theorem sessionsOK_of_valid {cfg : EventCore.Cfg} (hv : Valid cfg) : SessionsOK cfg :=
  ⟨hv.ids_nodup, fun x hx => ⟨hv.arr_nonneg x hx, hv.arr_lt_dep x hx⟩⟩

/-- `Completed` is a statement about the observable state: it transfers along `ObsEq` -/
theorem completed_of_obsEq {cfg : EventCore.Cfg} {s t : Sim.State K} (h : ObsEq s t) (hc : Completed cfg s.core) :
    Completed cfg t.core := by
  rw [h.eq_withInv]
  exact completed_congr hc rfl rfl rfl rfl rfl rfl

/-- **uninterrupted_completed** — a `Valid` scenario whose run raises nothing (the scheduler does not fail and only
    returns schedules the EVSEs accept) ends in a `Completed` state, for every fuel `n ≥ horizon`. -/
theorem uninterrupted_completed (cfg : Sim.Cfg K) (sched : View K → Except EventCore.Err (Schedule K))
    (hv : Valid cfg.core) (n : Nat) (hn : horizon cfg.core ≤ n) (hok : (run cfg sched n (Sim.init cfg)).2 = none) :
    Completed cfg.core (run cfg sched n (Sim.init cfg)).1.core := by
  have hp := run_proj cfg sched n (Sim.init cfg) hok
  obtain ⟨c, hr, hc⟩ := run_completed hv n hn
  have he : (Sim.init cfg).core = EventCore.init cfg.core := rfl
  rw [he, hr] at hp
  have : c = (run cfg sched n (Sim.init cfg)).1.core := congrArg Prod.fst hp
  rw [← this]
  exact hc

/-- **exactly_once_across_resume** — crash in period `k`, `run()` again on the same object. -/
theorem exactly_once_across_resume (cfg : Sim.Cfg K) (sched : View K → Except EventCore.Err (Schedule K))
    (hv : Valid cfg.core) (k n : Nat) (hn : horizon cfg.core ≤ n) (hok : (run cfg sched n (Sim.init cfg)).2 = none) :
    let r1 := run cfg (failAt k sched) n (Sim.init cfg)
    let r := run cfg sched n (Sim.init cfg)
    let r2 := run cfg sched (n - k) r1.1
    (r1 = r ∧ Completed cfg.core r1.1.core) ∨
    (r1.2 = some EventCore.Err.schedulerFailed ∧ r1.1.core.iter = k ∧ Fresh r1.1.core ∧
      r2.2 = none ∧ Completed cfg.core r2.1.core ∧ ObsEq r2.1 r.1) := by
  intro r1 r r2
  have hS := sessionsOK_of_valid hv
  have hc := uninterrupted_completed cfg sched hv n hn hok
  rcases resume_run cfg sched k n (s := Sim.init cfg) (init_noOverdue hS) (Nat.zero_le k) with h | ⟨h1, h2, h3, h4⟩
  · left
    exact ⟨h, by show Completed cfg.core (run cfg (failAt k sched) n (Sim.init cfg)).1.core; rw [h]; exact hc⟩
  · right
    have h4' : ObsEqR r2 r := h4
    exact ⟨h1, h2, h3, h4'.2.trans hok, completed_of_obsEq h4'.1.symm hc, h4'.1⟩

/-- **aborted_state_spec** — the state the abort leaves: for every `Valid` configuration, scheduler, raising period
    `k` and fuel, if the uninterrupted run raises nothing then the interrupted run raises nothing but `SchedulerFailed`,
    and the state it leaves is `Aborted cfg.core k` (by `exactly_once_across_resume_json` this is also the state a JSON
    round trip hands to the second `run()`). -/
theorem aborted_state_spec (cfg : Sim.Cfg K) (sched : View K → Except EventCore.Err (Schedule K))
    (hv : Valid cfg.core) (k n : Nat) (hok : (run cfg sched n (Sim.init cfg)).2 = none) :
    let r1 := run cfg (failAt k sched) n (Sim.init cfg)
    ∀ e, r1.2 = some e → e = EventCore.Err.schedulerFailed ∧ Aborted cfg.core k r1.1.core := by
  intro r1 e he
  have hp := run_failAt_proj cfg sched k n (Sim.init cfg) hok
  have hi : (Sim.init cfg).core = EventCore.init cfg.core := rfl
  rw [hi] at hp
  exact run_failSched_spec hv k n 0 (EventCore.init cfg.core) (init_inv hv) (Nat.zero_le _) r1.1.core e
    (by rw [hp]; exact Prod.ext rfl he)

/-- **exactly_once_across_resume_json** — crash in period `k`, `to_json`, `from_json`, `update_scheduler`, `run()`:
    for every lawful scalar codec the aborted state can be dumped and loaded, the decoded simulator `s'` IS the aborted
    one — no pending event is dropped or duplicated, the histories, the occupancy and the period counter are the
    aborted simulator's — and the simulation completed from `s'` satisfies every clause of C01. -/
theorem exactly_once_across_resume_json {sh : RegistrySim.Show K} {rd : RegistrySim.Read K} (hl : RegistrySim.Lawful sh rd)
    (cfg : Sim.Cfg K) (sched : View K → Except EventCore.Err (Schedule K)) (hv : Valid cfg.core) (k n : Nat)
    (hn : horizon cfg.core ≤ n) (hok : (run cfg sched n (Sim.init cfg)).2 = none) :
    let r1 := run cfg (failAt k sched) n (Sim.init cfg)
    let r := run cfg sched n (Sim.init cfg)
    ∃ ctx s', dump (RegistrySim.encode sh cfg r1.1) RegistrySim.root = .ok ctx ∧ load ctx RegistrySim.root = .ok ctx ∧
      RegistrySim.decode rd cfg (RegistrySim.ambOf r1.1) ctx.get = some s' ∧ s' = r1.1 ∧
      s'.core.pending = r1.1.core.pending ∧ s'.core.iter = r1.1.core.iter ∧ s'.core.eventHist = r1.1.core.eventHist ∧
      s'.core.evHist = r1.1.core.evHist ∧ s'.core.occ = r1.1.core.occ ∧
      ((r1 = r ∧ Completed cfg.core s'.core) ∨
       (r1.2 = some EventCore.Err.schedulerFailed ∧ s'.core.iter = k ∧ Fresh s'.core ∧
        (run cfg sched (n - k) s').2 = none ∧ Completed cfg.core (run cfg sched (n - k) s').1.core ∧
        ObsEq (run cfg sched (n - k) s').1 r.1)) := by
  intro r1 r
  obtain ⟨ctx, h1, h2, h3⟩ := crash_state_roundtrip hl cfg (failAt k sched) hv n
  exact ⟨ctx, _, h1, h2, h3, rfl, rfl, rfl, rfl, rfl, rfl, exactly_once_across_resume cfg sched hv k n hn hok⟩

/-- **exactly_once_across_resume_json_text** — the instance for the MODELLED text layer of CPython's `json`
    (`AcnModel/JsonText.lean`, `jsonShow` / `jsonRead`), for every rendering of doubles that round-trips. -/
theorem exactly_once_across_resume_json_text (d : RegistryJson.DoubleText K) (hd : d.RoundTrip)
    (cfg : Sim.Cfg K) (sched : View K → Except EventCore.Err (Schedule K)) (hv : Valid cfg.core) (k n : Nat)
    (hn : horizon cfg.core ≤ n) (hok : (run cfg sched n (Sim.init cfg)).2 = none) :
    let r1 := run cfg (failAt k sched) n (Sim.init cfg)
    ∃ ctx s', dump (RegistrySim.encode (RegistryJson.jsonShow d) cfg r1.1) RegistrySim.root = .ok ctx ∧
      RegistrySim.decode (RegistryJson.jsonRead d) cfg (RegistrySim.ambOf r1.1) ctx.get = some s' ∧
      s'.core.pending = r1.1.core.pending ∧
      (r1.2 = some EventCore.Err.schedulerFailed →
        (run cfg sched (n - k) s').2 = none ∧ Completed cfg.core (run cfg sched (n - k) s').1.core) := by
  intro r1
  obtain ⟨ctx, s', h1, _, h3, _, h5, _, _, _, _, h10⟩ :=
    exactly_once_across_resume_json (RegistryJson.jsonLawful d hd) cfg sched hv k n hn hok
  refine ⟨ctx, s', h1, h3, h5, fun hf => ?_⟩
  rcases h10 with ⟨he, _⟩ | ⟨_, _, _, ha, hb, _⟩
  · exfalso
    have : r1.2 = none := by
      show (run cfg (failAt k sched) n (Sim.init cfg)).2 = none
      rw [he]; exact hok
    rw [this] at hf
    cases hf
  · exact ⟨ha, hb⟩

/-- **exactly_once_across_two_resumes** — two interruptions.  The scheduler raises in period `k₁` and — after the
    resume — again in period `k₂ > k₁`; each time `run()` is called again on the state the abort left.  If both failures
    fire, the third `run()` raises nothing and the simulation it completes satisfies every clause of C01 (and is
    observably the uninterrupted one). -/
theorem exactly_once_across_two_resumes (cfg : Sim.Cfg K) (sched : View K → Except EventCore.Err (Schedule K))
    (hv : Valid cfg.core) (k₁ k₂ n : Nat) (hlt : k₁ < k₂) (hn : horizon cfg.core ≤ n)
    (hok : (run cfg sched n (Sim.init cfg)).2 = none) :
    let r1 := run cfg (failAt k₁ (failAt k₂ sched)) n (Sim.init cfg)
    let r2 := run cfg (failAt k₂ sched) (n - k₁) r1.1
    let r3 := run cfg sched (n - k₂) r2.1
    let r := run cfg sched n (Sim.init cfg)
    r1.2 = some EventCore.Err.schedulerFailed → r1.1.core.iter = k₁ → r2.2 = some EventCore.Err.schedulerFailed →
    r2.1.core.iter = k₂ ∧ Fresh r2.1.core ∧ r3.2 = none ∧ Completed cfg.core r3.1.core ∧ ObsEq r3.1 r.1 := by
  intro r1 r2 r3 r hf1 hi1 hf2
  have hS := sessionsOK_of_valid hv
  have hc := uninterrupted_completed cfg sched hv n hn hok
  -- the run that only fails in period k₂, from the initial state
  have hq := resume_run cfg sched k₂ n (s := Sim.init cfg) (init_noOverdue hS) (Nat.zero_le k₂)
  rcases sim_resume_eq cfg (failAt k₂ sched) hS k₁ n with hA | ⟨_, _, hA⟩
  · -- the first failure "did not fire": then r1 is the k₂-run, which aborts in period k₂ ≠ k₁
    exfalso
    rcases hq with hq | ⟨_, hq2, _, _⟩
    · have : r1.2 = none := by
        show (run cfg (failAt k₁ (failAt k₂ sched)) n (Sim.init cfg)).2 = none
        rw [hA, hq]; exact hok
      rw [this] at hf1
      cases hf1
    · have : r1.1.core.iter = k₂ := by
        show (run cfg (failAt k₁ (failAt k₂ sched)) n (Sim.init cfg)).1.core.iter = k₂
        rw [hA]; exact hq2
      omega
  · have hA' : ObsEqR r2 (run cfg (failAt k₂ sched) n (Sim.init cfg)) := hA
    rcases hq with hq | ⟨_, hq2, hq3, hq4⟩
    · exfalso
      have : r2.2 = none := by rw [hA'.2, hq]; exact hok
      rw [this] at hf2
      cases hf2
    · have hq4' : ObsEqR (run cfg sched (n - k₂) (run cfg (failAt k₂ sched) n (Sim.init cfg)).1) r := hq4
      have h3 : ObsEqR r3 r := (run_obs cfg sched (n - k₂) hA'.1.symm).trans hq4'
      have hcore : r2.1.core = setInv r2.1.core.invoked (run cfg (failAt k₂ sched) n (Sim.init cfg)).1.core := by
        have := hA'.1.symm.eq_withInv
        exact congrArg Sim.State.core this
      refine ⟨?_, ?_, h3.2.trans hok, completed_of_obsEq h3.1.symm hc, h3.1⟩
      · rw [hcore]; exact hq2
      · rw [hcore]; exact hq3

/-- **exactly_once_across_two_resumes_json_first** — as above, the FIRST hand-over through JSON: the state the first
    abort left is written, loaded and decoded (every lawful codec); the decoded simulator is run with the scheduler that
    still fails in `k₂`, aborts there, and `run()` on that state completes the simulation with every clause of C01. -/
theorem exactly_once_across_two_resumes_json_first {sh : RegistrySim.Show K} {rd : RegistrySim.Read K}
    (hl : RegistrySim.Lawful sh rd) (cfg : Sim.Cfg K) (sched : View K → Except EventCore.Err (Schedule K))
    (hv : Valid cfg.core) (k₁ k₂ n : Nat) (hlt : k₁ < k₂) (hn : horizon cfg.core ≤ n)
    (hok : (run cfg sched n (Sim.init cfg)).2 = none) :
    let r1 := run cfg (failAt k₁ (failAt k₂ sched)) n (Sim.init cfg)
    ∃ ctx s', dump (RegistrySim.encode sh cfg r1.1) RegistrySim.root = .ok ctx ∧ load ctx RegistrySim.root = .ok ctx ∧
      RegistrySim.decode rd cfg (RegistrySim.ambOf r1.1) ctx.get = some s' ∧ s'.core.pending = r1.1.core.pending ∧
      (let r2 := run cfg (failAt k₂ sched) (n - k₁) s'
       let r3 := run cfg sched (n - k₂) r2.1
       r1.2 = some EventCore.Err.schedulerFailed → r1.1.core.iter = k₁ → r2.2 = some EventCore.Err.schedulerFailed →
       r3.2 = none ∧ Completed cfg.core r3.1.core) := by
  intro r1
  obtain ⟨ctx, h1, h2, h3⟩ := crash_state_roundtrip hl cfg (failAt k₁ (failAt k₂ sched)) hv n
  refine ⟨ctx, _, h1, h2, h3, rfl, ?_⟩
  intro r2 r3 hf1 hi1 hf2
  obtain ⟨_, _, h, hcpl, _⟩ := exactly_once_across_two_resumes cfg sched hv k₁ k₂ n hlt hn hok hf1 hi1 hf2
  exact ⟨h, hcpl⟩

end

/-! ### non-vacuity (ℚ): stations registered as `S9`, `S10` (not in alphabetical order); `a` on S9 [0,2), `b` on S9 [2,4)
    (back-to-back hand-over in period 2), `c` on S10 [1,4); a recompute event at 3; `max_recompute = 2` -/
section Examples
local instance : HasExp ℚ := ⟨fun _ => 1⟩

private def exBatt : Battery.Batt ℚ :=
  { capacity := 40, charge := 5, init := 5, maxPower := 7, power := 0, twoStage := false, noiseLevel := 0,
    ts := 4/5, cmode := .continuous }
private def exEv (id st : String) (a d : Int) : Evse.Ev ℚ :=
  { session := id, station := st, arrival := a, departure := d, estDeparture := d, requested := 10,
    delivered := 0, rate := 0, batt := exBatt }
private def exCfg : Sim.Cfg ℚ :=
  { stations := [⟨"S9", .cont 0 (some 32), 208⟩, ⟨"S10", .cont 0 (some 32), 240⟩],
    evs := [exEv "b" "S9" 2 4, exEv "a" "S9" 0 2, exEv "c" "S10" 1 4], recomputes := [(3, "r0")], maxRecompute := some 2,
    period := 5, atolCont := 1/1000, atolDeadband := 1/1000, atolFinite := 1/1000, fullEps := 1/1000, noise := [] }
private def exSched : View ℚ → Except EventCore.Err (Schedule ℚ) := scripted [(1, some [("S9", [8, 9])])] [("S10", [16])]

theorem exCfg_valid : Valid exCfg.core := by
  constructor <;> simp [exCfg, Sim.Cfg.core, exEv] <;> decide

example : horizon exCfg.core = 5 := by decide

/-- the uninterrupted run raises nothing -/
example : (run exCfg exSched 8 (Sim.init exCfg)).2 = none := by decide +kernel

/-- raising in the HAND-OVER period 2 (`a` leaves S9, `b` arrives there): the aborted state has processed both events,
    holds `b`'s follow-up unplug (4) in the queue and nothing of period 2; the second `run()` completes with `b`
    plugged once (2) and unplugged once (4) -/
example : (run exCfg (failAt 2 exSched) 8 (Sim.init exCfg)).2 = some EventCore.Err.schedulerFailed ∧
    (run exCfg (failAt 2 exSched) 8 (Sim.init exCfg)).1.core.pending =
      [⟨3, .recompute, "r0"⟩, ⟨4, .unplug, "c"⟩, ⟨4, .unplug, "b"⟩] ∧
    (run exCfg (failAt 2 exSched) 8 (Sim.init exCfg)).1.core.eventHist.map (·.ts) = [0, 1, 2, 2] ∧
    (run exCfg exSched 6 (run exCfg (failAt 2 exSched) 8 (Sim.init exCfg)).1).1.core.eventHist =
      [⟨0, .plugin, "a"⟩, ⟨1, .plugin, "c"⟩, ⟨2, .unplug, "a"⟩, ⟨2, .plugin, "b"⟩, ⟨3, .recompute, "r0"⟩,
       ⟨4, .unplug, "c"⟩, ⟨4, .unplug, "b"⟩] ∧
    (run exCfg exSched 6 (run exCfg (failAt 2 exSched) 8 (Sim.init exCfg)).1).1.core.iter = 5 := by
  decide +kernel

/-- `aborted_state_spec` on this instance: the queue the abort in the hand-over period 2 leaves is the queue of the
    loop head of period 3 — `b`'s unplug event (4) is in it, `b`'s plug-in event (2) is not -/
example : unplugEv ⟨"b", "S9", 2, 4⟩ ∈ (run exCfg (failAt 2 exSched) 8 (Sim.init exCfg)).1.core.pending ∧
    plugEv ⟨"b", "S9", 2, 4⟩ ∉ (run exCfg (failAt 2 exSched) 8 (Sim.init exCfg)).1.core.pending := by
  obtain ⟨_, hA⟩ := aborted_state_spec exCfg exSched exCfg_valid 2 8 (by decide +kernel) _
    (show (run exCfg (failAt 2 exSched) 8 (Sim.init exCfg)).2 = some EventCore.Err.schedulerFailed by decide +kernel)
  refine ⟨(hA.pend_mem _).2 (Or.inr (Or.inl ⟨⟨"b", "S9", 2, 4⟩, by decide, rfl, by decide, by decide⟩)), fun h => ?_⟩
  have := ((hA.pend_mem _).1 h).le_ts
  simp [plugEv] at this

/-- the theorem on this instance: the second disjunct -/
example : Completed exCfg.core (run exCfg exSched 6 (run exCfg (failAt 2 exSched) 8 (Sim.init exCfg)).1).1.core := by
  rcases exactly_once_across_resume exCfg exSched exCfg_valid 2 8 (by decide) (by decide +kernel) with ⟨h, _⟩ | h
  · exfalso
    have h2 : (run exCfg (failAt 2 exSched) 8 (Sim.init exCfg)).2 = some EventCore.Err.schedulerFailed := by
      decide +kernel
    rw [h] at h2
    have h3 : (run exCfg exSched 8 (Sim.init exCfg)).2 = none := by decide +kernel
    rw [h3] at h2
    cases h2
  · exact h.2.2.2.2.1

/-- two interruptions: period 0 (arrival of `a`) and the LAST period 4 (the final unplugs); both fire -/
example : (run exCfg (failAt 0 (failAt 4 exSched)) 8 (Sim.init exCfg)).2 = some EventCore.Err.schedulerFailed ∧
    (run exCfg (failAt 0 (failAt 4 exSched)) 8 (Sim.init exCfg)).1.core.iter = 0 ∧
    (run exCfg (failAt 4 exSched) 8 (run exCfg (failAt 0 (failAt 4 exSched)) 8 (Sim.init exCfg)).1).2 =
      some EventCore.Err.schedulerFailed ∧
    (run exCfg exSched 4 (run exCfg (failAt 4 exSched) 8
      (run exCfg (failAt 0 (failAt 4 exSched)) 8 (Sim.init exCfg)).1).1).1.core.iter = 5 := by
  decide +kernel

end Examples

end Acn.C01Resume
