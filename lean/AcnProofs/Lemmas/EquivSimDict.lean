/-
  Helper lemmas for C10 (Sim level, stations, schedulers that answer with a DICT).
  `SchedEquivariant` (EquivSimRun) asks for equal association lists.  A scheduler that emits its
  schedule in station order (`format_array_schedule`, `UncontrolledCharging`) answers permuted views
  with the same dict listed in another order.  `_update_schedules` reads the dict through membership,
  lookup and the set of row lengths only, so it cannot tell (`updateSchedules_dictEq`), and the
  station capstone holds for the weaker, one-sided requirement `SchedEquivariantD`:
  whenever the original scheduler answers, the permuted one answers with the same dict.
-/
import AcnProofs.Lemmas.EquivSimRun

set_option linter.unusedSectionVars false
set_option linter.unusedSimpArgs false

namespace Acn.SimEquiv
open Acn Acn.Sim Acn.EventCore Acn.Evse Acn.Ledger

variable {K : Type} [Field K] [LinearOrder K] [IsStrictOrderedRing K] [HasExp K]

/-! ### dicts as association lists -/

/-- the same dict: the same entries (keys pairwise different), possibly listed in another order -/
def DictEq {V : Type} (a b : List (String × V)) : Prop := a.Perm b ∧ (b.map (·.1)).Nodup

theorem lookup_eq_some_iff {V : Type} (l : List (String × V)) (hn : (l.map (·.1)).Nodup) (k : String) (v : V) :
    l.lookup k = some v ↔ (k, v) ∈ l := by
  induction l with
  | nil => simp
  | cons p rest ih =>
    obtain ⟨k0, v0⟩ := p
    simp only [List.map_cons, List.nodup_cons] at hn
    obtain ⟨hk0, hn'⟩ := hn
    by_cases hk : k = k0
    · subst hk
      simp only [List.lookup_cons_self, Option.some.injEq, List.mem_cons, Prod.mk.injEq, true_and]
      constructor
      · intro h; exact Or.inl h.symm
      · rintro (h | h)
        · exact h.symm
        · exact absurd (List.mem_map.2 ⟨(k, v), h, rfl⟩) hk0
    · have hb : (k == k0) = false := by simpa using hk
      rw [List.lookup_cons, hb]
      simp only [List.mem_cons, Prod.mk.injEq, hk, false_and, false_or]
      exact ih hn'

theorem lookup_dictEq {V : Type} {a b : List (String × V)} (h : DictEq a b) (k : String) :
    a.lookup k = b.lookup k := by
  have hna : (a.map (·.1)).Nodup := (h.1.map _).nodup_iff.2 h.2
  apply Option.ext
  intro v
  rw [lookup_eq_some_iff a hna, lookup_eq_some_iff b h.2]
  exact h.1.mem_iff

theorem ragged_iff (s : Pilots.Sched K) :
    Pilots.ragged s = true ↔ ∃ p ∈ s, ∃ q ∈ s, p.2.length ≠ q.2.length := by
  cases s with
  | nil => simp [Pilots.ragged]
  | cons p rest =>
    obtain ⟨k, r⟩ := p
    simp only [Pilots.ragged, List.any_eq_true, bne_iff_ne, ne_eq]
    constructor
    · rintro ⟨q, hq, hne⟩
      exact ⟨q, List.mem_cons_of_mem _ hq, (k, r), List.mem_cons_self, hne⟩
    · rintro ⟨p, hp, q, hq, hne⟩
      by_contra hall
      simp only [not_exists, not_and, not_not] at hall
      have hlen : ∀ x ∈ (k, r) :: rest, x.2.length = r.length := by
        intro x hx
        rcases List.mem_cons.1 hx with rfl | hx
        · rfl
        · exact hall x hx
      exact hne ((hlen p hp).trans (hlen q hq).symm)

theorem ragged_dictEq {a b : Pilots.Sched K} (h : a.Perm b) : Pilots.ragged a = Pilots.ragged b := by
  rw [Bool.eq_iff_iff, ragged_iff, ragged_iff]
  constructor
  · rintro ⟨p, hp, q, hq, hne⟩; exact ⟨p, h.mem_iff.1 hp, q, h.mem_iff.1 hq, hne⟩
  · rintro ⟨p, hp, q, hq, hne⟩; exact ⟨p, h.mem_iff.2 hp, q, h.mem_iff.2 hq, hne⟩

/-- `_update_schedules` cannot tell two listings of the same dict apart -/
theorem updateSchedules_dictEq (stations : List String) (m : Pilots.Mat K) (t : Nat) (l : Option Nat)
    {a b : Pilots.Sched K} (h : DictEq a b) :
    Pilots.updateSchedules stations m t l a = Pilots.updateSchedules stations m t l b := by
  cases ha : a with
  | nil =>
    rw [ha] at h
    have : b = [] := h.1.symm.eq_nil
    rw [this]
  | cons p as =>
    cases hb : b with
    | nil => rw [hb] at h; exact absurd h.1.eq_nil (by simp [ha])
    | cons q bs =>
      rw [← ha, ← hb]
      have hu : Pilots.unknownStation stations a = Pilots.unknownStation stations b := any_perm h.1 _
      have hr : Pilots.ragged a = Pilots.ragged b := ragged_dictEq h.1
      have hd : ∀ len, Pilots.densify stations a len = Pilots.densify stations b len := by
        intro len
        unfold Pilots.densify
        apply List.map_congr_left
        intro st _
        rw [lookup_dictEq h]
      have hlen : Pilots.ragged b = false → p.2.length = q.2.length := by
        intro hnr
        by_contra hne
        have hp : p ∈ b := h.1.mem_iff.1 (by rw [ha]; exact List.mem_cons_self)
        have hq : q ∈ b := by rw [hb]; exact List.mem_cons_self
        have : Pilots.ragged b = true := (ragged_iff b).2 ⟨p, hp, q, hq, hne⟩
        rw [hnr] at this
        exact Bool.false_ne_true this
      obtain ⟨kp, rp⟩ := p
      obtain ⟨kq, rq⟩ := q
      have e1 : Pilots.updateSchedules stations m t l a =
          (if Pilots.unknownStation stations a then .error .keyError
           else if Pilots.ragged a then .error .invalidSchedule
           else .ok (Pilots.writeBlock (if t + rp.length ≤ m.width then m
              else Pilots.increaseWidth m (Pilots.growTarget t l rp.length)) t (Pilots.densify stations a rp.length))) := by
        rw [ha]; rfl
      have e2 : Pilots.updateSchedules stations m t l b =
          (if Pilots.unknownStation stations b then .error .keyError
           else if Pilots.ragged b then .error .invalidSchedule
           else .ok (Pilots.writeBlock (if t + rq.length ≤ m.width then m
              else Pilots.increaseWidth m (Pilots.growTarget t l rq.length)) t (Pilots.densify stations b rq.length))) := by
        rw [hb]; rfl
      rw [e1, e2, hu, hr]
      by_cases h1 : Pilots.unknownStation stations b = true
      · simp [h1]
      · by_cases h2 : Pilots.ragged b = true
        · simp [h1, h2]
        · have h2' : Pilots.ragged b = false := by simpa using h2
          have := hlen h2'
          simp only at this
          simp only [h1, h2, Bool.false_eq_true, if_false, this, hd]

/-! ### the one-sided, dict-valued equivariance and the capstone for it -/

/-- whenever the original scheduler answers a view, the permuted scheduler answers every related
    view with the same dict -/
def SchedEquivariantD (σ : List Nat) (sched sched' : View K → Except EventCore.Err (Schedule K)) : Prop :=
  ∀ v v' a, ViewRel σ v v' → sched v = .ok a → ∃ a', sched' v' = .ok a' ∧ DictEq a' a

theorem SchedEquivariant.toD {σ : List Nat} {sched sched' : View K → Except EventCore.Err (Schedule K)}
    (h : SchedEquivariant σ sched sched') (hk : ∀ v a, sched v = .ok a → (a.map (·.1)).Nodup) :
    SchedEquivariantD σ sched sched' := by
  intro v v' a hv ha
  exact ⟨a, by rw [h v v' hv, ha], List.Perm.refl _, hk v a ha⟩

section
variable {σ : List Nat} {d : Station K} {cfg : Cfg K}

theorem schedStage_equivD (h : PermOK σ cfg) {sched sched' : View K → Except EventCore.Err (Schedule K)}
    (hsch : SchedEquivariantD σ sched sched') {s s' : State K} (he : StEquiv σ s s')
    (hs : Shape cfg.stations.length s) {m : Pilots.Mat K} (hm : schedStage cfg sched s = .ok m) :
    schedStage (permCfg σ d cfg) sched' s' = .ok (m.reidx σ) := by
  unfold schedStage at hm ⊢
  rw [any_perm (activeEvs_perm (d := d) h he), permCfg_ids h, he.pilots, he.core]
  by_cases ha : (activeEvs cfg s).any (fun e => !sessionInfoOk e) = true
  · simp [ha] at hm
  · simp only [ha, Bool.false_eq_true, if_false] at hm ⊢
    cases hsv : sched (view cfg s) with
    | error e => rw [hsv] at hm; simp at hm
    | ok sch =>
      rw [hsv] at hm
      simp only at hm
      obtain ⟨sch', hsv', hde⟩ := hsch _ _ sch (view_rel (d := d) h he) hsv
      rw [hsv']
      simp only
      have hσ' : σ.Perm (List.range (cfg.stations.map (·.id)).length) := by simpa using h.perm
      rw [updateSchedules_dictEq _ _ _ _ hde,
        Pilots.updateSchedules_reidx σ _ hσ' s.pilots (by simpa using hs.pilots)]
      cases hu : Pilots.updateSchedules (cfg.stations.map (·.id)) s.pilots s.core.iter
          ((lastTs s.core.pending).map Int.toNat) sch with
      | error e => rw [hu] at hm; simp at hm
      | ok m0 =>
        rw [hu] at hm
        simp only [Except.ok.injEq] at hm
        subst hm
        rfl

/-- one trip round the loop -/
theorem body_equiv_stD (h : PermOK σ cfg) {sched sched' : View K → Except EventCore.Err (Schedule K)}
    (hsch : SchedEquivariantD σ sched sched') {s s' r : State K} (he : StEquiv σ s s')
    (hs : Shape cfg.stations.length s) (ho : OccSound cfg.core s.core.occ)
    (hr : Sim.body cfg sched s = (r, none)) :
    ∃ r', Sim.body (permCfg σ d cfg) sched' s' = (r', none) ∧ StEquiv σ r r' ∧ Shape cfg.stations.length r ∧
      OccSound cfg.core r.core.occ := by
  obtain ⟨h1, he1, hs1⟩ := eventsStage_equiv_st (d := d) h he hs
  have ho1 := (eventsStage_frame cfg s ho).2.2.2.2.2
  unfold Sim.body at hr ⊢
  have hmr : (permCfg σ d cfg).maxRecompute = cfg.maxRecompute := rfl
  cases hev : Sim.eventsStage cfg s with
  | mk s1 e1 =>
    cases hev' : Sim.eventsStage (permCfg σ d cfg) s' with
    | mk s1' e1' =>
      rw [hev] at hr h1 he1 hs1 ho1
      rw [hev'] at h1 he1
      simp only at h1 he1 hs1 ho1
      subst h1
      cases e1' with
      | some e => simp at hr
      | none =>
        simp only [hmr, he1.core] at hr ⊢
        by_cases hn : needsSched cfg.maxRecompute s1.core = true
        · simp only [hn, if_true] at hr ⊢
          have he2 : StEquiv σ { s1 with core := markInvoked s1.core } { s1' with core := markInvoked s1.core } :=
            ⟨rfl, he1.pilots, he1.rates, he1.peak, he1.evs, he1.evsePilot, he1.noiseIdx, he1.occLog⟩
          have hs2 : Shape cfg.stations.length { s1 with core := markInvoked s1.core } :=
            ⟨hs1.pilots, hs1.rates, hs1.evsePilot⟩
          cases hss : schedStage cfg sched { s1 with core := markInvoked s1.core } with
          | error e => rw [hss] at hr; simp at hr
          | ok m =>
            rw [hss] at hr
            rw [schedStage_equivD (d := d) h hsch he2 hs2 hss]
            simp only at hr ⊢
            have hm := schedStage_rows hs2 hss
            have he3 : StEquiv σ { s1 with core := markScheduled (markInvoked s1.core), pilots := m }
                { s1' with core := markScheduled (markInvoked s1.core), pilots := m.reidx σ } :=
              ⟨rfl, rfl, he1.rates, he1.peak, he1.evs, he1.evsePilot, he1.noiseIdx, he1.occLog⟩
            have hs3 : Shape cfg.stations.length { s1 with core := markScheduled (markInvoked s1.core), pilots := m } :=
              ⟨hm, hs1.rates, hs1.evsePilot⟩
            obtain ⟨r', hr', her, hsr, hocc⟩ := applyStage_equiv (d := d) h he3 hs3 ho1 hr
            exact ⟨r', hr', her, hsr, by rw [hocc]; exact ho1⟩
        · simp only [hn, Bool.false_eq_true, if_false] at hr ⊢
          have he2 : StEquiv σ s1 { s1' with core := s1.core } :=
            ⟨rfl, he1.pilots, he1.rates, he1.peak, he1.evs, he1.evsePilot, he1.noiseIdx, he1.occLog⟩
          obtain ⟨r', hr', her, hsr, hocc⟩ := applyStage_equiv (d := d) h he2 hs1 ho1 hr
          have hs' : ({ s1' with core := s1.core } : State K) = s1' := by rw [← he1.core]
          rw [hs'] at hr'
          exact ⟨r', hr', her, hsr, by rw [hocc]; exact ho1⟩

/-- the whole run, from any pair of related states -/
theorem run_equiv_stD (h : PermOK σ cfg) {sched sched' : View K → Except EventCore.Err (Schedule K)}
    (hsch : SchedEquivariantD σ sched sched') : ∀ (n : Nat) {s s' r : State K}, StEquiv σ s s' →
    Shape cfg.stations.length s → OccSound cfg.core s.core.occ → Sim.run cfg sched n s = (r, none) →
    ∃ r', Sim.run (permCfg σ d cfg) sched' n s' = (r', none) ∧ StEquiv σ r r' := by
  intro n
  induction n with
  | zero =>
    intro s s' r he _ _ hr
    simp only [Sim.run, Prod.mk.injEq, and_true] at hr
    subst hr
    exact ⟨s', rfl, he⟩
  | succ n ih =>
    intro s s' r he hs ho hr
    simp only [Sim.run] at hr ⊢
    rw [he.core]
    by_cases hg : guard s.core = true
    · simp only [hg, if_true] at hr ⊢
      cases hb : Sim.body cfg sched s with
      | mk s1 e1 =>
        rw [hb] at hr
        cases e1 with
        | some e => simp at hr
        | none =>
          simp only at hr
          obtain ⟨s1', hb', he1, hs1, ho1⟩ := body_equiv_stD (d := d) h hsch he hs ho hb
          rw [hb']
          exact ih he1 hs1 ho1 hr
    · simp only [hg, Bool.false_eq_true, if_false, Prod.mk.injEq, and_true] at hr ⊢
      subst hr
      exact ⟨s', rfl, he⟩

end

/-! ### a scheduler that answers less often -/

/-- `g` answers only where `f` does, and then the same -/
def Refines (g f : View K → Except EventCore.Err (Schedule K)) : Prop := ∀ v a, g v = .ok a → f v = .ok a

theorem schedStage_of_refines {cfg : Cfg K} {g f : View K → Except EventCore.Err (Schedule K)} (h : Refines g f)
    {s : State K} {m : Pilots.Mat K} (hm : schedStage cfg g s = .ok m) : schedStage cfg f s = .ok m := by
  unfold schedStage at hm ⊢
  by_cases ha : (activeEvs cfg s).any (fun e => !sessionInfoOk e) = true
  · simp [ha] at hm
  · simp only [ha, Bool.false_eq_true, if_false] at hm ⊢
    cases hg : g (view cfg s) with
    | error e => rw [hg] at hm; simp at hm
    | ok a =>
      rw [hg] at hm
      rw [h _ a hg]
      exact hm

theorem body_of_refines {cfg : Cfg K} {g f : View K → Except EventCore.Err (Schedule K)} (h : Refines g f)
    {s r : State K} (hb : Sim.body cfg g s = (r, none)) : Sim.body cfg f s = (r, none) := by
  unfold Sim.body at hb ⊢
  cases hev : Sim.eventsStage cfg s with
  | mk s1 e1 =>
    rw [hev] at hb
    cases e1 with
    | some e => simp at hb
    | none =>
      simp only at hb ⊢
      by_cases hn : needsSched cfg.maxRecompute s1.core = true
      · simp only [hn, if_true] at hb ⊢
        cases hss : schedStage cfg g { s1 with core := markInvoked s1.core } with
        | error e => rw [hss] at hb; simp at hb
        | ok m =>
          rw [hss] at hb
          rw [schedStage_of_refines h hss]
          exact hb
      · simp only [hn, Bool.false_eq_true, if_false] at hb ⊢
        exact hb

/-- a run that completes with the scheduler that answers less often completes, with the same result,
    with the one that answers more often -/
theorem run_of_refines {cfg : Cfg K} {g f : View K → Except EventCore.Err (Schedule K)} (h : Refines g f) :
    ∀ (n : Nat) {s r : State K}, Sim.run cfg g n s = (r, none) → Sim.run cfg f n s = (r, none) := by
  intro n
  induction n with
  | zero => intro s r hr; exact hr
  | succ n ih =>
    intro s r hr
    simp only [Sim.run] at hr ⊢
    by_cases hg : guard s.core = true
    · simp only [hg, if_true] at hr ⊢
      cases hb : Sim.body cfg g s with
      | mk s1 e1 =>
        rw [hb] at hr
        cases e1 with
        | some e => simp at hr
        | none =>
          rw [body_of_refines h hb]
          exact ih hr
    · simp only [hg, Bool.false_eq_true, if_false] at hr ⊢
      exact hr

end Acn.SimEquiv
