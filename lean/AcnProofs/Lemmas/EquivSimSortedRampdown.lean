/-
  Helper lemmas for C10 (Sim level, stations × the sorting-based algorithms WITH the rampdown estimator):
  the stateful adapter `SimSortedRd.sortedSchedSt` (estimator object = scheduler state) built from the
  permuted configuration answers station-permuted views, from a related estimator (`RdEquiv`: same
  thresholds, same entries), with the same dict / the same error and leaves a related estimator behind.
  What the estimator reads off the interface — `last_applied_pilot_signals` and
  `last_actual_charging_rate`, two dicts keyed by session id — is the same in both runs (`prevOf_rel`).
-/
import AcnProofs.Lemmas.EquivSimSortedStationsU
import AcnProofs.Lemmas.EquivSortedRampdown

set_option linter.unusedSectionVars false
set_option linter.unusedSimpArgs false
set_option linter.unusedVariables false

namespace Acn.SimSorted
open Acn Acn.Sim Acn.Sorted Acn.Feas Acn.SimEquiv Acn.SimSortedRd

variable {K : Type} [Field K] [LinearOrder K] [IsStrictOrderedRing K] [HasExp K]

theorem dictGet_perm {V : Type} {a b : List (String × V)} (hp : a.Perm b) (hn : (b.map (·.1)).Nodup) (k : String) :
    dictGet a k = dictGet b k := by
  unfold dictGet
  apply lookup_dictEq
  refine ⟨(List.reverse_perm a).trans (hp.trans (List.reverse_perm b).symm), ?_⟩
  rw [List.map_reverse]
  exact List.nodup_reverse.2 hn

/-- what `SimpleRampdown` reads off the interface is the same for station-permuted views -/
theorem prevOf_rel {σ : List Nat} {v v' : View K} (hv : ViewRelL σ v v') : prevOf v' = prevOf v := by
  funext sid
  unfold prevOf
  rw [dictGet_perm hv.lastPilots hv.nodupLast sid]
  have hr : dictGet (v'.active.map fun e => (e.session, e.rate)) sid =
      dictGet (v.active.map fun e => (e.session, e.rate)) sid := by
    apply dictGet_perm (hv.rel.active.map _)
    rw [List.map_map]
    exact hv.nodupActive
  rw [hr]

/-- tie-freeness of a call with the estimator, as a predicate on (estimator, view) -/
def TieOKRd (inf : K) (cfg : Cfg K) (scfg : Config K) (rd : Rampdown K) (v : View K) : Prop :=
  TieOKE scfg (infraOf inf cfg) cfg.period (v.iter : Int) (prevOf v) rd (v.active.map (sessionOfEv inf v.iter))

section
variable {σ : List Nat} {d : Station K} {cfg : Cfg K}

theorem sortedSchedSt_equivariantSt [HasCeilNat K] (h : PermOK σ cfg) {net : NetInfo K}
    (hnet : NetOK cfg.stations.length net) (inf : K) (scfg : Config K) (he : scfg.estimate = true) :
    SchedEquivariantSt σ RdEquiv (TieOKRd inf cfg scfg) (sortedSchedSt net inf cfg scfg)
      (sortedSchedSt (reNet σ net) inf (permCfg σ d cfg) scfg) := by
  intro rd rd' v v' hR hvl htf
  have hv := hvl.rel
  unfold sortedSchedSt
  simp only
  have hids : (infraOf inf cfg).ids.length = cfg.stations.length := by simp [infraOf]
  have hnd : (infraOf inf cfg).ids.Nodup := h.nodup
  have hallow : (infraOf inf cfg).allow.length = cfg.stations.length := by simp [infraOf]
  have hp : (v'.active.map (sessionOfEv inf v'.iter)).Perm (v.active.map (sessionOfEv inf v.iter)) := by
    rw [hv.iter]; exact hv.active.map _
  have hper : (permCfg σ d cfg).period = cfg.period := rfl
  have hsess : ((v.active.map (sessionOfEv inf v.iter)).map (·.session)).Nodup := by
    rw [List.map_map]; exact hvl.nodupActive
  obtain ⟨⟨h1, h2⟩, h3⟩ := scheduleCall_mv_rampdown h.perm (infraOf inf cfg) (feasOf net) (feasOf (reNet σ net))
    (feasOf_reNet h.perm hnet) hids hnd hallow scfg he cfg.period (v.iter : Int) (prevOf v) hR hp hsess htf
  rw [hv.iter] at h1 h3
  rw [infraOf_perm h, hper, hv.iter, prevOf_rel hvl, h1]
  cases hres : (scheduleCall (feasOf net) scfg (infraOf inf cfg) cfg.period (v.iter : Int) (prevOf v) rd
      (v.active.map (sessionOfEv inf v.iter))).result with
  | error e =>
    simp only [Except.map]
    exact ⟨fun a st1 ha => (by cases ha), fun e' he' => (by simpa using he')⟩
  | ok out =>
    simp only [Except.map]
    refine ⟨?_, fun e' he' => by cases he'⟩
    intro a st1 ha
    simp only [Except.ok.injEq, Prod.mk.injEq] at ha
    obtain ⟨ha1, ha2⟩ := ha
    refine ⟨_, _, rfl, ?_, ?_⟩
    · rw [← ha1]
      exact format_dictEq h.perm (infraOf inf cfg) hids hnd out (h2 out hres)
    · rw [← ha2]
      exact h3

end
end Acn.SimSorted
