/-
  Helper lemmas for C09 (registry, decoder 5/5): when every EV object is referenced (`AllRef`), EVERY object of the
  encoded store is reachable from the Simulator, so the dumped-and-loaded `context_dict` agrees with the encoded
  store on all ids of the layout; with `decode_of` this gives `decode (load (dump (encode s))) = s`.
-/
import AcnProofs.Lemmas.RegistryDecode4

namespace Acn.RegistrySim
open Acn Acn.EventCore Acn.Sim Acn.Registry
variable {K : Type}

theorem Reach.edge {st : Store} {i j : Id} {o : Obj} (h : st.get i = some o) (hj : j ∈ o.refs) : Reach st i j :=
  Reach.step h hj (Reach.refl j)

section refs
variable (sh : Show K) (cfg : Cfg K) (s : State K)

theorem one_mem_sim : 1 ∈ (simObj sh cfg s).refs :=
  (mem_refs_iff _ _).2 ⟨("network", .ref 1), by simp [simObj], by simp⟩

theorem two_mem_sim : 2 ∈ (simObj sh cfg s).refs :=
  (mem_refs_iff _ _).2 ⟨("event_queue", .ref 2), by simp [simObj], by simp⟩

theorem hist_mem_sim {h : Nat} (hh : h < s.core.eventHist.length) : (layout cfg s).bH + h ∈ (simObj sh cfg s).refs :=
  (mem_refs_iff _ _).2 ⟨("event_history", .list ((List.range (layout cfg s).nH).map fun h => .ref ((layout cfg s).bH + h))),
    by simp [simObj], by
      simp only [refs_list, List.mem_flatMap, List.mem_map, List.mem_range]
      exact ⟨_, ⟨h, hh, rfl⟩, by simp [Item.refs]⟩⟩

theorem evh_mem_sim {sid : String} (hs : sid ∈ s.core.evHist) {j : Nat} (hj : evIdx s sid = some j) :
    (layout cfg s).evId j ∈ (simObj sh cfg s).refs :=
  (mem_refs_iff _ _).2 ⟨("ev_history", .list (s.core.evHist.flatMap fun sid =>
      [.scalar ("s:" ++ sid), evRefItem (layout cfg s) s sid])), by simp [simObj], by
    simp only [refs_list, List.mem_flatMap]
    exact ⟨evRefItem (layout cfg s) s sid, ⟨sid, hs, by simp⟩, by simp [evRefItem, hj, Item.refs]⟩⟩

theorem evse_mem_net {i : Nat} (hi : i < cfg.stations.length) : 3 + i ∈ (netObj cfg).refs :=
  (mem_refs_iff _ _).2 ⟨("_EVSEs", .list ((List.range cfg.stations.length).flatMap fun i =>
      [.scalar ("s:" ++ ((cfg.stations.getD i ⟨"", .finite [], cfg.period⟩).id)), .ref (3 + i)])), by simp [netObj], by
    simp only [refs_list, List.mem_flatMap, List.mem_range]
    exact ⟨.ref (3 + i), ⟨i, hi, by simp⟩, by simp [Item.refs]⟩⟩

theorem pending_mem_queue {p : Nat} (hp : p < s.core.pending.length) : (layout cfg s).bP + p ∈ (queueObj cfg s).refs :=
  (mem_refs_iff _ _).2 ⟨("_queue", .list ((List.range (layout cfg s).nP).flatMap fun p =>
      [.scalar ("i:" ++ toString ((s.core.pending.getD p default).ts)), .ref ((layout cfg s).bP + p)])),
    by simp [queueObj], by
      simp only [refs_list, List.mem_flatMap, List.mem_range]
      exact ⟨.ref ((layout cfg s).bP + p), ⟨p, hp, by simp⟩, by simp [Item.refs]⟩⟩

theorem ev_mem_event (l : Layout) {e : Event} (hk : e.kind ≠ .recompute) {j : Nat} (hj : evIdx s e.sess = some j) :
    l.evId j ∈ (eventObj l s e).refs := by
  refine (mem_refs_iff _ _).2 ⟨("ev", evRefVal l s e.sess), ?_, by simp [evRefVal, hj]⟩
  unfold eventObj
  cases h : e.kind with
  | recompute => exact absurd h hk
  | plugin => simp
  | unplug => simp

theorem ev_mem_evse {i : Nat} {x : Session}
    (ho : s.core.occ (cfg.stations.getD i ⟨"", .finite [], cfg.period⟩).id = some x) {j : Nat}
    (hj : evIdx s x.id = some j) : (layout cfg s).evId j ∈ (evseObj sh cfg s i).refs := by
  refine (mem_refs_iff _ _).2 ⟨("_ev", evRefVal (layout cfg s) s x.id), ?_, by simp [evRefVal, hj]⟩
  unfold evseObj
  simp only [ho]
  split <;> simp

theorem batt_mem_ev (j : Nat) : (layout cfg s).battId j ∈ (evObj sh cfg s j).refs :=
  (mem_refs_iff _ _).2 ⟨("_battery", .ref ((layout cfg s).battId j)), by simp [evObj, evObjOf], by simp⟩

end refs

/-- every object of the encoded store is reachable from the Simulator when every EV object is referenced -/
theorem reach_all (sh : Show K) (cfg : Cfg K) (s : State K) (hr : AllRef cfg s) :
    ∀ i, i < (layout cfg s).size → Reach (encode sh cfg s) root i := by
  have hsz := size_eq cfg s
  have hbE : (layout cfg s).bE = 3 + cfg.stations.length := rfl
  have hbP : (layout cfg s).bP = 3 + cfg.stations.length + 2 * s.evs.length := rfl
  have hbH : (layout cfg s).bH = 3 + cfg.stations.length + 2 * s.evs.length + s.core.pending.length := rfl
  have hget : ∀ i, i < (layout cfg s).size → (encode sh cfg s).get i = some (objAt sh cfg s i) := fun i hi => by
    rw [get_encode, if_pos hi]
  have g0 : (encode sh cfg s).get root = some (simObj sh cfg s) := by
    rw [hget _ (root_lt cfg s)]; exact congrArg some (objAt_0 sh cfg s)
  have r1 : Reach (encode sh cfg s) root 1 := Reach.edge g0 (one_mem_sim sh cfg s)
  have r2 : Reach (encode sh cfg s) root 2 := Reach.edge g0 (two_mem_sim sh cfg s)
  have rEvse : ∀ i, i < cfg.stations.length → Reach (encode sh cfg s) root (3 + i) := fun i hi =>
    r1.trans (Reach.edge (by rw [hget _ (by omega), objAt_1]) (evse_mem_net cfg hi))
  have rPend : ∀ p, p < s.core.pending.length → Reach (encode sh cfg s) root ((layout cfg s).bP + p) := fun p hp =>
    r2.trans (Reach.edge (by rw [hget _ (by omega), objAt_2]) (pending_mem_queue cfg s hp))
  have rHist : ∀ h, h < s.core.eventHist.length → Reach (encode sh cfg s) root ((layout cfg s).bH + h) := fun h hh =>
    Reach.edge g0 (hist_mem_sim sh cfg s hh)
  have rEv : ∀ j, j < s.evs.length → Reach (encode sh cfg s) root ((layout cfg s).evId j) := by
    intro j hj
    obtain ⟨sid, hsid, hidx⟩ := hr j hj
    simp only [refSessions, List.mem_append, List.mem_map, List.mem_filter, List.mem_filterMap] at hsid
    rcases hsid with (hsid | ⟨e, ⟨he, hk⟩, rfl⟩) | ⟨st, hst, hocc⟩
    · exact Reach.edge g0 (evh_mem_sim sh cfg s hsid hidx)
    · have hk' : e.kind ≠ .recompute := by simpa using hk
      rcases he with he | he
      · obtain ⟨p, hp, hpe⟩ := List.getElem_of_mem he
        have hd : s.core.pending.getD p default = e := by simp [List.getD, List.getElem?_eq_getElem hp, hpe]
        refine (rPend p hp).trans (Reach.edge (by rw [hget _ (by omega), objAt_pending sh cfg s hp, hd]) ?_)
        exact ev_mem_event s _ hk' hidx
      · obtain ⟨p, hp, hpe⟩ := List.getElem_of_mem he
        have hd : s.core.eventHist.getD p default = e := by simp [List.getD, List.getElem?_eq_getElem hp, hpe]
        refine (rHist p hp).trans (Reach.edge (by rw [hget _ (by omega), objAt_hist, hd]) ?_)
        exact ev_mem_event s _ hk' hidx
    · obtain ⟨i, hi, hie⟩ := List.getElem_of_mem hst
      have hd : cfg.stations.getD i ⟨"", .finite [], cfg.period⟩ = st := by
        simp [List.getD, List.getElem?_eq_getElem hi, hie]
      cases ho : s.core.occ st.id with
      | none => rw [ho] at hocc; simp at hocc
      | some x =>
        rw [ho] at hocc
        simp only [Option.map_some, Option.some.injEq] at hocc
        refine (rEvse i hi).trans (Reach.edge (by rw [hget _ (by omega), objAt_evse sh cfg s hi]) ?_)
        exact ev_mem_evse sh cfg s (by rw [hd]; exact ho) (by rw [hocc]; exact hidx)
  intro i hi
  by_cases c0 : i = 0
  · subst c0; exact Reach.refl _
  by_cases c1 : i = 1
  · subst c1; exact r1
  by_cases c2 : i = 2
  · subst c2; exact r2
  by_cases c3 : i < 3 + cfg.stations.length
  · have := rEvse (i - 3) (by omega)
    rwa [show 3 + (i - 3) = i by omega] at this
  by_cases c4 : i < (layout cfg s).bP
  · have hjl : (i - (layout cfg s).bE) / 2 < s.evs.length := by omega
    by_cases hpar : (i - (layout cfg s).bE) % 2 = 0
    · have := rEv _ hjl
      rwa [show (layout cfg s).evId ((i - (layout cfg s).bE) / 2) = i by unfold Layout.evId; omega] at this
    · have hb := (rEv _ hjl).trans (Reach.edge (by rw [hget _ (evId_lt' cfg s hjl), objAt_ev sh cfg s hjl])
        (batt_mem_ev sh cfg s _))
      rwa [show (layout cfg s).battId ((i - (layout cfg s).bE) / 2) = i by unfold Layout.battId; omega] at hb
  by_cases c5 : i < (layout cfg s).bH
  · have := rPend (i - (layout cfg s).bP) (by omega)
    rwa [show (layout cfg s).bP + (i - (layout cfg s).bP) = i by omega] at this
  · have := rHist (i - (layout cfg s).bH) (by omega)
    rwa [show (layout cfg s).bH + (i - (layout cfg s).bH) = i by omega] at this

/-- sessions pairwise distinct and each referenced ⇒ every EV object referenced -/
theorem allRef_of_nodup {cfg : Cfg K} {s : State K} (hn : (s.evs.map (·.session)).Nodup)
    (hall : ∀ e ∈ s.evs, e.session ∈ refSessions cfg s) : AllRef cfg s := by
  intro j hj
  refine ⟨s.evs[j].session, hall _ (List.getElem_mem hj), ?_⟩
  have hE : evOf s s.evs[j].session = some s.evs[j] := by
    unfold evOf
    rw [List.find?_eq_some_iff_getElem]
    refine ⟨by simp, j, hj, rfl, fun k hk => ?_⟩
    have hne : (s.evs.map (·.session))[k]'(by simp; omega) ≠ (s.evs.map (·.session))[j]'(by simp; omega) := by
      intro heq
      have := (List.Nodup.getElem_inj_iff hn).1 heq
      omega
    simpa using hne
  obtain ⟨j', h1, h2, h3⟩ := evIdx_of_evOf hE s.evs[j]
  have : j' = j := by
    have e1 : (s.evs.map (·.session))[j']'(by simp; omega) = (s.evs.map (·.session))[j]'(by simp; omega) := by
      simp only [List.getElem_map]
      have : s.evs[j'] = s.evs[j] := by
        have := h3; simp only [List.getD, List.getElem?_eq_getElem h2, Option.getD_some] at this; exact this
      rw [this]
    exact (List.Nodup.getElem_inj_iff hn).1 e1
  rw [h1, this]

end Acn.RegistrySim
