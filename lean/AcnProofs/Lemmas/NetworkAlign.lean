/-
  Helper lemmas for C12: the three parallel containers of `ChargingNetwork` refine a plain list
  of constraints, one operation at a time.
-/
import AcnModel.Network
import Mathlib.Tactic

set_option linter.unusedSectionVars false
set_option linter.unusedSimpArgs false
set_option linter.unusedTactic false
set_option linter.unreachableTactic false

namespace Acn.Network
variable {K : Type} [Zero K]

/-- The alignment relation between the code's state and the specification's list. -/
structure Refines (n : Net K) (sp : Spec K) : Prop where
  stations : n.stations = sp.stations
  frozen : n.matrix.isSome = sp.frozen
  index : n.index = sp.cons.map (·.name)
  mags : n.magnitudes = sp.cons.map (·.limit)
  rows : n.matrix.getD [] = sp.cons.map (fun t => Net.row sp.stations t.cur)

theorem refines_init : Refines (Net.init : Net K) Spec.init :=
  ⟨by first | rfl | trivial, rfl, rfl, rfl, rfl⟩

theorem Refines.cons_nil_of_not_frozen {n : Net K} {sp : Spec K} (h : Refines n sp)
    (hf : sp.frozen = false) : sp.cons = [] := by
  have h1 := h.frozen
  rw [hf] at h1
  have h2 := h.rows
  cases hm : n.matrix with
  | none => rw [hm] at h2; simpa using h2.symm
  | some r => rw [hm] at h1; cases h1

/-! ### erasing the first constraint with a given name, in all three containers -/

theorem eraseP_map (cons : List (Constraint K)) (nm : String) {β : Type} (f : Constraint K → β) :
    (cons.eraseP (fun t => decide (t.name = nm))).map f =
      (cons.map f).eraseIdx ((cons.map (·.name)).idxOf nm) := by
  induction cons with
  | nil => simp
  | cons t ts ih =>
    by_cases h : t.name = nm
    · simp [List.eraseP_cons, List.idxOf_cons, h]
    · simp [List.eraseP_cons, List.idxOf_cons, h, ih]

theorem eraseP_names (cons : List (Constraint K)) (nm : String) :
    (cons.eraseP (fun t => decide (t.name = nm))).map (·.name) = (cons.map (·.name)).erase nm := by
  induction cons with
  | nil => simp
  | cons t ts ih =>
    by_cases h : t.name = nm
    · simp [List.eraseP_cons, List.erase_cons, h]
    · simp [List.eraseP_cons, List.erase_cons, h, ih]

/-! ### one operation -/

theorem register_refines {n : Net K} {sp : Spec K} (h : Refines n sp) (s : String) :
    (n.register s).2 = (sp.register s).2 ∧ Refines (n.register s).1 (sp.register s).1 := by
  unfold Net.register Spec.register
  rw [h.frozen]
  cases hf : sp.frozen with
  | true => simp only [↓reduceIte]; exact ⟨trivial, h⟩
  | false =>
    have hc := h.cons_nil_of_not_frozen hf
    simp only [Bool.false_eq_true, ↓reduceIte]
    refine ⟨by first | rfl | trivial, ⟨?_, ?_, h.index, h.mags, ?_⟩⟩
    · simp only [h.stations]
    · rw [← hf]; exact h.frozen
    · have := h.rows
      simp only [hc, List.map_nil] at this ⊢
      exact this

theorem keys_all_iff (c : Current K) (st : List String) :
    (c.keys.all (fun k => decide (k ∈ st)) = true) ↔ ∀ k ∈ c.keys, k ∈ st := by
  simp [List.all_eq_true]

theorem add_refines {n : Net K} {sp : Spec K} (h : Refines n sp) (c : Current K) (limit : K)
    (name : Option String) :
    (n.addConstraint c limit name).2 = (sp.add c limit name).2 ∧
      Refines (n.addConstraint c limit name).1 (sp.add c limit name).1 := by
  unfold Net.addConstraint Spec.add
  have hlen : (n.matrix.getD []).length = n.index.length := by
    rw [h.rows, h.index]; simp
  have hnames : sp.names = n.index := by rw [h.index]; rfl
  by_cases hk : ∀ k ∈ c.keys, k ∈ sp.stations
  · have hk' : c.keys.all (fun k => decide (k ∈ n.stations)) = true := by
      rw [keys_all_iff, h.stations]; exact hk
    rw [if_pos hk', if_pos hk]
    simp only [hlen, ne_eq, not_true_eq_false, if_false, hnames]
    by_cases h0 : n.index.length = 0
    · have hc : sp.cons = [] := by
        have := h.index; rw [List.length_eq_zero_iff.mp h0] at this
        simpa using this.symm
      have hm : n.magnitudes = [] := by rw [h.mags, hc]; rfl
      simp only [h0, if_true]
      exact ⟨by first | rfl | trivial, ⟨h.stations, rfl, by simp [hc], by simp [hc, hm], by simp [hc, h.stations]⟩⟩
    · simp only [h0, if_false]
      exact ⟨by first | rfl | trivial, ⟨h.stations, rfl, by simp [h.index], by simp [h.mags],
        by simp [h.rows, h.stations]⟩⟩
  · have hk' : ¬ (c.keys.all (fun k => decide (k ∈ n.stations)) = true) := by
      rw [keys_all_iff, h.stations]; exact hk
    rw [if_neg hk', if_neg hk]
    exact ⟨by first | rfl | trivial, h⟩

theorem remove_refines {n : Net K} {sp : Spec K} (h : Refines n sp) (name : String) :
    (n.removeConstraint name).2 = (sp.remove name).2 ∧
      Refines (n.removeConstraint name).1 (sp.remove name).1 := by
  unfold Net.removeConstraint Spec.remove
  have hnames : sp.names = n.index := by rw [h.index]; rfl
  rw [hnames]
  by_cases hin : name ∈ n.index
  · simp only [hin, if_true]
    cases hm : n.matrix with
    | none =>
      exfalso
      have h2 := h.rows
      rw [hm] at h2
      have hc : sp.cons = [] := by simpa using h2.symm
      rw [h.index, hc] at hin
      cases hin
    | some rows =>
      have hr : rows = sp.cons.map (fun t => Net.row sp.stations t.cur) := by
        have := h.rows; rw [hm] at this; exact this
      refine ⟨by first | rfl | trivial, ⟨h.stations, ?_, ?_, ?_, ?_⟩⟩
      · have := h.frozen; rw [hm] at this; exact this
      · show n.index.erase name = _
        rw [h.index]; exact (eraseP_names sp.cons name).symm
      · show n.magnitudes.eraseIdx (n.index.idxOf name) = _
        rw [h.mags, h.index]; exact (eraseP_map sp.cons name (·.limit)).symm
      · show rows.eraseIdx (n.index.idxOf name) = _
        rw [hr, h.index]
        exact (eraseP_map sp.cons name (fun t => Net.row sp.stations t.cur)).symm
  · simp only [hin, if_false]
    exact ⟨by first | rfl | trivial, h⟩

theorem update_refines {n : Net K} {sp : Spec K} (h : Refines n sp) (name : String)
    (c : Current K) (limit : K) (newName : Option String) :
    (n.updateConstraint name c limit newName).2 = (sp.update name c limit newName).2 ∧
      Refines (n.updateConstraint name c limit newName).1 (sp.update name c limit newName).1 := by
  unfold Net.updateConstraint Spec.update
  have hnames : sp.names = n.index := by rw [h.index]; rfl
  rw [hnames]
  by_cases hin : name ∈ n.index
  · simp only [hin, if_true]
    have hr := remove_refines h name
    -- the removal cannot fail here
    have hs : (sp.remove name).2 = none := by
      unfold Spec.remove; rw [hnames]; simp [hin]
    rcases hrm : n.removeConstraint name with ⟨n1, e1⟩
    rw [hrm] at hr
    simp only at hr
    rw [hs] at hr
    obtain ⟨he, hr⟩ := hr
    subst he
    exact add_refines hr c limit _
  · simp only [hin, if_false]
    exact ⟨by first | rfl | trivial, h⟩

theorem step_refines {n : Net K} {sp : Spec K} (h : Refines n sp) (o : Op K) :
    (n.step o).2 = (sp.step o).2 ∧ Refines (n.step o).1 (sp.step o).1 := by
  cases o with
  | register s => exact register_refines h s
  | add c l nm => exact add_refines h c l nm
  | remove nm => exact remove_refines h nm
  | update nm c l nn => exact update_refines h nm c l nn

theorem run_refines {n : Net K} {sp : Spec K} (h : Refines n sp) (ops : List (Op K)) :
    n.trace ops = sp.trace ops ∧ Refines (n.run ops) (sp.run ops) := by
  induction ops generalizing n sp with
  | nil => exact ⟨by first | rfl | trivial, h⟩
  | cons o os ih =>
    obtain ⟨he, hr⟩ := step_refines h o
    obtain ⟨ht, hf⟩ := ih hr
    refine ⟨?_, ?_⟩
    · simp only [Net.trace, Spec.trace, he, ht]
    · simpa [Net.run, Spec.run] using hf

/-! ### a raising operation changes nothing, except the non-atomic update -/

theorem spec_step_error_unchanged (sp : Spec K) (o : Op K) (e : Err) (he : (sp.step o).2 = some e)
    (hu : ∀ nm c l nn, o = .update nm c l nn → nm ∉ sp.names) : (sp.step o).1 = sp := by
  cases o with
  | register s =>
    simp only [Spec.step, Spec.register] at he ⊢
    split at he <;> simp_all
  | add c l nm =>
    simp only [Spec.step, Spec.add] at he ⊢
    by_cases hk : ∀ k ∈ c.keys, k ∈ sp.stations
    · rw [if_pos hk] at he; cases he
    · rw [if_neg hk]
  | remove nm =>
    simp only [Spec.step, Spec.remove] at he ⊢
    split at he <;> simp_all
  | update nm c l nn =>
    have := hu nm c l nn rfl
    simp only [Spec.step, Spec.update, this, if_false]

end Acn.Network
