/-
  C19, full simulator on the stochastic network: small facts used by `AcnProofs/C19Abort.lean`
  (`no_starvation_behind_satisfied`, `end_to_end_sim_abort`) over an arbitrary carrier — the
  post-charging hook leaves the EV records (energies) alone and does to the network what `Net.post`
  does with `fully_charged` computed; the scheduler and apply stages leave the network alone; a raising
  scheduler stage has changed nothing; nothing in the loop writes the `early_departure` flag.
-/
import AcnProofs.Lemmas.SimStochastic
import AcnProofs.Lemmas.SimStochasticLedger
import AcnProofs.Lemmas.StochasticSatisfied
import AcnProofs.Lemmas.EventCoreGMLast

set_option linter.unusedSectionVars false

namespace Acn.SimSt
open Acn Acn.EventCore Acn.Stoch

variable {K : Type} [Add K] [Sub K] [Mul K] [Div K] [Neg K] [LT K] [LE K]
  [DecidableLT K] [DecidableLE K] [OfNat K 0] [OfNat K 1] [NatCast K] [HasExp K]

theorem resetPilot_evs (cfg : Sim.Cfg K) (num : Num K) (o : Option Station) :
    (resetPilot cfg num o).evs = num.evs := by
  cases o <;> rfl

theorem foldl_earlyStepS_evs (cfg : Sim.Cfg K) : ∀ (l : List Sess) (sp sp' : St K),
    l.foldlM (earlyStepS cfg) sp = .ok sp' → sp'.2.evs = sp.2.evs
  | [], sp, sp', h => by
    have : sp = sp' := by simpa [pure, Except.pure] using h
    rw [this]
  | x :: l, sp, sp', h => by
    simp only [List.foldlM_cons] at h
    cases hx : earlyStepS cfg sp x with
    | error e => rw [hx] at h; simp [bind, Except.bind] at h
    | ok sp1 =>
      rw [hx] at h
      have h' : l.foldlM (earlyStepS cfg) sp1 = .ok sp' := by simpa [bind, Except.bind] using h
      have ih := foldl_earlyStepS_evs cfg l sp1 sp' h'
      rw [ih]
      unfold earlyStepS at hx
      split at hx
      · cases hx
      · have := Except.ok.inj hx
        rw [← this]
        simp only
        split
        · rfl
        · exact resetPilot_evs cfg _ _

/-- `post_charging_update` does not touch the EV records (energies) -/
theorem postS_evs (cfg : Sim.Cfg K) (t : Nat) (sp : St K) : (postS cfg t sp).1.2.evs = sp.2.evs := by
  unfold postS
  cases hp : postNet cfg sp with
  | error e => rfl
  | ok sp' =>
    simp only
    unfold postNet at hp
    split at hp
    · exact foldl_earlyStepS_evs cfg _ sp sp' hp
    · have : sp = sp' := by simpa [pure, Except.pure] using hp
      rw [this]

theorem fullOf_congr (cfg : Sim.Cfg K) {a b : Num K} (h : a.evs = b.evs) : fullOf cfg a = fullOf cfg b := by
  funext x
  simp only [fullOf, h]

/-- on an invariant state the hook's network result is `Net.post` with `fully_charged` computed -/
theorem postS_net (cfg : Sim.Cfg K) (t : Nat) (sp n2 : St K) (hI : Inv sp.1)
    (h : postS cfg t sp = (n2, none)) : sp.1.post (fullOf cfg sp.2) = .ok n2.1 := by
  obtain ⟨s1, h1, _⟩ := hI.post (fullOf cfg sp.2)
  obtain ⟨num', hn⟩ := postNet_ok cfg sp s1 h1
  simp only [postS, hn, Prod.mk.injEq] at h
  rw [← h.1]
  exact h1

theorem schedS_net1 (cfg : Sim.Cfg K) (sched : Sim.View K → Except EventCore.Err (Sim.Schedule K))
    (g : CoreG (St K)) : (schedS cfg sched g).1.1 = g.net.1 := by
  unfold schedS
  split <;> rfl

/-- a raising scheduler stage has changed nothing -/
theorem schedS_err {cfg : Sim.Cfg K} {sched : Sim.View K → Except EventCore.Err (Sim.Schedule K)}
    {g : CoreG (St K)} {n1 : St K} {e : EventCore.Err} (h : schedS cfg sched g = (n1, some e)) :
    n1 = g.net := by
  unfold schedS at h
  split at h
  · simp only [Prod.mk.injEq] at h
    exact h.1.symm
  · simp at h

theorem schedOut_net1 {cfg : Sim.Cfg K} {sched : Sim.View K → Except EventCore.Err (Sim.Schedule K)}
    {g1 gB : CoreG (St K)} (h : SchedOut cfg.core (schedS cfg sched) g1 gB) : gB.net.1 = g1.net.1 := by
  rcases h with ⟨_, rfl⟩ | ⟨ns, _, hsc, rfl⟩
  · rfl
  · have := schedS_net1 cfg sched { g1 with core := markInvoked g1.core }
    rw [hsc] at this
    exact this

/-! ### the constructor flag `early_departure` along the run -/

theorem netOps_plugin_flag (cs : Nat → Nat) (cfg : Sim.Cfg K) (s : St K) (x : EventCore.Session) :
    ((netOps cs cfg).plugin s x).1.1.earlyDeparture = s.1.earlyDeparture := by
  show (liftOp s.1 (s.1.processEvent cs (EventCore.plugEv x))).1.earlyDeparture = _
  cases h : s.1.processEvent cs (EventCore.plugEv x) with
  | error e => rfl
  | ok s' => exact processEvent_earlyDeparture h

theorem netOps_unplug_flag (cs : Nat → Nat) (cfg : Sim.Cfg K) (s : St K) (x : EventCore.Session) :
    ((netOps cs cfg).unplug s x).1.1.earlyDeparture = s.1.earlyDeparture := by
  show (liftOp s.1 (s.1.processEvent cs (EventCore.unplugEv x))).1.earlyDeparture = _
  cases h : s.1.processEvent cs (EventCore.unplugEv x) with
  | error e => rfl
  | ok s' => exact processEvent_earlyDeparture h

/-- nothing in the loop writes `early_departure` -/
theorem flag_keepsJ (cfg : Sim.Cfg K) (cs : Nat → Nat)
    (sched : Sim.View K → Except EventCore.Err (Sim.Schedule K)) (early : Bool) :
    KeepsJ heapQ (netOps cs cfg) (postS cfg) cfg.core (schedS cfg sched) (applyS cfg)
      (fun hist (s : St K) => LoopInv cfg.core hist s.1)
      (fun g => g.net.1.earlyDeparture = early) where
  events := by
    intro g g1 h hJ
    have := (eventsStageG_frame (ops := heapQ) (cfg := cfg.core) (fun s : St K => s.1.earlyDeparture)
      (netOps_plugin_flag cs cfg) (netOps_unplug_flag cs cfg) g).1
    rw [h] at this
    exact this.trans hJ
  flags := fun _ _ _ hJ => hJ
  sched := by
    intro g n1 h hJ
    have := schedS_net1 cfg sched g
    rw [h] at this
    show n1.1.earlyDeparture = early
    rw [this]
    exact hJ
  finish := by
    intro g n1 n2 hP hap hpo hJ
    have hn1 : n1.1 = g.net.1 := by
      have : (applyS cfg g).1.1 = g.net.1 := rfl
      rw [hap] at this
      exact this
    have hI : Inv n1.1 := by rw [hn1]; exact hP.inv
    have := hI.post_earlyDeparture _ (postS_net cfg g.core.iter n1 n2 hI hpo)
    show n2.1.earlyDeparture = early
    rw [this, hn1]
    exact hJ

end Acn.SimSt
