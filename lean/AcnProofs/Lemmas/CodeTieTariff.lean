/-
  T1c — the hand-written kernels ARE the code, by proof (Tariff group, property C17).

  `AcnModel/Gen/CodeTariff.lean` is regenerated on every run from the Python AST of /repo's working tree
  (harness/translate_code.py).  Translated: the list comprehension at the head of
  `TimeOfUseTariff._get_tariff_schedule` (signals/tariffs/tou_tariff.py)

      [s for s in self._schedule
         if s.dow_mask[date_time.weekday()] and s.start <= (date_time.month, date_time.day) <= s.end]

  as a `List.filter`, with the chained comparison of (month, day) tuples written out as Python compares
  tuples (first components, then second ones) and `dow_mask[weekday]` read as the model reads it
  (`mask.getD wd false`; `weekday()` is 0…6 and every mask has seven entries).  It equals
  `Tariff.validSchedules`, the function `Tariff.selectSchedule` — and through it `C17.lookup_spec`,
  `select_of_count_one`, `tariff_total_of_table`, the per-file `total_unambiguous_*` tables — decide on.

  Not translated (T2 only): the three-way decision on the number of valid schedules (its two `ValueError`s
  differ only in their message), the loop over `sorted(…, reverse=True)` in `get_tariff`, the `Decimal`
  arithmetic of `target_hour`.
-/
import AcnModel.Gen.CodeTariff
import AcnModel.Tariff

namespace Acn.CodeTie
open Acn Acn.Tariff

section
variable {K : Type}

/-- the validity test of one schedule, as the comprehension writes it, is the model's -/
theorem tariff_valid_test (s : Schedule K) (md : Nat × Nat) (wd : Nat) :
    ((s.mask.getD wd false) &&
        ((decide (s.start.1 < md.1) || (s.start.1 == md.1 && decide (s.start.2 ≤ md.2))) &&
         (decide (md.1 < s.stop.1) || (md.1 == s.stop.1 && decide (md.2 ≤ s.stop.2)))))
      = (s.mask.getD wd false && mdLe s.start md && mdLe md s.stop) := by
  unfold mdLe
  rw [Bool.and_assoc]

/-- the schedules `_get_tariff_schedule` considers valid are `Tariff.validSchedules` -/
theorem tariff_valid_schedules_tie (l : List (Schedule K)) (md : Nat × Nat) (wd : Nat) :
    Gen.Code.tariff_valid_schedules l md wd = validSchedules l md wd := by
  unfold Gen.Code.tariff_valid_schedules validSchedules
  simp only [tariff_valid_test]

end

/-- every target of this group was translated in this run -/
theorem all_translated_tariff : Gen.Code.translatedTariff = ["tariff_valid_schedules"] := by decide

end Acn.CodeTie
