/-
  Helper lemmas for C17: the model of `decimal.Decimal` rounding (`roundQ`, `Dec.add`).
  * `roundQ_err`   : |roundQ p num/den − num/den| ≤ ½·10^(exponent of the result)  (half an ulp)
  * `roundQ_exp_le`: exponent ≤ ndigits num − ndigits den − p + 1
  * `ndigits_le_of_lt`: n < 10^K → ndigits n ≤ K
  * `add_err`      : the same half-ulp bound for `Dec.add`
-/
import AcnModel.Tariff
import Mathlib.Tactic

namespace Acn.C17
open Acn.Tariff

@[simp] theorem force_eq {α : Type} (n : Nat) (f : Nat → α) : force n f = f n := by
  cases n <;> rfl

/-- exact value as coefficient × power of ten -/
theorem toRat_zpow (d : Dec) : d.toRat = (d.c : ℚ) * (10 : ℚ) ^ d.e := by
  unfold Dec.toRat
  by_cases h : 0 ≤ d.e
  · rw [if_pos h]
    obtain ⟨n, hn⟩ := Int.eq_ofNat_of_zero_le h
    rw [hn]; simp
  · rw [if_neg h]
    rw [not_le] at h
    obtain ⟨n, hn⟩ := Int.exists_eq_neg_ofNat (le_of_lt h)
    rw [hn]; simp [div_eq_mul_inv]

/-- round-half-even is within ½ of the exact quotient -/
theorem halfEven_err (num den : Nat) (hden : 0 < den) :
    |((halfEven num den : Nat) : ℚ) - (num : ℚ) / den| ≤ 1 / 2 := by
  have hd : (0 : ℚ) < den := by exact_mod_cast hden
  have hn : (num : ℚ) = (den : ℚ) * ((num / den : Nat) : ℚ) + ((num % den : Nat) : ℚ) := by
    exact_mod_cast (Nat.div_add_mod num den).symm
  have hr : ((num % den : Nat) : ℚ) < den := by exact_mod_cast Nat.mod_lt num hden
  have hr0 : (0 : ℚ) ≤ ((num % den : Nat) : ℚ) := by positivity
  have hq : (num : ℚ) / den = ((num / den : Nat) : ℚ) + ((num % den : Nat) : ℚ) / den := by
    rw [hn]; field_simp
  simp only [halfEven, force_eq]
  rw [hq]
  set q := num / den
  set r := num % den
  have hrd : ((r : ℕ) : ℚ) / den < 1 := (div_lt_one hd).mpr hr
  have hrd0 : (0 : ℚ) ≤ (r : ℚ) / den := by positivity
  split_ifs with h1 h2 h3
  · have : (den : ℚ) < 2 * r := by exact_mod_cast h1
    have : (1 : ℚ) / 2 < (r : ℚ) / den := by rw [lt_div_iff₀ hd]; linarith
    push_cast; rw [abs_le]; constructor <;> linarith
  · have : (2 : ℚ) * r = den := by exact_mod_cast h2
    have : (r : ℚ) / den = 1 / 2 := by rw [div_eq_iff (ne_of_gt hd)]; linarith
    push_cast; rw [abs_le]; constructor <;> linarith
  · have : (2 : ℚ) * r = den := by exact_mod_cast h2
    have : (r : ℚ) / den = 1 / 2 := by rw [div_eq_iff (ne_of_gt hd)]; linarith
    rw [abs_le]; constructor <;> linarith
  · have h1' : (2 : ℚ) * r ≤ den := by exact_mod_cast not_lt.mp h1
    have h2' : (2 : ℚ) * r ≠ den := by exact_mod_cast h2
    have : (r : ℚ) / den ≤ 1 / 2 := by rw [div_le_iff₀ hd]; linarith
    rw [abs_le]; constructor <;> linarith

/-- half-ulp bound once the exponent is decided, whatever the digit counts say -/
theorem roundQ2_err (p num den da db g : Nat) (hden : 0 < den) :
    |(roundQ2 p num den da db g).toRat - (num : ℚ) / den| ≤
      1 / 2 * (10 : ℚ) ^ (roundQ2 p num den da db g).e := by
  have hd : (0 : ℚ) < den := by exact_mod_cast hden
  unfold roundQ2
  simp only [force_eq]
  split_ifs with h
  · set e := da + g - (db + p)
    have hP : (0 : ℚ) < (10 : ℚ) ^ e := by positivity
    have hh := halfEven_err num (den * 10 ^ e) (by positivity)
    rw [toRat_zpow]
    simp only [zpow_natCast]
    have : ((halfEven num (den * 10 ^ e) : ℕ) : ℚ) * (10 : ℚ) ^ e - (num : ℚ) / den =
        (((halfEven num (den * 10 ^ e) : ℕ) : ℚ) - (num : ℚ) / ((den * 10 ^ e : ℕ) : ℚ)) * (10 : ℚ) ^ e := by
      push_cast; field_simp
    rw [this, abs_mul, abs_of_pos hP]
    exact mul_le_mul_of_nonneg_right hh (le_of_lt hP)
  · set e := db + p - (da + g)
    have hP : (0 : ℚ) < (10 : ℚ) ^ e := by positivity
    have hh := halfEven_err (num * 10 ^ e) den hden
    rw [toRat_zpow]
    simp only [zpow_neg, zpow_natCast]
    have : ((halfEven (num * 10 ^ e) den : ℕ) : ℚ) * ((10 : ℚ) ^ e)⁻¹ - (num : ℚ) / den =
        (((halfEven (num * 10 ^ e) den : ℕ) : ℚ) - ((num * 10 ^ e : ℕ) : ℚ) / den) * ((10 : ℚ) ^ e)⁻¹ := by
      push_cast; field_simp
    rw [this, abs_mul, abs_of_pos (inv_pos.mpr hP)]
    exact mul_le_mul_of_nonneg_right hh (le_of_lt (inv_pos.mpr hP))

theorem roundQ2_exp (p num den da db g : Nat) :
    (roundQ2 p num den da db g).e = (da : ℤ) + g - db - p := by
  unfold roundQ2
  simp only [force_eq]
  split_ifs with h <;> simp <;> omega

theorem roundQ1_err (p num den da db : Nat) (hden : 0 < den) :
    |(roundQ1 p num den da db).toRat - (num : ℚ) / den| ≤
      1 / 2 * (10 : ℚ) ^ (roundQ1 p num den da db).e := by
  unfold roundQ1
  simp only [force_eq]
  exact roundQ2_err _ _ _ _ _ _ hden

theorem roundQ1_exp_le (p num den da db : Nat) :
    (roundQ1 p num den da db).e ≤ (da : ℤ) - db - p + 1 := by
  unfold roundQ1
  simp only [force_eq, roundQ2_exp]
  split_ifs <;> simp <;> omega

theorem roundQ_of_pos (p num den : Nat) (h : num ≠ 0) :
    roundQ p num den = roundQ1 p num den (ndigits num) (ndigits den) := by
  unfold roundQ
  simp only [force_eq, if_neg h]

theorem roundQ_zero (p den : Nat) : roundQ p 0 den = ⟨0, 0⟩ := by
  unfold roundQ
  simp only [force_eq, if_true]

/-- **rounding bound**: the result is within half a unit of its last place of the exact quotient -/
theorem roundQ_err (p num den : Nat) (hden : 0 < den) :
    |(roundQ p num den).toRat - (num : ℚ) / den| ≤ 1 / 2 * (10 : ℚ) ^ (roundQ p num den).e := by
  by_cases h : num = 0
  · subst h; rw [roundQ_zero]; simp [Dec.toRat]
  · rw [roundQ_of_pos p num den h]; exact roundQ1_err _ _ _ _ _ hden

/-- the exponent of the result: at most (digits of num) − (digits of den) − p + 1 -/
theorem roundQ_exp_le (p num den : Nat) (h : num ≠ 0) :
    (roundQ p num den).e ≤ (ndigits num : ℤ) - ndigits den - p + 1 := by
  rw [roundQ_of_pos p num den h]; exact roundQ1_exp_le _ _ _ _ _

/-! ### digit count -/

theorem ndStep_inv (N k : Nat) (q : Nat × Nat) (h1 : 1 ≤ q.1) (h2 : q.1 * 10 ^ q.2 ≤ N) :
    1 ≤ (ndStep k q).1 ∧ (ndStep k q).1 * 10 ^ (ndStep k q).2 ≤ N := by
  obtain ⟨n, acc⟩ := q
  simp only [ndStep, force_eq]
  split_ifs with h
  · refine ⟨Nat.div_pos h (by positivity), ?_⟩
    calc n / 10 ^ k * 10 ^ (acc + k) = (n / 10 ^ k * 10 ^ k) * 10 ^ acc := by ring
      _ ≤ n * 10 ^ acc := Nat.mul_le_mul_right _ (Nat.div_mul_le_self n (10 ^ k))
      _ ≤ N := h2
  · exact ⟨h1, h2⟩

/-- a number below `10^K` has at most `K` digits (`K ≤ 128`: the range of the binary descent) -/
theorem ndigits_le_of_lt (n K : Nat) (hK : K ≤ 128) (h : n < 10 ^ K) : ndigits n ≤ K := by
  cases n with
  | zero => simp [ndigits]
  | succ n' =>
    have hlt : ¬ 10 ^ 128 ≤ n' + 1 :=
      not_le.mpr (lt_of_lt_of_le h (Nat.pow_le_pow_right (by norm_num) hK))
    simp only [ndigits, force_eq, if_neg hlt]
    have i0 : 1 ≤ ((n' + 1, 0) : Nat × Nat).1 ∧
        ((n' + 1, 0) : Nat × Nat).1 * 10 ^ ((n' + 1, 0) : Nat × Nat).2 ≤ n' + 1 := by simp
    have i1 := ndStep_inv (n' + 1) 64 _ i0.1 i0.2
    have i2 := ndStep_inv (n' + 1) 32 _ i1.1 i1.2
    have i3 := ndStep_inv (n' + 1) 16 _ i2.1 i2.2
    have i4 := ndStep_inv (n' + 1) 8 _ i3.1 i3.2
    have i5 := ndStep_inv (n' + 1) 4 _ i4.1 i4.2
    have i6 := ndStep_inv (n' + 1) 2 _ i5.1 i5.2
    have i7 := ndStep_inv (n' + 1) 1 _ i6.1 i6.2
    set q := ndStep 1 (ndStep 2 (ndStep 4 (ndStep 8 (ndStep 16 (ndStep 32 (ndStep 64 (n' + 1, 0)))))))
    have : 10 ^ q.2 ≤ q.1 * 10 ^ q.2 := Nat.le_mul_of_pos_left _ i7.1
    have : 10 ^ q.2 < 10 ^ K := lt_of_le_of_lt (le_trans this i7.2) h
    have := (Nat.pow_lt_pow_iff_right (by norm_num : 1 < 10)).mp this
    omega

/-! ### addition -/

/-- common exponent of the two operands -/
def addMin (x y : Dec) : ℤ := if x.e ≤ y.e then x.e else y.e

/-- exact sum as an integer multiple of `10^addMin` -/
def addCoef (x y : Dec) : ℕ :=
  x.c * 10 ^ (x.e - addMin x y).toNat + y.c * 10 ^ (y.e - addMin x y).toNat

theorem add_eq (x y : Dec) :
    Dec.add x y = ⟨(roundQ decPrec (addCoef x y) 1).c, (roundQ decPrec (addCoef x y) 1).e + addMin x y⟩ := by
  obtain ⟨xc, xe⟩ := x
  obtain ⟨yc, ye⟩ := y
  simp only [Dec.add, addCoef, addMin]

theorem addCoef_val (x y : Dec) :
    (addCoef x y : ℚ) * (10 : ℚ) ^ addMin x y = x.toRat + y.toRat := by
  have hx : 0 ≤ x.e - addMin x y := by unfold addMin; split_ifs <;> omega
  have hy : 0 ≤ y.e - addMin x y := by unfold addMin; split_ifs <;> omega
  have h10 : (10 : ℚ) ≠ 0 := by norm_num
  rw [toRat_zpow, toRat_zpow]
  unfold addCoef
  push_cast
  rw [add_mul, mul_assoc, mul_assoc, ← zpow_natCast, ← zpow_natCast, Int.toNat_of_nonneg hx,
    Int.toNat_of_nonneg hy, ← zpow_add₀ h10, ← zpow_add₀ h10]
  simp

/-- `Dec.add` is within half a unit of its last place of the exact sum -/
theorem add_err (x y : Dec) :
    |(Dec.add x y).toRat - (x.toRat + y.toRat)| ≤
      1 / 2 * (10 : ℚ) ^ ((roundQ decPrec (addCoef x y) 1).e + addMin x y) := by
  have h10 : (10 : ℚ) ≠ 0 := by norm_num
  have hP : (0 : ℚ) < (10 : ℚ) ^ addMin x y := by positivity
  have hr := roundQ_err decPrec (addCoef x y) 1 (by norm_num)
  rw [add_eq, ← addCoef_val, toRat_zpow]
  simp only
  rw [toRat_zpow] at hr
  rw [zpow_add₀ h10]
  have : ((roundQ decPrec (addCoef x y) 1).c : ℚ) *
        ((10 : ℚ) ^ (roundQ decPrec (addCoef x y) 1).e * (10 : ℚ) ^ addMin x y) -
        (addCoef x y : ℚ) * (10 : ℚ) ^ addMin x y =
      (((roundQ decPrec (addCoef x y) 1).c : ℚ) * (10 : ℚ) ^ (roundQ decPrec (addCoef x y) 1).e -
        ((addCoef x y : ℕ) : ℚ) / ((1 : ℕ) : ℚ)) * (10 : ℚ) ^ addMin x y := by
    push_cast; ring
  rw [this, abs_mul, abs_of_pos hP, ← mul_assoc]
  exact mul_le_mul_of_nonneg_right hr (le_of_lt hP)

end Acn.C17
