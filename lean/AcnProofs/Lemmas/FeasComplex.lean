/-
  Helper lemma for C06, part 3 (ℝ / ℂ only): the squares test is the norm of the complex phasor sum.
-/
import AcnProofs.Lemmas.FeasSums
import Mathlib.Analysis.Complex.Trigonometric
import Mathlib.Analysis.Complex.Norm
import Mathlib.Algebra.BigOperators.Group.Finset.Basic

namespace Acn.Feas
open Complex

/-- `‖z‖ ≤ b ↔ 0 ≤ b ∧ re² + im² ≤ b²` -/
theorem norm_le_iff_sq (z : ℂ) (b : ℝ) : ‖z‖ ≤ b ↔ 0 ≤ b ∧ z.re ^ 2 + z.im ^ 2 ≤ b ^ 2 := by
  have hsq : ‖z‖ ^ 2 = z.re ^ 2 + z.im ^ 2 := by
    rw [Complex.sq_norm, Complex.normSq_apply]; ring
  constructor
  · intro h
    refine ⟨le_trans (norm_nonneg z) h, ?_⟩
    rw [← hsq]
    exact pow_le_pow_left₀ (norm_nonneg z) h 2
  · rintro ⟨hb, h⟩
    rw [← hsq] at h
    exact (abs_le_of_sq_le_sq' h hb).2

/-- real and imaginary part of `Σ_j w_j · e^{iφ_j}` -/
theorem phasor_sum_re {n : Nat} (w φ : Fin n → ℝ) :
    (∑ j, (w j : ℂ) * Complex.exp ((φ j : ℂ) * I)).re = ∑ j, w j * Real.cos (φ j) := by
  rw [Complex.re_sum]
  congr 1; funext j
  rw [Complex.re_ofReal_mul, Complex.exp_ofReal_mul_I_re]

theorem phasor_sum_im {n : Nat} (w φ : Fin n → ℝ) :
    (∑ j, (w j : ℂ) * Complex.exp ((φ j : ℂ) * I)).im = ∑ j, w j * Real.sin (φ j) := by
  rw [Complex.im_sum]
  congr 1; funext j
  rw [Complex.im_ofReal_mul, Complex.exp_ofReal_mul_I_im]

end Acn.Feas
