/-
  Year-of-era step of `civilFromDays` (helper lemmas for C20 / C17).

  `yoeOf doe` is the expression `civilFromDays` uses to find the (March-based) year of the
  400-year era from the day of the era; `yearStart k` is the first day of year `k` of the era,
  the expression `daysFromCivil` uses.  The link between the two is established by
    * a 400-entry table (both ends of every year of the era, `decide +kernel`), and
    * monotonicity of `yoeOf` (`omega`),
  instead of a brute-force check of all 146 097 days of the era.
-/
import AcnModel.Calendar

namespace Acn.Calendar

/-- first day, within the era, of the March-based year-of-era `k` (`daysFromCivil`) -/
def yearStart (k : Int) : Int := 365 * k + k / 4 - k / 100

/-- numerator of the year-of-era estimate of `civilFromDays` -/
def yoeNum (d : Int) : Int := d - d / 1460 + d / 36524 - d / 146096

/-- year-of-era estimate of `civilFromDays` -/
def yoeOf (d : Int) : Int := yoeNum d / 365

theorem yoeNum_mono_lt {a b : Int} (h0 : 0 ≤ a) (hab : a ≤ b) (hb : b < 146096) :
    yoeNum a ≤ yoeNum b := by
  unfold yoeNum; omega

theorem yoeNum_le_last {a : Int} (h0 : 0 ≤ a) (hb : a ≤ 146096) : yoeNum a ≤ yoeNum 146096 := by
  unfold yoeNum; omega

theorem yoeOf_mono {a b : Int} (h0 : 0 ≤ a) (hab : a ≤ b) (hb : b ≤ 146096) :
    yoeOf a ≤ yoeOf b := by
  have h : yoeNum a ≤ yoeNum b := by
    by_cases hb' : b < 146096
    · exact yoeNum_mono_lt h0 hab hb'
    · have : b = 146096 := by omega
      subst this; exact yoeNum_le_last h0 hab
  unfold yoeOf; omega

/-- the 400-entry table: the estimate is exact on the first and on the last day of every
    year of the era (the last year is one day longer: day 146096 is checked separately). -/
theorem yoe_table : ∀ n : Fin 400,
    yoeOf (yearStart (n.val : Int)) = (n.val : Int) ∧
    yoeOf (yearStart ((n.val : Int) + 1) - 1) = (n.val : Int) := by
  decide +kernel

theorem yoe_last_day : yoeOf 146096 = 399 := by decide +kernel

theorem yearStart_400 : yearStart 400 = 146096 := by decide +kernel

/-- the estimate is exact on every day of year `k` of the era -/
theorem yoeOf_of_range {doe k : Int} (hk0 : 0 ≤ k) (hk : k < 400)
    (h1 : yearStart k ≤ doe) (h2 : doe < yearStart (k + 1) ∨ (k = 399 ∧ doe = 146096)) :
    yoeOf doe = k := by
  have ht := yoe_table ⟨k.toNat, by omega⟩
  have hkk : ((k.toNat : Nat) : Int) = k := Int.toNat_of_nonneg hk0
  simp only [hkk] at ht
  obtain ⟨ta, tb⟩ := ht
  have hs0 : 0 ≤ yearStart k := by unfold yearStart; omega
  have hs1 : yearStart (k + 1) ≤ 146096 := by unfold yearStart; omega
  have hs01 : yearStart k < yearStart (k + 1) := by unfold yearStart; omega
  rcases h2 with h2 | h2
  · have a1 : doe ≤ 146096 := by omega
    have a2 : 0 ≤ doe := by omega
    have a3 : doe ≤ yearStart (k + 1) - 1 := by omega
    have a4 : yearStart (k + 1) - 1 ≤ 146096 := by omega
    have lo : yoeOf (yearStart k) ≤ yoeOf doe := yoeOf_mono hs0 h1 a1
    have hi : yoeOf doe ≤ yoeOf (yearStart (k + 1) - 1) := yoeOf_mono a2 a3 a4
    omega
  · obtain ⟨rfl, rfl⟩ := h2
    exact yoe_last_day

/-- every day of the era lies in some year of the era -/
theorem exists_year_aux (n : Nat) (hn : n ≤ 400) (doe : Int) (h0 : 0 ≤ doe)
    (h : doe < yearStart n) :
    ∃ k : Int, 0 ≤ k ∧ k < n ∧ yearStart k ≤ doe ∧ doe < yearStart (k + 1) := by
  induction n with
  | zero => simp [yearStart] at h; omega
  | succ m ih =>
    by_cases hm : doe < yearStart m
    · obtain ⟨k, a, b, c, d⟩ := ih (by omega) hm
      exact ⟨k, a, by push_cast; omega, c, d⟩
    · exact ⟨m, by omega, by push_cast; omega, by omega, by push_cast at h; exact h⟩

theorem exists_year {doe : Int} (h0 : 0 ≤ doe) (h : doe ≤ 146096) :
    ∃ k : Int, 0 ≤ k ∧ k < 400 ∧ yearStart k ≤ doe ∧
      (doe < yearStart (k + 1) ∨ (k = 399 ∧ doe = 146096)) := by
  by_cases hl : doe = 146096
  · exact ⟨399, by omega, by omega, by subst hl; decide +kernel, Or.inr ⟨rfl, hl⟩⟩
  · have h400 : ((400 : Nat) : Int) = 400 := rfl
    have : doe < yearStart ((400 : Nat) : Int) := by
      rw [h400, yearStart_400]; omega
    obtain ⟨k, a, b, c, d⟩ := exists_year_aux 400 (Nat.le_refl _) doe h0 this
    exact ⟨k, a, by omega, c, Or.inl d⟩

/-- what `civilFromDays` needs: the estimate is a year of the era and the day lies in it -/
theorem yoeOf_spec {doe : Int} (h0 : 0 ≤ doe) (h : doe ≤ 146096) :
    0 ≤ yoeOf doe ∧ yoeOf doe < 400 ∧ yearStart (yoeOf doe) ≤ doe ∧
    (doe < yearStart (yoeOf doe + 1) ∨ (yoeOf doe = 399 ∧ doe = 146096)) := by
  obtain ⟨k, a, b, c, d⟩ := exists_year h0 h
  have e := yoeOf_of_range a b c d
  rw [e]; exact ⟨a, b, c, d⟩

end Acn.Calendar
