/-
  Composition lemmas for `sim_consequences`: the dict `format_array_schedule` builds is accepted by
  `_update_schedules`, and after `schedStage` column `iter` of the pilot matrix holds, station by
  station, exactly the array the algorithm returned (C04 `submit_get`), all other columns and the
  shape invariant being preserved.
-/
import AcnModel.SimSorted
import AcnProofs.Lemmas.PilotsSched
import AcnProofs.Lemmas.SortedSim

set_option linter.unusedSectionVars false

namespace Acn.Sorted
open Acn Acn.Pilots

section
variable {K : Type} [Field K] [LinearOrder K] [IsStrictOrderedRing K]

theorem zipWith_fmt_mem (ids : List String) (sch : List K) (p : String × List K)
    (h : p ∈ List.zipWith (fun id r => (id, [r])) ids sch) : p.1 ∈ ids ∧ p.2.length = 1 := by
  induction ids generalizing sch with
  | nil => simp at h
  | cons a t ih =>
    cases sch with
    | nil => simp at h
    | cons r rs =>
      simp only [List.zipWith_cons_cons, List.mem_cons] at h
      rcases h with rfl | h
      · exact ⟨List.mem_cons_self, rfl⟩
      · exact ⟨List.mem_cons_of_mem _ (ih rs h).1, (ih rs h).2⟩

/-- the schedule dict of `format_array_schedule` passes the validation of `_update_schedules` -/
theorem format_accepted (infra : Infra K) (sch : List K) (hne : infra.ids ≠ [])
    (hlen : sch.length = infra.ids.length) :
    accepted infra.ids (formatArraySchedule infra sch) = true ∧
    schedLen (formatArraySchedule infra sch) = 1 := by
  unfold formatArraySchedule
  cases hids : infra.ids with
  | nil => exact absurd hids hne
  | cons a t =>
    cases sch with
    | nil => rw [hids] at hlen; simp at hlen
    | cons r rs =>
      have hsl : schedLen (List.zipWith (fun id r => (id, [r])) (a :: t) (r :: rs)) = 1 := by
        simp [schedLen]
      refine ⟨?_, hsl⟩
      rw [accepted_iff]
      refine ⟨by simp, ?_, ?_⟩
      · intro p hp; exact (zipWith_fmt_mem _ _ p hp).1
      · intro p hp; rw [hsl]; exact (zipWith_fmt_mem _ _ p hp).2

/-- reading the dict by station id gives the array entry of that station (distinct ids) -/
theorem format_lookup (ids : List String) (hnd : ids.Nodup) (sch : List K) (hlen : sch.length = ids.length)
    (k : Nat) (hk : k < ids.length) :
    (List.zipWith (fun id r => (id, [r])) ids sch).lookup (ids.getD k "") = some [sch.getD k 0] := by
  induction ids generalizing sch k with
  | nil => simp at hk
  | cons a t ih =>
    cases sch with
    | nil => simp at hlen
    | cons r rs =>
      rw [List.nodup_cons] at hnd
      cases k with
      | zero => simp [List.lookup]
      | succ k =>
        have hk' : k < t.length := by simpa using hk
        have hne : (t.getD k "" == a) = false := by
          have : t.getD k "" ∈ t := by
            simp [List.getD_eq_getElem?_getD, hk']
          have hx : t.getD k "" ≠ a := fun e => hnd.1 (e ▸ this)
          simpa using hx
        simp only [List.zipWith_cons_cons, List.getD_cons_succ, List.lookup, hne]
        exact ih hnd.2 rs (by simpa using hlen) k hk'

theorem idxOf_getD (ids : List String) (hnd : ids.Nodup) (k : Nat) (hk : k < ids.length) :
    ids.idxOf (ids.getD k "") = k := by
  have : ids.getD k "" = ids[k] := by simp [List.getD_eq_getElem?_getD, hk]
  rw [this]
  exact hnd.idxOf_getElem k hk

/-- one `_update_schedules` with the algorithm's array: column `t` becomes the array, everything
    else and the shape invariant stay -/
theorem update_with_array (infra : Infra K) (hnd : infra.ids.Nodup) (hne : infra.ids ≠ [])
    (sch : List K) (hlen : sch.length = infra.ids.length) (m m' : Mat K) (hwf : m.WF infra.ids.length)
    (t : Nat) (lastTs : Option Nat)
    (h : updateSchedules infra.ids m t lastTs (formatArraySchedule infra sch) = .ok m') :
    m'.WF infra.ids.length ∧
    (∀ k, k < infra.ids.length → m'.get k t = sch.getD k 0) ∧
    (∀ k τ, k < infra.ids.length → τ ≠ t → m'.get k τ = m.get k τ) := by
  obtain ⟨hacc, hsl⟩ := format_accepted infra sch hne hlen
  have hsub : submit infra.ids m ⟨t, lastTs, formatArraySchedule infra sch⟩ = m' := by
    unfold submit; simp only; rw [h]
  refine ⟨hsub ▸ submit_wf hwf _, ?_, ?_⟩
  · intro k hk
    have := submit_get hwf ⟨t, lastTs, formatArraySchedule infra sch⟩ (infra.ids.getD k "") t
    rw [hsub, idxOf_getD _ hnd k hk] at this
    rw [this]
    have hc : covers infra.ids ⟨t, lastTs, formatArraySchedule infra sch⟩ t = true := by
      simp [covers, hacc, hsl]
    rw [hc]
    simp only [if_true, valueOf]
    unfold formatArraySchedule
    rw [format_lookup _ hnd sch hlen k hk]
    simp
  · intro k τ hk hτ
    have := submit_get hwf ⟨t, lastTs, formatArraySchedule infra sch⟩ (infra.ids.getD k "") τ
    rw [hsub, idxOf_getD _ hnd k hk] at this
    rw [this]
    have hc : covers infra.ids ⟨t, lastTs, formatArraySchedule infra sch⟩ τ = false := by
      simp only [covers, hacc, hsl, Bool.true_and, Bool.and_eq_false_iff, decide_eq_false_iff_not]
      omega
    rw [hc]; simp

end
end Acn.Sorted
