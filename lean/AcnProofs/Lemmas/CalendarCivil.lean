/-
  Civil date ↔ day number round trips (helper lemmas for C20 / C17), by decomposition:
    * year of era: `CalendarYear.lean` (400-entry table + monotonicity),
    * day of year ↔ (month, day): a 366-entry and a 12 × 31 table (`decide +kernel`),
    * everything else: `omega`.
  No brute force over the 146 097 days of an era.
-/
import AcnProofs.Lemmas.CalendarYear
namespace Acn.Calendar

/-- (month, day) from the March-based day of the year, as in `civilFromDays` -/
def mdOfDoy (doy : Int) : Int × Int :=
  let mp := (5 * doy + 2) / 153
  (if mp < 10 then mp + 3 else mp - 9, doy - (153 * mp + 2) / 5 + 1)

/-- March-based day of the year from (month, day), as in `daysFromCivil` -/
def doyOfMd (m d : Int) : Int := (153 * (if m ≤ 2 then m + 9 else m - 3) + 2) / 5 + d - 1

def civilOfYoe (era yoe doy : Int) : Int × Int × Int :=
  ((if (mdOfDoy doy).1 ≤ 2 then yoe + era * 400 + 1 else yoe + era * 400), (mdOfDoy doy).1, (mdOfDoy doy).2)

theorem civilFromDays_eq (z : Int) :
    civilFromDays z =
      civilOfYoe ((z + 719468) / 146097)
        (yoeOf (z + 719468 - (z + 719468) / 146097 * 146097))
        (z + 719468 - (z + 719468) / 146097 * 146097 -
          yearStart (yoeOf (z + 719468 - (z + 719468) / 146097 * 146097))) := rfl

theorem daysFromCivil_eq (y m d : Int) :
    daysFromCivil y m d =
      ((if m ≤ 2 then y - 1 else y) / 400) * 146097 +
        (yearStart ((if m ≤ 2 then y - 1 else y) - (if m ≤ 2 then y - 1 else y) / 400 * 400) + doyOfMd m d)
        - 719468 := by
  simp only [daysFromCivil, yearStart, doyOfMd]; omega

/-- month length by leap flag: `daysInMonth y m = monthLen (isLeap y) m` -/
def monthLen (leap : Bool) (m : Int) : Int :=
  if m == 2 then (if leap then 29 else 28)
  else if m == 4 || m == 6 || m == 9 || m == 11 then 30
  else 31

theorem daysInMonth_eq (y m : Int) : daysInMonth y m = monthLen (isLeap y) m := rfl

/-- the 366-entry day-of-year table -/
theorem doy_table : ∀ n : Fin 366,
    1 ≤ (mdOfDoy (n.val : Int)).1 ∧ (mdOfDoy (n.val : Int)).1 ≤ 12 ∧ 1 ≤ (mdOfDoy (n.val : Int)).2 ∧
    (mdOfDoy (n.val : Int)).2 ≤ monthLen true (mdOfDoy (n.val : Int)).1 ∧
    ((n.val : Int) < 365 → (mdOfDoy (n.val : Int)).2 ≤ monthLen false (mdOfDoy (n.val : Int)).1) ∧
    doyOfMd (mdOfDoy (n.val : Int)).1 (mdOfDoy (n.val : Int)).2 = (n.val : Int) ∧
    ((mdOfDoy (n.val : Int)).1 ≤ 2 ↔ 306 ≤ (n.val : Int)) := by
  decide +kernel

/-- the 12 × 31 (month, day) table -/
theorem md_table : ∀ m : Fin 13, ∀ d : Fin 32, 1 ≤ m.val → 1 ≤ d.val →
    (d.val : Int) ≤ monthLen true (m.val : Int) →
    mdOfDoy (doyOfMd (m.val : Int) (d.val : Int)) = ((m.val : Int), (d.val : Int)) ∧
    0 ≤ doyOfMd (m.val : Int) (d.val : Int) ∧ doyOfMd (m.val : Int) (d.val : Int) ≤ 365 ∧
    ((d.val : Int) ≤ monthLen false (m.val : Int) → doyOfMd (m.val : Int) (d.val : Int) ≤ 364) ∧
    ((m.val : Int) ≤ 2 ↔ 306 ≤ doyOfMd (m.val : Int) (d.val : Int)) := by
  decide +kernel

theorem monthLen_le (b : Bool) (m : Int) : monthLen b m ≤ monthLen true m ∧ monthLen true m ≤ 31 := by
  unfold monthLen; cases b <;> simp <;> repeat' split <;> omega

theorem mdOfDoy_spec {doy : Int} (h0 : 0 ≤ doy) (h1 : doy ≤ 365) :
    1 ≤ (mdOfDoy doy).1 ∧ (mdOfDoy doy).1 ≤ 12 ∧ 1 ≤ (mdOfDoy doy).2 ∧
    (mdOfDoy doy).2 ≤ monthLen true (mdOfDoy doy).1 ∧
    (doy < 365 → (mdOfDoy doy).2 ≤ monthLen false (mdOfDoy doy).1) ∧
    doyOfMd (mdOfDoy doy).1 (mdOfDoy doy).2 = doy ∧
    ((mdOfDoy doy).1 ≤ 2 ↔ 306 ≤ doy) := by
  have ht := doy_table ⟨doy.toNat, by omega⟩
  have e : ((doy.toNat : Nat) : Int) = doy := Int.toNat_of_nonneg h0
  simp only [e] at ht
  exact ht

theorem md_spec {m d : Int} (hm : 1 ≤ m) (hm' : m ≤ 12) (hd : 1 ≤ d) (hd' : d ≤ monthLen true m) :
    mdOfDoy (doyOfMd m d) = (m, d) ∧ 0 ≤ doyOfMd m d ∧ doyOfMd m d ≤ 365 ∧
    (d ≤ monthLen false m → doyOfMd m d ≤ 364) ∧ (m ≤ 2 ↔ 306 ≤ doyOfMd m d) := by
  have h31 := (monthLen_le true m).2
  have ht := md_table ⟨m.toNat, by omega⟩ ⟨d.toNat, by omega⟩
  have em : ((m.toNat : Nat) : Int) = m := Int.toNat_of_nonneg (by omega)
  have ed : ((d.toNat : Nat) : Int) = d := Int.toNat_of_nonneg (by omega)
  simp only [em, ed] at ht
  exact ht (by omega) (by omega) hd'

theorem yearStart_step (k : Int) :
    yearStart k + 365 ≤ yearStart (k + 1) ∧ yearStart (k + 1) ≤ yearStart k + 366 := by
  unfold yearStart; omega

theorem yearStart_399 : yearStart 399 = 145731 := by decide +kernel

/-- `daysFromCivil` of the result of the last stage of `civilFromDays` -/
theorem days_of_civilOfYoe (era yoe doy : Int) (hy : 0 ≤ yoe) (hy' : yoe < 400)
    (hd : 0 ≤ doy) (hd' : doy ≤ 365) :
    daysFromCivil (civilOfYoe era yoe doy).1 (civilOfYoe era yoe doy).2.1 (civilOfYoe era yoe doy).2.2
      = era * 146097 + (yearStart yoe + doy) - 719468 := by
  obtain ⟨_, _, _, _, _, hdoy, _⟩ := mdOfDoy_spec hd hd'
  rw [daysFromCivil_eq]
  simp only [civilOfYoe]
  rw [hdoy]
  by_cases h : (mdOfDoy doy).1 ≤ 2
  · simp only [h, ↓reduceIte]
    have e1 : (yoe + era * 400 + 1 - 1) / 400 = era := by omega
    have e2 : yoe + era * 400 + 1 - 1 - era * 400 = yoe := by omega
    rw [e1, e2]
  · simp only [h, ↓reduceIte]
    have e1 : (yoe + era * 400) / 400 = era := by omega
    have e2 : yoe + era * 400 - era * 400 = yoe := by omega
    rw [e1, e2]

/-- **days → civil → days** is the identity on every integer day number. -/
theorem days_roundtrip (z : Int) :
    daysFromCivil (civilFromDays z).1 (civilFromDays z).2.1 (civilFromDays z).2.2 = z := by
  rw [civilFromDays_eq]
  obtain ⟨doe, hdoe⟩ : ∃ doe, doe = z + 719468 - (z + 719468) / 146097 * 146097 := ⟨_, rfl⟩
  rw [← hdoe]
  have hd0 : 0 ≤ doe := by omega
  have hd1 : doe ≤ 146096 := by omega
  obtain ⟨y0, y1, y2, y3⟩ := yoeOf_spec hd0 hd1
  have hdoy0 : 0 ≤ doe - yearStart (yoeOf doe) := by omega
  have hdoy1 : doe - yearStart (yoeOf doe) ≤ 365 := by
    rcases y3 with y3 | ⟨y3, y4⟩
    · have := (yearStart_step (yoeOf doe)).2; omega
    · rw [y3, y4, yearStart_399]; omega
  rw [days_of_civilOfYoe _ _ _ y0 y1 hdoy0 hdoy1]
  omega

theorem isLeap_iff (y : Int) : isLeap y = true ↔ (y % 4 = 0 ∧ y % 100 ≠ 0) ∨ y % 400 = 0 := by
  simp [isLeap]

/-- **civil → days → civil** is the identity on every valid month/day, for every year. -/
theorem civil_roundtrip' (y m d : Int) (hm : 1 ≤ m) (hm' : m ≤ 12) (hd : 1 ≤ d)
    (hd' : d ≤ daysInMonth y m) : civilFromDays (daysFromCivil y m d) = (y, m, d) := by
  rw [daysInMonth_eq] at hd'
  have hl := monthLen_le (isLeap y) m
  obtain ⟨s1, s2, s3, s4, s5⟩ := md_spec hm hm' hd (by omega)
  obtain ⟨y', hy'⟩ : ∃ y', y' = if m ≤ 2 then y - 1 else y := ⟨_, rfl⟩
  rw [daysFromCivil_eq, ← hy']
  obtain ⟨era, hera⟩ : ∃ e, e = y' / 400 := ⟨_, rfl⟩
  rw [← hera]
  obtain ⟨yoe, hyoe⟩ : ∃ k, k = y' - era * 400 := ⟨_, rfl⟩
  rw [← hyoe]
  have k0 : 0 ≤ yoe := by omega
  have k1 : yoe < 400 := by omega
  obtain ⟨doy, hdoy⟩ : ∃ k, k = doyOfMd m d := ⟨_, rfl⟩
  rw [← hdoy] at s1 s2 s3 s4 s5 ⊢
  have hst := yearStart_step yoe
  have hs0 : 0 ≤ yearStart yoe := by unfold yearStart; omega
  have hrange : yearStart yoe + doy < yearStart (yoe + 1) ∨
      (yoe = 399 ∧ yearStart yoe + doy = 146096) := by
    by_cases h364 : doy ≤ 364
    · left; omega
    · have hdoy365 : doy = 365 := by omega
      have hm2 : m ≤ 2 := s5.mpr (by omega)
      have hleap : isLeap y = true := by
        cases hb : isLeap y with
        | true => rfl
        | false => rw [hb] at hd'; have := s4 hd'; omega
      rw [isLeap_iff] at hleap
      have hy1 : y' = y - 1 := by rw [hy']; simp [hm2]
      rcases hleap with ⟨h4, h100⟩ | h400
      · left; unfold yearStart; omega
      · right
        have : yoe = 399 := by omega
        subst this
        rw [yearStart_399]; omega
  have hdoe1 : yearStart yoe + doy ≤ 146096 := by
    rcases hrange with h | ⟨_, h⟩
    · have : yearStart (yoe + 1) ≤ 146096 := by unfold yearStart; omega
      omega
    · omega
  have hyoe' : yoeOf (yearStart yoe + doy) = yoe := yoeOf_of_range k0 k1 (by omega) hrange
  rw [civilFromDays_eq]
  have e1 : (era * 146097 + (yearStart yoe + doy) - 719468 + 719468) / 146097 = era := by omega
  have e2 : era * 146097 + (yearStart yoe + doy) - 719468 + 719468 - era * 146097
      = yearStart yoe + doy := by omega
  rw [e1, e2, hyoe']
  have e3 : yearStart yoe + doy - yearStart yoe = doy := by omega
  rw [e3]
  simp only [civilOfYoe, s1]
  by_cases h : m ≤ 2
  · have : y' = y - 1 := by rw [hy']; simp [h]
    simp only [h, ↓reduceIte]
    congr 1; omega
  · have : y' = y := by rw [hy']; simp [h]
    simp only [h, ↓reduceIte]
    congr 1; omega

theorem monthLen_false_le (b : Bool) (m : Int) : monthLen false m ≤ monthLen b m := by
  unfold monthLen; cases b <;> simp <;> repeat' split <;> omega

/-- `civilFromDays` always returns a month in 1..12 and a day that exists in that month. -/
theorem civil_valid (z : Int) :
    1 ≤ (civilFromDays z).2.1 ∧ (civilFromDays z).2.1 ≤ 12 ∧ 1 ≤ (civilFromDays z).2.2 ∧
    (civilFromDays z).2.2 ≤ daysInMonth (civilFromDays z).1 (civilFromDays z).2.1 := by
  rw [civilFromDays_eq]
  obtain ⟨doe, hdoe⟩ : ∃ doe, doe = z + 719468 - (z + 719468) / 146097 * 146097 := ⟨_, rfl⟩
  rw [← hdoe]
  obtain ⟨era, hera⟩ : ∃ e, e = (z + 719468) / 146097 := ⟨_, rfl⟩
  rw [← hera]
  have hd0 : 0 ≤ doe := by omega
  have hd1 : doe ≤ 146096 := by omega
  obtain ⟨y0, y1, y2, y3⟩ := yoeOf_spec hd0 hd1
  obtain ⟨yoe, hyoe⟩ : ∃ k, k = yoeOf doe := ⟨_, rfl⟩
  rw [← hyoe] at y0 y1 y2 y3 ⊢
  have hdoy0 : 0 ≤ doe - yearStart yoe := by omega
  have hdoy1 : doe - yearStart yoe ≤ 365 := by
    rcases y3 with y3 | ⟨y3, y4⟩
    · have := (yearStart_step yoe).2; omega
    · rw [y3, y4, yearStart_399]; omega
  obtain ⟨doy, hdoy⟩ : ∃ k, k = doe - yearStart yoe := ⟨_, rfl⟩
  rw [← hdoy] at hdoy0 hdoy1 ⊢
  obtain ⟨a1, a2, a3, a4, a5, _, a7⟩ := mdOfDoy_spec hdoy0 hdoy1
  simp only [civilOfYoe]
  refine ⟨a1, a2, a3, ?_⟩
  rw [daysInMonth_eq]
  by_cases h : doy < 365
  · exact Int.le_trans (a5 h) (monthLen_false_le _ _)
  · have hm2 : (mdOfDoy doy).1 ≤ 2 := a7.mpr (by omega)
    simp only [hm2, ↓reduceIte]
    have hleap : isLeap (yoe + era * 400 + 1) = true := by
      rw [isLeap_iff]
      rcases y3 with y3 | ⟨y3, _⟩
      · left
        unfold yearStart at y3 hdoy
        have hj : yoe / 100 ≤ (yoe + 1) / 100 := by omega
        have hi : (yoe + 1) / 4 ≤ yoe / 4 + 1 := by omega
        have hi' : (yoe + 1) / 4 = yoe / 4 + 1 := by omega
        have hj' : (yoe + 1) / 100 = yoe / 100 := by omega
        have h4 : (yoe + 1) % 4 = 0 := by omega
        have h100 : (yoe + 1) % 100 ≠ 0 := by omega
        omega
      · right; omega
    rw [hleap]; exact a4

end Acn.Calendar
