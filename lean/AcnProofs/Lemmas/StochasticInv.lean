/-
  The invariant of the StochasticNetwork model (C19) and its preservation by the unplug event.
  `Inv` is about the state only; `Track` (StochasticRun.lean) ties the arrived/departed flags to
  the processed events.
-/
import AcnModel.Stochastic
import AcnProofs.Lemmas.StochasticList

namespace Acn.Stoch

def Net.waits (s : Net) (x : Sess) : Bool :=
  (s.ev x).arrived && !(s.ev x).departed && (s.ev x).station.isNone

structure Inv (s : Net) : Prop where
  st_nodup : s.stations.Nodup
  occ_iff : ∀ st x, s.occ st = some x ↔
    (st ∈ s.stations ∧ (s.ev x).station = some st ∧ (s.ev x).arrived = true ∧
      (s.ev x).departed = false ∧ (s.ev x).early = false)
  fifo : s.waiting = s.arrivals.filter s.waits
  arr_nodup : s.arrivals.Nodup
  arr_iff : ∀ x, x ∈ s.arrivals ↔ (s.ev x).arrived = true
  dep_arr : ∀ x, (s.ev x).departed = true → (s.ev x).arrived = true
  no_wait_free : s.waiting ≠ [] → ∀ st ∈ s.stations, s.occ st ≠ none
  st_mem : ∀ x st, (s.ev x).arrived = true → (s.ev x).station = some st → st ∈ s.stations
  plugged_iff : ∀ x, (s.ev x).plugged = true ↔
    ((s.ev x).arrived = true ∧ (s.ev x).station.isSome = true)
  early_imp : ∀ x, (s.ev x).early = true →
    ((s.ev x).arrived = true ∧ (s.ev x).station.isSome = true)
  queued_imp : ∀ x, (s.ev x).queued = true → (s.ev x).arrived = true
  queued_none : ∀ x, (s.ev x).arrived = true → (s.ev x).station = none → (s.ev x).queued = true
  never_eq : s.neverCharged = s.arrivals.countP (fun x => (s.ev x).departed && !(s.ev x).plugged)
  swaps_eq : s.swaps = s.arrivals.countP (fun x => (s.ev x).queued && (s.ev x).plugged)
  early_eq : s.earlyUnplug = s.arrivals.countP (fun x => (s.ev x).early)
  draws_eq : s.draws = s.arrivals.countP (fun x => !(s.ev x).queued)

theorem Inv.mem_waiting {s : Net} (h : Inv s) (x : Sess) :
    x ∈ s.waiting ↔ ((s.ev x).arrived = true ∧ (s.ev x).departed = false ∧ (s.ev x).station = none) := by
  rw [h.fifo, List.mem_filter, h.arr_iff]
  simp [Net.waits]
  tauto

theorem Inv.waiting_nodup {s : Net} (h : Inv s) : s.waiting.Nodup := by
  rw [h.fifo]; exact h.arr_nodup.filter _


theorem attach_eq (s : Net) (x : Sess) (st : Station) (h1 : (s.ev x).station = some st)
    (h2 : st ∈ s.stations) (h3 : s.occ st = none) :
    s.attach x = .ok ((s.setOcc st (some x)).modEv x (fun r => { r with plugged := true })) := by
  simp [Net.attach, h1, h2, h3]


theorem admitNext_cons (s : Net) (st : Station) (y : Sess) (w : List Sess) (hw : s.waiting = y :: w)
    (h2 : st ∈ s.stations) (h3 : s.occ st = none) :
    s.admitNext st = .ok { s with
      occ := fun t => if t = st then some y else s.occ t,
      waiting := w,
      ev := fun z => if z = y then { s.ev y with station := some st, plugged := true } else s.ev z,
      swaps := s.swaps + 1 } := by
  unfold Net.admitNext
  rw [hw]
  simp only
  rw [attach_eq _ y st (by simp [Net.modEv]) (by simpa [Net.modEv] using h2) (by simpa [Net.modEv] using h3)]
  simp only [bind, Except.bind, pure, Except.pure, Net.modEv, Net.setOcc]
  congr 2
  funext z
  by_cases h : z = y <;> simp [h]

/-- marking as departed an EV that holds a station id but no station (it left early) -/
theorem Inv.markStale {s : Net} (h : Inv s) (x : Sess) (st : Station)
    (ha : (s.ev x).arrived = true) (hst : (s.ev x).station = some st) (ho : s.occ st ≠ some x) :
    Inv (s.modEv x (fun r => { r with departed := true })) := by
  have hfifo := h.fifo
  have hocc := h.occ_iff st x
  have hm := h.st_mem x st ha hst
  refine ⟨h.st_nodup, ?_, ?_, h.arr_nodup, ?_, ?_, ?_, ?_, ?_, ?_, ?_, ?_, ?_, ?_, ?_, ?_⟩
  all_goals simp only [Net.modEv]
  · intro t y; have := h.occ_iff t y; grind
  · rw [hfifo]; apply List.filter_congr; intro y hy; simp only [Net.waits]; grind
  · intro y; have := h.arr_iff y; grind
  · intro y; have := h.dep_arr y; grind
  · exact h.no_wait_free
  · intro y t; have := h.st_mem y t; grind
  · intro y; have := h.plugged_iff y; grind
  · intro y; have := h.early_imp y; grind
  · intro y; have := h.queued_imp y; grind
  · intro y; have := h.queued_none y; grind
  · rw [h.never_eq]; apply countP_same; intro y hy; have := h.plugged_iff y; grind
  · rw [h.swaps_eq]; apply countP_same; intro y hy; grind
  · rw [h.early_eq]; apply countP_same; intro y hy; grind
  · rw [h.draws_eq]; apply countP_same; intro y hy; grind

/-- unplug event of an arrived, not yet departed EV -/
theorem Inv.unplugEvent {s s1 : Net} (h : Inv s) (x : Sess) (ha : (s.ev x).arrived = true)
    (hd : (s.ev x).departed = false)
    (hs : s.unplug (s.ev x).station x = .ok s1) :
    Inv (s1.modEv x (fun r => { r with departed := true })) := by
  have hw := h.mem_waiting
  have hnd := h.waiting_nodup
  have hocc := h.occ_iff
  have hfifo := h.fifo
  unfold Net.unplug at hs
  split at hs
  · -- leaves the queue
    rename_i hxw
    cases hs
    have hx := (hw x).1 hxw
    have hxa := (h.arr_iff x).2 ha
    refine ⟨h.st_nodup, ?_, ?_, h.arr_nodup, ?_, ?_, ?_, ?_, ?_, ?_, ?_, ?_, ?_, ?_, ?_, ?_⟩
    all_goals simp only [Net.modEv]
    · intro st y; have := h.occ_iff st y; grind
    · rw [hfifo]; symm
      apply filter_update_erase _ _ _ x h.arr_nodup
      · simp [Net.waits]
      · intro y hy hne; simp [Net.waits, hne]
    · intro y; have := h.arr_iff y; grind
    · intro y; have := h.dep_arr y; grind
    · intro hne st hst
      apply h.no_wait_free _ st hst
      intro h0; rw [h0] at hne; simp at hne
    · intro y st; have := h.st_mem y st; grind
    · intro y; have := h.plugged_iff y; grind
    · intro y; have := h.early_imp y; grind
    · intro y; have := h.queued_imp y; grind
    · intro y; have := h.queued_none y; grind
    · rw [h.never_eq]; symm
      apply countP_update_inc _ _ _ x h.arr_nodup hxa
      · simp [hd]
      · have := h.plugged_iff x; grind
      · intro y hy hne; simp [hne]
    · rw [h.swaps_eq]; apply countP_same; intro y hy; grind
    · rw [h.early_eq]; apply countP_same; intro y hy; grind
    · rw [h.draws_eq]; apply countP_same; intro y hy; grind
  · rename_i hxw
    cases hst : (s.ev x).station with
    | none => rw [hst] at hs; simp at hs
    | some st =>
      rw [hst] at hs
      simp only at hs
      by_cases hmem : st ∈ s.stations
      · rw [if_pos hmem] at hs
        cases ho : s.occ st with
        | none =>
          rw [ho] at hs; simp only at hs; cases hs
          exact h.markStale x st ha hst (by simp [ho])
        | some z =>
          rw [ho] at hs; simp only at hs
          by_cases hxz : x = z
          · rw [if_pos hxz] at hs; subst hxz
            have hxa := (h.arr_iff x).2 ha
            cases hwq : s.waiting with
            | nil =>
              simp only [Net.admitNext, Net.setOcc, hwq] at hs; cases hs
              refine ⟨h.st_nodup, ?_, ?_, h.arr_nodup, ?_, ?_, ?_, ?_, ?_, ?_, ?_, ?_, ?_, ?_, ?_, ?_⟩
              all_goals simp only [Net.modEv]
              · intro t y; have := h.occ_iff t y; have := h.occ_iff st y; grind
              · rw [hwq] at hfifo; rw [hfifo]; apply List.filter_congr; intro y hy
                simp only [Net.waits]; grind
              · intro y; have := h.arr_iff y; grind
              · intro y; have := h.dep_arr y; grind
              · simp
              · intro y t; have := h.st_mem y t; grind
              · intro y; have := h.plugged_iff y; grind
              · intro y; have := h.early_imp y; grind
              · intro y; have := h.queued_imp y; grind
              · intro y; have := h.queued_none y; grind
              · rw [h.never_eq]; apply countP_same; intro y hy; have := h.plugged_iff y; grind
              · rw [h.swaps_eq]; apply countP_same; intro y hy; grind
              · rw [h.early_eq]; apply countP_same; intro y hy; grind
              · rw [h.draws_eq]; apply countP_same; intro y hy; grind
            | cons y w =>
              have hyw : y ∈ s.waiting := by rw [hwq]; simp
              have hy := (hw y).1 hyw
              have hyx : y ≠ x := by intro e; rw [e] at hy; rw [hy.2.2] at hst; cases hst
              have hya := (h.arr_iff y).2 hy.1
              rw [admitNext_cons (s.setOcc st none) st y w (by simp [Net.setOcc, hwq]) hmem (by simp [Net.setOcc])] at hs
              cases hs
              have hwer : w = s.waiting.erase y := by rw [hwq]; simp
              have hwy : y ∉ w := by rw [hwq] at hnd; exact (List.nodup_cons.1 hnd).1
              refine ⟨h.st_nodup, ?_, ?_, h.arr_nodup, ?_, ?_, ?_, ?_, ?_, ?_, ?_, ?_, ?_, ?_, ?_, ?_⟩
              all_goals simp only [Net.modEv, Net.setOcc]
              · intro t u; have := h.occ_iff t u; have := h.occ_iff st u; have := h.early_imp u
                by_cases h1 : u = x <;> by_cases h2 : u = y <;> by_cases h3 : t = st <;>
                  simp only [h1, h2, h3, hyx, hyx.symm, ↓reduceIte] <;> grind
              · rw [hwer, hfifo]; symm
                apply filter_update_erase _ _ _ y h.arr_nodup
                · simp [Net.waits, hyx]
                · intro u hu hne
                  by_cases h1 : u = x <;> simp only [Net.waits, h1, hne, hyx, hyx.symm, ↓reduceIte] <;> grind
              · intro u; have := h.arr_iff u
                by_cases h1 : u = x <;> by_cases h2 : u = y <;>
                  simp only [h1, h2, hyx, hyx.symm, ↓reduceIte] <;> grind
              · intro u; have := h.dep_arr u
                by_cases h1 : u = x <;> by_cases h2 : u = y <;>
                  simp only [h1, h2, hyx, hyx.symm, ↓reduceIte] <;> grind
              · intro _ t ht
                have := h.no_wait_free (by rw [hwq]; simp) t ht
                by_cases h3 : t = st <;> simp only [h3, ↓reduceIte] <;> grind
              · intro u t; have := h.st_mem u t
                by_cases h1 : u = x <;> by_cases h2 : u = y <;>
                  simp only [h1, h2, hyx, hyx.symm, ↓reduceIte] <;> grind
              · intro u; have := h.plugged_iff u
                by_cases h1 : u = x <;> by_cases h2 : u = y <;>
                  simp only [h1, h2, hyx, hyx.symm, ↓reduceIte] <;> grind
              · intro u; have := h.early_imp u
                by_cases h1 : u = x <;> by_cases h2 : u = y <;>
                  simp only [h1, h2, hyx, hyx.symm, ↓reduceIte] <;> grind
              · intro u; have := h.queued_imp u
                by_cases h1 : u = x <;> by_cases h2 : u = y <;>
                  simp only [h1, h2, hyx, hyx.symm, ↓reduceIte] <;> grind
              · intro u; have := h.queued_none u
                by_cases h1 : u = x <;> by_cases h2 : u = y <;>
                  simp only [h1, h2, hyx, hyx.symm, ↓reduceIte] <;> grind
              · rw [h.never_eq]; apply countP_same; intro u hu
                have := h.plugged_iff u
                by_cases h1 : u = x <;> by_cases h2 : u = y <;>
                  simp only [h1, h2, hyx, hyx.symm, ↓reduceIte] <;> grind
              · rw [h.swaps_eq]; symm
                apply countP_update_inc _ _ _ y h.arr_nodup hya
                · have := h.plugged_iff y; grind
                · have := h.queued_none y hy.1 hy.2.2; simp [this, hyx]
                · intro u hu hne
                  by_cases h1 : u = x <;> simp only [h1, hne, hyx, hyx.symm, ↓reduceIte]
              · rw [h.early_eq]; apply countP_same; intro u hu
                by_cases h1 : u = x <;> by_cases h2 : u = y <;>
                  simp only [h1, h2, hyx, hyx.symm, ↓reduceIte]
              · rw [h.draws_eq]; apply countP_same; intro u hu
                by_cases h1 : u = x <;> by_cases h2 : u = y <;>
                  simp only [h1, h2, hyx, hyx.symm, ↓reduceIte]
          · rw [if_neg hxz] at hs; cases hs
            exact h.markStale x st ha hst (by rw [ho]; intro e; cases e; exact hxz rfl)
      · rw [if_neg hmem] at hs; simp at hs

end Acn.Stoch
