/-
  Helper lemmas for C10 (time shift × the sorting-based algorithms, BOTH preprocessing modes):
  `apply_minimum_charging_rate` reads `remaining_time` (= min(departure − arrival, departure − now), the
  same after a shift of all three), the minimum pilots and the feasibility oracle — nothing that moves
  with a shift of the time axis.  So `Sorted.scheduleCall` with `estimate_max_rate = False` is
  shift-invariant with `uninterrupted_charging` on as well as off.
-/
import AcnProofs.Lemmas.EquivSortedShift
import AcnProofs.Lemmas.EquivSortedMinRate

set_option linter.unusedSectionVars false
set_option linter.unusedSimpArgs false
set_option linter.unusedVariables false

namespace Acn.Sorted
open Acn

variable {K : Type} [Field K] [LinearOrder K] [IsStrictOrderedRing K]

theorem reconcile_shS (k : Nat) (s : Session K) : reconcile (shS k s) = shS k (reconcile s) := by
  unfold reconcile
  have h1 : (shS k s).maxRate = s.maxRate := rfl
  have h2 : (shS k s).minRate = s.minRate := rfl
  rw [h1, h2]
  split <;> rfl

theorem minRateStep_shS (k : Nat) (feas : List K → Bool) (infra : Infra K) (period : K) (rates : List K)
    (acc : List (Session K)) (s : Session K) :
    minRateStep feas infra period (rates, acc.map (shS k)) (shS k s) =
      ((minRateStep feas infra period (rates, acc) s).1, (minRateStep feas infra period (rates, acc) s).2.map (shS k)) := by
  unfold minRateStep
  have hi : (shS k s).idx = s.idx := rfl
  have hr : rap infra period (shS k s) = rap infra period s := rfl
  have hm : (shS k s).minRate = s.minRate := rfl
  simp only [hi, hr, hm]
  split
  · simp only [List.map_append, List.map_cons, List.map_nil]
    congr 2
    rw [← reconcile_shS]
    rfl
  · simp only [List.map_append, List.map_cons, List.map_nil]
    rfl

theorem fold_minRate_shS (k : Nat) (feas : List K → Bool) (infra : Infra K) (period : K) :
    ∀ (q : List (Session K)) (rates : List K) (acc : List (Session K)),
      (q.map (shS k)).foldl (minRateStep feas infra period) (rates, acc.map (shS k)) =
        ((q.foldl (minRateStep feas infra period) (rates, acc)).1,
          (q.foldl (minRateStep feas infra period) (rates, acc)).2.map (shS k)) := by
  intro q
  induction q with
  | nil => intro rates acc; rfl
  | cons s rest ih =>
    intro rates acc
    simp only [List.map_cons, List.foldl_cons]
    rw [minRateStep_shS]
    rcases minRateStep feas infra period (rates, acc) s with ⟨r1, a1⟩
    exact ih r1 a1

theorem applyMinimumRate_shS (k : Nat) (feas : List K → Bool) (infra : Infra K) (period : K) (l : List (Session K)) :
    applyMinimumRate feas infra period (l.map (shS k)) = (applyMinimumRate feas infra period l).map (shS k) := by
  rw [applyMinimumRate_eq, applyMinimumRate_eq]
  have hq : sortBy ltRT (l.map (shS k)) = (sortBy ltRT l).map (shS k) :=
    sortBy_map ltRT ltRT (shS k) l (fun _ _ _ _ => rfl)
  rw [hq]
  have key := fold_minRate_shS k feas infra period (sortBy ltRT l) (List.replicate infra.ids.length 0) []
  simp only [List.map_nil] at key
  rw [key]

theorem allocResult_shS [HasCeilNat K] (k : Nat) (feas : List K → Bool) (cfgS : Config K) (infra : Infra K) (period : K)
    (q : List (Session K)) :
    allocResult feas cfgS infra period (q.map (shS k)) = allocResult feas cfgS infra period q := by
  unfold allocResult
  cases cfgS.algo with
  | greedy => exact sortingAlgorithm_shS k feas cfgS.fuel cfgS.eps infra period q
  | roundRobin => exact roundRobin_shS k feas (rrLevels infra period cfgS.inc) (fun _ => rfl) infra q

/-- the whole call, no estimator, `uninterrupted_charging` on or off: same rates, same error -/
theorem scheduleCall_shS_any [HasCeilNat K] (k : Nat) (feas : List K → Bool) (cfgS : Config K)
    (he : cfgS.estimate = false) (infra : Infra K) (period : K) (time : Int)
    (prev : String → Option (K × K)) (rd : Rampdown K) (raw : List (Session K)) :
    (scheduleCall feas cfgS infra period (time + k) prev rd (raw.map (shS k))).result =
      (scheduleCall feas cfgS infra period time prev rd raw).result := by
  rw [scheduleCall_result, scheduleCall_result, resolve_shS]
  cases resolve infra raw with
  | error e => rfl
  | ok l =>
    simp only [Except.map]
    have hpre : (preprocess feas cfgS infra period prev rd (l.map (shS k))).1 =
        (preprocess feas cfgS infra period prev rd l).1.map (shS k) := by
      simp only [preprocess, he, Bool.false_eq_true, if_false, removeFinished_shS, enforcePilotLimit_shS]
      split
      · exact applyMinimumRate_shS k feas infra period _
      · rfl
    rw [hpre, sortSessions_shS, allocResult_shS]

end Acn.Sorted

namespace Acn.SimSorted
open Acn Acn.Sim Acn.Sorted Acn.SimShift

variable {K : Type} [Field K] [LinearOrder K] [IsStrictOrderedRing K] [HasExp K]

/-- the sorting-based algorithms (greedy and round robin, every sort, interruptible or
    `uninterrupted_charging`, no estimator) depend on the view through relative time only -/
theorem sortedSched_shiftInvariant_any [HasCeilNat K] (k : Nat) (net : NetInfo K) (inf : K) (cfg : Cfg K)
    (scfg : Config K) :
    SchedShiftInvariant k (sortedSched net inf cfg scfg) (sortedSched net inf (shiftCfgS k cfg) scfg) := by
  intro v v' hv
  unfold sortedSched
  have hinf : infraOf inf (shiftCfgS k cfg) = infraOf inf cfg := rfl
  have hper : (shiftCfgS k cfg).period = cfg.period := rfl
  have hraw : v'.active.map (sessionOfEv inf v'.iter) = (v.active.map (sessionOfEv inf v.iter)).map (shS k) := by
    rw [hv.active, hv.iter, List.map_map, List.map_map]
    apply List.map_congr_left
    intro e _
    exact sessionOfEv_shift inf k v.iter e
  have htime : ((v'.iter : Nat) : Int) = (v.iter : Int) + (k : Int) := by rw [hv.iter]; push_cast; rfl
  simp only [hinf, hper, hraw, htime]
  rw [scheduleCall_shS_any k (feasOf net) { scfg with estimate := false } rfl]

end Acn.SimSorted
