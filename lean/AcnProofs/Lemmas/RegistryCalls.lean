/-
  Well-formedness of EVERY state a simulator object can be in after ANY NUMBER of `run()` calls — each completed, out
  of fuel, or aborted in any period by the scheduler / `_update_schedules` / `update_pilots` — in a `Valid` scenario
  (generalises `RegistrySim.run_sinv`, which starts at a loop head): after an aborted period the core is in a
  mid-period state (`EventCore.Mid`), from which the events stage pops nothing and cannot raise, so `SInv` — and with
  it `WF` and `AllRef`, the hypotheses of the JSON round trip `RegistrySim.decode_of` — is kept by the next call too.
  (For C02: a resumed simulation can be written to JSON and loaded at ANY point of its life.)
-/
import AcnProofs.Lemmas.EventCoreMid
import AcnProofs.Lemmas.RegistryWF2

set_option linter.unusedSectionVars false

namespace Acn.RegistrySim
open Acn Acn.EventCore Acn.Sim

variable {K : Type} [Add K] [Sub K] [Mul K] [Div K] [Neg K] [LT K] [LE K]
  [DecidableLT K] [DecidableLE K] [OfNat K 0] [OfNat K 1] [NatCast K] [HasExp K]

/-- the core is at a loop head (C01's invariant) or in the middle of the period `_iteration` names -/
def HeadOrMid (cfg : Cfg K) (s : State K) : Prop :=
  EventCore.Inv cfg.core s.core.iter s.core ∨ EventCore.Mid cfg.core s.core.iter s.core

theorem headOrMid_events {cfg : Cfg K} (hv : Valid cfg.core) {s : State K} (h : HeadOrMid cfg s) :
    ∃ c1, EventCore.eventsStage cfg.core s.core = (c1, none) ∧ EventCore.Mid cfg.core s.core.iter c1 := by
  rcases h with hI | hM
  · exact mid_of_inv hv hI
  · exact ⟨s.core, mid_eventsStage hv hM, hM⟩

/-- ONE PERIOD, whatever its outcome: loop head or mid-period again -/
theorem body_headOrMid {cfg : Cfg K} (hv : Valid cfg.core) (sched : View K → Except Err (Schedule K)) {s : State K}
    (h : HeadOrMid cfg s) : HeadOrMid cfg (Sim.body cfg sched s).1 := by
  obtain ⟨c1, hce, hM⟩ := headOrMid_events hv h
  rw [body_eq]
  have hc := Sim.eventsStage_core cfg s
  rw [hce] at hc
  rcases he : Sim.eventsStage cfg s with ⟨s1, err⟩
  rw [he] at hc
  simp only at hc
  obtain ⟨hc1, hc2⟩ := hc
  subst hc2
  simp only
  have hM1 : EventCore.Mid cfg.core s.core.iter s1.core := hc1 ▸ hM
  have hit : s1.core.iter = s.core.iter := hM1.iter
  -- a state whose core differs from `s1.core` in the call log / schedule marks only, period counter not advanced
  have stay : ∀ c : Core, c.iter = s1.core.iter → c.pending = s1.core.pending → c.occ = s1.core.occ →
      c.eventHist = s1.core.eventHist → c.evHist = s1.core.evHist → EventCore.Mid cfg.core c.iter c := by
    intro c e1 e2 e3 e5 e6
    rw [e1, hit]
    refine ⟨e1.trans hit, e5 ▸ hM1.hist, e2 ▸ hM1.pend, e3 ▸ hM1.occ, ?_⟩
    have := hM1.evh
    unfold EvhOK at this ⊢
    rw [e6, e5, this]
  have go : ∀ c : Core, c.iter = s1.core.iter + 1 → c.pending = s1.core.pending → c.occ = s1.core.occ →
      c.resolve = false → c.eventHist = s1.core.eventHist → c.evHist = s1.core.evHist →
      EventCore.Inv cfg.core c.iter c := by
    intro c e1 e2 e3 e4 e5 e6
    have := mid_finish hv hM1 c (by rw [e1, hit]) e2 e3 e4 e5 e6
    rw [e1, hit]; exact this
  unfold afterEvents
  by_cases hn : needsSched cfg.maxRecompute s1.core = true
  · rw [if_pos hn]
    rcases hs : schedStage cfg sched { s1 with core := markInvoked s1.core } with e | m
    · exact Or.inr (stay _ rfl rfl rfl rfl rfl)
    · simp only
      have ha := applyStage_core cfg ({ s1 with pilots := m, core := markScheduled (markInvoked s1.core) } : State K)
      rcases hap : (applyStage cfg ({ s1 with pilots := m, core := markScheduled (markInvoked s1.core) } : State K)).2
        with _ | e
      · rw [hap] at ha
        simp only at ha
        unfold HeadOrMid
        rw [ha]
        exact Or.inl (go _ rfl rfl rfl rfl rfl rfl)
      · rw [hap] at ha
        simp only at ha
        unfold HeadOrMid
        rw [ha]
        exact Or.inr (stay _ rfl rfl rfl rfl rfl)
  · rw [if_neg hn]
    have ha := applyStage_core cfg s1
    rcases hap : (applyStage cfg s1).2 with _ | e
    · rw [hap] at ha
      simp only at ha
      unfold HeadOrMid
      rw [ha]
      refine Or.inl (go _ rfl rfl rfl ?_ rfl rfl)
      simp only [needsSched, Bool.or_eq_true, not_or, Bool.not_eq_true] at hn
      exact hn.1
    · rw [hap] at ha
      simp only at ha
      unfold HeadOrMid
      rw [ha]
      exact Or.inr (stay _ rfl rfl rfl rfl rfl)

/-- a whole `run()` call from a loop head or from the state an aborted period left behind, any outcome -/
theorem run_sinv_any (cfg : Cfg K) (sched : View K → Except Err (Schedule K)) (hv : Valid cfg.core) :
    ∀ (n : Nat) (s : State K), SInv cfg s → HeadOrMid cfg s →
      SInv cfg (Sim.run cfg sched n s).1 ∧ HeadOrMid cfg (Sim.run cfg sched n s).1
  | 0, _, h, hm => ⟨h, hm⟩
  | n + 1, s, h, hm => by
    simp only [Sim.run]
    split
    · obtain ⟨c1, hes, _⟩ := headOrMid_events hv hm
      have hb := body_sinv cfg sched h hv.ids_nodup (by rw [hes])
      have hb2 := body_headOrMid hv sched hm
      rcases hbody : Sim.body cfg sched s with ⟨s', _ | e⟩
      · rw [hbody] at hb hb2
        exact run_sinv_any cfg sched hv n s' hb hb2
      · rw [hbody] at hb hb2
        exact ⟨hb, hb2⟩
    · exact ⟨h, hm⟩

/-- the states a simulator object goes through under any number of `run()` calls, whatever each call's outcome -/
inductive Calls (cfg : Cfg K) : State K → Prop
  | init : Calls cfg (Sim.init cfg)
  | call (sched : View K → Except Err (Schedule K)) (n : Nat) {s : State K} :
      Calls cfg s → Calls cfg (Sim.run cfg sched n s).1

theorem calls_sinv {cfg : Cfg K} (hv : Valid cfg.core) {s : State K} (h : Calls cfg s) :
    SInv cfg s ∧ HeadOrMid cfg s := by
  induction h with
  | init => exact ⟨init_sinv cfg, Or.inl (init_inv hv)⟩
  | call sched n _ ih => exact run_sinv_any cfg sched hv n _ ih.1 ih.2

/-- … all of them are well-formed and have every EV object referenced -/
theorem calls_wf {cfg : Cfg K} (hv : Valid cfg.core) {s : State K} (h : Calls cfg s) : WF cfg s ∧ AllRef cfg s :=
  ⟨(calls_sinv hv h).1.wf hv.ids_nodup, (calls_sinv hv h).1.allRef hv.ids_nodup⟩

end Acn.RegistrySim
