/-
  Helper lemmas for C11: the tuple order on queue entries is a strict weak order.
-/
import AcnModel.Queue
import AcnProofs.Lemmas.QueueHeap
import Mathlib.Tactic

namespace Acn

theorem keyLt_iff (a b : Event) :
    a.keyLt b = true ↔ a.ts < b.ts ∨ (a.ts = b.ts ∧ a.kind.prec < b.kind.prec) := by
  simp [Event.keyLt]

theorem keyLt_false_iff (a b : Event) :
    a.keyLt b = false ↔ b.ts < a.ts ∨ (a.ts = b.ts ∧ b.kind.prec ≤ a.kind.prec) := by
  rw [← Bool.not_eq_true, keyLt_iff]
  constructor
  · intro h
    rcases lt_trichotomy a.ts b.ts with h1 | h1 | h1
    · exact absurd (Or.inl h1) h
    · right; refine ⟨h1, ?_⟩
      by_contra hc; exact h (Or.inr ⟨h1, lt_of_not_ge hc⟩)
    · left; exact h1
  · rintro (h | ⟨h1, h2⟩) (h' | ⟨h1', h2'⟩)
    · omega
    · omega
    · omega
    · exact absurd h2' (not_lt.mpr h2)

theorem keyLt_irrefl (a : Event) : a.keyLt a = false := by
  rw [keyLt_false_iff]; right; exact ⟨rfl, le_refl _⟩

theorem keyLt_trans (a b c : Event) (h1 : a.keyLt b = true) (h2 : b.keyLt c = true) :
    a.keyLt c = true := by
  rw [keyLt_iff] at *
  rcases h1 with h1 | ⟨h1, h1'⟩ <;> rcases h2 with h2 | ⟨h2, h2'⟩
  · left; omega
  · left; omega
  · left; omega
  · right; exact ⟨by omega, lt_trans h1' h2'⟩

/-- `≤` on keys is transitive (negative transitivity of `<`) -/
theorem keyLe_trans (a b c : Event) (h1 : b.keyLt a = false) (h2 : c.keyLt b = false) :
    c.keyLt a = false := by
  rw [keyLt_false_iff] at *
  rcases h1 with h1 | ⟨h1, h1'⟩ <;> rcases h2 with h2 | ⟨h2, h2'⟩
  · left; omega
  · left; omega
  · left; omega
  · right; exact ⟨by omega, le_trans h1' h2'⟩

theorem keyLt_incomp_trans (a b c : Event) (h1 : a.keyLt b = false) (h2 : b.keyLt a = false)
    (h3 : b.keyLt c = false) (h4 : c.keyLt b = false) :
    a.keyLt c = false ∧ c.keyLt a = false :=
  ⟨keyLe_trans c b a h3 h1, keyLe_trans a b c h2 h4⟩

theorem keyLt_swo : Heap.SWO Event.keyLt :=
  ⟨keyLt_irrefl, keyLt_trans, keyLt_incomp_trans⟩

/-- the order is total on keys: two entries are comparable or have the same key -/
theorem keyLt_total (a b : Event) : a.keyLt b = true ∨ b.keyLt a = true ∨
    (a.ts = b.ts ∧ a.kind.prec = b.kind.prec) := by
  rw [keyLt_iff, keyLt_iff]
  rcases lt_trichotomy a.ts b.ts with h | h | h
  · left; left; exact h
  · rcases lt_trichotomy a.kind.prec b.kind.prec with h' | h' | h'
    · left; right; exact ⟨h, h'⟩
    · right; right; exact ⟨h, h'⟩
    · right; left; right; exact ⟨h.symm, h'⟩
  · right; left; left; exact h

/-- entries with the same key have the same timestamp -/
theorem ts_le_of_keyLe {a b : Event} (h : b.keyLt a = false) : a.ts ≤ b.ts := by
  rw [keyLt_false_iff] at h; omega

end Acn
