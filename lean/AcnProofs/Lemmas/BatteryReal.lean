/-
  Charge-level facts over ℝ (all three calculations, dispatched as `Battery.charge` does):
  a successful call satisfies the physical bounds and preserves the invariant; which calls
  fail; operation sequences.
-/
import AcnProofs.Lemmas.BatteryAlg
import AcnProofs.Lemmas.BatteryCont

namespace Acn.BattReal
open Acn Acn.Battery Acn.BattAlg Acn.BattFlow

/-- SoC-level bounds of the closed form, all three regimes (`1 + x ≤ exp x` inside `W_ge`) -/
theorem contSoc_bounds {s ts pd0 md : ℝ} (hmd : 0 < md) (hpd : 0 < pd0) (hts : ts < 1)
    (hs : s ≤ 1) :
    s ≤ contSoc s ts pd0 md ∧ contSoc s ts pd0 md - s ≤ min pd0 md ∧ contSoc s ts pd0 md ≤ 1 := by
  rw [contSoc_eq_flow hmd hpd hts]
  have h1ts : 0 < 1 - ts := by linarith
  have := flowSoc_bounds (p := min pd0 md) (κ := md / (1 - ts)) (s := s) (t := 1)
    (lt_min hpd hmd) (div_pos hmd h1ts) hs zero_le_one
  simpa using this

theorem soc_le_one {b : Batt ℝ} (hb : Inv b) : b.charge / b.capacity ≤ 1 := by
  rw [div_le_one hb.cap_pos]; exact hb.charge_le

/-- one continuous call, any noise level, any draw -/
theorem contCharge_bounds {b : Batt ℝ} (hb : Inv b) (hm : 0 < b.maxPower) (ν : ℝ)
    {pilot V T : ℝ} (hV : 0 < V) (hT : 0 < T) (hp : 0 ≤ pilot) :
    ∃ b' r, contCharge b pilot V T ν = .ok (b', r) ∧ StepBounds b pilot b' r ∧
      SameParams b b' := by
  rcases eq_or_lt_of_le hp with h0 | h0
  · subst h0
    refine ⟨_, _, contCharge_zero b ν hV hT, ⟨le_refl _, le_refl _, le_refl _, hb.maxp_nonneg,
      le_refl _, hb.charge_le⟩, ⟨rfl, rfl, rfl, rfl, rfl, rfl, rfl⟩⟩
  · have hmd := mdOf_pos hb.cap_pos hm hT
    have hpd := pd0Of_pos hb.cap_pos h0 hV hT
    refine ⟨_, _, contCharge_ok b ν hV hT h0 hb.cap_pos hm hb.ts_lt hb.charge_le, ?_,
      ⟨rfl, rfl, rfl, rfl, rfl, rfl, rfl⟩⟩
    exact cont_bounds_of_soc hb hV hT h0 (contSoc_bounds hmd hpd hb.ts_lt (soc_le_one hb))

/-- a continuous call that returns has passed the guards (a full battery returns before the
    maximum power is looked at — fix F18) -/
theorem contCharge_ok_guards {b : Batt ℝ} {pilot V T ν : ℝ} {x : Batt ℝ × ℝ}
    (h : contCharge b pilot V T ν = .ok x) :
    0 < V ∧ 0 < T ∧ (pilot = 0 ∨ (b.capacity ≠ 0 ∧ (1 ≤ b.charge / b.capacity ∨ mdOf b T ≠ 0))) := by
  unfold contCharge at h
  by_cases h1 : V ≤ 0
  · rw [if_pos h1] at h; cases h
  by_cases h2 : T ≤ 0
  · rw [if_neg h1, if_pos h2] at h; cases h
  refine ⟨not_le.mp h1, not_le.mp h2, ?_⟩
  by_cases h3 : isZero pilot = true
  · exact Or.inl ((isZero_iff _).mp h3)
  by_cases h4 : isZero b.capacity = true
  · rw [if_neg h1, if_neg h2, if_neg h3, if_pos h4] at h; cases h
  by_cases hf : 1 ≤ b.charge / b.capacity
  · exact Or.inr ⟨fun h0 => h4 ((isZero_iff _).mpr h0), Or.inl hf⟩
  refine Or.inr ⟨fun h0 => h4 ((isZero_iff _).mpr h0), Or.inr fun h0 => ?_⟩
  rw [if_neg h1, if_neg h2, if_neg h3, if_neg h4, if_neg (by simpa [Battery.soc] using hf)] at h
  have h5 : isZero (b.maxPower / b.capacity / (((60 : ℕ) : ℝ) / T)) = true := by
    rw [isZero_iff]; unfold mdOf at h0; simpa using h0
  simp only [h5, if_true] at h
  cases h

theorem charge_ok_guards {b : Batt ℝ} {pilot V T ν : ℝ} {x : Batt ℝ × ℝ}
    (h : charge b pilot V T ν = .ok x) : 0 < V ∧ 0 < T := by
  by_contra hcon
  have hor : V ≤ 0 ∨ T ≤ 0 := by
    by_contra h2; rw [not_or] at h2; exact hcon ⟨not_le.mp h2.1, not_le.mp h2.2⟩
  unfold charge at h
  split at h
  · split at h
    · rw [contCharge_err b pilot ν hor] at h; cases h
    · rw [stepCharge_err b pilot ν hor] at h; cases h
  · rw [idealCharge_err b pilot hor] at h; cases h

/-- **the per-call bounds, for every battery kind, noise level and draw**: whenever a call on a
    state satisfying the invariant returns, the bounds hold and the invariant is kept -/
theorem charge_ok_bounds {b : Batt ℝ} (hb : Inv b) {pilot V T ν : ℝ} (hp : 0 ≤ pilot)
    {b' : Batt ℝ} {r : ℝ} (h : charge b pilot V T ν = .ok (b', r)) :
    StepBounds b pilot b' r ∧ SameParams b b' := by
  obtain ⟨hV, hT⟩ := charge_ok_guards h
  unfold charge at h
  split at h
  · split at h
    · -- continuous
      have hg := (contCharge_ok_guards h).2.2
      rcases hg with h0 | ⟨hc, hfull | hmd⟩
      · subst h0
        rw [contCharge_zero b ν hV hT] at h; cases h
        exact ⟨⟨le_refl _, le_refl _, le_refl _, hb.maxp_nonneg, le_refl _, hb.charge_le⟩,
          ⟨rfl, rfl, rfl, rfl, rfl, rfl, rfl⟩⟩
      · rcases eq_or_lt_of_le hp with h0 | h0
        · subst h0
          rw [contCharge_zero b ν hV hT] at h; cases h
          exact ⟨⟨le_refl _, le_refl _, le_refl _, hb.maxp_nonneg, le_refl _, hb.charge_le⟩,
            ⟨rfl, rfl, rfl, rfl, rfl, rfl, rfl⟩⟩
        · -- full battery: the guard returns rate 0 and leaves the charge
          rw [contCharge_full b ν hV hT h0.ne' hc hfull] at h; cases h
          exact ⟨⟨le_refl _, h0.le, le_refl _, hb.maxp_nonneg, le_refl _, hb.charge_le⟩,
            ⟨rfl, rfl, rfl, rfl, rfl, rfl, rfl⟩⟩
      · have hm : 0 < b.maxPower := by
          rcases eq_or_lt_of_le hb.maxp_nonneg with h0 | h0
          · exfalso; apply hmd; unfold mdOf; rw [← h0]; simp
          · exact h0
        obtain ⟨b1, r1, e, hs, hsp⟩ := contCharge_bounds hb hm ν hV hT hp
        rw [e] at h; cases h; exact ⟨hs, hsp⟩
    · -- stepwise
      rw [stepCharge_ok b pilot ν hV hT hb.cap_pos.ne'] at h; cases h
      obtain ⟨h0, h1, h2, h3⟩ := stepPower_bounds hb ν hp hV hT
      have hr := rate_bounds hV h0 h1
      have hc := charge_bounds hT h0 h3
      exact ⟨⟨hr.1, hr.2, h0, h2, hc.1, hc.2⟩, ⟨rfl, rfl, rfl, rfl, rfl, rfl, rfl⟩⟩
  · -- ideal
    rw [idealCharge_ok b pilot hV hT] at h; cases h
    obtain ⟨h0, h1, h2, h3⟩ := idealPower_bounds hb hp hV hT
    have hr := rate_bounds hV h0 h1
    have hc := charge_bounds hT h0 h3
    exact ⟨⟨hr.1, hr.2, h0, h2, hc.1, hc.2⟩, ⟨rfl, rfl, rfl, rfl, rfl, rfl, rfl⟩⟩

/-- which calls return: exactly those that pass the guards (and, for the continuous
    calculation with a non-zero pilot, a non-zero maximum power — Python raises
    `ZeroDivisionError` there) -/
theorem charge_total {b : Batt ℝ} (hb : Inv b) {pilot V T : ℝ} (ν : ℝ) (hV : 0 < V) (hT : 0 < T)
    (hm : 0 < b.maxPower ∨ pilot = 0 ∨ b.twoStage = false ∨ b.cmode = .stepwise) :
    ∃ b' r, charge b pilot V T ν = .ok (b', r) := by
  unfold charge
  split
  · rename_i htwo
    split
    · rename_i hmode
      rcases hm with hm | hm | hm | hm
      · rcases eq_or_ne pilot 0 with h0 | h0
        · subst h0; exact ⟨_, _, contCharge_zero b ν hV hT⟩
        · by_cases hf : 1 ≤ b.charge / b.capacity
          · exact ⟨_, _, contCharge_full b ν hV hT h0 hb.cap_pos.ne' hf⟩
          · exact ⟨_, _, contCharge_ok_lt b ν hV hT h0 hb.cap_pos.ne' (mdOf_pos hb.cap_pos hm hT).ne'
              (not_le.mp hf)⟩
      · subst hm; exact ⟨_, _, contCharge_zero b ν hV hT⟩
      · rw [hm] at htwo; cases htwo
      · rw [hm] at hmode; cases hmode
    · exact ⟨_, _, stepCharge_ok b pilot ν hV hT hb.cap_pos.ne'⟩
  · exact ⟨_, _, idealCharge_ok b pilot hV hT⟩

theorem charge_rejects (b : Batt ℝ) (pilot ν : ℝ) {V T : ℝ} (h : V ≤ 0 ∨ T ≤ 0) :
    charge b pilot V T ν = .error .valueError := by
  unfold charge
  split
  · split
    · exact contCharge_err b pilot ν h
    · exact stepCharge_err b pilot ν h
  · exact idealCharge_err b pilot h

/-! ### operation sequences -/

/-- the only requirement on a history: pilots are non-negative (any voltage, period, draw,
    any `reset` argument — the code's own guards deal with those) -/
def OpAdmissible : Op ℝ → Prop
  | .charge pilot _ _ _ => 0 ≤ pilot
  | .reset _ => True

/-- what one successful call guarantees -/
def OpBounds (b : Batt ℝ) : Op ℝ → Batt ℝ → ℝ → Prop
  | .charge pilot _ _ _, b', r => StepBounds b pilot b' r
  | .reset _, b', r => b'.charge ≤ b.capacity ∧ b'.power = 0 ∧ r = 0

/-- the bounds hold at every call of a history (a failing call leaves the state alone and
    the history goes on, as in `runOps`) -/
def HistoryOK : Batt ℝ → List (Op ℝ) → Prop
  | _, [] => True
  | b, o :: os =>
    match applyOp b o with
    | .ok (b', r) => OpBounds b o b' r ∧ Inv b' ∧ SameParams b b' ∧ HistoryOK b' os
    | .error _ => HistoryOK b os

theorem reset_ok {b : Batt ℝ} (hb : Inv b) {i : Option ℝ} {b' : Batt ℝ}
    (h : reset b i = .ok b') :
    b'.charge ≤ b.capacity ∧ b'.power = 0 ∧ SameParams b b' ∧
      b'.charge = (match i with | none => b.init | some c => c) := by
  unfold reset at h
  cases i with
  | none =>
    simp only [Except.ok.injEq] at h; subst h
    exact ⟨hb.init_le, rfl, ⟨rfl, rfl, rfl, rfl, rfl, rfl, rfl⟩, rfl⟩
  | some c =>
    simp only at h
    split_ifs at h with hc
    simp only [Except.ok.injEq] at h; subst h
    exact ⟨not_lt.mp hc, rfl, ⟨rfl, rfl, rfl, rfl, rfl, rfl, rfl⟩, rfl⟩

theorem applyOp_ok {b : Batt ℝ} (hb : Inv b) {o : Op ℝ} (ho : OpAdmissible o) {b' : Batt ℝ} {r : ℝ}
    (h : applyOp b o = .ok (b', r)) : OpBounds b o b' r ∧ Inv b' ∧ SameParams b b' := by
  cases o with
  | charge pilot V T ν =>
    obtain ⟨hs, hp⟩ := charge_ok_bounds hb ho h
    exact ⟨hs, hb.of_sameParams hp hs.charge_le_cap, hp⟩
  | reset i =>
    simp only [applyOp] at h
    cases hr : reset b i with
    | error e => rw [hr] at h; cases h
    | ok b1 =>
      rw [hr] at h; simp only [Except.ok.injEq, Prod.mk.injEq] at h
      obtain ⟨rfl, rfl⟩ := h
      obtain ⟨h1, h2, h3, _⟩ := reset_ok hb hr
      exact ⟨⟨h1, h2, rfl⟩, hb.of_sameParams h3 h1, h3⟩

end Acn.BattReal
