/-
  T1c — the hand-written numeric kernels ARE the code, by proof (Sorted group).

  `AcnModel/Gen/CodeSorted.lean` is regenerated on every run from the Python ASTs of /repo's working tree
  (harness/translate_code.py: a mechanical statement-by-statement translation).  This file proves,
  for EVERY input and at every carrier `K`, that each translated function equals the hand-written
  model function the property theorems are about.  A change of a comparison, clamp, operand order,
  tolerance or assignment in one of these Python functions changes `Gen.Code.*`, and the
  corresponding theorem below stops compiling — whether or not a generated test input happens to
  hit the affected edge.

  Not translated (recorded in the trusted base): Python's `ZeroDivisionError` on float division —
  the hand models return `zeroDivision` where the implementation raises; the ties are stated for the
  inputs on which the model does not report it.  NaN/inf comparison corner cases are IEEE matters.
-/
import AcnModel.Gen.CodeSorted
import AcnModel.Sorted

set_option linter.unusedSectionVars false

namespace Acn.CodeTie
open Acn Acn.Battery Acn.Evse

section
variable {K : Type} [Add K] [Sub K] [Mul K] [Div K] [Neg K] [LT K] [LE K]
  [DecidableLT K] [DecidableLE K] [OfNat K 0] [OfNat K 1] [NatCast K] [HasExp K]

/-- `Interface._convert_to_amp_periods` / `remaining_amp_periods` is `Sorted.rap`. -/
theorem amp_periods_tie (infra : Sorted.Infra K) (period : K) (s : Sorted.Session K) :
    Gen.Code.amp_periods (Sorted.remainingDemand s) (infra.volt.getD s.idx 0) period
      = Sorted.rap infra period s := rfl

/-- the inner key function of `least_laxity_first` is `Sorted.laxity`. -/
theorem laxity_key_tie [IntCast K] (infra : Sorted.Infra K) (period : K) (time : Int) (s : Sorted.Session K) :
    Gen.Code.laxity_key s.estDeparture time (Sorted.rap infra period s) (infra.maxPilot.getD s.idx 0)
      = Sorted.laxity infra period time s := rfl

/-- the inner key function of `largest_remaining_processing_time` is `Sorted.processingTime`. -/
theorem rpt_key_tie [IntCast K] (infra : Sorted.Infra K) (period : K) (s : Sorted.Session K) :
    Gen.Code.rpt_key (Sorted.rap infra period s) (infra.maxPilot.getD s.idx 0)
      = Sorted.processingTime infra period s := rfl

/-- What `Sorted.sortLt` implements for each `SortKind`, written as the source writes it:
    `sorted(evs, key=<key>, reverse=<reverse>)`.  `reverse=True` is the flipped comparison (Python keeps
    equal keys in their original order in both directions). -/
def modelSortTable : List (String × String × Bool) :=
  [("first_come_first_served", "arrival", false), ("last_come_first_served", "arrival", true),
   ("earliest_deadline_first", "estimated_departure", false), ("least_laxity_first", "laxity", false),
   ("largest_remaining_processing_time", "remaining_processing_time", true)]

/-- the comparison `sortLt` uses per kind IS `key a < key b` (or flipped for `reverse=True`) for the
    keys of `modelSortTable` -/
theorem sortLt_is_table [IntCast K] (infra : Sorted.Infra K) (period : K) (time : Int) (a b : Sorted.Session K) :
    Sorted.sortLt .fcfs infra period time a b = decide (a.arrival < b.arrival) ∧
    Sorted.sortLt .lcfs infra period time a b = decide (b.arrival < a.arrival) ∧
    Sorted.sortLt .edf infra period time a b = decide (a.estDeparture < b.estDeparture) ∧
    Sorted.sortLt .llf infra period time a b
      = decide (Sorted.laxity infra period time a < Sorted.laxity infra period time b) ∧
    Sorted.sortLt .lrpt infra period time a b
      = decide (Sorted.processingTime infra period b < Sorted.processingTime infra period a) :=
  ⟨rfl, rfl, rfl, rfl, rfl⟩

end

/-- the five sort functions of the source sort by the keys and directions the model implements -/
theorem sort_table_tie : Gen.Code.sort_table = modelSortTable := by decide

/-- every target of this group was translated in this run -/
theorem all_translated_sorted : Gen.Code.translatedSorted = ["amp_periods", "laxity_key", "rpt_key", "sort_table"] := by decide

end Acn.CodeTie
