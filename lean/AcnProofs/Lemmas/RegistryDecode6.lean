/-
  Helper lemmas for C09 (registry, decoder 6): the CONVERSE of `decode_of` — if the decoder returns the encoded state
  then the state is well-formed.  `WF` is therefore exactly the domain on which `decode ∘ encode = id`
  (for a lawful scalar codec): none of its clauses can be dropped.
-/
import AcnProofs.Lemmas.RegistryDecode4

namespace Acn.RegistrySim
open Acn Acn.EventCore Acn.Sim Acn.Registry
variable {K : Type}

theorem bind_eq_some' {α β : Type} {x : Option α} {f : α → Option β} {b : β} (h : (x >>= f) = some b) :
    ∃ a, x = some a ∧ f a = some b := by
  cases x with
  | none => cases h
  | some a => exact ⟨a, rfl, h⟩

theorem sequence_some {α : Type} : ∀ {l : List (Option α)} {r : List α}, sequence l = some r →
    r.length = l.length ∧ ∀ i (_ : i < l.length), l[i]? = some (r[i]?)
  | [], r, h => by
    simp only [sequence, Option.some.injEq] at h
    subst h
    exact ⟨rfl, fun i hi => absurd hi (by simp)⟩
  | x :: xs, r, h => by
    simp only [sequence] at h
    cases x with
    | none => simp at h
    | some a =>
      cases hs : sequence xs with
      | none => rw [hs] at h; simp at h
      | some as =>
        rw [hs] at h
        simp only [Option.some.injEq] at h
        subst h
        obtain ⟨h1, h2⟩ := sequence_some hs
        refine ⟨by simp [h1], fun i hi => ?_⟩
        cases i with
        | zero => simp
        | succ i =>
          simp only [List.getElem?_cons_succ]
          exact h2 i (by simpa using hi)

/-- `filterMap itemScalar` keeps one item per key plus one per unresolved reference -/
theorem length_scalar_pairs {α : Type} (a : α → String) (c : α → Item) : ∀ l : List α,
    ((l.flatMap fun x => [Item.scalar (a x), c x]).filterMap itemScalar).length =
      l.length + l.countP (fun x => (itemScalar (c x)).isSome)
  | [] => rfl
  | x :: xs => by
    simp only [List.flatMap_cons, List.filterMap_append, List.length_append, length_scalar_pairs a c xs,
      List.length_cons, List.countP_cons]
    cases hc : c x <;> simp [List.filterMap_cons, itemScalar] <;> omega

section conv
variable {sh : Show K} {rd : Read K} {cfg : Cfg K} {s : State K}

theorem resolves_of_evIdx {sid : String} (h : (evIdx s sid).isSome = true) : (evOf s sid).isSome = true := by
  obtain ⟨j, hj⟩ := Option.isSome_iff_exists.1 h
  rw [evOf_eq, hj]
  have := evIdxFrom_bound s.evs sid 0 j hj
  simp only [Option.bind_some]
  rw [List.getElem?_eq_getElem (by omega)]
  rfl

/-- an EV event whose session has no EV object cannot be decoded -/
theorem decodeEvent_resolves (l : Layout) (e e' : Event) (g : Nat → Option Obj) (i : Nat)
    (hg : g i = some (eventObj l s e)) (hk : e.kind ≠ .recompute) (h : decodeEvent rd g i = some e') :
    (evIdx s e.sess).isSome = true := by
  cases hidx : evIdx s e.sess with
  | some j => rfl
  | none =>
    exfalso
    unfold decodeEvent at h
    rw [hg] at h
    rcases e with ⟨ts, kind, sess⟩
    cases kind with
    | recompute => exact hk rfl
    | plugin =>
      simp only at hidx
      simp [eventObj, getS, getR, attr, scalarOf, refOf, List.lookup_cons, sI, sS, evRefVal, hidx, sNull] at h
    | unplug =>
      simp only at hidx
      simp [eventObj, getS, getR, attr, scalarOf, refOf, List.lookup_cons, sI, sS, evRefVal, hidx, sNull] at h

theorem events_resolve (l : Layout) (g : Nat → Option Obj) (evs : List Event) (base : Nat) (r : List Event)
    (hg : ∀ p, p < evs.length → g (base + p) = some (eventObj l s (evs.getD p default)))
    (h : sequence (((List.range evs.length).map fun p => base + p).map (decodeEvent rd g)) = some r) :
    ∀ e ∈ evs, e.kind ≠ .recompute → (evOf s e.sess).isSome = true := by
  intro e he hk
  obtain ⟨p, hp, hpe⟩ := List.getElem_of_mem he
  have hd : evs.getD p default = e := by simp [List.getD, List.getElem?_eq_getElem hp, hpe]
  obtain ⟨h1, h2⟩ := sequence_some h
  have := h2 p (by simpa using hp)
  have hrl : p < r.length := by rw [h1]; simpa using hp
  simp only [List.getElem?_map, List.getElem?_range hp, Option.map_some, List.getElem?_eq_getElem hrl,
    Option.some.injEq] at this
  exact resolves_of_evIdx (decodeEvent_resolves l e r[p] g _ (by rw [hg p hp, hd]) hk this)

/-- THE CONVERSE: whatever decodes to the encoded state is well-formed -/
theorem wf_of_decode (hl : Lawful sh rd) (amb : Ambient) (g : Nat → Option Obj)
    (hg : ∀ i, i < (layout cfg s).size → g i = some (objAt sh cfg s i))
    (h : decode rd cfg amb g = some (setAmb amb s)) : WF cfg s := by
  have hsz := size_eq cfg s
  have h0 : g root = some (simObj sh cfg s) := by
    rw [hg _ (root_lt cfg s)]; exact congrArg some (objAt_0 sh cfg s)
  have h1 : g 1 = some (netObj cfg) := by rw [hg _ (by omega), objAt_1]
  have h2 : g 2 = some (queueObj cfg s) := by rw [hg _ (by omega), objAt_2]
  have hIds : (getL (netObj cfg) "_EVSEs").map (fun l => l.filterMap itemRef) =
      some ((List.range cfg.stations.length).map fun i => 3 + i) := by
    rw [net_evses, Option.map_some, filterMap_ref_pairs]
  have obs : ∀ {α β : Type} (a : α) (f : α → Option β), (some a >>= f) = f a := fun _ _ => rfl
  unfold decode at h
  rw [h0, obs, sim_network, Option.bind_some, h1, obs, sim_queue, Option.bind_some, h2, obs, sim_iter cfg s hl, obs,
    sim_resolve, obs, sim_lastUpd cfg s hl, obs, sim_peak cfg s hl, obs, sim_pilots cfg s hl, obs, sim_rates cfg s hl, obs,
    sim_evHist, Option.bind_some, sim_eventHist, Option.bind_some, queue_queue, Option.bind_some, filterMap_ref_refs,
    filterMap_ref_pairs, hIds] at h
  obtain ⟨a1, hA, h⟩ := bind_eq_some' h
  obtain ⟨a2, hB, h⟩ := bind_eq_some' h
  obtain ⟨a3, hC, h⟩ := bind_eq_some' h
  rw [obs] at h
  obtain ⟨a4, hD, h⟩ := bind_eq_some' h
  obtain ⟨a5, hE, h⟩ := bind_eq_some' h
  simp only [Option.pure_def, Option.some.injEq] at h
  have e1 : a1 = s.core.evHist := congrArg (fun x : State K => x.core.evHist) h
  have e2 : a2 = s.core.eventHist := congrArg (fun x : State K => x.core.eventHist) h
  have e3 : a3 = s.core.pending := congrArg (fun x : State K => x.core.pending) h
  have e4 : a4 = s.evsePilot := congrArg (fun x : State K => x.evsePilot) h
  have e5 : a5 = s.evs := congrArg (fun x : State K => x.evs) h
  have e6 : decodeOcc rd cfg g = s.core.occ := congrArg (fun x : State K => x.core.occ) h
  subst e1 e2 e3 e4 e5
  have hevsLen : s.evs.length = cfg.evs.length := by
    have := (sequence_some hE).1; simpa using this
  refine ⟨hevsLen, ?_, ?_, ?_, ?_, ?_, ?_⟩
  · have := (sequence_some hD).1; simpa using this
  · -- occReg
    intro st x ho
    rw [← e6] at ho
    unfold decodeOcc at ho
    cases hidx : stationIdxFrom cfg.stations st 0 with
    | none => rw [hidx] at ho; cases ho
    | some i =>
      obtain ⟨_, hi, hid⟩ := stationIdxFrom_some ⟨"", .finite [], cfg.period⟩ cfg.stations st 0 i hidx
      simp only [Nat.sub_zero] at hi hid
      exact ⟨_, by simp only [List.getD, List.getElem?_eq_getElem hi, Option.getD_some]; exact List.getElem_mem hi,
        hid⟩
  · -- occEv
    intro st x ho
    have ho' := ho
    rw [← e6] at ho
    unfold decodeOcc at ho
    cases hidx : stationIdxFrom cfg.stations st 0 with
    | none => rw [hidx] at ho; cases ho
    | some i =>
      obtain ⟨_, hi, hid⟩ := stationIdxFrom_some ⟨"", .finite [], cfg.period⟩ cfg.stations st 0 i hidx
      simp only [Nat.sub_zero] at hi hid
      have hgi : g (3 + i) = some (evseObj sh cfg s i) := by
        rw [hg _ (by omega), objAt_evse sh cfg s hi]
      have hev := evse_ev (sh := sh) cfg s i
      rw [hid] at hev
      simp only [ho'] at hev
      rw [hidx, obs, hgi, obs, hev] at ho
      cases hj : evIdx s x.id with
      | none => rw [hj] at ho; cases ho
      | some j =>
        have hjl : j < s.evs.length := by have := evIdxFrom_bound s.evs x.id 0 j hj; omega
        rw [hj, Option.map_some, Option.bind_some, g_ev g hg hjl, obs] at ho
        rw [evOf_eq, hj, Option.bind_some, List.getElem?_eq_getElem hjl, Option.map_some]
        have hd : s.evs.getD j (defaultEv cfg) = s.evs[j] := by
          simp [List.getD, List.getElem?_eq_getElem hjl]
        rw [hd] at ho
        simp [evObjOf, getS, attr, scalarOf, List.lookup_cons, sS, sI, hl.str, hl.int'] at ho
        rw [← ho]
        rfl
  · exact events_resolve _ g s.core.pending _ _ (fun p hp => by
      rw [hg _ (by simp only [Layout.bP, Layout.bE, layout] at *; omega), objAt_pending sh cfg s hp]) hC
  · exact events_resolve _ g s.core.eventHist _ _ (fun p hp => by
      rw [hg _ (by simp only [Layout.bH, Layout.bP, Layout.bE, layout] at *; omega), objAt_hist]) hB
  · -- evh
    have hlen := (sequence_some hA).1
    rw [List.length_map, length_scalar_pairs] at hlen
    have hz : s.core.evHist.countP (fun sid => (itemScalar (evRefItem (layout cfg s) s sid)).isSome) = 0 := by omega
    intro sid hsid
    have := List.countP_eq_zero.1 hz sid hsid
    apply resolves_of_evIdx
    cases hj : evIdx s sid with
    | some j => rfl
    | none => simp [evRefItem, hj, itemScalar] at this

end conv

end Acn.RegistrySim
