/-
  Helper lemmas for C10 (Sim level, shift 3/3): the `k` idle periods in front of a shifted scenario.
  In a period in which nothing is due, no station is occupied, all pilots are 0 and the scheduler (if
  it is invoked at all) answers `{}`, the simulator only advances the clock and appends an all-vacant
  occupancy snapshot.
-/
import AcnProofs.Lemmas.EquivSimShiftRun
import AcnProofs.Lemmas.Pilots

set_option linter.unusedSectionVars false
set_option linter.unusedSimpArgs false

namespace Acn.SimShift
open Acn Acn.Sim Acn.EventCore Acn.Evse Acn.SimEquiv Acn.Ledger Acn.Pilots

variable {K : Type} [Field K] [LinearOrder K] [IsStrictOrderedRing K] [HasExp K]

/-- every EVSE accepts pilot 0 (an idle EVSE is sent pilot 0 in every period; an EVSE with
    `min_rate > 0` refuses it and the run aborts in period 0 of ANY scenario, DESIGN §8) -/
def IdleOK (cfg : Cfg K) : Prop :=
  ∀ st ∈ cfg.stations, validRate (atolOf cfg st.kind) cfg.atolFinite st.kind 0 = true

def noneRow (cfg : Cfg K) : List (Option String) := List.replicate cfg.stations.length none

/-- `width_increase` as computed from the queue -/
def widthOf (P : List Event) (j : Nat) : Nat :=
  match lastTs P with
  | some l => (l + 1).toNat
  | none => j + 1

/-- nothing has happened yet: period `j`, queue `P`, all-zero matrices of width `w`, no occupants -/
structure Idle (cfg : Cfg K) (P : List Event) (w j : Nat) (s : State K) : Prop where
  iter : s.core.iter = j
  pending : s.core.pending = P
  occ : s.core.occ = fun _ => none
  resolve : s.core.resolve = false
  eventHist : s.core.eventHist = []
  evHist : s.core.evHist = []
  pilots : s.pilots = Mat.zeros cfg.stations.length w
  rates : s.rates = Mat.zeros cfg.stations.length w
  peak : s.peak = 0
  evs : s.evs = cfg.evs
  evsePilot : s.evsePilot = List.replicate cfg.stations.length 0
  noiseIdx : s.noiseIdx = 0
  occLog : s.occLog = List.replicate j (noneRow cfg)

theorem set_replicate_self {α : Type} (n i : Nat) (a : α) : (List.replicate n a).set i a = List.replicate n a := by
  apply List.ext_getElem
  · simp
  · intro m h1 h2
    simp only [List.getElem_set, List.getElem_replicate]
    split <;> rfl

theorem writeRow_zero (w j : Nat) (h : j < w) : writeRow (List.replicate w (0 : K)) j [0] = List.replicate w 0 := by
  unfold writeRow
  rw [List.eq_replicate_iff]
  constructor
  · simp; omega
  · intro b hb
    simp only [List.take_replicate, List.drop_replicate, List.mem_append, List.mem_replicate, List.mem_singleton] at hb
    rcases hb with (⟨_, hb⟩ | hb) | ⟨_, hb⟩ <;> exact hb

section
variable {cfg : Cfg K} {P : List Event} {w j : Nat}

theorem occupantEv_idle {s : State K} (h : Idle cfg P w j s) (st : String) : occupantEv s st = none := by
  unfold occupantEv
  rw [h.occ]

theorem setPilotAt_idle (hok : IdleOK cfg) {s : State K} (h : Idle cfg P w j s) (i : Nat) {st : Station K}
    (hst : st ∈ cfg.stations) : setPilotAt cfg s i st = (s, none) := by
  rw [setPilotAt_plan, h.pilots, zeros_get, occupantEv_idle h]
  have hp : plan cfg st 0 none (noiseAt cfg s.noiseIdx) = .ok none := by
    unfold plan
    rw [hok st hst]
    rfl
  rw [hp]
  simp only
  have hset : s.evsePilot.set i 0 = s.evsePilot := by rw [h.evsePilot]; exact set_replicate_self _ _ _
  have he : eff s i 0 none = { s with evsePilot := s.evsePilot.set i 0 } := rfl
  rw [he, hset]

theorem updatePilotsFrom_idle (hok : IdleOK cfg) {s : State K} (h : Idle cfg P w j s) :
    ∀ (sts : List (Station K)) (i : Nat), (∀ st ∈ sts, st ∈ cfg.stations) →
      updatePilotsFrom cfg i sts s = (s, none) := by
  intro sts
  induction sts with
  | nil => intro i _; rfl
  | cons st rest ih =>
    intro i hsub
    simp only [updatePilotsFrom, setPilotAt_idle hok h i (hsub st List.mem_cons_self)]
    exact ih (i + 1) (fun x hx => hsub x (List.mem_cons_of_mem _ hx))

theorem currentRates_idle {s : State K} (h : Idle cfg P w j s) :
    currentRates cfg s = List.replicate cfg.stations.length 0 := by
  unfold currentRates
  rw [List.eq_replicate_iff]
  refine ⟨by simp, ?_⟩
  intro b hb
  obtain ⟨st, _, rfl⟩ := List.mem_map.1 hb
  rw [occupantEv_idle h]

theorem storeRates_idle {s : State K} (h : Idle cfg P w j s) (hj : j < w) (wi : Nat) :
    storeRates cfg wi s = (s, none) := by
  unfold storeRates
  simp only
  rw [currentRates_idle h, h.iter, h.rates]
  have hw : (Mat.zeros cfg.stations.length w : Mat K).width = w := rfl
  have hsum : sumK (List.replicate cfg.stations.length (0 : K)) = 0 := by
    rw [Feas.sumK_eq_sum]; simp
  simp only [hw, hj, if_true, hsum, h.peak]
  have hpm : pyMax (0 : K) 0 = 0 := by simp [pyMax]
  have hwc : writeCol (Mat.zeros cfg.stations.length w : Mat K) j (List.replicate cfg.stations.length 0) =
      Mat.zeros cfg.stations.length w := by
    unfold writeCol Mat.zeros
    simp only [List.zipWith_replicate, Nat.min_self, writeRow_zero w j hj]
  rw [hpm, hwc, ← h.rates, ← h.peak]

theorem widen_idle {s : State K} (h : Idle cfg P w j s) (hw : widthOf P j = w) : widen s = s := by
  have hwi : widthInc s = w := by
    unfold widthInc
    rw [h.pending, h.iter]
    exact hw
  have hz : increaseWidth (Mat.zeros cfg.stations.length w : Mat K) w = Mat.zeros cfg.stations.length w := by
    unfold increaseWidth
    simp [Mat.zeros]
  have hp : increaseWidth s.pilots w = s.pilots := by rw [h.pilots]; exact hz
  have hr : increaseWidth s.rates w = s.rates := by rw [h.rates]; exact hz
  unfold widen
  rw [hwi, hp, hr]

/-- `applyStage` in an idle period: only the clock and the occupancy log move -/
theorem applyStage_idle (hok : IdleOK cfg) {s : State K} (h : Idle cfg P w j s) (hw : widthOf P j = w) (hj : j < w) :
    applyStage cfg s = ({ s with occLog := s.occLog ++ [noneRow cfg], core := advance s.core }, none) := by
  unfold applyStage
  rw [widen_idle h hw]
  have hwid : s.pilots.width = w := by rw [h.pilots]; rfl
  have hc : ¬ s.pilots.width ≤ s.core.iter := by rw [hwid, h.iter]; omega
  simp only [hc, if_false]
  unfold updatePilots
  rw [updatePilotsFrom_idle hok h cfg.stations 0 (fun _ hx => hx)]
  simp only
  rw [storeRates_idle h hj]
  simp only [Prod.mk.injEq, and_true]
  have hrow : (cfg.stations.map fun st => (s.core.occ st.id).map (·.id)) = noneRow cfg := by
    rw [h.occ]
    unfold noneRow
    rw [List.eq_replicate_iff]
    refine ⟨by simp, ?_⟩
    intro b hb
    obtain ⟨st, _, rfl⟩ := List.mem_map.1 hb
    rfl
  rw [hrow]

theorem eventsStage_idle {s : State K} (h : Idle cfg P w j s) (hq : ∀ e ∈ P, (j : Int) < e.ts) :
    Sim.eventsStage cfg s = (s, none) := by
  have hq' : ∀ e ∈ s.core.pending, (s.core.iter : Int) < e.ts := by rw [h.pending, h.iter]; exact hq
  have h1 : s.core.pending.filter (fun e => decide (e.ts ≤ (s.core.iter : Int))) = [] := by
    rw [List.filter_eq_nil_iff]
    intro e he
    have := hq' e he
    simp; omega
  have h2 : s.core.pending.filter (fun e => !decide (e.ts ≤ (s.core.iter : Int))) = s.core.pending := by
    rw [List.filter_eq_self]
    intro e he
    have := hq' e he
    simp; omega
  simp only [Sim.eventsStage, popCurrent, h1, h2, sortByKey, List.foldr_nil, Sim.processAll]

theorem activeEvs_idle {s : State K} (h : Idle cfg P w j s) : activeEvs cfg s = [] := by
  unfold activeEvs
  rw [List.filterMap_eq_nil_iff]
  intro st _
  rw [occupantEv_idle h]

/-- the scheduler answers `{}` while no session is active before period `k` -/
def SchedIdle (k : Nat) (sched : View K → Except EventCore.Err (Schedule K)) : Prop :=
  ∀ v, v.active = [] → v.iter < k → sched v = .ok []

/-- one idle period -/
theorem body_idle (hok : IdleOK cfg) {k : Nat} {sched : View K → Except EventCore.Err (Schedule K)}
    (hsi : cfg.maxRecompute ≠ none → SchedIdle k sched) {s : State K} (h : Idle cfg P w j s) (hjk : j < k)
    (hq : ∀ e ∈ P, (j : Int) < e.ts) (hw : ∀ j', widthOf P j' = w) (hjw : j < w) :
    ∃ s1, Sim.body cfg sched s = (s1, none) ∧ Idle cfg P w (j + 1) s1 ∧
      (cfg.maxRecompute = none → s1.core.lastUpd = s.core.lastUpd ∧ s1.core.invoked = s.core.invoked) := by
  unfold Sim.body
  rw [eventsStage_idle h hq]
  simp only
  by_cases hn : needsSched cfg.maxRecompute s.core = true
  · simp only [hn, if_true]
    have hI : Idle cfg P w j { s with core := markInvoked s.core } :=
      ⟨h.iter, h.pending, h.occ, h.resolve, h.eventHist, h.evHist, h.pilots, h.rates, h.peak, h.evs, h.evsePilot,
        h.noiseIdx, h.occLog⟩
    have hss : schedStage cfg sched { s with core := markInvoked s.core } = .ok s.pilots := by
      unfold schedStage
      rw [activeEvs_idle hI]
      have hmr : cfg.maxRecompute ≠ none := by
        intro hmr
        rw [hmr] at hn
        simp [needsSched, h.resolve] at hn
      have hv : sched (view cfg { s with core := markInvoked s.core }) = .ok [] := by
        apply hsi hmr
        · exact activeEvs_idle hI
        · show s.core.iter < k
          rw [h.iter]; exact hjk
      simp only [List.any_nil, Bool.false_eq_true, if_false, hv]
      rfl
    rw [hss]
    simp only
    have hI2 : Idle cfg P w j { s with core := markScheduled (markInvoked s.core), pilots := s.pilots } :=
      ⟨h.iter, h.pending, h.occ, rfl, h.eventHist, h.evHist, h.pilots, h.rates, h.peak, h.evs, h.evsePilot,
        h.noiseIdx, h.occLog⟩
    rw [applyStage_idle hok hI2 (hw j) hjw]
    refine ⟨_, rfl, ?_, ?_⟩
    · refine ⟨by simp [advance, markScheduled, markInvoked, h.iter], h.pending, h.occ, rfl, h.eventHist, h.evHist,
        h.pilots, h.rates, h.peak, h.evs, h.evsePilot, h.noiseIdx, ?_⟩
      simp only [h.occLog, List.replicate_succ']
    · intro hmr
      rw [hmr] at hn
      simp [needsSched, h.resolve] at hn
  · simp only [hn, Bool.false_eq_true, if_false]
    rw [applyStage_idle hok h (hw j) hjw]
    refine ⟨_, rfl, ?_, fun _ => ⟨rfl, rfl⟩⟩
    refine ⟨by simp [advance, h.iter], h.pending, h.occ, h.resolve, h.eventHist, h.evHist,
      h.pilots, h.rates, h.peak, h.evs, h.evsePilot, h.noiseIdx, ?_⟩
    simp only [h.occLog, List.replicate_succ']

/-- `k` idle periods -/
theorem run_idle (hok : IdleOK cfg) {k : Nat} {sched : View K → Except EventCore.Err (Schedule K)}
    (hsi : cfg.maxRecompute ≠ none → SchedIdle k sched) (hne : P ≠ []) (hq : ∀ e ∈ P, (k : Int) ≤ e.ts) (hw : ∀ j', widthOf P j' = w)
    (hkw : k < w + 1) : ∀ (m j : Nat) (s : State K), j + m = k → Idle cfg P w j s →
    ∃ sk, Idle cfg P w k sk ∧ (∀ n, Sim.run cfg sched (m + n) s = Sim.run cfg sched n sk) ∧
      (cfg.maxRecompute = none → sk.core.lastUpd = s.core.lastUpd ∧ sk.core.invoked = s.core.invoked) := by
  intro m
  induction m with
  | zero =>
    intro j s hjm h
    have : j = k := by omega
    subst this
    exact ⟨s, h, fun n => by simp, fun _ => ⟨rfl, rfl⟩⟩
  | succ m ih =>
    intro j s hjm h
    have hjk : j < k := by omega
    obtain ⟨s1, hb, hI1, hL1⟩ := body_idle hok hsi h hjk (fun e he => by have := hq e he; omega) hw (by omega)
    obtain ⟨sk, hIk, hrun, hLk⟩ := ih (j + 1) s1 (by omega) hI1
    refine ⟨sk, hIk, ?_, ?_⟩
    · intro n
      have hg : guard s.core = true := by
        unfold EventCore.guard
        rw [h.pending]
        cases hP : P with
        | nil => exact absurd hP hne
        | cons a l => simp
      rw [show m + 1 + n = (m + n) + 1 by omega]
      simp only [Sim.run, hg, if_true, hb]
      exact hrun n
    · intro hmr
      obtain ⟨a1, a2⟩ := hL1 hmr
      obtain ⟨b1, b2⟩ := hLk hmr
      exact ⟨b1.trans a1, b2.trans a2⟩

end
end Acn.SimShift
