/-
  Round robin (`RoundRobin.round_robin`): the loop invariant for an arbitrary feasibility
  predicate and arbitrary per-session level lists, the initial state, termination measure.
-/
import AcnProofs.Lemmas.SortedBasic

set_option linter.unusedSectionVars false

namespace Acn.Sorted
open Acn

variable {K : Type} [Field K] [LinearOrder K] [IsStrictOrderedRing K]

/-- the level station `i` currently sits at: `allowable_pilots[i][rate_idx[i]]` -/
def levelAt (levels : List (List K)) (rateIdx : List Nat) (i : Nat) : K :=
  (levels.getD i []).getD (rateIdx.getD i 0) 0

/-- invariant of the `while len(queue) > 0` loop -/
structure RRInv (feas : List K → Bool) (levels : List (List K)) (all : List (Session K))
    (sch0 : List K) (st : RRState K) : Prop where
  feasible : feas st.sched = true
  level : ∀ s ∈ all, st.sched.set s.idx (levelAt levels st.rateIdx s.idx) = st.sched
  sub : ∀ s ∈ st.queue, s ∈ all
  idx : ∀ s ∈ all, s.idx < st.rateIdx.length
  other : ∀ j, (∀ t ∈ all, t.idx ≠ j) → st.sched[j]? = sch0[j]?
  len : st.sched.length = sch0.length

theorem getD_set_self (l : List Nat) (i v : Nat) (h : i < l.length) : (l.set i v).getD i 0 = v := by
  simp [List.getD_eq_getElem?_getD, h]

theorem getD_set_ne (l : List Nat) (i j v : Nat) (h : i ≠ j) : (l.set i v).getD j 0 = l.getD j 0 := by
  simp [List.getD_eq_getElem?_getD, List.getElem?_set_ne h]

theorem rrStep_inv (feas : List K → Bool) (levels : List (List K)) (all : List (Session K))
    (sch0 : List K) (st : RRState K) (h : RRInv feas levels all sch0 st) :
    RRInv feas levels all sch0 (rrStep feas levels st) := by
  unfold rrStep
  split
  · exact h
  · rename_i s rest hq
    have hs : s ∈ all := h.sub s (by rw [hq]; exact List.mem_cons_self)
    have hrest : ∀ t ∈ rest, t ∈ all := fun t ht => h.sub t (by rw [hq]; exact List.mem_cons_of_mem _ ht)
    simp only
    split
    · split
      · -- the increment passed the test
        rename_i _ hfe
        refine ⟨hfe, ?_, ?_, ?_, ?_, ?_⟩
        · intro t ht
          by_cases hti : t.idx = s.idx
          · rw [hti]
            have : levelAt levels (st.rateIdx.set s.idx (st.rateIdx.getD s.idx 0 + 1)) s.idx =
                (levels.getD s.idx []).getD (st.rateIdx.getD s.idx 0 + 1) 0 := by
              unfold levelAt
              rw [getD_set_self _ _ _ (h.idx s hs)]
            rw [this]; simp
          · have hne : s.idx ≠ t.idx := fun e => hti e.symm
            have : levelAt levels (st.rateIdx.set s.idx (st.rateIdx.getD s.idx 0 + 1)) t.idx =
                levelAt levels st.rateIdx t.idx := by
              unfold levelAt
              rw [getD_set_ne _ _ _ _ hne]
            rw [this]
            exact set_noop_of_comm _ _ _ _ _ hne (h.level t ht)
        · intro t ht
          rcases List.mem_append.mp ht with ht | ht
          · exact hrest t ht
          · rw [List.mem_singleton.mp ht]; exact hs
        · intro t ht; rw [List.length_set]; exact h.idx t ht
        · intro j hj
          rw [List.getElem?_set_ne (hj s hs)]
          exact h.other j hj
        · rw [List.length_set]; exact h.len
      · -- the increment failed: revert to the level the station was at
        have hrev : (st.sched.set s.idx ((levels.getD s.idx []).getD (st.rateIdx.getD s.idx 0 + 1) 0)).set
            s.idx ((levels.getD s.idx []).getD (st.rateIdx.getD s.idx 0) 0) = st.sched := by
          rw [List.set_set]
          exact h.level s hs
        rw [hrev]
        exact ⟨h.feasible, h.level, hrest, h.idx, h.other, h.len⟩
    · exact ⟨h.feasible, h.level, hrest, h.idx, h.other, h.len⟩

theorem rrLoop_inv (feas : List K → Bool) (levels : List (List K)) (all : List (Session K))
    (sch0 : List K) : ∀ (fuel : Nat) (st : RRState K), RRInv feas levels all sch0 st →
      RRInv feas levels all sch0 (rrLoop feas levels fuel st) := by
  intro fuel
  induction fuel with
  | zero => intro st h; exact h
  | succ n ih =>
    intro st h
    unfold rrLoop
    split
    · exact h
    · exact ih _ (rrStep_inv feas levels all sch0 st h)

theorem headD_eq_getD (l : List K) : l.headD 0 = l.getD 0 0 := by
  cases l <;> simp

/-- the first loop of `round_robin`: every queued station starts at the first entry of the level
    list stored for it (or 0 if that list is empty); other stations stay 0 -/
theorem rrInit_spec (levelsOf : Session K → List K) (q : List (Session K)) :
    ∀ (acc : List K × List (List K)), (∀ s ∈ q, s.idx < acc.2.length) →
      let res := q.foldl (fun acc s =>
          (acc.1.set s.idx ((levelsOf s).headD 0), acc.2.set s.idx (levelsOf s))) acc
      (∀ s ∈ q, res.1.set s.idx ((res.2.getD s.idx []).getD 0 0) = res.1) ∧
      res.2.length = acc.2.length ∧ res.1.length = acc.1.length ∧
      (∀ j, (∀ t ∈ q, t.idx ≠ j) → res.1[j]? = acc.1[j]?) ∧
      ((q.map (·.idx)).Nodup → ∀ s ∈ q, res.2.getD s.idx [] = levelsOf s) := by
  induction q using List.reverseRecOn with
  | nil =>
    intro acc _
    simp
  | append_singleton init u ih =>
    intro acc hidx
    have hinit : ∀ s ∈ init, s.idx < acc.2.length := fun s hs => hidx s (List.mem_append_left _ hs)
    have hu : u.idx < acc.2.length := hidx u (by simp)
    obtain ⟨h1, h2, h3, h4, h5⟩ := ih acc hinit
    simp only [List.foldl_append, List.foldl_cons, List.foldl_nil]
    generalize hr : init.foldl (fun acc s =>
          (acc.1.set s.idx ((levelsOf s).headD 0), acc.2.set s.idx (levelsOf s))) acc = r at h1 h2 h3 h4 h5
    have hu' : u.idx < r.2.length := by rw [h2]; exact hu
    have hgetu : (r.2.set u.idx (levelsOf u)).getD u.idx [] = levelsOf u := by
      simp [List.getD_eq_getElem?_getD, hu']
    refine ⟨?_, by simp [h2], by simp [h3], ?_, ?_⟩
    · intro s hs
      by_cases hsu : s.idx = u.idx
      · rw [hsu, hgetu, headD_eq_getD]; simp
      · have hs' : s ∈ init := by
          rcases List.mem_append.mp hs with h | h
          · exact h
          · rw [List.mem_singleton.mp h] at hsu; exact absurd rfl hsu
        have hne : u.idx ≠ s.idx := fun e => hsu e.symm
        have : (r.2.set u.idx (levelsOf u)).getD s.idx [] = r.2.getD s.idx [] := by
          simp [List.getD_eq_getElem?_getD, List.getElem?_set_ne hne]
        rw [this]
        exact set_noop_of_comm _ _ _ _ _ hne (h1 s hs')
    · intro j hj
      have hne : u.idx ≠ j := hj u (by simp)
      rw [List.getElem?_set_ne hne]
      exact h4 j (fun t ht => hj t (List.mem_append_left _ ht))
    · intro hnd s hs
      rw [List.map_append, List.nodup_append] at hnd
      rcases List.mem_append.mp hs with h | h
      · have hne : u.idx ≠ s.idx := by
          intro e
          exact hnd.2.2 s.idx (List.mem_map.mpr ⟨s, h, rfl⟩) u.idx (by simp) e.symm
        have : (r.2.set u.idx (levelsOf u)).getD s.idx [] = r.2.getD s.idx [] := by
          simp [List.getD_eq_getElem?_getD, List.getElem?_set_ne hne]
        rw [this]
        exact h5 hnd.1 s h
      · rw [List.mem_singleton.mp h]; exact hgetu

end Acn.Sorted

namespace Acn.Sorted
open Acn
variable {K : Type} [Field K] [LinearOrder K] [IsStrictOrderedRing K]

theorem getD_mem_or_zero (l : List K) (k : Nat) : l.getD k 0 = 0 ∨ l.getD k 0 ∈ l := by
  by_cases h : k < l.length
  · right; simp [List.getD_eq_getElem?_getD, h]
  · left; simp [List.getD_eq_getElem?_getD, not_lt.mp h]

/-- everything the safety theorems need about the result of `round_robin` -/
theorem roundRobin_spec (feas : List K → Bool) (levelsOf : Session K → List K) (infra : Infra K)
    (queue : List (Session K)) (st : RRState K)
    (h : roundRobin feas levelsOf infra queue = .ok st)
    (hidx : ∀ s ∈ queue, s.idx < infra.ids.length) (hlen : infra.allow.length = infra.ids.length) :
    feas st.sched = true ∧ st.sched.length = infra.ids.length ∧
    (∀ j, (∀ t ∈ queue, t.idx ≠ j) → st.sched[j]? = (List.replicate infra.ids.length (0 : K))[j]?) ∧
    ((queue.map (·.idx)).Nodup → ∀ s ∈ queue, ∃ r, st.sched[s.idx]? = some r ∧ (r = 0 ∨ r ∈ levelsOf s)) := by
  have hspec :
      (∀ s ∈ queue, (rrInit levelsOf infra.ids.length infra.allow queue).1.set s.idx
          (((rrInit levelsOf infra.ids.length infra.allow queue).2.getD s.idx []).getD 0 0) =
          (rrInit levelsOf infra.ids.length infra.allow queue).1) ∧
      (rrInit levelsOf infra.ids.length infra.allow queue).2.length = infra.allow.length ∧
      (rrInit levelsOf infra.ids.length infra.allow queue).1.length =
        (List.replicate infra.ids.length (0 : K)).length ∧
      (∀ j, (∀ t ∈ queue, t.idx ≠ j) → (rrInit levelsOf infra.ids.length infra.allow queue).1[j]? =
        (List.replicate infra.ids.length (0 : K))[j]?) ∧
      ((queue.map (·.idx)).Nodup → ∀ s ∈ queue,
        (rrInit levelsOf infra.ids.length infra.allow queue).2.getD s.idx [] = levelsOf s) :=
    rrInit_spec levelsOf queue (List.replicate infra.ids.length (0 : K), infra.allow)
      (by intro s hs; rw [hlen]; exact hidx s hs)
  unfold roundRobin at h
  simp only at h
  generalize rrInit levelsOf infra.ids.length infra.allow queue = p at h hspec
  obtain ⟨sch0, levels⟩ := p
  obtain ⟨h1, h2, h3, h4, h5⟩ := hspec
  split at h
  · cases h
  · rename_i hfe
    have hfe' : feas sch0 = true := by
      cases hx : feas sch0
      · rw [hx] at hfe; exact absurd rfl hfe
      · rfl
    injection h with h
    have hinv0 : RRInv feas levels queue sch0
        { sched := sch0, rateIdx := List.replicate infra.ids.length 0, queue := queue, trace := [] } := by
      refine ⟨hfe', ?_, fun s hs => hs, ?_, fun _ _ => rfl, rfl⟩
      · intro s hs
        have : levelAt levels (List.replicate infra.ids.length 0) s.idx = (levels.getD s.idx []).getD 0 0 := by
          unfold levelAt
          simp [List.getD_eq_getElem?_getD, hidx s hs]
        show sch0.set s.idx (levelAt levels (List.replicate infra.ids.length 0) s.idx) = sch0
        rw [this]; exact h1 s hs
      · intro s hs
        show s.idx < (List.replicate infra.ids.length 0).length
        rw [List.length_replicate]; exact hidx s hs
    have hinv : RRInv feas levels queue sch0 st := by
      rw [← h]; exact rrLoop_inv feas levels queue sch0 _ _ hinv0
    have hl : st.sched.length = infra.ids.length := by
      rw [hinv.len]; show sch0.length = _; rw [h3]; simp
    refine ⟨hinv.feasible, hl, ?_, ?_⟩
    · intro j hj; rw [hinv.other j hj]; exact h4 j hj
    · intro hnd s hs
      have hget := getElem?_of_set_noop _ _ _ (hinv.level s hs) (by rw [hl]; exact hidx s hs)
      refine ⟨_, hget, ?_⟩
      unfold levelAt
      have := h5 hnd s hs
      simp only at this
      rw [this]
      exact getD_mem_or_zero _ _

end Acn.Sorted
