/-
  Helper lemmas for C02 (5/5): consequences of the invariant — the single-row form of a session's
  energy (its own station's row only) and the total over all sessions.
-/
import AcnProofs.Lemmas.LedgerStep

set_option linter.unusedSectionVars false
set_option linter.unusedSimpArgs false
set_option linter.unusedVariables false

namespace Acn.Ledger
open Acn Acn.Sim Acn.EventCore Acn.Evse Finset

variable {K : Type} [Field K] [LinearOrder K] [IsStrictOrderedRing K] [HasExp K]

theorem findSession_core (cfg : Cfg K) (id : String) :
    findSession cfg.core id = (evIn cfg.evs id).map sessionOf := by
  unfold findSession Cfg.core evIn
  simp only [List.find?_map]
  rfl

theorem stationIndex_of {cfg : Cfg K} (hn : StationsNodup cfg) {i : Nat} {st : Station K}
    (h : cfg.stations[i]? = some st) : stationIndex cfg st.id = i := by
  obtain ⟨hi, rfl⟩ := List.getElem?_eq_some_iff.1 h
  unfold stationIndex
  rw [List.findIdx_eq hi]
  refine ⟨by simp, ?_⟩
  intro j hji
  have hj : j < cfg.stations.length := by omega
  unfold StationsNodup at hn
  have := (List.Nodup.getElem_inj_iff hn (i := j) (j := i) (hi := by simpa using hj) (hj := by simpa using hi))
  simp only [List.getElem_map] at this
  have hne : cfg.stations[j].id ≠ cfg.stations[i].id := fun he => by
    have := this.1 he; omega
  simpa using hne

/-- under the invariant, a session only ever shows up at its own station's number -/
theorem occAt_station {cfg : Cfg K} (hn : StationsNodup cfg) {t : Nat} {occ : String → Option Session}
    {rates : Pilots.Mat K} {peak : K} {evs : List (Ev K)} {log : List (List (Option String))}
    (hL : LedgerP cfg t occ rates peak evs log) {id : String} {e0 : Ev K} (h0 : evIn cfg.evs id = some e0)
    {τ j : Nat} (h : occAt log τ j = some id) :
    j = stationIndex cfg e0.station ∧ j < cfg.stations.length := by
  obtain ⟨x, st, hf, hst, hxs⟩ := hL.log_sound τ j id h
  rw [findSession_core, h0] at hf
  simp only [Option.map_some, Option.some.injEq] at hf
  subst hf
  have := stationIndex_of hn hst
  rw [← hxs] at this
  exact ⟨this.symm, (List.getElem?_eq_some_iff.1 hst).1⟩

theorem sum_term_single {cfg : Cfg K} (hn : StationsNodup cfg) {t : Nat} {occ : String → Option Session}
    {rates : Pilots.Mat K} {peak : K} {evs : List (Ev K)} {log : List (List (Option String))}
    (hL : LedgerP cfg t occ rates peak evs log) {id : String} {e0 : Ev K} (h0 : evIn cfg.evs id = some e0)
    (τ : Nat) :
    ∑ i ∈ range cfg.stations.length, term cfg rates log id τ i =
      term cfg rates log id τ (stationIndex cfg e0.station) := by
  by_cases hk : stationIndex cfg e0.station < cfg.stations.length
  · rw [Finset.sum_eq_single (stationIndex cfg e0.station)]
    · intro j _ hjk
      unfold term
      rw [if_neg (fun h => hjk (occAt_station hn hL h0 h).1)]
    · intro h; exact absurd (Finset.mem_range.2 hk) h
  · have hz : ∀ j, term cfg rates log id τ j = 0 := by
      intro j
      unfold term
      rw [if_neg]
      intro h
      obtain ⟨h1, h2⟩ := occAt_station hn hL h0 h
      rw [h1] at h2
      exact hk h2
    rw [hz]
    exact Finset.sum_eq_zero (fun j _ => hz j)

/-! ### totals -/

theorem evIn_of_mem_nodup : ∀ (evs : List (Ev K)), (evs.map (·.session)).Nodup → ∀ e ∈ evs,
    evIn evs e.session = some e := by
  intro evs
  induction evs with
  | nil => intro _ e he; simp at he
  | cons d ds ih =>
    intro hnd e he
    simp only [List.map_cons, List.nodup_cons] at hnd
    unfold evIn
    rcases List.mem_cons.1 he with rfl | he
    · simp [List.find?_cons]
    · have hne : d.session ≠ e.session := by
        intro heq
        exact hnd.1 (heq ▸ List.mem_map.2 ⟨e, he, rfl⟩)
      have : (d.session == e.session) = false := by simpa using hne
      simp only [List.find?_cons, this]
      exact ih hnd.2 e he

/-- a per-EV quantity summed over the list = summed over the session ids through the lookup -/
theorem sum_by_ids (evs : List (Ev K)) (hnd : (evs.map (·.session)).Nodup) (f : Ev K → K) :
    (evs.map f).sum =
      ((evs.map (·.session)).map fun id => match evIn evs id with
        | some e => f e
        | none => 0).sum := by
  rw [List.map_map]
  congr 1
  apply List.map_congr_left
  intro e he
  simp only [Function.comp]
  rw [evIn_of_mem_nodup evs hnd e he]

theorem total_of_inv {cfg : Cfg K} (hn : StationsNodup cfg) (hid : (cfg.evs.map (·.session)).Nodup)
    {t : Nat} {occ : String → Option Session}
    {rates : Pilots.Mat K} {peak : K} {evs : List (Ev K)} {log : List (List (Option String))}
    (hL : LedgerP cfg t occ rates peak evs log) :
    (evs.map (·.delivered)).sum - (cfg.evs.map (·.delivered)).sum =
      ∑ τ ∈ range t, (∑ i ∈ range cfg.stations.length, volt cfg i * rates.get i τ / 1000) * (cfg.period / 60) := by
  have hid' : (evs.map (·.session)).Nodup := by rw [hL.ids]; exact hid
  rw [sum_by_ids evs hid' (·.delivered), sum_by_ids cfg.evs hid (·.delivered), hL.ids]
  rw [← List.sum_toFinset _ hid, ← List.sum_toFinset _ hid, ← Finset.sum_sub_distrib]
  -- per id: the session's energy
  have hper : ∀ id ∈ (cfg.evs.map (·.session)).toFinset,
      ((match evIn evs id with | some e => e.delivered | none => 0) -
       (match evIn cfg.evs id with | some e => e.delivered | none => 0) : K) =
        sessionEnergy cfg rates log id t := by
    intro id hmem
    rw [List.mem_toFinset] at hmem
    have h0 : (evIn cfg.evs id).isSome = true := (evIn_isSome_iff _ _).2 hmem
    have h1 : (evIn evs id).isSome = true := (evIn_isSome_iff _ _).2 (hL.ids ▸ hmem)
    obtain ⟨e0, he0⟩ := Option.isSome_iff_exists.1 h0
    obtain ⟨e, he⟩ := Option.isSome_iff_exists.1 h1
    simp only [he0, he]
    exact hL.sess id e0 e he0 he
  rw [Finset.sum_congr rfl hper]
  unfold sessionEnergy
  rw [Finset.sum_comm]
  apply Finset.sum_congr rfl
  intro τ hτ
  rw [Finset.sum_comm, Finset.sum_mul]
  apply Finset.sum_congr rfl
  intro i hi
  have hτ' := Finset.mem_range.1 hτ
  have hi' := Finset.mem_range.1 hi
  unfold term
  cases ho : occAt log τ i with
  | none =>
    rw [hL.vacant τ i hτ' hi' ho]
    simp
  | some j =>
    have hj : j ∈ (cfg.evs.map (·.session)).toFinset := by
      obtain ⟨x, st, hf, _, _⟩ := hL.log_sound τ i j ho
      rw [findSession_core] at hf
      rw [List.mem_toFinset, ← evIn_isSome_iff]
      cases hq : evIn cfg.evs j with
      | none => simp [hq] at hf
      | some q => rfl
    simp only [Option.some.injEq]
    rw [Finset.sum_ite_eq, if_pos hj]
    unfold energy
    ring

end Acn.Ledger
