/-
  Helper lemmas for C09 (registry, decoder): `RegistrySim.decode` inverts `RegistrySim.encode` — proved
  here for the EV / battery objects (every static and dynamic number of every session: energy delivered,
  last rate, battery charge and power, two-stage parameters), for every lawful scalar codec.
-/
import AcnProofs.Lemmas.RegistryCodec

namespace Acn.RegistrySim
open Acn Acn.EventCore Acn.Sim Acn.Registry
variable {K : Type}

/-- the parsers invert the renderings -/
structure Lawful (sh : Show K) (rd : Read K) : Prop where
  num : ∀ x, rd.num ("f:" ++ sh.num x) = some x
  mat : ∀ m, rd.mat ("m:" ++ sh.mat m) = some m
  int : ∀ n : Int, rd.int ("i:" ++ toString n) = some n
  nat : ∀ n : Nat, rd.nat ("i:" ++ toString n) = some n
  str : ∀ x, rd.str ("s:" ++ x) = some x
  int_null : rd.int "null" = none

theorem Lawful.int' {sh : Show K} {rd : Read K} (hl : Lawful sh rd) (n : Int) : rd.int ("i:" ++ n.repr) = some n := hl.int n
theorem Lawful.nat' {sh : Show K} {rd : Read K} (hl : Lawful sh rd) (n : Nat) : rd.nat ("i:" ++ n.repr) = some n := hl.nat n

theorem calcOf_name (c : Battery.Calc) : calcOf (calcName c) = some c := by
  cases c <;> simp [calcOf, calcName]

theorem decodeBatt_of {sh : Show K} {rd : Read K} (hl : Lawful sh rd) (b : Battery.Batt K)
    (g : Nat → Option Obj) (i : Nat) (hg : g i = some (battObjOf sh b)) : decodeBatt rd g i = some b := by
  unfold decodeBatt
  rw [hg]
  rcases b with ⟨cap, ch, ini, mp, pw, two, nl, ts, cm⟩
  cases two <;>
    simp [battObjOf, getS, attr, scalarOf, sF, sS, hl.num, hl.str, calcOf_name, List.lookup_cons]

theorem decodeEv_of {sh : Show K} {rd : Read K} (hl : Lawful sh rd) (l : Layout) (j : Nat) (e : Evse.Ev K)
    (g : Nat → Option Obj) (hg : g (l.evId j) = some (evObjOf sh l j e))
    (hb : g (l.battId j) = some (battObjOf sh e.batt)) : decodeEv rd g (l.evId j) = some e := by
  unfold decodeEv
  rw [hg]
  rcases e with ⟨a1, a2, a3, a4, a5, a6, a7, a8, a9⟩
  simp [evObjOf, getS, getR, attr, scalarOf, refOf, sF, sS, sI, hl.num, hl.str, hl.int', List.lookup_cons,
    decodeBatt_of hl _ g _ hb]

theorem sequence_map_some {α : Type} : ∀ l : List α, sequence (l.map some) = some l
  | [] => rfl
  | a :: as => by simp [sequence, sequence_map_some as]

theorem range_map_getD {α : Type} (d : α) (l : List α) : (List.range l.length).map (fun i => l.getD i d) = l := by
  apply List.ext_getElem
  · simp
  · intro i h1 h2
    simp at h1
    simp [List.getD, h1]

theorem objAt_ev (sh : Show K) (cfg : Cfg K) (s : State K) {j : Nat} (hj : j < s.evs.length) :
    objAt sh cfg s ((layout cfg s).evId j) = evObj sh cfg s j := by
  have hn : (layout cfg s).nEv = s.evs.length := rfl
  unfold objAt
  simp only []
  have e : (layout cfg s).evId j = (layout cfg s).bE + 2 * j := rfl
  have hbP : (layout cfg s).bP = (layout cfg s).bE + 2 * (layout cfg s).nEv := rfl
  have hbE : (layout cfg s).bE = 3 + cfg.stations.length := rfl
  rw [if_neg (by omega), if_neg (by omega), if_neg (by omega), if_neg (by omega), if_pos (by omega),
    if_pos (by omega)]
  congr 1
  omega

theorem objAt_batt (sh : Show K) (cfg : Cfg K) (s : State K) {j : Nat} (hj : j < s.evs.length) :
    objAt sh cfg s ((layout cfg s).battId j) = battObj sh cfg s j := by
  have hn : (layout cfg s).nEv = s.evs.length := rfl
  unfold objAt
  simp only []
  have e : (layout cfg s).battId j = (layout cfg s).bE + 2 * j + 1 := rfl
  have hbP : (layout cfg s).bP = (layout cfg s).bE + 2 * (layout cfg s).nEv := rfl
  have hbE : (layout cfg s).bE = 3 + cfg.stations.length := rfl
  rw [if_neg (by omega), if_neg (by omega), if_neg (by omega), if_neg (by omega), if_pos (by omega),
    if_neg (by omega)]
  congr 1
  omega

/-- the EV list is recovered from ANY store that agrees with the encoded one on the EV / battery ids -/
theorem decode_evs {sh : Show K} {rd : Read K} (hl : Lawful sh rd) (cfg : Cfg K) (s : State K)
    (g : Nat → Option Obj)
    (hg : ∀ i, i < (layout cfg s).size → g i = some (objAt sh cfg s i)) :
    sequence ((List.range s.evs.length).map fun j => decodeEv rd g (3 + cfg.stations.length + 2 * j)) = some s.evs := by
  have hn : (layout cfg s).nEv = s.evs.length := rfl
  have key : ∀ j ∈ List.range s.evs.length,
      decodeEv rd g (3 + cfg.stations.length + 2 * j) = some (s.evs.getD j (defaultEv cfg)) := by
    intro j hj
    rw [List.mem_range] at hj
    have h1 : (layout cfg s).evId j < (layout cfg s).size := evId_lt _ (by omega)
    have h2 : (layout cfg s).battId j < (layout cfg s).size := by
      have : (layout cfg s).size = (layout cfg s).bE + 2 * (layout cfg s).nEv + (layout cfg s).nP + (layout cfg s).nH := rfl
      have e : (layout cfg s).battId j = (layout cfg s).bE + 2 * j + 1 := rfl
      omega
    exact decodeEv_of hl (layout cfg s) j _ g (by rw [hg _ h1, objAt_ev sh cfg s hj]; rfl)
      (by rw [hg _ h2, objAt_batt sh cfg s hj]; rfl)
  rw [List.map_congr_left key]
  have : (List.range s.evs.length).map (fun j => some (s.evs.getD j (defaultEv cfg)))
      = ((List.range s.evs.length).map (fun j => s.evs.getD j (defaultEv cfg))).map some := by simp
  rw [this, range_map_getD, sequence_map_some]

end Acn.RegistrySim
