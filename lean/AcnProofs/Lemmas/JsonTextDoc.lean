/-
  Helper lemmas for C09 (JSON text layer, documents): `json.loads(json.dumps(v)) = v` for every value built
  from `None`, `bool`, `int`, float texts, `str`, `list` and `dict` (`AcnModel/JsonText.lean`: `render`,
  `parseVal`, `parse`), by mutual induction on the value; the only premise is that every float leaf has the
  lexical shape of a float (`JVal.wf`).
-/
import AcnProofs.Lemmas.JsonTextStr
import AcnProofs.Lemmas.JsonTextNum
namespace Acn.JsonText

/-- the text after a value does not continue a number (it is empty, or starts with `,` `]` `}` `:` blank …) -/
def Delim (rest : List Char) : Prop := ∀ c r, rest = c :: r → isNumChar c = false

theorem delim_nil : Delim [] := fun _ _ h => by cases h
theorem delim_cons (c : Char) (r : List Char) (h : isNumChar c = false) : Delim (c :: r) :=
  fun _ _ e => by cases e; exact h

/-- first character of a rendered value: not blank, not a separator or closing bracket -/
def HeadOK (cs : List Char) : Prop :=
  ∃ c t, cs = c :: t ∧ isWs c = false ∧ c ≠ ']' ∧ c ≠ '}' ∧ c ≠ ',' ∧ c ≠ ':'

theorem takeWhile_delim (p : Char → Bool) (t rest : List Char) (h : t.all p = true)
    (hd : ∀ c r, rest = c :: r → p c = false) :
    (t ++ rest).takeWhile p = t ∧ (t ++ rest).dropWhile p = rest := by
  induction t with
  | nil =>
    cases rest with
    | nil => simp
    | cons c r => simp [hd c r rfl]
  | cons a t ih =>
    simp only [List.all_cons, Bool.and_eq_true] at h
    simp [h.1, ih h.2]

theorem startsNum_head (t : List Char) (h : startsNum t = true) :
    ∃ c r, t = c :: r ∧ (c.isDigit = true ∨ c = '-' ∨ c = 'N' ∨ c = 'I') := by
  cases t with
  | nil => simp [startsNum] at h
  | cons c r => exact ⟨c, r, rfl, by simpa [startsNum, or_assoc] using h⟩

theorem numHead_props (c : Char) (h : c.isDigit = true ∨ c = '-' ∨ c = 'N' ∨ c = 'I') :
    isWs c = false ∧ c ≠ ']' ∧ c ≠ '}' ∧ c ≠ ',' ∧ c ≠ ':' ∧ c ≠ '"' ∧ c ≠ '[' ∧ c ≠ '{' ∧ c ≠ 'n' ∧ c ≠ 't' ∧ c ≠ 'f' := by
  rcases h with h | rfl | rfl | rfl
  · refine ⟨?_, ?_, ?_, ?_, ?_, ?_, ?_, ?_, ?_, ?_, ?_⟩ <;>
      first
      | (rintro rfl; revert h; decide)
      | (cases hw : isWs c
         · rfl
         · simp only [isWs, Bool.or_eq_true, decide_eq_true_eq] at hw
           rcases hw with ((rfl | rfl) | rfl) | rfl <;> (revert h; decide))
  all_goals decide

/-- a number text followed by a delimiter: the scanner takes exactly the text; `-?digits` is an `int`, a float
    text a `float` -/
theorem parseAtom_num (t rest : List Char) (hall : t.all isNumChar = true) (hs : startsNum t = true)
    (hd : Delim rest) :
    parseAtom (t ++ rest) =
      if isIntTok t then some (.int (intOfTok t), rest)
      else if isFloatTok t then some (.num t, rest) else none := by
  obtain ⟨c, r, rfl, hc⟩ := startsNum_head t hs
  obtain ⟨_, _, _, _, _, _, _, _, hn, ht, hf⟩ := numHead_props c hc
  obtain ⟨h1, h2⟩ := takeWhile_delim isNumChar (c :: r) rest hall hd
  have l1 : lit ['n', 'u', 'l', 'l'] ((c :: r) ++ rest) = false := by
    simp [lit, List.isPrefixOf_cons_cons, Ne.symm hn]
  have l2 : lit ['t', 'r', 'u', 'e'] ((c :: r) ++ rest) = false := by
    simp [lit, List.isPrefixOf_cons_cons, Ne.symm ht]
  have l3 : lit ['f', 'a', 'l', 's', 'e'] ((c :: r) ++ rest) = false := by
    simp [lit, List.isPrefixOf_cons_cons, Ne.symm hf]
  unfold parseAtom
  simp only [l1, l2, l3, Bool.false_eq_true, if_false, h1, h2]

theorem parseAtom_int (n : Int) (rest : List Char) (hd : Delim rest) :
    parseAtom (renderInt n ++ rest) = some (.int n, rest) := by
  have hs : startsNum (renderInt n) = true := by
    obtain ⟨c, t, h, hc⟩ := renderInt_head n
    rw [h]
    rcases hc with hc | rfl <;> simp [startsNum, *]
  rw [parseAtom_num _ _ (renderInt_all_num n) hs hd, isIntTok_renderInt, intOfTok_renderInt]
  rfl

theorem parseAtom_float (t rest : List Char) (h : isFloatTok t = true) (hd : Delim rest) :
    parseAtom (t ++ rest) = some (.num t, rest) := by
  have h' := h
  simp only [isFloatTok, Bool.and_eq_true, Bool.not_eq_true'] at h'
  rw [parseAtom_num _ _ h'.1.1 h'.1.2 hd, h'.2, h]
  simp

theorem parseAtom_null (rest : List Char) : parseAtom (['n', 'u', 'l', 'l'] ++ rest) = some (.null, rest) := by
  simp [parseAtom, lit, List.isPrefixOf_cons_cons]

theorem parseAtom_true (rest : List Char) : parseAtom (['t', 'r', 'u', 'e'] ++ rest) = some (.bool true, rest) := by
  simp [parseAtom, lit, List.isPrefixOf_cons_cons]

theorem parseAtom_false (rest : List Char) :
    parseAtom (['f', 'a', 'l', 's', 'e'] ++ rest) = some (.bool false, rest) := by
  simp [parseAtom, lit, List.isPrefixOf_cons_cons]

theorem skipWs_of_head (c : Char) (t : List Char) (h : isWs c = false) : skipWs (c :: t) = c :: t := by
  simp [skipWs, h]

theorem skipWs_space (t : List Char) : skipWs (' ' :: t) = skipWs t := by
  simp [skipWs, isWs]

/-- the first character of `json.dumps(v)` -/
theorem render_head : ∀ (v : JVal), v.wf = true → HeadOK (render v)
  | .null, _ => ⟨'n', _, rfl, by decide, by decide, by decide, by decide, by decide⟩
  | .bool true, _ => ⟨'t', _, rfl, by decide, by decide, by decide, by decide, by decide⟩
  | .bool false, _ => ⟨'f', _, rfl, by decide, by decide, by decide, by decide, by decide⟩
  | .int n, _ => by
    obtain ⟨c, t, h, hc⟩ := renderInt_head n
    have hp := numHead_props c (by rcases hc with hc | hc; exact Or.inl hc; exact Or.inr (Or.inl hc))
    exact ⟨c, t, by simp [render, h], hp.1, hp.2.1, hp.2.2.1, hp.2.2.2.1, hp.2.2.2.2.1⟩
  | .num t, hw => by
    have hw' : isFloatTok t = true := by simpa [JVal.wf] using hw
    simp only [isFloatTok, Bool.and_eq_true, Bool.not_eq_true'] at hw'
    obtain ⟨c, r, h, hc⟩ := startsNum_head t hw'.1.2
    have hp := numHead_props c hc
    exact ⟨c, r, by simp [render, h], hp.1, hp.2.1, hp.2.2.1, hp.2.2.2.1, hp.2.2.2.2.1⟩
  | .str s, _ => ⟨'"', escape s.toList ++ ['"'], by simp [render, renderStr], by decide, by decide, by decide, by decide, by decide⟩
  | .arr [], _ => ⟨'[', [']'], by simp [render], by decide, by decide, by decide, by decide, by decide⟩
  | .arr (v :: l), _ => ⟨'[', render v ++ (renderTail l ++ [']']), by simp [render], by decide, by decide, by decide,
      by decide, by decide⟩
  | .obj [], _ => ⟨'{', ['}'], by simp [render], by decide, by decide, by decide, by decide, by decide⟩
  | .obj ((k, v) :: l), _ => ⟨'{', renderStr k.toList ++ (':' :: ' ' :: (render v ++ (renderMTail l ++ ['}']))),
      by simp [render], by decide, by decide, by decide, by decide, by decide⟩

end Acn.JsonText
