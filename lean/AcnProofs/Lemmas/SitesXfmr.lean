/-
  Transformer, pod and panel corollaries of the generic line-triple bound.
-/
import AcnProofs.Lemmas.SitesMain

namespace Acn.SitesXfmr
open Acn Acn.Feas Acn.Sites Acn.Gen.Sites Acn.SitesFeas Acn.SitesTopo Acn.SitesMain
variable {K : Type} [Field K] [LinearOrder K] [IsStrictOrderedRing K]
set_option linter.unusedSectionVars false

structure XfmrFacts (T : Topo) (x : Xfmr) : Prop where
  tri : tripleOk T x.sec = true
  cap : ∃ k ops N D, xfmrCap T x = some (k, ops) ∧ limOf T x.sec.a = .ofCap k ops ∧
    limOf T x.sec.b = .ofCap k ops ∧ limOf T x.sec.c = .ofCap k ops ∧
    normOps ops = some (N, D, false) ∧ D ≠ 0 ∧ N * 360 = 1000 * D

theorem xfmrCap_some (T : Topo) (x : Xfmr) (k : Nat) (ops : List Op) (h : xfmrCap T x = some (k, ops)) :
    limOf T x.sec.a = .ofCap k ops := by
  unfold xfmrCap at h
  split at h
  · rename_i k' ops' heq
    simp only [Option.some.injEq, Prod.mk.injEq] at h
    rw [heq, h.1, h.2]
  · simp at h

theorem xfmrFacts_of (T : Topo) (x : Xfmr) (h : xfmrOk T x = true) : XfmrFacts T x := by
  unfold xfmrOk at h
  simp only [Bool.and_eq_true] at h
  obtain ⟨⟨⟨⟨h1, _⟩, _⟩, _⟩, h5⟩ := h
  refine ⟨h1, ?_⟩
  cases hc : xfmrCap T x with
  | none => simp [hc] at h5
  | some v =>
    obtain ⟨k, ops⟩ := v
    simp only [hc, Bool.and_eq_true, decide_eq_true_eq, beq_iff_eq] at h5
    obtain ⟨⟨⟨⟨_, hb⟩, hcc⟩, hn⟩, _⟩ := h5
    cases hno : normOps ops with
    | none => simp [hno] at hn
    | some w =>
      obtain ⟨N, D, odd⟩ := w
      simp only [hno, Bool.and_eq_true, decide_eq_true_eq, Bool.not_eq_true', ne_eq] at hn
      obtain ⟨⟨hodd, hD⟩, hN⟩ := hn
      subst hodd
      exact ⟨k, ops, N, D, rfl, xfmrCap_some T x k ops hc, hb, hcc, hno, hD, hN⟩

/-- the secondary limit as a function of the capacity -/
theorem limK_secondary (r : K) (hr : r * r = 3) (caps : List K) (k : Nat) (ops : List Op) (N D : Int)
    (hn : normOps ops = some (N, D, false)) (hN : N * 360 = 1000 * D) :
    limK r caps (.ofCap k ops) = caps.getD k 0 * 1000 / 360 := by
  obtain ⟨hDK, hev⟩ := evalOps_norm r hr ops N D false hn
  simp only [limK]
  rw [hev]
  have hNK : (N : K) * 360 = 1000 * (D : K) := by exact_mod_cast congrArg (Int.cast (R := K)) hN
  simp only [Bool.false_eq_true, if_false, mul_one]
  field_simp
  linear_combination (caps.getD k 0) * hNK


/-! ### pods -/

structure PodFacts (T : Topo) (p : Pod) : Prop where
  hrow : p.row < T.rows.length
  lt : ∀ j ∈ p.evses, j < nStations T
  nodup : p.evses.Nodup
  same : ∃ a0, lineAngle a0 = true ∧ ∀ j ∈ p.evses, angleOf T j = a0
  co : ∀ j, j < nStations T → coeff (rowOf T p.row) j = ((if p.evses.contains j then 1 else 0), 1)
  rating : ∃ n d, limOf T p.row = .const n d

theorem podFacts_of (T : Topo) (G : TopoFacts T) (p : Pod) (h : podOk T p = true) : PodFacts T p := by
  unfold podOk at h
  simp only [Bool.and_eq_true, List.all_eq_true, decide_eq_true_eq, List.mem_range, beq_iff_eq] at h
  obtain ⟨⟨⟨⟨⟨h1, h2⟩, h3⟩, h4⟩, h5⟩, h6⟩ := h
  refine ⟨h1, h2, h3, ?_, h5, ?_⟩
  · split at h4
    · simp at h4
    · rename_i j0 tl heq
      rw [List.all_eq_true] at h4
      refine ⟨angleOf T j0, G.ang j0 (h2 j0 (by rw [heq]; simp)), ?_⟩
      intro j hj
      simpa using h4 j hj
  · cases hl : limOf T p.row with
    | const n d => exact ⟨n, d, rfl⟩
    | ofCap k ops => simp [podRating, constLim, hl] at h6
    | unknown => simp [podRating, constLim, hl] at h6

theorem unit_phasor (r : K) (hr : r * r = 3) (a : Int × Nat) (ha : lineAngle a = true) :
    cosK r a * cosK r a + sinK (K := K) a * sinK a = 1 := by
  rcases lineAngle_cases a ha with rfl | rfl | rfl <;>
    simp [cosK, sinK, angAB, angBC, angCA, ratK_eq] <;> linear_combination hr / 4

theorem pod_pt (v c : K) (e : Bool) : (ratK (if e then 1 else 0) 1 : K) * (v * c) = (if e then v else 0) * c := by
  cases e <;> simp [ratK_eq]

/-- a pod row: the magnitude of a sum of same-angle currents is the sum -/
theorem pod_bound (T : Topo) (G : TopoFacts T) (p : Pod) (P : PodFacts T p)
    (r vt rt : K) (hr : r * r = 3) (caps : List K) (S : List (List K))
    (hlen : S.length = nStations T)
    (hfeas : feasible T r vt rt caps S = true) (t : Nat) (ht : t < periods S) :
    groupSum p.evses (col S t) ≤ boundOf T r vt rt caps p.row := by
  have hx : (col S t).length = nStations T := by rw [length_col]; exact hlen
  obtain ⟨hb0, hb⟩ := row_bound T G r vt rt caps S hfeas t ht p.row P.hrow
  obtain ⟨a0, ha0, hsame⟩ := P.same
  have hre : aggRe (denseRow (nStations T) (rowOf T p.row)) (col S t) (T.angles.map (cosK r))
      = groupSum p.evses (col S t) * cosK r a0 := by
    rw [aggRe_eq _ _ _ _ hx (by simp [G.angLen]), groupSum_eq p.evses (nStations T) _ P.nodup P.lt,
      Finset.sum_mul]
    apply Finset.sum_congr rfl
    intro j hj
    have hj := Finset.mem_range.mp hj
    rw [P.co j hj, getD_cos T r j (by rw [G.angLen]; exact hj), pod_pt]
    by_cases hc : p.evses.contains j = true
    · rw [hsame j (by simpa using hc)]
    · have hn : j ∉ p.evses := by simpa using hc
      simp [hn]
  have him : aggIm (denseRow (nStations T) (rowOf T p.row)) (col S t) (T.angles.map sinK)
      = groupSum p.evses (col S t) * sinK a0 := by
    rw [aggIm_eq _ _ _ _ hx (by simp [G.angLen]), groupSum_eq p.evses (nStations T) _ P.nodup P.lt,
      Finset.sum_mul]
    apply Finset.sum_congr rfl
    intro j hj
    have hj := Finset.mem_range.mp hj
    rw [P.co j hj, getD_sin T j (by rw [G.angLen]; exact hj), pod_pt]
    by_cases hc : p.evses.contains j = true
    · rw [hsame j (by simpa using hc)]
    · have hn : j ∉ p.evses := by simpa using hc
      simp [hn]
  rw [hre, him, SitesAlg.same_angle_sq _ _ _ (unit_phasor r hr a0 ha0)] at hb
  exact SitesAlg.le_of_sq_le _ _ hb0 hb

/-! ### panels -/

theorem panelFacts_of (T : Topo) (p : Panel) (h : panelOk T p = true) :
    tripleOk T p.lines = true ∧ ∃ n d, panelRating T p = some (n, d) ∧
      limOf T p.lines.a = .const n d ∧ limOf T p.lines.b = .const n d ∧ limOf T p.lines.c = .const n d := by
  unfold panelOk at h
  simp only [Bool.and_eq_true] at h
  obtain ⟨h1, h2⟩ := h
  refine ⟨h1, ?_⟩
  cases hp : panelRating T p with
  | none => simp [hp] at h2
  | some q =>
    obtain ⟨n, d⟩ := q
    refine ⟨n, d, rfl, ?_⟩
    unfold panelRating at hp
    have key : ∀ l : Lim, constLim l = some (n, d) → l = .const n d := by
      intro l hl
      unfold constLim at hl
      split at hl
      · simp only [Option.some.injEq, Prod.mk.injEq] at hl; rw [hl.1, hl.2]
      · simp at hl
    split at hp
    · rename_i q hq
      split at hp
      · rename_i hcond
        simp only [Option.some.injEq] at hp
        subst hp
        simp only [Bool.and_eq_true, beq_iff_eq] at hcond
        exact ⟨key _ hq, key _ hcond.1, key _ hcond.2⟩
      · simp at hp
    · simp at hp

end Acn.SitesXfmr
