/-
  Helper lemmas for C10 (stations × the sorting-based algorithms, 3/3): from the `View` to the dict.
  `resolve` (station id ↦ index) under a re-indexing; a permuted input list sorts to the same queue
  when no two sessions share a sort key; the answer `{station: [rate]}` of the permuted call is the
  same dict; the algorithm-side feasibility check with permuted columns; uncontrolled charging.
-/
import AcnModel.SimSorted
import AcnProofs.Lemmas.EquivSortedGreedy
import AcnProofs.Lemmas.EquivSortedRR
import AcnProofs.Lemmas.EquivSimDict
import AcnProofs.Lemmas.SortedLink
import AcnProofs.Lemmas.FeasAgree
import AcnProofs.C08

set_option linter.unusedSectionVars false
set_option linter.unusedSimpArgs false
set_option linter.unusedVariables false

namespace Acn.Sorted
open Acn Acn.SimEquiv

variable {K : Type} [Field K] [LinearOrder K] [IsStrictOrderedRing K]

theorem getD_eq_get {α : Type} (l : List α) (d : α) {i : Nat} (h : i < l.length) : l.getD i d = l[i] := by
  simp [List.getD_eq_getElem?_getD, h]

/-! ### `resolve` -/

/-- what `resolve` does to one session whose station is known -/
def resF (infra : Infra K) (s : Session K) : Session K :=
  { s with idx := (infra.ids.findIdx? (· == s.station)).getD 0 }

def known (infra : Infra K) (s : Session K) : Bool := (infra.ids.findIdx? (· == s.station)).isSome

theorem resolve_cons (infra : Infra K) (a : Session K) (t : List (Session K)) :
    resolve infra (a :: t) = (match infra.ids.findIdx? (· == a.station) with
      | none => .error .keyError
      | some i => (resolve infra t).map (fun l => ({ a with idx := i } : Session K) :: l)) := by
  simp only [resolve, List.mapM_cons]
  cases infra.ids.findIdx? (· == a.station) with
  | none => rfl
  | some i =>
    simp only [bind, Except.bind, pure, Except.pure, Except.map]

theorem resolve_eq (infra : Infra K) : ∀ raw : List (Session K),
    resolve infra raw = if raw.all (known infra) then .ok (raw.map (resF infra)) else .error .keyError := by
  intro raw
  induction raw with
  | nil => rfl
  | cons a t ih =>
    rw [resolve_cons, ih]
    cases hf : infra.ids.findIdx? (· == a.station) with
    | none => simp [known, hf]
    | some i =>
      have hk : known infra a = true := by simp [known, hf]
      have hr : resF infra a = { a with idx := i } := by simp [resF, hf]
      simp only [List.all_cons, hk, Bool.true_and, List.map_cons, hr]
      by_cases hall : t.all (known infra) = true
      · simp [hall, Except.map]
      · simp [hall, Except.map]

theorem known_iff (infra : Infra K) (s : Session K) : known infra s = true ↔ s.station ∈ infra.ids := by
  unfold known
  rw [List.findIdx?_isSome]
  simp

section
variable {σ : List Nat} {n : Nat} (hσ : σ.Perm (List.range n)) (infra : Infra K)
include hσ

theorem known_reInfra (hn : infra.ids.length = n) (s : Session K) : known (reInfra σ infra) s = known infra s := by
  rw [Bool.eq_iff_iff, known_iff, known_iff]
  exact (reidx_perm (l := infra.ids) "" (by rw [hn]; exact hσ)).mem_iff

/-- the index found in the permuted table is the new position of the index found in the original -/
theorem resF_reInfra (hn : infra.ids.length = n) (hnd : infra.ids.Nodup) {s : Session K} (hk : known infra s = true) :
    resF (reInfra σ infra) s = mv σ (resF infra s) ∧ (resF infra s).idx < n := by
  have hk' : known (reInfra σ infra) s = true := by rw [known_reInfra hσ infra hn]; exact hk
  unfold known at hk hk'
  obtain ⟨i, hi⟩ := Option.isSome_iff_exists.1 hk
  obtain ⟨j, hj⟩ := Option.isSome_iff_exists.1 hk'
  obtain ⟨i1, i2⟩ := findIdx?_some_spec infra.ids s.station i hi
  obtain ⟨j1, j2⟩ := findIdx?_some_spec (reInfra σ infra).ids s.station j hj
  have hjσ : j < σ.length := by simpa [reInfra, reidx_length] using j1
  have hin : i < n := hn ▸ i1
  have j2' : infra.ids.getD (σ.getD j 0) "" = s.station := by
    have := getD_reidx σ infra.ids "" j hjσ
    rw [← this]; exact j2
  have hσj : σ.getD j 0 < infra.ids.length := by
    rw [hn]; exact perm_lt hσ _ (getD_mem hjσ)
  have hij : σ.getD j 0 = i := by
    have e1 : infra.ids[σ.getD j 0]'hσj = infra.ids[i]'i1 := by
      have a1 : infra.ids.getD (σ.getD j 0) "" = infra.ids[σ.getD j 0]'hσj := getD_eq_get _ _ hσj
      have a2 : infra.ids.getD i "" = infra.ids[i]'i1 := getD_eq_get _ _ i1
      rw [← a1, ← a2, j2', i2]
    exact (hnd.getElem_inj_iff).1 e1
  obtain ⟨p1, p2⟩ := pos_spec hσ hin
  have hjp : j = pos σ i := by
    have e : σ[j]'hjσ = σ[pos σ i]'p1 := by
      have a1 : σ.getD j 0 = σ[j]'hjσ := getD_eq_get _ _ hjσ
      have a2 : σ.getD (pos σ i) 0 = σ[pos σ i]'p1 := getD_eq_get _ _ p1
      rw [← a1, ← a2, hij, p2]
    exact ((perm_nodup hσ).getElem_inj_iff).1 e
  refine ⟨?_, ?_⟩
  · unfold resF mv
    rw [hi, hj, hjp]
    rfl
  · unfold resF
    rw [hi]; exact hin

theorem resolve_reInfra (hn : infra.ids.length = n) (hnd : infra.ids.Nodup) {raw raw' l : List (Session K)}
    (hp : raw'.Perm raw) (h : resolve infra raw = .ok l) :
    ∃ l', resolve (reInfra σ infra) raw' = .ok l' ∧ l'.Perm (l.map (mv σ)) ∧ (∀ s ∈ l, s.idx < n) ∧
      l = raw.map (resF infra) := by
  rw [resolve_eq] at h
  by_cases hall : raw.all (known infra) = true
  · simp only [hall, if_true, Except.ok.injEq] at h
    have hall' : raw'.all (known (reInfra σ infra)) = true := by
      rw [all_perm hp]
      rw [List.all_eq_true] at hall ⊢
      intro s hs
      rw [known_reInfra hσ infra hn]; exact hall s hs
    refine ⟨raw'.map (resF (reInfra σ infra)), by rw [resolve_eq, hall']; rfl, ?_, ?_, h.symm⟩
    · rw [← h, List.map_map]
      refine (hp.map _).trans ?_
      have : raw.map (resF (reInfra σ infra)) = raw.map (mv σ ∘ resF infra) := by
        apply List.map_congr_left
        intro s hs
        exact (resF_reInfra hσ infra hn hnd ((List.all_eq_true.1 hall) s hs)).1
      rw [this]
    · intro s hs
      rw [← h] at hs
      obtain ⟨s0, hs0, rfl⟩ := List.mem_map.1 hs
      exact (resF_reInfra hσ infra hn hnd ((List.all_eq_true.1 hall) s0 hs0)).2
  · simp [hall] at h

/-! ### the sort of a permuted, tie-free input -/

omit hσ in
theorem sortSessions_perm_of_distinct (kind : SortKind) (period : K) (time : Int)
    (l l' : List (Session K)) (hp : l'.Perm l)
    (hd : ∀ a ∈ l, ∀ b ∈ l, Acn.C08.sameKey kind infra period time a b = true → a = b) :
    sortSessions kind infra period time l' = sortSessions kind infra period time l := by
  obtain ⟨p1, s1, _⟩ := Acn.C08.sorted_by_key kind infra period time l
  obtain ⟨p2, s2, _⟩ := Acn.C08.sorted_by_key kind infra period time l'
  refine List.Perm.eq_of_pairwise ?_ s2 s1 (p2.trans (hp.trans p1.symm))
  intro a b ha hb h1 h2
  have ha' : a ∈ l := hp.mem_iff.1 (p2.mem_iff.1 ha)
  have hb' : b ∈ l := p1.mem_iff.1 hb
  exact hd a ha' b hb' (by simp [Acn.C08.sameKey, h1, h2])

/-- the queue of the permuted call -/
theorem queue_mv (kind : SortKind) (period : K) (time : Int) {l l' : List (Session K)}
    (hp : l'.Perm (l.map (mv σ))) (hl : ∀ s ∈ l, s.idx < n)
    (hd : ∀ a ∈ enforcePilotLimit infra (removeFinished infra period l),
      ∀ b ∈ enforcePilotLimit infra (removeFinished infra period l),
        Acn.C08.sameKey kind infra period time a b = true → a = b) :
    sortSessions kind (reInfra σ infra) period time
        (enforcePilotLimit (reInfra σ infra) (removeFinished (reInfra σ infra) period l')) =
      (sortSessions kind infra period time (enforcePilotLimit infra (removeFinished infra period l))).map (mv σ) ∧
    ∀ s ∈ sortSessions kind infra period time (enforcePilotLimit infra (removeFinished infra period l)), s.idx < n := by
  have hrl : ∀ s ∈ removeFinished infra period l, s.idx < n := by
    intro s hs
    exact hl s (List.mem_of_mem_filter hs)
  have hpre : ∀ s ∈ enforcePilotLimit infra (removeFinished infra period l), s.idx < n := by
    intro s hs
    unfold enforcePilotLimit at hs
    obtain ⟨s0, hs0, rfl⟩ := List.mem_map.1 hs
    exact hrl s0 hs0
  have hpp : (enforcePilotLimit (reInfra σ infra) (removeFinished (reInfra σ infra) period l')).Perm
      ((enforcePilotLimit infra (removeFinished infra period l)).map (mv σ)) := by
    rw [← enforcePilotLimit_mv hσ infra _ hrl, ← removeFinished_mv hσ infra period l hl]
    unfold enforcePilotLimit removeFinished
    exact (hp.filter _).map _
  refine ⟨?_, ?_⟩
  · rw [sortSessions_perm_of_distinct (reInfra σ infra) kind period time _ _ hpp, sortSessions_mv hσ infra kind period time _ hpre]
    intro a' ha' b' hb' hk
    obtain ⟨a, ha, rfl⟩ := List.mem_map.1 ha'
    obtain ⟨b, hb, rfl⟩ := List.mem_map.1 hb'
    have : Acn.C08.sameKey kind infra period time a b = true := by
      unfold Acn.C08.sameKey at hk ⊢
      rw [sortLt_mv hσ infra kind period time (hpre a ha) (hpre b hb),
        sortLt_mv hσ infra kind period time (hpre b hb) (hpre a ha)] at hk
      exact hk
    rw [hd a ha b hb this]
  · intro s hs
    exact hpre s ((Acn.C08.sorted_by_key kind infra period time _).1.mem_iff.1 hs)

/-! ### the answer dict -/

omit hσ in
theorem map_fst_format (ids : List String) : ∀ sch : List K, ids.length = sch.length →
    (List.zipWith (fun id r => (id, [r])) ids sch).map (·.1) = ids := by
  induction ids with
  | nil => intro sch _; rfl
  | cons a t ih =>
    intro sch h
    cases sch with
    | nil => simp at h
    | cons r rs =>
      simp only [List.zipWith_cons_cons, List.map_cons]
      rw [ih rs (by simpa using h)]

theorem format_dictEq (hn : infra.ids.length = n) (hnd : infra.ids.Nodup) (sch : List K) (hl : sch.length = n) :
    DictEq (formatArraySchedule (reInfra σ infra) (reidx σ sch 0)) (formatArraySchedule infra sch) := by
  unfold formatArraySchedule
  refine ⟨?_, ?_⟩
  · show (List.zipWith _ (reidx σ infra.ids "") (reidx σ sch 0)).Perm _
    rw [zipWith_reidx]
    have e1 : infra.ids = reidx (List.range n) infra.ids "" := by rw [reidx, ← hn, range_map_getD]
    have e2 : sch = reidx (List.range n) sch 0 := by rw [reidx, ← hl, range_map_getD]
    conv_rhs => rw [e1, e2, zipWith_reidx]
    exact hσ.map _
  · rw [map_fst_format infra.ids sch (by rw [hn, hl])]
    exact hnd

end

/-! ### the whole greedy call -/

section
variable {σ : List Nat} {n : Nat} (hσ : σ.Perm (List.range n)) (infra : Infra K)
  (feas feas' : List K → Bool) (hf : ∀ x : List K, x.length = n → feas' (reidx σ x 0) = feas x)
include hσ hf

/-- the sessions of the call after preprocessing (`estimate_max_rate = False`, interruptible) -/
def preOf (infra : Infra K) (period : K) (raw : List (Session K)) : List (Session K) :=
  enforcePilotLimit infra (removeFinished infra period (raw.map (resF infra)))

theorem scheduleCall_greedy_mv [HasCeilNat K] (hn : infra.ids.length = n) (hnd : infra.ids.Nodup)
    (cfgS : Config K) (he : cfgS.estimate = false) (hu : cfgS.uninterrupted = false) (ha : cfgS.algo = .greedy)
    (period : K) (time : Int) (prev : String → Option (K × K)) (rd : Rampdown K)
    {raw raw' : List (Session K)} (hp : raw'.Perm raw)
    (hd : ∀ a ∈ preOf infra period raw, ∀ b ∈ preOf infra period raw,
      Acn.C08.sameKey cfgS.sort infra period time a b = true → a = b)
    {out : List K} (hres : (scheduleCall feas cfgS infra period time prev rd raw).result = .ok out) :
    (scheduleCall feas' cfgS (reInfra σ infra) period time prev rd raw').result = .ok (reidx σ out 0) ∧
      out.length = n := by
  unfold scheduleCall at hres ⊢
  cases hr : resolve infra raw with
  | error e => rw [hr] at hres; simp at hres
  | ok l =>
    obtain ⟨l', hr', hpl, hl, hleq⟩ := resolve_reInfra hσ infra hn hnd hp hr
    rw [hr] at hres
    rw [hr']
    simp only [preprocess, he, hu, Bool.false_eq_true, if_false, ha] at hres ⊢
    have hd' : ∀ a ∈ enforcePilotLimit infra (removeFinished infra period l),
        ∀ b ∈ enforcePilotLimit infra (removeFinished infra period l),
        Acn.C08.sameKey cfgS.sort infra period time a b = true → a = b := by
      rw [hleq]; exact hd
    obtain ⟨hq, hqi⟩ := queue_mv hσ infra cfgS.sort period time hpl hl hd'
    rw [hq, sortingAlgorithm_mv hσ infra feas feas' hf hn cfgS.fuel cfgS.eps period _ hqi, hres]
    refine ⟨rfl, ?_⟩
    rw [sortingAlgorithm_len infra feas cfgS.fuel cfgS.eps period _ out hres, hn]

theorem scheduleCall_rr_mv [HasCeilNat K] (hn : infra.ids.length = n) (hnd : infra.ids.Nodup)
    (hallow : infra.allow.length = n)
    (cfgS : Config K) (he : cfgS.estimate = false) (hu : cfgS.uninterrupted = false) (ha : cfgS.algo = .roundRobin)
    (period : K) (time : Int) (prev : String → Option (K × K)) (rd : Rampdown K)
    {raw raw' : List (Session K)} (hp : raw'.Perm raw)
    (hd : ∀ a ∈ preOf infra period raw, ∀ b ∈ preOf infra period raw,
      Acn.C08.sameKey cfgS.sort infra period time a b = true → a = b)
    {out : List K} (hres : (scheduleCall feas cfgS infra period time prev rd raw).result = .ok out) :
    (scheduleCall feas' cfgS (reInfra σ infra) period time prev rd raw').result = .ok (reidx σ out 0) ∧
      out.length = n := by
  unfold scheduleCall at hres ⊢
  cases hr : resolve infra raw with
  | error e => rw [hr] at hres; simp at hres
  | ok l =>
    obtain ⟨l', hr', hpl, hl, hleq⟩ := resolve_reInfra hσ infra hn hnd hp hr
    rw [hr] at hres
    rw [hr']
    simp only [preprocess, he, hu, Bool.false_eq_true, if_false, ha] at hres ⊢
    have hd' : ∀ a ∈ enforcePilotLimit infra (removeFinished infra period l),
        ∀ b ∈ enforcePilotLimit infra (removeFinished infra period l),
        Acn.C08.sameKey cfgS.sort infra period time a b = true → a = b := by
      rw [hleq]; exact hd
    obtain ⟨hq, hqi⟩ := queue_mv hσ infra cfgS.sort period time hpl hl hd'
    rw [hq]
    obtain ⟨h1, h2⟩ := roundRobin_mv hσ infra feas feas' hf hn hallow (rrLevels infra period cfgS.inc)
      (rrLevels (reInfra σ infra) period cfgS.inc) _ hqi (fun s hs => rrLevels_mv hσ infra period cfgS.inc (hqi s hs))
    cases hrr : roundRobin feas (rrLevels infra period cfgS.inc) infra
        (sortSessions cfgS.sort infra period time (enforcePilotLimit infra (removeFinished infra period l))) with
    | error e => rw [hrr] at hres; simp at hres
    | ok st =>
      rw [hrr] at hres h1
      simp only [Except.ok.injEq] at hres
      cases hrr' : roundRobin feas' (rrLevels (reInfra σ infra) period cfgS.inc) (reInfra σ infra)
          ((sortSessions cfgS.sort infra period time (enforcePilotLimit infra (removeFinished infra period l))).map (mv σ)) with
      | error e => rw [hrr'] at h1; simp [Except.map] at h1
      | ok st' =>
        rw [hrr'] at h1
        simp only [Except.map, Except.ok.injEq] at h1
        simp only [h1, ← hres]
        exact ⟨trivial, h2 st hrr⟩

end

/-! ### uncontrolled charging -/

theorem dictSet_append {V : Type} (d : List (String × V)) (k : String) (v : V) (h : k ∉ d.map (·.1)) :
    dictSet d k v = d ++ [(k, v)] := by
  induction d with
  | nil => rfl
  | cons p rest ih =>
    obtain ⟨k', v'⟩ := p
    simp only [List.map_cons, List.mem_cons, not_or] at h
    have hb : (k' == k) = false := by simpa using fun e : k' = k => h.1 e.symm
    simp only [dictSet, hb, Bool.false_eq_true, if_false, List.cons_append]
    rw [ih h.2]

theorem uncontrolled_fold (infra : Infra K) : ∀ (l : List (Session K)) (acc : List (String × List K)),
    (acc.map (·.1) ++ l.map (·.station)).Nodup →
    l.foldl (fun d s => dictSet d s.station [infra.maxPilot.getD s.idx 0]) acc =
      acc ++ l.map (fun s => (s.station, [infra.maxPilot.getD s.idx 0])) := by
  intro l
  induction l with
  | nil => intro acc _; simp
  | cons s rest ih =>
    intro acc h
    simp only [List.foldl_cons, List.map_cons]
    have hs : s.station ∉ acc.map (·.1) := by
      intro hm
      have := (List.nodup_append.1 h).2.2 _ hm _ (List.mem_cons_self)
      exact this rfl
    rw [dictSet_append _ _ _ hs, ih]
    · simp
    · simp only [List.map_append, List.map_cons, List.map_nil, List.append_assoc, List.cons_append, List.nil_append]
      simpa using h

theorem uncontrolled_eq_map (infra : Infra K) (l : List (Session K)) (h : (l.map (·.station)).Nodup) :
    uncontrolled infra l = l.map (fun s => (s.station, [infra.maxPilot.getD s.idx 0])) := by
  unfold uncontrolled
  rw [uncontrolled_fold infra l [] (by simpa using h)]
  rfl

section
variable {σ : List Nat} {n : Nat} (hσ : σ.Perm (List.range n)) (infra : Infra K)
include hσ

theorem uncontrolled_mv (hn : infra.ids.length = n) (hnd : infra.ids.Nodup) {raw raw' l : List (Session K)}
    (hp : raw'.Perm raw) (hst : (raw.map (·.station)).Nodup) (h : resolve infra raw = .ok l) :
    ∃ l', resolve (reInfra σ infra) raw' = .ok l' ∧
      DictEq (uncontrolled (reInfra σ infra) l') (uncontrolled infra l) := by
  obtain ⟨l', hr', hpl, hl, hleq⟩ := resolve_reInfra hσ infra hn hnd hp h
  have hst_l : (l.map (·.station)).Nodup := by
    rw [hleq, List.map_map]
    exact hst
  have hst_l' : (l'.map (·.station)).Nodup := by
    have : (l'.map (·.station)).Perm (l.map (·.station)) := by
      have := hpl.map (·.station)
      rw [List.map_map] at this
      exact this
    exact this.nodup_iff.2 hst_l
  refine ⟨l', hr', ?_, ?_⟩
  · rw [uncontrolled_eq_map _ l' hst_l', uncontrolled_eq_map _ l hst_l]
    refine (hpl.map _).trans ?_
    rw [List.map_map]
    apply List.Perm.of_eq
    apply List.map_congr_left
    intro s hs
    simp only [Function.comp]
    rw [maxPilot_mv hσ infra (hl s hs)]
    rfl
  · rw [uncontrolled_eq_map _ l hst_l, List.map_map]
    exact hst_l

end
end Acn.Sorted
