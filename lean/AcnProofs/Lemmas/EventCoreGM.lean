/-
  The run loop with MUTATING scheduler / pilot stages (`bodyGM` / `runGM`, AcnModel/EventCoreGM.lean):
  `runGM_spec` is `runGP_spec` (EventCoreNetH.lean) for stages that change the state next to the
  network and may raise.  Hypotheses: the network operations and the per-period hook never raise and
  keep the history-indexed predicate `P` (`NoFailH`), the two stages keep `P` whether they raise or
  not (`KeepsP`).  Conclusion after `n` iterations from a loop head at period `t`: `P` holds; if
  nothing was raised the core is at loop head `min (t+n) horizon`; anything raised was raised by one
  of the two stages (so: never by the network), before the horizon.
-/
import AcnModel.EventCoreGM
import AcnProofs.Lemmas.EventCoreNetH

namespace Acn.EventCore
open Acn

/-- a stage keeps the predicate on (event_history, state), raising or not -/
def KeepsP {σ : Type} (P : List Event → σ → Prop) (f : CoreG σ → σ × Option Err) : Prop :=
  ∀ g, P g.core.eventHist g.net → P g.core.eventHist (f g).1

/-- `e` is raised by the stage `f` in some state -/
def RaisedBy {σ : Type} (f : CoreG σ → σ × Option Err) (e : Err) : Prop := ∃ g, (f g).2 = some e

section
variable {σ : Type} {cfg : Cfg} {ops : QOps} {good : List Event → Prop} {net : NetOps σ}
  {post : Nat → σ → σ × Option Err} {P : List Event → σ → Prop}

/-- a second invariant `J`, which may look at the core (the iteration counter): kept by the events
    of a period, insensitive to the scheduling flags, kept by a scheduler stage that does not raise,
    and re-established by apply stage + hook + `iteration += 1` (where `P` may be used) -/
structure KeepsJ (ops : QOps) (net : NetOps σ) (post : Nat → σ → σ × Option Err) (cfg : Cfg)
    (sched apply : CoreG σ → σ × Option Err) (P : List Event → σ → Prop) (J : CoreG σ → Prop) : Prop where
  events : ∀ g g1, eventsStageG ops net cfg g = (g1, none) → J g → J g1
  flags : ∀ (g : CoreG σ) (c : Core), c.iter = g.core.iter → J g → J { core := c, net := g.net }
  sched : ∀ g n1, sched g = (n1, none) → J g → J { core := g.core, net := n1 }
  finish : ∀ g n1 n2, P g.core.eventHist g.net → apply g = (n1, none) → post g.core.iter n1 = (n2, none) →
    J g → J { core := advance g.core, net := n2 }

theorem KeepsJ.trivial (ops : QOps) (net : NetOps σ) (post : Nat → σ → σ × Option Err) (cfg : Cfg)
    (sched apply : CoreG σ → σ × Option Err) (P : List Event → σ → Prop) :
    KeepsJ ops net post cfg sched apply P (fun _ => True) :=
  ⟨fun _ _ _ _ => True.intro, fun _ _ _ _ => True.intro, fun _ _ _ _ => True.intro,
   fun _ _ _ _ _ _ _ => True.intro⟩

theorem finishGM_ok (hnet : NoFailH net post cfg P) {apply : CoreG σ → σ × Option Err}
    (ha : KeepsP P apply) (g : CoreG σ) (hN : P g.core.eventHist g.net) :
    (∃ n1 n2, apply g = (n1, none) ∧ post g.core.iter n1 = (n2, none) ∧
        finishGM apply post g = ({ core := advance g.core, net := n2 }, none) ∧
        P g.core.eventHist n2) ∨
    (∃ n1 e, finishGM apply post g = ({ g with net := n1 }, some e) ∧ P g.core.eventHist n1 ∧
        RaisedBy apply e) := by
  unfold finishGM
  have hk := ha g hN
  rcases hap : apply g with ⟨n1, _ | e⟩
  · rw [hap] at hk
    obtain ⟨hpf, hpp⟩ := hnet.post g.core.eventHist g.core.iter n1 hk
    left
    have : post g.core.iter n1 = ((post g.core.iter n1).1, none) := Prod.ext rfl hpf
    refine ⟨n1, (post g.core.iter n1).1, rfl, this, ?_, hpp⟩
    simp only []
    rw [this]
  · rw [hap] at hk
    right
    exact ⟨n1, e, rfl, hk, g, by rw [hap]⟩

theorem bodyGM_ok (hq : ValidQ cfg) (hops : ops.Ok good) (hnet : NoFailH net post cfg P)
    {sched apply : CoreG σ → σ × Option Err} (hs : KeepsP P sched) (ha : KeepsP P apply)
    {J : CoreG σ → Prop} (hJ : KeepsJ ops net post cfg sched apply P J)
    {t : Nat} {g : CoreG σ} (hI : InvG cfg t g.core) (hG : good g.core.pending)
    (hN : P g.core.eventHist g.net) (hJg : J g) :
    (∃ g', bodyGM ops net post cfg sched apply g = (g', none) ∧ InvG cfg (t + 1) g'.core ∧
      good g'.core.pending ∧ P g'.core.eventHist g'.net ∧ J g') ∨
    (∃ g' e, bodyGM ops net post cfg sched apply g = (g', some e) ∧ P g'.core.eventHist g'.net ∧
      g'.core.iter = t ∧ (RaisedBy sched e ∨ RaisedBy apply e)) := by
  have hv' := valid_relabel hq
  obtain ⟨g1, h1, hit, hH, hP, hE, hG1, hN1⟩ := eventsStageG_okH hq hops hnet hI hG hN
  have hJ1 : J g1 := hJ.events g g1 h1 hJg
  have key : ∀ c2 : Core, c2.iter = t + 1 → c2.pending = g1.core.pending →
      c2.resolve = false → c2.eventHist = g1.core.eventHist → c2.evHist = g1.core.evHist →
      InvG cfg (t + 1) c2 := by
    intro c2 e1 e2 e4 e5 e6
    have hc : ((t + 1 : Nat) : Int) = (t : Int) + 1 := by push_cast; rfl
    refine ⟨e1, e2 ▸ hP.1, ?_, e4, e5 ▸ hH.1, ?_, e5 ▸ hH.2.2.1, ?_⟩
    · intro e
      rw [e2, hP.2 e, hc, expected_succ hv']
      simp
    · intro e
      rw [e5, hH.2.1 e, hc, done_succ hv']
      simp
    · unfold EvhOK at hE ⊢
      rw [e6, e5, hE]
  unfold bodyGM
  rw [h1]
  simp only
  by_cases hns : needsSched cfg.maxRecompute g1.core = true
  · simp only [hns, if_true]
    have hk := hs { g1 with core := markInvoked g1.core } hN1
    have hJa : J { core := markInvoked g1.core, net := g1.net } := hJ.flags g1 _ rfl hJ1
    rcases hsc : sched { g1 with core := markInvoked g1.core } with ⟨n1, _ | e⟩
    · rw [hsc] at hk
      simp only
      have hJb : J { core := markScheduled (markInvoked g1.core), net := n1 } :=
        hJ.flags { core := markInvoked g1.core, net := n1 } _ rfl (hJ.sched _ n1 hsc hJa)
      rcases finishGM_ok hnet ha { core := markScheduled (markInvoked g1.core), net := n1 } hk with
        ⟨m1, n2, hap, hpo, hf, hp2⟩ | ⟨n2, e, hf, hp2, hr⟩
      · left
        rw [hf]
        exact ⟨_, rfl, key _ (by simp [advance, markScheduled, markInvoked, hit]) rfl rfl rfl rfl, hG1, hp2,
          hJ.finish _ m1 n2 hk hap hpo hJb⟩
      · right
        rw [hf]
        exact ⟨_, e, rfl, hp2, by simp [markScheduled, markInvoked, hit], Or.inr hr⟩
    · rw [hsc] at hk
      right
      exact ⟨_, e, rfl, hk, by simp [markInvoked, hit], Or.inl ⟨_, by rw [hsc]⟩⟩
  · simp only [hns]
    rcases finishGM_ok hnet ha g1 hN1 with ⟨m1, n2, hap, hpo, hf, hp2⟩ | ⟨n2, e, hf, hp2, hr⟩
    · left
      simp only [Bool.false_eq_true, if_false]
      rw [hf]
      refine ⟨_, rfl, key _ (by simp [advance, hit]) rfl ?_ rfl rfl, hG1, hp2,
        hJ.finish _ m1 n2 hN1 hap hpo hJ1⟩
      simp only [needsSched, Bool.or_eq_true, not_or, Bool.not_eq_true] at hns
      simpa [advance] using hns.1
    · right
      simp only [Bool.false_eq_true, if_false]
      rw [hf]
      exact ⟨_, e, rfl, hp2, hit, Or.inr hr⟩

theorem runGM_specJ (hq : ValidQ cfg) (hops : ops.Ok good) (hnet : NoFailH net post cfg P)
    {sched apply : CoreG σ → σ × Option Err} (hs : KeepsP P sched) (ha : KeepsP P apply)
    {J : CoreG σ → Prop} (hJ : KeepsJ ops net post cfg sched apply P J) :
    ∀ (n t : Nat) (g : CoreG σ), InvG cfg t g.core → good g.core.pending → P g.core.eventHist g.net →
    J g → t ≤ horizon cfg →
    ∃ g' r, runGM ops net post cfg sched apply n g = (g', r) ∧ P g'.core.eventHist g'.net ∧
      (r = none → InvG cfg (min (t + n) (horizon cfg)) g'.core ∧ J g') ∧
      (∀ e, r = some e → g'.core.iter < min (t + n) (horizon cfg) ∧ (RaisedBy sched e ∨ RaisedBy apply e)) := by
  intro n
  induction n with
  | zero =>
    intro t g hI _ hN hJg ht
    exact ⟨g, none, rfl, hN, fun _ => ⟨by simpa [Nat.min_eq_left ht] using hI, hJg⟩, fun e he => by cases he⟩
  | succ n ih =>
    intro t g hI hG hN hJg ht
    rcases Nat.lt_or_ge t (horizon cfg) with hlt | hge
    · have hp := (pendingG_ne_nil_iff hq hI).2 hlt
      have hg : guard g.core = true := by
        unfold guard
        cases hpe : g.core.pending with
        | nil => exact absurd hpe hp
        | cons a l => simp
      rcases bodyGM_ok hq hops hnet hs ha hJ hI hG hN hJg with
        ⟨g1, hb, hI1, hG1, hN1, hJ1⟩ | ⟨g1, e, hb, hN1, hit, hr⟩
      · obtain ⟨g', r, hr, hN', hI', hE'⟩ := ih (t + 1) g1 hI1 hG1 hN1 hJ1 hlt
        have hadd : t + 1 + n = t + (n + 1) := by omega
        refine ⟨g', r, ?_, hN', by rwa [← hadd], by rwa [← hadd]⟩
        simp only [runGM, hg, if_true, hb]
        exact hr
      · refine ⟨g1, some e, ?_, hN1, fun h => (by cases h), fun e' he' => ?_⟩
        · simp only [runGM, hg, if_true, hb]
        · cases he'
          refine ⟨?_, hr⟩
          rw [hit]; omega
    · have hte : t = horizon cfg := le_antisymm ht hge
      have hp : g.core.pending = [] := by
        by_contra h
        exact absurd ((pendingG_ne_nil_iff hq hI).1 h) (by omega)
      have hg : guard g.core = false := by simp [guard, hp, hI.resolve]
      refine ⟨g, none, by simp [runGM, hg], hN, fun _ => ⟨?_, hJg⟩, fun e he => by cases he⟩
      rw [Nat.min_eq_right (by omega)]
      exact hte ▸ hI

theorem runGM_spec (hq : ValidQ cfg) (hops : ops.Ok good) (hnet : NoFailH net post cfg P)
    {sched apply : CoreG σ → σ × Option Err} (hs : KeepsP P sched) (ha : KeepsP P apply) :
    ∀ (n t : Nat) (g : CoreG σ), InvG cfg t g.core → good g.core.pending → P g.core.eventHist g.net →
    t ≤ horizon cfg →
    ∃ g' r, runGM ops net post cfg sched apply n g = (g', r) ∧ P g'.core.eventHist g'.net ∧
      (r = none → InvG cfg (min (t + n) (horizon cfg)) g'.core) ∧
      (∀ e, r = some e → g'.core.iter < min (t + n) (horizon cfg) ∧ (RaisedBy sched e ∨ RaisedBy apply e)) := by
  intro n t g hI hG hN ht
  obtain ⟨g', r, h1, h2, h3, h4⟩ := runGM_specJ hq hops hnet hs ha
    (KeepsJ.trivial ops net post cfg sched apply P) n t g hI hG hN True.intro ht
  exact ⟨g', r, h1, h2, fun h => (h3 h).1, h4⟩

end
end Acn.EventCore
