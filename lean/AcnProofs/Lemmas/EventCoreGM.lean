/-
  The run loop with MUTATING scheduler / pilot stages (`bodyGM` / `runGM`, AcnModel/EventCoreGM.lean):
  `runGM_spec` is `runGP_spec` (EventCoreNetH.lean) for stages that change the state next to the
  network and may raise.  Hypotheses: the network operations and the per-period hook never raise and
  keep the history-indexed predicate `P` (`NoFailH`), the two stages keep `P` whether they raise or
  not (`KeepsP`).  Conclusion after `n` iterations from a loop head at period `t`: `P` holds; if
  nothing was raised the core is at loop head `min (t+n) horizon`; anything raised was raised by one
  of the two stages (so: never by the network), before the horizon.
-/
import AcnModel.EventCoreGM
import AcnProofs.Lemmas.EventCoreNetH

namespace Acn.EventCore
open Acn

/-- a stage keeps the predicate on (event_history, state), raising or not -/
def KeepsP {σ : Type} (P : List Event → σ → Prop) (f : CoreG σ → σ × Option Err) : Prop :=
  ∀ g, P g.core.eventHist g.net → P g.core.eventHist (f g).1

/-- `e` is raised by the stage `f` in some state -/
def RaisedBy {σ : Type} (f : CoreG σ → σ × Option Err) (e : Err) : Prop := ∃ g, (f g).2 = some e

section
variable {σ : Type} {cfg : Cfg} {ops : QOps} {good : List Event → Prop} {net : NetOps σ}
  {post : Nat → σ → σ × Option Err} {P : List Event → σ → Prop}

theorem finishGM_ok (hnet : NoFailH net post cfg P) {apply : CoreG σ → σ × Option Err}
    (ha : KeepsP P apply) (g : CoreG σ) (hN : P g.core.eventHist g.net) :
    (∃ n2, finishGM apply post g = ({ core := advance g.core, net := n2 }, none) ∧
        P g.core.eventHist n2) ∨
    (∃ n1 e, finishGM apply post g = ({ g with net := n1 }, some e) ∧ P g.core.eventHist n1 ∧
        RaisedBy apply e) := by
  unfold finishGM
  have hk := ha g hN
  rcases hap : apply g with ⟨n1, _ | e⟩
  · rw [hap] at hk
    obtain ⟨hpf, hpp⟩ := hnet.post g.core.eventHist g.core.iter n1 hk
    left
    refine ⟨(post g.core.iter n1).1, ?_, hpp⟩
    have : post g.core.iter n1 = ((post g.core.iter n1).1, none) := Prod.ext rfl hpf
    simp only []
    rw [this]
  · rw [hap] at hk
    right
    exact ⟨n1, e, rfl, hk, g, by rw [hap]⟩

theorem bodyGM_ok (hq : ValidQ cfg) (hops : ops.Ok good) (hnet : NoFailH net post cfg P)
    {sched apply : CoreG σ → σ × Option Err} (hs : KeepsP P sched) (ha : KeepsP P apply)
    {t : Nat} {g : CoreG σ} (hI : InvG cfg t g.core) (hG : good g.core.pending)
    (hN : P g.core.eventHist g.net) :
    (∃ g', bodyGM ops net post cfg sched apply g = (g', none) ∧ InvG cfg (t + 1) g'.core ∧
      good g'.core.pending ∧ P g'.core.eventHist g'.net) ∨
    (∃ g' e, bodyGM ops net post cfg sched apply g = (g', some e) ∧ P g'.core.eventHist g'.net ∧
      g'.core.iter = t ∧ (RaisedBy sched e ∨ RaisedBy apply e)) := by
  have hv' := valid_relabel hq
  obtain ⟨g1, h1, hit, hH, hP, hE, hG1, hN1⟩ := eventsStageG_okH hq hops hnet hI hG hN
  have key : ∀ c2 : Core, c2.iter = t + 1 → c2.pending = g1.core.pending →
      c2.resolve = false → c2.eventHist = g1.core.eventHist → c2.evHist = g1.core.evHist →
      InvG cfg (t + 1) c2 := by
    intro c2 e1 e2 e4 e5 e6
    have hc : ((t + 1 : Nat) : Int) = (t : Int) + 1 := by push_cast; rfl
    refine ⟨e1, e2 ▸ hP.1, ?_, e4, e5 ▸ hH.1, ?_, e5 ▸ hH.2.2.1, ?_⟩
    · intro e
      rw [e2, hP.2 e, hc, expected_succ hv']
      simp
    · intro e
      rw [e5, hH.2.1 e, hc, done_succ hv']
      simp
    · unfold EvhOK at hE ⊢
      rw [e6, e5, hE]
  unfold bodyGM
  rw [h1]
  simp only
  by_cases hns : needsSched cfg.maxRecompute g1.core = true
  · simp only [hns, if_true]
    have hk := hs { g1 with core := markInvoked g1.core } hN1
    rcases hsc : sched { g1 with core := markInvoked g1.core } with ⟨n1, _ | e⟩
    · rw [hsc] at hk
      simp only
      rcases finishGM_ok hnet ha { core := markScheduled (markInvoked g1.core), net := n1 } hk with
        ⟨n2, hf, hp2⟩ | ⟨n2, e, hf, hp2, hr⟩
      · left
        rw [hf]
        exact ⟨_, rfl, key _ (by simp [advance, markScheduled, markInvoked, hit]) rfl rfl rfl rfl, hG1, hp2⟩
      · right
        rw [hf]
        exact ⟨_, e, rfl, hp2, by simp [markScheduled, markInvoked, hit], Or.inr hr⟩
    · rw [hsc] at hk
      right
      exact ⟨_, e, rfl, hk, by simp [markInvoked, hit], Or.inl ⟨_, by rw [hsc]⟩⟩
  · simp only [hns]
    rcases finishGM_ok hnet ha g1 hN1 with ⟨n2, hf, hp2⟩ | ⟨n2, e, hf, hp2, hr⟩
    · left
      simp only [Bool.false_eq_true, if_false]
      rw [hf]
      refine ⟨_, rfl, key _ (by simp [advance, hit]) rfl ?_ rfl rfl, hG1, hp2⟩
      simp only [needsSched, Bool.or_eq_true, not_or, Bool.not_eq_true] at hns
      simpa [advance] using hns.1
    · right
      simp only [Bool.false_eq_true, if_false]
      rw [hf]
      exact ⟨_, e, rfl, hp2, hit, Or.inr hr⟩

theorem runGM_spec (hq : ValidQ cfg) (hops : ops.Ok good) (hnet : NoFailH net post cfg P)
    {sched apply : CoreG σ → σ × Option Err} (hs : KeepsP P sched) (ha : KeepsP P apply) :
    ∀ (n t : Nat) (g : CoreG σ), InvG cfg t g.core → good g.core.pending → P g.core.eventHist g.net →
    t ≤ horizon cfg →
    ∃ g' r, runGM ops net post cfg sched apply n g = (g', r) ∧ P g'.core.eventHist g'.net ∧
      (r = none → InvG cfg (min (t + n) (horizon cfg)) g'.core) ∧
      (∀ e, r = some e → g'.core.iter < min (t + n) (horizon cfg) ∧ (RaisedBy sched e ∨ RaisedBy apply e)) := by
  intro n
  induction n with
  | zero =>
    intro t g hI _ hN ht
    exact ⟨g, none, rfl, hN, fun _ => by simpa [Nat.min_eq_left ht] using hI, fun e he => by cases he⟩
  | succ n ih =>
    intro t g hI hG hN ht
    rcases Nat.lt_or_ge t (horizon cfg) with hlt | hge
    · have hp := (pendingG_ne_nil_iff hq hI).2 hlt
      have hg : guard g.core = true := by
        unfold guard
        cases hpe : g.core.pending with
        | nil => exact absurd hpe hp
        | cons a l => simp
      rcases bodyGM_ok hq hops hnet hs ha hI hG hN with ⟨g1, hb, hI1, hG1, hN1⟩ | ⟨g1, e, hb, hN1, hit, hr⟩
      · obtain ⟨g', r, hr, hN', hI', hE'⟩ := ih (t + 1) g1 hI1 hG1 hN1 hlt
        have hadd : t + 1 + n = t + (n + 1) := by omega
        refine ⟨g', r, ?_, hN', by rwa [← hadd], by rwa [← hadd]⟩
        simp only [runGM, hg, if_true, hb]
        exact hr
      · refine ⟨g1, some e, ?_, hN1, fun h => (by cases h), fun e' he' => ?_⟩
        · simp only [runGM, hg, if_true, hb]
        · cases he'
          refine ⟨?_, hr⟩
          rw [hit]; omega
    · have hte : t = horizon cfg := le_antisymm ht hge
      have hp : g.core.pending = [] := by
        by_contra h
        exact absurd ((pendingG_ne_nil_iff hq hI).1 h) (by omega)
      have hg : guard g.core = false := by simp [guard, hp, hI.resolve]
      refine ⟨g, none, by simp [runGM, hg], hN, fun _ => ?_, fun e he => by cases he⟩
      rw [Nat.min_eq_right (by omega)]
      exact hte ▸ hI

end
end Acn.EventCore
