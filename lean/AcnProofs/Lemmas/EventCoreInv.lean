/-
  Helper lemmas for C01 (2/3): `Valid`, the expected-event predicates, the within-period
  invariants (`HistOK`, `PendOK`, `OccOK`, stated through the events still to be processed) and
  their preservation by one processed event.
-/
import AcnProofs.Lemmas.EventCoreBasic

namespace Acn.EventCore
open Acn

/-- the hypothesis of C01 on the static data -/
structure Valid (cfg : Cfg) : Prop where
  ids_nodup : (cfg.sessions.map (·.id)).Nodup
  tags_nodup : (cfg.recomputes.map (·.2)).Nodup
  registered : ∀ x ∈ cfg.sessions, x.station ∈ cfg.stations
  arr_nonneg : ∀ x ∈ cfg.sessions, 0 ≤ x.arrival
  arr_lt_dep : ∀ x ∈ cfg.sessions, x.arrival < x.departure
  disjoint : ∀ x ∈ cfg.sessions, ∀ y ∈ cfg.sessions, x ≠ y → x.station = y.station →
    x.departure ≤ y.arrival ∨ y.departure ≤ x.arrival
  rec_nonneg : ∀ r ∈ cfg.recomputes, 0 ≤ r.1

/-- events that are in the queue at the head of period `t` -/
def Expected (cfg : Cfg) (t : Int) (e : Event) : Prop :=
  (∃ x ∈ cfg.sessions, e = plugEv x ∧ t ≤ x.arrival) ∨
  (∃ x ∈ cfg.sessions, e = unplugEv x ∧ x.arrival < t ∧ t ≤ x.departure) ∨
  (∃ r ∈ cfg.recomputes, e = recEv r ∧ t ≤ r.1)

/-- events that have been processed before period `t` -/
def Done (cfg : Cfg) (t : Int) (e : Event) : Prop :=
  (∃ x ∈ cfg.sessions, e = plugEv x ∧ x.arrival < t) ∨
  (∃ x ∈ cfg.sessions, e = unplugEv x ∧ x.departure < t) ∨
  (∃ r ∈ cfg.recomputes, e = recEv r ∧ r.1 < t)

/-- events of period `t` -/
def Cur (cfg : Cfg) (t : Int) (e : Event) : Prop :=
  (∃ x ∈ cfg.sessions, e = plugEv x ∧ x.arrival = t) ∨
  (∃ x ∈ cfg.sessions, e = unplugEv x ∧ x.arrival < t ∧ x.departure = t) ∨
  (∃ r ∈ cfg.recomputes, e = recEv r ∧ r.1 = t)

section
variable {cfg : Cfg}

theorem id_inj (hv : Valid cfg) {x y : Session} (hx : x ∈ cfg.sessions) (hy : y ∈ cfg.sessions)
    (h : x.id = y.id) : x = y :=
  List.inj_on_of_nodup_map hv.ids_nodup hx hy h

theorem plugEv_inj (hv : Valid cfg) {x y : Session} (hx : x ∈ cfg.sessions) (hy : y ∈ cfg.sessions)
    (h : plugEv x = plugEv y) : x = y := by
  apply id_inj hv hx hy
  simpa [plugEv] using congrArg Event.sess h

theorem unplugEv_inj (hv : Valid cfg) {x y : Session} (hx : x ∈ cfg.sessions) (hy : y ∈ cfg.sessions)
    (h : unplugEv x = unplugEv y) : x = y := by
  apply id_inj hv hx hy
  simpa [unplugEv] using congrArg Event.sess h

theorem recEv_inj (hv : Valid cfg) {r q : Int × String} (hr : r ∈ cfg.recomputes) (hq : q ∈ cfg.recomputes)
    (h : recEv r = recEv q) : r = q := by
  have h2 : r.2 = q.2 := by simpa [recEv] using congrArg Event.sess h
  exact List.inj_on_of_nodup_map hv.tags_nodup hr hq h2

@[simp] theorem plugEv_ne_unplugEv (x y : Session) : plugEv x ≠ unplugEv y := by
  intro h; have := congrArg Event.kind h; simp [plugEv, unplugEv] at this
@[simp] theorem unplugEv_ne_plugEv (x y : Session) : unplugEv x ≠ plugEv y := fun h => plugEv_ne_unplugEv y x h.symm
@[simp] theorem plugEv_ne_recEv (x : Session) (r : Int × String) : plugEv x ≠ recEv r := by
  intro h; have := congrArg Event.kind h; simp [plugEv, recEv] at this
@[simp] theorem recEv_ne_plugEv (x : Session) (r : Int × String) : recEv r ≠ plugEv x := fun h => plugEv_ne_recEv x r h.symm
@[simp] theorem unplugEv_ne_recEv (x : Session) (r : Int × String) : unplugEv x ≠ recEv r := by
  intro h; have := congrArg Event.kind h; simp [unplugEv, recEv] at this
@[simp] theorem recEv_ne_unplugEv (x : Session) (r : Int × String) : recEv r ≠ unplugEv x := fun h => unplugEv_ne_recEv x r h.symm

theorem findSession_eq (hv : Valid cfg) {x : Session} (hx : x ∈ cfg.sessions) :
    findSession cfg x.id = some x := by
  unfold findSession
  rcases h : cfg.sessions.find? (fun y => y.id == x.id) with _ | y
  · rw [List.find?_eq_none] at h
    have := h x hx
    simp at this
  · have hy := List.mem_of_find?_eq_some h
    have hid := List.find?_some h
    simp only [beq_iff_eq] at hid
    rw [h, id_inj hv hy hx hid]

theorem Cur.ts_eq {t : Int} {e : Event} (h : Cur cfg t e) : e.ts = t := by
  rcases h with ⟨x, _, rfl, h⟩ | ⟨x, _, rfl, _, h⟩ | ⟨r, _, rfl, h⟩ <;> simpa [plugEv, unplugEv, recEv] using h

theorem Done.ts_lt {t : Int} {e : Event} (h : Done cfg t e) : e.ts < t := by
  rcases h with ⟨x, _, rfl, h⟩ | ⟨x, _, rfl, h⟩ | ⟨r, _, rfl, h⟩ <;> simpa [plugEv, unplugEv, recEv] using h

theorem Expected.le_ts {t : Int} {e : Event} (h : Expected cfg t e) : t ≤ e.ts := by
  rcases h with ⟨x, _, rfl, h⟩ | ⟨x, _, rfl, _, h⟩ | ⟨r, _, rfl, h⟩ <;> simpa [plugEv, unplugEv, recEv] using h

theorem cur_iff_expected_le {t : Int} {e : Event} : Cur cfg t e ↔ Expected cfg t e ∧ e.ts ≤ t := by
  constructor
  · intro h
    refine ⟨?_, le_of_eq h.ts_eq⟩
    rcases h with ⟨x, hx, rfl, h⟩ | ⟨x, hx, rfl, h1, h⟩ | ⟨r, hr, rfl, h⟩
    · exact Or.inl ⟨x, hx, rfl, le_of_eq h.symm⟩
    · exact Or.inr (Or.inl ⟨x, hx, rfl, h1, le_of_eq h.symm⟩)
    · exact Or.inr (Or.inr ⟨r, hr, rfl, le_of_eq h.symm⟩)
  · rintro ⟨h, hle⟩
    rcases h with ⟨x, hx, rfl, h⟩ | ⟨x, hx, rfl, h1, h⟩ | ⟨r, hr, rfl, h⟩
    · exact Or.inl ⟨x, hx, rfl, le_antisymm (by simpa [plugEv] using hle) h⟩
    · exact Or.inr (Or.inl ⟨x, hx, rfl, h1, le_antisymm (by simpa [unplugEv] using hle) h⟩)
    · exact Or.inr (Or.inr ⟨r, hr, rfl, le_antisymm (by simpa [recEv] using hle) h⟩)

/-- `Done` advances by exactly the events of the period -/
theorem done_succ (hv : Valid cfg) {t : Int} {e : Event} : Done cfg (t + 1) e ↔ Done cfg t e ∨ Cur cfg t e := by
  constructor
  · rintro (⟨x, hx, rfl, h⟩ | ⟨x, hx, rfl, h⟩ | ⟨r, hr, rfl, h⟩)
    · rcases lt_or_eq_of_le (Int.lt_add_one_iff.1 h) with h | h
      · exact Or.inl (Or.inl ⟨x, hx, rfl, h⟩)
      · exact Or.inr (Or.inl ⟨x, hx, rfl, h⟩)
    · rcases lt_or_eq_of_le (Int.lt_add_one_iff.1 h) with h | h
      · exact Or.inl (Or.inr (Or.inl ⟨x, hx, rfl, h⟩))
      · exact Or.inr (Or.inr (Or.inl ⟨x, hx, rfl, by have := hv.arr_lt_dep x hx; omega, h⟩))
    · rcases lt_or_eq_of_le (Int.lt_add_one_iff.1 h) with h | h
      · exact Or.inl (Or.inr (Or.inr ⟨r, hr, rfl, h⟩))
      · exact Or.inr (Or.inr (Or.inr ⟨r, hr, rfl, h⟩))
  · rintro ((⟨x, hx, rfl, h⟩ | ⟨x, hx, rfl, h⟩ | ⟨r, hr, rfl, h⟩) | (⟨x, hx, rfl, h⟩ | ⟨x, hx, rfl, _, h⟩ | ⟨r, hr, rfl, h⟩))
    · exact Or.inl ⟨x, hx, rfl, by omega⟩
    · exact Or.inr (Or.inl ⟨x, hx, rfl, by omega⟩)
    · exact Or.inr (Or.inr ⟨r, hr, rfl, by omega⟩)
    · exact Or.inl ⟨x, hx, rfl, by omega⟩
    · exact Or.inr (Or.inl ⟨x, hx, rfl, by omega⟩)
    · exact Or.inr (Or.inr ⟨r, hr, rfl, by omega⟩)

/-- the queue at the head of the next period: what was later than `t`, plus the unplug events
    pushed by this period's plug-ins -/
theorem expected_succ (hv : Valid cfg) {t : Int} {e : Event} :
    Expected cfg (t + 1) e ↔
      (Expected cfg t e ∧ t < e.ts) ∨ (∃ x ∈ cfg.sessions, e = unplugEv x ∧ x.arrival = t) := by
  constructor
  · rintro (⟨x, hx, rfl, h⟩ | ⟨x, hx, rfl, h1, h⟩ | ⟨r, hr, rfl, h⟩)
    · exact Or.inl ⟨Or.inl ⟨x, hx, rfl, by omega⟩, by simp [plugEv]; omega⟩
    · rcases lt_or_eq_of_le (Int.lt_add_one_iff.1 h1) with h1 | h1
      · exact Or.inl ⟨Or.inr (Or.inl ⟨x, hx, rfl, h1, by omega⟩), by simp [unplugEv]; omega⟩
      · exact Or.inr ⟨x, hx, rfl, h1⟩
    · exact Or.inl ⟨Or.inr (Or.inr ⟨r, hr, rfl, by omega⟩), by simp [recEv]; omega⟩
  · rintro (⟨⟨x, hx, rfl, h⟩ | ⟨x, hx, rfl, h1, h⟩ | ⟨r, hr, rfl, h⟩, hlt⟩ | ⟨x, hx, rfl, h⟩)
    · exact Or.inl ⟨x, hx, rfl, by simp [plugEv] at hlt; omega⟩
    · exact Or.inr (Or.inl ⟨x, hx, rfl, by omega, by simp [unplugEv] at hlt; omega⟩)
    · exact Or.inr (Or.inr ⟨r, hr, rfl, by simp [recEv] at hlt; omega⟩)
    · exact Or.inr (Or.inl ⟨x, hx, rfl, by omega, by have := hv.arr_lt_dep x hx; omega⟩)

end

/-! ### invariants inside a period, stated through the list `todo` of events still to be processed -/

def HistOK (cfg : Cfg) (t : Int) (todo hist : List Event) : Prop :=
  hist.Nodup ∧ (∀ e, e ∈ hist ↔ Done cfg t e ∨ (Cur cfg t e ∧ e ∉ todo)) ∧
  hist.Pairwise (fun a b => a.keyLe b = true) ∧ ∀ h ∈ hist, ∀ d ∈ todo, h.keyLe d = true

def PendOK (cfg : Cfg) (t : Int) (todo pend : List Event) : Prop :=
  pend.Nodup ∧ ∀ e, e ∈ pend ↔ (Expected cfg t e ∧ t < e.ts) ∨
    (∃ x ∈ cfg.sessions, e = unplugEv x ∧ x.arrival = t ∧ plugEv x ∉ todo)

def OccOK (cfg : Cfg) (t : Int) (todo : List Event) (occ : String → Option Session) : Prop :=
  ∀ st x, occ st = some x ↔ x ∈ cfg.sessions ∧ x.station = st ∧
    ((x.arrival < t ∧ t ≤ x.departure ∧ (x.departure = t → unplugEv x ∈ todo)) ∨
     (x.arrival = t ∧ plugEv x ∉ todo))

section
variable {cfg : Cfg} {t : Int}

theorem HistOK.step {e : Event} {rest hist : List Event} (h : HistOK cfg t (e :: rest) hist)
    (hn : (e :: rest).Nodup) (hs : (e :: rest).Pairwise (fun a b => a.keyLe b = true)) (hc : Cur cfg t e) :
    HistOK cfg t rest (hist ++ [e]) := by
  obtain ⟨h1, h2, h3, h4⟩ := h
  rw [List.nodup_cons] at hn
  rw [List.pairwise_cons] at hs
  have he : e ∉ hist := by
    intro hm
    rcases (h2 e).1 hm with hd | ⟨_, hnot⟩
    · have := hd.ts_lt; have := hc.ts_eq; omega
    · exact hnot (by simp)
  refine ⟨?_, ?_, ?_, ?_⟩
  · exact List.nodup_append.2 ⟨h1, by simp, by intro a ha b hb; simp at hb; subst hb; exact fun hab => he (hab ▸ ha)⟩
  · intro e'
    rw [List.mem_append, h2 e']
    simp only [List.mem_cons, not_or, List.not_mem_nil, or_false]
    constructor
    · rintro ((hd | ⟨hc', hne, hnr⟩) | rfl)
      · exact Or.inl hd
      · exact Or.inr ⟨hc', hnr⟩
      · exact Or.inr ⟨hc, hn.1⟩
    · rintro (hd | ⟨hc', hnr⟩)
      · exact Or.inl (Or.inl hd)
      · by_cases hee : e' = e
        · exact Or.inr hee
        · exact Or.inl (Or.inr ⟨hc', hee, hnr⟩)
  · rw [List.pairwise_append]
    refine ⟨h3, by simp, ?_⟩
    intro a ha b hb
    simp at hb; subst hb
    exact h4 a ha b (by simp)
  · intro a ha d hd
    rcases List.mem_append.1 ha with ha | ha
    · exact h4 a ha d (by simp [hd])
    · simp at ha; subst ha; exact hs.1 d hd

/-- nothing later in a key-sorted period list is an unplug once a plug-in is at its head -/
theorem no_unplug_after_plugin {x y : Session} {rest : List Event}
    (hs : (plugEv x :: rest).Pairwise (fun a b => a.keyLe b = true))
    (hx : x.arrival = t) (hy : y.departure = t) : unplugEv y ∉ rest := by
  intro hm
  rw [List.pairwise_cons] at hs
  exact not_keyLe_plugin_unplug (by simp [plugEv, unplugEv, hx, hy]) rfl rfl (hs.1 _ hm)

theorem PendOK.step_plugin (hv : Valid cfg) {x : Session} {rest pend : List Event} (hx : x ∈ cfg.sessions)
    (hxa : x.arrival = t) (h : PendOK cfg t (plugEv x :: rest) pend) (hn : (plugEv x :: rest).Nodup) :
    PendOK cfg t rest (pend ++ [unplugEv x]) := by
  obtain ⟨h1, h2⟩ := h
  rw [List.nodup_cons] at hn
  have hnot : unplugEv x ∉ pend := by
    intro hm
    rcases (h2 _).1 hm with ⟨hexp, _⟩ | ⟨z, hz, hzz, _, hnz⟩
    · rcases hexp with ⟨z, _, hzz, _⟩ | ⟨z, hz, hzz, hlt, _⟩ | ⟨r, _, hrr, _⟩
      · exact absurd hzz (by simp)
      · rw [← unplugEv_inj hv hx hz hzz] at hlt; omega
      · exact absurd hrr (by simp)
    · rw [← unplugEv_inj hv hx hz hzz] at hnz
      exact hnz (by simp)
  refine ⟨List.nodup_append.2 ⟨h1, by simp, by intro a ha b hb; simp at hb; subst hb; exact fun hab => hnot (hab ▸ ha)⟩, ?_⟩
  intro e
  rw [List.mem_append, h2 e]
  simp only [List.mem_cons, not_or, List.not_mem_nil, or_false]
  constructor
  · rintro ((hl | ⟨z, hz, rfl, hza, hne, hnr⟩) | rfl)
    · exact Or.inl hl
    · exact Or.inr ⟨z, hz, rfl, hza, hnr⟩
    · exact Or.inr ⟨x, hx, rfl, hxa, hn.1⟩
  · rintro (hl | ⟨z, hz, rfl, hza, hnr⟩)
    · exact Or.inl (Or.inl hl)
    · by_cases hzx : z = x
      · subst hzx; exact Or.inr rfl
      · exact Or.inl (Or.inr ⟨z, hz, rfl, hza, fun hp => hzx (plugEv_inj hv hz hx hp), hnr⟩)

theorem PendOK.step_other {e : Event} {rest pend : List Event} (h : PendOK cfg t (e :: rest) pend)
    (he : ∀ z, plugEv z ≠ e) : PendOK cfg t rest pend := by
  obtain ⟨h1, h2⟩ := h
  refine ⟨h1, fun e' => ?_⟩
  rw [h2 e']
  simp only [List.mem_cons, not_or]
  constructor
  · rintro (hl | ⟨z, hz, rfl, hza, _, hnr⟩)
    · exact Or.inl hl
    · exact Or.inr ⟨z, hz, rfl, hza, hnr⟩
  · rintro (hl | ⟨z, hz, rfl, hza, hnr⟩)
    · exact Or.inl hl
    · exact Or.inr ⟨z, hz, rfl, hza, he z, hnr⟩

/-- under `Valid`, the station of a plug-in event is vacant when the event is processed: its last
    occupant left at `t` at the latest, and unplug events precede plug-ins in the key order -/
theorem OccOK.vacant (hv : Valid cfg) {x : Session} {rest : List Event} {occ : String → Option Session}
    (hx : x ∈ cfg.sessions) (hxa : x.arrival = t) (h : OccOK cfg t (plugEv x :: rest) occ)
    (hs : (plugEv x :: rest).Pairwise (fun a b => a.keyLe b = true)) : occ x.station = none := by
  rcases hocc : occ x.station with _ | y
  · rfl
  · exfalso
    obtain ⟨hy, hst, hcase⟩ := (h _ _).1 hocc
    have hdx := hv.arr_lt_dep x hx
    have hdy := hv.arr_lt_dep y hy
    rcases hcase with ⟨h1, h2, h3⟩ | ⟨h1, h2⟩
    · have hne : x ≠ y := by rintro rfl; omega
      rcases hv.disjoint x hx y hy hne hst.symm with hd | hd
      · omega
      · have hdep : y.departure = t := by omega
        have := h3 hdep
        simp only [List.mem_cons, unplugEv_ne_plugEv, false_or] at this
        exact no_unplug_after_plugin hs hxa hdep this
    · have hne : x ≠ y := by rintro rfl; exact h2 (by simp)
      rcases hv.disjoint x hx y hy hne hst.symm with hd | hd <;> omega

theorem OccOK.step_plugin (hv : Valid cfg) {x : Session} {rest : List Event} {occ : String → Option Session}
    (hx : x ∈ cfg.sessions) (hxa : x.arrival = t) (h : OccOK cfg t (plugEv x :: rest) occ)
    (hn : (plugEv x :: rest).Nodup) (hvac : occ x.station = none) :
    OccOK cfg t rest (setOcc occ x.station (some x)) := by
  rw [List.nodup_cons] at hn
  intro st z
  unfold setOcc
  by_cases hst : st = x.station
  · subst hst
    simp only [if_true, Option.some.injEq]
    constructor
    · rintro rfl
      exact ⟨hx, rfl, Or.inr ⟨hxa, hn.1⟩⟩
    · rintro ⟨hz, hzs, hcase⟩
      by_contra hzx
      have hzx' : z ≠ x := fun h => hzx h.symm
      have : occ x.station = some z := by
        refine (h _ _).2 ⟨hz, hzs, ?_⟩
        rcases hcase with ⟨h1, h2, h3⟩ | ⟨h1, h2⟩
        · exact Or.inl ⟨h1, h2, fun hd => List.mem_cons_of_mem _ (h3 hd)⟩
        · refine Or.inr ⟨h1, ?_⟩
          simp only [List.mem_cons, not_or]
          exact ⟨fun hp => hzx' (plugEv_inj hv hz hx hp), h2⟩
      rw [hvac] at this
      exact absurd this (by simp)
  · simp only [hst, if_false]
    rw [h st z]
    constructor
    · rintro ⟨hz, hzs, hcase⟩
      refine ⟨hz, hzs, ?_⟩
      rcases hcase with ⟨h1, h2, h3⟩ | ⟨h1, h2⟩
      · refine Or.inl ⟨h1, h2, fun hd => ?_⟩
        simpa using h3 hd
      · exact Or.inr ⟨h1, fun hm => h2 (List.mem_cons_of_mem _ hm)⟩
    · rintro ⟨hz, hzs, hcase⟩
      refine ⟨hz, hzs, ?_⟩
      rcases hcase with ⟨h1, h2, h3⟩ | ⟨h1, h2⟩
      · exact Or.inl ⟨h1, h2, fun hd => List.mem_cons_of_mem _ (h3 hd)⟩
      · refine Or.inr ⟨h1, ?_⟩
        simp only [List.mem_cons, not_or]
        refine ⟨fun hp => ?_, h2⟩
        have := plugEv_inj hv hz hx hp
        subst this
        exact hst hzs.symm

theorem OccOK.occupant {x : Session} {rest : List Event} {occ : String → Option Session}
    (hx : x ∈ cfg.sessions) (hxa : x.arrival < t) (hxd : x.departure = t)
    (h : OccOK cfg t (unplugEv x :: rest) occ) : occ x.station = some x :=
  (h _ _).2 ⟨hx, rfl, Or.inl ⟨hxa, le_of_eq hxd.symm, fun _ => by simp⟩⟩

theorem OccOK.step_unplug (hv : Valid cfg) {x : Session} {rest : List Event} {occ : String → Option Session}
    (hx : x ∈ cfg.sessions) (hxa : x.arrival < t) (hxd : x.departure = t)
    (h : OccOK cfg t (unplugEv x :: rest) occ) (hn : (unplugEv x :: rest).Nodup) :
    OccOK cfg t rest (setOcc occ x.station none) := by
  rw [List.nodup_cons] at hn
  intro st z
  unfold setOcc
  by_cases hst : st = x.station
  · subst hst
    simp only [if_true]
    constructor
    · intro h'; exact absurd h' (by simp)
    · rintro ⟨hz, hzs, hcase⟩
      exfalso
      have hocc : occ x.station = some z := by
        refine (h _ _).2 ⟨hz, hzs, ?_⟩
        rcases hcase with ⟨h1, h2, h3⟩ | ⟨h1, h2⟩
        · exact Or.inl ⟨h1, h2, fun hd => List.mem_cons_of_mem _ (h3 hd)⟩
        · exact Or.inr ⟨h1, by simpa using h2⟩
      rw [OccOK.occupant hx hxa hxd h] at hocc
      have hzx : x = z := by simpa using hocc
      subst hzx
      rcases hcase with ⟨_, _, h3⟩ | ⟨h1, _⟩
      · exact hn.1 (h3 hxd)
      · omega
  · simp only [hst, if_false]
    rw [h st z]
    constructor
    · rintro ⟨hz, hzs, hcase⟩
      refine ⟨hz, hzs, ?_⟩
      rcases hcase with ⟨h1, h2, h3⟩ | ⟨h1, h2⟩
      · refine Or.inl ⟨h1, h2, fun hd => ?_⟩
        rcases List.mem_cons.1 (h3 hd) with hu | hu
        · have := unplugEv_inj hv hz hx hu
          subst this
          exact absurd hzs.symm hst
        · exact hu
      · exact Or.inr ⟨h1, fun hm => h2 (List.mem_cons_of_mem _ hm)⟩
    · rintro ⟨hz, hzs, hcase⟩
      refine ⟨hz, hzs, ?_⟩
      rcases hcase with ⟨h1, h2, h3⟩ | ⟨h1, h2⟩
      · exact Or.inl ⟨h1, h2, fun hd => List.mem_cons_of_mem _ (h3 hd)⟩
      · exact Or.inr ⟨h1, by simpa using h2⟩

theorem OccOK.step_rec {r : Int × String} {rest : List Event} {occ : String → Option Session}
    (h : OccOK cfg t (recEv r :: rest) occ) : OccOK cfg t rest occ := by
  intro st z
  rw [h st z]
  simp

end
end Acn.EventCore
