/-
  Helper lemmas for C06, part 2: the three entry points compute the same Boolean; the
  well-formedness invariant of the network arrays; the infrastructure view.
-/
import AcnProofs.Lemmas.FeasSums

namespace Acn.Feas
open Acn

set_option linter.unusedSectionVars false

variable {K : Type} [Field K] [LinearOrder K] [IsStrictOrderedRing K]

/-! ### phase-aware mode -/

theorem algFeasible_eq_rows (M : List (List K)) (lims c s : List K) (vt rt : K) (x : List K) :
    algFeasible M lims c s vt rt x
      = (List.zip M lims).all fun p => rowOk p.1 p.2 vt rt c s x := by
  unfold algFeasible
  congr 1
  funext p
  obtain ⟨row, lim⟩ := p
  simp only [rowOk, alg_dot_eq, aggRe_eq, aggIm_eq]

theorem all_range_true (n : Nat) : ((List.range n).all fun _ => true) = true := by simp

theorem net_eq_alg2 (M : List (List K)) (lims c s : List K) (vt rt : K) (S : List (List K)) :
    netFeasible M lims c s vt rt S = algFeasible2 M lims c s vt rt S := by
  unfold netFeasible algFeasible2
  by_cases h : lims = []
  · subst h; simp [algFeasible]
  · have : lims.isEmpty = false := by simpa using h
    rw [this]
    simp only [Bool.false_eq_true, if_false]
    congr 1
    funext t
    rw [algFeasible_eq_rows]

/-- the 1-D call of the algorithm side is the network check of the one-column matrix -/
theorem alg1_eq_net (M : List (List K)) (lims c s : List K) (vt rt : K) (x : List K)
    (hx : x ≠ []) :
    algFeasible M lims c s vt rt x = netFeasible M lims c s vt rt (x.map fun v => [v]) := by
  rw [net_eq_alg2]
  unfold algFeasible2
  have hp : periods (x.map fun v => [v]) = 1 := by
    cases x with
    | nil => exact absurd rfl hx
    | cons y x => simp [periods]
  have hc : col (x.map fun v => [v]) 0 = x := by
    simp [col, List.map_map, Function.comp_def]
  rw [hp]
  simp [List.range_succ, hc]

/-! ### linear mode (repaired code) -/

theorem algLinear_eq_rows (M : List (List K)) (lims : List K) (vt rt : K) (x : List K) :
    algLinear M lims vt rt x
      = (List.zip M lims).all fun p =>
          decide (linAggFixed p.1 x ≤ p.2 + tolOf vt rt p.2) := by
  rfl

theorem netLinear_eq_alg2 (M : List (List K)) (lims : List K) (vt rt : K) (S : List (List K)) :
    netLinear M lims vt rt S = algLinear2 M lims vt rt S := by
  unfold netLinear netFeasibleLinear algLinear2
  by_cases h : lims = []
  · subst h; simp [algLinear]
  · have : lims.isEmpty = false := by simpa using h
    rw [this]
    simp only [Bool.false_eq_true, if_false]
    rfl

/-! ### interface side -/

theorem ifaceE_ok (stations : List String) (M : List (List K)) (lims c s : List K) (vt rt : K)
    (linear : Bool) (sched : List (String × List K)) (len : Nat) (hne : sched ≠ [])
    (hlen : ∀ p ∈ sched, p.2.length = len) :
    ifaceFeasibleE stations M lims c s vt rt linear sched
      = .ok (if linear then netLinear M lims vt rt (densify stations sched len)
             else netFeasible M lims c s vt rt (densify stations sched len)) := by
  cases sched with
  | nil => exact absurd rfl hne
  | cons p rest =>
    obtain ⟨k, r⟩ := p
    have hr : r.length = len := hlen (k, r) (by simp)
    subst hr
    have hall : rest.all (fun p => p.2.length == r.length) = true := by
      rw [List.all_eq_true]
      intro q hq
      simp [hlen q (by simp [hq])]
    simp only [ifaceFeasibleE, hall, if_true]

theorem ifaceE_err (stations : List String) (M : List (List K)) (lims c s : List K) (vt rt : K)
    (linear : Bool) (k : String) (r : List K) (rest : List (String × List K))
    (h : ∃ q ∈ rest, q.2.length ≠ r.length) :
    ifaceFeasibleE stations M lims c s vt rt linear ((k, r) :: rest) = .error .invalidSchedule := by
  have hall : rest.all (fun p => p.2.length == r.length) = false := by
    rw [List.all_eq_false]
    obtain ⟨q, hq, hne⟩ := h
    exact ⟨q, hq, by simpa using hne⟩
  simp [ifaceFeasibleE, hall]

theorem iface_total_eq (stations : List String) (M : List (List K)) (lims c s : List K)
    (vt rt : K) (sched : List (String × List K)) (len : Nat) (hne : sched ≠ [])
    (hlen : ∀ p ∈ sched, p.2.length = len) :
    ifaceFeasible stations M lims c s vt rt sched
      = netFeasible M lims c s vt rt (densify stations sched len) ∧
    ifaceLinear stations M lims vt rt sched
      = netLinear M lims vt rt (densify stations sched len) := by
  cases sched with
  | nil => exact absurd rfl hne
  | cons p rest =>
    obtain ⟨k, r⟩ := p
    have hr : r.length = len := hlen (k, r) (by simp)
    simp [ifaceFeasible, ifaceLinear, hr]

/-! ### densify -/

theorem densify_length (stations : List String) (sched : List (String × List K)) (len : Nat) :
    (densify stations sched len).length = stations.length := by simp [densify]

theorem lookup_mem {α β : Type} [BEq α] [LawfulBEq α] (l : List (α × β)) (k : α) (v : β)
    (h : l.lookup k = some v) : (k, v) ∈ l := by
  induction l with
  | nil => simp at h
  | cons p l ih =>
    obtain ⟨k', v'⟩ := p
    by_cases hk : k = k'
    · subst hk; simp [List.lookup] at h; subst h; simp
    · have : (k == k') = false := by simpa using hk
      simp only [List.lookup, this] at h
      exact List.mem_cons_of_mem _ (ih h)

/-- every row of the dense matrix has the common length -/
theorem densify_row_length (stations : List String) (sched : List (String × List K)) (len : Nat)
    (hlen : ∀ p ∈ sched, p.2.length = len) :
    ∀ row ∈ densify stations sched len, row.length = len := by
  intro row hrow
  simp only [densify, List.mem_map] at hrow
  obtain ⟨st, _, rfl⟩ := hrow
  cases h : sched.lookup st with
  | none => simp
  | some r => simpa using hlen (st, r) (lookup_mem sched st r h)

/-- non-negative mapping ⇒ non-negative dense matrix -/
theorem densify_nonneg (stations : List String) (sched : List (String × List K)) (len : Nat)
    (h : ∀ p ∈ sched, ∀ v ∈ p.2, 0 ≤ v) :
    ∀ row ∈ densify stations sched len, ∀ v ∈ row, 0 ≤ v := by
  intro row hrow v hv
  simp only [densify, List.mem_map] at hrow
  obtain ⟨st, _, rfl⟩ := hrow
  cases hl : sched.lookup st with
  | none => simp only [hl, List.mem_replicate] at hv; rw [hv.2]
  | some r => simp only [hl] at hv; exact h (st, r) (lookup_mem sched st r hl) v hv

/-! ### the network object -/

/-- the shape invariant that `register_evse` / `add_constraint` / `remove_constraint` maintain
    (charging_network.py:176-300): one phasor and one voltage per station, one limit and one name
    per constraint row, rows as wide as the station list; no matrix ⇒ no limits. -/
structure Net.WF (net : Net K) : Prop where
  hc : net.c.length = net.stations.length
  hs : net.s.length = net.stations.length
  hv : net.voltages.length = net.stations.length
  hids : net.cids.length = net.lims.length
  hnone : net.matrix = none → net.lims = []
  hsome : ∀ M, net.matrix = some M → M.cols = net.stations.length ∧ M.rows.length = net.lims.length

theorem Net.WF.mat_cols {net : Net K} (h : net.WF) : net.mat.cols = net.stations.length := by
  unfold Net.mat
  cases hm : net.matrix with
  | none => rfl
  | some M => exact (h.hsome M hm).1

theorem Net.WF.mat_rows {net : Net K} (h : net.WF) : net.mat.rows.length = net.lims.length := by
  unfold Net.mat
  cases hm : net.matrix with
  | none => simp [h.hnone hm]
  | some M => exact (h.hsome M hm).2

theorem Net.infra_ok {net : Net K} (h : net.WF) : net.infraInfo = .ok net.view := by
  have hv : net.view.validate = .ok () := by
    unfold Infra.validate
    rw [if_pos]
    simp only [Net.view]
    exact ⟨h.mat_cols, h.hc, h.hs, h.hv, h.mat_rows, h.hids⟩
  simp [Net.infraInfo, hv]

/-- network side = algorithm side on the infrastructure view, both modes, any tolerances -/
theorem Net.isFeasible_eq_view (net : Net K) (h : net.WF) (S : List (List K)) (linear : Bool)
    (vt? rt? : Option K) :
    net.isFeasible S linear vt? rt?
      = .ok (net.view.feasible2 S linear (vt?.getD net.vt) (rt?.getD net.rt)) := by
  unfold Net.isFeasible Infra.feasible2
  by_cases hl : net.lims = []
  · have hz : ∀ M : List (List K), List.zip M net.lims = [] := by intro M; rw [hl]; simp
    simp [hl, Net.view, algLinear2, algLinear, algFeasible2, algFeasible]
  · have hne : net.lims.isEmpty = false := by simpa using hl
    cases hm : net.matrix with
    | none => exact absurd (h.hnone hm) hl
    | some M =>
      simp only [hne, Bool.false_eq_true, if_false, Net.view, Net.mat, hm]
      cases linear
      · simp [net_eq_alg2]
      · simp [netLinear_eq_alg2]

/-- interface side = network side on the dense matrix -/
theorem Net.iface_eq_net (net : Net K) (sched : List (String × List K)) (len : Nat)
    (hne : sched ≠ []) (hlen : ∀ p ∈ sched, p.2.length = len) (linear : Bool)
    (vt? rt? : Option K) :
    net.ifaceIsFeasible sched linear vt? rt?
      = net.isFeasible (densify net.stations sched len) linear vt? rt? := by
  cases sched with
  | nil => exact absurd rfl hne
  | cons p rest =>
    obtain ⟨k, r⟩ := p
    have hr : r.length = len := hlen (k, r) (by simp)
    subst hr
    have hall : rest.all (fun p => p.2.length == r.length) = true := by
      rw [List.all_eq_true]
      intro q hq
      simp [hlen q (by simp [hq])]
    simp only [Net.ifaceIsFeasible, hall, if_true]

end Acn.Feas
