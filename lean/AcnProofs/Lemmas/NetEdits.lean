/-
  Helper lemmas for C05 (the network edited between invocations, `AcnModel/NetEdits.lean`): histories
  split at a period; the constraint mutators never touch the station list; a same-name update of the
  last constraint of the plain-list specification of C12 (`Network.Spec`) replaces that constraint in place.
-/
import AcnModel.NetEdits
import AcnProofs.Lemmas.SchedInfra
import AcnProofs.Lemmas.NetworkAlign
import Mathlib.Tactic

namespace Acn.Sim
open Acn Acn.Network

variable {K : Type}

theorem run_append [OfNat K 0] (n : Net K) (a b : List (Op K)) :
    Net.run n (a ++ b) = Net.run (Net.run n a) b := by
  simp [Net.run, List.foldl_append]

theorem spec_run_append (sp : Spec K) (a b : List (Op K)) :
    Spec.run sp (a ++ b) = Spec.run (Spec.run sp a) b := by
  simp [Spec.run, List.foldl_append]

theorem spec_run_snoc (sp : Spec K) (a : List (Op K)) (o : Op K) :
    Spec.run sp (a ++ [o]) = ((Spec.run sp a).step o).1 := by
  simp [Spec.run, List.foldl_append]

theorem opsOf_append (a b : List (NetEdit K)) : opsOf (a ++ b) = opsOf a ++ opsOf b := by
  simp [opsOf]

/-- `netAt` is the network model run over the WHOLE history from the empty network -/
theorem netAt_eq_run [OfNat K 0] (cfg : Cfg K) (nd : NetDesc K) (edits : List (NetEdit K)) (t : Nat) :
    netAt cfg nd edits t = Net.run Net.init (historyAt cfg nd edits t) := by
  unfold netAt netOf historyAt
  rw [run_append, run_append]

/-- a sorted history: the entries in force at a later period are those in force earlier followed by
    the ones that came into force in between -/
theorem entriesInForce_split (edits : List (NetEdit K))
    (hs : edits.Pairwise fun a b => a.since ≤ b.since) {t t' : Nat} (h : t ≤ t') :
    entriesInForce edits t' =
      entriesInForce edits t ++ edits.filter fun e => decide (t < e.since ∧ e.since ≤ t') := by
  induction edits with
  | nil => simp [entriesInForce]
  | cons e es ih =>
    obtain ⟨hhd, htl⟩ := List.pairwise_cons.1 hs
    have ih := ih htl
    unfold entriesInForce at ih ⊢
    by_cases he : e.since ≤ t
    · have he' : e.since ≤ t' := le_trans he h
      have hn : ¬ (t < e.since ∧ e.since ≤ t') := fun hh => absurd hh.1 (not_lt.2 he)
      rw [List.filter_cons_of_pos (by simpa using he'), List.filter_cons_of_pos (by simpa using he),
        List.filter_cons_of_neg (by simpa using hn), ih, List.cons_append]
    · have hlt : t < e.since := not_le.1 he
      have hall : ∀ x ∈ e :: es, t < x.since := by
        intro x hx
        rcases List.mem_cons.1 hx with rfl | hx
        · exact hlt
        · exact lt_of_lt_of_le hlt (hhd x hx)
      have h1 : (e :: es).filter (fun x => decide (x.since ≤ t)) = [] := by
        rw [List.filter_eq_nil_iff]
        intro x hx
        simpa using hall x hx
      rw [h1, List.nil_append]
      apply List.filter_congr
      intro x hx
      have := hall x hx
      simp [this]

/-- the three constraint mutators leave the station list alone (also when they raise) -/
theorem conop_stations [OfNat K 0] (n : Net K) (o : ConOp K) : (n.step o.toOp).1.stations = n.stations := by
  have hadd : ∀ (m : Net K) c l nm, (m.addConstraint c l nm).1.stations = m.stations := by
    intro m c l nm
    unfold Net.addConstraint
    simp only
    split
    · split
      · rfl
      · split <;> rfl
    · rfl
  have hrem : ∀ (m : Net K) nm, (m.removeConstraint nm).1.stations = m.stations := by
    intro m nm
    unfold Net.removeConstraint
    split
    · split <;> rfl
    · rfl
  cases o with
  | add c l nm => exact hadd n c l nm
  | remove nm => exact hrem n nm
  | update nm c l nn =>
    show (n.updateConstraint nm c l nn).1.stations = n.stations
    unfold Net.updateConstraint
    simp only
    split
    · rcases hr : n.removeConstraint nm with ⟨n1, e1⟩
      have h1 : n1.stations = n.stations := by have := hrem n nm; rw [hr] at this; exact this
      cases e1 with
      | some e => simpa using h1
      | none => simp only; rw [hadd]; exact h1
    · rfl

theorem run_conops_stations [OfNat K 0] (ops : List (ConOp K)) (n : Net K) :
    (Net.run n (ops.map ConOp.toOp)).stations = n.stations := by
  induction ops generalizing n with
  | nil => rfl
  | cons o os ih =>
    rw [List.map_cons, run_cons, ih, conop_stations]

theorem run_opsOf_stations [OfNat K 0] (es : List (NetEdit K)) (n : Net K) :
    (Net.run n (opsOf es)).stations = n.stations := by
  induction es generalizing n with
  | nil => rfl
  | cons e rest ih =>
    have : opsOf (e :: rest) = e.ops.map ConOp.toOp ++ opsOf rest := by simp [opsOf]
    rw [this, run_append, ih, run_conops_stations]

/-- the network the simulator is built with lists the (distinct) stations in registration order -/
theorem netOf_stations [OfNat K 0] (cfg : Cfg K) (nd : NetDesc K) (hnd : (cfg.stations.map (·.id)).Nodup) :
    (netOf cfg nd).stations = cfg.stations.map (·.id) := by
  have hreg := run_registers (K := K) (cfg.stations.map (·.id)) Net.init rfl (by simp [Net.init]) hnd
  have hmap : (cfg.stations.map fun st => Op.register (K := K) st.id) = (cfg.stations.map (·.id)).map Op.register := by
    simp
  have hadds : (nd.constraints.map fun c => Op.add c.1 c.2.1 c.2.2) =
      (nd.constraints.map fun c => ConOp.add c.1 c.2.1 c.2.2).map ConOp.toOp := by
    simp [ConOp.toOp]
  unfold netOf
  rw [hadds, run_conops_stations, hmap, hreg]
  simp [Net.init]

/-! ### the specification side: a same-name update of the LAST constraint -/

theorem spec_update_last (sp : Spec K) (cs : List (Constraint K)) (x : Constraint K) (c : Current K) (l : K)
    (hc : sp.cons = cs ++ [x]) (hx : x.name ∉ cs.map (·.name)) (hk : ∀ k ∈ c.keys, k ∈ sp.stations) :
    (sp.update x.name c l none).1 = { sp with frozen := true, cons := cs ++ [⟨c, l, x.name⟩] } := by
  have hnames : sp.names = cs.map (·.name) ++ [x.name] := by simp [Spec.names, hc]
  have hin : x.name ∈ sp.names := by rw [hnames]; simp
  have hrem : (sp.remove x.name).1 = { sp with cons := cs } := by
    unfold Spec.remove
    rw [if_pos hin]
    simp only
    congr 1
    rw [hc, List.eraseP_append_right]
    · simp
    · intro b hb hbn
      exact hx (List.mem_map.2 ⟨b, hb, by simpa using hbn⟩)
  unfold Spec.update
  rw [if_pos hin, hrem]
  unfold Spec.add
  rw [if_pos (by simpa using hk)]
  have hres : Net.resolveName (Spec.names ({ sp with cons := cs } : Spec K)) (some x.name) = x.name := by
    simp [Net.resolveName, Spec.names, hx]
  simp only [Option.getD_none, hres]

end Acn.Sim
