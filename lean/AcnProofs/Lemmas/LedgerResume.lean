/-
  Helper lemmas for C02 (resume): the ledger invariant SURVIVES A PERIOD THAT RAISES, as long as the raise does
  not come out of the pilots/rates half of the period (`update_pilots` / `_store_actual_charging_rates`):
  the events of the period only touch the occupancy, `scheduler.run()` and `_update_schedules` only touch the
  pilot matrix — no EV has charged, nothing has been recorded, `peak` and `_iteration` are what they were.
  Hence every state reached by `run()` calls that are aborted this way and called again (`Resumed`) satisfies
  the invariant at every loop head.

  (A raise inside `update_pilots` — `InvalidRateError` at station `j` after the stations before it have charged —
  leaves energy delivered that no column of `charging_rates` records: there the ledger really is broken, and
  stays broken after a resume, which charges those EVs again for the same period.  `ApplyErr` names the error
  classes that half can raise; they are excluded.)
-/
import AcnProofs.Lemmas.LedgerTotal

set_option linter.unusedSectionVars false
set_option linter.unusedSimpArgs false
set_option linter.unusedVariables false

namespace Acn.Ledger
open Acn Acn.Sim Acn.EventCore Acn.Evse Finset

variable {K : Type} [Field K] [LinearOrder K] [IsStrictOrderedRing K] [HasExp K]

/-- the error classes the pilots/rates half of a period can raise (numpy `IndexError`, `InvalidRateError`,
    a `ValueError` out of `Battery.charge`) -/
def ApplyErr (e : EventCore.Err) : Prop := e = .indexError ∨ e = .invalidRate ∨ e = .valueError

instance (e : EventCore.Err) : Decidable (ApplyErr e) :=
  inferInstanceAs (Decidable (e = .indexError ∨ e = .invalidRate ∨ e = .valueError))

theorem setPilotAt_err {cfg : Cfg K} {s s' : State K} {i : Nat} {st : Station K} {e : EventCore.Err}
    (h : setPilotAt cfg s i st = (s', some e)) : ApplyErr e := by
  unfold setPilotAt at h
  simp only at h
  split at h
  · simp only [Prod.mk.injEq, Option.some.injEq] at h; exact Or.inr (Or.inl h.2.symm)
  · simp only [Prod.mk.injEq, Option.some.injEq] at h; exact Or.inr (Or.inr h.2.symm)
  · simp at h

theorem updatePilotsFrom_err {cfg : Cfg K} : ∀ (rest : List (Station K)) (i : Nat) (s s' : State K) (e : EventCore.Err),
    updatePilotsFrom cfg i rest s = (s', some e) → ApplyErr e := by
  intro rest
  induction rest with
  | nil => intro i s s' e h; simp [updatePilotsFrom] at h
  | cons st rest ih =>
    intro i s s' e h
    unfold updatePilotsFrom at h
    rcases h1 : setPilotAt cfg s i st with ⟨s1, _ | e1⟩
    · simp only [h1] at h
      exact ih _ _ _ _ h
    · simp only [h1, Prod.mk.injEq, Option.some.injEq] at h
      exact h.2 ▸ setPilotAt_err h1

theorem storeRates_err {cfg : Cfg K} {w : Nat} {s s' : State K} {e : EventCore.Err}
    (h : storeRates cfg w s = (s', some e)) : ApplyErr e := by
  unfold storeRates at h
  simp only at h
  generalize (if s.core.iter < s.rates.width then s.rates else Pilots.increaseWidth s.rates w) = m at h
  by_cases hw : s.core.iter < m.width
  · rw [if_pos hw] at h; simp at h
  · rw [if_neg hw] at h
    simp only [Prod.mk.injEq, Option.some.injEq] at h; exact Or.inl h.2.symm

/-- whatever `applyStage` raises is an `ApplyErr` -/
theorem applyStage_err {cfg : Cfg K} {a s' : State K} {e : EventCore.Err} (h : applyStage cfg a = (s', some e)) :
    ApplyErr e := by
  unfold applyStage at h
  split at h
  · simp only [Prod.mk.injEq, Option.some.injEq] at h; exact Or.inl h.2.symm
  · rcases h2 : updatePilots cfg (widen a) with ⟨s2, _ | e2⟩
    · simp only [h2] at h
      rcases h3 : storeRates cfg (widthInc a) s2 with ⟨s3, _ | e3⟩
      · simp [h3] at h
      · simp only [h3, Prod.mk.injEq, Option.some.injEq] at h
        exact h.2 ▸ storeRates_err h3
    · simp only [h2, Prod.mk.injEq, Option.some.injEq] at h
      exact h.2 ▸ updatePilotsFrom_err _ _ _ _ _ h2

/-- ONE PERIOD THAT RAISES (in `_process_event`, in `scheduler.run()`, in `_update_schedules` — anything but the
    pilots/rates half): the state the simulator is left in still satisfies the ledger invariant -/
theorem body_ledger_abort {cfg : Cfg K} (sched : View K → Except EventCore.Err (Schedule K)) {s s' : State K}
    {e : EventCore.Err} (hL : Inv cfg s) (h : Sim.body cfg sched s = (s', some e)) (he : ¬ ApplyErr e) : Inv cfg s' := by
  obtain ⟨f1, f2, f3, f4, f5, f6⟩ := eventsStage_frame cfg s hL.occ_sound
  unfold Sim.body at h
  rcases hes : Sim.eventsStage cfg s with ⟨s1, _ | e1⟩
  · rw [hes] at f1 f2 f3 f4 f5 f6
    simp only at f1 f2 f3 f4 f5 f6
    simp only [hes] at h
    split at h
    · split at h
      · -- the scheduler (or `_update_schedules`) raised: only `invoked` has moved
        simp only [Prod.mk.injEq, Option.some.injEq] at h
        obtain ⟨rfl, _⟩ := h
        exact hL.transfer f1 f2 f3 f4 f5 f6
      · exact absurd (applyStage_err h) he
    · exact absurd (applyStage_err h) he
  · -- an event raised: the events before it have been applied to the occupancy
    rw [hes] at f1 f2 f3 f4 f5 f6
    simp only at f1 f2 f3 f4 f5 f6
    simp only [hes, Prod.mk.injEq, Option.some.injEq] at h
    obtain ⟨rfl, _⟩ := h
    exact hL.transfer f1 f2 f3 f4 f5 f6

/-- a whole `run()`, completed / out of fuel / aborted by anything but the pilots/rates half: invariant kept -/
theorem run_ledger_any {cfg : Cfg K} (hn : StationsNodup cfg)
    (sched : View K → Except EventCore.Err (Schedule K)) : ∀ (n : Nat) (s s' : State K) (err : Option EventCore.Err),
    Inv cfg s → Sim.run cfg sched n s = (s', err) → (∀ e, err = some e → ¬ ApplyErr e) → Inv cfg s' := by
  intro n
  induction n with
  | zero =>
    intro s s' err hL h _
    simp only [Sim.run, Prod.mk.injEq] at h
    exact h.1 ▸ hL
  | succ n ih =>
    intro s s' err hL h he
    unfold Sim.run at h
    split at h
    · rcases hb : Sim.body cfg sched s with ⟨s1, _ | e1⟩
      · simp only [hb] at h
        exact ih s1 s' err (body_ledger hn sched hL hb) h he
      · simp only [hb, Prod.mk.injEq] at h
        obtain ⟨rfl, rfl⟩ := h
        exact body_ledger_abort sched hL hb (he e1 rfl)
    · simp only [Prod.mk.injEq] at h
      exact h.1 ▸ hL

/-- the states a simulator object goes through when `run()` is called, raises (not in the pilots/rates half),
    is called again, … — any number of times, any scheduler and fuel at each call -/
inductive Resumed (cfg : Cfg K) : State K → Prop
  | init : Resumed cfg (Sim.init cfg)
  | call (sched : View K → Except EventCore.Err (Schedule K)) (n : Nat) {s s' : State K} {err : Option EventCore.Err} :
      Resumed cfg s → Sim.run cfg sched n s = (s', err) → (∀ e, err = some e → ¬ ApplyErr e) → Resumed cfg s'

theorem resumed_ledger {cfg : Cfg K} (hn : StationsNodup cfg) {s : State K} (h : Resumed cfg s) : Inv cfg s := by
  induction h with
  | init => exact init_ledger cfg
  | call sched n _ hrun he ih => exact run_ledger_any hn sched n _ _ _ ih hrun he

/-- the scheduler that raises in period `k` raises `SchedulerFailed`, which is not an `ApplyErr` -/
theorem schedulerFailed_not_applyErr : ¬ ApplyErr EventCore.Err.schedulerFailed := by
  unfold ApplyErr; decide

/-! ### the clauses of the ledger, read off the invariant of ANY state (so also of a resumed one) -/

/-- the session's own row: delivered energy = Σ over the periods so far in which the snapshot shows it at its
    station of `rates[st][τ] · V_st / 1000 · (period / 60)` -/
theorem Inv.session_single {cfg : Cfg K} (hn : StationsNodup cfg) {s : State K} (hL : Inv cfg s)
    {id : String} {e0 e : Ev K} (h0 : evIn cfg.evs id = some e0) (he : evIn s.evs id = some e) :
    e.delivered - e0.delivered =
      ∑ τ ∈ range s.core.iter,
        if occAt s.occLog τ (stationIndex cfg e0.station) = some id
        then s.rates.get (stationIndex cfg e0.station) τ * volt cfg (stationIndex cfg e0.station) / 1000
              * (cfg.period / 60)
        else 0 := by
  rw [hL.sess id e0 e h0 he]
  unfold sessionEnergy
  exact Finset.sum_congr rfl (fun τ _ => sum_term_single hn hL h0 τ)

theorem peakUpTo_bounds (m : Pilots.Mat K) (n : Nat) : ∀ t : Nat,
    0 ≤ peakUpTo m n t ∧ (∀ τ < t, aggCurrent m n τ ≤ peakUpTo m n t) ∧
    (peakUpTo m n t = 0 ∨ ∃ τ < t, peakUpTo m n t = aggCurrent m n τ) := by
  intro t
  induction t with
  | zero => exact ⟨le_refl _, fun τ h => absurd h (Nat.not_lt_zero _), Or.inl rfl⟩
  | succ t ih =>
    obtain ⟨h0, h1, h2⟩ := ih
    simp only [peakUpTo]
    refine ⟨le_trans h0 (le_max_left _ _), ?_, ?_⟩
    · intro τ hτ
      rcases Nat.lt_succ_iff_lt_or_eq.1 hτ with hlt | rfl
      · exact le_trans (h1 τ hlt) (le_max_left _ _)
      · exact le_max_right _ _
    · rcases le_total (peakUpTo m n t) (aggCurrent m n t) with hle | hle
      · rw [max_eq_right hle]; exact Or.inr ⟨t, Nat.lt_succ_self t, rfl⟩
      · rw [max_eq_left hle]
        rcases h2 with h2 | ⟨τ, hτ, h2⟩
        · exact Or.inl h2
        · exact Or.inr ⟨τ, Nat.lt_succ_of_lt hτ, h2⟩

/-- `peak` = max(0, max over the periods so far of the recorded aggregate current) -/
theorem Inv.peak_spec {cfg : Cfg K} {s : State K} (hL : Inv cfg s) :
    0 ≤ s.peak ∧
    (∀ τ < s.core.iter, ∑ i ∈ range cfg.stations.length, s.rates.get i τ ≤ s.peak) ∧
    (s.peak = 0 ∨ ∃ τ < s.core.iter, s.peak = ∑ i ∈ range cfg.stations.length, s.rates.get i τ) := by
  rw [hL.peak_eq]
  exact peakUpTo_bounds s.rates cfg.stations.length s.core.iter

/-- Σ over all EVs of the energy counters = Σ_τ aggregate_power(τ) · period/60 -/
theorem Inv.total {cfg : Cfg K} (hn : StationsNodup cfg) (hid : (cfg.evs.map (·.session)).Nodup)
    {s : State K} (hL : Inv cfg s) :
    (s.evs.map (·.delivered)).sum - (cfg.evs.map (·.delivered)).sum =
      ∑ τ ∈ range s.core.iter,
        (∑ i ∈ range cfg.stations.length, volt cfg i * s.rates.get i τ / 1000) * (cfg.period / 60) :=
  total_of_inv hn hid hL

end Acn.Ledger
