/-
  Helper lemmas for C01 (3/3): the loop invariant `Inv`, one period (`processAll`, `body`),
  the initial state, and the whole run.
-/
import AcnProofs.Lemmas.EventCoreInv

namespace Acn.EventCore
open Acn

/-- `ev_history` keys = sessions of the plug-in entries of `event_history`, in order -/
def EvhOK (c : Core) : Prop :=
  c.evHist = (c.eventHist.filter (fun e => e.kind == .plugin)).map (·.sess)

/-- the loop invariant at the head of period `t` -/
structure Inv (cfg : Cfg) (t : Nat) (c : Core) : Prop where
  iter : c.iter = t
  pend_nodup : c.pending.Nodup
  pend_mem : ∀ e, e ∈ c.pending ↔ Expected cfg t e
  occ : ∀ st x, c.occ st = some x ↔
    x ∈ cfg.sessions ∧ x.station = st ∧ x.arrival < t ∧ (t : Int) ≤ x.departure
  resolve : c.resolve = false
  hist_nodup : c.eventHist.Nodup
  hist_mem : ∀ e, e ∈ c.eventHist ↔ Done cfg t e
  hist_sorted : c.eventHist.Pairwise (fun a b => a.keyLe b = true)
  evh : EvhOK c

section
variable {cfg : Cfg}

/-! ### single events -/

theorem contains_station (hv : Valid cfg) {x : Session} (hx : x ∈ cfg.sessions) :
    cfg.stations.contains x.station = true := by
  simpa using hv.registered x hx

theorem step_plugin (hv : Valid cfg) {x : Session} (hx : x ∈ cfg.sessions) (c : Core)
    (hvac : c.occ x.station = none) :
    step cfg (plugEv x) c =
      ({ c with eventHist := c.eventHist ++ [plugEv x], occ := setOcc c.occ x.station (some x),
                evHist := c.evHist ++ [x.id], pending := c.pending ++ [unplugEv x], resolve := true,
                lastUpd := some x.arrival }, none) := by
  simp [step, process, plugEv, findSession_eq hv hx, hv.registered x hx, hvac]

theorem step_unplug (hv : Valid cfg) {x : Session} (hx : x ∈ cfg.sessions) (c : Core)
    (hocc : c.occ x.station = some x) :
    step cfg (unplugEv x) c =
      ({ c with eventHist := c.eventHist ++ [unplugEv x], occ := setOcc c.occ x.station none,
                resolve := true, lastUpd := some x.departure }, none) := by
  simp [step, process, unplugEv, findSession_eq hv hx, hv.registered x hx, unplugHits, hocc]

theorem step_rec (r : Int × String) (c : Core) :
    step cfg (recEv r) c = ({ c with eventHist := c.eventHist ++ [recEv r], resolve := true }, none) := by
  simp [step, process, recEv]

theorem EvhOK.plugin {c : Core} (h : EvhOK c) (x : Session) (hist' : List Event) (evh' : List String)
    (h1 : hist' = c.eventHist ++ [plugEv x]) (h2 : evh' = c.evHist ++ [x.id]) :
    evh' = (hist'.filter (fun e => e.kind == .plugin)).map (·.sess) := by
  subst h1 h2
  unfold EvhOK at h
  simp [h, plugEv]

/-! ### all events of one period -/

theorem processAll_ok (hv : Valid cfg) (t : Int) : ∀ (todo : List Event) (c : Core),
    todo.Nodup → todo.Pairwise (fun a b => a.keyLe b = true) → (∀ e ∈ todo, Cur cfg t e) →
    HistOK cfg t todo c.eventHist → PendOK cfg t todo c.pending → OccOK cfg t todo c.occ → EvhOK c →
    ∃ c', processAll cfg todo c = (c', none) ∧ c'.iter = c.iter ∧ c'.invoked = c.invoked ∧
      HistOK cfg t [] c'.eventHist ∧ PendOK cfg t [] c'.pending ∧ OccOK cfg t [] c'.occ ∧ EvhOK c' := by
  intro todo
  induction todo with
  | nil =>
    intro c _ _ _ hH hP hO hE
    exact ⟨c, rfl, rfl, rfl, hH, hP, hO, hE⟩
  | cons e rest ih =>
    intro c hn hs hc hH hP hO hE
    have hn' := (List.nodup_cons.1 hn).2
    have hs' := (List.pairwise_cons.1 hs).2
    have hc' : ∀ e ∈ rest, Cur cfg t e := fun d hd => hc d (List.mem_cons_of_mem _ hd)
    have hcur := hc e (by simp)
    have hH' := hH.step hn hs hcur
    rcases hcur with ⟨x, hx, rfl, hxa⟩ | ⟨x, hx, rfl, hxa, hxd⟩ | ⟨r, hr, rfl, hrt⟩
    · -- plug-in
      have hvac := hO.vacant hv hx hxa hs
      have hstep := step_plugin hv hx c hvac
      obtain ⟨c', h1, h2, h3, h4⟩ := ih
        { c with eventHist := c.eventHist ++ [plugEv x], occ := setOcc c.occ x.station (some x),
                 evHist := c.evHist ++ [x.id], pending := c.pending ++ [unplugEv x], resolve := true,
                 lastUpd := some x.arrival }
        hn' hs' hc' hH' (hP.step_plugin hv hx hxa hn) (hO.step_plugin hv hx hxa hn hvac)
        (hE.plugin x _ _ rfl rfl)
      refine ⟨c', ?_, h2, h3, h4⟩
      simp only [processAll, hstep]; exact h1
    · -- unplug
      have hocc := hO.occupant hx hxa hxd
      have hstep := step_unplug hv hx c hocc
      obtain ⟨c', h1, h2, h3, h4⟩ := ih
        { c with eventHist := c.eventHist ++ [unplugEv x], occ := setOcc c.occ x.station none,
                 resolve := true, lastUpd := some x.departure }
        hn' hs' hc' hH' (hP.step_other (fun z => plugEv_ne_unplugEv z x))
        (hO.step_unplug hv hx hxa hxd hn)
        (by unfold EvhOK at hE ⊢; simp [hE, unplugEv])
      refine ⟨c', ?_, h2, h3, h4⟩
      simp only [processAll, hstep]; exact h1
    · -- recompute
      have hstep := step_rec (cfg := cfg) r c
      obtain ⟨c', h1, h2, h3, h4⟩ := ih
        { c with eventHist := c.eventHist ++ [recEv r], resolve := true }
        hn' hs' hc' hH' (hP.step_other (fun z => plugEv_ne_recEv z r)) hO.step_rec
        (by unfold EvhOK at hE ⊢; simp [hE, recEv])
      refine ⟨c', ?_, h2, h3, h4⟩
      simp only [processAll, hstep]; exact h1

/-- the events stage at the head of period `t`: no error, and the state in which the scheduler is
    consulted and the pilots are applied -/
theorem eventsStage_ok (hv : Valid cfg) {t : Nat} {c : Core} (hI : Inv cfg t c) :
    ∃ c1, eventsStage cfg c = (c1, none) ∧ c1.iter = t ∧ c1.invoked = c.invoked ∧
      HistOK cfg t [] c1.eventHist ∧ PendOK cfg t [] c1.pending ∧ OccOK cfg t [] c1.occ ∧ EvhOK c1 := by
  have hiter := hI.iter
  subst hiter
  unfold eventsStage popCurrent
  simp only
  have hmem : ∀ e, e ∈ sortByKey (c.pending.filter fun e => decide (e.ts ≤ (c.iter : Int))) ↔ Cur cfg (c.iter : Int) e := by
    intro e
    rw [mem_sortByKey, List.mem_filter, hI.pend_mem, cur_iff_expected_le]
    simp
  obtain ⟨c1, h1, h2, h3, h4⟩ := processAll_ok hv (c.iter : Int) _
    { c with pending := c.pending.filter fun e => !decide (e.ts ≤ (c.iter : Int)) }
    (nodup_sortByKey.2 (hI.pend_nodup.filter _)) (sortByKey_sorted _) (fun e he => (hmem e).1 he)
    ⟨hI.hist_nodup, fun e => by
        rw [hI.hist_mem e]
        constructor
        · exact Or.inl
        · rintro (h | ⟨hc, hn⟩)
          · exact h
          · exact absurd ((hmem e).2 hc) hn,
      hI.hist_sorted, fun h hh d hd => keyLe_of_ts_lt (by
        have := ((hI.hist_mem h).1 hh).ts_lt
        have := ((hmem d).1 hd).ts_eq
        omega)⟩
    ⟨hI.pend_nodup.filter _, fun e => by
        simp only [List.mem_filter, hI.pend_mem e, Bool.not_eq_true', decide_eq_false_iff_not, not_le]
        constructor
        · exact Or.inl
        · rintro (h | ⟨x, hx, rfl, hxa, hn⟩)
          · exact h
          · exact absurd ((hmem _).2 (Or.inl ⟨x, hx, rfl, hxa⟩)) hn⟩
    (fun st x => by
        rw [hI.occ st x]
        constructor
        · rintro ⟨hx, hs, h1, h2⟩
          exact ⟨hx, hs, Or.inl ⟨h1, h2, fun hd => (hmem _).2 (Or.inr (Or.inl ⟨x, hx, rfl, h1, hd⟩))⟩⟩
        · rintro ⟨hx, hs, ⟨h1, h2, _⟩ | ⟨h1, hn⟩⟩
          · exact ⟨hx, hs, h1, h2⟩
          · exact absurd ((hmem _).2 (Or.inl ⟨x, hx, rfl, h1⟩)) hn)
    hI.evh
  exact ⟨c1, h1, h2, h3, h4⟩

/-- the connection interval: in period `t`, after the events, station `st` holds session `x`
    iff `arrival ≤ t < departure` -/
theorem occ_after_events (hv : Valid cfg) {t : Nat} {occ : String → Option Session}
    (h : OccOK cfg t [] occ) (st : String) (x : Session) :
    occ st = some x ↔ x ∈ cfg.sessions ∧ x.station = st ∧ x.arrival ≤ t ∧ (t : Int) < x.departure := by
  rw [h st x]
  constructor
  · rintro ⟨hx, hs, ⟨h1, h2, h3⟩ | ⟨h1, _⟩⟩
    · refine ⟨hx, hs, by omega, ?_⟩
      rcases lt_or_eq_of_le h2 with h | h
      · exact h
      · exact absurd (h3 h.symm) (by simp)
    · have := hv.arr_lt_dep x hx
      exact ⟨hx, hs, by omega, by omega⟩
  · rintro ⟨hx, hs, h1, h2⟩
    refine ⟨hx, hs, ?_⟩
    rcases lt_or_eq_of_le h1 with h | h
    · exact Or.inl ⟨h, by omega, fun hd => by omega⟩
    · exact Or.inr ⟨h, by simp⟩

/-- one trip round the loop preserves the invariant and raises nothing -/
theorem body_ok (hv : Valid cfg) {sched apply : Core → Option Err} (hs : ∀ c, sched c = none)
    (ha : ∀ c, apply c = none) {t : Nat} {c : Core} (hI : Inv cfg t c) :
    ∃ c', body cfg sched apply c = (c', none) ∧ Inv cfg (t + 1) c' := by
  obtain ⟨c1, h1, hit, _, hH, hP, hO, hE⟩ := eventsStage_ok hv hI
  have key : ∀ c2 : Core, c2.iter = t + 1 → c2.pending = c1.pending → c2.occ = c1.occ →
      c2.resolve = false → c2.eventHist = c1.eventHist → c2.evHist = c1.evHist → Inv cfg (t + 1) c2 := by
    intro c2 e1 e2 e3 e4 e5 e6
    have hc : ((t + 1 : Nat) : Int) = (t : Int) + 1 := by push_cast; rfl
    refine ⟨e1, e2 ▸ hP.1, ?_, ?_, e4, e5 ▸ hH.1, ?_, e5 ▸ hH.2.2.1, ?_⟩
    · intro e
      rw [e2, hP.2 e, hc, expected_succ hv]
      simp
    · intro st x
      rw [e3, occ_after_events hv hO, hc]
      constructor
      · rintro ⟨a, b, c', d⟩; exact ⟨a, b, by omega, by omega⟩
      · rintro ⟨a, b, c', d⟩; exact ⟨a, b, by omega, by omega⟩
    · intro e
      rw [e5, hH.2.1 e, hc, done_succ hv]
      simp
    · unfold EvhOK at hE ⊢
      rw [e6, e5, hE]
  unfold body
  rw [h1]
  simp only
  by_cases hns : needsSched cfg.maxRecompute c1 = true
  · simp only [hns, if_true, hs, finish, ha]
    exact ⟨_, rfl, key _ (by simp [advance, markScheduled, markInvoked, hit]) rfl rfl rfl rfl rfl⟩
  · simp only [hns, finish, ha]
    refine ⟨_, rfl, key _ (by simp [advance, hit]) rfl rfl ?_ rfl rfl⟩
    simp only [needsSched, Bool.or_eq_true, not_or, Bool.not_eq_true] at hns
    simpa [advance] using hns.1

/-! ### the initial state -/

theorem init_inv (hv : Valid cfg) : Inv cfg 0 (init cfg) := by
  refine ⟨rfl, ?_, ?_, ?_, rfl, by simp [init], ?_, by simp [init], by simp [init, EvhOK]⟩
  · -- Nodup
    show (initPending cfg).Nodup
    unfold initPending
    refine List.nodup_append.2 ⟨?_, ?_, ?_⟩
    · refine (List.nodup_map_iff_inj_on ?_).2 ?_
      · exact (List.Nodup.of_map _ hv.ids_nodup)
      · intro x hx y hy h; exact plugEv_inj hv hx hy h
    · refine (List.nodup_map_iff_inj_on ?_).2 ?_
      · exact (List.Nodup.of_map _ hv.tags_nodup)
      · intro x hx y hy h; exact recEv_inj hv hx hy h
    · intro a ha b hb
      obtain ⟨x, _, rfl⟩ := List.mem_map.1 ha
      obtain ⟨r, _, rfl⟩ := List.mem_map.1 hb
      simp
  · intro e
    show e ∈ initPending cfg ↔ _
    unfold initPending Expected
    simp only [List.mem_append, List.mem_map, Nat.cast_zero]
    constructor
    · rintro (⟨x, hx, rfl⟩ | ⟨r, hr, rfl⟩)
      · exact Or.inl ⟨x, hx, rfl, hv.arr_nonneg x hx⟩
      · exact Or.inr (Or.inr ⟨r, hr, rfl, hv.rec_nonneg r hr⟩)
    · rintro (⟨x, hx, rfl, _⟩ | ⟨x, hx, rfl, h, _⟩ | ⟨r, hr, rfl, _⟩)
      · exact Or.inl ⟨x, hx, rfl⟩
      · have := hv.arr_nonneg x hx; omega
      · exact Or.inr ⟨r, hr, rfl⟩
  · intro st x
    simp only [init, Nat.cast_zero]
    constructor
    · intro h; exact absurd h (by simp)
    · rintro ⟨hx, _, h, _⟩
      have := hv.arr_nonneg x hx; omega
  · intro e
    simp only [init, List.not_mem_nil, false_iff, Nat.cast_zero]
    intro h
    have := h.ts_lt
    rcases h with ⟨x, hx, rfl, h⟩ | ⟨x, hx, rfl, h⟩ | ⟨r, hr, rfl, h⟩
    · have := hv.arr_nonneg x hx; omega
    · have := hv.arr_nonneg x hx; have := hv.arr_lt_dep x hx; omega
    · have := hv.rec_nonneg r hr; omega

/-! ### the horizon -/

/-- all timestamps at which something is unplugged or recomputed -/
def tsList (cfg : Cfg) : List Int := cfg.sessions.map (·.departure) ++ cfg.recomputes.map (·.1)

/-- the largest timestamp of any event of the run (−1 when there is no event at all) -/
def maxTs (cfg : Cfg) : Int := (tsList cfg).foldr max (-1)

/-- the iteration at which `run()` returns: one period after the last event -/
def horizon (cfg : Cfg) : Nat := (maxTs cfg + 1).toNat

theorem le_foldr_max {l : List Int} {a b : Int} (h : a ∈ l) : a ≤ l.foldr max b := by
  induction l with
  | nil => simp at h
  | cons x xs ih =>
    simp only [List.foldr_cons]
    rcases List.mem_cons.1 h with rfl | h
    · exact le_max_left _ _
    · exact le_trans (ih h) (le_max_right _ _)

theorem foldr_max_mem (l : List Int) (b : Int) : l.foldr max b = b ∨ l.foldr max b ∈ l := by
  induction l with
  | nil => simp
  | cons x xs ih =>
    simp only [List.foldr_cons]
    rcases max_choice x (xs.foldr max b) with h | h
    · exact Or.inr (by rw [h]; simp)
    · rw [h]; rcases ih with h' | h'
      · exact Or.inl h'
      · exact Or.inr (List.mem_cons_of_mem _ h')

theorem base_le_foldr_max (l : List Int) (b : Int) : b ≤ l.foldr max b := by
  induction l with
  | nil => simp
  | cons x xs ih => exact le_trans ih (le_max_right _ _)

theorem neg_one_le_maxTs (cfg : Cfg) : -1 ≤ maxTs cfg := base_le_foldr_max _ _

theorem dep_le_maxTs {x : Session} (hx : x ∈ cfg.sessions) : x.departure ≤ maxTs cfg :=
  le_foldr_max (List.mem_append_left _ (List.mem_map.2 ⟨x, hx, rfl⟩))

theorem rec_le_maxTs {r : Int × String} (hr : r ∈ cfg.recomputes) : r.1 ≤ maxTs cfg :=
  le_foldr_max (List.mem_append_right _ (List.mem_map.2 ⟨r, hr, rfl⟩))

theorem expected_le_maxTs (hv : Valid cfg) {t : Int} {e : Event} (h : Expected cfg t e) : t ≤ maxTs cfg := by
  rcases h with ⟨x, hx, rfl, h⟩ | ⟨x, hx, rfl, _, h⟩ | ⟨r, hr, rfl, h⟩
  · have := hv.arr_lt_dep x hx; have := dep_le_maxTs hx; omega
  · have := dep_le_maxTs hx; omega
  · have := rec_le_maxTs hr; omega

theorem exists_expected {t : Int} (h0 : 0 ≤ t) (h : t ≤ maxTs cfg) : ∃ e, Expected cfg t e := by
  rcases foldr_max_mem (tsList cfg) (-1) with hm | hm
  · unfold maxTs at h; omega
  · rcases List.mem_append.1 hm with hm | hm
    · obtain ⟨x, hx, hxe⟩ := List.mem_map.1 hm
      have hd : t ≤ x.departure := by rw [hxe]; exact h
      by_cases ha : x.arrival < t
      · exact ⟨_, Or.inr (Or.inl ⟨x, hx, rfl, ha, hd⟩)⟩
      · exact ⟨_, Or.inl ⟨x, hx, rfl, by omega⟩⟩
    · obtain ⟨r, hr, hre⟩ := List.mem_map.1 hm
      exact ⟨_, Or.inr (Or.inr ⟨r, hr, rfl, by rw [hre]; exact h⟩)⟩

/-- at a loop head the queue is non-empty exactly up to the last event -/
theorem pending_ne_nil_iff (hv : Valid cfg) {t : Nat} {c : Core} (hI : Inv cfg t c) :
    c.pending ≠ [] ↔ t < horizon cfg := by
  have hm := neg_one_le_maxTs cfg
  unfold horizon
  constructor
  · intro h
    obtain ⟨e, he⟩ := List.exists_mem_of_ne_nil _ h
    have := expected_le_maxTs hv ((hI.pend_mem e).1 he)
    omega
  · intro h hnil
    obtain ⟨e, he⟩ := exists_expected (cfg := cfg) (t := t) (by omega) (by omega)
    have := (hI.pend_mem e).2 he
    rw [hnil] at this
    simp at this

/-! ### the whole run -/

theorem run_spec (hv : Valid cfg) {sched apply : Core → Option Err} (hs : ∀ c, sched c = none)
    (ha : ∀ c, apply c = none) : ∀ (n t : Nat) (c : Core), Inv cfg t c → t ≤ horizon cfg →
    ∃ c', run cfg sched apply n c = (c', none) ∧ Inv cfg (min (t + n) (horizon cfg)) c' := by
  intro n
  induction n with
  | zero =>
    intro t c hI ht
    exact ⟨c, rfl, by simpa [Nat.min_eq_left ht] using hI⟩
  | succ n ih =>
    intro t c hI ht
    rcases Nat.lt_or_ge t (horizon cfg) with hlt | hge
    · have hp := (pending_ne_nil_iff hv hI).2 hlt
      have hg : guard c = true := by
        unfold guard
        cases hpe : c.pending with
        | nil => exact absurd hpe hp
        | cons a l => simp
      obtain ⟨c1, hb, hI1⟩ := body_ok hv hs ha hI
      obtain ⟨c', hr, hI'⟩ := ih (t + 1) c1 hI1 hlt
      refine ⟨c', ?_, by rwa [show t + (n + 1) = t + 1 + n by omega]⟩
      simp only [run, hg, if_true, hb]
      exact hr
    · have hte : t = horizon cfg := le_antisymm ht hge
      have hp : c.pending = [] := by
        by_contra h
        exact absurd ((pending_ne_nil_iff hv hI).1 h) (by omega)
      have hg : guard c = false := by simp [guard, hp, hI.resolve]
      refine ⟨c, by simp [run, hg], ?_⟩
      rw [Nat.min_eq_right (by omega)]
      exact hte ▸ hI

end
end Acn.EventCore

namespace Acn.EventCore

theorem le_foldl_max : ∀ (l : List Int) (b a : Int), (a ∈ l ∨ a ≤ b) → a ≤ l.foldl max b := by
  intro l
  induction l with
  | nil =>
    intro b a h
    rcases h with h | h
    · simp at h
    · simpa using h
  | cons x xs ih =>
    intro b a h
    simp only [List.foldl_cons]
    apply ih
    rcases h with h | h
    · rcases List.mem_cons.1 h with rfl | h
      · exact Or.inr (le_max_right _ _)
      · exact Or.inl h
    · exact Or.inr (le_trans h (le_max_left _ _))

/-- the fuel the drivers use is enough for the whole run -/
theorem horizon_le_fuelFor (cfg : Cfg) : horizon cfg ≤ fuelFor cfg := by
  unfold horizon fuelFor
  simp only
  have key : maxTs cfg ≤ ((cfg.sessions.map fun x => max x.arrival x.departure) ++
      cfg.recomputes.map (·.1)).foldl max 0 := by
    rcases foldr_max_mem (tsList cfg) (-1) with h | h
    · unfold maxTs; rw [h]
      exact le_trans (by decide) (le_foldl_max _ 0 0 (Or.inr le_rfl))
    · unfold maxTs
      rcases List.mem_append.1 h with h' | h'
      · obtain ⟨x, hx, hxe⟩ := List.mem_map.1 h'
        rw [← hxe]
        exact le_trans (le_max_right x.arrival x.departure)
          (le_foldl_max _ 0 _ (Or.inl (List.mem_append_left _ (List.mem_map.2 ⟨x, hx, rfl⟩))))
      · exact le_foldl_max _ 0 _ (Or.inl (List.mem_append_right _ h'))
  omega

end Acn.EventCore
