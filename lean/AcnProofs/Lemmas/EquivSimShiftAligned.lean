/-
  Helper lemmas for C10 (Sim level, shift, `max_recompute = m` WITHOUT an event in period 0): when
  `m ∣ k` (or `m = 0`) the shifted run consults the scheduler in period `k` exactly as the original one
  does in period 0 (`_last_schedule_update is None` there), and that invocation erases the only
  difference the idle prefix left behind (`_last_schedule_update`).
-/
import AcnProofs.Lemmas.EquivSimShiftCap
import AcnProofs.Lemmas.EquivShiftAligned

set_option linter.unusedSectionVars false
set_option linter.unusedSimpArgs false

namespace Acn.SimShift
open Acn Acn.Sim Acn.EventCore Acn.Evse Acn.SimEquiv Acn.Ledger Acn.Pilots

variable {K : Type} [Field K] [LinearOrder K] [IsStrictOrderedRing K] [HasExp K]

/-- if the scheduler is consulted in this period both with `_last_schedule_update = L` and with the
    real value, a period that completes gives the same state -/
theorem body_setLU_of_needs (cfg : Cfg K) (sched : View K → Except EventCore.Err (Schedule K)) (L : Option Int)
    {s r : State K} (hb : Sim.body cfg sched s = (r, none))
    (hn1 : needsSched cfg.maxRecompute s.core = true)
    (hn2 : needsSched cfg.maxRecompute (setLU L s).core = true) :
    Sim.body cfg sched (setLU L s) = (r, none) := by
  obtain ⟨L', he⟩ := eventsStage_setLU cfg L s
  have hc1 := Sim.eventsStage_core cfg s
  have hc2 := Sim.eventsStage_core cfg (setLU L s)
  rw [he] at hc2
  unfold Sim.body at hb ⊢
  rw [he]
  obtain ⟨s1, e1, hev⟩ : ∃ s1 e1, Sim.eventsStage cfg s = (s1, e1) := ⟨_, _, rfl⟩
  rw [hev] at hb hc1 hc2 ⊢
  simp only at hc1 hc2
  cases e1 with
  | some e => simp at hb
  | none =>
    simp only at hb ⊢
    have hm1 : needsSched cfg.maxRecompute s1.core = true :=
      needsSched_after_events cfg.core cfg.maxRecompute hn1 hc1.symm
    have hm2 : needsSched cfg.maxRecompute (setLU L' s1).core = true :=
      needsSched_after_events cfg.core cfg.maxRecompute hn2 hc2.symm
    simp only [hm1, hm2, if_true] at hb ⊢
    have hss : schedStage cfg sched { setLU L' s1 with core := markInvoked (setLU L' s1).core } =
        schedStage cfg sched { s1 with core := markInvoked s1.core } := rfl
    rw [hss]
    cases hsch : schedStage cfg sched { s1 with core := markInvoked s1.core } with
    | error e => rw [hsch] at hb; simp at hb
    | ok m =>
      rw [hsch] at hb
      simp only at hb ⊢
      exact hb

section
variable {k : Nat} {cfg : Cfg K}

/-- the core of the state after the idle prefix is the `k`-fold idle step of the event core -/
theorem idle_prefix_coreEq {sched' : View K → Except EventCore.Err (Schedule K)} {sk : State K}
    (h : ShiftOK cfg)
    (hrun : ∀ n, Sim.run (shiftCfgS k cfg) sched' (k + n) (Sim.init (shiftCfgS k cfg)) =
      Sim.run (shiftCfgS k cfg) sched' n sk) :
    sk.core = idleIter cfg.maxRecompute k (EventCore.init (shiftCfg k cfg.core)) := by
  have h0 : Sim.run (shiftCfgS k cfg) sched' k (Sim.init (shiftCfgS k cfg)) = (sk, none) := by
    have := hrun 0
    simpa [Sim.run] using this
  have hc := Sim.run_core (shiftCfgS k cfg) sched' k (Sim.init (shiftCfgS k cfg)) (by rw [h0])
  rw [h0, Sim.init_core, shiftCfgS_core] at hc
  have hP : (EventCore.init (shiftCfg k cfg.core)).pending = (initPending cfg.core).map (shiftEv k) :=
    initPending_shiftc k cfg.core
  have hi := idle_run_gen (shiftCfg k cfg.core) (sched := noFail) (apply := noFail) k
    (fun _ _ _ _ => ⟨rfl, rfl⟩) k 0 (EventCore.init (shiftCfg k cfg.core)) rfl
    (by rw [hP]; simpa using h.nonempty) (by simp [EventCore.init])
    (by
      intro e he
      rw [hP] at he
      obtain ⟨d, hd, rfl⟩ := List.mem_map.1 he
      have := h.nonneg d hd
      simp only [EventCore.init, shiftEv]
      push_cast
      omega)
  rw [Nat.add_zero, hc] at hi
  simp only [EventCore.run, Prod.mk.injEq, and_true] at hi
  exact hi

/-- CAPSTONE helper (shift, `max_recompute = m`, `m = 0 ∨ m ∣ k`, NO event needed in period 0) -/
theorem run_shift_aligned' (h : ShiftOK cfg)
    {sched sched' : View K → Except EventCore.Err (Schedule K)} (hs : SchedShiftInvariant k sched sched')
    (hsi : SchedIdle k sched') {m : Nat} (hm : cfg.maxRecompute = some m) (hdiv : m = 0 ∨ m ∣ k)
    (n : Nat) (r : State K) (hr : Sim.run cfg sched (n + 1) (Sim.init cfg) = (r, none)) :
    ∃ r' V, Sim.run (shiftCfgS k cfg) sched' (k + (n + 1)) (Sim.init (shiftCfgS k cfg)) = (r', none) ∧
      ShEquiv k V (List.replicate k (noneRow cfg)) r r' := by
  obtain ⟨sk, hrun, he, _⟩ := idle_prefix (k := k) (sched' := sched') h (fun _ => hsi)
  have hp0 : PendNonneg (Sim.init cfg).core := fun e he' => h.nonneg e he'
  obtain ⟨h1, h2⟩ := run_shift_sim (cfg := cfg) h.dep hs (n + 1) he hp0
  rw [hr] at h1 h2
  have hsk : setLU sk.core.lastUpd (setLU none sk) = sk := rfl
  have hg0 : guard (Sim.init cfg).core = true := by
    unfold EventCore.guard
    have : (Sim.init cfg).core.pending = EventCore.initPending cfg.core := rfl
    rw [this]
    cases hP : EventCore.initPending cfg.core with
    | nil => exact absurd hP h.nonempty
    | cons a l => simp
  have hgk : guard (setLU none sk).core = true := by rw [he.core, guard_sh]; exact hg0
  have hgk' : guard sk.core = true := hgk
  obtain ⟨b1, b2⟩ := body_shift_sim (cfg := cfg) h.dep hs he hp0
  have hbody0 : (Sim.body cfg sched (Sim.init cfg)).2 = none := by
    have := hr
    simp only [Sim.run, hg0, if_true] at this
    obtain ⟨s1, e1', hb⟩ : ∃ s1 e1', Sim.body cfg sched (Sim.init cfg) = (s1, e1') := ⟨_, _, rfl⟩
    rw [hb] at this ⊢
    cases e1' with
    | none => rfl
    | some x => simp at this
  rw [hbody0] at b1
  obtain ⟨r1', eb, hb'⟩ : ∃ r1' eb, Sim.body (shiftCfgS k cfg) sched' (setLU none sk) = (r1', eb) := ⟨_, _, rfl⟩
  rw [hb'] at b1
  simp only at b1
  subst b1
  -- both `_last_schedule_update = None` and the value left by the idle prefix make the scheduler run
  have hmr' : (shiftCfgS k cfg).maxRecompute = some m := hm
  have hn1 : needsSched (shiftCfgS k cfg).maxRecompute (setLU none sk).core = true := by
    rw [hmr']
    simp [needsSched, setLU]
  have hn2 : needsSched (shiftCfgS k cfg).maxRecompute (setLU sk.core.lastUpd (setLU none sk)).core = true := by
    rw [hsk, hmr', idle_prefix_coreEq h hrun]
    have := (idleIter_LU' k cfg.core).2 m hm hdiv
    exact this
  have hbk : Sim.body (shiftCfgS k cfg) sched' sk = (r1', none) := by
    have := body_setLU_of_needs (shiftCfgS k cfg) sched' sk.core.lastUpd hb' hn1 hn2
    rw [hsk] at this
    exact this
  have hruneq : Sim.run (shiftCfgS k cfg) sched' (n + 1) sk =
      Sim.run (shiftCfgS k cfg) sched' (n + 1) (setLU none sk) := by
    simp only [Sim.run, hgk, hgk', if_true, hbk, hb']
  refine ⟨(Sim.run (shiftCfgS k cfg) sched' (n + 1) (setLU none sk)).1, sk.core.invoked, ?_, h2⟩
  rw [hrun (n + 1), hruneq]
  exact Prod.ext rfl h1

end
end Acn.SimShift
