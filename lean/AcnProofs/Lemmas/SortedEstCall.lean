/-
  The whole `schedule()` call with an ARBITRARY estimator (`Sorted.scheduleCallEst`): order, grants,
  feasibility, length — the statements of `Lemmas/SortedLink.lean` / `SortedCall.lean` with
  `preprocessEst` in place of the rampdown `preprocess`.
-/
import AcnProofs.Lemmas.SortedEst
import AcnProofs.Lemmas.SortedCall

set_option linter.unusedSectionVars false

namespace Acn.Sorted
open Acn

section
variable {K : Type} [Field K] [LinearOrder K] [IsStrictOrderedRing K]

theorem scheduleCallEst_order [HasCeilNat K] (feas : List K → Bool) (cfg : Config K) (infra : Infra K)
    (period : K) (time : Int) (est : List (Session K) → Session K → Option K)
    (raw l : List (Session K)) (hres : resolve infra raw = .ok l) :
    (scheduleCallEst feas cfg infra period time est raw).order =
      sortSessions cfg.sort infra period time (preprocessEst feas cfg infra period est l) ∧
    (scheduleCallEst feas cfg infra period time est raw).estIn = estInput infra period l := by
  unfold scheduleCallEst
  simp only [hres]
  cases cfg.algo with
  | greedy => exact ⟨rfl, rfl⟩
  | roundRobin =>
    simp only
    split <;> exact ⟨rfl, rfl⟩

theorem scheduleCallEst_resolve_error [HasCeilNat K] (feas : List K → Bool) (cfg : Config K)
    (infra : Infra K) (period : K) (time : Int) (est : List (Session K) → Session K → Option K)
    (raw : List (Session K)) (e : Err) (hres : resolve infra raw = .error e) :
    (scheduleCallEst feas cfg infra period time est raw).result = .error e := by
  unfold scheduleCallEst
  simp only [hres]

/-- both algorithms behind `scheduleCallEst`: every queued session's entry obeys `GrantOk`, every
    other station's entry is 0 -/
theorem scheduleCallEst_grants [HasCeilNat K] (feas : List K → Bool) (cfg : Config K) (heps : 0 ≤ cfg.eps)
    (infra : Infra K) (period : K) (time : Int) (est : List (Session K) → Session K → Option K)
    (raw l : List (Session K)) (sch : List K)
    (hres : resolve infra raw = .ok l) (hlen : infra.allow.length = infra.ids.length)
    (hnd : ((scheduleCallEst feas cfg infra period time est raw).order.map (·.idx)).Nodup)
    (hidx : ∀ s ∈ (scheduleCallEst feas cfg infra period time est raw).order, s.idx < infra.ids.length)
    (h : (scheduleCallEst feas cfg infra period time est raw).result = .ok sch) :
    (∀ s ∈ (scheduleCallEst feas cfg infra period time est raw).order,
      ∃ r, sch[s.idx]? = some r ∧ GrantOk infra period s r) ∧
    (∀ j, j < infra.ids.length →
      (∀ t ∈ (scheduleCallEst feas cfg infra period time est raw).order, t.idx ≠ j) → sch[j]? = some 0) := by
  unfold scheduleCallEst at h hnd hidx ⊢
  simp only [hres] at h hnd hidx ⊢
  cases hal : cfg.algo with
  | greedy =>
    simp only [hal] at h hnd hidx ⊢
    exact sortingAlgorithm_grants feas cfg.fuel cfg.eps heps infra period _ sch hnd hidx h
  | roundRobin =>
    simp only [hal] at h hnd hidx ⊢
    cases hrr : roundRobin feas (rrLevels infra period cfg.inc) infra
        (sortSessions cfg.sort infra period time (preprocessEst feas cfg infra period est l)) with
    | error e => simp only [hrr] at h; cases h
    | ok st =>
      simp only [hrr] at h hnd hidx ⊢
      cases h
      exact roundRobin_grants feas infra period cfg.inc _ st hnd hidx hlen hrr

/-- `schedule_feasible` for ANY estimator -/
theorem scheduleCallEst_feasible [HasCeilNat K] (feas : List K → Bool) (cfg : Config K) (infra : Infra K)
    (period : K) (time : Int) (est : List (Session K) → Session K → Option K)
    (raw l : List (Session K)) (sch : List K)
    (hres : resolve infra raw = .ok l)
    (hinf : InfraOk infra) (hlen : infra.allow.length = infra.ids.length)
    (hmin : ∀ s ∈ l, s.minRate ≤ 0)
    (hnd : ((scheduleCallEst feas cfg infra period time est raw).order.map (·.idx)).Nodup)
    (hidx : ∀ s ∈ (scheduleCallEst feas cfg infra period time est raw).order, s.idx < infra.ids.length)
    (h : (scheduleCallEst feas cfg infra period time est raw).result = .ok sch) :
    feas sch = true := by
  unfold scheduleCallEst at h hnd hidx
  simp only [hres] at h hnd hidx
  have hok : ∀ s ∈ sortSessions cfg.sort infra period time (preprocessEst feas cfg infra period est l),
      LbOk infra period s := by
    intro s hs
    unfold sortSessions at hs
    rw [mem_sortBy] at hs
    exact preprocessEst_lbOk feas cfg infra period est l hinf hmin s hs
  cases hal : cfg.algo with
  | greedy =>
    simp only [hal] at h hnd hidx
    exact sortingAlgorithm_feasible feas cfg.fuel cfg.eps infra period _ sch hnd hok h
  | roundRobin =>
    simp only [hal] at h hnd hidx
    cases hrr : roundRobin feas (rrLevels infra period cfg.inc) infra
        (sortSessions cfg.sort infra period time (preprocessEst feas cfg infra period est l)) with
    | error e => simp only [hrr] at h; cases h
    | ok st =>
      simp only [hrr] at h hidx
      cases h
      exact (roundRobin_spec feas _ infra _ st hrr hidx hlen).1

theorem scheduleCallEst_length [HasCeilNat K] (feas : List K → Bool) (cfg : Config K) (infra : Infra K)
    (period : K) (time : Int) (est : List (Session K) → Session K → Option K)
    (raw l : List (Session K)) (sch : List K)
    (hres : resolve infra raw = .ok l) (hlen : infra.allow.length = infra.ids.length)
    (hnd : ((scheduleCallEst feas cfg infra period time est raw).order.map (·.idx)).Nodup)
    (hidx : ∀ s ∈ (scheduleCallEst feas cfg infra period time est raw).order, s.idx < infra.ids.length)
    (h : (scheduleCallEst feas cfg infra period time est raw).result = .ok sch) :
    sch.length = infra.ids.length := by
  unfold scheduleCallEst at h hnd hidx
  simp only [hres] at h hnd hidx
  cases hal : cfg.algo with
  | greedy =>
    simp only [hal] at h hnd hidx
    unfold sortingAlgorithm at h
    simp only at h
    split at h
    · cases h
    · obtain ⟨hl, _, _⟩ := greedyLoop_values feas cfg.fuel cfg.eps infra period _ _ sch hnd h
      rw [hl]; unfold initSchedule; rw [fold_lb_length]; simp
  | roundRobin =>
    simp only [hal] at h hnd hidx
    cases hrr : roundRobin feas (rrLevels infra period cfg.inc) infra
        (sortSessions cfg.sort infra period time (preprocessEst feas cfg infra period est l)) with
    | error e => simp only [hrr] at h; cases h
    | ok st =>
      simp only [hrr] at h hidx
      cases h
      exact (roundRobin_spec feas _ infra _ st hrr hidx hlen).2.1

/-- the side conditions on the queue follow from the resolved session list: distinct stations stay
    distinct, indices stay valid, every queued session derives from a resolved one -/
theorem scheduleCallEst_queue [HasCeilNat K] (feas : List K → Bool) (cfg : Config K) (infra : Infra K)
    (period : K) (time : Int) (est : List (Session K) → Session K → Option K)
    (raw l : List (Session K)) (hres : resolve infra raw = .ok l) (hndl : (l.map (·.idx)).Nodup) :
    ((scheduleCallEst feas cfg infra period time est raw).order.map (·.idx)).Nodup ∧
    (∀ s ∈ (scheduleCallEst feas cfg infra period time est raw).order, s.idx < infra.ids.length) ∧
    (∀ s ∈ (scheduleCallEst feas cfg infra period time est raw).order,
      s ∈ preprocessEst feas cfg infra period est l ∧ ∃ s0 ∈ l, DerivedW infra period s0 s) := by
  obtain ⟨hord, _⟩ := scheduleCallEst_order feas cfg infra period time est raw l hres
  have hF := resolve_spec infra raw l hres
  have hmem : ∀ s ∈ (scheduleCallEst feas cfg infra period time est raw).order,
      s ∈ preprocessEst feas cfg infra period est l ∧ ∃ s0 ∈ l, DerivedW infra period s0 s := by
    intro s hs
    rw [hord] at hs
    unfold sortSessions at hs
    rw [mem_sortBy] at hs
    exact ⟨hs, preprocessEst_derivedW feas cfg infra period est l s hs⟩
  refine ⟨?_, ?_, hmem⟩
  · rw [hord]; exact order_idx_nodup_est feas cfg infra period time est l hndl
  · intro s hs
    obtain ⟨_, s0, hs0, hd⟩ := hmem s hs
    obtain ⟨_, _, i, hi, _, rfl⟩ := forall₂_mem_right hF s0 hs0
    rw [hd.1]; exact hi

/-- a preprocessed session's bounds never exceed its EVSE's maximum pilot, whatever the estimator
    answered: `enforce_pilot_limit` comes first, the estimator can only lower `max_rates`, and the
    uninterrupted-charging minimum is the EVSE's own minimum pilot -/
theorem derivedW_le_maxPilot (infra : Infra K) (period : K) (s0 s : Session K)
    (hd : DerivedW infra period s0 s) (hmin0 : s0.minRate ≤ 0)
    (h0 : 0 ≤ infra.maxPilot.getD s0.idx 0)
    (hmm : infra.minPilot.getD s0.idx 0 ≤ infra.maxPilot.getD s0.idx 0) :
    lbOf s ≤ infra.maxPilot.getD s.idx 0 ∧ s.maxRate ≤ infra.maxPilot.getD s.idx 0 := by
  obtain ⟨hidx, _, _, _, hc⟩ := hd
  rw [hidx]
  have hm0 : s0.minRate ≤ infra.maxPilot.getD s0.idx 0 := le_trans hmin0 h0
  unfold lbOf
  simp only [pyMax_eq_max]
  rcases hc with ⟨h1, h2, _⟩ | ⟨h1, h2⟩ | ⟨_, h1, _, h3⟩
  · rw [h1]
    exact ⟨max_le h0 hm0, le_trans h2 (max_le (min_le_right _ _) hm0)⟩
  · rw [h1, h2]; exact ⟨max_le h0 h0, h0⟩
  · have hs : s.minRate ≤ infra.maxPilot.getD s0.idx 0 := by rw [h1]; exact max_le hmm hm0
    exact ⟨max_le h0 hs, le_trans h3 (max_le (min_le_right _ _) hs)⟩

end
end Acn.Sorted
