/-
  Helper lemmas for C10 (Sim level, sessions 1/2): two simulator states that differ only by the
  listing order of the EV records and of the queue.  `Mid s s'`: same occupancy, iteration, pilot /
  rate matrices, peak, draw counter, occupancy log; `pending` and `evs` equal up to order (EV ids
  pairwise different); `evsePilot` only of equal length — `update_pilots` overwrites every entry
  from the pilot column (`updatePilots_evse`), so it is equal again at every loop head.
-/
import AcnProofs.Lemmas.EquivSimPilots
import AcnProofs.Lemmas.EquivEvents
import AcnProofs.Lemmas.EventCoreSim
import AcnProofs.Lemmas.EquivSimShift

set_option linter.unusedSectionVars false
set_option linter.unusedSimpArgs false

namespace Acn.SimPerm
open Acn Acn.Sim Acn.EventCore Acn.Evse Acn.SimEquiv Acn.Ledger Acn.Pilots

/-! ### `get_last_timestamp` does not depend on the order of the queue -/

theorem foldl_max_ge (es : List Event) (a : Int) : ∀ d ∈ es, d.ts ≤ es.foldl (fun m d => max m d.ts) a := by
  induction es generalizing a with
  | nil => intro d hd; simp at hd
  | cons e es ih =>
    intro d hd
    simp only [List.foldl_cons]
    rcases List.mem_cons.1 hd with rfl | h
    · exact le_trans (le_max_right a d.ts) (Acn.SimShift.le_foldl_max es _)
    · exact ih _ d h

theorem foldl_max_mem (es : List Event) (a : Int) :
    es.foldl (fun m d => max m d.ts) a = a ∨ ∃ d ∈ es, es.foldl (fun m d => max m d.ts) a = d.ts := by
  induction es generalizing a with
  | nil => exact Or.inl rfl
  | cons e es ih =>
    simp only [List.foldl_cons]
    rcases ih (max a e.ts) with h | ⟨d, hd, h⟩
    · rcases max_choice a e.ts with h2 | h2
      · exact Or.inl (by rw [h, h2])
      · exact Or.inr ⟨e, List.mem_cons_self, by rw [h, h2]⟩
    · exact Or.inr ⟨d, List.mem_cons_of_mem _ hd, h⟩

theorem lastTs_spec {p : List Event} {l : Int} (h : lastTs p = some l) :
    (∃ d ∈ p, d.ts = l) ∧ ∀ d ∈ p, d.ts ≤ l := by
  cases p with
  | nil => simp [lastTs] at h
  | cons e es =>
    simp only [lastTs, Option.some.injEq] at h
    subst h
    constructor
    · rcases foldl_max_mem es e.ts with h | ⟨d, hd, h⟩
      · exact ⟨e, List.mem_cons_self, h.symm⟩
      · exact ⟨d, List.mem_cons_of_mem _ hd, h.symm⟩
    · intro d hd
      rcases List.mem_cons.1 hd with rfl | h
      · exact Acn.SimShift.le_foldl_max es _
      · exact foldl_max_ge es _ d h

theorem lastTs_perm {p p' : List Event} (h : p'.Perm p) : lastTs p' = lastTs p := by
  cases h1 : lastTs p with
  | none =>
    cases p with
    | nil => rw [h.eq_nil]; rfl
    | cons e es => simp [lastTs] at h1
  | some l =>
    cases h2 : lastTs p' with
    | none =>
      cases p' with
      | nil => rw [h.symm.eq_nil] at h1; simp [lastTs] at h1
      | cons e es => simp [lastTs] at h2
    | some l' =>
      obtain ⟨⟨d, hd, hdl⟩, hub⟩ := lastTs_spec h1
      obtain ⟨⟨d', hd', hdl'⟩, hub'⟩ := lastTs_spec h2
      have a1 : l ≤ l' := hdl ▸ hub' d (h.mem_iff.2 hd)
      have a2 : l' ≤ l := hdl' ▸ hub d' (h.mem_iff.1 hd')
      rw [le_antisymm a1 a2]

variable {K : Type} [Field K] [LinearOrder K] [IsStrictOrderedRing K] [HasExp K]

/-! ### EV records up to listing order -/

structure EvsPerm (evs evs' : List (Ev K)) : Prop where
  perm : evs'.Perm evs
  nodup : (evs.map (·.session)).Nodup

theorem evIn_perm {evs evs' : List (Ev K)} (h : EvsPerm evs evs') (id : String) : evIn evs' id = evIn evs id := by
  unfold evIn
  cases h1 : evs.find? (fun e => e.session == id) with
  | none =>
    rw [List.find?_eq_none] at h1 ⊢
    intro x hx
    exact h1 x (h.perm.mem_iff.1 hx)
  | some e =>
    have he : e ∈ evs := List.mem_of_find?_eq_some h1
    have hid : e.session = id := by simpa using List.find?_some h1
    cases h2 : evs'.find? (fun e => e.session == id) with
    | none =>
      rw [List.find?_eq_none] at h2
      exact absurd (by simpa using hid) (h2 e (h.perm.mem_iff.2 he))
    | some e2 =>
      have he2 : e2 ∈ evs := h.perm.mem_iff.1 (List.mem_of_find?_eq_some h2)
      have hid2 : e2.session = id := by simpa using List.find?_some h2
      rw [List.inj_on_of_nodup_map h.nodup he2 he (hid2.trans hid.symm)]

theorem EvsPerm.replace {evs evs' : List (Ev K)} (h : EvsPerm evs evs') (e : Ev K) :
    EvsPerm (replaceEv evs e) (replaceEv evs' e) :=
  ⟨h.perm.map _, by rw [replaceEv_sessions]; exact h.nodup⟩

structure Mid (s s' : State K) : Prop where
  occ : s'.core.occ = s.core.occ
  iter : s'.core.iter = s.core.iter
  pend : s'.core.pending.Perm s.core.pending
  pilots : s'.pilots = s.pilots
  rates : s'.rates = s.rates
  peak : s'.peak = s.peak
  evs : EvsPerm s.evs s'.evs
  evseLen : s'.evsePilot.length = s.evsePilot.length
  noiseIdx : s'.noiseIdx = s.noiseIdx
  occLog : s'.occLog = s.occLog

section
variable {cfg : Cfg K}

theorem occupantEv_mid {s s' : State K} (h : Mid s s') (st : String) : occupantEv s' st = occupantEv s st := by
  rw [occupantEv_eq, occupantEv_eq, h.occ]
  cases s.core.occ st with
  | none => rfl
  | some x => exact evIn_perm h.evs x.id

theorem activeEvs_mid {s s' : State K} (h : Mid s s') : activeEvs cfg s' = activeEvs cfg s := by
  unfold activeEvs
  apply List.filterMap_congr
  intro st _
  rw [occupantEv_mid h]

theorem lastApplied_mid {s s' : State K} (h : Mid s s') : Sim.lastApplied cfg s' = Sim.lastApplied cfg s := by
  unfold Sim.lastApplied
  rw [h.iter, activeEvs_mid h, h.pilots]

/-- the scheduler does not read `EVSE.current_pilot` -/
def SchedIgnoresEvsePilot (sched : View K → Except EventCore.Err (Schedule K)) : Prop :=
  ∀ (v : View K) (l : List K), sched { v with evsePilot := l } = sched v

theorem view_mid {s s' : State K} (h : Mid s s') : view cfg s' = { view cfg s with evsePilot := s'.evsePilot } := by
  unfold view
  rw [h.iter, activeEvs_mid h, lastApplied_mid h, h.peak, h.occ]

theorem schedStage_mid {sched : View K → Except EventCore.Err (Schedule K)} (hsch : SchedIgnoresEvsePilot sched)
    {s s' : State K} (h : Mid s s') : schedStage cfg sched s' = schedStage cfg sched s := by
  unfold schedStage
  rw [activeEvs_mid h, view_mid h, hsch, h.pilots, h.iter, lastTs_perm h.pend]

/-! ### `update_pilots` -/

theorem eff_mid {s s' : State K} (h : Mid s s') (i : Nat) (p : K) (u : Option (Ev K × Bool)) :
    Mid (eff s i p u) (eff s' i p u) := by
  refine ⟨h.occ, h.iter, h.pend, h.pilots, h.rates, h.peak, ?_, ?_, ?_, h.occLog⟩
  · cases u with
    | none => exact h.evs
    | some q => obtain ⟨e', b⟩ := q; exact h.evs.replace e'
  · simp [eff, h.evseLen]
  · simp only [eff, h.noiseIdx]

theorem setPilotAt_mid {s s' : State K} (h : Mid s s') (i : Nat) (st : Station K) :
    (setPilotAt cfg s' i st).2 = (setPilotAt cfg s i st).2 ∧ Mid (setPilotAt cfg s i st).1 (setPilotAt cfg s' i st).1 := by
  rw [setPilotAt_plan, setPilotAt_plan, h.pilots, h.iter, occupantEv_mid h, h.noiseIdx]
  cases plan cfg st (s.pilots.get i s.core.iter) (occupantEv s st.id) (noiseAt cfg s.noiseIdx) with
  | error e => exact ⟨rfl, h⟩
  | ok u => exact ⟨rfl, eff_mid h i _ u⟩

theorem updatePilotsFrom_mid : ∀ (sts : List (Station K)) (i : Nat) {s s' : State K}, Mid s s' →
    (updatePilotsFrom cfg i sts s').2 = (updatePilotsFrom cfg i sts s).2 ∧
    Mid (updatePilotsFrom cfg i sts s).1 (updatePilotsFrom cfg i sts s').1 := by
  intro sts
  induction sts with
  | nil => intro i s s' h; exact ⟨rfl, h⟩
  | cons st rest ih =>
    intro i s s' h
    obtain ⟨h1, h2⟩ := setPilotAt_mid (cfg := cfg) h i st
    simp only [updatePilotsFrom]
    obtain ⟨s2, e2, hst⟩ : ∃ s2 e2, setPilotAt cfg s i st = (s2, e2) := ⟨_, _, rfl⟩
    obtain ⟨s2', e2', hst'⟩ : ∃ s2' e2', setPilotAt cfg s' i st = (s2', e2') := ⟨_, _, rfl⟩
    rw [hst, hst'] at h1 h2
    rw [hst, hst']
    simp only at h1 h2
    subst h1
    cases e2' with
    | some x => exact ⟨rfl, h2⟩
    | none => exact ih (i + 1) h2

/-- a successful station loop overwrites `EVSE.current_pilot` of every station it visits with the
    pilot column; entries before the first visited station are kept -/
theorem updatePilotsFrom_evse : ∀ (sts : List (Station K)) (i : Nat) (s r : State K),
    updatePilotsFrom cfg i sts s = (r, none) → i + sts.length = s.evsePilot.length →
    r.evsePilot = s.evsePilot.take i ++ (List.range sts.length).map (fun j => s.pilots.get (i + j) s.core.iter) := by
  intro sts
  induction sts with
  | nil =>
    intro i s r h hl
    simp only [updatePilotsFrom, Prod.mk.injEq, and_true] at h
    subst h
    simp only [List.length_nil, Nat.add_zero] at hl
    simp [hl]
  | cons st rest ih =>
    intro i s r h hl
    simp only [updatePilotsFrom] at h
    rw [setPilotAt_plan] at h
    cases hp : plan cfg st (s.pilots.get i s.core.iter) (occupantEv s st.id) (noiseAt cfg s.noiseIdx) with
    | error e => rw [hp] at h; simp at h
    | ok u =>
      rw [hp] at h
      simp only at h
      have hlen : i + 1 + rest.length = (eff s i (s.pilots.get i s.core.iter) u).evsePilot.length := by
        simp only [eff, List.length_set]
        simp only [List.length_cons] at hl
        omega
      have := ih (i + 1) _ r h hlen
      rw [this]
      have hp1 : (eff s i (s.pilots.get i s.core.iter) u).pilots = s.pilots := rfl
      have hc1 : (eff s i (s.pilots.get i s.core.iter) u).core = s.core := rfl
      have he1 : (eff s i (s.pilots.get i s.core.iter) u).evsePilot = s.evsePilot.set i (s.pilots.get i s.core.iter) := rfl
      rw [hp1, hc1, he1]
      have hi : i < s.evsePilot.length := by simp only [List.length_cons] at hl; omega
      rw [List.length_cons, List.range_succ_eq_map, List.map_cons, List.map_map]
      have htake : (s.evsePilot.set i (s.pilots.get i s.core.iter)).take (i + 1) =
          s.evsePilot.take i ++ [s.pilots.get i s.core.iter] := by
        rw [List.take_add_one, List.take_set_of_le (le_refl i)]
        simp [List.getElem?_set, hi]
      rw [htake, List.append_assoc]
      congr 1
      simp only [List.singleton_append, Nat.add_zero, List.cons.injEq, true_and]
      apply List.map_congr_left
      intro j _
      simp only [Function.comp]
      congr 1
      omega

theorem updatePilots_evse {s r : State K} (h : updatePilots cfg s = (r, none))
    (hl : s.evsePilot.length = cfg.stations.length) :
    r.evsePilot = (List.range cfg.stations.length).map (fun j => s.pilots.get j s.core.iter) := by
  have := updatePilotsFrom_evse (cfg := cfg) cfg.stations 0 s r h (by omega)
  simpa using this

end
end Acn.SimPerm
