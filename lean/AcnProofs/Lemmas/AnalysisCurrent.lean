/-
  Helper lemmas for C18, part 3: closed form of `ChargingNetwork.constraint_current` (rows by
  position, columns by the selected time indices) and the small facts about `isZero`, `pyMax`
  folds and the NEMA row operations.
-/
import AcnProofs.Lemmas.AnalysisSums
import AcnProofs.Lemmas.AnalysisLookup

namespace Acn.Analysis
open Finset

set_option linter.unusedSectionVars false
variable {K : Type} [Field K] [LinearOrder K] [IsStrictOrderedRing K]

/-- one real component of the aggregate phasor current of a constraint row `a` in period `t`:
    `Σ_j a_j · (r_j(t) · cos φ_j)` (resp. `sin`) -/
def phasorSum (row c : List K) (R : Matrix K) (t : Nat) : K :=
  ∑ j ∈ range R.length, row.getD j 0 * (ent R j t * c.getD j 0)

/-- the periods a `time_indices` argument selects (numpy wrap-around); `none` = out of range -/
def colsOf (T : Nat) : Option (List Int) → Option (List Nat)
  | none => some (List.range T)
  | some l => l.mapM (normIdx T)

theorem getD_range (T u : Nat) (hu : u < T) : (List.range T).getD u 0 = u := by
  rw [getD_of_lt _ _ _ (by simpa using hu)]; simp

theorem current_rows_core (M : Matrix K) (c s : List K) (R S : Matrix K) (T' : Nat)
    (cols idxs : List Nat) (hc : c.length = R.length) (hs : s.length = R.length)
    (hSl : S.length = R.length) (hSr : ∀ row ∈ S, row.length = T') (hT : cols.length = T')
    (hent : ∀ j u, u < T' → ent S j u = ent R j (cols.getD u 0)) :
    List.zipWith List.zip (matMul T' (idxs.map (fun i => M.getD i [])) (phasorPart S c))
        (matMul T' (idxs.map (fun i => M.getD i [])) (phasorPart S s))
      = idxs.map fun k => cols.map fun t =>
          (phasorSum (M.getD k []) c R t, phasorSum (M.getD k []) s R t) := by
  have key : ∀ (cc : List K), cc.length = R.length → ∀ row : List K,
      vecMat T' row (phasorPart S cc) = cols.map (fun t => phasorSum row cc R t) := by
    intro cc hcc row
    rw [vecMat_eq T' row _ (rect_phasorPart T' S hSr cc),
      length_phasorPart S cc (by rw [hcc, hSl]), hSl,
      ← map_range_getD (fun t => phasorSum row cc R t) cols, hT]
    apply List.map_congr_left
    intro u hu
    have hu' : u < T' := by simpa using hu
    unfold phasorSum
    apply Finset.sum_congr rfl
    intro j _
    rw [ent_phasorPart, hent j u hu']
  simp only [matMul, List.map_map]
  rw [zipWith_map_same]
  apply List.map_congr_left
  intro k _
  simp only [Function.comp]
  rw [key c hc, key s hs, List.zip_map']

theorem selectRows_ok (names : List String) (M : Matrix K) (hM : M.length = names.length)
    (req : Option (List String)) :
    selectRows M (constraintIndices names req) =
      .ok ((constraintIndices names req).map (fun i => M.getD i [])) := by
  unfold selectRows
  rw [if_pos]
  rw [List.all_eq_true]
  intro i hi
  have : i < names.length := by
    cases req with
    | none => simpa [constraintIndices] using hi
    | some r => exact ((mem_constraintIndices names r i).mp hi).1
  simpa [hM] using this

/-- closed form of `network.constraint_current(schedule, constraints=req, time_indices=ti)` -/
theorem constraintCurrent_eq (names : List String) (M : Matrix K) (c s : List K) (R : Matrix K)
    (T : Nat) (req : Option (List String)) (ti : Option (List Int)) (cols : List Nat)
    (hM : M.length = names.length) (hR : ∀ row ∈ R, row.length = T)
    (hc : c.length = R.length) (hs : s.length = R.length) (hti : colsOf T ti = some cols) :
    constraintCurrent names M c s R T req ti =
      .ok ((constraintIndices names req).map fun k => cols.map fun t =>
        (phasorSum (M.getD k []) c R t, phasorSum (M.getD k []) s R t)) := by
  unfold constraintCurrent
  cases ti with
  | none =>
    simp only [colsOf, Option.some.injEq] at hti
    subst hti
    simp only [selectCols, selectRows_ok names M hM req]
    rw [current_rows_core M c s R R T (List.range T) _ hc hs rfl hR (by simp)
      (fun j u hu => by rw [getD_range T u hu])]
  | some l =>
    simp only [colsOf] at hti
    simp only [selectCols, hti, selectRows_ok names M hM req]
    rw [current_rows_core M c s R _ cols.length cols _ hc hs (by simp) (by simp) rfl
      (fun j u hu => ent_selectCols R cols j u hu)]

/-! ### small order facts -/

theorem isZero_iff (x : K) : isZero x = true ↔ x = 0 := by
  simp only [isZero, Bool.and_eq_true, Bool.not_eq_true', decide_eq_false_iff_not, not_lt]
  constructor
  · rintro ⟨h1, h2⟩; exact le_antisymm h2 h1
  · rintro rfl; exact ⟨le_refl _, le_refl _⟩

theorem foldl_pyMax_spec (xs : List K) (x : K) :
    (xs.foldl pyMax x = x ∨ xs.foldl pyMax x ∈ xs) ∧ x ≤ xs.foldl pyMax x ∧
      ∀ y ∈ xs, y ≤ xs.foldl pyMax x := by
  induction xs generalizing x with
  | nil => simp
  | cons z zs ih =>
    obtain ⟨h1, h2, h3⟩ := ih (pyMax x z)
    rw [List.foldl_cons]
    refine ⟨?_, ?_, ?_⟩
    · rcases h1 with h | h
      · rw [h, pyMax_eq_max]
        rcases max_choice x z with e | e
        · left; exact e
        · right; rw [e]; simp
      · right; exact List.mem_cons_of_mem _ h
    · exact le_trans (by rw [pyMax_eq_max]; exact le_max_left _ _) h2
    · intro y hy
      rcases List.mem_cons.mp hy with rfl | hy
      · exact le_trans (by rw [pyMax_eq_max]; exact le_max_right _ _) h2
      · exact h3 y hy

end Acn.Analysis
