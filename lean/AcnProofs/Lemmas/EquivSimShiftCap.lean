/-
  Helper lemmas for C10 (Sim level, shift, assembly): the initial state of a shifted scenario is idle;
  after `k` idle periods it is the shift of the original initial state (up to `_last_schedule_update`
  and the record of idle invocations when `max_recompute` is set); in a period in which an event is
  processed the loop body does not depend on `_last_schedule_update`.
-/
import AcnProofs.Lemmas.EquivSimIdle

set_option linter.unusedSectionVars false
set_option linter.unusedSimpArgs false

namespace Acn.SimShift
open Acn Acn.Sim Acn.EventCore Acn.Evse Acn.SimEquiv Acn.Ledger Acn.Pilots

variable {K : Type} [Field K] [LinearOrder K] [IsStrictOrderedRing K] [HasExp K]

/-! ### the loop body does not read `_last_schedule_update` in a period with an event -/

def setLU (L : Option Int) (s : State K) : State K := { s with core := { s.core with lastUpd := L } }

theorem stepEv_setLU (cfg : Cfg K) (e : Event) (L : Option Int) (s : State K) :
    ∃ L', stepEv cfg e (setLU L s) = (setLU L' (stepEv cfg e s).1, (stepEv cfg e s).2) := by
  unfold stepEv EventCore.step process setLU
  cases hk : e.kind with
  | recompute => exact ⟨L, rfl⟩
  | plugin =>
    simp only
    cases hf : findSession cfg.core e.sess with
    | none => exact ⟨L, rfl⟩
    | some x =>
      simp only
      by_cases hc : cfg.core.stations.contains x.station = true
      · simp only [hc, if_true]
        cases ho : s.core.occ x.station with
        | some y => exact ⟨L, rfl⟩
        | none => exact ⟨some e.ts, rfl⟩
      · simp only [hc, Bool.false_eq_true, if_false]
        exact ⟨L, rfl⟩
  | unplug =>
    simp only
    cases hf : findSession cfg.core e.sess with
    | none => exact ⟨L, rfl⟩
    | some x =>
      simp only
      by_cases hc : cfg.core.stations.contains x.station = true
      · simp only [hc, if_true]
        exact ⟨some e.ts, rfl⟩
      · simp only [hc, Bool.false_eq_true, if_false]
        exact ⟨L, rfl⟩

theorem processAll_setLU (cfg : Cfg K) : ∀ (es : List Event) (L : Option Int) (s : State K),
    ∃ L', Sim.processAll cfg es (setLU L s) = (setLU L' (Sim.processAll cfg es s).1, (Sim.processAll cfg es s).2) := by
  intro es
  induction es with
  | nil => intro L s; exact ⟨L, rfl⟩
  | cons e es ih =>
    intro L s
    obtain ⟨L1, h1⟩ := stepEv_setLU cfg e L s
    simp only [Sim.processAll, h1]
    obtain ⟨s2, e2, hst⟩ : ∃ s2 e2, stepEv cfg e s = (s2, e2) := ⟨_, _, rfl⟩
    rw [hst]
    cases e2 with
    | some x => exact ⟨L1, rfl⟩
    | none => exact ih L1 s2

theorem eventsStage_setLU (cfg : Cfg K) (L : Option Int) (s : State K) :
    ∃ L', Sim.eventsStage cfg (setLU L s) = (setLU L' (Sim.eventsStage cfg s).1, (Sim.eventsStage cfg s).2) := by
  unfold Sim.eventsStage
  exact processAll_setLU cfg _ L { s with core := { s.core with pending := (popCurrent s.core.iter s.core.pending).2 } }

/-- if the period's events set `_resolve` and the period completes, the body gives the same state
    whatever `_last_schedule_update` was -/
theorem body_setLU (cfg : Cfg K) (sched : View K → Except EventCore.Err (Schedule K)) (L : Option Int)
    {s r : State K} (hb : Sim.body cfg sched s = (r, none))
    (hres : (Sim.eventsStage cfg s).1.core.resolve = true) : Sim.body cfg sched (setLU L s) = (r, none) := by
  obtain ⟨L', he⟩ := eventsStage_setLU cfg L s
  unfold Sim.body at hb ⊢
  rw [he]
  obtain ⟨s1, e1, hev⟩ : ∃ s1 e1, Sim.eventsStage cfg s = (s1, e1) := ⟨_, _, rfl⟩
  rw [hev] at hb hres ⊢
  simp only at hres
  cases e1 with
  | some e => simp at hb
  | none =>
    simp only at hb ⊢
    have hn : needsSched cfg.maxRecompute s1.core = true := by simp [needsSched, hres]
    have hn' : needsSched cfg.maxRecompute (setLU L' s1).core = true := by
      simp [needsSched, setLU, hres]
    simp only [hn, hn', if_true] at hb ⊢
    have hss : schedStage cfg sched { setLU L' s1 with core := markInvoked (setLU L' s1).core } =
        schedStage cfg sched { s1 with core := markInvoked s1.core } := rfl
    rw [hss]
    cases hsch : schedStage cfg sched { s1 with core := markInvoked s1.core } with
    | error e => rw [hsch] at hb; simp at hb
    | ok m =>
      rw [hsch] at hb
      simp only at hb ⊢
      exact hb

/-! ### the initial state of the shifted scenario -/

theorem initPending_shift' (k : Nat) (cfg : EventCore.Cfg) :
    initPending (shiftCfg k cfg) = (initPending cfg).map (shiftEv k) := by
  simp only [initPending, shiftCfg, List.map_append, List.map_map]
  rfl

theorem core_ext {c d : Core} (h1 : c.iter = d.iter) (h2 : c.pending = d.pending) (h3 : c.occ = d.occ)
    (h4 : c.resolve = d.resolve) (h5 : c.lastUpd = d.lastUpd) (h6 : c.eventHist = d.eventHist)
    (h7 : c.evHist = d.evHist) (h8 : c.invoked = d.invoked) : c = d := by
  cases c; cases d; simp_all

section
variable {k : Nat} {cfg : Cfg K}

/-- hypotheses on the original scenario: it has an event, no timestamp is negative, every EVSE
    accepts the idle pilot 0 -/
structure ShiftOK (cfg : Cfg K) : Prop where
  nonempty : initPending cfg.core ≠ []
  nonneg : ∀ e ∈ initPending cfg.core, 0 ≤ e.ts
  dep : DepNonneg cfg.core
  idle : IdleOK cfg

theorem init_pending' (k : Nat) (cfg : Cfg K) :
    (Sim.init (shiftCfgS k cfg)).core.pending = (initPending cfg.core).map (shiftEv k) := by
  show initPending (shiftCfgS k cfg).core = _
  rw [shiftCfgS_core, initPending_shift']

theorem init_width (h : ShiftOK cfg) :
    ∃ l, lastTs (initPending cfg.core) = some l ∧ 0 ≤ l ∧
      (Sim.init cfg).pilots = Mat.zeros cfg.stations.length (l + 1).toNat ∧
      (Sim.init cfg).rates = Mat.zeros cfg.stations.length (l + 1).toNat := by
  cases hl : lastTs (initPending cfg.core) with
  | none =>
    cases hP : initPending cfg.core with
    | nil => exact absurd hP h.nonempty
    | cons a l => rw [hP] at hl; simp [lastTs] at hl
  | some l =>
    refine ⟨l, rfl, lastTs_nonneg h.nonneg hl, ?_, ?_⟩
    · show Mat.zeros _ (match lastTs (initPending cfg.core) with | some l => (l + 1).toNat | none => 1) = _
      rw [hl]
    · show Mat.zeros _ (match lastTs (initPending cfg.core) with | some l => (l + 1).toNat | none => 1) = _
      rw [hl]

theorem shiftMat_zeros (k n w : Nat) : shiftMat k (Mat.zeros n w : Mat K) = Mat.zeros n (w + k) := by
  unfold shiftMat Mat.zeros
  simp only [List.map_replicate, List.replicate_append_replicate, Nat.add_comm k w]

/-- after the `k` idle periods: the state reached, and its relation to the original initial state -/
theorem idle_prefix (h : ShiftOK cfg) {sched' : View K → Except EventCore.Err (Schedule K)}
    (hsi : cfg.maxRecompute ≠ none → SchedIdle k sched') :
    ∃ sk : State K, (∀ n, Sim.run (shiftCfgS k cfg) sched' (k + n) (Sim.init (shiftCfgS k cfg)) =
        Sim.run (shiftCfgS k cfg) sched' n sk) ∧
      ShEquiv k sk.core.invoked (List.replicate k (noneRow cfg)) (Sim.init cfg) (setLU none sk) ∧
      (cfg.maxRecompute = none → setLU none sk = sk ∧ sk.core.invoked = []) := by
  obtain ⟨l, hl, hl0, hpil, hrat⟩ := init_width h
  have hP := init_pending' k cfg
  have hl' : lastTs ((initPending cfg.core).map (shiftEv k)) = some (l + k) := by rw [lastTs_shift, hl]; rfl
  have hwtn : (l + (k : Int) + 1).toNat = (l + 1).toNat + k := by omega
  -- the initial state of the shifted scenario is idle
  have hI0 : Idle (shiftCfgS k cfg) ((initPending cfg.core).map (shiftEv k)) ((l + 1).toNat + k) 0
      (Sim.init (shiftCfgS k cfg)) := by
    refine ⟨rfl, hP, rfl, rfl, rfl, rfl, ?_, ?_, rfl, rfl, rfl, rfl, rfl⟩
    · show Mat.zeros _ (match lastTs (Sim.init (shiftCfgS k cfg)).core.pending with | some l => (l + 1).toNat | none => 1) = _
      rw [hP, hl']
      simp only
      rw [hwtn]
    · show Mat.zeros _ (match lastTs (Sim.init (shiftCfgS k cfg)).core.pending with | some l => (l + 1).toNat | none => 1) = _
      rw [hP, hl']
      simp only
      rw [hwtn]
  have hne : (initPending cfg.core).map (shiftEv k) ≠ [] := by simpa using h.nonempty
  have hq : ∀ e ∈ (initPending cfg.core).map (shiftEv k), (k : Int) ≤ e.ts := by
    intro e he
    obtain ⟨d, hd, rfl⟩ := List.mem_map.1 he
    have := h.nonneg d hd
    simp only [shiftEv]
    omega
  have hw : ∀ j', widthOf ((initPending cfg.core).map (shiftEv k)) j' = (l + 1).toNat + k := by
    intro j'
    unfold widthOf
    rw [hl']
    simp only
    rw [hwtn]
  have hok' : IdleOK (shiftCfgS k cfg) := h.idle
  have hmr' : (shiftCfgS k cfg).maxRecompute = cfg.maxRecompute := rfl
  obtain ⟨sk, hIk, hrun, hLk⟩ := run_idle (cfg := shiftCfgS k cfg) (sched := sched') hok'
    (k := k) (by rw [hmr']; exact hsi) hne hq hw (by omega) k 0 _ (by omega) hI0
  have hst : (shiftCfgS k cfg).stations = cfg.stations := rfl
  refine ⟨sk, hrun, ?_, ?_⟩
  · refine ⟨?_, ?_, ?_, ?_, ?_, ?_, ?_, ?_⟩
    · apply core_ext
      · show sk.core.iter = 0 + k
        rw [hIk.iter]; omega
      · exact hIk.pending
      · show sk.core.occ = _
        rw [hIk.occ]; rfl
      · exact hIk.resolve
      · rfl
      · exact hIk.eventHist
      · exact hIk.evHist
      · show sk.core.invoked = sk.core.invoked ++ _
        simp [Sim.init, EventCore.init, shiftCore]
    · show sk.pilots = _
      rw [hIk.pilots, hpil, shiftMat_zeros, hst]
    · show sk.rates = _
      rw [hIk.rates, hrat, shiftMat_zeros, hst]
    · exact hIk.peak
    · exact hIk.evs
    · show sk.evsePilot = _
      rw [hIk.evsePilot, hst]; rfl
    · exact hIk.noiseIdx
    · show sk.occLog = _
      rw [hIk.occLog]
      simp [Sim.init, noneRow, hst]
  · intro hmr
    obtain ⟨hL, hV⟩ := hLk (by rw [hmr']; exact hmr)
    have hL0 : sk.core.lastUpd = none := hL
    have hV0 : sk.core.invoked = [] := hV
    refine ⟨?_, hV0⟩
    unfold setLU
    rw [← hL0]

end
end Acn.SimShift
