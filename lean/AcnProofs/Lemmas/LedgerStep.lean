/-
  Helper lemmas for C02 (4/4): the ledger invariant is established by `init` and preserved by
  every trip round the loop of `Simulator.run` that does not raise — for EVERY scheduler.
-/
import AcnProofs.Lemmas.LedgerInv

set_option linter.unusedSectionVars false
set_option linter.unusedSimpArgs false
set_option linter.unusedVariables false
set_option linter.unusedTactic false
set_option linter.unreachableTactic false

namespace Acn.Ledger
open Acn Acn.Sim Acn.EventCore Acn.Evse Finset

variable {K : Type} [Field K] [LinearOrder K] [IsStrictOrderedRing K] [HasExp K]

/-! ### decomposition of `applyStage` -/

theorem applyStage_ok {cfg : Cfg K} {a s' : State K} (h : applyStage cfg a = (s', none)) :
    ∃ w s2 s3,
      updatePilots cfg { a with pilots := Pilots.increaseWidth a.pilots w,
                                rates := Pilots.increaseWidth a.rates w } = (s2, none) ∧
      storeRates cfg w s2 = (s3, none) ∧
      s' = { s3 with occLog := s3.occLog ++ [cfg.stations.map fun st => (s3.core.occ st.id).map (·.id)],
                     core := advance s3.core } := by
  unfold applyStage at h
  split at h
  · simp at h
  · split at h
    · simp at h
    · rename_i s2 h2
      split at h
      · simp at h
      · rename_i s3 h3
        simp only [Prod.mk.injEq, and_true] at h
        exact ⟨_, s2, s3, h2, h3, h.symm⟩

/-! ### pilots applied, rates stored -/

theorem applyStage_ledger {cfg : Cfg K} (hn : StationsNodup cfg) {a s' : State K}
    (hL : Inv cfg a) (h : applyStage cfg a = (s', none)) : Inv cfg s' := by
  obtain ⟨w, s2, s3, h2, h3, rfl⟩ := applyStage_ok h
  unfold Inv at hL ⊢
  have hd : DistinctOcc a.core.occ cfg.stations := distinctOcc_of hn hL.occ_sound
  obtain ⟨c2, r2, p2, l2, _, m2, hB, hC⟩ :=
    updatePilotsFrom_ok cfg cfg.stations 0 _ s2 h2 hd
  simp only at c2 r2 p2 l2 m2 hB hC
  have hwf2 : s2.rates.WF cfg.stations.length := by
    rw [r2]; exact Pilots.increaseWidth_wf hL.rates_wf w
  obtain ⟨c3, e3, l3, pk3, wf3, g3⟩ := storeRates_ok h3 hwf2
  have c3' : s3.core = a.core := c3.trans c2
  simp only [advance, c3', e3, l3, l2]
  -- notation
  have hlen := hL.log_len
  have hrate : ∀ i τ, s3.rates.get i τ =
      if τ = a.core.iter then (currentRates cfg s2).getD i 0 else a.rates.get i τ := by
    intro i τ
    rw [g3, c2, r2, Pilots.increaseWidth_get']
  have hocc_new : ∀ i, occAt (a.occLog ++ [cfg.stations.map fun st => (a.core.occ st.id).map (·.id)])
      a.core.iter i = match cfg.stations[i]? with
        | some st => occId a.core.occ st
        | none => none := by
    intro i
    have := occAt_append_eq a.occLog (cfg.stations.map fun st => (a.core.occ st.id).map (·.id)) i
    rw [hlen] at this
    exact this.trans (occRow_getD cfg a.core.occ i)
  have hocc_old : ∀ τ i, τ < a.core.iter →
      occAt (a.occLog ++ [cfg.stations.map fun st => (a.core.occ st.id).map (·.id)]) τ i =
        occAt a.occLog τ i := by
    intro τ i hτ
    exact occAt_append_lt _ _ (by rw [hlen]; exact hτ) i
  generalize hlog' : a.occLog ++ [cfg.stations.map fun st => (a.core.occ st.id).map (·.id)] = log' at *
  have hterm_old : ∀ id τ i, τ < a.core.iter →
      term cfg s3.rates log' id τ i = term cfg a.rates a.occLog id τ i := by
    intro id τ i hτ
    unfold term
    rw [hocc_old τ i hτ, hrate, if_neg (Nat.ne_of_lt hτ)]
  -- what the period does to one EV
  have hdelta : ∀ id e e', evIn a.evs id = some e → evIn s2.evs id = some e' →
      e'.delivered - e.delivered = ∑ i ∈ range cfg.stations.length, term cfg s3.rates log' id a.core.iter i ∧
      e'.batt.charge - e.batt.charge = e'.delivered - e.delivered := by
    intro id e e' he he'
    by_cases hex : ∃ st ∈ cfg.stations, occId a.core.occ st = some id
    · obtain ⟨st, hst, hid⟩ := hex
      have hid0 := hid
      simp only [occId] at hid
      cases hx : a.core.occ st.id with
      | none => simp [hx] at hid
      | some x =>
        simp only [hx, Option.map_some, Option.some.injEq] at hid
        subst hid
        obtain ⟨e'', he'', d1, d2⟩ := hC st hst x e hx he
        rw [he'] at he''
        obtain rfl : e' = e'' := by simpa using he''
        obtain ⟨k, hk⟩ := List.mem_iff_getElem?.1 hst
        have hkn : k < cfg.stations.length := (List.getElem?_eq_some_iff.1 hk).1
        refine ⟨?_, by rw [d1, d2]⟩
        rw [Finset.sum_eq_single k]
        · unfold term
          rw [hocc_new k, hk]
          simp only [hid0, if_true]
          rw [hrate, if_pos rfl, currentRates_getD, hk]
          simp only
          rw [occupantEv_eq, c2]
          simp only [hx, he']
          rw [volt_of_getElem? hk, d1]
        · intro j _ hjk
          unfold term
          rw [hocc_new j]
          cases hj : cfg.stations[j]? with
          | none => simp
          | some b =>
            simp only
            by_cases hb : occId a.core.occ b = some x.id
            · exact absurd (distinctOcc_index hd hj hk hb hid0) hjk
            · rw [if_neg hb]
        · intro hk'; exact absurd (Finset.mem_range.2 hkn) hk'
    · have hno : ∀ st ∈ cfg.stations, occId a.core.occ st ≠ some id := fun st hst hc => hex ⟨st, hst, hc⟩
      have := hB id hno
      rw [he', he] at this
      obtain rfl : e' = e := by simpa using this
      refine ⟨?_, by ring⟩
      rw [sub_self]
      symm
      apply Finset.sum_eq_zero
      intro i _
      unfold term
      rw [hocc_new i]
      cases hi : cfg.stations[i]? with
      | none => simp
      | some b =>
        simp only
        rw [if_neg (hno b (List.mem_of_getElem? hi))]
  have hids2 : s2.evs.map (·.session) = a.evs.map (·.session) := m2
  refine ⟨?_, wf3, hL.occ_sound, ?_, hids2.trans hL.ids, ?_, ?_, ?_, ?_, ?_⟩
  · -- log_len
    rw [← hlog']; simp [hlen]
  · -- log_sound
    intro τ i id hτ
    rcases Nat.lt_trichotomy τ a.core.iter with hlt | heq | hgt
    · rw [hocc_old τ i hlt] at hτ
      exact hL.log_sound τ i id hτ
    · subst heq
      rw [hocc_new i] at hτ
      cases hi : cfg.stations[i]? with
      | none => simp [hi] at hτ
      | some st =>
        simp only [hi, occId] at hτ
        cases hx : a.core.occ st.id with
        | none => simp [hx] at hτ
        | some x =>
          simp only [hx, Option.map_some, Option.some.injEq] at hτ
          subst hτ
          obtain ⟨f1, f2⟩ := hL.occ_sound _ _ hx
          exact ⟨x, st, f1, rfl, f2⟩
    · have : occAt log' τ i = none := by
        apply occAt_none_of_ge
        rw [← hlog']; simp [hlen]; omega
      rw [this] at hτ; simp at hτ
  · -- gain
    intro id e0 e' h0 he'
    obtain ⟨e, he⟩ := evIn_exists_of_ids hids2 he'
    have g := hL.gain id e0 e h0 he
    obtain ⟨_, d2⟩ := hdelta id e e' he he'
    linear_combination g - d2
  · -- sess
    intro id e0 e' h0 he'
    obtain ⟨e, he⟩ := evIn_exists_of_ids hids2 he'
    have g := hL.sess id e0 e h0 he
    obtain ⟨d1, _⟩ := hdelta id e e' he he'
    unfold sessionEnergy at g ⊢
    rw [Finset.sum_range_succ, ← d1]
    have : ∑ τ ∈ range a.core.iter, ∑ i ∈ range cfg.stations.length, term cfg s3.rates log' id τ i =
        ∑ τ ∈ range a.core.iter, ∑ i ∈ range cfg.stations.length, term cfg a.rates a.occLog id τ i := by
      apply Finset.sum_congr rfl
      intro τ hτ
      apply Finset.sum_congr rfl
      intro i _
      exact hterm_old id τ i (Finset.mem_range.1 hτ)
    rw [this, ← g]
    ring
  · -- vacant
    intro τ i hτ hi hv
    rw [hrate]
    by_cases hτt : τ = a.core.iter
    · subst hτt
      rw [if_pos rfl, currentRates_getD]
      rw [hocc_new i] at hv
      obtain ⟨st, hst⟩ : ∃ st, cfg.stations[i]? = some st :=
        ⟨cfg.stations[i], List.getElem?_eq_getElem hi⟩
      simp only [hst] at hv ⊢
      rw [occupantEv_eq, c2]
      simp only [occId] at hv
      cases hx : a.core.occ st.id with
      | none => rfl
      | some x => simp [hx] at hv
    · rw [if_neg hτt]
      have hlt : τ < a.core.iter := by omega
      rw [hocc_old τ i hlt] at hv
      exact hL.vacant τ i hlt hi hv
  · -- future
    intro τ i hτ
    rw [hrate, if_neg (by omega)]
    exact hL.future τ i (by omega)
  · -- peak
    rw [pk3, p2, hL.peak_eq]
    simp only [peakUpTo]
    rw [peakUpTo_congr (m := a.rates) (m' := s3.rates) _ _
      (fun i τ hτ => by rw [hrate, if_neg (Nat.ne_of_lt hτ)])]
    congr 1
    rw [sumK_eq_sum]
    have hcl : (currentRates cfg s2).length = cfg.stations.length := by simp [currentRates]
    rw [hcl]
    unfold aggCurrent
    apply Finset.sum_congr rfl
    intro i _
    rw [hrate, if_pos rfl]

/-! ### the events of a period do not touch the ledger -/

theorem step_occSound {cfg : EventCore.Cfg} (e : Event) (c : Core) (h : OccSound cfg c.occ) :
    OccSound cfg (EventCore.step cfg e c).1.occ ∧ (EventCore.step cfg e c).1.iter = c.iter := by
  unfold EventCore.step EventCore.process
  cases e.kind with
  | recompute => exact ⟨h, by first | rfl | trivial⟩
  | plugin =>
    simp only
    cases hf : findSession cfg e.sess with
    | none => exact ⟨h, by first | rfl | trivial⟩
    | some x =>
      simp only
      split
      · cases ho : c.occ x.station with
        | none =>
          simp only [ho]
          refine ⟨?_, by first | rfl | trivial⟩
          intro st y hy
          simp only [setOcc] at hy
          split at hy
          · rename_i hst
            obtain rfl : x = y := by simpa using hy
            have hid : x.id = e.sess := by
              have := List.find?_some hf
              simpa using this
            exact ⟨by rw [hid]; exact hf, hst.symm⟩
          · exact h st y hy
        | some y => simp only [ho]; exact ⟨h, by first | rfl | trivial⟩
      · exact ⟨h, by first | rfl | trivial⟩
  | unplug =>
    simp only
    cases hf : findSession cfg e.sess with
    | none => exact ⟨h, by first | rfl | trivial⟩
    | some x =>
      simp only
      split
      · refine ⟨?_, by first | rfl | trivial⟩
        simp only
        split
        · intro st y hy
          simp only [setOcc] at hy
          split at hy
          · simp at hy
          · exact h st y hy
        · exact h
      · exact ⟨h, by first | rfl | trivial⟩

theorem processAll_frame (cfg : Cfg K) : ∀ (es : List Event) (s : State K),
    OccSound cfg.core s.core.occ →
    (Sim.processAll cfg es s).1.rates = s.rates ∧ (Sim.processAll cfg es s).1.peak = s.peak ∧
    (Sim.processAll cfg es s).1.evs = s.evs ∧ (Sim.processAll cfg es s).1.occLog = s.occLog ∧
    (Sim.processAll cfg es s).1.core.iter = s.core.iter ∧
    OccSound cfg.core (Sim.processAll cfg es s).1.core.occ := by
  intro es
  induction es with
  | nil => intro s h; exact ⟨rfl, rfl, rfl, rfl, rfl, h⟩
  | cons e es ih =>
    intro s h
    have hs := step_occSound (cfg := cfg.core) e s.core h
    unfold Sim.processAll
    cases hst : stepEv cfg e s with
    | mk s2 err =>
      have hcore : s2.core = (EventCore.step cfg.core e s.core).1 := by
        have := congrArg Prod.fst hst; simp only [stepEv] at this; rw [← this]
      have hr : s2.rates = s.rates := by
        have := congrArg Prod.fst hst; simp only [stepEv] at this; rw [← this]
      have hp : s2.peak = s.peak := by
        have := congrArg Prod.fst hst; simp only [stepEv] at this; rw [← this]
      have he : s2.evs = s.evs := by
        have := congrArg Prod.fst hst; simp only [stepEv] at this; rw [← this]
      have hl : s2.occLog = s.occLog := by
        have := congrArg Prod.fst hst; simp only [stepEv] at this; rw [← this]
      cases err with
      | some x =>
        simp only
        exact ⟨hr, hp, he, hl, by rw [hcore]; exact hs.2, by rw [hcore]; exact hs.1⟩
      | none =>
        simp only
        obtain ⟨i1, i2, i3, i4, i5, i6⟩ := ih s2 (by rw [hcore]; exact hs.1)
        exact ⟨i1.trans hr, i2.trans hp, i3.trans he, i4.trans hl, i5.trans (by rw [hcore]; exact hs.2), i6⟩

theorem eventsStage_frame (cfg : Cfg K) (s : State K) (h : OccSound cfg.core s.core.occ) :
    (Sim.eventsStage cfg s).1.rates = s.rates ∧ (Sim.eventsStage cfg s).1.peak = s.peak ∧
    (Sim.eventsStage cfg s).1.evs = s.evs ∧ (Sim.eventsStage cfg s).1.occLog = s.occLog ∧
    (Sim.eventsStage cfg s).1.core.iter = s.core.iter ∧
    OccSound cfg.core (Sim.eventsStage cfg s).1.core.occ := by
  unfold Sim.eventsStage
  exact processAll_frame cfg _ _ h

/-- the invariant only reads these components -/
theorem Inv.transfer {cfg : Cfg K} {s a : State K} (hL : Inv cfg s) (h1 : a.rates = s.rates)
    (h2 : a.peak = s.peak) (h3 : a.evs = s.evs) (h4 : a.occLog = s.occLog)
    (h5 : a.core.iter = s.core.iter) (h6 : OccSound cfg.core a.core.occ) : Inv cfg a := by
  unfold Inv at hL ⊢
  rw [h1, h2, h3, h4, h5]
  exact ⟨hL.log_len, hL.rates_wf, h6, hL.log_sound, hL.ids, hL.gain, hL.sess, hL.vacant, hL.future,
    hL.peak_eq⟩

/-! ### one trip round the loop, the whole run, the initial state -/

theorem body_ledger {cfg : Cfg K} (hn : StationsNodup cfg)
    (sched : View K → Except EventCore.Err (Schedule K)) {s s' : State K}
    (hL : Inv cfg s) (h : Sim.body cfg sched s = (s', none)) : Inv cfg s' := by
  obtain ⟨f1, f2, f3, f4, f5, f6⟩ := eventsStage_frame cfg s hL.occ_sound
  unfold Sim.body at h
  cases hes : Sim.eventsStage cfg s with
  | mk s1 err =>
    rw [hes] at f1 f2 f3 f4 f5 f6
    simp only at f1 f2 f3 f4 f5 f6
    cases err with
    | some e => simp [hes] at h
    | none =>
      simp only [hes] at h
      split at h
      · split at h
        · simp at h
        · rename_i m hm
          refine applyStage_ledger hn ?_ h
          exact hL.transfer f1 f2 f3 f4 f5 f6
      · exact applyStage_ledger hn (hL.transfer f1 f2 f3 f4 f5 f6) h

theorem run_ledger {cfg : Cfg K} (hn : StationsNodup cfg)
    (sched : View K → Except EventCore.Err (Schedule K)) : ∀ (n : Nat) (s s' : State K),
    Inv cfg s → Sim.run cfg sched n s = (s', none) → Inv cfg s' := by
  intro n
  induction n with
  | zero =>
    intro s s' hL h
    simp only [Sim.run, Prod.mk.injEq, and_true] at h
    exact h ▸ hL
  | succ n ih =>
    intro s s' hL h
    unfold Sim.run at h
    split at h
    · cases hb : Sim.body cfg sched s with
      | mk s1 err =>
        cases err with
        | some e => simp [hb] at h
        | none =>
          simp only [hb] at h
          exact ih s1 s' (body_ledger hn sched hL hb) h
    · simp only [Prod.mk.injEq, and_true] at h
      exact h ▸ hL

theorem init_ledger (cfg : Cfg K) : Inv cfg (Sim.init cfg) := by
  unfold Inv
  refine ⟨rfl, Pilots.zeros_wf _ _, ?_, ?_, rfl, ?_, ?_, ?_, ?_, rfl⟩
  · intro st x h; simp [Sim.init, EventCore.init] at h
  · intro τ i id h; simp [Sim.init, occAt] at h
  · intro id e0 e h0 h
    simp only [Sim.init] at h
    rw [h0] at h
    obtain rfl : e0 = e := by simpa using h
    ring
  · intro id e0 e h0 h
    simp only [Sim.init] at h
    rw [h0] at h
    obtain rfl : e0 = e := by simpa using h
    simp [sessionEnergy, Sim.init, EventCore.init]
  · intro τ i hτ; simp [Sim.init, EventCore.init] at hτ
  · intro τ i _; simp only [Sim.init]; exact Pilots.zeros_get _ _ _ _

end Acn.Ledger
