/-
  Helper lemmas for C09 (registry, JSON document): the Python value `registryJ ctx root` that `to_json` hands to
  `json.dumps` is well-formed for EVERY store (so `json.loads(json.dumps(registry)) = registry`), and the leaves
  the model writes are typed as Python types them: `int`, `str`, `bool`, `None`, `float`, the float matrices.
-/
import AcnProofs.Lemmas.RegistryJsonLawful
namespace Acn.RegistryJson
open Acn Acn.Registry Acn.RegistrySim Acn.JsonText

variable {K : Type}

theorem scalarJ_wf (t : String) : (scalarJ t).wf = true := by
  unfold scalarJ
  simp only []
  split_ifs
  · rfl
  · split
    · split_ifs <;> first | rfl | (simp only [JVal.wf]; assumption) | skip
      split
      · split_ifs <;> first | rfl | assumption
      · rfl
    · rfl

theorem itemJ_wf (i : Item) : (itemJ i).wf = true := by
  cases i <;> simp [itemJ, scalarJ_wf, JVal.wf]

theorem valJ_wf (v : Val) : (valJ v).wf = true := by
  cases v with
  | scalar t => exact scalarJ_wf t
  | ref i => rfl
  | list l =>
    simp only [valJ, JVal.wf]
    induction l with
    | nil => rfl
    | cons a l ih => simp [wfList, itemJ_wf, ih]

theorem objJ_wf (o : Obj) : (objJ o).wf = true := by
  have : ∀ l : List (String × Val), wfMembers (l.map fun a => (a.1, valJ a.2)) = true := by
    intro l
    induction l with
    | nil => rfl
    | cons a l ih => simp [wfMembers, valJ_wf, ih]
  simp [objJ, JVal.wf, wfMembers, this]

theorem registryJ_wf (ctx : Store) (root : Id) : (registryJ ctx root).wf = true := by
  have : ∀ l : Store, wfMembers (l.map fun e => (toString e.1, objJ e.2)) = true := by
    intro l
    induction l with
    | nil => rfl
    | cons a l ih => simp only [List.map_cons, wfMembers, objJ_wf, ih, Bool.and_self]
  simp only [registryJ, JVal.wf, wfMembers, this, Bool.and_self]

/-- `json.loads(obj.to_json())` is the registry that `_to_registry` built — for every store, whatever strings
    (session ids, station ids, class names, attribute names) it contains -/
theorem registry_text_roundtrip (ctx : Store) (root : Id) :
    parseS (toJsonText ctx root) = some (registryJ ctx root) := by
  simp only [parseS, toJsonText, renderS, String.toList_ofList]
  exact parse_render _ (registryJ_wf ctx root)

/-! ### the leaves are typed as Python types them -/

theorem valJ_sS (x : String) : valJ (sS x) = .str x := by
  simp only [valJ, sS, tag_s, scalarJ, toList_tag]
  simp

theorem valJ_sNull : valJ sNull = .null := by
  simp [valJ, sNull, scalarJ]

theorem valJ_sI (n : Int) : valJ (sI n) = .int n := by
  have h1 : isIntTok n.repr.toList = true := isIntTok_renderInt n
  have h2 : intOfTok n.repr.toList = n := intOfTok_renderInt n
  simp only [valJ, sI, tag_i, scalarJ, toList_tag]
  simp [h1, h2, renderInt]

theorem valJ_sN (n : Nat) : valJ (sN n) = .int n := by
  have e : toString n = toString (n : Int) := by
    show n.repr = Int.repr (n : Int)
    rw [Int.repr_eq_if]; simp
  have := valJ_sI (n : Int)
  simp only [sI, sN] at this ⊢
  rw [e]; exact this

theorem valJ_sB (b : Bool) : valJ (sB b) = .bool b := by
  cases b <;> simp [valJ, sB, scalarJ]

theorem valJ_sF (d : DoubleText K) (hd : d.RoundTrip) (x : K) : valJ (sF (jsonShow d) x) = .num (d.repr x) := by
  simp only [valJ, sF, tag_f, scalarJ, toList_tag, jsonShow, String.toList_ofList]
  simp [hd.float_tok]

theorem valJ_mat (d : DoubleText K) (hd : d.RoundTrip) (m : Pilots.Mat K) :
    valJ (.scalar ("m:" ++ (jsonShow d).mat m)) = matJ d m := by
  simp only [valJ, tag_m, scalarJ, toList_tag, jsonShow, String.toList_ofList]
  simp [parse_render _ (matJ_wf d hd m), matJ_wf d hd m]

/-- a reference is written as the decimal id string (`f"{id(self)}"`) -/
theorem valJ_ref (i : Id) : valJ (.ref i) = .str (toString i) := rfl

end Acn.RegistryJson
