/-
  Helper lemmas for C10 (Sim level, stations, RAISING runs and STATEFUL schedulers — 2/2).
  ONE induction for all station-order statements: the simulator loop with a scheduler state threaded
  (`SimSortedRd.runSt`; `Sim.run` is the instance with a scheduler that ignores its state,
  `runSt_lift`), a relation `R` between the scheduler states of the two runs, a predicate `P` that every
  (state, view) pair of the ORIGINAL run satisfies (tie-freeness for the sorted algorithms), a pair of
  schedulers that on such pairs answer related views with the same dict and related next states, or with
  the same error.  Conclusion, errors included: either the two runs end alike — same error (or none) in
  fully related states (`StEquiv`) and related scheduler states — or both were aborted by
  `update_pilots`, in states related on everything `update_pilots` does not write (`AbortEquiv`).
  The view relation `ViewRelL` also relates `last_applied_pilot_signals` (as dicts), which the rampdown
  estimator reads.
-/
import AcnProofs.Lemmas.EquivSimStationsRaise
import AcnModel.SimSortedRd
import AcnProofs.Lemmas.SchedView

set_option linter.unusedSectionVars false
set_option linter.unusedSimpArgs false
set_option linter.unusedVariables false

namespace Acn.SimEquiv
open Acn Acn.Sim Acn.EventCore Acn.Evse Acn.Ledger Acn.SimSortedRd

variable {K : Type} [Field K] [LinearOrder K] [IsStrictOrderedRing K] [HasExp K]

/-! ### the views, `last_applied_pilot_signals` included -/

structure ViewRelL (σ : List Nat) (v v' : View K) : Prop where
  rel : ViewRel σ v v'
  lastPilots : v'.lastPilots.Perm v.lastPilots
  nodupLast : (v.lastPilots.map (·.1)).Nodup
  nodupActive : (v.active.map (·.session)).Nodup

/-- different stations are occupied by different sessions -/
theorem activeEvs_sessions_nodup {cfg : Cfg K} (hnd : StationsNodup cfg) {s : State K}
    (ho : OccSound cfg.core s.core.occ) : ((activeEvs cfg s).map (·.session)).Nodup := by
  rw [Sim.activeEvs_eq_filterMap, List.Nodup, List.pairwise_map]
  have hst : cfg.stations.Pairwise (fun a b => a.id ≠ b.id) := List.pairwise_map.1 hnd
  have key : ∀ (st : Station K) (e : Ev K), occupantEv s st.id = some e →
      ∃ x, s.core.occ st.id = some x ∧ e.session = x.id := by
    intro st e hm
    rw [occupantEv_eq] at hm
    cases hx : s.core.occ st.id with
    | none => simp [hx] at hm
    | some x =>
      simp only [hx] at hm
      exact ⟨x, rfl, evIn_session hm⟩
  have hocc : (cfg.stations.map fun st => occupantEv s st.id).Pairwise
      (fun o o' => ∀ b ∈ o, ∀ b' ∈ o', b.session ≠ b'.session) := by
    rw [List.pairwise_map]
    refine hst.imp ?_
    intro a a' hne b hb b' hb' hsess
    obtain ⟨x, hx, hsx⟩ := key a b (by simpa using hb)
    obtain ⟨y, hy, hsy⟩ := key a' b' (by simpa using hb')
    obtain ⟨fx, sx⟩ := ho _ x hx
    obtain ⟨fy, sy⟩ := ho _ y hy
    have hid : x.id = y.id := by rw [← hsx, ← hsy, hsess]
    have hxy : x = y := by
      rw [hid] at fx
      exact Option.some.inj (fx.symm.trans fy)
    apply hne
    rw [← sx, ← sy, hxy]
  refine List.Pairwise.filterMap _ ?_ hocc
  intro o o' hoo b hb b' hb'
  have h1 : b ∈ o := (Option.filter_eq_some_iff.1 hb).1
  have h2 : b' ∈ o' := (Option.filter_eq_some_iff.1 hb').1
  exact hoo b h1 b' h2

theorem filterMap_keys_sublist {α : Type} (f : α → Option (String × K)) (key : α → String)
    (hk : ∀ a p, f a = some p → p.1 = key a) : ∀ l : List α, ((l.filterMap f).map (·.1)).Sublist (l.map key) := by
  intro l
  induction l with
  | nil => simp
  | cons a l ih =>
    cases hf : f a with
    | none => rw [List.filterMap_cons_none hf, List.map_cons]; exact List.Sublist.cons _ ih
    | some p =>
      rw [List.filterMap_cons_some hf, List.map_cons, List.map_cons, hk a p hf]
      exact List.Sublist.cons_cons _ ih

theorem lastApplied_keys_nodup {cfg : Cfg K} (hnd : StationsNodup cfg) {s : State K}
    (ho : OccSound cfg.core s.core.occ) : ((lastApplied cfg s).map (·.1)).Nodup := by
  unfold lastApplied
  split
  · refine List.Nodup.sublist (filterMap_keys_sublist _ (·.session) ?_ _) (activeEvs_sessions_nodup hnd ho)
    intro a p hp
    split at hp
    · simp only [Option.some.injEq] at hp; rw [← hp]
    · simp at hp
  · simp

section
variable {σ : List Nat} {d : Station K} {cfg : Cfg K}

theorem findIdx_not_mem {α : Type} (p : α → Bool) (l : List α) (h : ∀ x ∈ l, p x = false) :
    l.findIdx p = l.length := by
  induction l with
  | nil => rfl
  | cons a t ih =>
    rw [List.findIdx_cons, h a List.mem_cons_self]
    simp only [cond_false, List.length_cons]
    rw [ih (fun x hx => h x (List.mem_cons_of_mem _ hx))]

/-- the pilot of a station read by station NAME is the same in both runs (0 for an unknown name) -/
theorem get_stationIndex_perm (h : PermOK σ cfg) {s s' : State K} (he : StEquiv σ s s')
    (hs : Shape cfg.stations.length s) (st : String) (t : Nat) :
    s'.pilots.get (stationIndex (permCfg σ d cfg) st) t = s.pilots.get (stationIndex cfg st) t := by
  rw [he.pilots]
  by_cases hreg : st ∈ cfg.stations.map (·.id)
  · obtain ⟨hj, hσj⟩ := stationIndex_perm (d := d) h hreg
    rw [get_reidx _ _ _ hj, hσj]
  · have h1 : stationIndex cfg st = cfg.stations.length := by
      unfold stationIndex
      apply findIdx_not_mem
      intro x hx
      simp only [beq_eq_false_iff_ne, ne_eq]
      intro hid
      exact hreg (List.mem_map.2 ⟨x, hx, hid⟩)
    have h2 : stationIndex (permCfg σ d cfg) st = σ.length := by
      have hlen : (permCfg σ d cfg).stations.length = σ.length := by simp [permCfg, reidx]
      rw [← hlen]
      unfold stationIndex
      apply findIdx_not_mem
      intro x hx
      simp only [beq_eq_false_iff_ne, ne_eq]
      intro hid
      have : st ∈ (permCfg σ d cfg).core.stations := List.mem_map.2 ⟨x, hx, hid⟩
      exact hreg ((mem_ids_iff (d := d) h st).1 this)
    rw [h1, h2]
    unfold Pilots.Mat.get Pilots.Mat.reidx
    simp only
    have e1 : (reidx σ s.pilots.rows []).getD σ.length [] = [] := by
      simp [reidx, List.getD_eq_getElem?_getD]
    have e2 : s.pilots.rows.getD cfg.stations.length [] = [] := by
      rw [← hs.pilots]
      simp [List.getD_eq_getElem?_getD]
    rw [e1, e2]

theorem lastApplied_perm (h : PermOK σ cfg) {s s' : State K} (he : StEquiv σ s s')
    (hs : Shape cfg.stations.length s) :
    (lastApplied (permCfg σ d cfg) s').Perm (lastApplied cfg s) := by
  unfold lastApplied
  rw [he.core]
  split
  · have hf : (fun e : Ev K => if e.arrival ≤ ((s.core.iter - 1 : Nat) : Int) then
          some (e.session, s'.pilots.get (stationIndex (permCfg σ d cfg) e.station) (s.core.iter - 1)) else none) =
        (fun e : Ev K => if e.arrival ≤ ((s.core.iter - 1 : Nat) : Int) then
          some (e.session, s.pilots.get (stationIndex cfg e.station) (s.core.iter - 1)) else none) := by
      funext e
      rw [get_stationIndex_perm (d := d) h he hs]
    dsimp only
    rw [hf]
    exact (activeEvs_perm (d := d) h he).filterMap _
  · exact List.Perm.refl _

theorem view_relL (h : PermOK σ cfg) {s s' : State K} (he : StEquiv σ s s')
    (hs : Shape cfg.stations.length s) (ho : OccSound cfg.core s.core.occ) :
    ViewRelL σ (view cfg s) (view (permCfg σ d cfg) s') :=
  ⟨view_rel (d := d) h he, lastApplied_perm (d := d) h he hs, lastApplied_keys_nodup h.nodup ho,
    activeEvs_sessions_nodup h.nodup ho⟩

end

/-! ### stateful schedulers, two-sided -/

/-- on the (state, view) pairs that satisfy `P`: related states and related views are answered with the
    same dict and related next states, or with the same error -/
def SchedEquivariantSt {τ τ' : Type} (σ : List Nat) (R : τ → τ' → Prop) (P : τ → View K → Prop)
    (sched : τ → View K → Except EventCore.Err (Schedule K × τ))
    (sched' : τ' → View K → Except EventCore.Err (Schedule K × τ')) : Prop :=
  ∀ st st' v v', R st st' → ViewRelL σ v v' → P st v →
    (∀ a st1, sched st v = .ok (a, st1) →
      ∃ a' st1', sched' st' v' = .ok (a', st1') ∧ DictEq a' a ∧ R st1 st1') ∧
    (∀ e, sched st v = .error e → sched' st' v' = .error e)

/-- the (scheduler state, view) pairs handed out along `runSt` -/
def runViewsSt {τ : Type} (cfg : Cfg K) (sched : τ → View K → Except EventCore.Err (Schedule K × τ)) :
    Nat → τ → State K → List (τ × View K)
  | 0, _, _ => []
  | n + 1, st, s =>
    if guard s.core then
      match bodySt cfg sched st s with
      | ((s', none), st') => (handedView cfg s).toList.map (fun v => (st, v)) ++ runViewsSt cfg sched n st' s'
      | ((_, some _), _) => (handedView cfg s).toList.map (fun v => (st, v))
    else []

/-- a scheduler that ignores its state: one trip round the loop (re-proved here: `Lemmas/SimStRun.lean`
    cannot be imported next to `Lemmas/EquivPilots.lean`) -/
theorem bodySt_lift_eq {τ : Type} (cfg : Cfg K) (sched : View K → Except EventCore.Err (Schedule K)) (st : τ)
    (s : State K) : bodySt cfg (lift sched) st s = (Sim.body cfg sched s, st) := by
  unfold bodySt Sim.body
  rcases Sim.eventsStage cfg s with ⟨s1, _ | e⟩
  · simp only
    split
    · have hss : schedStageSt cfg (lift (σ := τ) sched) st { s1 with core := markInvoked s1.core } =
          (schedStage cfg sched { s1 with core := markInvoked s1.core }).map (fun m => (m, st)) := by
        unfold schedStageSt schedStage lift
        split
        · rfl
        · cases sched (view cfg { s1 with core := markInvoked s1.core }) with
          | error e => rfl
          | ok sch =>
            simp only
            cases Pilots.updateSchedules (cfg.stations.map (·.id)) s1.pilots (markInvoked s1.core).iter
                ((lastTs (markInvoked s1.core).pending).map Int.toNat) sch with
            | error e => rfl
            | ok m => rfl
      rw [hss]
      cases schedStage cfg sched { s1 with core := markInvoked s1.core } with
      | error e => rfl
      | ok m => rfl
    · rfl
  · rfl

theorem runSt_lift_eq {τ : Type} (cfg : Cfg K) (sched : View K → Except EventCore.Err (Schedule K)) :
    ∀ (n : Nat) (st : τ) (s : State K), runSt cfg (lift sched) n st s = (Sim.run cfg sched n s, st) := by
  intro n
  induction n with
  | zero => intro st s; rfl
  | succ n ih =>
    intro st s
    unfold runSt Sim.run
    split
    · rw [bodySt_lift_eq]
      rcases Sim.body cfg sched s with ⟨s', _ | e⟩
      · simp only; exact ih st s'
      · rfl
    · rfl

theorem runViewsSt_lift {τ : Type} (cfg : Cfg K) (sched : View K → Except EventCore.Err (Schedule K)) :
    ∀ (n : Nat) (st : τ) (s : State K),
      runViewsSt cfg (lift sched) n st s = (runViews cfg sched n s).map (fun v => (st, v)) := by
  intro n
  induction n with
  | zero => intro st s; rfl
  | succ n ih =>
    intro st s
    unfold runViewsSt runViews
    split
    · rw [bodySt_lift_eq]
      rcases hb : Sim.body cfg sched s with ⟨s1, _ | e⟩
      · simp only [List.map_append]
        rw [ih st s1]
      · rfl
    · rfl

section
variable {σ : List Nat} {d : Station K} {cfg : Cfg K} {τ τ' : Type} {R : τ → τ' → Prop} {P : τ → View K → Prop}
  {sched : τ → View K → Except EventCore.Err (Schedule K × τ)}
  {sched' : τ' → View K → Except EventCore.Err (Schedule K × τ')}

theorem schedStageSt_equiv_E (h : PermOK σ cfg) (hsch : SchedEquivariantSt σ R P sched sched')
    {st : τ} {st' : τ'} (hR : R st st') {s s' : State K} (he : StEquiv σ s s')
    (hs : Shape cfg.stations.length s) (ho : OccSound cfg.core s.core.occ)
    (hP : (activeEvs cfg s).any (fun e => !sessionInfoOk e) = false → P st (view cfg s)) :
    (∀ m st1, schedStageSt cfg sched st s = .ok (m, st1) →
      ∃ st1', schedStageSt (permCfg σ d cfg) sched' st' s' = .ok (m.reidx σ, st1') ∧ R st1 st1') ∧
    (∀ e, schedStageSt cfg sched st s = .error e → schedStageSt (permCfg σ d cfg) sched' st' s' = .error e) := by
  unfold schedStageSt
  rw [any_perm (activeEvs_perm (d := d) h he), permCfg_ids h, he.pilots, he.core]
  by_cases ha : (activeEvs cfg s).any (fun e => !sessionInfoOk e) = true
  · simp only [ha, if_true]
    exact ⟨fun m st1 hm => (by cases hm), fun e he' => (by simpa using he')⟩
  · have ha' : (activeEvs cfg s).any (fun e => !sessionInfoOk e) = false := by simpa using ha
    simp only [ha, Bool.false_eq_true, if_false]
    obtain ⟨hok, herr⟩ := hsch st st' _ _ hR (view_relL (d := d) h he hs ho) (hP ha')
    have hσ' : σ.Perm (List.range (cfg.stations.map (·.id)).length) := by simpa using h.perm
    cases hsv : sched st (view cfg s) with
    | error e0 =>
      rw [herr e0 hsv]
      exact ⟨fun m st1 hm => (by cases hm), fun e he' => (by simpa using he')⟩
    | ok p =>
      obtain ⟨a, st1⟩ := p
      obtain ⟨a', st1', hsv', hde, hR1⟩ := hok a st1 hsv
      rw [hsv']
      simp only
      rw [updateSchedules_dictEq _ _ _ _ hde,
        Pilots.updateSchedules_reidx σ _ hσ' s.pilots (by simpa using hs.pilots)]
      cases hu : Pilots.updateSchedules (cfg.stations.map (·.id)) s.pilots s.core.iter
          ((lastTs s.core.pending).map Int.toNat) a with
      | error e1 =>
        simp only [Except.map]
        exact ⟨fun m st1 hm => (by cases hm), fun e he' => (by simpa using he')⟩
      | ok m0 =>
        simp only [Except.map]
        refine ⟨?_, fun e he' => by cases he'⟩
        intro m st2 hm
        simp only [Except.ok.injEq, Prod.mk.injEq] at hm
        obtain ⟨rfl, rfl⟩ := hm
        exact ⟨st1', rfl, hR1⟩

theorem schedStageSt_rows {st : τ} {s : State K} {m : Pilots.Mat K} {st1 : τ}
    (hs : Shape cfg.stations.length s) (h : schedStageSt cfg sched st s = .ok (m, st1)) :
    m.rows.length = cfg.stations.length := by
  unfold schedStageSt at h
  split at h
  · simp at h
  · split at h
    · simp at h
    · split at h
      · simp at h
      · rename_i m' hu
        simp only [Except.ok.injEq, Prod.mk.injEq] at h
        rw [← h.1]
        have := updateSchedules_rows (by simpa using hs.pilots) hu
        simpa using this

/-- one trip round the loop, two-sided -/
theorem bodySt_equiv_E (h : PermOK σ cfg) (hsch : SchedEquivariantSt σ R P sched sched')
    {st : τ} {st' : τ'} (hR : R st st') {s s' : State K} (he : StEquiv σ s s')
    (hs : Shape cfg.stations.length s) (ho : OccSound cfg.core s.core.occ)
    (hP : ∀ v, handedView cfg s = some v → P st v) :
    ((bodySt (permCfg σ d cfg) sched' st' s').1.2 = (bodySt cfg sched st s).1.2 ∧
      StEquiv σ (bodySt cfg sched st s).1.1 (bodySt (permCfg σ d cfg) sched' st' s').1.1 ∧
      Shape cfg.stations.length (bodySt cfg sched st s).1.1 ∧
      OccSound cfg.core (bodySt cfg sched st s).1.1.core.occ ∧
      ((bodySt cfg sched st s).1.2 = none → R (bodySt cfg sched st s).2 (bodySt (permCfg σ d cfg) sched' st' s').2)) ∨
    (∃ e e', (bodySt cfg sched st s).1.2 = some e ∧ (bodySt (permCfg σ d cfg) sched' st' s').1.2 = some e' ∧
      IsPilotErr e ∧ IsPilotErr e' ∧
      AbortEquiv σ (bodySt cfg sched st s).1.1 (bodySt (permCfg σ d cfg) sched' st' s').1.1) := by
  obtain ⟨h1, he1, hs1⟩ := eventsStage_equiv_st (d := d) h he hs
  have ho1 := (eventsStage_frame cfg s ho).2.2.2.2.2
  have hmr : (permCfg σ d cfg).maxRecompute = cfg.maxRecompute := rfl
  unfold bodySt
  unfold handedView consulted at hP
  rcases hev : Sim.eventsStage cfg s with ⟨s1, e1⟩
  rcases hev' : Sim.eventsStage (permCfg σ d cfg) s' with ⟨s1', e1'⟩
  rw [hev] at h1 he1 hs1 ho1 hP
  rw [hev'] at h1 he1
  simp only at h1 he1 hs1 ho1
  subst h1
  cases e1' with
  | some e => exact Or.inl ⟨rfl, he1, hs1, ho1, fun hc => by cases hc⟩
  | none =>
    simp only [hmr, he1.core] at hP ⊢
    by_cases hn : needsSched cfg.maxRecompute s1.core = true
    · simp only [hn, if_true] at hP ⊢
      have he2 : StEquiv σ { s1 with core := markInvoked s1.core } { s1' with core := markInvoked s1.core } :=
        ⟨rfl, he1.pilots, he1.rates, he1.peak, he1.evs, he1.evsePilot, he1.noiseIdx, he1.occLog⟩
      have hs2 : Shape cfg.stations.length { s1 with core := markInvoked s1.core } :=
        ⟨hs1.pilots, hs1.rates, hs1.evsePilot⟩
      have ho2 : OccSound cfg.core ({ s1 with core := markInvoked s1.core } : State K).core.occ := ho1
      have hP2 : (activeEvs cfg { s1 with core := markInvoked s1.core }).any (fun e => !sessionInfoOk e) = false →
          P st (view cfg { s1 with core := markInvoked s1.core }) := by
        intro hany
        apply hP
        simp [hany]
      obtain ⟨hok, herr⟩ := schedStageSt_equiv_E (d := d) h hsch hR he2 hs2 ho2 hP2
      cases hss : schedStageSt cfg sched st { s1 with core := markInvoked s1.core } with
      | error e =>
        rw [herr e hss]
        exact Or.inl ⟨rfl, he2, hs2, ho2, fun hc => by cases hc⟩
      | ok p =>
        obtain ⟨m, st1⟩ := p
        obtain ⟨st1', hss', hR1⟩ := hok m st1 hss
        rw [hss']
        simp only
        have hm := schedStageSt_rows hs2 hss
        have he3 : StEquiv σ { s1 with core := markScheduled (markInvoked s1.core), pilots := m }
            { s1' with core := markScheduled (markInvoked s1.core), pilots := m.reidx σ } :=
          ⟨rfl, rfl, he1.rates, he1.peak, he1.evs, he1.evsePilot, he1.noiseIdx, he1.occLog⟩
        have hs3 : Shape cfg.stations.length { s1 with core := markScheduled (markInvoked s1.core), pilots := m } :=
          ⟨hm, hs1.rates, hs1.evsePilot⟩
        have ho3 : OccSound cfg.core
            ({ s1 with core := markScheduled (markInvoked s1.core), pilots := m } : State K).core.occ := ho1
        rcases applyStage_equiv_E (d := d) h he3 hs3 ho3 with ⟨a1, a2, a3⟩ | ⟨e, e', b1, b2, b3, b4, b5⟩
        · refine Or.inl ⟨a1, a2, a3, ?_, fun _ => hR1⟩
          rw [applyStage_occ]; exact ho3
        · exact Or.inr ⟨e, e', b1, b2, b3, b4, b5⟩
    · simp only [hn, Bool.false_eq_true, if_false]
      have he2 : StEquiv σ s1 { s1' with core := s1.core } :=
        ⟨rfl, he1.pilots, he1.rates, he1.peak, he1.evs, he1.evsePilot, he1.noiseIdx, he1.occLog⟩
      have hs' : ({ s1' with core := s1.core } : State K) = s1' := by rw [← he1.core]
      rw [hs'] at he2
      rcases applyStage_equiv_E (d := d) h he2 hs1 ho1 with ⟨a1, a2, a3⟩ | ⟨e, e', b1, b2, b3, b4, b5⟩
      · refine Or.inl ⟨a1, a2, a3, ?_, fun _ => hR⟩
        rw [applyStage_occ]; exact ho1
      · exact Or.inr ⟨e, e', b1, b2, b3, b4, b5⟩

/-- the whole run with a scheduler state threaded, from any pair of related states, ERRORS INCLUDED -/
theorem runSt_equiv_E (h : PermOK σ cfg) (hsch : SchedEquivariantSt σ R P sched sched') :
    ∀ (n : Nat) {st : τ} {st' : τ'} {s s' : State K}, R st st' → StEquiv σ s s' →
    Shape cfg.stations.length s → OccSound cfg.core s.core.occ →
    (∀ p ∈ runViewsSt cfg sched n st s, P p.1 p.2) →
    ((runSt (permCfg σ d cfg) sched' n st' s').1.2 = (runSt cfg sched n st s).1.2 ∧
      StEquiv σ (runSt cfg sched n st s).1.1 (runSt (permCfg σ d cfg) sched' n st' s').1.1 ∧
      ((runSt cfg sched n st s).1.2 = none → R (runSt cfg sched n st s).2 (runSt (permCfg σ d cfg) sched' n st' s').2)) ∨
    (∃ e e', (runSt cfg sched n st s).1.2 = some e ∧ (runSt (permCfg σ d cfg) sched' n st' s').1.2 = some e' ∧
      IsPilotErr e ∧ IsPilotErr e' ∧
      AbortEquiv σ (runSt cfg sched n st s).1.1 (runSt (permCfg σ d cfg) sched' n st' s').1.1) := by
  intro n
  induction n with
  | zero => intro st st' s s' hR he _ _ _; exact Or.inl ⟨rfl, he, fun _ => hR⟩
  | succ n ih =>
    intro st st' s s' hR he hs ho hP
    unfold runViewsSt at hP
    unfold runSt
    rw [he.core]
    by_cases hg : guard s.core = true
    · simp only [hg, if_true] at hP ⊢
      have hPb : ∀ v, handedView cfg s = some v → P st v := by
        intro v hv
        apply hP (st, v)
        rcases bodySt cfg sched st s with ⟨⟨s1, _ | e⟩, st1⟩ <;> simp [hv]
      rcases bodySt_equiv_E (d := d) h hsch hR he hs ho hPb with ⟨a1, a2, a3, a4, a5⟩ | ⟨e, e', b1, b2, b3, b4, b5⟩
      · rcases hb : bodySt cfg sched st s with ⟨⟨s1, e1⟩, st1⟩
        rcases hb' : bodySt (permCfg σ d cfg) sched' st' s' with ⟨⟨s1', e1'⟩, st1'⟩
        rw [hb] at a1 a2 a3 a4 a5 hP
        rw [hb'] at a1 a2 a5
        simp only at a1 a2 a3 a4 a5
        subst a1
        cases e1' with
        | some e => exact Or.inl ⟨rfl, a2, fun hc => by cases hc⟩
        | none =>
          simp only at hP ⊢
          exact ih (a5 rfl) a2 a3 a4 (fun p hp => hP p (List.mem_append_right _ hp))
      · rcases hb : bodySt cfg sched st s with ⟨⟨s1, e1⟩, st1⟩
        rcases hb' : bodySt (permCfg σ d cfg) sched' st' s' with ⟨⟨s1', e1'⟩, st1'⟩
        rw [hb] at b1 b5
        rw [hb'] at b2 b5
        simp only at b1 b2 b5
        subst b1 b2
        exact Or.inr ⟨e, e', rfl, rfl, b3, b4, b5⟩
    · simp only [hg, Bool.false_eq_true, if_false]
      exact Or.inl ⟨trivial, he, fun _ => hR⟩

end

/-! ### `Sim.run` (a scheduler without state) as the instance `τ = Unit` -/

/-- on the views that satisfy `P`: related views are answered with the same dict, or the same error -/
def SchedEquivariantE (σ : List Nat) (P : View K → Prop)
    (sched sched' : View K → Except EventCore.Err (Schedule K)) : Prop :=
  ∀ v v', ViewRelL σ v v' → P v →
    (∀ a, sched v = .ok a → ∃ a', sched' v' = .ok a' ∧ DictEq a' a) ∧
    (∀ e, sched v = .error e → sched' v' = .error e)

theorem SchedEquivariantE.toSt {σ : List Nat} {P : View K → Prop}
    {sched sched' : View K → Except EventCore.Err (Schedule K)} (h : SchedEquivariantE σ P sched sched') :
    SchedEquivariantSt σ (fun (_ _ : Unit) => True) (fun _ v => P v) (lift sched) (lift sched') := by
  intro st st' v v' _ hv hp
  obtain ⟨hok, herr⟩ := h v v' hv hp
  unfold lift
  constructor
  · intro a st1 ha
    cases hs : sched v with
    | error e => rw [hs] at ha; cases ha
    | ok a0 =>
      rw [hs] at ha
      simp only [Except.ok.injEq, Prod.mk.injEq] at ha
      obtain ⟨a', ha', hde⟩ := hok a0 hs
      rw [ha']
      exact ⟨a', st', rfl, ha.1 ▸ hde, trivial⟩
  · intro e he
    cases hs : sched v with
    | error e0 =>
      rw [hs] at he
      simp only [Except.error.injEq] at he
      rw [herr e0 hs, he]
    | ok a0 => rw [hs] at he; cases he

section
variable {σ : List Nat} {d : Station K} {cfg : Cfg K}

/-- CAPSTONE LEMMA (stations, errors included, `Sim.run`) -/
theorem run_equiv_E (h : PermOK σ cfg) {P : View K → Prop}
    {sched sched' : View K → Except EventCore.Err (Schedule K)} (hsch : SchedEquivariantE σ P sched sched')
    (n : Nat) {s s' : State K} (he : StEquiv σ s s') (hs : Shape cfg.stations.length s)
    (ho : OccSound cfg.core s.core.occ) (hP : ∀ v ∈ runViews cfg sched n s, P v) :
    ((Sim.run (permCfg σ d cfg) sched' n s').2 = (Sim.run cfg sched n s).2 ∧
      StEquiv σ (Sim.run cfg sched n s).1 (Sim.run (permCfg σ d cfg) sched' n s').1) ∨
    (∃ e e', (Sim.run cfg sched n s).2 = some e ∧ (Sim.run (permCfg σ d cfg) sched' n s').2 = some e' ∧
      IsPilotErr e ∧ IsPilotErr e' ∧
      AbortEquiv σ (Sim.run cfg sched n s).1 (Sim.run (permCfg σ d cfg) sched' n s').1) := by
  have key := runSt_equiv_E (d := d) h hsch.toSt n (st := ()) (st' := ()) trivial he hs ho (by
    intro p hp
    rw [runViewsSt_lift] at hp
    obtain ⟨v, hv, rfl⟩ := List.mem_map.1 hp
    exact hP v hv)
  rw [runSt_lift_eq, runSt_lift_eq] at key
  rcases key with ⟨a1, a2, _⟩ | ⟨e, e', b1, b2, b3, b4, b5⟩
  · exact Or.inl ⟨a1, a2⟩
  · exact Or.inr ⟨e, e', b1, b2, b3, b4, b5⟩

end
end Acn.SimEquiv
