/-
  Helper lemmas for C18, part 1: numpy-style list reductions (`colSums`, `vecMat`, `dotK`,
  `phasorPart`, column selection) versus indexed sums `∑ i ∈ Finset.range n, …`.
-/
import AcnModel.Analysis
import AcnProofs.Lemmas.Basic
import Mathlib.Algebra.BigOperators.Group.Finset.Basic
import Mathlib.Algebra.BigOperators.Ring.Finset
import Mathlib.Tactic

namespace Acn.Analysis
open Finset

set_option linter.unusedSectionVars false
variable {K : Type} [Field K]

theorem getD_of_lt {α : Type} (l : List α) (d : α) (i : Nat) (h : i < l.length) : l.getD i d = l[i] := by
  simp [List.getD_eq_getElem?_getD, List.getElem?_eq_getElem h]

theorem getD_of_ge {α : Type} (l : List α) (d : α) (i : Nat) (h : l.length ≤ i) : l.getD i d = d := by
  simp [List.getD_eq_getElem?_getD, List.getElem?_eq_none h]

/-! ### plain list facts -/

theorem foldl_add_eq (l : List K) (a : K) : l.foldl (· + ·) a = a + l.sum := by
  induction l generalizing a with
  | nil => simp
  | cons x xs ih => simp [ih, add_assoc]

theorem sumK_eq_sum (l : List K) : sumK l = l.sum := by
  simp [sumK, foldl_add_eq]

theorem sum_map_range (n : Nat) (f : Nat → K) :
    ((List.range n).map f).sum = ∑ i ∈ range n, f i := by
  induction n with
  | zero => simp
  | succ n ih => simp [List.range_succ, Finset.sum_range_succ, ih]

theorem sumK_map_range (n : Nat) (f : Nat → K) :
    sumK ((List.range n).map f) = ∑ i ∈ range n, f i := by
  rw [sumK_eq_sum, sum_map_range]

theorem sum_eq_sum_getD (l : List K) : l.sum = ∑ t ∈ range l.length, l.getD t 0 := by
  induction l with
  | nil => simp
  | cons x xs ih =>
    rw [List.length_cons, Finset.sum_range_succ', List.sum_cons, ih]
    simp [add_comm]

/-- two lists of the same known length with the same `getD` entries are equal -/
theorem ext_getD {α : Type} (d : α) (n : Nat) (l₁ l₂ : List α) (h₁ : l₁.length = n) (h₂ : l₂.length = n)
    (h : ∀ t < n, l₁.getD t d = l₂.getD t d) : l₁ = l₂ := by
  apply List.ext_getElem (by rw [h₁, h₂])
  intro i hi₁ hi₂
  have := h i (by rw [← h₁]; exact hi₁)
  rwa [getD_of_lt _ _ _ hi₁, getD_of_lt _ _ _ hi₂] at this

theorem zipWith_map_same {α β γ δ : Type} (h : β → γ → δ) (f : α → β) (g : α → γ) (l : List α) :
    List.zipWith h (l.map f) (l.map g) = l.map (fun a => h (f a) (g a)) := by
  induction l with
  | nil => rfl
  | cons x xs ih => simp [ih]

theorem getD_map_range {α : Type} (d : α) (n : Nat) (f : Nat → α) (t : Nat) (ht : t < n) :
    ((List.range n).map f).getD t d = f t := by
  rw [getD_of_lt _ _ _ (by simpa using ht)]
  simp

theorem map_range_getD {α : Type} (F : Nat → α) (cols : List Nat) :
    (List.range cols.length).map (fun u => F (cols.getD u 0)) = cols.map F := by
  apply List.ext_getElem (by simp)
  intro i h₁ h₂
  have hi : i < cols.length := by simpa using h₂
  simp [List.getElem?_eq_getElem hi]

theorem replicate_eq_map_range (T : Nat) : (zerosV T : List K) = (List.range T).map (fun _ => 0) := by
  apply List.ext_getElem (by simp [zerosV])
  intro i h₁ h₂
  simp [zerosV]

theorem getD_zerosV (T t : Nat) : (zerosV T : List K).getD t 0 = 0 := by
  by_cases h : t < T
  · rw [getD_of_lt _ _ _ (by simpa [zerosV] using h)]; simp [zerosV]
  · exact getD_of_ge _ _ _ (by simpa [zerosV] using Nat.le_of_not_lt h)

/-! ### entries of the vector operations -/

theorem getD_addV (a b : List K) (h : a.length = b.length) (t : Nat) :
    (addV a b).getD t 0 = a.getD t 0 + b.getD t 0 := by
  induction a generalizing b t with
  | nil =>
    cases b with
    | nil => simp [addV]
    | cons y ys => simp at h
  | cons x xs ih =>
    cases b with
    | nil => simp at h
    | cons y ys =>
      cases t with
      | zero => simp [addV]
      | succ t =>
        have := ih ys (by simpa using h) t
        simpa [addV] using this

theorem length_addV (a b : List K) : (addV a b).length = min a.length b.length := by
  simp [addV]

theorem getD_scaleV (x : K) (r : List K) (t : Nat) : (scaleV x r).getD t 0 = x * r.getD t 0 := by
  induction r generalizing t with
  | nil => simp [scaleV]
  | cons y ys ih =>
    cases t with
    | zero => simp [scaleV]
    | succ t => simpa [scaleV] using ih t

theorem getD_mulRight (x : K) (r : List K) (t : Nat) :
    (r.map (· * x)).getD t 0 = r.getD t 0 * x := by
  induction r generalizing t with
  | nil => simp
  | cons y ys ih =>
    cases t with
    | zero => simp
    | succ t => simpa using ih t

theorem getD_zipMul (a b : List K) (h : a.length = b.length) (t : Nat) :
    (List.zipWith (· * ·) a b).getD t 0 = a.getD t 0 * b.getD t 0 := by
  induction a generalizing b t with
  | nil =>
    cases b with
    | nil => simp
    | cons y ys => simp at h
  | cons x xs ih =>
    cases b with
    | nil => simp at h
    | cons y ys =>
      cases t with
      | zero => simp
      | succ t =>
        have := ih ys (by simpa using h) t
        simpa using this

theorem ent_cons_succ (r : List K) (rs : Matrix K) (i t : Nat) : ent (r :: rs) (i + 1) t = ent rs i t := by
  simp [ent]

theorem ent_cons_zero (r : List K) (rs : Matrix K) (t : Nat) : ent (r :: rs) 0 t = r.getD t 0 := by
  simp [ent]

/-! ### `A.sum(axis=0)` -/

theorem colSums_aux (T : Nat) (A : Matrix K) (hA : ∀ row ∈ A, row.length = T) (acc : List K)
    (hacc : acc.length = T) :
    (A.foldl addV acc).length = T ∧
      ∀ t, (A.foldl addV acc).getD t 0 = acc.getD t 0 + ∑ i ∈ range A.length, ent A i t := by
  induction A generalizing acc with
  | nil => simp [hacc]
  | cons r rs ih =>
    have hr : r.length = T := hA r (by simp)
    have hrs : ∀ row ∈ rs, row.length = T := fun row h => hA row (by simp [h])
    have hacc' : (addV acc r).length = T := by rw [length_addV, hacc, hr, min_self]
    obtain ⟨hl, hg⟩ := ih hrs (addV acc r) hacc'
    refine ⟨by simpa using hl, fun t => ?_⟩
    rw [List.foldl_cons, hg t, getD_addV acc r (by rw [hacc, hr]), List.length_cons,
      Finset.sum_range_succ']
    simp only [ent_cons_succ, ent_cons_zero]
    ring

/-- closed form of `colSums` -/
theorem colSums_eq (T : Nat) (A : Matrix K) (hA : ∀ row ∈ A, row.length = T) :
    colSums T A = (List.range T).map (fun t => ∑ i ∈ range A.length, ent A i t) := by
  obtain ⟨hl, hg⟩ := colSums_aux T A hA (zerosV T) (by simp [zerosV])
  apply ext_getD 0 T _ _ (by simpa [colSums] using hl) (by simp)
  intro t ht
  rw [colSums, hg t, getD_map_range 0 T _ t ht]
  rw [getD_zerosV, zero_add]

/-! ### `v @ B` -/

theorem vecMat_aux (T : Nat) (B : Matrix K) (hB : ∀ row ∈ B, row.length = T) (v acc : List K)
    (hacc : acc.length = T) :
    ((List.zip v B).foldl (fun acc p => addV acc (scaleV p.1 p.2)) acc).length = T ∧
      ∀ t, ((List.zip v B).foldl (fun acc p => addV acc (scaleV p.1 p.2)) acc).getD t 0
        = acc.getD t 0 + ∑ j ∈ range B.length, v.getD j 0 * ent B j t := by
  induction B generalizing v acc with
  | nil => simp [hacc]
  | cons r rs ih =>
    have hr : r.length = T := hB r (by simp)
    have hrs : ∀ row ∈ rs, row.length = T := fun row h => hB row (by simp [h])
    cases v with
    | nil => simp [hacc]
    | cons x xs =>
      have hacc' : (addV acc (scaleV x r)).length = T := by
        rw [length_addV, hacc]; simp [scaleV, hr]
      obtain ⟨hl, hg⟩ := ih hrs xs (addV acc (scaleV x r)) hacc'
      refine ⟨by simpa using hl, fun t => ?_⟩
      rw [List.zip_cons_cons, List.foldl_cons, hg t,
        getD_addV acc (scaleV x r) (by rw [hacc]; simp [scaleV, hr]), getD_scaleV,
        List.length_cons, Finset.sum_range_succ']
      simp only [ent_cons_succ, ent_cons_zero, List.getD_cons_succ, List.getD_cons_zero]
      ring

/-- closed form of the vector–matrix product -/
theorem vecMat_eq (T : Nat) (v : List K) (B : Matrix K) (hB : ∀ row ∈ B, row.length = T) :
    vecMat T v B = (List.range T).map (fun t => ∑ j ∈ range B.length, v.getD j 0 * ent B j t) := by
  obtain ⟨hl, hg⟩ := vecMat_aux T B hB v (zerosV T) (by simp [zerosV])
  apply ext_getD 0 T _ _ (by simpa [vecMat] using hl) (by simp)
  intro t ht
  rw [vecMat, hg t, getD_map_range 0 T _ t ht]
  rw [getD_zerosV, zero_add]

/-! ### `dot` of two vectors -/

theorem dotK_eq (n : Nat) (a b : List K) (ha : a.length = n) (hb : b.length = n) :
    dotK a b = ∑ t ∈ range n, a.getD t 0 * b.getD t 0 := by
  rw [dotK, sumK_eq_sum, sum_eq_sum_getD]
  have : (List.zipWith (· * ·) a b).length = n := by simp [ha, hb]
  rw [this]
  apply Finset.sum_congr rfl
  intro t _
  exact getD_zipMul a b (by rw [ha, hb]) t

/-! ### phasor schedule and column selection -/

theorem ent_phasorPart (S : Matrix K) (c : List K) (j t : Nat) :
    ent (phasorPart S c) j t = ent S j t * c.getD j 0 := by
  induction S generalizing c j with
  | nil => simp [phasorPart, ent]
  | cons r rs ih =>
    cases c with
    | nil => simp [phasorPart, ent]
    | cons x xs =>
      cases j with
      | zero =>
        simp [phasorPart, ent]
        cases r[t]? <;> simp
      | succ j =>
        have := ih xs j
        simpa [phasorPart, ent] using this

theorem length_phasorPart (S : Matrix K) (c : List K) (hc : c.length = S.length) :
    (phasorPart S c).length = S.length := by
  simp [phasorPart, hc]

theorem rect_phasorPart (T : Nat) (S : Matrix K) (hS : ∀ row ∈ S, row.length = T) (c : List K) :
    ∀ row ∈ phasorPart S c, row.length = T := by
  induction S generalizing c with
  | nil => simp [phasorPart]
  | cons r rs ih =>
    cases c with
    | nil => simp [phasorPart]
    | cons x xs =>
      intro row hrow
      simp only [phasorPart, List.zipWith_cons_cons, List.mem_cons] at hrow
      rcases hrow with rfl | h
      · simpa using hS r (by simp)
      · exact ih (fun row h => hS row (by simp [h])) xs row h

/-- entries after `schedule_matrix[:, cols]` -/
theorem ent_selectCols (R : Matrix K) (cols : List Nat) (j u : Nat) (hu : u < cols.length) :
    ent (R.map (fun row => cols.map (fun t => row.getD t 0))) j u = ent R j (cols.getD u 0) := by
  unfold ent
  by_cases hj : j < R.length
  · simp [List.getD_eq_getElem?_getD, List.getElem?_eq_getElem hj, List.getElem?_eq_getElem hu]
  · have h1 : R.length ≤ j := Nat.le_of_not_lt hj
    simp [List.getD_eq_getElem?_getD, List.getElem?_eq_none h1]

end Acn.Analysis
