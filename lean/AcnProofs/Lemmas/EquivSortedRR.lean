/-
  Helper lemmas for C10 (stations × the sorting-based algorithms): `round_robin` under a re-indexing
  of the stations — the per-station level lists, the rate indices and the rate vector are read in the
  order `σ`, the deque holds the moved sessions, the fuel (`rrMeasure`) is a sum over a permuted list.
-/
import AcnProofs.Lemmas.EquivSortedGreedy

set_option linter.unusedSectionVars false
set_option linter.unusedSimpArgs false
set_option linter.unusedVariables false

namespace Acn.Sorted
open Acn Acn.SimEquiv

variable {K : Type} [Field K] [LinearOrder K] [IsStrictOrderedRing K]

/-- the round-robin state with every station index moved -/
def mvSt (σ : List Nat) (st : RRState K) : RRState K :=
  { sched := reidx σ st.sched 0, rateIdx := reidx σ st.rateIdx 0, queue := st.queue.map (mv σ),
    trace := st.trace.map fun t => (t.1, pos σ t.2.1, t.2.2) }

/-- the shape invariant of the loop -/
structure RROk (n : Nat) (st : RRState K) : Prop where
  sched : st.sched.length = n
  rateIdx : st.rateIdx.length = n
  queue : ∀ s ∈ st.queue, s.idx < n

section
variable {σ : List Nat} {n : Nat} (hσ : σ.Perm (List.range n)) (infra : Infra K)
  (feas feas' : List K → Bool) (hf : ∀ x : List K, x.length = n → feas' (reidx σ x 0) = feas x)
include hσ

theorem rrLevels_mv [HasCeilNat K] (period inc : K) {s : Session K} (hs : s.idx < n) :
    rrLevels (reInfra σ infra) period inc (mv σ s) = rrLevels infra period inc s := by
  unfold rrLevels rrUb
  have hc : (reInfra σ infra).cont.getD (mv σ s).idx true = infra.cont.getD s.idx true :=
    getD_reidx_pos hσ _ _ hs
  have hal : (reInfra σ infra).allow.getD (mv σ s).idx [] = infra.allow.getD s.idx [] :=
    getD_reidx_pos hσ _ _ hs
  have hlb : lbOf (mv σ s) = lbOf s := rfl
  have h1 : (mv σ s).minRate = s.minRate := rfl
  have h2 : (mv σ s).maxRate = s.maxRate := rfl
  simp only [hc, hal, hlb, h1, h2, maxPilot_mv hσ infra hs, rap_mv hσ infra period hs]

theorem rrInit_mv (levelsOf levelsOf' : Session K → List K) (allow0 : List (List K)) (hal : allow0.length = n)
    (q : List (Session K)) (hq : ∀ s ∈ q, s.idx < n) (hlv : ∀ s ∈ q, levelsOf' (mv σ s) = levelsOf s) :
    rrInit levelsOf' n (reidx σ allow0 []) (q.map (mv σ)) =
      (reidx σ (rrInit levelsOf n allow0 q).1 0, reidx σ (rrInit levelsOf n allow0 q).2 []) ∧
    (rrInit levelsOf n allow0 q).1.length = n ∧ (rrInit levelsOf n allow0 q).2.length = n := by
  unfold rrInit
  have gen : ∀ (q : List (Session K)), (∀ s ∈ q, s.idx < n) → (∀ s ∈ q, levelsOf' (mv σ s) = levelsOf s) →
      ∀ (a a' : List K) (b : List (List K)), a' = reidx σ a 0 → a.length = n → b.length = n →
      (q.map (mv σ)).foldl (fun acc s => (acc.1.set s.idx ((levelsOf' s).headD 0), acc.2.set s.idx (levelsOf' s)))
          (a', reidx σ b []) =
        (reidx σ (q.foldl (fun acc s => (acc.1.set s.idx ((levelsOf s).headD 0), acc.2.set s.idx (levelsOf s))) (a, b)).1 0,
         reidx σ (q.foldl (fun acc s => (acc.1.set s.idx ((levelsOf s).headD 0), acc.2.set s.idx (levelsOf s))) (a, b)).2 []) ∧
        (q.foldl (fun acc s => (acc.1.set s.idx ((levelsOf s).headD 0), acc.2.set s.idx (levelsOf s))) (a, b)).1.length = n ∧
        (q.foldl (fun acc s => (acc.1.set s.idx ((levelsOf s).headD 0), acc.2.set s.idx (levelsOf s))) (a, b)).2.length = n := by
    intro q
    induction q with
    | nil => intro _ _ a a' b ha' ha hb; subst ha'; exact ⟨rfl, ha, hb⟩
    | cons s rest ih =>
      intro hq hlv a a' b ha' ha hb
      subst ha'
      have hs := hq s List.mem_cons_self
      simp only [List.map_cons, List.foldl_cons, hlv s List.mem_cons_self]
      have e1 : (reidx σ a 0).set (mv σ s).idx ((levelsOf s).headD 0) = reidx σ (a.set s.idx ((levelsOf s).headD 0)) 0 :=
        reidx_set_pos hσ a 0 _ hs ha
      have e2 : (reidx σ b []).set (mv σ s).idx (levelsOf s) = reidx σ (b.set s.idx (levelsOf s)) [] :=
        reidx_set_pos hσ b [] _ hs hb
      rw [e1, e2]
      exact ih (fun x hx => hq x (List.mem_cons_of_mem _ hx)) (fun x hx => hlv x (List.mem_cons_of_mem _ hx))
        _ _ _ rfl (by simp [ha]) (by simp [hb])
  exact gen q hq hlv (List.replicate n 0) (List.replicate n 0) allow0 (reidx_zeros hσ).symm List.length_replicate hal

include hf

theorem rrStep_mv (levels : List (List K)) (hlv : levels.length = n) (st : RRState K) (hst : RROk n st) :
    rrStep feas' (reidx σ levels []) (mvSt σ st) = mvSt σ (rrStep feas levels st) ∧
    RROk n (rrStep feas levels st) := by
  unfold rrStep
  cases hq : st.queue with
  | nil =>
    have : (mvSt σ st).queue = [] := by simp [mvSt, hq]
    simp only [this]
    exact ⟨trivial, hst⟩
  | cons s rest =>
    have hs : s.idx < n := hst.queue s (by rw [hq]; exact List.mem_cons_self)
    have hrest : ∀ x ∈ rest, x.idx < n := fun x hx => hst.queue x (by rw [hq]; exact List.mem_cons_of_mem _ hx)
    have hqq : (mvSt σ st).queue = mv σ s :: rest.map (mv σ) := by simp [mvSt, hq]
    simp only [hqq]
    have hi : (mv σ s).idx = pos σ s.idx := rfl
    have e1 : (reidx σ levels []).getD (pos σ s.idx) [] = levels.getD s.idx [] := getD_reidx_pos hσ _ _ hs
    have e2 : (mvSt σ st).rateIdx.getD (pos σ s.idx) 0 = st.rateIdx.getD s.idx 0 := getD_reidx_pos hσ _ _ hs
    simp only [hi, e1, e2]
    by_cases hk : st.rateIdx.getD s.idx 0 + 1 < (levels.getD s.idx []).length
    · simp only [hk, if_true]
      have e3 : (mvSt σ st).sched.set (pos σ s.idx) ((levels.getD s.idx []).getD (st.rateIdx.getD s.idx 0 + 1) 0) =
          reidx σ (st.sched.set s.idx ((levels.getD s.idx []).getD (st.rateIdx.getD s.idx 0 + 1) 0)) 0 :=
        reidx_set_pos hσ st.sched 0 _ hs hst.sched
      rw [e3, hf _ (by simp [hst.sched])]
      by_cases hfe : feas (st.sched.set s.idx ((levels.getD s.idx []).getD (st.rateIdx.getD s.idx 0 + 1) 0)) = true
      · simp only [hfe, if_true]
        refine ⟨?_, ⟨by simp [hst.sched], by simp [hst.rateIdx], ?_⟩⟩
        · have e4 : (mvSt σ st).rateIdx.set (pos σ s.idx) (st.rateIdx.getD s.idx 0 + 1) =
              reidx σ (st.rateIdx.set s.idx (st.rateIdx.getD s.idx 0 + 1)) 0 :=
            reidx_set_pos hσ st.rateIdx 0 _ hs hst.rateIdx
          simp only [mvSt, List.map_append, List.map_cons, List.map_nil] at e4 ⊢
          rw [e4]
          rfl
        · intro x hx
          rcases List.mem_append.1 hx with hx | hx
          · exact hrest x hx
          · simp only [List.mem_singleton] at hx; rw [hx]; exact hs
      · simp only [hfe, Bool.false_eq_true, if_false]
        refine ⟨?_, ⟨by simp [hst.sched], hst.rateIdx, hrest⟩⟩
        have e5 : (reidx σ (st.sched.set s.idx ((levels.getD s.idx []).getD (st.rateIdx.getD s.idx 0 + 1) 0)) 0).set
            (pos σ s.idx) ((levels.getD s.idx []).getD (st.rateIdx.getD s.idx 0) 0) =
            reidx σ ((st.sched.set s.idx ((levels.getD s.idx []).getD (st.rateIdx.getD s.idx 0 + 1) 0)).set s.idx
              ((levels.getD s.idx []).getD (st.rateIdx.getD s.idx 0) 0)) 0 :=
          reidx_set_pos hσ _ 0 _ hs (by simp [hst.sched])
        rw [e5]
        simp only [mvSt, List.map_cons]
        rfl
    · simp only [hk, if_false]
      refine ⟨?_, ⟨hst.sched, hst.rateIdx, hrest⟩⟩
      simp only [mvSt, List.map_cons]
      rfl

theorem rrLoop_mv (levels : List (List K)) (hlv : levels.length = n) : ∀ (fuel : Nat) (st : RRState K), RROk n st →
    rrLoop feas' (reidx σ levels []) fuel (mvSt σ st) = mvSt σ (rrLoop feas levels fuel st) ∧
    RROk n (rrLoop feas levels fuel st) := by
  intro fuel
  induction fuel with
  | zero => intro st hst; exact ⟨rfl, hst⟩
  | succ fuel ih =>
    intro st hst
    unfold rrLoop
    cases hq : st.queue with
    | nil =>
      have : (mvSt σ st).queue = [] := by simp [mvSt, hq]
      simp only [this]
      exact ⟨trivial, hst⟩
    | cons s rest =>
      have hqq : (mvSt σ st).queue = mv σ s :: rest.map (mv σ) := by simp [mvSt, hq]
      simp only [hqq]
      obtain ⟨h1, h2⟩ := rrStep_mv hσ feas feas' hf levels hlv st hst
      rw [h1]
      exact ih _ h2

omit hf in
theorem rrMeasure_mv (levels : List (List K)) (hlv : levels.length = n) (q : List (Session K)) (tr : List (String × Nat × Bool))
    (sch : List K) :
    rrMeasure (reidx σ levels []) (mvSt σ ⟨sch, List.replicate n 0, q, tr⟩) =
      rrMeasure levels ⟨sch, List.replicate n 0, q, tr⟩ := by
  unfold rrMeasure
  have hl' : (reidx σ levels []).length = n := reidx_length' hσ _ _
  have hz : reidx σ (List.replicate n (0 : Nat)) 0 = List.replicate n 0 := by
    rw [reidx_replicate σ n 0 0 (perm_lt hσ), perm_length hσ]
  simp only [mvSt, hl', hlv, hz, List.length_map]
  congr 1
  have hσl := perm_length hσ
  have e1 : ((List.range n).map fun i => ((reidx σ levels []).getD i []).length - (List.replicate n 0).getD i 0) =
      σ.map (fun i => (levels.getD i []).length - (List.replicate n 0).getD i 0) := by
    have : σ = (List.range n).map (fun j => σ.getD j 0) := by
      rw [← hσl, range_map_getD]
    conv_rhs => rw [this]
    rw [List.map_map]
    apply List.map_congr_left
    intro j hj
    have hj' : j < σ.length := by rw [hσl]; exact List.mem_range.1 hj
    simp only [Function.comp]
    rw [getD_reidx σ levels [] j hj']
    have hrz : ∀ i, (List.replicate n (0 : Nat)).getD i 0 = 0 := by
      intro i
      rw [List.getD_eq_getElem?_getD, List.getElem?_replicate]
      split <;> rfl
    have h1 := hrz j
    have h2 := hrz (σ.getD j 0)
    rw [h1, h2]
  rw [e1]
  exact (hσ.map _).sum_eq

include hf in
/-- `round_robin` after the sort -/
theorem roundRobin_mv (hn : infra.ids.length = n) (hal : infra.allow.length = n)
    (levelsOf levelsOf' : Session K → List K) (q : List (Session K)) (hq : ∀ s ∈ q, s.idx < n)
    (hlv : ∀ s ∈ q, levelsOf' (mv σ s) = levelsOf s) :
    (roundRobin feas' levelsOf' (reInfra σ infra) (q.map (mv σ))).map (·.sched) =
      (roundRobin feas levelsOf infra q).map (fun st => reidx σ st.sched 0) ∧
    ∀ st, roundRobin feas levelsOf infra q = .ok st → st.sched.length = n := by
  unfold roundRobin
  have hn' : (reInfra σ infra).ids.length = n := reidx_length' hσ _ _
  obtain ⟨hi, hl1, hl2⟩ := rrInit_mv hσ levelsOf levelsOf' infra.allow hal q hq hlv
  have hallow : (reInfra σ infra).allow = reidx σ infra.allow [] := rfl
  simp only [hn, hn', hallow, hi]
  rw [hf _ hl1]
  by_cases hfe : feas (rrInit levelsOf n infra.allow q).1 = true
  · simp only [hfe, Bool.not_true, Bool.false_eq_true, if_false, Except.map]
    have hok : RROk n (⟨(rrInit levelsOf n infra.allow q).1, List.replicate n 0, q, []⟩ : RRState K) :=
      ⟨hl1, by simp, hq⟩
    have hst0 : (⟨reidx σ (rrInit levelsOf n infra.allow q).1 0, List.replicate n 0, q.map (mv σ), []⟩ : RRState K) =
        mvSt σ ⟨(rrInit levelsOf n infra.allow q).1, List.replicate n 0, q, []⟩ := by
      simp only [mvSt, List.map_nil]
      rw [reidx_replicate σ n 0 0 (perm_lt hσ), perm_length hσ]
    rw [hst0, rrMeasure_mv hσ _ hl2]
    obtain ⟨h1, h2⟩ := rrLoop_mv hσ feas feas' hf _ hl2
      (rrMeasure (rrInit levelsOf n infra.allow q).2 ⟨(rrInit levelsOf n infra.allow q).1, List.replicate n 0, q, []⟩)
      _ hok
    rw [h1]
    refine ⟨rfl, ?_⟩
    intro st hst
    simp only [Except.ok.injEq] at hst
    rw [← hst]
    exact h2.sched
  · simp only [hfe, Bool.not_false, if_true, Except.map]
    exact ⟨trivial, fun st hst => by cases hst⟩

end
end Acn.Sorted
