/-
  Helper lemmas for C01 across interruptions (AcnProofs/C01Resume.lean): the state `run()` leaves behind when the
  scheduler raises in period `k` of a `Valid` scenario — `Aborted cfg k c`: the events of period `k` (and of every
  earlier period) are in `event_history`, exactly once, and NOT in the queue any more (nothing to replay); the queue
  holds exactly what the loop head of period `k + 1` expects, in particular the unplug event of every session that
  arrived in period `k` (no follow-up lost); the stations hold the sessions with `arrival ≤ k < departure`.
-/
import AcnProofs.Lemmas.EventCoreRun
import AcnProofs.Lemmas.ResumeTrigger

namespace Acn.EventCore
open Acn

/-- the state an abort inside the scheduler call of period `k` leaves -/
structure Aborted (cfg : Cfg) (k : Nat) (c : Core) : Prop where
  iter : c.iter = k
  pend_nodup : c.pending.Nodup
  /-- the queue of the loop head of period `k + 1`: future plug-ins and recomputes, the unplugs of the connected
      sessions — including those that arrived in period `k` itself -/
  pend_mem : ∀ e, e ∈ c.pending ↔ Expected cfg ((k : Int) + 1) e
  hist_nodup : c.eventHist.Nodup
  /-- every event with timestamp `≤ k` has been processed -/
  hist_mem : ∀ e, e ∈ c.eventHist ↔ Done cfg ((k : Int) + 1) e
  hist_sorted : c.eventHist.Pairwise (fun a b => a.keyLe b = true)
  occ : ∀ st x, c.occ st = some x ↔ x ∈ cfg.sessions ∧ x.station = st ∧ x.arrival ≤ k ∧ (k : Int) < x.departure

variable {cfg : Cfg}

/-- one period with the scheduler that raises in period `k`: the period of the uninterrupted run, or the abort -/
theorem body_failSched_cases (hv : Valid cfg) (k : Nat) {t : Nat} {c : Core} (hI : Inv cfg t c) :
    body cfg (failSchedAt k) noFail c = body cfg noFail noFail c ∨
    ∃ c', body cfg (failSchedAt k) noFail c = (c', some .schedulerFailed) ∧ Aborted cfg k c' := by
  by_cases hk : c.iter = k
  · obtain ⟨c1, h1, hit, _, hH, hP, hO, _⟩ := eventsStage_ok hv hI
    have htk : t = k := by rw [← hI.iter]; exact hk
    subst htk
    by_cases hns : needsSched cfg.maxRecompute c1 = true
    · right
      refine ⟨markInvoked c1, ?_, ?_⟩
      · unfold body
        rw [h1]
        have : failSchedAt t (markInvoked c1) = some .schedulerFailed := by
          simp [failSchedAt, markInvoked, hit]
        simp only [hns, if_true, this]
      · refine ⟨hit, hP.1, ?_, hH.1, ?_, hH.2.2.1, ?_⟩
        · intro e
          show e ∈ c1.pending ↔ _
          rw [hP.2 e, expected_succ hv]
          simp
        · intro e
          show e ∈ c1.eventHist ↔ _
          rw [hH.2.1 e, done_succ hv]
          simp
        · intro st x
          exact occ_after_events hv hO st x
    · left
      unfold body
      rw [h1]
      simp only [hns]
      simp
  · left
    exact body_failSched_ne hk

/-- the run whose scheduler raises in period `k`, from a loop-head state: if it raises at all, then
    `SchedulerFailed`, leaving an `Aborted cfg k` state -/
theorem run_failSched_spec (hv : Valid cfg) (k : Nat) : ∀ (n t : Nat) (c : Core), Inv cfg t c → t ≤ horizon cfg →
    ∀ c' e, run cfg (failSchedAt k) noFail n c = (c', some e) → e = .schedulerFailed ∧ Aborted cfg k c'
  | 0, _, _, _, _, _, _, h => by simp [run] at h
  | n + 1, t, c, hI, ht, c', e, h => by
    simp only [run] at h
    by_cases hg : guard c = true
    · simp only [hg, if_true] at h
      have hlt : t < horizon cfg := by
        rcases Nat.lt_or_ge t (horizon cfg) with hlt | hge
        · exact hlt
        · exfalso
          have hte : t = horizon cfg := le_antisymm ht hge
          have hp : c.pending = [] := by
            by_contra hne
            exact absurd ((pending_ne_nil_iff hv hI).1 hne) (by omega)
          simp [guard, hp, hI.resolve] at hg
      rcases body_failSched_cases hv k hI with hb | ⟨c2, hb, hA⟩
      · obtain ⟨c1, hb1, hI1⟩ := body_ok hv (sched := noFail) (apply := noFail) (fun _ => rfl) (fun _ => rfl) hI
        rw [hb, hb1] at h
        exact run_failSched_spec hv k n (t + 1) c1 hI1 hlt c' e h
      · rw [hb] at h
        simp only [Prod.mk.injEq, Option.some.injEq] at h
        obtain ⟨rfl, rfl⟩ := h
        exact ⟨rfl, hA⟩
    · simp [hg] at h

end Acn.EventCore
