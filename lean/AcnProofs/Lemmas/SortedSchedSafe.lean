/-
  `SchedSafe` for the modelled sorted algorithms (`SimSorted.sortedSched`, no estimator): the final
  assembly of the link lemmas.  Part 1: what the adapter's infrastructure says about station `k`,
  active EVs sit on distinct stations, station indices stay distinct through `resolve` and
  preprocessing.
-/
import AcnProofs.Lemmas.SortedSimInd

set_option linter.unusedSectionVars false

namespace Acn.Sorted
open Acn Acn.Evse Acn.EventCore

/-- the adapter's per-station arrays at a registered station -/
theorem infraOf_at (inf : ℝ) (cfg : Sim.Cfg ℝ) (k : Nat) (st : Sim.Station ℝ)
    (hk : cfg.stations[k]? = some st) :
    (SimSorted.infraOf inf cfg).ids.getD k "" = st.id ∧
    (SimSorted.infraOf inf cfg).volt.getD k 0 = st.voltage ∧
    (SimSorted.infraOf inf cfg).maxPilot.getD k 0 = SimSorted.boundOr inf (Evse.maxRate st.kind) ∧
    (SimSorted.infraOf inf cfg).minPilot.getD k 0 = Evse.minRate st.kind ∧
    (SimSorted.infraOf inf cfg).cont.getD k true = Evse.isContinuous st.kind ∧
    (SimSorted.infraOf inf cfg).allow.getD k [] =
      (Evse.allowable st.kind).map (SimSorted.boundOr inf) := by
  simp [SimSorted.infraOf, List.getD_eq_getElem?_getD, hk]

theorem filterMap_map_nodup {α β γ : Type} (f : α → Option β) (g : β → γ) (h : α → γ) :
    ∀ (l : List α), (l.map h).Nodup → (∀ a ∈ l, ∀ b, f a = some b → g b = h a) →
      ((l.filterMap f).map g).Nodup := by
  intro l
  induction l with
  | nil => intro _ _; simp
  | cons a t ih =>
    intro hnd hfg
    rw [List.map_cons, List.nodup_cons] at hnd
    have iht := ih hnd.2 (fun x hx => hfg x (List.mem_cons_of_mem _ hx))
    rw [List.filterMap_cons]
    cases hfa : f a with
    | none => simpa using iht
    | some b =>
      simp only [List.map_cons, List.nodup_cons]
      refine ⟨?_, iht⟩
      intro hmem
      rw [List.mem_map] at hmem
      obtain ⟨b', hb', hgb⟩ := hmem
      rw [List.mem_filterMap] at hb'
      obtain ⟨a', ha', hfa'⟩ := hb'
      apply hnd.1
      rw [List.mem_map]
      refine ⟨a', ha', ?_⟩
      rw [← hfg a' (List.mem_cons_of_mem _ ha') b' hfa', hgb, hfg a List.mem_cons_self b hfa]

/-- active EVs sit on pairwise distinct stations -/
theorem active_stations_nodup (cfg : Sim.Cfg ℝ) (s : Sim.State ℝ) (hn : Ledger.StationsNodup cfg)
    (hocc : Ledger.OccSound cfg.core s.core.occ) (hsn : (cfg.evs.map (·.session)).Nodup)
    (hst : ∀ e ∈ s.evs, StaticIn cfg e) :
    ((Sim.activeEvs cfg s).map (·.station)).Nodup := by
  unfold Sim.activeEvs
  apply filterMap_map_nodup _ _ (fun st : Sim.Station ℝ => st.id) cfg.stations hn
  intro st _ e he
  cases ho : Sim.occupantEv s st.id with
  | none => rw [ho] at he; cases he
  | some e' =>
    rw [ho] at he
    simp only at he
    split at he
    · cases he
      exact occupant_station cfg s hocc hsn hst st.id e ho
    · cases he

section
variable {K : Type} [Field K] [LinearOrder K] [IsStrictOrderedRing K]

theorem resolve_map_station (infra : Infra K) (raw l : List (Session K))
    (h : List.Forall₂ (fun s s' => ∃ i, i < infra.ids.length ∧ infra.ids.getD i "" = s.station ∧
      s' = { s with idx := i }) raw l) :
    l.map (fun s => infra.ids.getD s.idx "") = raw.map (·.station) := by
  induction h with
  | nil => rfl
  | cons hr _ ih =>
    obtain ⟨i, _, h2, rfl⟩ := hr
    simp only [List.map_cons, ih, h2]

theorem minRel_map_idx (infra : Infra K) (period : K) (q out : List (Session K))
    (h : List.Forall₂ (MinRel infra period) q out) : out.map (·.idx) = q.map (·.idx) := by
  induction h with
  | nil => rfl
  | cons hr _ ih =>
    simp only [List.map_cons, ih]
    rcases hr with rfl | ⟨_, rfl⟩
    · rfl
    · rw [(reconcile_fields _).1]

/-- station indices stay pairwise distinct through preprocessing (no estimator) and the sort -/
theorem order_idx_nodup (feas : List K → Bool) (cfg : Config K) (infra : Infra K) (period : K)
    (time : Int) (prev : String → Option (K × K)) (rd : Rampdown K) (l : List (Session K))
    (hest : cfg.estimate = false) (hnd : (l.map (·.idx)).Nodup) :
    ((sortSessions cfg.sort infra period time
      (preprocess feas cfg infra period prev rd l).1).map (·.idx)).Nodup := by
  have hperm := (sortBy_perm (sortLt cfg.sort infra period time)
    (preprocess feas cfg infra period prev rd l).1).map (·.idx)
  unfold sortSessions
  rw [hperm.nodup_iff]
  have h1 : ((enforcePilotLimit infra (removeFinished infra period l)).map (·.idx)).Nodup := by
    unfold enforcePilotLimit
    rw [List.map_map]
    have : ((fun s : Session K => s.idx) ∘ fun s : Session K =>
        ({ s with maxRate := pyMin s.maxRate (infra.maxPilot.getD s.idx 0) } : Session K)) =
        fun s => s.idx := rfl
    rw [this]
    unfold removeFinished
    exact hnd.sublist (List.filter_sublist.map _)
  unfold preprocess
  simp only [hest, Bool.false_eq_true, if_false]
  by_cases hun : cfg.uninterrupted = true
  · simp only [hun, if_true]
    rw [minRel_map_idx infra period _ _ (applyMinimumRate_rel feas infra period _)]
    have hp2 := (sortBy_perm (fun a b : Session K => decide (a.remainingTime < b.remainingTime))
      (enforcePilotLimit infra (removeFinished infra period l))).map (fun s : Session K => s.idx)
    rw [hp2.nodup_iff]
    exact h1
  · simp only [hun, Bool.false_eq_true, if_false]
    exact h1

end
end Acn.Sorted

namespace Acn.Sorted
open Acn Acn.Evse Acn.EventCore

theorem firstPositive_nonneg (l : List ℝ) : 0 ≤ Evse.firstPositive l := by
  induction l with
  | nil => simp [Evse.firstPositive]
  | cons x xs ih =>
    unfold Evse.firstPositive
    split
    · rename_i h; exact le_of_lt h
    · exact ih

theorem allowable_finite_map (inf : ℝ) (rates : List ℝ) :
    (Evse.allowable (.finite rates)).map (SimSorted.boundOr inf) = rates := by
  simp [Evse.allowable, List.map_map, Function.comp_def, SimSorted.boundOr]

theorem scheduleCall_order {K : Type} [Field K] [LinearOrder K] [IsStrictOrderedRing K] [HasCeilNat K]
    (feas : List K → Bool) (cfg : Config K) (infra : Infra K) (period : K) (time : Int)
    (prev : String → Option (K × K)) (rd : Rampdown K) (raw l : List (Session K))
    (hres : resolve infra raw = .ok l) :
    (scheduleCall feas cfg infra period time prev rd raw).order =
      sortSessions cfg.sort infra period time (preprocess feas cfg infra period prev rd l).1 := by
  unfold scheduleCall
  simp only [hres]
  cases cfg.algo with
  | greedy => rfl
  | roundRobin =>
    simp only
    split <;> rfl

theorem scheduleCall_resolve_error {K : Type} [Field K] [LinearOrder K] [IsStrictOrderedRing K] [HasCeilNat K]
    (feas : List K → Bool) (cfg : Config K) (infra : Infra K) (period : K) (time : Int)
    (prev : String → Option (K × K)) (rd : Rampdown K) (raw : List (Session K)) (e : Err)
    (hres : resolve infra raw = .error e) :
    (scheduleCall feas cfg infra period time prev rd raw).result = .error e := by
  unfold scheduleCall
  simp only [hres]

end Acn.Sorted

namespace Acn.Sorted
open Acn Acn.Evse Acn.EventCore

/-- per EVSE class: a grant obeying `GrantOk` for a session that preprocessing derived from the
    adapter's session (`min_rates = 0`, `max_rates = inf`) has the accepted shape and lies within
    `[0, remaining demand]` -/
theorem grant_to_station (inf : ℝ) (infra : Infra ℝ) (period : ℝ) (kind : Evse.Kind ℝ)
    (hko : KindOk inf kind) (s0 s : Session ℝ) (r : ℝ)
    (hmp : infra.maxPilot.getD s0.idx 0 = SimSorted.boundOr inf (Evse.maxRate kind))
    (hmn : infra.minPilot.getD s0.idx 0 = Evse.minRate kind)
    (hct : infra.cont.getD s0.idx true = Evse.isContinuous kind)
    (hal : infra.allow.getD s0.idx [] = (Evse.allowable kind).map (SimSorted.boundOr inf))
    (hmin0 : s0.minRate = 0) (hmax0 : s0.maxRate = inf)
    (hrap : 0 ≤ rap infra period s0)
    (hd : Derived infra period s0 s) (hg : GrantOk infra period s r) :
    Accepts kind r ∧ 0 ≤ r ∧ r ≤ rap infra period s0 := by
  obtain ⟨hidx, _, hreq, hdel, hcases⟩ := hd
  have hraps : rap infra period s = rap infra period s0 := rap_congr infra period s0 s hidx hreq hdel
  obtain ⟨g1, g2, g3⟩ := hg
  rw [hidx] at g1 g2
  rw [hraps] at g1 g3
  cases kind with
  | deadband db m => exact absurd hko (by simp [KindOk])
  | cont mn mx =>
    cases mx with
    | none => exact absurd hko (by simp [KindOk])
    | some m =>
      obtain ⟨hmn0, hm0, hminf⟩ := hko
      simp only [Evse.maxRate, SimSorted.boundOr] at hmp
      simp only [Evse.minRate] at hmn
      simp only [Evse.isContinuous] at hct
      rw [hmn0] at hmn
      -- bounds of the derived session
      have hb : 0 ≤ s.maxRate ∧ s.minRate ≤ s.maxRate ∧ s.maxRate ≤ m ∧ lbOf s = 0 := by
        rcases hcases with ⟨h1, h2⟩ | ⟨h1, h2⟩ | ⟨_, h1, h2⟩
        · rw [hmin0] at h1; rw [hmax0, hmp, min_eq_right hminf] at h2
          refine ⟨by rw [h2]; exact hm0, by rw [h1, h2]; exact hm0, le_of_eq h2, ?_⟩
          unfold lbOf; rw [h1]; simp
        · refine ⟨by rw [h2], by rw [h1, h2], by rw [h2]; exact hm0, ?_⟩
          unfold lbOf; rw [h1]; simp
        · rw [hmn, hmin0, max_self] at h1
          rw [hmax0, hmp, min_eq_right hminf, h1, max_eq_left hm0] at h2
          refine ⟨by rw [h2]; exact hm0, by rw [h1, h2]; exact hm0, le_of_eq h2, ?_⟩
          unfold lbOf; rw [h1]; simp
      obtain ⟨b1, b2, b3, b4⟩ := hb
      obtain ⟨r0, rm⟩ := g1 hct b1 b2 (by rw [hmp]; exact b3) hrap
      rw [hmp] at rm
      refine ⟨⟨le_of_eq hmn0, r0, rm⟩, r0, ?_⟩
      rw [b4] at g3
      exact le_trans g3 (max_le hrap (min_le_right _ _))
  | finite rates =>
    obtain ⟨h0mem, hnn⟩ := hko
    simp only [Evse.isContinuous] at hct
    rw [allowable_finite_map] at hal
    simp only [Evse.minRate] at hmn
    have hr : r ∈ rates := by
      rcases g2 hct with rfl | h
      · exact h0mem
      · rw [hal] at h; exact h
    refine ⟨hr, hnn r hr, ?_⟩
    have hlb : lbOf s ≤ rap infra period s0 := by
      unfold lbOf
      simp only [pyMax_eq_max]
      rcases hcases with ⟨h1, _⟩ | ⟨h1, _⟩ | ⟨hc1, h1, _⟩
      · rw [h1, hmin0]; simpa using hrap
      · rw [h1]; simpa using hrap
      · rw [h1, hmin0]
        exact max_le hrap (max_le hc1 hrap)
    exact le_trans g3 (max_le hlb (min_le_right _ _))

end Acn.Sorted

namespace Acn.Sorted
open Acn Acn.Evse Acn.EventCore

theorem firstPositive_mem (l : List ℝ) (h0 : (0 : ℝ) ∈ l) : Evse.firstPositive l ∈ l := by
  induction l with
  | nil => simp at h0
  | cons x xs ih =>
    unfold Evse.firstPositive
    split
    · exact List.mem_cons_self
    · rename_i hx
      rcases List.mem_cons.mp h0 with h | h
      · -- x = 0: either a later positive element or the default 0 = x
        by_cases hxs : (0 : ℝ) ∈ xs
        · exact List.mem_cons_of_mem _ (ih hxs)
        · have : Evse.firstPositive xs ∈ xs ∨ Evse.firstPositive xs = 0 := by
            clear ih h0 hx h
            induction xs with
            | nil => right; rfl
            | cons y ys ih2 =>
              unfold Evse.firstPositive
              split
              · left; exact List.mem_cons_self
              · have hys : (0 : ℝ) ∉ ys := fun hm => hxs (List.mem_cons_of_mem _ hm)
                rcases ih2 hys with h1 | h1
                · left; exact List.mem_cons_of_mem _ h1
                · right; exact h1
          rcases this with h1 | h1
          · exact List.mem_cons_of_mem _ h1
          · rw [h1, h]; exact List.mem_cons_self
      · exact List.mem_cons_of_mem _ (ih h)

theorem infraOf_ok (inf : ℝ) (cfg : Sim.Cfg ℝ) (hc : CfgOk cfg inf) :
    InfraOk (SimSorted.infraOf inf cfg) := by
  intro i
  by_cases hi : i < cfg.stations.length
  · have hk : cfg.stations[i]? = some cfg.stations[i] := List.getElem?_eq_getElem hi
    obtain ⟨_, _, _, i4, i5, i6⟩ := infraOf_at inf cfg i _ hk
    have hko := hc.kinds _ (List.getElem_mem hi)
    rw [i4, i5, i6]
    cases hkind : cfg.stations[i].kind with
    | deadband db m => rw [hkind] at hko; exact absurd hko (by simp [KindOk])
    | cont mn mx =>
      rw [hkind] at hko
      cases mx with
      | none => exact absurd hko (by simp [KindOk])
      | some m =>
        obtain ⟨h1, _, _⟩ := hko
        simp [Evse.minRate, Evse.isContinuous, h1]
    | finite rates =>
      rw [hkind] at hko
      obtain ⟨h0, _⟩ := hko
      refine ⟨firstPositive_nonneg rates, fun _ => ?_⟩
      rw [allowable_finite_map]
      exact firstPositive_mem rates h0
  · have h1 : (SimSorted.infraOf inf cfg).minPilot.getD i 0 = 0 := by
      simp [SimSorted.infraOf, List.getD_eq_getElem?_getD, not_lt.mp hi]
    have h2 : (SimSorted.infraOf inf cfg).cont.getD i true = true := by
      simp [SimSorted.infraOf, List.getD_eq_getElem?_getD, not_lt.mp hi]
    rw [h1, h2]
    exact ⟨le_refl _, fun h => absurd h (by simp)⟩

/-- **the modelled sorted algorithms (no estimator) have the per-call guarantees `SchedSafe`** -/
theorem sortedSched_schedSafe [HasCeilNat ℝ] (net : SimSorted.NetInfo ℝ) (inf : ℝ) (cfg : Sim.Cfg ℝ)
    (scfg : Config ℝ) (hc : CfgOk cfg inf) (heps : 0 ≤ scfg.eps) :
    SchedSafe (SimSorted.feasOf net) cfg inf (SimSorted.sortedSched net inf cfg scfg) := by
  constructor
  · intro v e h
    unfold SimSorted.sortedSched at h
    simp only at h
    split at h
    · rename_i e' _
      cases h
      cases e' <;> simp [SimSorted.errOf]
    · cases h
  · intro a hocc hev sch hsch
    unfold SimSorted.sortedSched at hsch
    simp only at hsch
    have hst : ∀ e ∈ a.evs, StaticIn cfg e := fun e he => (hev e he).2
    have hlen : (SimSorted.infraOf inf cfg).allow.length = (SimSorted.infraOf inf cfg).ids.length := by
      simp [SimSorted.infraOf]
    have hn : (SimSorted.infraOf inf cfg).ids.length = cfg.stations.length := by simp [SimSorted.infraOf]
    -- name the pieces of the call
    generalize hraw : (Sim.view cfg a).active.map (SimSorted.sessionOfEv inf (Sim.view cfg a).iter) = raw at hsch
    generalize hcfg' : ({ scfg with estimate := false } : Config ℝ) = cfg' at hsch
    have hest : cfg'.estimate = false := by rw [← hcfg']
    have heps' : 0 ≤ cfg'.eps := by rw [← hcfg']; exact heps
    generalize hrd : ({ upTh := 0, downTh := 0, upInc := 0, bounds := [] } : Rampdown ℝ) = rd0 at hsch
    generalize hprev : (fun _ : String => (none : Option (ℝ × ℝ))) = prev0 at hsch
    cases hr : (scheduleCall (SimSorted.feasOf net) cfg' (SimSorted.infraOf inf cfg) cfg.period
        ((Sim.view cfg a).iter : Int) prev0 rd0 raw).result with
    | error e => rw [hr] at hsch; cases hsch
    | ok arr =>
      rw [hr] at hsch
      simp only [Except.ok.injEq] at hsch
      subst hsch
      cases hres : resolve (SimSorted.infraOf inf cfg) raw with
      | error e =>
        rw [scheduleCall_resolve_error _ _ _ _ _ _ _ _ e hres] at hr
        cases hr
      | ok l =>
        have hF := resolve_spec (SimSorted.infraOf inf cfg) raw l hres
        have hactive : (Sim.view cfg a).active = Sim.activeEvs cfg a := rfl
        -- distinct station indices
        have hrs : raw.map (·.station) = (Sim.activeEvs cfg a).map (·.station) := by
          rw [← hraw, hactive, List.map_map]; rfl
        have hndl : (l.map (·.idx)).Nodup := by
          have h1 := resolve_map_station (SimSorted.infraOf inf cfg) raw l hF
          have h2 : ((l.map (·.idx)).map (fun i => (SimSorted.infraOf inf cfg).ids.getD i "")).Nodup := by
            rw [List.map_map]
            show (l.map (fun s => (SimSorted.infraOf inf cfg).ids.getD s.idx "")).Nodup
            rw [h1, hrs]
            exact active_stations_nodup cfg a hc.nod hocc hc.sess hst
          exact List.Nodup.of_map _ h2
        have hord := scheduleCall_order (SimSorted.feasOf net) cfg' (SimSorted.infraOf inf cfg) cfg.period
          ((Sim.view cfg a).iter : Int) prev0 rd0 raw l hres
        have hl_idx : ∀ s0 ∈ l, s0.idx < cfg.stations.length := by
          intro s0 hs0
          obtain ⟨sr, _, i, hi, _, rfl⟩ := forall₂_mem_right hF s0 hs0
          rw [← hn]; exact hi
        have hmem_ord : ∀ s, s ∈ (scheduleCall (SimSorted.feasOf net) cfg' (SimSorted.infraOf inf cfg)
            cfg.period ((Sim.view cfg a).iter : Int) prev0 rd0 raw).order →
            ∃ s0 ∈ l, Derived (SimSorted.infraOf inf cfg) cfg.period s0 s := by
          intro s hs
          rw [hord] at hs
          unfold sortSessions at hs
          rw [mem_sortBy] at hs
          exact preprocess_derived _ cfg' _ _ prev0 rd0 l hest s hs
        have hnd : ((scheduleCall (SimSorted.feasOf net) cfg' (SimSorted.infraOf inf cfg) cfg.period
            ((Sim.view cfg a).iter : Int) prev0 rd0 raw).order.map (·.idx)).Nodup := by
          rw [hord]
          exact order_idx_nodup _ cfg' _ _ _ prev0 rd0 l hest hndl
        have hidx : ∀ s ∈ (scheduleCall (SimSorted.feasOf net) cfg' (SimSorted.infraOf inf cfg) cfg.period
            ((Sim.view cfg a).iter : Int) prev0 rd0 raw).order,
            s.idx < (SimSorted.infraOf inf cfg).ids.length := by
          intro s hs
          obtain ⟨s0, hs0, hd⟩ := hmem_ord s hs
          rw [hn, hd.1]; exact hl_idx s0 hs0
        obtain ⟨_, hg, hz⟩ := scheduleCall_grants (SimSorted.feasOf net) cfg' heps'
          (SimSorted.infraOf inf cfg) cfg.period _ prev0 rd0 raw l arr hres hlen hnd hidx hr
        have hal := scheduleCall_length (SimSorted.feasOf net) cfg' (SimSorted.infraOf inf cfg) cfg.period
          _ prev0 rd0 raw l arr hres hlen hnd hidx hr
        -- the per-station statement
        have key : ∀ k st, cfg.stations[k]? = some st →
            Accepts st.kind (arr.getD k 0) ∧
            ∀ e, Sim.occupantEv a st.id = some e → 0 ≤ arr.getD k 0 ∧ arr.getD k 0 ≤ rapEv cfg st e := by
          intro k st hk
          have hklt : k < cfg.stations.length := (List.getElem?_eq_some_iff.mp hk).1
          have hstm : st ∈ cfg.stations := List.mem_of_getElem? hk
          obtain ⟨i1, i2, i3, i4, i5, i6⟩ := infraOf_at inf cfg k st hk
          have hocc_ok : ∀ e, Sim.occupantEv a st.id = some e → 0 ≤ rapEv cfg st e := by
            intro e he
            have hmem : e ∈ a.evs := by
              unfold Sim.occupantEv at he
              split at he
              · exact List.mem_of_find?_eq_some he
              · cases he
            exact rapEv_nonneg cfg st e (hc.volt st hstm) hc.per (hev e hmem).1.2
          by_cases hq : ∃ s ∈ (scheduleCall (SimSorted.feasOf net) cfg' (SimSorted.infraOf inf cfg)
              cfg.period ((Sim.view cfg a).iter : Int) prev0 rd0 raw).order, s.idx = k
          · obtain ⟨s, hs, hsk⟩ := hq
            obtain ⟨r, hget, hG⟩ := hg s hs
            have hrk : arr.getD k 0 = r := by
              rw [List.getD_eq_getElem?_getD, ← hsk, hget]; rfl
            obtain ⟨s0, hs0, hd⟩ := hmem_ord s hs
            obtain ⟨sr, hsr, i, hi, hids, rfl⟩ := forall₂_mem_right hF s0 hs0
            rw [← hraw, hactive, List.mem_map] at hsr
            obtain ⟨e, he, rfl⟩ := hsr
            have hik : i = k := by rw [← hsk, hd.1]
            subst hik
            -- `e` is the occupant of station `st`
            obtain ⟨st', hst', ho'⟩ := active_is_occupant cfg a e he
            have hes := occupant_station cfg a hocc hc.sess hst st'.id e ho'
            have hsame : st' = st := by
              apply List.inj_on_of_nodup_map hc.nod hst' hstm
              show st'.id = st.id
              rw [← hes, ← i1]; exact hids.symm
            subst hsame
            have hrapEq : rap (SimSorted.infraOf inf cfg) cfg.period
                ({ SimSorted.sessionOfEv inf (Sim.view cfg a).iter e with idx := i } : Session ℝ) =
                rapEv cfg st' e := by
              unfold rap remainingDemand rapEv
              simp only [SimSorted.sessionOfEv]
              rw [i2]
              norm_num
            obtain ⟨c1, c2, c3⟩ := grant_to_station inf (SimSorted.infraOf inf cfg) cfg.period st'.kind
              (hc.kinds st' hstm)
              ({ SimSorted.sessionOfEv inf (Sim.view cfg a).iter e with idx := i } : Session ℝ) s r
              i3 i4 i5 i6 rfl rfl (by rw [hrapEq]; exact hocc_ok e ho') hd hG
            rw [hrk]
            refine ⟨c1, fun e' he' => ?_⟩
            rw [ho'] at he'
            cases he'
            rw [← hrapEq]
            exact ⟨c2, c3⟩
          · have hz' := hz k (by rw [hn]; exact hklt) (fun t ht htk => hq ⟨t, ht, htk⟩)
            have hrk : arr.getD k 0 = 0 := by
              rw [List.getD_eq_getElem?_getD, hz']; rfl
            rw [hrk]
            exact ⟨accepts_zero inf st.kind (hc.kinds st hstm), fun e he => ⟨le_refl _, hocc_ok e he⟩⟩
        have hfeas : SimSorted.feasOf net arr = true := by
          refine scheduleCall_feasible (SimSorted.feasOf net) cfg' (SimSorted.infraOf inf cfg) cfg.period
            _ prev0 rd0 raw l arr hres (infraOf_ok inf cfg hc) hlen ?_ hnd hidx hr
          intro s0 hs0
          obtain ⟨sr, hsr, i, _, _, rfl⟩ := forall₂_mem_right hF s0 hs0
          rw [← hraw, List.mem_map] at hsr
          obtain ⟨e, _, rfl⟩ := hsr
          exact le_refl _
        exact ⟨arr, rfl, by rw [hal, hn], hfeas, fun k st hk => (key k st hk).1,
          fun k st e hk he => (key k st hk).2 e he⟩

end Acn.Sorted
