/-
  T1c, stateful methods — the composition: translated `Simulator._process_event` ∘ translated
  `ChargingNetwork.plugin/unplug` ∘ translated `BaseEVSE.plugin/unplug` ∘ translated `EventQueue.add_event` refines
  `EventCore.processG heapQ (chargingNet stations)` (properties C01, C19).  Separate from CodeTieSimEvent so that a
  lost tie of the network or the queue does not take the parametric theorem with it.
-/
import AcnProofs.Lemmas.CodeTieSimEvent
import AcnProofs.Lemmas.CodeTieNetOps
import AcnProofs.Lemmas.CodeTieQueueOps

set_option linter.unusedSectionVars false

namespace Acn.CodeTie
open Acn Acn.Evse Acn.Gen.Code Acn.EventCore

section
variable {K : Type} [Add K] [Sub K] [Mul K] [Div K] [Neg K] [LT K] [LE K]
  [DecidableLT K] [DecidableLE K] [OfNat K 0] [OfNat K 1] [NatCast K] [HasExp K]

theorem coreOutcome_eq (r : Except PyErr Unit) : coreOutcome r = simOutcome coreErrOfPy r := by
  cases r <;> rfl

/-- in the model a raising `plugin` / `unplug` of `chargingNet` leaves the occupancy as it was -/
theorem chargingNet_plugin_err (sts : List String) (o : String → Option Session) (s : Session)
    (o' : String → Option Session) (er : EventCore.Err) (h : (chargingNet sts).plugin o s = (o', some er)) : o' = o := by
  simp only [chargingNet] at h
  split at h
  · split at h
    · cases h; rfl
    · cases h
  · cases h; rfl

theorem chargingNet_unplug_err (sts : List String) (o : String → Option Session) (s : Session)
    (o' : String → Option Session) (er : EventCore.Err) (h : (chargingNet sts).unplug o s = (o', some er)) : o' = o := by
  simp only [chargingNet] at h
  split at h
  · cases h
  · cases h; rfl

/-- the translated `Simulator._process_event` composed with the translated `ChargingNetwork.plugin` / `.unplug`
    (and, inside them, `BaseEVSE.plugin` / `.unplug`) and the translated `EventQueue.add_event` refines the model's
    `processG` on CPython's heap (`heapQ`) and the occupancy map (`chargingNet`): same error or none, and — also
    when it raises — the same occupancy, heap array, `ev_history` keys, `_resolve`, `_last_schedule_update` -/
theorem sim_process_event_charging_network (cfg : Cfg) (e : Event) (x : Ev K)
    (g : CoreG (String → Option Session)) (py : PySim K (PyNet K) Queue.State)
    (hx : e.kind ≠ .recompute → findSession cfg e.sess = some (Sim.sessionOf x))
    (hfresh : e.kind = .plugin → x.session ∉ g.core.evHist)
    (hst : stationsOf py.network = cfg.stations)
    (hR : SimRel occOf (fun q : Queue.State => q.heap.toList) py g) :
    (processG heapQ (chargingNet cfg.stations) cfg e g).2 =
      coreOutcome (sim_process_event (fun n ev => net_plugin n ev none) net_unplug queue_add_event py ⟨e, x⟩).2 ∧
    SimRel occOf (fun q : Queue.State => q.heap.toList)
      (sim_process_event (fun n ev => net_plugin n ev none) net_unplug queue_add_event py ⟨e, x⟩).1
      (processG heapQ (chargingNet cfg.stations) cfg e g).1 ∧
    stationsOf (sim_process_event (fun n ev => net_plugin n ev none) net_unplug queue_add_event py ⟨e, x⟩).1.network =
      cfg.stations := by
  rw [coreOutcome_eq]
  refine sim_process_event_tie heapQ (chargingNet cfg.stations) cfg occOf (fun q : Queue.State => q.heap.toList)
    (fun n => stationsOf n = cfg.stations) coreErrOfPy (fun n ev => net_plugin n ev none) net_unplug queue_add_event
    e x g py hx (chargingNet_plugin_err cfg.stations) (chargingNet_unplug_err cfg.stations) ?_ ?_ ?_ hfresh hst hR
  · intro n hn
    refine ⟨?_, (net_plugin_stations n x none).trans hn⟩
    rw [← hn, net_plugin_tie n x none, coreOutcome_eq]
  · intro n hn
    refine ⟨?_, (net_unplug_stations n _ _).trans hn⟩
    rw [← hn, net_unplug_tie n (Sim.sessionOf x), coreOutcome_eq]
    rfl
  · intro q ev
    simp [queue_add_event, heapQ, pyEntry]

end
end Acn.CodeTie
