/-
  T1c, stateful methods — the composition: translated `Simulator._process_event` ∘ translated
  `ChargingNetwork.plugin/unplug` ∘ translated `BaseEVSE.plugin/unplug` ∘ translated `EventQueue.add_event` refines
  `EventCore.processG heapQ (chargingNet stations)` (properties C01, C19).  Separate from CodeTieSimEvent so that a
  lost tie of the network or the queue does not take the parametric theorem with it.
-/
import AcnProofs.Lemmas.CodeTieSimEvent
import AcnProofs.Lemmas.CodeTieNetOps
import AcnProofs.Lemmas.CodeTieQueueOps

set_option linter.unusedSectionVars false

set_option linter.unusedSimpArgs false

namespace Acn.CodeTie
open Acn Acn.Evse Acn.Gen.Code Acn.EventCore

section
variable {K : Type} [Add K] [Sub K] [Mul K] [Div K] [Neg K] [LT K] [LE K]
  [DecidableLT K] [DecidableLE K] [OfNat K 0] [OfNat K 1] [NatCast K] [HasExp K]

/-- the translated `Simulator._process_event` composed with the translated `ChargingNetwork.plugin` / `.unplug`
    (and, inside them, `BaseEVSE.plugin` / `.unplug`) and the translated `EventQueue.add_event` refines the model's
    `processG` on CPython's heap (`heapQ`) and the occupancy map (`chargingNet`): same error or none, and the same
    occupancy, heap array, `ev_history` keys, `_resolve`, `_last_schedule_update` afterwards -/
theorem sim_process_event_charging_network (cfg : Cfg) (e : Event) (x : Ev K)
    (g : CoreG (String → Option Session)) (py : PySim K (PyNet K) Queue.State)
    (hx : e.kind ≠ .recompute → findSession cfg e.sess = some (Sim.sessionOf x))
    (hfresh : e.kind = .plugin → x.session ∉ g.core.evHist)
    (hst : stationsOf py.network = cfg.stations)
    (hR : SimRel occOf (fun q : Queue.State => q.heap.toList) py g) :
    (∀ py', sim_process_event (fun n ev => net_plugin n ev none) net_unplug queue_add_event py ⟨e, x⟩ = .ok py' →
        (processG heapQ (chargingNet cfg.stations) cfg e g).2 = none ∧
        SimRel occOf (fun q : Queue.State => q.heap.toList) py' (processG heapQ (chargingNet cfg.stations) cfg e g).1 ∧
        stationsOf py'.network = cfg.stations) ∧
    (∀ er, sim_process_event (fun n ev => net_plugin n ev none) net_unplug queue_add_event py ⟨e, x⟩ = .error er →
        processG heapQ (chargingNet cfg.stations) cfg e g = (g, some (coreErrOfPy er))) := by
  refine sim_process_event_tie heapQ (chargingNet cfg.stations) cfg occOf (fun q : Queue.State => q.heap.toList)
    (fun n => stationsOf n = cfg.stations) coreErrOfPy (fun n ev => net_plugin n ev none) net_unplug queue_add_event
    e x g py hx ?_ ?_ ?_ hfresh hst hR
  · intro n hn
    refine ⟨?_, fun n' h => (net_plugin_stations n n' x none h).trans hn⟩
    rw [← hn, net_plugin_tie n x none]
    cases net_plugin n x none <;> rfl
  · intro n hn
    refine ⟨?_, fun n' h => (net_unplug_stations n n' _ _ h).trans hn⟩
    rw [← hn, net_unplug_tie n (Sim.sessionOf x)]
    show (match net_unplug n x.station (some x.session) with | .ok n' => _ | .error e => _) = _
    cases net_unplug n x.station (some x.session) <;> rfl
  · intro q ev
    simp [queue_add_event, heapQ, pyEntry]

end
end Acn.CodeTie
