/-
  Helper lemmas for C10 (Sim level, shift 2/2): one trip round the loop and the whole run under a time
  shift, from related states (every `maxRecompute`, errors included); a period in which nothing is
  due; the first period of an anchored scenario does not depend on `_last_schedule_update`.
-/
import AcnProofs.Lemmas.EquivSimShift

set_option linter.unusedSectionVars false
set_option linter.unusedSimpArgs false

namespace Acn.SimShift
open Acn Acn.Sim Acn.EventCore Acn.Evse Acn.SimEquiv Acn.Ledger Acn.Pilots

/-! ### the queue never holds a negative timestamp -/

/-- no session departs before period 0 -/
def DepNonneg (cfg : EventCore.Cfg) : Prop := ∀ x ∈ cfg.sessions, 0 ≤ x.departure

theorem step_pending (cfg : EventCore.Cfg) (e : Event) (c : Core) :
    ∀ d ∈ (EventCore.step cfg e c).1.pending, d ∈ c.pending ∨ ∃ x ∈ cfg.sessions, d = unplugEv x := by
  intro d hd
  unfold EventCore.step process at hd
  cases hk : e.kind with
  | recompute => simp only [hk] at hd; exact Or.inl hd
  | unplug =>
    simp only [hk] at hd
    split at hd
    · exact Or.inl hd
    · split at hd <;> exact Or.inl hd
  | plugin =>
    simp only [hk] at hd
    split at hd
    · exact Or.inl hd
    · rename_i x hf
      split at hd
      · split at hd
        · exact Or.inl hd
        · simp only [List.mem_append, List.mem_singleton] at hd
          rcases hd with hd | hd
          · exact Or.inl hd
          · exact Or.inr ⟨x, List.mem_of_find?_eq_some hf, hd⟩
      · exact Or.inl hd

theorem processAll_pendNonneg {cfg : EventCore.Cfg} (hd : DepNonneg cfg) : ∀ (es : List Event) (c : Core),
    PendNonneg c → PendNonneg (EventCore.processAll cfg es c).1 := by
  intro es
  induction es with
  | nil => intro c h; exact h
  | cons e es ih =>
    intro c h
    have h1 : PendNonneg (EventCore.step cfg e c).1 := by
      intro d hdm
      rcases step_pending cfg e c d hdm with h2 | ⟨x, hx, rfl⟩
      · exact h d h2
      · exact hd x hx
    simp only [EventCore.processAll]
    obtain ⟨c2, r, hs⟩ : ∃ c2 r, EventCore.step cfg e c = (c2, r) := ⟨_, _, rfl⟩
    rw [hs] at h1 ⊢
    cases r with
    | none => exact ih c2 h1
    | some err => exact h1

theorem eventsStage_pendNonneg {cfg : EventCore.Cfg} (hd : DepNonneg cfg) (c : Core) (h : PendNonneg c) :
    PendNonneg (EventCore.eventsStage cfg c).1 := by
  unfold EventCore.eventsStage
  apply processAll_pendNonneg hd
  intro e he
  simp only [popCurrent, List.mem_filter] at he
  exact h e he.1

variable {K : Type} [Field K] [LinearOrder K] [IsStrictOrderedRing K] [HasExp K]

theorem sim_eventsStage_pendNonneg {cfg : Cfg K} (hd : DepNonneg cfg.core) (s : State K) (h : PendNonneg s.core) :
    PendNonneg (Sim.eventsStage cfg s).1.core := by
  have := Sim.eventsStage_core cfg s
  have h2 : (Sim.eventsStage cfg s).1.core = (EventCore.eventsStage cfg.core s.core).1 := by rw [← this]
  rw [h2]
  exact eventsStage_pendNonneg hd _ h

theorem body_pendNonneg {cfg : Cfg K} (hd : DepNonneg cfg.core) (sched : View K → Except EventCore.Err (Schedule K))
    (s : State K) (h : PendNonneg s.core) (hok : (Sim.body cfg sched s).2 = none) :
    PendNonneg (Sim.body cfg sched s).1.core := by
  have hb := Sim.body_core cfg sched s hok
  have h2 : (Sim.body cfg sched s).1.core = (EventCore.body cfg.core noFail noFail s.core).1 := by rw [hb]
  rw [h2]
  have h1 := eventsStage_pendNonneg hd s.core h
  unfold EventCore.body
  obtain ⟨c1, r, hs⟩ : ∃ c1 r, EventCore.eventsStage cfg.core s.core = (c1, r) := ⟨_, _, rfl⟩
  rw [hs] at h1 ⊢
  cases r with
  | some e => exact h1
  | none =>
    simp only [noFail, finish]
    split <;> exact h1

section
variable {k : Nat} {V : List Nat} {pre : List (List (Option String))} {cfg : Cfg K}

/-- one trip round the loop commutes with the shift (every `maxRecompute`, errors included) -/
theorem body_shift_sim (hd : DepNonneg cfg.core) {sched sched' : View K → Except EventCore.Err (Schedule K)}
    (hsch : SchedShiftInvariant k sched sched') {s s' : State K} (he : ShEquiv k V pre s s')
    (hp : PendNonneg s.core) :
    (Sim.body (shiftCfgS k cfg) sched' s').2 = (Sim.body cfg sched s).2 ∧
    ShEquiv k V pre (Sim.body cfg sched s).1 (Sim.body (shiftCfgS k cfg) sched' s').1 := by
  obtain ⟨h1, he1⟩ := eventsStage_shift_sim (cfg := cfg) he
  have hp1 := sim_eventsStage_pendNonneg hd s hp
  unfold Sim.body
  have hmr : (shiftCfgS k cfg).maxRecompute = cfg.maxRecompute := rfl
  obtain ⟨s1, e1, hev⟩ : ∃ s1 e1, Sim.eventsStage cfg s = (s1, e1) := ⟨_, _, rfl⟩
  obtain ⟨s1', e1', hev'⟩ : ∃ s1' e1', Sim.eventsStage (shiftCfgS k cfg) s' = (s1', e1') := ⟨_, _, rfl⟩
  rw [hev, hev'] at h1 he1
  rw [hev] at hp1
  rw [hev, hev']
  simp only at h1 he1 hp1
  subst h1
  cases e1' with
  | some e => exact ⟨rfl, he1⟩
  | none =>
    simp only [hmr, he1.core, needsSched_sh, markInvoked_sh, markScheduled_sh]
    by_cases hn : needsSched cfg.maxRecompute s1.core = true
    · simp only [hn, if_true]
      have he2 : ShEquiv k V pre { s1 with core := markInvoked s1.core } { s1' with core := sh k V (markInvoked s1.core) } :=
        ⟨rfl, he1.pilots, he1.rates, he1.peak, he1.evs, he1.evsePilot, he1.noiseIdx, he1.occLog⟩
      have hp2 : PendNonneg ({ s1 with core := markInvoked s1.core } : State K).core := hp1
      rw [schedStage_shift (cfg := cfg) hsch he2 hp2]
      cases schedStage cfg sched { s1 with core := markInvoked s1.core } with
      | error e => exact ⟨rfl, he2⟩
      | ok m =>
        simp only [Except.map]
        exact applyStage_shift (cfg := cfg)
          (s := { s1 with core := markScheduled (markInvoked s1.core), pilots := m })
          ⟨rfl, rfl, he1.rates, he1.peak, he1.evs, he1.evsePilot, he1.noiseIdx, he1.occLog⟩ hp1
    · simp only [hn, Bool.false_eq_true, if_false]
      have hs' : s1' = { s1' with core := sh k V s1.core } := by rw [← he1.core]
      rw [hs']
      exact applyStage_shift (cfg := cfg)
        ⟨rfl, he1.pilots, he1.rates, he1.peak, he1.evs, he1.evsePilot, he1.noiseIdx, he1.occLog⟩ hp1

/-- the whole run from any pair of related states -/
theorem run_shift_sim (hd : DepNonneg cfg.core) {sched sched' : View K → Except EventCore.Err (Schedule K)}
    (hsch : SchedShiftInvariant k sched sched') : ∀ (n : Nat) {s s' : State K}, ShEquiv k V pre s s' →
    PendNonneg s.core →
    (Sim.run (shiftCfgS k cfg) sched' n s').2 = (Sim.run cfg sched n s).2 ∧
    ShEquiv k V pre (Sim.run cfg sched n s).1 (Sim.run (shiftCfgS k cfg) sched' n s').1 := by
  intro n
  induction n with
  | zero => intro s s' he _; exact ⟨rfl, he⟩
  | succ n ih =>
    intro s s' he hp
    simp only [Sim.run]
    rw [he.core, guard_sh]
    by_cases hg : guard s.core = true
    · simp only [hg, if_true]
      obtain ⟨h1, h2⟩ := body_shift_sim hd hsch he hp
      have hp1 := body_pendNonneg hd sched s hp
      obtain ⟨s1, e1, hb⟩ : ∃ s1 e1, Sim.body cfg sched s = (s1, e1) := ⟨_, _, rfl⟩
      obtain ⟨s1', e1', hb'⟩ : ∃ s1' e1', Sim.body (shiftCfgS k cfg) sched' s' = (s1', e1') := ⟨_, _, rfl⟩
      rw [hb, hb'] at h1 h2
      rw [hb] at hp1
      rw [hb, hb']
      simp only at h1 h2 hp1
      subst h1
      cases e1' with
      | some e => exact ⟨rfl, h2⟩
      | none => exact ih h2 (hp1 rfl)
    · simp only [hg, Bool.false_eq_true, if_false]
      exact ⟨trivial, he⟩

end
end Acn.SimShift
