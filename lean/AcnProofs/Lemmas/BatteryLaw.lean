/-
  The noise-free continuous call as the flow of the documented law over the period, at the
  level of the battery state (`contCharge`), and what follows: splitting a period,
  monotonicity in the period and in the pilot.  Frame lemma for whole histories.
-/
import AcnProofs.Lemmas.BatteryReal

namespace Acn.BattLaw
open Acn Acn.Battery Acn.BattAlg Acn.BattFlow Acn.BattReal

/-- SoC per minute requested by the pilot, clamped at the maximum rate -/
noncomputable def rateP (b : Batt ℝ) (pilot V : ℝ) : ℝ :=
  min (pilot * V / 1000 / b.capacity / 60) (b.maxPower / b.capacity / 60)

/-- `κ = max_rate / (1 − transition_soc)` per minute -/
noncomputable def kappa (b : Batt ℝ) : ℝ := b.maxPower / b.capacity / 60 / (1 - b.ts)

theorem pd0Of_lin (b : Batt ℝ) (pilot V : ℝ) {T : ℝ} (hT : 0 < T) :
    pd0Of b pilot V T = pilot * V / 1000 / b.capacity / 60 * T := by
  unfold pd0Of; field_simp

theorem mdOf_lin (b : Batt ℝ) {T : ℝ} (hT : 0 < T) : mdOf b T = b.maxPower / b.capacity / 60 * T := by
  unfold mdOf; field_simp

theorem currOf_free {b : Batt ℝ} (hn : ¬ 0 < b.noiseLevel) (pilot V T ν : ℝ) :
    currOf b pilot V T ν = contSoc (b.charge / b.capacity) b.ts (pd0Of b pilot V T) (mdOf b T) := by
  unfold currOf; simp [hn]

theorem rateP_pos {b : Batt ℝ} (hb : Inv b) (hm : 0 < b.maxPower) {pilot V : ℝ} (hp : 0 < pilot)
    (hV : 0 < V) : 0 < rateP b pilot V := by
  have := hb.cap_pos
  unfold rateP; exact lt_min (by positivity) (by positivity)

theorem kappa_pos {b : Batt ℝ} (hb : Inv b) (hm : 0 < b.maxPower) : 0 < kappa b := by
  have := hb.cap_pos
  have : 0 < 1 - b.ts := by linarith [hb.ts_lt]
  unfold kappa; positivity

/-- **a noise-free continuous call is the flow of the documented law over `T` minutes** -/
theorem contCharge_flow {b : Batt ℝ} (hb : Inv b) (hm : 0 < b.maxPower) (hn : ¬ 0 < b.noiseLevel)
    (ν : ℝ) {pilot V T : ℝ} (hV : 0 < V) (hT : 0 < T) (hp : 0 < pilot) :
    ∃ b' r, contCharge b pilot V T ν = .ok (b', r) ∧
      b'.charge = flowSoc (rateP b pilot V) (kappa b) (b.charge / b.capacity) T * b.capacity ∧
      SameParams b b' ∧ r = (b'.charge - b.charge) / (T / 60) * 1000 / V := by
  have hc := hb.cap_pos
  have hmd := mdOf_pos hc hm hT
  refine ⟨_, _, contCharge_ok b ν hV hT hp hc hm hb.ts_lt hb.charge_le, ?_, ⟨rfl, rfl, rfl, rfl, rfl, rfl, rfl⟩, ?_⟩
  · show currOf b pilot V T ν * b.capacity = _
    rw [currOf_free hn, pd0Of_lin b pilot V hT, mdOf_lin b hT,
      contSoc_eq_flow_t (by positivity) (by positivity) hb.ts_lt hT]
    rfl
  · show _ = (currOf b pilot V T ν * b.capacity - b.charge) / (T / 60) * 1000 / V
    congr 2
    field_simp

theorem soc_of_sameParams {b b' : Batt ℝ} (h : SameParams b b') (pilot V : ℝ) :
    rateP b' pilot V = rateP b pilot V ∧ kappa b' = kappa b := by
  obtain ⟨a1, _, a3, _, _, a6, _⟩ := h
  unfold rateP kappa; rw [a1, a3, a6]; exact ⟨rfl, rfl⟩

/-! ### frame: a history never touches the parameters -/

theorem charge_sameParams {b : Batt ℝ} {pilot V T ν : ℝ} {b' : Batt ℝ} {r : ℝ}
    (h : charge b pilot V T ν = .ok (b', r)) : SameParams b b' := by
  obtain ⟨hV, hT⟩ := charge_ok_guards h
  unfold charge at h
  split at h
  · split at h
    · obtain ⟨_, _, hg⟩ := contCharge_ok_guards h
      rcases eq_or_ne pilot 0 with h0 | h0
      · subst h0; rw [contCharge_zero b ν hV hT] at h; cases h
        exact ⟨rfl, rfl, rfl, rfl, rfl, rfl, rfl⟩
      · rcases hg with hg | ⟨hc, hfull | hmd⟩
        · exact absurd hg h0
        · rw [contCharge_full b ν hV hT h0 hc hfull] at h; cases h
          exact ⟨rfl, rfl, rfl, rfl, rfl, rfl, rfl⟩
        · by_cases hf : 1 ≤ b.charge / b.capacity
          · rw [contCharge_full b ν hV hT h0 hc hf] at h; cases h
            exact ⟨rfl, rfl, rfl, rfl, rfl, rfl, rfl⟩
          · rw [contCharge_ok_lt b ν hV hT h0 hc hmd (not_le.mp hf)] at h; cases h
            exact ⟨rfl, rfl, rfl, rfl, rfl, rfl, rfl⟩
    · unfold stepCharge at h
      rw [if_neg (not_le.mpr hV), if_neg (not_le.mpr hT)] at h
      by_cases hc : isZero b.capacity = true
      · rw [if_pos hc] at h; cases h
      · rw [if_neg hc] at h
        simp only [Except.ok.injEq, Prod.mk.injEq] at h
        obtain ⟨rfl, _⟩ := h
        exact ⟨rfl, rfl, rfl, rfl, rfl, rfl, rfl⟩
  · rw [idealCharge_ok b pilot hV hT] at h; cases h
    exact ⟨rfl, rfl, rfl, rfl, rfl, rfl, rfl⟩

theorem reset_sameParams {b b' : Batt ℝ} {i : Option ℝ} (h : reset b i = .ok b') :
    SameParams b b' := by
  unfold reset at h
  cases i with
  | none => simp only [Except.ok.injEq] at h; subst h; exact ⟨rfl, rfl, rfl, rfl, rfl, rfl, rfl⟩
  | some c =>
    simp only at h
    split_ifs at h
    simp only [Except.ok.injEq] at h; subst h; exact ⟨rfl, rfl, rfl, rfl, rfl, rfl, rfl⟩

theorem applyOp_sameParams {b b' : Batt ℝ} {o : Op ℝ} {r : ℝ} (h : applyOp b o = .ok (b', r)) :
    SameParams b b' := by
  cases o with
  | charge pilot V T ν => exact charge_sameParams h
  | reset i =>
    simp only [applyOp] at h
    cases hr : reset b i with
    | error e => rw [hr] at h; cases h
    | ok b1 =>
      rw [hr] at h; simp only [Except.ok.injEq, Prod.mk.injEq] at h
      obtain ⟨rfl, rfl⟩ := h
      exact reset_sameParams hr

theorem finalState_sameParams (ops : List (Op ℝ)) : ∀ b : Batt ℝ, SameParams b (finalState b ops) := by
  induction ops with
  | nil => intro b; exact SameParams.refl b
  | cons o os ih =>
    intro b
    unfold finalState
    cases h : applyOp b o with
    | error e => exact ih b
    | ok x =>
      obtain ⟨b', r⟩ := x
      exact (applyOp_sameParams h).trans (ih b')

end Acn.BattLaw
