/-
  Helper lemmas for C10 (time shift × the modelled algorithms): `Sorted.scheduleCall` sees time only
  through `arrival` / `estimated_departure` of the sessions and the current period; with all three moved
  by `k` the sort keys compare alike (`estimated_departure − now` is what LLF reads), the remaining
  times are the same, and nothing else of the call reads them — so the adapters
  `SimSorted.sortedSched` / `uncontrolledSched` are `SchedShiftInvariant`.
-/
import AcnProofs.Lemmas.EquivSortedStations
import AcnProofs.Lemmas.EquivSimShift

set_option linter.unusedSectionVars false
set_option linter.unusedSimpArgs false
set_option linter.unusedVariables false

namespace Acn.Sorted
open Acn

variable {K : Type} [Field K] [LinearOrder K] [IsStrictOrderedRing K]

/-- the same session `k` periods later -/
def shS (k : Nat) (s : Session K) : Session K :=
  { s with arrival := s.arrival + k, estDeparture := s.estDeparture + k }

theorem resolve_shS (k : Nat) (infra : Infra K) (raw : List (Session K)) :
    resolve infra (raw.map (shS k)) = (resolve infra raw).map (List.map (shS k)) := by
  rw [resolve_eq, resolve_eq, List.all_map]
  have h1 : (known infra ∘ shS k) = known infra := rfl
  rw [h1]
  by_cases h : raw.all (known infra) = true
  · simp only [h, if_true, Except.map, List.map_map]
    rfl
  · simp only [h, Bool.false_eq_true, if_false, Except.map]

theorem removeFinished_shS (k : Nat) (infra : Infra K) (period : K) (l : List (Session K)) :
    removeFinished infra period (l.map (shS k)) = (removeFinished infra period l).map (shS k) := by
  unfold removeFinished
  rw [List.filter_map]
  rfl

theorem enforcePilotLimit_shS (k : Nat) (infra : Infra K) (l : List (Session K)) :
    enforcePilotLimit infra (l.map (shS k)) = (enforcePilotLimit infra l).map (shS k) := by
  unfold enforcePilotLimit
  rw [List.map_map, List.map_map]
  rfl

theorem sortLt_shS (k : Nat) (kind : SortKind) (infra : Infra K) (period : K) (time : Int) (a b : Session K) :
    sortLt kind infra period (time + k) (shS k a) (shS k b) = sortLt kind infra period time a b := by
  cases kind
  · simp [sortLt, shS]
  · simp [sortLt, shS]
  · simp [sortLt, shS]
  · have e : ∀ s : Session K, laxity infra period (time + k) (shS k s) = laxity infra period time s := by
      intro s
      unfold laxity
      have h1 : (shS k s).estDeparture - (time + (k : Int)) = s.estDeparture - time := by
        simp only [shS]; omega
      rw [h1]
      rfl
    simp only [sortLt, e]
  · rfl

theorem sortSessions_shS (k : Nat) (kind : SortKind) (infra : Infra K) (period : K) (time : Int)
    (l : List (Session K)) :
    sortSessions kind infra period (time + k) (l.map (shS k)) =
      (sortSessions kind infra period time l).map (shS k) := by
  unfold sortSessions
  apply sortBy_map
  intro x _ y _
  exact sortLt_shS k kind infra period time y x

theorem greedyLoop_shS (k : Nat) (feas : List K → Bool) (fuel : Nat) (eps : K) (infra : Infra K) (period : K) :
    ∀ (q : List (Session K)) (sch : List K),
      greedyLoop feas fuel eps infra period (q.map (shS k)) sch = greedyLoop feas fuel eps infra period q sch := by
  intro q
  induction q with
  | nil => intro sch; rfl
  | cons s rest ih =>
    intro sch
    simp only [List.map_cons, greedyLoop]
    have h1 : greedyRate feas fuel eps infra period sch (shS k s) = greedyRate feas fuel eps infra period sch s := rfl
    rw [h1]
    cases greedyRate feas fuel eps infra period sch s with
    | error e => rfl
    | ok r => exact ih _

theorem sortingAlgorithm_shS (k : Nat) (feas : List K → Bool) (fuel : Nat) (eps : K) (infra : Infra K) (period : K)
    (q : List (Session K)) :
    sortingAlgorithm feas fuel eps infra period (q.map (shS k)) = sortingAlgorithm feas fuel eps infra period q := by
  unfold sortingAlgorithm
  have h1 : initSchedule infra.ids.length (q.map (shS k)) = initSchedule infra.ids.length q := by
    unfold initSchedule
    rw [List.foldl_map]
    rfl
  simp only [h1, greedyLoop_shS]

/-- the round-robin state with the deque shifted -/
def shQ (k : Nat) (st : RRState K) : RRState K := { st with queue := st.queue.map (shS k) }

theorem rrStep_shS (k : Nat) (feas : List K → Bool) (levels : List (List K)) (st : RRState K) :
    rrStep feas levels (shQ k st) = shQ k (rrStep feas levels st) := by
  unfold rrStep
  cases hq : st.queue with
  | nil =>
    have : (shQ k st).queue = [] := by simp [shQ, hq]
    simp only [this]
  | cons s rest =>
    have hqq : (shQ k st).queue = shS k s :: rest.map (shS k) := by simp [shQ, hq]
    simp only [hqq]
    have hi : (shS k s).idx = s.idx := rfl
    have hs : (shS k s).session = s.session := rfl
    have e1 : (shQ k st).rateIdx = st.rateIdx := rfl
    have e2 : (shQ k st).sched = st.sched := rfl
    have e3 : (shQ k st).trace = st.trace := rfl
    simp only [hi, hs, e1, e2, e3]
    split
    · split
      · simp [shQ]
      · simp [shQ]
    · simp [shQ]

theorem rrLoop_shS (k : Nat) (feas : List K → Bool) (levels : List (List K)) : ∀ (fuel : Nat) (st : RRState K),
    rrLoop feas levels fuel (shQ k st) = shQ k (rrLoop feas levels fuel st) := by
  intro fuel
  induction fuel with
  | zero => intro st; rfl
  | succ fuel ih =>
    intro st
    unfold rrLoop
    cases hq : st.queue with
    | nil =>
      have : (shQ k st).queue = [] := by simp [shQ, hq]
      simp only [this]
    | cons s rest =>
      have hqq : (shQ k st).queue = shS k s :: rest.map (shS k) := by simp [shQ, hq]
      simp only [hqq]
      rw [rrStep_shS, ih]

theorem roundRobin_shS (k : Nat) (feas : List K → Bool) (levelsOf : Session K → List K)
    (hlv : ∀ s, levelsOf (shS k s) = levelsOf s) (infra : Infra K) (q : List (Session K)) :
    (roundRobin feas levelsOf infra (q.map (shS k))).map (·.sched) = (roundRobin feas levelsOf infra q).map (·.sched) := by
  unfold roundRobin
  have h1 : rrInit levelsOf infra.ids.length infra.allow (q.map (shS k)) = rrInit levelsOf infra.ids.length infra.allow q := by
    unfold rrInit
    rw [List.foldl_map]
    congr 1
    funext acc s
    simp only [hlv]
    rfl
  simp only [h1]
  split
  · rfl
  · have hst : (⟨(rrInit levelsOf infra.ids.length infra.allow q).1, List.replicate infra.ids.length 0, q.map (shS k), []⟩ : RRState K) =
        shQ k ⟨(rrInit levelsOf infra.ids.length infra.allow q).1, List.replicate infra.ids.length 0, q, []⟩ := rfl
    have hm : rrMeasure (rrInit levelsOf infra.ids.length infra.allow q).2
        (shQ k ⟨(rrInit levelsOf infra.ids.length infra.allow q).1, List.replicate infra.ids.length 0, q, []⟩) =
        rrMeasure (rrInit levelsOf infra.ids.length infra.allow q).2
          ⟨(rrInit levelsOf infra.ids.length infra.allow q).1, List.replicate infra.ids.length 0, q, []⟩ := by
      simp [rrMeasure, shQ]
    simp only [hst, hm, rrLoop_shS, Except.map]
    rfl

/-- the whole call (interruptible, no estimator): same rates -/
theorem scheduleCall_shS [HasCeilNat K] (k : Nat) (feas : List K → Bool) (cfgS : Config K)
    (he : cfgS.estimate = false) (hu : cfgS.uninterrupted = false) (infra : Infra K) (period : K) (time : Int)
    (prev : String → Option (K × K)) (rd : Rampdown K) (raw : List (Session K)) :
    (scheduleCall feas cfgS infra period (time + k) prev rd (raw.map (shS k))).result =
      (scheduleCall feas cfgS infra period time prev rd raw).result := by
  unfold scheduleCall
  rw [resolve_shS]
  cases resolve infra raw with
  | error e => rfl
  | ok l =>
    simp only [Except.map, preprocess, he, hu, Bool.false_eq_true, if_false, removeFinished_shS, enforcePilotLimit_shS,
      sortSessions_shS]
    cases cfgS.algo with
    | greedy => simp only [sortingAlgorithm_shS]
    | roundRobin =>
      have h := roundRobin_shS k feas (rrLevels infra period cfgS.inc) (fun _ => rfl) infra
        (sortSessions cfgS.sort infra period time (enforcePilotLimit infra (removeFinished infra period l)))
      simp only
      cases h1 : roundRobin feas (rrLevels infra period cfgS.inc) infra
          ((sortSessions cfgS.sort infra period time (enforcePilotLimit infra (removeFinished infra period l))).map (shS k)) with
      | error e =>
        cases h2 : roundRobin feas (rrLevels infra period cfgS.inc) infra
            (sortSessions cfgS.sort infra period time (enforcePilotLimit infra (removeFinished infra period l))) with
        | error e' => rw [h1, h2] at h; simp only [Except.map, Except.error.injEq] at h; rw [h]
        | ok st => rw [h1, h2] at h; simp [Except.map] at h
      | ok st' =>
        cases h2 : roundRobin feas (rrLevels infra period cfgS.inc) infra
            (sortSessions cfgS.sort infra period time (enforcePilotLimit infra (removeFinished infra period l))) with
        | error e' => rw [h1, h2] at h; simp [Except.map] at h
        | ok st => rw [h1, h2] at h; simp only [Except.map, Except.ok.injEq] at h; simp only [h]

theorem uncontrolled_shS (k : Nat) (infra : Infra K) (l : List (Session K)) :
    uncontrolled infra (l.map (shS k)) = uncontrolled infra l := by
  unfold uncontrolled
  rw [List.foldl_map]
  rfl

end Acn.Sorted

namespace Acn.SimSorted
open Acn Acn.Sim Acn.Sorted Acn.SimShift

variable {K : Type} [Field K] [LinearOrder K] [IsStrictOrderedRing K] [HasExp K]

theorem sessionOfEv_shift (inf : K) (k now : Nat) (e : Evse.Ev K) :
    sessionOfEv inf (now + k) (shiftEvK k e) = shS k (sessionOfEv inf now e) := by
  unfold sessionOfEv shS shiftEvK remainingTime
  simp only
  have h1 : e.departure + (k : Int) - (e.arrival + (k : Int)) = e.departure - e.arrival := by omega
  have h2 : e.departure + (k : Int) - ((now + k : Nat) : Int) = e.departure - (now : Int) := by push_cast; omega
  rw [h1, h2]

/-- the sorting-based algorithms (greedy and round robin, every sort; interruptible, no estimator)
    depend on the view through relative time only -/
theorem sortedSched_shiftInvariant [HasCeilNat K] (k : Nat) (net : NetInfo K) (inf : K) (cfg : Cfg K) (scfg : Config K)
    (hu : scfg.uninterrupted = false) :
    SchedShiftInvariant k (sortedSched net inf cfg scfg) (sortedSched net inf (shiftCfgS k cfg) scfg) := by
  intro v v' hv
  unfold sortedSched
  have hinf : infraOf inf (shiftCfgS k cfg) = infraOf inf cfg := rfl
  have hper : (shiftCfgS k cfg).period = cfg.period := rfl
  have hraw : v'.active.map (sessionOfEv inf v'.iter) = (v.active.map (sessionOfEv inf v.iter)).map (shS k) := by
    rw [hv.active, hv.iter, List.map_map, List.map_map]
    apply List.map_congr_left
    intro e _
    exact sessionOfEv_shift inf k v.iter e
  have htime : ((v'.iter : Nat) : Int) = (v.iter : Int) + (k : Int) := by rw [hv.iter]; push_cast; rfl
  simp only [hinf, hper, hraw, htime]
  rw [scheduleCall_shS k (feasOf net) { scfg with estimate := false } rfl hu]

theorem uncontrolledSched_shiftInvariant (k : Nat) (inf : K) (cfg : Cfg K) :
    SchedShiftInvariant k (uncontrolledSched inf cfg) (uncontrolledSched inf (shiftCfgS k cfg)) := by
  intro v v' hv
  unfold uncontrolledSched
  have hinf : infraOf inf (shiftCfgS k cfg) = infraOf inf cfg := rfl
  have hraw : v'.active.map (sessionOfEv inf v'.iter) = (v.active.map (sessionOfEv inf v.iter)).map (shS k) := by
    rw [hv.active, hv.iter, List.map_map, List.map_map]
    apply List.map_congr_left
    intro e _
    exact sessionOfEv_shift inf k v.iter e
  simp only [hinf, hraw, resolve_shS]
  cases resolve (infraOf inf cfg) (v.active.map (sessionOfEv inf v.iter)) with
  | error e => rfl
  | ok l => simp only [Except.map, uncontrolled_shS]

end Acn.SimSorted
