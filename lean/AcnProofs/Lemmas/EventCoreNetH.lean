/-
  The generalised run loop with the per-period hook (`bodyGP` / `runGP`, `AcnModel/EventCoreGP.lean`)
  for a network whose good behaviour depends on the HISTORY of calls: `NoFailH` is
  `NetOps.NoFail` with the invariant `P` indexed by `event_history`, and with the facts the loop
  guarantees at each call — at a plug-in the plug-in event is new; at an unplug the plug-in event is
  already in the history and the unplug event is new.  `processAllG_okH … runGP_spec` are
  `processAllG_ok … runG_spec` of `EventCoreNet.lean` threading that predicate (proof by stoch-c19,
  moved here so that it exists once).  `NoFail.toH`: the history-free `NoFail` is the special case.
-/
import AcnModel.EventCoreGP
import AcnProofs.Lemmas.EventCoreNet

namespace Acn.EventCore
open Acn

structure NoFailH {σ : Type} (net : NetOps σ) (post : Nat → σ → σ × Option Err) (cfg : Cfg)
    (P : List Event → σ → Prop) : Prop where
  plugin : ∀ hist s, ∀ x ∈ cfg.sessions, P hist s → plugEv x ∉ hist →
    (net.plugin s x).2 = none ∧ P (hist ++ [plugEv x]) (net.plugin s x).1
  unplug : ∀ hist s, ∀ x ∈ cfg.sessions, P hist s → plugEv x ∈ hist →
    unplugEv x ∉ hist →
    (net.unplug s x).2 = none ∧ P (hist ++ [unplugEv x]) (net.unplug s x).1
  recomp : ∀ hist s, ∀ r ∈ cfg.recomputes, P hist s → P (hist ++ [recEv r]) s
  post : ∀ hist t s, P hist s → (post t s).2 = none ∧ P hist (post t s).1

section
variable {σ : Type} {cfg : Cfg} {ops : QOps} {good : List Event → Prop} {net : NetOps σ}
  {post : Nat → σ → σ × Option Err} {P : List Event → σ → Prop}

theorem processAllG_okH (hq : ValidQ cfg) (hops : ops.Ok good) (hnet : NoFailH net post cfg P) (t : Int) :
    ∀ (todo : List Event) (g : CoreG σ),
    todo.Nodup → todo.Pairwise (fun a b => a.keyLe b = true) → (∀ e ∈ todo, Cur (relabel cfg) t e) →
    HistOK (relabel cfg) t todo g.core.eventHist → PendOK (relabel cfg) t todo g.core.pending →
    EvhOK g.core → good g.core.pending → P g.core.eventHist g.net →
    ∃ g', processAllG ops net cfg todo g = (g', none) ∧ g'.core.iter = g.core.iter ∧
      HistOK (relabel cfg) t [] g'.core.eventHist ∧ PendOK (relabel cfg) t [] g'.core.pending ∧
      EvhOK g'.core ∧ good g'.core.pending ∧ P g'.core.eventHist g'.net := by
  have hv' := valid_relabel hq
  intro todo
  induction todo with
  | nil =>
    intro g _ _ _ hH hP hE hG hN
    exact ⟨g, rfl, rfl, hH, hP, hE, hG, hN⟩
  | cons e rest ih =>
    intro g hn hs hc hH hP hE hG hN
    have hn' := (List.nodup_cons.1 hn).2
    have hs' := (List.pairwise_cons.1 hs).2
    have hc' : ∀ e ∈ rest, Cur (relabel cfg) t e := fun d hd => hc d (List.mem_cons_of_mem _ hd)
    have hcur := hc e (by simp)
    have hH' := hH.step hn hs hcur
    have hnew : e ∉ g.core.eventHist := by
      intro hm
      rcases (hH.2.1 e).1 hm with hd | ⟨_, hnot⟩
      · have := hd.ts_lt; have := hcur.ts_eq; omega
      · exact hnot (by simp)
    rcases hcur with ⟨x', hx', rfl, hxa⟩ | ⟨x', hx', rfl, hxa, hxd⟩ | ⟨r, hr, rfl, hrt⟩
    · obtain ⟨x, hx, rfl⟩ := List.mem_map.1 hx'
      obtain ⟨hnf, hnp⟩ := hnet.plugin g.core.eventHist g.net x hx hN hnew
      have hnn : net.plugin g.net x = ((net.plugin g.net x).1, none) := Prod.ext rfl hnf
      have hstep : stepG ops net cfg (plugEv (own x)) g = _ :=
        stepG_plugin (ops := ops) hq hx g _ hnn
      obtain ⟨hpp, hpg⟩ := hops.push g.core.pending (unplugEv x) hG
      obtain ⟨g', h1, h2, h3⟩ := ih
        { core := { g.core with eventHist := g.core.eventHist ++ [plugEv x],
                                evHist := g.core.evHist ++ [x.id],
                                pending := ops.push g.core.pending (unplugEv x), resolve := true,
                                lastUpd := some x.arrival },
          net := (net.plugin g.net x).1 }
        hn' hs' hc' hH' ((hP.step_plugin hv' hx' hxa hn).perm hpp)
        (hE.plugin x _ _ rfl rfl) hpg hnp
      refine ⟨g', ?_, h2, h3⟩
      simp only [processAllG, hstep]; exact h1
    · have hin : plugEv x' ∈ g.core.eventHist :=
        (hH.2.1 _).2 (Or.inl (Or.inl ⟨x', hx', rfl, hxa⟩))
      obtain ⟨x, hx, rfl⟩ := List.mem_map.1 hx'
      obtain ⟨hnf, hnp⟩ := hnet.unplug g.core.eventHist g.net x hx hN hin hnew
      have hnn : net.unplug g.net x = ((net.unplug g.net x).1, none) := Prod.ext rfl hnf
      have hstep : stepG ops net cfg (unplugEv (own x)) g = _ :=
        stepG_unplug (ops := ops) hq hx g _ hnn
      obtain ⟨g', h1, h2, h3⟩ := ih
        { core := { g.core with eventHist := g.core.eventHist ++ [unplugEv x], resolve := true,
                                lastUpd := some x.departure },
          net := (net.unplug g.net x).1 }
        hn' hs' hc' hH' (hP.step_other (fun z => plugEv_ne_unplugEv z (own x)))
        (by unfold EvhOK at hE ⊢; simp [hE, unplugEv]) hG hnp
      refine ⟨g', ?_, h2, h3⟩
      simp only [processAllG, hstep]; exact h1
    · have hstep := stepG_rec (cfg := cfg) (ops := ops) (net := net) r g
      have hr' : r ∈ cfg.recomputes := by simpa [relabel] using hr
      obtain ⟨g', h1, h2, h3⟩ := ih
        { g with core := { g.core with eventHist := g.core.eventHist ++ [recEv r], resolve := true } }
        hn' hs' hc' hH' (hP.step_other (fun z => plugEv_ne_recEv z r))
        (by unfold EvhOK at hE ⊢; simp [hE, recEv]) hG (hnet.recomp _ _ r hr' hN)
      refine ⟨g', ?_, h2, h3⟩
      simp only [processAllG, hstep]; exact h1

theorem eventsStageG_okH (hq : ValidQ cfg) (hops : ops.Ok good) (hnet : NoFailH net post cfg P) {t : Nat}
    {g : CoreG σ} (hI : InvG cfg t g.core) (hG : good g.core.pending) (hN : P g.core.eventHist g.net) :
    ∃ g1, eventsStageG ops net cfg g = (g1, none) ∧ g1.core.iter = t ∧
      HistOK (relabel cfg) t [] g1.core.eventHist ∧ PendOK (relabel cfg) t [] g1.core.pending ∧
      EvhOK g1.core ∧ good g1.core.pending ∧ P g1.core.eventHist g1.net := by
  have hiter := hI.iter
  subst hiter
  unfold eventsStageG
  obtain ⟨q0, hcur, hperm, hgood⟩ := hops.pop g.core.iter g.core.pending hG
  obtain ⟨hp1, hp2, hp3⟩ := hcur.spec
  have hmem : ∀ e, e ∈ (ops.pop g.core.iter g.core.pending).1 ↔ Cur (relabel cfg) (g.core.iter : Int) e := by
    intro e
    rw [hp1.mem_iff, List.mem_filter, hI.pend_mem, cur_iff_expected_le]
    simp
  have hrest : ∀ e, e ∈ (ops.pop g.core.iter g.core.pending).2 ↔
      e ∈ g.core.pending ∧ (g.core.iter : Int) < e.ts := by
    intro e
    rw [hperm.mem_iff, hp3, List.mem_filter]
    simp
  obtain ⟨g1, h1, h2, h3⟩ := processAllG_okH hq hops hnet (g.core.iter : Int) _
    { g with core := { g.core with pending := (ops.pop g.core.iter g.core.pending).2 } }
    (hp1.nodup_iff.2 (hI.pend_nodup.filter _))
    (hp2.imp (fun h => (keyLe_eq_true_iff _ _).2 h)) (fun e he => (hmem e).1 he)
    ⟨hI.hist_nodup, fun e => by
        rw [hI.hist_mem e]
        constructor
        · exact Or.inl
        · rintro (h | ⟨hc, hn⟩)
          · exact h
          · exact absurd ((hmem e).2 hc) hn,
      hI.hist_sorted, fun h hh d hd => keyLe_of_ts_lt (by
        have := ((hI.hist_mem h).1 hh).ts_lt
        have := ((hmem d).1 hd).ts_eq
        omega)⟩
    ⟨hperm.nodup_iff.2 (hp3 ▸ hI.pend_nodup.filter _), fun e => by
        show e ∈ (ops.pop g.core.iter g.core.pending).2 ↔ _
        rw [hrest e, hI.pend_mem e]
        constructor
        · exact Or.inl
        · rintro (h | ⟨x, hx, rfl, hxa, hn⟩)
          · exact h
          · exact absurd ((hmem _).2 (Or.inl ⟨x, hx, rfl, hxa⟩)) hn⟩
    hI.evh hgood hN
  exact ⟨g1, h1, h2, h3⟩

theorem bodyGP_ok (hq : ValidQ cfg) (hops : ops.Ok good) (hnet : NoFailH net post cfg P)
    {sched apply : CoreG σ → Option Err} (hs : ∀ g, sched g = none) (ha : ∀ g, apply g = none)
    {t : Nat} {g : CoreG σ} (hI : InvG cfg t g.core) (hG : good g.core.pending)
    (hN : P g.core.eventHist g.net) :
    ∃ g', bodyGP ops net post cfg sched apply g = (g', none) ∧ InvG cfg (t + 1) g'.core ∧
      good g'.core.pending ∧ P g'.core.eventHist g'.net := by
  have hv' := valid_relabel hq
  obtain ⟨g1, h1, hit, hH, hP, hE, hG1, hN1⟩ := eventsStageG_okH hq hops hnet hI hG hN
  have key : ∀ c2 : Core, c2.iter = t + 1 → c2.pending = g1.core.pending →
      c2.resolve = false → c2.eventHist = g1.core.eventHist → c2.evHist = g1.core.evHist →
      InvG cfg (t + 1) c2 := by
    intro c2 e1 e2 e4 e5 e6
    have hc : ((t + 1 : Nat) : Int) = (t : Int) + 1 := by push_cast; rfl
    refine ⟨e1, e2 ▸ hP.1, ?_, e4, e5 ▸ hH.1, ?_, e5 ▸ hH.2.2.1, ?_⟩
    · intro e
      rw [e2, hP.2 e, hc, expected_succ hv']
      simp
    · intro e
      rw [e5, hH.2.1 e, hc, done_succ hv']
      simp
    · unfold EvhOK at hE ⊢
      rw [e6, e5, hE]
  -- the `bodyG` part, exactly as in `bodyG_ok`
  have hb : ∃ g2, bodyG ops net cfg sched apply g = (g2, none) ∧ InvG cfg (t + 1) g2.core ∧
      good g2.core.pending ∧ g2.core.eventHist = g1.core.eventHist ∧ g2.net = g1.net := by
    unfold bodyG
    rw [h1]
    simp only
    by_cases hns : needsSched cfg.maxRecompute g1.core = true
    · simp only [hns, if_true, hs, ha]
      exact ⟨_, rfl, key _ (by simp [advance, markScheduled, markInvoked, hit]) rfl rfl rfl rfl, hG1,
        rfl, rfl⟩
    · simp only [hns, ha]
      refine ⟨_, rfl, key _ (by simp [advance, hit]) rfl ?_ rfl rfl, hG1, rfl, rfl⟩
      simp only [needsSched, Bool.or_eq_true, not_or, Bool.not_eq_true] at hns
      simpa [advance] using hns.1
  obtain ⟨g2, hb2, hI2, hG2, he2, hn2⟩ := hb
  obtain ⟨hpf, hpp⟩ := hnet.post g1.core.eventHist g.core.iter g1.net hN1
  have hpost : post g.core.iter g2.net = ((post g.core.iter g1.net).1, none) := by
    rw [hn2]; exact Prod.ext rfl hpf
  refine ⟨{ g2 with net := (post g.core.iter g1.net).1 }, ?_, hI2, hG2, ?_⟩
  · simp only [bodyGP, hb2, hpost]
  · show P g2.core.eventHist _
    rw [he2]; exact hpp

theorem runGP_spec (hq : ValidQ cfg) (hops : ops.Ok good) (hnet : NoFailH net post cfg P)
    {sched apply : CoreG σ → Option Err} (hs : ∀ g, sched g = none) (ha : ∀ g, apply g = none) :
    ∀ (n t : Nat) (g : CoreG σ), InvG cfg t g.core → good g.core.pending → P g.core.eventHist g.net →
    t ≤ horizon cfg →
    ∃ g', runGP ops net post cfg sched apply n g = (g', none) ∧
      InvG cfg (min (t + n) (horizon cfg)) g'.core ∧ P g'.core.eventHist g'.net := by
  intro n
  induction n with
  | zero =>
    intro t g hI _ hN ht
    exact ⟨g, rfl, by simpa [Nat.min_eq_left ht] using hI, hN⟩
  | succ n ih =>
    intro t g hI hG hN ht
    rcases Nat.lt_or_ge t (horizon cfg) with hlt | hge
    · have hp := (pendingG_ne_nil_iff hq hI).2 hlt
      have hg : guard g.core = true := by
        unfold guard
        cases hpe : g.core.pending with
        | nil => exact absurd hpe hp
        | cons a l => simp
      obtain ⟨g1, hb, hI1, hG1, hN1⟩ := bodyGP_ok hq hops hnet hs ha hI hG hN
      obtain ⟨g', hr, hI', hN'⟩ := ih (t + 1) g1 hI1 hG1 hN1 hlt
      refine ⟨g', ?_, by rwa [show t + (n + 1) = t + 1 + n by omega], hN'⟩
      simp only [runGP, hg, if_true, hb]
      exact hr
    · have hte : t = horizon cfg := le_antisymm ht hge
      have hp : g.core.pending = [] := by
        by_contra h
        exact absurd ((pendingG_ne_nil_iff hq hI).1 h) (by omega)
      have hg : guard g.core = false := by simp [guard, hp, hI.resolve]
      refine ⟨g, by simp [runGP, hg], ?_, hN⟩
      rw [Nat.min_eq_right (by omega)]
      exact hte ▸ hI

end

/-- the history-free `NoFail` of `EventCoreNet.lean` is the special case with no hook -/
theorem NetOps.NoFail.toH {σ : Type} {net : NetOps σ} {cfg : Cfg} {P : σ → Prop} (h : net.NoFail cfg P) :
    NoFailH net noPost cfg (fun _ s => P s) where
  plugin := fun _ s x hx hp _ => h.plugin s x hx hp
  unplug := fun _ s x hx hp _ _ => h.unplug s x hx hp
  recomp := fun _ _ _ _ hp => hp
  post := fun _ _ _ hp => ⟨rfl, hp⟩

/-- with `ChargingNetwork`'s empty hook the loop with hook is the loop without -/
theorem bodyGP_noPost {σ : Type} (ops : QOps) (net : NetOps σ) (cfg : Cfg)
    (sched apply : CoreG σ → Option Err) (g : CoreG σ) :
    bodyGP ops net noPost cfg sched apply g = bodyG ops net cfg sched apply g := by
  unfold bodyGP noPost
  rcases bodyG ops net cfg sched apply g with ⟨g', _ | e⟩ <;> rfl

end Acn.EventCore
