/-
  Link lemmas for the run-level `sim_consequences`:
  what `resolve` does, which fields preprocessing (without estimator) keeps and which bounds it
  establishes, and — uniformly for both algorithms — where every entry of a returned array lies.
-/
import AcnProofs.Lemmas.SortedGreedy
import AcnProofs.Lemmas.SortedRR
import AcnProofs.Lemmas.SortedPre

set_option linter.unusedSectionVars false

namespace Acn.Sorted
open Acn

theorem findIdx?_some_spec (ids : List String) (st : String) :
    ∀ i, ids.findIdx? (· == st) = some i → i < ids.length ∧ ids.getD i "" = st := by
  induction ids with
  | nil => intro i h; simp at h
  | cons a t ih =>
    intro i h
    rw [List.findIdx?_cons] at h
    by_cases ha : a = st
    · have hb : (a == st) = true := by simpa using ha
      simp only [hb, if_true, Option.some.injEq] at h
      subst h
      exact ⟨by simp, by simpa using ha⟩
    · have hb : (a == st) = false := by simpa using ha
      simp only [hb, Bool.false_eq_true, if_false, Option.map_eq_some_iff] at h
      obtain ⟨j, hj, rfl⟩ := h
      obtain ⟨h1, h2⟩ := ih j hj
      exact ⟨by simpa using h1, by simpa using h2⟩

section
variable {K : Type} [Field K] [LinearOrder K] [IsStrictOrderedRing K]

/-- `resolve` only fills in `idx`, with the position of the session's station id -/
theorem resolve_spec (infra : Infra K) : ∀ (raw l : List (Session K)), resolve infra raw = .ok l →
    List.Forall₂ (fun s s' => ∃ i, i < infra.ids.length ∧ infra.ids.getD i "" = s.station ∧
      s' = { s with idx := i }) raw l := by
  intro raw
  induction raw with
  | nil =>
    intro l h
    simp only [resolve, List.mapM_nil] at h
    cases h; exact List.Forall₂.nil
  | cons a t ih =>
    intro l h
    simp only [resolve, List.mapM_cons] at h
    cases hf : infra.ids.findIdx? (· == a.station) with
    | none =>
      simp only [hf] at h
      cases h
    | some i =>
      simp only [hf] at h
      have h' : (resolve infra t >>= fun bs =>
          (pure (({ a with idx := i } : Session K) :: bs) : Except Err (List (Session K)))) = .ok l := h
      cases ht : resolve infra t with
      | error e =>
        rw [ht] at h'
        simp [bind, Except.bind] at h'
      | ok l' =>
        rw [ht] at h'
        simp only [bind, Except.bind, pure, Except.pure, Except.ok.injEq] at h'
        subst h'
        obtain ⟨h1, h2⟩ := findIdx?_some_spec infra.ids a.station i hf
        exact List.Forall₂.cons ⟨i, h1, h2, rfl⟩ (ih l' ht)

theorem forall₂_mem_right' {α β : Type} {R : α → β → Prop} {l₁ : List α} {l₂ : List β}
    (h : List.Forall₂ R l₁ l₂) : ∀ b ∈ l₂, ∃ a ∈ l₁, R a b := forall₂_mem_right h

/-- what preprocessing WITHOUT estimator does to a session: identity fields kept, bounds as stated -/
def Derived (infra : Infra K) (period : K) (s0 s : Session K) : Prop :=
  s.idx = s0.idx ∧ s.station = s0.station ∧ s.requested = s0.requested ∧ s.delivered = s0.delivered ∧
  ((s.minRate = s0.minRate ∧ s.maxRate = min s0.maxRate (infra.maxPilot.getD s0.idx 0)) ∨
   (s.minRate = 0 ∧ s.maxRate = 0) ∨
   (infra.minPilot.getD s0.idx 0 ≤ rap infra period s0 ∧
    s.minRate = max (infra.minPilot.getD s0.idx 0) s0.minRate ∧
    s.maxRate = max (min s0.maxRate (infra.maxPilot.getD s0.idx 0)) s.minRate))

theorem preprocess_derived (feas : List K → Bool) (cfg : Config K) (infra : Infra K) (period : K)
    (prev : String → Option (K × K)) (rd : Rampdown K) (l : List (Session K))
    (hest : cfg.estimate = false) :
    ∀ s ∈ (preprocess feas cfg infra period prev rd l).1, ∃ s0 ∈ l, Derived infra period s0 s := by
  have h1 : ∀ s ∈ enforcePilotLimit infra (removeFinished infra period l), ∃ s0 ∈ l,
      s = { s0 with maxRate := pyMin s0.maxRate (infra.maxPilot.getD s0.idx 0) } := by
    intro s hs
    unfold enforcePilotLimit at hs
    obtain ⟨s0, h0, rfl⟩ := List.mem_map.mp hs
    unfold removeFinished at h0
    exact ⟨s0, (List.mem_filter.mp h0).1, rfl⟩
  unfold preprocess
  simp only [hest, Bool.false_eq_true, if_false]
  intro s hs
  by_cases hun : cfg.uninterrupted = true
  · simp only [hun, if_true] at hs
    obtain ⟨s1, hs1, hrel⟩ := forall₂_mem_right (applyMinimumRate_rel feas infra period _) s hs
    rw [mem_sortBy] at hs1
    obtain ⟨s0, h0, rfl⟩ := h1 s1 hs1
    refine ⟨s0, h0, ?_⟩
    rcases hrel with rfl | ⟨hrap, rfl⟩
    · exact ⟨rfl, rfl, rfl, rfl, Or.inr (Or.inl ⟨rfl, rfl⟩)⟩
    · obtain ⟨g1, _, g3, g4, g5, g6⟩ := reconcile_fields
        ({ ({ s0 with maxRate := pyMin s0.maxRate (infra.maxPilot.getD s0.idx 0) } : Session K) with
            minRate := pyMax (infra.minPilot.getD s0.idx 0) s0.minRate } : Session K)
      have hst : (reconcile ({ ({ s0 with maxRate := pyMin s0.maxRate (infra.maxPilot.getD s0.idx 0) } : Session K) with
            minRate := pyMax (infra.minPilot.getD s0.idx 0) s0.minRate } : Session K)).station = s0.station := by
        unfold reconcile; split <;> rfl
      refine ⟨g1, hst, g4, g5, Or.inr (Or.inr ⟨?_, ?_, ?_⟩)⟩
      · have := rap_congr infra period s0
          ({ s0 with maxRate := pyMin s0.maxRate (infra.maxPilot.getD s0.idx 0) } : Session K) rfl rfl rfl
        rw [← this]; exact hrap
      · rw [g3]; simp
      · rw [g6, g3]; simp
  · simp only [hun, Bool.false_eq_true, if_false] at hs
    obtain ⟨s0, h0, rfl⟩ := h1 s hs
    exact ⟨s0, h0, rfl, rfl, rfl, rfl, Or.inl ⟨rfl, by simp⟩⟩

/-- where a granted rate lies, stated once for both algorithms -/
def GrantOk (infra : Infra K) (period : K) (s : Session K) (r : K) : Prop :=
  (infra.cont.getD s.idx true = true → 0 ≤ s.maxRate → s.minRate ≤ s.maxRate →
      s.maxRate ≤ infra.maxPilot.getD s.idx 0 → 0 ≤ rap infra period s →
      0 ≤ r ∧ r ≤ infra.maxPilot.getD s.idx 0) ∧
  (infra.cont.getD s.idx true = false → r = 0 ∨ r ∈ infra.allow.getD s.idx []) ∧
  r ≤ max (lbOf s) (min s.maxRate (rap infra period s))

theorem lbOf_nonneg (s : Session K) : 0 ≤ lbOf s := by unfold lbOf; simp

theorem sortingAlgorithm_grants (feas : List K → Bool) (fuel : Nat) (eps : K) (heps : 0 ≤ eps)
    (infra : Infra K) (period : K) (queue : List (Session K)) (sch : List K)
    (hnd : (queue.map (·.idx)).Nodup) (hidx : ∀ s ∈ queue, s.idx < infra.ids.length)
    (h : sortingAlgorithm feas fuel eps infra period queue = .ok sch) :
    (∀ s ∈ queue, ∃ r, sch[s.idx]? = some r ∧ GrantOk infra period s r) ∧
    (∀ j, j < infra.ids.length → (∀ t ∈ queue, t.idx ≠ j) → sch[j]? = some 0) := by
  unfold sortingAlgorithm at h
  simp only at h
  split at h
  · cases h
  · obtain ⟨_, hout, hin⟩ := greedyLoop_values feas fuel eps infra period queue _ sch hnd h
    constructor
    · intro s hs
      obtain ⟨cur, r, hr, hget⟩ := hin s hs (by
        unfold initSchedule; rw [fold_lb_length]; simp; exact hidx s hs)
      obtain ⟨hc, hd⟩ := greedyRate_range feas fuel eps heps infra period cur s r hr
      have hub : ubOf infra period s = min s.maxRate (rap infra period s) := by unfold ubOf; simp
      refine ⟨r, hget, ?_, ?_, ?_⟩
      · intro hcont h0 hmm hmp hrap
        obtain ⟨h1, h2⟩ := hc hcont
        have hub0 : 0 ≤ ubOf infra period s := by rw [hub]; exact le_min h0 hrap
        have hlbm : lbOf s ≤ s.maxRate := by unfold lbOf; simp; exact ⟨h0, hmm⟩
        have hubm : ubOf infra period s ≤ s.maxRate := by rw [hub]; exact min_le_left _ _
        constructor
        · rcases h1 with rfl | h1
          · exact hub0
          · exact le_trans (lbOf_nonneg s) h1
        · exact le_trans h2 (le_trans (max_le hlbm hubm) hmp)
      · intro hfin
        rcases hd hfin with h0 | hm
        · left; exact h0
        · right; unfold levelsIn at hm; exact (List.mem_filter.mp hm).1
      · rw [← hub]
        cases hcont : infra.cont.getD s.idx true
        · rcases hd hcont with h0 | hm
          · rw [h0]; exact le_max_of_le_left (lbOf_nonneg s)
          · unfold levelsIn at hm
            simp only [List.mem_filter, Bool.and_eq_true, decide_eq_true_eq] at hm
            exact le_max_of_le_right hm.2.2
        · exact (hc hcont).2
    · intro j hj hne
      rw [hout j hne]
      unfold initSchedule
      rw [fold_lb_other queue _ j hne]
      simp [hj]

theorem roundRobin_grants [HasCeilNat K] (feas : List K → Bool) (infra : Infra K) (period inc : K)
    (queue : List (Session K)) (st : RRState K)
    (hnd : (queue.map (·.idx)).Nodup) (hidx : ∀ s ∈ queue, s.idx < infra.ids.length)
    (hlen : infra.allow.length = infra.ids.length)
    (h : roundRobin feas (rrLevels infra period inc) infra queue = .ok st) :
    (∀ s ∈ queue, ∃ r, st.sched[s.idx]? = some r ∧ GrantOk infra period s r) ∧
    (∀ j, j < infra.ids.length → (∀ t ∈ queue, t.idx ≠ j) → st.sched[j]? = some 0) := by
  obtain ⟨_, _, ho, hv⟩ := roundRobin_spec feas _ infra queue st h hidx hlen
  constructor
  · intro s hs
    obtain ⟨r, hget, hr⟩ := hv hnd s hs
    refine ⟨r, hget, ?_⟩
    rcases hr with rfl | hm
    · refine ⟨fun _ h0 _ hmp _ => ⟨le_refl _, le_trans h0 hmp⟩, fun _ => Or.inl rfl, ?_⟩
      exact le_max_of_le_left (lbOf_nonneg s)
    · unfold rrLevels at hm
      simp only [List.mem_filter, decide_eq_true_eq] at hm
      obtain ⟨⟨hbase, hlb⟩, hub⟩ := hm
      have hub' : r ≤ min (min s.maxRate (infra.maxPilot.getD s.idx 0)) (rap infra period s) := by
        unfold rrUb at hub; simpa using hub
      refine ⟨fun _ _ _ _ _ => ⟨le_trans (lbOf_nonneg s) hlb, ?_⟩, ?_, ?_⟩
      · exact le_trans hub' (le_trans (min_le_left _ _) (min_le_right _ _))
      · intro hfin
        rw [hfin] at hbase
        right; simpa using hbase
      · refine le_max_of_le_right (le_min ?_ ?_)
        · exact le_trans hub' (le_trans (min_le_left _ _) (min_le_left _ _))
        · exact le_trans hub' (min_le_right _ _)
  · intro j hj hne
    rw [ho j hne]; simp [hj]

/-- both algorithms behind `scheduleCall`: every queued session's entry obeys `GrantOk`, every
    other station's entry is 0 -/
theorem scheduleCall_grants [HasCeilNat K] (feas : List K → Bool) (cfg : Config K) (heps : 0 ≤ cfg.eps)
    (infra : Infra K) (period : K) (time : Int) (prev : String → Option (K × K)) (rd : Rampdown K)
    (raw l : List (Session K)) (sch : List K)
    (hres : resolve infra raw = .ok l) (hlen : infra.allow.length = infra.ids.length)
    (hnd : ((scheduleCall feas cfg infra period time prev rd raw).order.map (·.idx)).Nodup)
    (hidx : ∀ s ∈ (scheduleCall feas cfg infra period time prev rd raw).order, s.idx < infra.ids.length)
    (h : (scheduleCall feas cfg infra period time prev rd raw).result = .ok sch) :
    (scheduleCall feas cfg infra period time prev rd raw).order =
      sortSessions cfg.sort infra period time (preprocess feas cfg infra period prev rd l).1 ∧
    (∀ s ∈ (scheduleCall feas cfg infra period time prev rd raw).order,
      ∃ r, sch[s.idx]? = some r ∧ GrantOk infra period s r) ∧
    (∀ j, j < infra.ids.length →
      (∀ t ∈ (scheduleCall feas cfg infra period time prev rd raw).order, t.idx ≠ j) → sch[j]? = some 0) := by
  unfold scheduleCall at h hnd hidx ⊢
  simp only [hres] at h hnd hidx ⊢
  cases hal : cfg.algo with
  | greedy =>
    simp only [hal] at h hnd hidx ⊢
    exact ⟨trivial, sortingAlgorithm_grants feas cfg.fuel cfg.eps heps infra period _ sch hnd hidx h⟩
  | roundRobin =>
    simp only [hal] at h hnd hidx ⊢
    cases hrr : roundRobin feas (rrLevels infra period cfg.inc) infra
        (sortSessions cfg.sort infra period time (preprocess feas cfg infra period prev rd l).1) with
    | error e => simp only [hrr] at h; cases h
    | ok st =>
      simp only [hrr] at h hnd hidx ⊢
      cases h
      exact ⟨trivial, roundRobin_grants feas infra period cfg.inc _ st hnd hidx hlen hrr⟩

end
end Acn.Sorted
