/-
  Termination of the round-robin deque loop: the measure
  `Σ_i (len levels_i − rate_idx_i) + |queue|` drops by exactly one on every trip, so the loop run
  with that much fuel ends with an empty deque.
-/
import AcnProofs.Lemmas.SortedRR

set_option linter.unusedSectionVars false

namespace Acn.Sorted
open Acn

/-- changing one summand of `Σ_{j<n} f j` by one -/
theorem sum_range_update (f g : Nat → Nat) (i : Nat) :
    ∀ n, i < n → (∀ j, j ≠ i → g j = f j) → g i + 1 = f i →
      ((List.range n).map g).sum + 1 = ((List.range n).map f).sum := by
  intro n
  induction n with
  | zero => intro h; exact absurd h (by simp)
  | succ n ih =>
    intro hi hne hgi
    rw [List.range_succ, List.map_append, List.map_append, List.sum_append, List.sum_append]
    simp only [List.map_cons, List.map_nil, List.sum_cons, List.sum_nil, Nat.add_zero]
    by_cases hin : i = n
    · have hsame : (List.range n).map g = (List.range n).map f := by
        apply List.map_congr_left
        intro j hj
        have : j < n := List.mem_range.mp hj
        exact hne j (by omega)
      rw [hsame, ← hin]; omega
    · have := ih (by omega) hne hgi
      have hn : g n = f n := hne n (fun e => hin e.symm)
      omega

variable {K : Type} [Field K] [LinearOrder K] [IsStrictOrderedRing K]

/-- every queued session's station index addresses `rate_idx` -/
def QueueIdxOk (st : RRState K) : Prop := ∀ s ∈ st.queue, s.idx < st.rateIdx.length

theorem rrStep_idxOk (feas : List K → Bool) (levels : List (List K)) (st : RRState K)
    (h : QueueIdxOk st) : QueueIdxOk (rrStep feas levels st) := by
  unfold rrStep
  split
  · exact h
  · rename_i s rest hq
    have hs : s.idx < st.rateIdx.length := h s (by rw [hq]; exact List.mem_cons_self)
    have hrest : ∀ t ∈ rest, t.idx < st.rateIdx.length :=
      fun t ht => h t (by rw [hq]; exact List.mem_cons_of_mem _ ht)
    simp only
    split
    · split
      · intro t ht
        simp only [List.length_set]
        rcases List.mem_append.mp ht with ht | ht
        · exact hrest t ht
        · rw [List.mem_singleton.mp ht]; exact hs
      · exact hrest
    · exact hrest

/-- the measure strictly decreases — by exactly one — on every trip round the loop -/
theorem rrStep_measure (feas : List K → Bool) (levels : List (List K)) (st : RRState K)
    (hne : st.queue ≠ []) (h : QueueIdxOk st) :
    rrMeasure levels (rrStep feas levels st) + 1 = rrMeasure levels st := by
  unfold rrStep
  split
  · rename_i hq; exact absurd hq hne
  · rename_i s rest hq
    have hs : s.idx < st.rateIdx.length := h s (by rw [hq]; exact List.mem_cons_self)
    simp only
    split
    · rename_i hk
      split
      · -- incremented and re-queued: the station's summand drops by one
        unfold rrMeasure
        simp only [hq, List.length_append, List.length_cons, List.length_nil]
        have hil : s.idx < levels.length := by
          by_contra hcon
          have : levels.getD s.idx [] = [] := by
            simp [List.getD_eq_getElem?_getD, not_lt.mp hcon]
          rw [this] at hk; simp at hk
        have := sum_range_update
          (fun i => (levels.getD i []).length - st.rateIdx.getD i 0)
          (fun i => (levels.getD i []).length -
            (st.rateIdx.set s.idx (st.rateIdx.getD s.idx 0 + 1)).getD i 0)
          s.idx levels.length hil
          (by intro j hj
              show (levels.getD j []).length -
                  (st.rateIdx.set s.idx (st.rateIdx.getD s.idx 0 + 1)).getD j 0 =
                (levels.getD j []).length - st.rateIdx.getD j 0
              rw [getD_set_ne _ _ _ _ (fun e => hj e.symm)])
          (by show (levels.getD s.idx []).length -
                  (st.rateIdx.set s.idx (st.rateIdx.getD s.idx 0 + 1)).getD s.idx 0 + 1 =
                (levels.getD s.idx []).length - st.rateIdx.getD s.idx 0
              rw [getD_set_self _ _ _ hs]; omega)
        omega
      · unfold rrMeasure
        simp only [hq, List.length_cons]
        omega
    · unfold rrMeasure
      simp only [hq, List.length_cons]
      omega

/-- the loop with at least `rrMeasure` fuel ends with an empty deque -/
theorem rrLoop_terminates (feas : List K → Bool) (levels : List (List K)) :
    ∀ (fuel : Nat) (st : RRState K), QueueIdxOk st → rrMeasure levels st ≤ fuel →
      (rrLoop feas levels fuel st).queue = [] := by
  intro fuel
  induction fuel with
  | zero =>
    intro st _ hm
    unfold rrLoop
    unfold rrMeasure at hm
    have : st.queue.length = 0 := by omega
    exact List.length_eq_zero_iff.mp this
  | succ n ih =>
    intro st hok hm
    unfold rrLoop
    split
    · rename_i hq; exact hq
    · rename_i s rest hq
      have hne : st.queue ≠ [] := by rw [hq]; simp
      have := rrStep_measure feas levels st hne hok
      exact ih _ (rrStep_idxOk feas levels st hok) (by omega)

end Acn.Sorted
