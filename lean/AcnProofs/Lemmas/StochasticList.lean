/-
  List facts used by the StochasticNetwork invariant (C19): how `filter` / `countP` over a
  duplicate-free list react when the predicate changes at a single element.
-/
import Mathlib.Tactic

namespace Acn.Stoch

variable {α : Type} [DecidableEq α]

/-- switching the predicate off at `x` (and nowhere else) erases `x` from the filtered list -/
theorem filter_update_erase (l : List α) (p p' : α → Bool) (x : α) (hn : l.Nodup)
    (hx : p' x = false) (ho : ∀ y ∈ l, y ≠ x → p' y = p y) :
    l.filter p' = (l.filter p).erase x := by
  rw [(hn.filter p).erase_eq_filter, List.filter_filter]
  apply List.filter_congr
  intro y hy
  by_cases h : y = x
  · subst h; simp [hx]
  · simp [ho y hy h, h]

omit [DecidableEq α] in
/-- a new last element -/
theorem filter_append_new (l : List α) (p p' : α → Bool) (x : α)
    (ho : ∀ y ∈ l, p' y = p y) :
    (l ++ [x]).filter p' = l.filter p ++ (if p' x then [x] else []) := by
  rw [List.filter_append, List.filter_congr ho]
  by_cases h : p' x <;> simp [h]

theorem countP_update_inc (l : List α) (p p' : α → Bool) (x : α) (hn : l.Nodup) (hx : x ∈ l)
    (h0 : p x = false) (h1 : p' x = true) (ho : ∀ y ∈ l, y ≠ x → p' y = p y) :
    l.countP p' = l.countP p + 1 := by
  induction l with
  | nil => simp at hx
  | cons a t ih =>
    rw [List.nodup_cons] at hn
    by_cases ha : a = x
    · subst ha
      have : t.countP p' = t.countP p := by
        apply List.countP_congr
        intro y hy
        have hne : y ≠ a := fun h => hn.1 (h ▸ hy)
        simp [ho y (List.mem_cons_of_mem _ hy) hne]
      simp [h0, h1, this]
    · have hx' : x ∈ t := by
        rcases List.mem_cons.1 hx with h | h
        · exact absurd h.symm ha
        · exact h
      have := ih hn.2 hx' (fun y hy hne => ho y (List.mem_cons_of_mem _ hy) hne)
      simp [List.countP_cons, ho a (List.mem_cons_self) ha, this]
      omega

omit [DecidableEq α] in
theorem countP_same (l : List α) (p p' : α → Bool) (ho : ∀ y ∈ l, p' y = p y) :
    l.countP p' = l.countP p := by
  apply List.countP_congr
  intro y hy
  simp [ho y hy]

omit [DecidableEq α] in
theorem countP_append_new (l : List α) (p p' : α → Bool) (x : α) (ho : ∀ y ∈ l, p' y = p y) :
    (l ++ [x]).countP p' = l.countP p + (if p' x then 1 else 0) := by
  rw [List.countP_append, countP_same l p p' ho]
  by_cases h : p' x <;> simp [h]

theorem getD_mod_mem (f : α) (fs : List α) (k : Nat) :
    (f :: fs).getD (k % (fs.length + 1)) f ∈ f :: fs := by
  have hlt : k % (fs.length + 1) < (f :: fs).length := by
    simp only [List.length_cons]; exact Nat.mod_lt _ (Nat.succ_pos _)
  rw [List.getD_eq_getElem?_getD, List.getElem?_eq_getElem hlt]
  exact List.getElem_mem hlt

end Acn.Stoch
