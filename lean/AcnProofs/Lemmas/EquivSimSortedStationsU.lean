/-
  Helper lemmas for C10 (Sim level, stations × the modelled algorithms, TWO-SIDED and with
  `uninterrupted_charging`): the adapters `SimSorted.sortedSched` (greedy / round robin, every sort,
  interruptible or uninterrupted, no estimator) and `uncontrolledSched` built from the permuted
  configuration answer station-permuted views with the same dict OR THE SAME ERROR, on every view that
  is tie-free in the key that decides the order of that mode (`TieOK`).
-/
import AcnProofs.Lemmas.EquivSimSortedStations
import AcnProofs.Lemmas.EquivSortedStationsU
import AcnProofs.Lemmas.EquivSimStationsRaiseRun

set_option linter.unusedSectionVars false
set_option linter.unusedSimpArgs false
set_option linter.unusedVariables false

namespace Acn.SimSorted
open Acn Acn.Sim Acn.Sorted Acn.Feas Acn.SimEquiv

variable {K : Type} [Field K] [LinearOrder K] [IsStrictOrderedRing K] [HasExp K]

/-- no two sessions the call works on (after `remove_finished_sessions` and `enforce_pilot_limit`) have
    the same `remaining_time` — the key of the sort inside `apply_minimum_charging_rate` -/
def TieFreeRT (inf : K) (cfg : Cfg K) (v : View K) : Prop :=
  DistinctRT (preOf (infraOf inf cfg) cfg.period (v.active.map (sessionOfEv inf v.iter)))

/-- the tie-freeness that the mode needs: the main sort key when interruptible, `remaining_time` with
    `uninterrupted_charging` (the main sort then starts from the remaining-time order, not from the
    station order, and its ties are broken alike in every registration order) -/
def TieOK (inf : K) (cfg : Cfg K) (scfg : Config K) (v : View K) : Prop :=
  if scfg.uninterrupted then TieFreeRT inf cfg v else TieFree inf cfg scfg.sort v

/-- the decidable form of `TieFreeRT`: pairwise different remaining times -/
theorem tieFreeRT_of_pairwise (inf : K) (cfg : Cfg K) (v : View K)
    (h : (preOf (infraOf inf cfg) cfg.period (v.active.map (sessionOfEv inf v.iter))).Pairwise
      (fun a b => a.remainingTime ≠ b.remainingTime)) : TieFreeRT inf cfg v := by
  intro a ha b hb hk
  by_contra hne
  exact pairwise_forall_ne (R := fun a b : Sorted.Session K => a.remainingTime ≠ b.remainingTime)
    (fun x y hxy => fun e => hxy e.symm) _ h a ha b hb hne hk

section
variable {σ : List Nat} {d : Station K} {cfg : Cfg K}

theorem sortedSched_equivariantE [HasCeilNat K] (h : PermOK σ cfg) {net : NetInfo K}
    (hnet : NetOK cfg.stations.length net) (inf : K) (scfg : Config K) :
    SchedEquivariantE σ (TieOK inf cfg scfg) (sortedSched net inf cfg scfg)
      (sortedSched (reNet σ net) inf (permCfg σ d cfg) scfg) := by
  intro v v' hvl htf
  have hv := hvl.rel
  unfold sortedSched
  simp only
  have hids : (infraOf inf cfg).ids.length = cfg.stations.length := by simp [infraOf]
  have hnd : (infraOf inf cfg).ids.Nodup := h.nodup
  have hallow : (infraOf inf cfg).allow.length = cfg.stations.length := by simp [infraOf]
  have hp : (v'.active.map (sessionOfEv inf v'.iter)).Perm (v.active.map (sessionOfEv inf v.iter)) := by
    rw [hv.iter]; exact hv.active.map _
  have hper : (permCfg σ d cfg).period = cfg.period := rfl
  obtain ⟨h1, h2⟩ : (scheduleCall (feasOf (reNet σ net)) { scfg with estimate := false }
        (reInfra σ (infraOf inf cfg)) cfg.period (v.iter : Int) (fun _ => none)
        { upTh := 0, downTh := 0, upInc := 0, bounds := [] } (v'.active.map (sessionOfEv inf v'.iter))).result
        = (scheduleCall (feasOf net) { scfg with estimate := false } (infraOf inf cfg) cfg.period (v.iter : Int)
            (fun _ => none) { upTh := 0, downTh := 0, upInc := 0, bounds := [] }
            (v.active.map (sessionOfEv inf v.iter))).result.map (fun x => reidx σ x 0) ∧
      ∀ out, (scheduleCall (feasOf net) { scfg with estimate := false } (infraOf inf cfg) cfg.period (v.iter : Int)
            (fun _ => none) { upTh := 0, downTh := 0, upInc := 0, bounds := [] }
            (v.active.map (sessionOfEv inf v.iter))).result = .ok out → out.length = cfg.stations.length := by
    unfold TieOK at htf
    by_cases hu : scfg.uninterrupted = true
    · rw [if_pos hu] at htf
      exact scheduleCall_mv_uninterrupted h.perm (infraOf inf cfg) (feasOf net) (feasOf (reNet σ net))
        (feasOf_reNet h.perm hnet) hids hnd hallow { scfg with estimate := false } rfl hu cfg.period (v.iter : Int)
        (fun _ => none) (fun _ => none) _ _ hp htf
    · rw [if_neg hu] at htf
      have hu' : scfg.uninterrupted = false := by simpa using hu
      exact scheduleCall_mv_plain h.perm (infraOf inf cfg) (feasOf net) (feasOf (reNet σ net))
        (feasOf_reNet h.perm hnet) hids hnd hallow { scfg with estimate := false } rfl hu' cfg.period (v.iter : Int)
        (fun _ => none) (fun _ => none) _ _ hp htf
  rw [hv.iter] at h1
  rw [infraOf_perm h, hper, hv.iter, h1]
  cases hres : (scheduleCall (feasOf net) { scfg with estimate := false } (infraOf inf cfg) cfg.period (v.iter : Int)
      (fun _ => none) { upTh := 0, downTh := 0, upInc := 0, bounds := [] }
      (v.active.map (sessionOfEv inf v.iter))).result with
  | error e =>
    simp only [Except.map]
    exact ⟨fun a ha => (by cases ha), fun e' he' => he'⟩
  | ok out =>
    simp only [Except.map]
    refine ⟨?_, fun e' he' => by cases he'⟩
    intro a ha
    simp only [Except.ok.injEq] at ha
    refine ⟨_, rfl, ?_⟩
    rw [← ha]
    exact format_dictEq h.perm (infraOf inf cfg) hids hnd out (h2 out hres)

theorem uncontrolledSched_equivariantE (h : PermOK σ cfg) (inf : K) :
    SchedEquivariantE σ OnePerStation (uncontrolledSched inf cfg) (uncontrolledSched inf (permCfg σ d cfg)) := by
  intro v v' hvl hone
  have hv := hvl.rel
  unfold uncontrolledSched
  simp only
  have hids : (infraOf inf cfg).ids.length = cfg.stations.length := by simp [infraOf]
  have hnd : (infraOf inf cfg).ids.Nodup := h.nodup
  have hp : (v'.active.map (sessionOfEv inf v'.iter)).Perm (v.active.map (sessionOfEv inf v.iter)) := by
    rw [hv.iter]; exact hv.active.map _
  have hst : ((v.active.map (sessionOfEv inf v.iter)).map (·.station)).Nodup := by
    rw [List.map_map]; exact hone
  rw [infraOf_perm h]
  cases hres : resolve (infraOf inf cfg) (v.active.map (sessionOfEv inf v.iter)) with
  | error e =>
    rw [resolve_reInfra_error h.perm (infraOf inf cfg) hids hp hres]
    exact ⟨fun a ha => (by cases ha), fun e' he' => he'⟩
  | ok l =>
    obtain ⟨l', hr', hde⟩ := uncontrolled_mv h.perm (infraOf inf cfg) hids hnd hp hst hres
    rw [hr']
    simp only
    refine ⟨?_, fun e' he' => by cases he'⟩
    intro a ha
    simp only [Except.ok.injEq] at ha
    refine ⟨_, rfl, ?_⟩
    rw [← ha]
    exact hde

end
end Acn.SimSorted
