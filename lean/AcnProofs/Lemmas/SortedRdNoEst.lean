/-
  With `estimate_max_rate = False` the estimator is neither read nor written: the stateful scheduler
  `SimSortedRd.sortedSchedSt` is the pure adapter `SimSorted.sortedSched` lifted, and `runSt` is
  `Sim.run` (so `sim_consequences_rampdown` specialises to `sim_consequences`).
-/
import AcnProofs.Lemmas.SimStRun

set_option linter.unusedSectionVars false

namespace Acn.Sorted
open Acn

section
variable {K : Type} [Field K] [LinearOrder K] [IsStrictOrderedRing K]

theorem preprocess_noest (feas : List K → Bool) (cfg : Config K) (infra : Infra K) (period : K)
    (prev : String → Option (K × K)) (rd : Rampdown K) (l : List (Session K))
    (hest : cfg.estimate = false) :
    preprocess feas cfg infra period prev rd l =
      (if cfg.uninterrupted then
          applyMinimumRate feas infra period (enforcePilotLimit infra (removeFinished infra period l))
        else enforcePilotLimit infra (removeFinished infra period l), rd) := by
  unfold preprocess
  simp only [hest, Bool.false_eq_true, if_false]

/-- without estimator a `schedule()` call does not depend on `prev` / the estimator state and
    leaves the state alone -/
theorem scheduleCall_noest [HasCeilNat K] (feas : List K → Bool) (cfg : Config K) (infra : Infra K)
    (period : K) (time : Int) (prev prev' : String → Option (K × K)) (rd rd' : Rampdown K)
    (raw : List (Session K)) (hest : cfg.estimate = false) :
    (scheduleCall feas cfg infra period time prev rd raw).result =
      (scheduleCall feas cfg infra period time prev' rd' raw).result ∧
    (scheduleCall feas cfg infra period time prev rd raw).rd = rd := by
  unfold scheduleCall
  cases resolve infra raw with
  | error e => exact ⟨rfl, rfl⟩
  | ok l =>
    simp only
    rw [preprocess_noest feas cfg infra period prev rd l hest,
      preprocess_noest feas cfg infra period prev' rd' l hest]
    simp only
    cases cfg.algo with
    | greedy => exact ⟨rfl, rfl⟩
    | roundRobin =>
      simp only
      split <;> exact ⟨rfl, rfl⟩

end
end Acn.Sorted

namespace Acn.SimSortedRd
open Acn Acn.Sorted

theorem sortedSchedSt_noest {K : Type} [Field K] [LinearOrder K] [IsStrictOrderedRing K]
    [HasCeilNat K] [HasExp K] (net : SimSorted.NetInfo K) (inf : K) (cfg : Sim.Cfg K)
    (scfg : Config K) (hest : scfg.estimate = false) :
    sortedSchedSt net inf cfg scfg = lift (SimSorted.sortedSched net inf cfg scfg) := by
  funext rd v
  have hcfg : ({ scfg with estimate := false } : Config K) = scfg := by
    cases scfg; simp only at hest; subst hest; rfl
  unfold sortedSchedSt lift SimSorted.sortedSched
  simp only [hcfg]
  obtain ⟨h1, h2⟩ := scheduleCall_noest (SimSorted.feasOf net) scfg (SimSorted.infraOf inf cfg)
    cfg.period (v.iter : Int) (prevOf v) (fun _ => none) rd
    { upTh := 0, downTh := 0, upInc := 0, bounds := [] }
    (v.active.map (SimSorted.sessionOfEv inf v.iter)) hest
  rw [h2, h1]
  cases (scheduleCall (SimSorted.feasOf net) scfg (SimSorted.infraOf inf cfg) cfg.period (v.iter : Int)
    (fun _ => none) { upTh := 0, downTh := 0, upInc := 0, bounds := [] }
    (v.active.map (SimSorted.sessionOfEv inf v.iter))).result <;> rfl

end Acn.SimSortedRd
