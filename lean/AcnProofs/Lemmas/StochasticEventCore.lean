/-
  C19 ↔ C01: the history hypothesis of C19 (`WFHist`) follows from what C01 proves about the
  event loop's `event_history` (`Acn.C01.history_sorted`, `Acn.C01.history_complete`): it is
  key-sorted and a permutation of the scenario's plug-in, unplug and recompute events.
  Only distinct ids and arrival < departure are used here — NOT the per-station non-overlap
  clause of C01's `Valid` (a stochastic network assigns the spaces itself).
-/
import AcnModel.EventCore
import AcnProofs.Lemmas.StochasticProto

namespace Acn.Stoch

/-- `WFHist` from: key-sorted, and a permutation of the sessions' events plus recompute events -/
theorem WFHist_of_sorted_perm (ss : List Session) (extra h : List Event)
    (hextra : ∀ e ∈ extra, e.kind = .recompute) (hn : (ss.map (·.id)).Nodup)
    (had : ∀ s ∈ ss, s.arrival < s.departure)
    (hsorted : h.Pairwise (fun a b => a.keyLe b = true))
    (hperm : h.Perm (expected ss ++ extra)) : WFHist h := by
  constructor
  · have h1 : (expected ss ++ extra).Pairwise (fun a b =>
        a.kind = .recompute ∨ b.kind = .recompute ∨ a.kind ≠ b.kind ∨ a.sess ≠ b.sess) := by
      rw [List.pairwise_append]
      refine ⟨(expected_pairwise ss hn).imp (fun hab => Or.inr (Or.inr hab)), ?_, ?_⟩
      · rw [List.Pairwise.imp_mem]  -- every element of `extra` is a recompute event
        exact List.pairwise_of_forall (fun a b ha _ => Or.inl (hextra a ha))
      · intro a _ b hb; exact Or.inr (Or.inl (hextra b hb))
    have h2 := (hperm.pairwise_iff (R := fun a b =>
        a.kind = .recompute ∨ b.kind = .recompute ∨ a.kind ≠ b.kind ∨ a.sess ≠ b.sess) (by
      intro a b hab
      rcases hab with hab | hab | hab | hab
      · exact Or.inr (Or.inl hab)
      · exact Or.inl hab
      · exact Or.inr (Or.inr (Or.inl (Ne.symm hab)))
      · exact Or.inr (Or.inr (Or.inr (Ne.symm hab))))).2 h1
    refine h2.imp ?_
    intro a b hab
    rcases hab with hab | hab | hab | hab
    · exact Or.inl hab
    · by_cases ha : a.kind = .recompute
      · exact Or.inl ha
      · exact Or.inr (Or.inl (by rw [hab]; exact ha))
    · exact Or.inr (Or.inl hab)
    · exact Or.inr (Or.inr hab)
  · intro pre e post he hk
    have hmem : e ∈ h := by rw [he]; simp
    have hmem' := hperm.mem_iff.1 hmem
    rcases List.mem_append.1 hmem' with hm | hm
    · obtain ⟨s, hs, hes⟩ := mem_expected hm
      have heu : e = s.unplugEv := by
        rcases hes with rfl | rfl
        · simp [Session.plugEv] at hk
        · rfl
      have hp : s.plugEv ∈ h := hperm.mem_iff.2 (List.mem_append_left _ (by
        simp only [expected, List.mem_flatMap]; exact ⟨s, hs, by simp⟩))
      rw [he] at hp
      rcases List.mem_append.1 hp with hp | hp
      · exact ⟨s.plugEv, hp, rfl, by rw [heu]; rfl⟩
      · rcases List.mem_cons.1 hp with hp | hp
        · rw [heu] at hp; simp [Session.plugEv, Session.unplugEv] at hp
        · exfalso
          rw [he] at hsorted
          have h3 := (List.pairwise_append.1 hsorted).2.1
          have h4 := (List.pairwise_cons.1 h3).1 _ hp
          have hlt := had s hs
          rw [heu] at h4
          simp [Event.keyLe, Event.keyLt, Session.plugEv, Session.unplugEv, hlt] at h4
    · have := hextra e hm; rw [hk] at this; cases this

/-- a session of C01's `EventCore` model, forgetting its (pre-assigned) station -/
def ofCore (x : EventCore.Session) : Session := ⟨x.id, x.arrival, x.departure⟩

theorem expected_perm_core : ∀ xs : List EventCore.Session,
    (xs.map EventCore.plugEv ++ xs.map EventCore.unplugEv).Perm (expected (xs.map ofCore)) := by
  intro xs
  induction xs with
  | nil => simp [expected]
  | cons a l ih =>
    have : expected ((a :: l).map ofCore) =
        EventCore.plugEv a :: EventCore.unplugEv a :: expected (l.map ofCore) := by
      simp [expected, ofCore, Session.plugEv, Session.unplugEv, EventCore.plugEv, EventCore.unplugEv]
    rw [this]
    simp only [List.map_cons, List.cons_append]
    refine List.Perm.cons _ ?_
    exact (List.perm_middle).trans (List.Perm.cons _ ih)

/-- The conclusions of `Acn.C01.history_sorted` and `Acn.C01.history_complete` about
    `Core.eventHist` (with distinct ids and arrival < departure) give C19's `WFHist`. -/
theorem wfHist_of_eventCore (cfg : EventCore.Cfg) (h : List Event)
    (ids : (cfg.sessions.map (·.id)).Nodup)
    (ad : ∀ x ∈ cfg.sessions, x.arrival < x.departure)
    (hsorted : h.Pairwise (fun a b => a.keyLe b = true))
    (hcomplete : h.Perm (cfg.sessions.map EventCore.plugEv ++ cfg.sessions.map EventCore.unplugEv ++
      cfg.recomputes.map EventCore.recEv)) : WFHist h := by
  apply WFHist_of_sorted_perm (cfg.sessions.map ofCore) (cfg.recomputes.map EventCore.recEv) h
  · intro e he; obtain ⟨r, _, rfl⟩ := List.mem_map.1 he; rfl
  · simpa [List.map_map, Function.comp_def, ofCore] using ids
  · intro s hs; obtain ⟨x, hx, rfl⟩ := List.mem_map.1 hs; exact ad x hx
  · exact hsorted
  · exact hcomplete.trans ((expected_perm_core cfg.sessions).append_right _)

end Acn.Stoch
