/-
  Helper lemmas for C17: the 28-digit `Decimal` hour value of `get_tariff` compares with
  half-hour breakpoints exactly as the whole-second time of day does.
-/
import AcnModel.Tariff
import Mathlib.Tactic

namespace Acn.C17
open Acn.Tariff

/-- seconds since midnight -/
def secOfDay (h m s : Nat) : Nat := 3600 * h + 60 * m + s

/-- executable form of "the rounded hour value lies in the same half hour as the exact one":
    with `t = c·10^(-n)` and `F = ⌊T / 1800⌋`,  `F/2 ≤ t < (F+1)/2`. -/
def flipOk (h m s : Nat) : Bool :=
  match targetHour h m s with
  | ⟨c, e⟩ =>
    let F := secOfDay h m s / 1800
    decide (e ≤ 0) && decide (F * 10 ^ (-e).toNat ≤ 2 * c) && decide (2 * c < (F + 1) * 10 ^ (-e).toNat)

theorem toRat_of_nonpos (c : Nat) (e : Int) (he : e ≤ 0) :
    Dec.toRat ⟨c, e⟩ = (c : ℚ) / ((10 ^ (-e).toNat : Nat) : ℚ) := by
  unfold Dec.toRat
  by_cases h0 : 0 ≤ e
  · have : e = 0 := le_antisymm he h0
    subst this
    simp
  · simp [h0]

theorem half_le_iff (k c P : Nat) (hP : 0 < P) :
    (k : ℚ) / 2 ≤ (c : ℚ) / (P : ℚ) ↔ k * P ≤ 2 * c := by
  have hP' : (0 : ℚ) < P := by exact_mod_cast hP
  rw [div_le_div_iff₀ (by norm_num) hP']
  constructor
  · intro h
    have : ((k * P : Nat) : ℚ) ≤ ((2 * c : Nat) : ℚ) := by push_cast; linarith
    exact_mod_cast this
  · intro h
    have : ((k * P : Nat) : ℚ) ≤ ((2 * c : Nat) : ℚ) := by exact_mod_cast h
    push_cast at this; linarith

/-- if the executable check holds for an instant, comparing the `Decimal` hour value with any
    half-hour breakpoint `k/2` is the same as comparing whole seconds -/
theorem no_flip_of_flipOk (h m s : Nat) (hok : flipOk h m s = true) (k : Nat) :
    (k : ℚ) / 2 ≤ (targetHour h m s).toRat ↔ 1800 * k ≤ secOfDay h m s := by
  unfold flipOk at hok
  generalize targetHour h m s = t at hok ⊢
  obtain ⟨c, e⟩ := t
  simp only [Bool.and_eq_true, decide_eq_true_eq] at hok
  obtain ⟨⟨he, h1⟩, h2⟩ := hok
  rw [toRat_of_nonpos c e he, half_le_iff k c _ (by positivity)]
  set P := 10 ^ (-e).toNat with hPdef
  have hP : 0 < P := by positivity
  set F := secOfDay h m s / 1800 with hF
  constructor
  · intro hk
    have : k * P < (F + 1) * P := lt_of_le_of_lt hk h2
    have hkF : k < F + 1 := Nat.lt_of_mul_lt_mul_right this
    have : k ≤ F := by omega
    have := (Nat.le_div_iff_mul_le (by norm_num : 0 < 1800)).mp this
    omega
  · intro hk
    have : k ≤ F := (Nat.le_div_iff_mul_le (by norm_num : 0 < 1800)).mpr (by omega)
    exact le_trans (Nat.mul_le_mul_right P this) h1

/-- a value within a second of the exact time of day, and exact on whole half hours, cannot flip
    a comparison with a half-hour breakpoint (the contract the harness checks on CPython's
    `Decimal` for all 86 400 seconds of the day) -/
theorem no_flip_of_close (x : ℚ) (T k : Nat) (hclose : |x - (T : ℚ) / 3600| < 1 / 3600)
    (hexact : T = 1800 * k → x = (T : ℚ) / 3600) :
    (k : ℚ) / 2 ≤ x ↔ 1800 * k ≤ T := by
  rw [abs_lt] at hclose
  constructor
  · intro hk
    by_contra hlt
    have : T + 1 ≤ 1800 * k := by omega
    have hq : ((T + 1 : Nat) : ℚ) ≤ ((1800 * k : Nat) : ℚ) := by exact_mod_cast this
    push_cast at hq
    linarith [hclose.2]
  · intro hk
    rcases Nat.eq_or_lt_of_le hk with heq | hlt
    · rw [hexact heq.symm, ← heq]; push_cast; linarith
    · have hq : ((1800 * k + 1 : Nat) : ℚ) ≤ ((T : Nat) : ℚ) := by exact_mod_cast hlt
      push_cast at hq
      linarith [hclose.1]

/-- kernel-checked part of the table: every whole minute of the day -/
theorem flipOk_whole_minutes : ∀ h < 24, ∀ m < 60, flipOk h m 0 = true := by decide +kernel

/-- kernel-checked part of the table: one second before and after every half hour -/
theorem flipOk_around_half_hours :
    ∀ h < 24, (flipOk h 0 1 && flipOk h 29 59 && flipOk h 30 1 && flipOk h 59 59) = true := by
  decide +kernel

end Acn.C17
