/-
  Helper lemmas for C17: the 28-digit `Decimal` hour value of `get_tariff` compares with
  half-hour breakpoints exactly as the whole-second time of day does.
-/
import AcnModel.Tariff
import AcnProofs.Lemmas.TariffRound
import Mathlib.Tactic

namespace Acn.C17
open Acn.Tariff

/-- seconds since midnight -/
def secOfDay (h m s : Nat) : Nat := 3600 * h + 60 * m + s

/-- executable form of "the rounded hour value lies in the same half hour as the exact one":
    with `t = c·10^(-n)` and `F = ⌊T / 1800⌋`,  `F/2 ≤ t < (F+1)/2`. -/
def flipOk (h m s : Nat) : Bool :=
  match targetHour h m s with
  | ⟨c, e⟩ =>
    let F := secOfDay h m s / 1800
    decide (e ≤ 0) && decide (F * 10 ^ (-e).toNat ≤ 2 * c) && decide (2 * c < (F + 1) * 10 ^ (-e).toNat)

theorem toRat_of_nonpos (c : Nat) (e : Int) (he : e ≤ 0) :
    Dec.toRat ⟨c, e⟩ = (c : ℚ) / ((10 ^ (-e).toNat : Nat) : ℚ) := by
  unfold Dec.toRat
  by_cases h0 : 0 ≤ e
  · have : e = 0 := le_antisymm he h0
    subst this
    simp
  · simp [h0]

theorem half_le_iff (k c P : Nat) (hP : 0 < P) :
    (k : ℚ) / 2 ≤ (c : ℚ) / (P : ℚ) ↔ k * P ≤ 2 * c := by
  have hP' : (0 : ℚ) < P := by exact_mod_cast hP
  rw [div_le_div_iff₀ (by norm_num) hP']
  constructor
  · intro h
    have : ((k * P : Nat) : ℚ) ≤ ((2 * c : Nat) : ℚ) := by push_cast; linarith
    exact_mod_cast this
  · intro h
    have : ((k * P : Nat) : ℚ) ≤ ((2 * c : Nat) : ℚ) := by exact_mod_cast h
    push_cast at this; linarith

/-- if the executable check holds for an instant, comparing the `Decimal` hour value with any
    half-hour breakpoint `k/2` is the same as comparing whole seconds -/
theorem no_flip_of_flipOk (h m s : Nat) (hok : flipOk h m s = true) (k : Nat) :
    (k : ℚ) / 2 ≤ (targetHour h m s).toRat ↔ 1800 * k ≤ secOfDay h m s := by
  unfold flipOk at hok
  generalize targetHour h m s = t at hok ⊢
  obtain ⟨c, e⟩ := t
  simp only [Bool.and_eq_true, decide_eq_true_eq] at hok
  obtain ⟨⟨he, h1⟩, h2⟩ := hok
  rw [toRat_of_nonpos c e he, half_le_iff k c _ (by positivity)]
  set P := 10 ^ (-e).toNat with hPdef
  have hP : 0 < P := by positivity
  set F := secOfDay h m s / 1800 with hF
  constructor
  · intro hk
    have : k * P < (F + 1) * P := lt_of_le_of_lt hk h2
    have hkF : k < F + 1 := Nat.lt_of_mul_lt_mul_right this
    have : k ≤ F := by omega
    have := (Nat.le_div_iff_mul_le (by norm_num : 0 < 1800)).mp this
    omega
  · intro hk
    have : k ≤ F := (Nat.le_div_iff_mul_le (by norm_num : 0 < 1800)).mpr (by omega)
    exact le_trans (Nat.mul_le_mul_right P this) h1

/-- a value within a second of the exact time of day, and exact on whole half hours, cannot flip
    a comparison with a half-hour breakpoint (the contract the harness checks on CPython's
    `Decimal` for all 86 400 seconds of the day) -/
theorem no_flip_of_close (x : ℚ) (T k : Nat) (hclose : |x - (T : ℚ) / 3600| < 1 / 3600)
    (hexact : T = 1800 * k → x = (T : ℚ) / 3600) :
    (k : ℚ) / 2 ≤ x ↔ 1800 * k ≤ T := by
  rw [abs_lt] at hclose
  constructor
  · intro hk
    by_contra hlt
    have : T + 1 ≤ 1800 * k := by omega
    have hq : ((T + 1 : Nat) : ℚ) ≤ ((1800 * k : Nat) : ℚ) := by exact_mod_cast this
    push_cast at hq
    linarith [hclose.2]
  · intro hk
    rcases Nat.eq_or_lt_of_le hk with heq | hlt
    · rw [hexact heq.symm, ← heq]; push_cast; linarith
    · have hq : ((1800 * k + 1 : Nat) : ℚ) ≤ ((T : Nat) : ℚ) := by exact_mod_cast hlt
      push_cast at hq
      linarith [hclose.1]

/-- kernel-checked table (cross-check and the `s = 0` case of `target_hour_no_flip`): every whole
    minute of the day -/
theorem flipOk_whole_minutes : ∀ h < 24, ∀ m < 60, flipOk h m 0 = true := by decide +kernel

/-- kernel-checked part of the table: one second before and after every half hour -/
theorem flipOk_around_half_hours :
    ∀ h < 24, (flipOk h 0 1 && flipOk h 29 59 && flipOk h 30 1 && flipOk h 59 59) = true := by
  decide +kernel

/-! ### the hour value of every whole second is within 1.2·10⁻²⁶ of the exact rational -/

/-- `Decimal(hour) + Decimal(minute) / 60` -/
def hourX (h m : Nat) : Dec := Dec.add (Dec.ofNat h) (Dec.div (Dec.ofNat m) (Dec.ofNat 60))

/-- `Decimal(second) / 3600` -/
def hourB (s : Nat) : Dec := Dec.div (Dec.ofNat s) (Dec.ofNat 3600)

theorem targetHour_eq (h m s : Nat) : targetHour h m s = Dec.add (hourX h m) (hourB s) := rfl

/-- executable form of `-40 ≤ e ≤ 0 ∧ |c·10^e − num/den| ≤ tn/10^t` -/
def closeB (d : Dec) (num den tn t : Nat) : Bool :=
  match d with
  | ⟨c, e⟩ =>
    decide (e ≤ 0) && decide (-40 ≤ e) &&
    decide (c * den * 10 ^ t ≤ num * 10 ^ (-e).toNat * 10 ^ t + tn * den * 10 ^ (-e).toNat) &&
    decide (num * 10 ^ (-e).toNat * 10 ^ t ≤ c * den * 10 ^ t + tn * den * 10 ^ (-e).toNat)

theorem close_of_closeB (d : Dec) (num den tn t : Nat) (hden : 0 < den)
    (h : closeB d num den tn t = true) :
    d.e ≤ 0 ∧ -40 ≤ d.e ∧ |d.toRat - (num : ℚ) / den| ≤ (tn : ℚ) / 10 ^ t := by
  obtain ⟨c, e⟩ := d
  simp only [closeB, Bool.and_eq_true, decide_eq_true_eq] at h
  obtain ⟨⟨⟨he, he'⟩, h1⟩, h2⟩ := h
  refine ⟨he, he', ?_⟩
  rw [toRat_of_nonpos c e he]
  set P := 10 ^ (-e).toNat with hP
  have hPq : (0 : ℚ) < (P : ℚ) := by positivity
  have hdq : (0 : ℚ) < (den : ℚ) := by exact_mod_cast hden
  have hT : (0 : ℚ) < (10 : ℚ) ^ t := by positivity
  have h1q : (c : ℚ) * den * 10 ^ t ≤ num * P * 10 ^ t + tn * den * P := by exact_mod_cast h1
  have h2q : (num : ℚ) * P * 10 ^ t ≤ c * den * 10 ^ t + tn * den * P := by exact_mod_cast h2
  have key : (c : ℚ) / P - (num : ℚ) / den = (c * den - num * P) / (P * den) := by field_simp
  rw [key, abs_le]
  constructor
  · rw [le_div_iff₀ (by positivity)]
    have h3 : (num : ℚ) * P - c * den ≤ tn * den * P / 10 ^ t := by
      rw [le_div_iff₀ hT]; nlinarith
    have h4 : (tn : ℚ) / 10 ^ t * (P * den) = tn * den * P / 10 ^ t := by ring
    linarith
  · rw [div_le_div_iff₀ (by positivity) hT]
    nlinarith

/-- kernel-checked table: hour + minute/60, all 1440 minutes of the day -/
theorem tableX : ∀ h < 24, ∀ m < 60, closeB (hourX h m) (60 * h + m) 60 6 27 = true := by
  decide +kernel

/-- kernel-checked table: second/3600, all 60 seconds -/
theorem tableB : ∀ s < 60, closeB (hourB s) s 3600 1 27 = true := by decide +kernel

theorem ndigits_one : ndigits 1 = 1 := by decide

/-- **the computed hour value of every whole second that is not a whole minute is within
    1.2·10⁻²⁶ of the exact rational** — from the half-ulp rounding bound of the final `Dec.add`
    (`add_err`, `roundQ_exp_le`, `ndigits_le_of_lt`) and the two small tables for its operands -/
theorem target_hour_close (h m s : Nat) (hh : h < 24) (hm : m < 60) (hs0 : 1 ≤ s) (hs : s < 60) :
    |(targetHour h m s).toRat - (secOfDay h m s : ℚ) / 3600| ≤ 12 / 10 ^ 27 := by
  obtain ⟨hXe, hXe', hX⟩ := close_of_closeB _ _ _ _ _ (by norm_num) (tableX h hh m hm)
  obtain ⟨hBe, hBe', hB⟩ := close_of_closeB _ _ _ _ _ (by norm_num) (tableB s hs)
  rw [abs_le] at hX hB
  set X := hourX h m
  set B := hourB s
  have hhq : (h : ℚ) ≤ 23 := by exact_mod_cast Nat.le_of_lt_succ hh
  have hmq : (m : ℚ) ≤ 59 := by exact_mod_cast Nat.le_of_lt_succ hm
  have hsq : (s : ℚ) ≤ 59 := by exact_mod_cast Nat.le_of_lt_succ hs
  have hsq1 : (1 : ℚ) ≤ s := by exact_mod_cast hs0
  have hh0 : (0 : ℚ) ≤ h := by positivity
  have hm0 : (0 : ℚ) ≤ m := by positivity
  push_cast at hX hB
  -- the exact sum of the operands
  have hsum_pos : 0 < X.toRat + B.toRat := by
    have : (1 : ℚ) / 3600 ≤ (s : ℚ) / 3600 := by apply div_le_div_of_nonneg_right hsq1; norm_num
    have : (0 : ℚ) ≤ (60 * (h : ℚ) + m) / 60 := by positivity
    norm_num at hX hB ⊢
    linarith [hX.1, hB.1]
  have hsum_lt : X.toRat + B.toRat < 100 := by
    have : (s : ℚ) / 3600 ≤ 59 / 3600 := by apply div_le_div_of_nonneg_right hsq; norm_num
    have : (60 * (h : ℚ) + m) / 60 ≤ (60 * 23 + 59) / 60 := by
      apply div_le_div_of_nonneg_right _ (by norm_num); linarith
    norm_num at hX hB ⊢
    linarith [hX.2, hB.2]
  -- exponent of the final rounding
  have hmm : addMin X B ≤ 0 := by unfold addMin; split_ifs <;> omega
  have hmm' : -40 ≤ addMin X B := by unfold addMin; split_ifs <;> omega
  have hval := addCoef_val X B
  have hP : (0 : ℚ) < (10 : ℚ) ^ addMin X B := by positivity
  have hS : addCoef X B ≠ 0 := by
    intro h0
    rw [h0] at hval
    simp at hval
    linarith
  set K := (2 - addMin X B).toNat with hK
  have hKz : (K : ℤ) = 2 - addMin X B := by rw [hK]; exact Int.toNat_of_nonneg (by omega)
  have hSlt : addCoef X B < 10 ^ K := by
    have h1 : (addCoef X B : ℚ) = (X.toRat + B.toRat) / (10 : ℚ) ^ addMin X B := by
      rw [← hval]; field_simp
    have h2 : ((10 ^ K : ℕ) : ℚ) = 100 / (10 : ℚ) ^ addMin X B := by
      push_cast
      rw [← zpow_natCast, hKz, zpow_sub₀ (by norm_num : (10 : ℚ) ≠ 0)]
      norm_num
    have : (addCoef X B : ℚ) < ((10 ^ K : ℕ) : ℚ) := by
      rw [h1, h2]; exact div_lt_div_of_pos_right hsum_lt hP
    exact_mod_cast this
  have hnd := ndigits_le_of_lt (addCoef X B) K (by omega) hSlt
  have hexp := roundQ_exp_le decPrec (addCoef X B) 1 hS
  rw [ndigits_one] at hexp
  have hE : (roundQ decPrec (addCoef X B) 1).e + addMin X B ≤ -26 := by
    have : ((ndigits (addCoef X B) : ℕ) : ℤ) ≤ K := by exact_mod_cast hnd
    simp only [decPrec] at hexp ⊢
    omega
  have herr := add_err X B
  have hpow : (10 : ℚ) ^ ((roundQ decPrec (addCoef X B) 1).e + addMin X B) ≤ (10 : ℚ) ^ (-26 : ℤ) :=
    zpow_le_zpow_right₀ (by norm_num) hE
  have h26 : (1 : ℚ) / 2 * (10 : ℚ) ^ (-26 : ℤ) = 5 / 10 ^ 27 := by norm_num
  have herr' : |(targetHour h m s).toRat - (X.toRat + B.toRat)| ≤ 5 / 10 ^ 27 := by
    rw [targetHour_eq, ← h26]
    exact le_trans herr (mul_le_mul_of_nonneg_left hpow (by norm_num))
  rw [abs_le] at herr' ⊢
  have hT : (secOfDay h m s : ℚ) / 3600 = (60 * (h : ℚ) + m) / 60 + (s : ℚ) / 3600 := by
    unfold secOfDay; push_cast; ring
  rw [hT]
  norm_num at hX hB herr' ⊢
  constructor <;> linarith [hX.1, hX.2, hB.1, hB.2, herr'.1, herr'.2]

/-- **no flip, for all 86 400 seconds of the day**: comparing the 28-digit `Decimal` hour value
    with any half-hour breakpoint `k/2` is the same as comparing whole seconds.  Whole minutes
    (`s = 0`, which include every half hour, where the value must be exact) come from the
    kernel-checked table; every other second is at least 1/3600 h away from a half hour and the
    value is within 1.2·10⁻²⁶ of the exact one. -/
theorem target_hour_no_flip (h m s : Nat) (hh : h < 24) (hm : m < 60) (hs : s < 60) (k : Nat) :
    (k : ℚ) / 2 ≤ (targetHour h m s).toRat ↔ 1800 * k ≤ secOfDay h m s := by
  rcases Nat.eq_zero_or_pos s with rfl | hs0
  · exact no_flip_of_flipOk h m 0 (flipOk_whole_minutes h hh m hm) k
  · apply no_flip_of_close
    · refine lt_of_le_of_lt (target_hour_close h m s hh hm hs0 hs) (by norm_num)
    · intro hT
      exfalso
      unfold secOfDay at hT
      omega

end Acn.C17
