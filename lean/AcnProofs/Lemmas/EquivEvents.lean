/-
  Helper lemmas for C10 (3/3, part a): the event core under a permutation of the session list /
  recompute list / station list.  `run` reads the static tables only through membership
  (`findSession` with distinct ids, `stations.contains`), so `run cfg' = run cfg`; what is left is
  the order of the initial queue, and the loop invariant `Inv` of C01 pins every component of the
  state down to a permutation (`pending`, `eventHist`, `evHist`) or exactly (`occ`, `resolve`).
-/
import AcnProofs.Lemmas.EventCoreRun
import AcnProofs.Lemmas.EquivPerm

namespace Acn.EventCore
open Acn

/-- equal up to the order of the three list components whose order the queue decides -/
structure CoreEquiv (c c' : Core) : Prop where
  iter : c.iter = c'.iter
  pending : c.pending.Perm c'.pending
  occ : c.occ = c'.occ
  resolve : c.resolve = c'.resolve
  lastUpd : c.lastUpd = c'.lastUpd
  eventHist : c.eventHist.Perm c'.eventHist
  evHist : c.evHist.Perm c'.evHist
  invoked : c.invoked = c'.invoked

theorem CoreEquiv.refl (c : Core) : CoreEquiv c c :=
  ⟨rfl, List.Perm.refl _, rfl, rfl, rfl, List.Perm.refl _, List.Perm.refl _, rfl⟩

/-- the static tables of two runs agree up to listing order -/
structure CfgPerm (cfg cfg' : Cfg) : Prop where
  sessions : cfg'.sessions.Perm cfg.sessions
  recomputes : cfg'.recomputes.Perm cfg.recomputes
  stations : ∀ s, s ∈ cfg'.stations ↔ s ∈ cfg.stations
  maxRecompute : cfg'.maxRecompute = cfg.maxRecompute

theorem isEmpty_perm {α : Type} {l l' : List α} (h : l.Perm l') : l.isEmpty = l'.isEmpty := by
  have := h.length_eq
  cases l <;> cases l' <;> simp at this ⊢

theorem popCurrent_perm' {p p' : List Event} (h : p.Perm p') (t : Nat) :
    (popCurrent t p).1.Perm (popCurrent t p').1 ∧ (popCurrent t p).2.Perm (popCurrent t p').2 ∧
    (popCurrent t p).1.Pairwise (fun a b => a.keyLe b = true) ∧
    (popCurrent t p').1.Pairwise (fun a b => a.keyLe b = true) := by
  unfold popCurrent
  exact ⟨(sortByKey_perm _).trans ((h.filter _).trans (sortByKey_perm _).symm), h.filter _,
    sortByKey_sorted _, sortByKey_sorted _⟩

section
variable {cfg cfg' : Cfg}

theorem Valid.of_perm (hv : Valid cfg) (hp : CfgPerm cfg cfg') : Valid cfg' where
  ids_nodup := (hp.sessions.map _).nodup_iff.2 hv.ids_nodup
  tags_nodup := (hp.recomputes.map _).nodup_iff.2 hv.tags_nodup
  registered := fun x hx => (hp.stations _).2 (hv.registered x (hp.sessions.mem_iff.1 hx))
  arr_nonneg := fun x hx => hv.arr_nonneg x (hp.sessions.mem_iff.1 hx)
  arr_lt_dep := fun x hx => hv.arr_lt_dep x (hp.sessions.mem_iff.1 hx)
  disjoint := fun x hx y hy => hv.disjoint x (hp.sessions.mem_iff.1 hx) y (hp.sessions.mem_iff.1 hy)
  rec_nonneg := fun r hr => hv.rec_nonneg r (hp.recomputes.mem_iff.1 hr)

theorem expected_of_perm (hp : CfgPerm cfg cfg') (t : Int) (e : Event) : Expected cfg' t e ↔ Expected cfg t e := by
  unfold Expected
  simp only [hp.sessions.mem_iff, hp.recomputes.mem_iff]

theorem done_of_perm (hp : CfgPerm cfg cfg') (t : Int) (e : Event) : Done cfg' t e ↔ Done cfg t e := by
  unfold Done
  simp only [hp.sessions.mem_iff, hp.recomputes.mem_iff]

/-- the loop invariant does not see the listing order -/
theorem Inv.of_perm (hp : CfgPerm cfg cfg') {t : Nat} {c : Core} (h : Inv cfg' t c) : Inv cfg t c where
  iter := h.iter
  pend_nodup := h.pend_nodup
  pend_mem := fun e => (h.pend_mem e).trans (expected_of_perm hp t e)
  occ := fun st x => by rw [h.occ st x, hp.sessions.mem_iff]
  resolve := h.resolve
  hist_nodup := h.hist_nodup
  hist_mem := fun e => (h.hist_mem e).trans (done_of_perm hp t e)
  hist_sorted := h.hist_sorted
  evh := h.evh

/-- with distinct ids the lookup of a session does not depend on the listing order -/
theorem findSession_perm (hv : Valid cfg) (hp : CfgPerm cfg cfg') (id : String) :
    findSession cfg' id = findSession cfg id := by
  have hv' := hv.of_perm hp
  cases h : findSession cfg id with
  | some x =>
    have hx : x ∈ cfg.sessions := List.mem_of_find?_eq_some h
    have hid : x.id = id := by
      have := List.find?_some h
      simpa using this
    rw [← hid]
    exact findSession_eq hv' (hp.sessions.mem_iff.2 hx)
  | none =>
    unfold findSession at h ⊢
    rw [List.find?_eq_none] at h ⊢
    intro x hx
    exact h x (hp.sessions.mem_iff.1 hx)

theorem contains_perm (hp : CfgPerm cfg cfg') (s : String) : cfg'.stations.contains s = cfg.stations.contains s := by
  rw [Bool.eq_iff_iff]
  simp only [List.contains_iff_mem]
  exact hp.stations s

theorem process_perm (hv : Valid cfg) (hp : CfgPerm cfg cfg') (e : Event) (c : Core) :
    process cfg' e c = process cfg e c := by
  unfold process
  simp only [findSession_perm hv hp, contains_perm hp]

theorem processAll_perm (hv : Valid cfg) (hp : CfgPerm cfg cfg') (es : List Event) (c : Core) :
    processAll cfg' es c = processAll cfg es c := by
  induction es generalizing c with
  | nil => rfl
  | cons e es ih => simp only [processAll, step, process_perm hv hp, ih]

theorem body_perm (hv : Valid cfg) (hp : CfgPerm cfg cfg') (sched apply : Core → Option Err) (c : Core) :
    body cfg' sched apply c = body cfg sched apply c := by
  simp only [body, eventsStage, processAll_perm hv hp, hp.maxRecompute]

/-- `run` reads the static tables only through membership -/
theorem run_cfg_perm (hv : Valid cfg) (hp : CfgPerm cfg cfg') (sched apply : Core → Option Err) (n : Nat) (c : Core) :
    run cfg' sched apply n c = run cfg sched apply n c := by
  induction n generalizing c with
  | zero => rfl
  | succ n ih => simp only [run, body_perm hv hp, ih]

/-! ### what a processed event does to `_resolve` / `_last_schedule_update` -/

theorem step_flags {e : Event} {c c2 : Core} (h : step cfg e c = (c2, none)) :
    c2.resolve = true ∧ c2.lastUpd = (if e.kind = .recompute then c.lastUpd else some e.ts) := by
  unfold step process at h
  cases hk : e.kind <;> simp only [hk] at h
  · -- unplug
    split at h
    · simp at h
    · split at h
      · simp only [Prod.mk.injEq, and_true] at h; subst h; simp
      · simp at h
  · -- plugin
    split at h
    · simp at h
    · split at h
      · split at h
        · simp at h
        · simp only [Prod.mk.injEq, and_true] at h; subst h; simp
      · simp at h
  · simp only [Prod.mk.injEq, and_true] at h; subst h; simp

theorem processAll_flags (t : Int) : ∀ (es : List Event) (c c1 : Core), processAll cfg es c = (c1, none) →
    (∀ e ∈ es, e.ts = t) →
    c1.resolve = (c.resolve || !es.isEmpty) ∧
    c1.lastUpd = (if es.any (fun e => e.kind != .recompute) then some t else c.lastUpd) := by
  intro es
  induction es with
  | nil => intro c c1 h _; simp only [processAll, Prod.mk.injEq, and_true] at h; subst h; simp
  | cons e es ih =>
    intro c c1 h hts
    simp only [processAll] at h
    cases hs : step cfg e c with
    | mk c2 r =>
      rw [hs] at h
      cases r with
      | some err => simp at h
      | none =>
        simp only at h
        obtain ⟨h1, h2⟩ := step_flags hs
        obtain ⟨h3, h4⟩ := ih c2 c1 h (fun d hd => hts d (List.mem_cons_of_mem _ hd))
        have hte := hts e List.mem_cons_self
        refine ⟨by simp [h3, h1], ?_⟩
        rw [h4, h2, hte]
        by_cases hk : e.kind = .recompute
        · simp [hk]
        · simp [hk]

/-! ### two states that satisfy the invariant of the same period -/

theorem perm_of_nodup_mem {α : Type} {l l' : List α} (hn : l.Nodup) (hn' : l'.Nodup) (h : ∀ a, a ∈ l ↔ a ∈ l') :
    l.Perm l' := (List.perm_ext_iff_of_nodup hn hn').2 h

theorem occ_ext {o o' : String → Option Session} {P : String → Session → Prop}
    (h : ∀ st x, o st = some x ↔ P st x) (h' : ∀ st x, o' st = some x ↔ P st x) : o = o' := by
  funext st
  cases ho : o st with
  | none =>
    cases ho' : o' st with
    | none => rfl
    | some y => have := (h st y).2 ((h' st y).1 ho'); rw [ho] at this; exact absurd this (by simp)
  | some x => exact ((h' st x).2 ((h st x).1 ho)).symm

theorem evHist_perm {c c' : Core} (h : c.eventHist.Perm c'.eventHist) (he : EvhOK c) (he' : EvhOK c') :
    c.evHist.Perm c'.evHist := by
  unfold EvhOK at he he'
  rw [he, he']
  exact (h.filter _).map _

/-- the relation carried round the loop: both states satisfy the invariant of period `t` and agree
    on the two fields the invariant does not mention -/
structure Rel (cfg : Cfg) (t : Nat) (c c' : Core) : Prop where
  inv : Inv cfg t c
  inv' : Inv cfg t c'
  lastUpd : c.lastUpd = c'.lastUpd
  invoked : c.invoked = c'.invoked

theorem Rel.equiv {t : Nat} {c c' : Core} (h : Rel cfg t c c') : CoreEquiv c c' where
  iter := h.inv.iter.trans h.inv'.iter.symm
  pending := perm_of_nodup_mem h.inv.pend_nodup h.inv'.pend_nodup
    (fun e => (h.inv.pend_mem e).trans (h.inv'.pend_mem e).symm)
  occ := occ_ext h.inv.occ h.inv'.occ
  resolve := h.inv.resolve.trans h.inv'.resolve.symm
  lastUpd := h.lastUpd
  eventHist := perm_of_nodup_mem h.inv.hist_nodup h.inv'.hist_nodup
    (fun e => (h.inv.hist_mem e).trans (h.inv'.hist_mem e).symm)
  evHist := evHist_perm (perm_of_nodup_mem h.inv.hist_nodup h.inv'.hist_nodup
    (fun e => (h.inv.hist_mem e).trans (h.inv'.hist_mem e).symm)) h.inv.evh h.inv'.evh
  invoked := h.invoked

/-- the events stage started from two equivalent states of period `t` ends in equivalent states -/
theorem eventsStage_equiv (hv : Valid cfg) {t : Nat} {c c' : Core} (h : Rel cfg t c c') :
    ∃ c1 c1', eventsStage cfg c = (c1, none) ∧ eventsStage cfg c' = (c1', none) ∧ CoreEquiv c1 c1' ∧
      c1.iter = t ∧ c1'.iter = t := by
  obtain ⟨c1, h1, hit, hinv, hH, hP, hO, hE⟩ := eventsStage_ok hv h.inv
  obtain ⟨c1', h1', hit', hinv', hH', hP', hO', hE'⟩ := eventsStage_ok hv h.inv'
  have hpend := h.equiv.pending
  have hi : c.iter = t := h.inv.iter
  have hi' : c'.iter = t := h.inv'.iter
  obtain ⟨hp1, _, _, _⟩ := popCurrent_perm' hpend t
  -- flags
  have hts : ∀ e ∈ (popCurrent t c.pending).1, e.ts = (t : Int) := by
    intro e he
    have he' : e ∈ c.pending ∧ e.ts ≤ (t : Int) := by
      simpa [popCurrent, mem_sortByKey, List.mem_filter] using he
    have hex := (h.inv.pend_mem e).1 he'.1
    exact le_antisymm he'.2 hex.le_ts
  have hts' : ∀ e ∈ (popCurrent t c'.pending).1, e.ts = (t : Int) :=
    fun e he => hts e (hp1.mem_iff.2 he)
  have hf := processAll_flags (cfg := cfg) (t : Int) _ _ c1 (by
    have := h1; unfold eventsStage at this; rw [hi] at this; exact this) hts
  have hf' := processAll_flags (cfg := cfg) (t : Int) _ _ c1' (by
    have := h1'; unfold eventsStage at this; rw [hi'] at this; exact this) hts'
  simp only at hf hf'
  refine ⟨c1, c1', h1, h1', ?_, hit, hit'⟩
  have hhist : c1.eventHist.Perm c1'.eventHist :=
    perm_of_nodup_mem hH.1 hH'.1 (fun e => (hH.2.1 e).trans (hH'.2.1 e).symm)
  exact {
    iter := hit.trans hit'.symm
    pending := perm_of_nodup_mem hP.1 hP'.1 (fun e => (hP.2 e).trans (hP'.2 e).symm)
    occ := occ_ext hO hO'
    resolve := by rw [hf.1, hf'.1, h.inv.resolve, h.inv'.resolve, isEmpty_perm hp1]
    lastUpd := by rw [hf.2, hf'.2, any_perm hp1, h.lastUpd]
    eventHist := hhist
    evHist := evHist_perm hhist hE hE'
    invoked := by rw [hinv, hinv', h.invoked] }

/-- one trip round the loop keeps the relation -/
theorem body_equiv (hv : Valid cfg) {sched apply : Core → Option Err} (hs : ∀ c, sched c = none)
    (ha : ∀ c, apply c = none) {t : Nat} {c c' : Core} (h : Rel cfg t c c') :
    ∃ d d', body cfg sched apply c = (d, none) ∧ body cfg sched apply c' = (d', none) ∧ Rel cfg (t + 1) d d' := by
  obtain ⟨c1, c1', h1, h1', he, _, _⟩ := eventsStage_equiv hv h
  obtain ⟨d, hb, hI⟩ := body_ok hv hs ha h.inv
  obtain ⟨d', hb', hI'⟩ := body_ok hv hs ha h.inv'
  refine ⟨d, d', hb, hb', hI, hI', ?_, ?_⟩
  all_goals
    have hns : needsSched cfg.maxRecompute c1 = needsSched cfg.maxRecompute c1' := by
      simp only [needsSched, he.resolve, he.lastUpd, he.iter]
    unfold body at hb hb'
    rw [h1] at hb
    rw [h1'] at hb'
    simp only [hs, ha, finish] at hb hb'
    rw [← hns] at hb'
    by_cases hn : needsSched cfg.maxRecompute c1 = true
    · simp only [hn, if_true, Prod.mk.injEq, and_true] at hb hb'
      subst hb hb'
      simp [advance, markScheduled, markInvoked, he.iter, he.invoked]
    · simp only [hn, Bool.false_eq_true, if_false, Prod.mk.injEq, and_true] at hb hb'
      subst hb hb'
      simp [advance, he.lastUpd, he.invoked]

theorem guard_equiv {c c' : Core} (h : CoreEquiv c c') : guard c = guard c' := by
  simp only [guard, isEmpty_perm h.pending, h.resolve]

/-- the whole run from two equivalent states -/
theorem run_equiv (hv : Valid cfg) {sched apply : Core → Option Err} (hs : ∀ c, sched c = none)
    (ha : ∀ c, apply c = none) : ∀ (n t : Nat) (c c' : Core), Rel cfg t c c' →
    ∃ d d' t', run cfg sched apply n c = (d, none) ∧ run cfg sched apply n c' = (d', none) ∧ Rel cfg t' d d' := by
  intro n
  induction n with
  | zero => intro t c c' h; exact ⟨c, c', t, rfl, rfl, h⟩
  | succ n ih =>
    intro t c c' h
    have hg := guard_equiv h.equiv
    by_cases hgc : guard c = true
    · obtain ⟨d, d', hb, hb', hR⟩ := body_equiv hv hs ha h
      obtain ⟨e, e', t', hr, hr', hR'⟩ := ih (t + 1) d d' hR
      refine ⟨e, e', t', ?_, ?_, hR'⟩
      · simp only [run, hgc, if_true, hb]; exact hr
      · simp only [run, ← hg, hgc, if_true, hb']; exact hr'
    · refine ⟨c, c', t, ?_, ?_, h⟩
      · simp [run, hgc]
      · simp [run, ← hg, hgc]

/-! ### two simultaneous events on different stations commute -/

theorem setOcc_comm (occ : String → Option Session) {s1 s2 : String} (hne : s1 ≠ s2) (v1 v2 : Option Session) :
    setOcc (setOcc occ s1 v1) s2 v2 = setOcc (setOcc occ s2 v2) s1 v1 := by
  funext s
  unfold setOcc
  by_cases h1 : s = s1 <;> by_cases h2 : s = s2 <;> simp [h1, h2]
  all_goals (intro h; first | exact absurd h hne | exact absurd h.symm hne)

end
end Acn.EventCore
