/-
  T1c, stateful methods — `Simulator._process_event` IS `EventCore.processG`, by proof (group SimEvent; properties
  C01, C05, C19).

  `AcnModel/Gen/CodeSimEvent.lean` is regenerated on every run from acnportal/acnsim/simulator.py.  The network and
  the event queue of a Simulator are objects of unknown class (ChargingNetwork / StochasticNetwork / a subclass), so
  the methods called on them — `network.plugin`, `network.unplug`, `event_queue.add_event` — are PARAMETERS of the
  translation, exactly as `NetOps` and `QOps` are parameters of the model's `processG`.  `self` is the record
  `PySim` (`network`, `event_queue`, `ev_history` as a dict, `_resolve`, `_last_schedule_update`); `event.event_type`
  is the class attribute regenerated into `EvKind.name`; `UnplugEvent(ev.departure, ev)` is `unplugEv`.
-/
import AcnModel.Gen.CodeSimEvent
import AcnModel.EventCoreG
import AcnModel.Sim

set_option linter.unusedSectionVars false
set_option linter.unusedSimpArgs false

namespace Acn.CodeTie
open Acn Acn.Evse Acn.Gen.Code Acn.EventCore

/-- a NEW key is appended to a dict (`ev_history[session_id] = ev` for a session not seen before) -/
theorem dictSet_keys_new {β : Type} (d : List (String × β)) (k : String) (v : β) (h : k ∉ d.map (·.1)) :
    (dictSet d k v).map (·.1) = d.map (·.1) ++ [k] := by
  induction d with
  | nil => rfl
  | cons p r ih =>
    obtain ⟨k0, v0⟩ := p
    simp only [List.map_cons, List.mem_cons, not_or] at h
    have h0 : ¬ k0 = k := fun e => h.1 e.symm
    simp [dictSet, h0, ih h.2]

theorem kind_name_plugin (k : EvKind) : decide (k.name = "Plugin") = decide (k = .plugin) := by
  cases k <;> decide

theorem kind_name_unplug (k : EvKind) : decide (k.name = "Unplug") = decide (k = .unplug) := by
  cases k <;> decide

theorem kind_name_recompute (k : EvKind) : decide (k.name = "Recompute") = decide (k = .recompute) := by
  cases k <;> decide

section
variable {K : Type} {σp σm τ : Type}

/-- what the translated `Simulator` record and the model state `CoreG` have to agree on: the network (through
    `absN`), the queue's contents (through `absQ`), the keys of `ev_history` in insertion order, `_resolve` and
    `_last_schedule_update` -/
structure SimRel (absN : σp → σm) (absQ : τ → List Event) (py : PySim K σp τ) (g : CoreG σm) : Prop where
  net : absN py.network = g.net
  queue : absQ py.queue = g.core.pending
  hist : py.evHistory.map (·.1) = g.core.evHist
  resolve : py.resolve = g.core.resolve
  lastUpd : py.lastUpd = g.core.lastUpd

/-- what the translated method reports: `none`, or the model's class (`dec`) of the exception -/
def simOutcome (dec : PyErr → EventCore.Err) : Except PyErr Unit → Option EventCore.Err
  | .ok _ => none
  | .error e => some (dec e)

/-- `Simulator._process_event` IS `EventCore.processG` — for every event queue `ops` and every network `net`
    of the model, as soon as the methods the Python code calls on its network / queue objects (parameters of the
    translation) refine `net.plugin` / `net.unplug` / `ops.push`:
    * a Plugin event calls `network.plugin(ev)`, records the EV under its session id, queues
      `UnplugEvent(ev.departure, ev)`, sets `_resolve` and `_last_schedule_update = event.timestamp`;
    * an Unplug event calls `network.unplug(ev.station_id, ev.session_id)`, sets the same two attributes;
    * a Recompute event sets `_resolve` only; any other event type changes nothing;
    * when the network raises, the error is the model's and the simulator is left AS THE MODEL SAYS (nothing but
      the network object has been touched: `ev_history`, the queue, `_resolve`, `_last_schedule_update` are
      written after the call) — the statement is about the state at the raise, not only about successful calls.
    `x` is the event's `ev` attribute (the model finds it by session id: `hx`); `hfresh`: the model lists
    `ev_history`'s keys by appending, the code writes a dict — they agree for a session id not plugged in before;
    `hN`, `hNu`: in the model a raising `plugin` / `unplug` leaves the network as it was. -/
theorem sim_process_event_tie (ops : QOps) (net : NetOps σm) (cfg : Cfg) (absN : σp → σm) (absQ : τ → List Event)
    (Inv : σp → Prop) (dec : PyErr → EventCore.Err)
    (netPlugin : σp → Ev K → σp × Except PyErr Unit)
    (netUnplug : σp → String → Option String → σp × Except PyErr Unit)
    (queueAdd : τ → Event → τ) (e : Event) (x : Ev K) (g : CoreG σm) (py : PySim K σp τ)
    (hx : e.kind ≠ .recompute → findSession cfg e.sess = some (Sim.sessionOf x))
    (hN : ∀ o s o' er, net.plugin o s = (o', some er) → o' = o)
    (hNu : ∀ o s o' er, net.unplug o s = (o', some er) → o' = o)
    (hP : ∀ n, Inv n → net.plugin (absN n) (Sim.sessionOf x) =
        (absN (netPlugin n x).1, simOutcome dec (netPlugin n x).2) ∧ Inv (netPlugin n x).1)
    (hU : ∀ n, Inv n → net.unplug (absN n) (Sim.sessionOf x) =
        (absN (netUnplug n x.station (some x.session)).1, simOutcome dec (netUnplug n x.station (some x.session)).2) ∧
        Inv (netUnplug n x.station (some x.session)).1)
    (hQ : ∀ q ev, absQ (queueAdd q ev) = ops.push (absQ q) ev)
    (hfresh : e.kind = .plugin → x.session ∉ g.core.evHist)
    (hI : Inv py.network) (hR : SimRel absN absQ py g) :
    (processG ops net cfg e g).2 = simOutcome dec (sim_process_event netPlugin netUnplug queueAdd py ⟨e, x⟩).2 ∧
    SimRel absN absQ (sim_process_event netPlugin netUnplug queueAdd py ⟨e, x⟩).1 (processG ops net cfg e g).1 ∧
    Inv (sim_process_event netPlugin netUnplug queueAdd py ⟨e, x⟩).1.network := by
  unfold sim_process_event processG
  simp only [kind_name_plugin, kind_name_unplug, kind_name_recompute]
  cases hk : e.kind with
  | plugin =>
    have hx' := hx (by rw [hk]; intro h; cases h)
    simp only [decide_true, if_true, hx']
    have ⟨h1, h2⟩ := hP py.network hI
    rw [← hR.net, h1]
    cases hp : netPlugin py.network x with
    | mk n' r =>
      rw [hp] at h1 h2
      cases r with
      | error er =>
        have hn : absN n' = absN py.network := hN _ _ _ _ h1
        exact ⟨rfl, ⟨by show absN n' = g.net; rw [hn, hR.net], hR.queue, hR.hist, hR.resolve, hR.lastUpd⟩, h2⟩
      | ok u =>
        refine ⟨rfl, ?_, h2⟩
        have hf : x.session ∉ py.evHistory.map (·.1) := by rw [hR.hist]; exact hfresh hk
        constructor
        · rfl
        · show absQ (queueAdd py.queue _) = ops.push g.core.pending _
          rw [hQ, hR.queue]; rfl
        · show (dictSet py.evHistory x.session x).map (·.1) = g.core.evHist ++ [_]
          rw [dictSet_keys_new _ _ _ hf, hR.hist]; rfl
        · rfl
        · rfl
  | unplug =>
    have hx' := hx (by rw [hk]; intro h; cases h)
    simp only [hx']
    have ⟨h1, h2⟩ := hU py.network hI
    rw [← hR.net, h1]
    cases hp : netUnplug py.network x.station (some x.session) with
    | mk n' r =>
      rw [hp] at h1 h2
      cases r with
      | error er =>
        have hn : absN n' = absN py.network := hNu _ _ _ _ h1
        simp only [simOutcome]
        exact ⟨by first | rfl | trivial, ⟨by show absN n' = g.net; rw [hn, hR.net], hR.queue, hR.hist, hR.resolve, hR.lastUpd⟩, h2⟩
      | ok u =>
        simp only [simOutcome]
        exact ⟨by first | rfl | trivial, ⟨rfl, hR.queue, hR.hist, rfl, rfl⟩, h2⟩
  | recompute =>
    simp [simOutcome]
    exact ⟨⟨hR.net, hR.queue, hR.hist, rfl, hR.lastUpd⟩, hI⟩

end

/-- every target of this group was translated in this run -/
theorem all_translated_simevent : translatedSimEvent = ["sim_process_event"] := by decide

end Acn.CodeTie
