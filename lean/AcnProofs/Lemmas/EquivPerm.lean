/-
  Helper lemmas for C10 (1/3): re-indexing a per-station list by a permutation `σ` of the station
  numbers, sums over re-indexed lists, and the feasibility check under permuted constraints /
  permuted stations.
-/
import AcnModel.Feas
import AcnProofs.Lemmas.FeasSums
import Mathlib.Tactic

namespace Acn

/-- the per-station list `l` read in the order `σ` (new position `j` holds old station `σ[j]`) -/
def reidx {α : Type} (σ : List Nat) (l : List α) (d : α) : List α := σ.map (fun i => l.getD i d)

theorem reidx_length {α : Type} (σ : List Nat) (l : List α) (d : α) : (reidx σ l d).length = σ.length := by
  simp [reidx]

theorem range_map_getD {α : Type} (l : List α) (d : α) : (List.range l.length).map (fun i => l.getD i d) = l := by
  apply List.ext_getElem
  · simp
  · intro i h1 h2
    simp at h1
    simp [List.getD_eq_getElem?_getD, h1]

/-- re-indexing by a permutation of `0..n-1` is a permutation of the list -/
theorem reidx_perm {α : Type} {σ : List Nat} {l : List α} (d : α) (h : σ.Perm (List.range l.length)) :
    (reidx σ l d).Perm l := by
  have := h.map (fun i => l.getD i d)
  rwa [range_map_getD] at this

theorem zipWith_reidx {α β γ : Type} (f : α → β → γ) (σ : List Nat) (a : List α) (b : List β) (da : α) (db : β) :
    List.zipWith f (reidx σ a da) (reidx σ b db) = σ.map (fun i => f (a.getD i da) (b.getD i db)) := by
  simp [reidx, List.zipWith_map, List.zipWith_self]

theorem all_perm {α : Type} {l l' : List α} (h : l.Perm l') (p : α → Bool) : l.all p = l'.all p := by
  rw [Bool.eq_iff_iff]
  simp only [List.all_eq_true]
  exact ⟨fun H x hx => H x (h.mem_iff.2 hx), fun H x hx => H x (h.mem_iff.1 hx)⟩

theorem any_perm {α : Type} {l l' : List α} (h : l.Perm l') (p : α → Bool) : l.any p = l'.any p := by
  rw [Bool.eq_iff_iff]
  simp only [List.any_eq_true]
  exact ⟨fun ⟨x, hx, hp⟩ => ⟨x, h.mem_iff.1 hx, hp⟩, fun ⟨x, hx, hp⟩ => ⟨x, h.mem_iff.2 hx, hp⟩⟩

namespace Feas

set_option linter.unusedSectionVars false

variable {K : Type} [Field K] [LinearOrder K] [IsStrictOrderedRing K]

/-- a weighted sum written over the station numbers -/
theorem wsum_eq_range (n : Nat) (row x z : List K) (hr : row.length = n) (hx : x.length = n) (hz : z.length = n) :
    wsum row x z = ((List.range n).map fun i => row.getD i 0 * (x.getD i 0 * z.getD i 0)).sum := by
  have e1 : row = reidx (List.range n) row 0 := by rw [reidx, ← hr, range_map_getD]
  have e2 : x = reidx (List.range n) x 0 := by rw [reidx, ← hx, range_map_getD]
  have e3 : z = reidx (List.range n) z 0 := by rw [reidx, ← hz, range_map_getD]
  conv_lhs => rw [e1, e2, e3]
  unfold wsum
  rw [zipWith_reidx, reidx, List.zipWith_map, List.zipWith_self]

/-- the sum over permuted stations is the same sum -/
theorem wsum_reidx (σ : List Nat) (n : Nat) (hσ : σ.Perm (List.range n)) (row x z : List K)
    (hr : row.length = n) (hx : x.length = n) (hz : z.length = n) :
    wsum (reidx σ row 0) (reidx σ x 0) (reidx σ z 0) = wsum row x z := by
  rw [wsum_eq_range n row x z hr hx hz]
  unfold wsum
  rw [zipWith_reidx, reidx, List.zipWith_map, List.zipWith_self]
  exact (hσ.map _).sum_eq

theorem col_reidx (σ : List Nat) (S : List (List K)) (t : Nat) :
    col (reidx σ S []) t = reidx σ (col S t) 0 := by
  unfold col reidx
  rw [List.map_map]
  apply List.map_congr_left
  intro i _
  simp only [Function.comp, List.getD_eq_getElem?_getD, List.getElem?_map]
  cases S[i]? <;> simp

theorem col_length (S : List (List K)) (t : Nat) : (col S t).length = S.length := by simp [col]

theorem rowOk_reidx (σ : List Nat) (n : Nat) (hσ : σ.Perm (List.range n)) (row : List K) (lim vt rt : K)
    (c s x : List K) (hr : row.length = n) (hc : c.length = n) (hs : s.length = n) (hx : x.length = n) :
    rowOk (reidx σ row 0) lim vt rt (reidx σ c 0) (reidx σ s 0) (reidx σ x 0) = rowOk row lim vt rt c s x := by
  unfold rowOk
  rw [aggRe_eq, aggIm_eq, aggRe_eq, aggIm_eq, wsum_reidx σ n hσ row x c hr hx hc, wsum_reidx σ n hσ row x s hr hx hs]

/-- `periods` of a rectangular schedule does not depend on which row comes first -/
theorem periods_reidx (σ : List Nat) (n : Nat) (hσ : σ.Perm (List.range n)) (S : List (List K)) (w : Nat)
    (hS : S.length = n) (hw : ∀ r ∈ S, r.length = w) : periods (reidx σ S []) = periods S := by
  have hp : (reidx σ S []).Perm S := reidx_perm [] (by rw [hS]; exact hσ)
  unfold periods
  cases hS' : S with
  | nil =>
    have : reidx σ [] ([] : List K) = [] := List.Perm.eq_nil (by simpa [hS'] using hp)
    simp [this]
  | cons r rs =>
    cases hR : reidx σ S [] with
    | nil => rw [hR] at hp; exact absurd hp.symm.eq_nil (by simp [hS'])
    | cons q qs =>
      have hq : q ∈ S := hp.mem_iff.1 (by rw [hR]; simp)
      have hr : r ∈ S := by simp [hS']
      rw [hS'] at hR
      rw [hR]
      simp only [List.headD_cons]
      rw [hw q hq, hw r hr]

end Feas
end Acn
