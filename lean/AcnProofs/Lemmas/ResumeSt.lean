/-
  Helper lemmas for C09 (stateful scheduler): crash / resume for the simulator loop whose scheduler
  carries STATE from call to call (`AcnModel/SimSortedRd.lean: runSt` — the sorted algorithms with the
  `SimpleRampdown` estimator are such a scheduler, `sortedSchedSt`).

  `failAtSt k sched` raises in period `k` BEFORE the scheduler touches its state (the exception leaves
  `scheduler.run()` before `schedule()` is entered, or inside it before anything is written).  The run
  aborts after the events of period `k`; the scheduler state at that point is what the surviving
  algorithm object holds.  Re-running from the failed simulator state WITH THAT scheduler state
  (`run()` again on the same objects; `from_json` + `update_scheduler(the same algorithm object)`) is the
  uninterrupted run: same simulator state up to the ghost field `invoked` AND the same final scheduler
  state (`resume_runSt`).  Nothing is assumed about the scheduler.

  The proofs mirror `ResumeRun.lean` with the state threaded; `bodySt_fst'` (one period of `runSt` is one
  period of `Sim.run` under the scheduler frozen at the current state) lets the core-level facts of
  `ResumeRun.lean` / `RegistryWF2.lean` be reused as they are.
-/
import AcnModel.SimSortedRd
import AcnProofs.Lemmas.ResumeRun
import AcnProofs.Lemmas.RegistryWF2

set_option linter.unusedSectionVars false

namespace Acn.SimSortedRd
open Acn Acn.EventCore Acn.Sim

variable {K : Type} [Add K] [Sub K] [Mul K] [Div K] [Neg K] [LT K] [LE K]
  [DecidableLT K] [DecidableLE K] [OfNat K 0] [OfNat K 1] [NatCast K] [HasExp K]
variable {σ : Type}

/-- the stateful scheduler that raises in period `k` (its state untouched) and otherwise is `sched` -/
def failAtSt (k : Nat) (sched : σ → View K → Except Err (Schedule K × σ)) :
    σ → View K → Except Err (Schedule K × σ) :=
  fun st v => if v.iter = k then .error .schedulerFailed else sched st v

/-- equal simulator outcome up to the ghost field, equal error, equal scheduler state -/
def ObsEqRS (r r' : (State K × Option Err) × σ) : Prop := ObsEqR r.1 r'.1 ∧ r.2 = r'.2

theorem ObsEqRS.symm {a b : (State K × Option Err) × σ} (h : ObsEqRS a b) : ObsEqRS b a := ⟨h.1.symm, h.2.symm⟩
theorem ObsEqRS.trans {a b c : (State K × Option Err) × σ} (h : ObsEqRS a b) (h' : ObsEqRS b c) : ObsEqRS a c :=
  ⟨h.1.trans h'.1, h.2.trans h'.2⟩

/-- the part of `bodySt` after the events of the period -/
def afterEventsSt (cfg : Cfg K) (sched : σ → View K → Except Err (Schedule K × σ)) (st : σ) (s1 : State K) :
    (State K × Option Err) × σ :=
  if needsSched cfg.maxRecompute s1.core then
    match schedStageSt cfg sched st { s1 with core := markInvoked s1.core } with
    | .error e => (({ s1 with core := markInvoked s1.core }, some e), st)
    | .ok (m, st') => (applyStage cfg { s1 with pilots := m, core := markScheduled (markInvoked s1.core) }, st')
  else (applyStage cfg s1, st)

theorem bodySt_eq (cfg : Cfg K) (sched : σ → View K → Except Err (Schedule K × σ)) (st : σ) (s : State K) :
    bodySt cfg sched st s = match eventsStage cfg s with
      | (s1, some e) => ((s1, some e), st)
      | (s1, none) => afterEventsSt cfg sched st s1 := rfl

/-- the scheduling stage with state = the scheduling stage under the frozen scheduler -/
theorem schedStageSt_frozen' (cfg : Cfg K) (sched : σ → View K → Except Err (Schedule K × σ)) (st : σ) (s : State K) :
    Sim.schedStage cfg (frozen sched st) s =
      match schedStageSt cfg sched st s with
      | .error e => .error e
      | .ok (m, _) => .ok m := by
  unfold Sim.schedStage schedStageSt frozen
  split
  · rfl
  · cases hs : sched st (view cfg s) with
    | error e => rfl
    | ok p =>
      obtain ⟨sch, st'⟩ := p
      simp only
      cases Pilots.updateSchedules (cfg.stations.map (·.id)) s.pilots s.core.iter
        ((lastTs s.core.pending).map Int.toNat) sch <;> rfl

theorem afterEventsSt_fst (cfg : Cfg K) (sched : σ → View K → Except Err (Schedule K × σ)) (st : σ) (s1 : State K) :
    (afterEventsSt cfg sched st s1).1 = afterEvents cfg (frozen sched st) s1 := by
  unfold afterEventsSt afterEvents
  split
  · rw [schedStageSt_frozen']
    cases hs : schedStageSt cfg sched st { s1 with core := markInvoked s1.core } with
    | error e => rfl
    | ok p => obtain ⟨m, st'⟩ := p; rfl
  · rfl

/-- one period with state = one period of `Sim.body` under the scheduler frozen at the current state -/
theorem bodySt_fst' (cfg : Cfg K) (sched : σ → View K → Except Err (Schedule K × σ)) (st : σ) (s : State K) :
    (bodySt cfg sched st s).1 = Sim.body cfg (frozen sched st) s := by
  rw [bodySt_eq, body_eq]
  rcases eventsStage cfg s with ⟨s1, _ | err⟩ <;> simp only []
  exact afterEventsSt_fst cfg sched st s1

/-! ### the failing scheduler -/

theorem afterEventsSt_failAt_ne (cfg : Cfg K) (sched : σ → View K → Except Err (Schedule K × σ)) (st : σ)
    {k : Nat} {s1 : State K} (h : s1.core.iter ≠ k) :
    afterEventsSt cfg (failAtSt k sched) st s1 = afterEventsSt cfg sched st s1 := by
  unfold afterEventsSt schedStageSt
  have : failAtSt k sched st (view cfg { s1 with core := markInvoked s1.core })
      = sched st (view cfg { s1 with core := markInvoked s1.core }) := by
    unfold failAtSt
    have : (view cfg { s1 with core := markInvoked s1.core }).iter = s1.core.iter := rfl
    rw [this, if_neg h]
  rw [this]

theorem bodySt_failAt_ne (cfg : Cfg K) (sched : σ → View K → Except Err (Schedule K × σ)) (st : σ)
    {k : Nat} {s : State K} (h : s.core.iter ≠ k) :
    bodySt cfg (failAtSt k sched) st s = bodySt cfg sched st s := by
  rw [bodySt_eq, bodySt_eq]
  have hi := eventsStage_iter' cfg s
  rcases he : eventsStage cfg s with ⟨s1, _ | err⟩ <;> rw [he] at hi <;> simp only [] at hi ⊢
  exact afterEventsSt_failAt_ne cfg sched st (by rw [hi]; exact h)

/-- in period `k` either the scheduler is not reached (then nothing changes), or the run aborts right
    after the events stage with one more entry in `invoked` and the scheduler state UNTOUCHED -/
theorem bodySt_failAt_eq (cfg : Cfg K) (sched : σ → View K → Except Err (Schedule K × σ)) (st : σ)
    {k : Nat} {s : State K} (h : s.core.iter = k) :
    bodySt cfg (failAtSt k sched) st s = bodySt cfg sched st s ∨
    ∃ s1, eventsStage cfg s = (s1, none) ∧ needsSched cfg.maxRecompute s1.core = true ∧
      bodySt cfg (failAtSt k sched) st s = (({ s1 with core := markInvoked s1.core }, some .schedulerFailed), st) := by
  rw [bodySt_eq, bodySt_eq]
  have hi := eventsStage_iter' cfg s
  rcases he : eventsStage cfg s with ⟨s1, _ | err⟩ <;> rw [he] at hi <;> simp only [] at hi ⊢
  · by_cases hn : needsSched cfg.maxRecompute s1.core = true
    · by_cases hg : (activeEvs cfg { s1 with core := markInvoked s1.core }).any (fun e => !sessionInfoOk e) = true
      · left
        unfold afterEventsSt schedStageSt
        simp only [hn, if_true, hg]
      · right
        refine ⟨s1, rfl, hn, ?_⟩
        unfold afterEventsSt schedStageSt
        have hv : failAtSt k sched st (view cfg { s1 with core := markInvoked s1.core }) = .error .schedulerFailed := by
          unfold failAtSt
          have : (view cfg { s1 with core := markInvoked s1.core }).iter = s1.core.iter := rfl
          rw [this, hi, if_pos h]
        simp only [hn, if_true, hg, hv]
        rfl
    · left
      unfold afterEventsSt
      rw [if_neg hn, if_neg hn]
  · left; trivial

/-! ### `ObsEq` is a congruence for `bodySt` and `runSt` (simulator outcome AND scheduler state) -/

theorem schedStageSt_withInv (cfg : Cfg K) (sched : σ → View K → Except Err (Schedule K × σ)) (st : σ)
    (l : List Nat) (s : State K) :
    schedStageSt cfg sched st (withInv l s) = schedStageSt cfg sched st s := rfl

theorem afterEventsSt_withInv (cfg : Cfg K) (sched : σ → View K → Except Err (Schedule K × σ)) (st : σ)
    (l : List Nat) (s : State K) :
    ObsEqRS (afterEventsSt cfg sched st (withInv l s)) (afterEventsSt cfg sched st s) := by
  unfold afterEventsSt
  have hn : needsSched cfg.maxRecompute (withInv l s).core = needsSched cfg.maxRecompute s.core := rfl
  rw [hn]
  by_cases h : needsSched cfg.maxRecompute s.core = true
  · simp only [h, if_true]
    have e1 : ({ withInv l s with core := markInvoked (withInv l s).core } : State K)
        = withInv (l ++ [s.core.iter]) { s with core := markInvoked s.core } := rfl
    rw [e1, schedStageSt_withInv]
    rcases schedStageSt cfg sched st { s with core := markInvoked s.core } with e | ⟨m, st'⟩ <;> simp only []
    · exact ⟨⟨rfl, rfl⟩, rfl⟩
    · have e2 : ({ withInv l s with pilots := m, core := markScheduled (markInvoked (withInv l s).core) } : State K)
          = withInv (l ++ [s.core.iter]) { s with pilots := m, core := markScheduled (markInvoked s.core) } := rfl
      rw [e2, applyStage_withInv]
      exact ⟨⟨rfl, rfl⟩, rfl⟩
  · simp only [h]
    rw [applyStage_withInv]
    exact ⟨⟨rfl, rfl⟩, rfl⟩

theorem bodySt_obs (cfg : Cfg K) (sched : σ → View K → Except Err (Schedule K × σ)) (st : σ) {s t : State K}
    (h : ObsEq s t) : ObsEqRS (bodySt cfg sched st t) (bodySt cfg sched st s) := by
  rw [h.eq_withInv, bodySt_eq, bodySt_eq, eventsStage_withInv]
  rcases eventsStage cfg s with ⟨s1, _ | err⟩ <;> simp only []
  · exact afterEventsSt_withInv cfg sched st _ s1
  · exact ⟨⟨rfl, rfl⟩, rfl⟩

theorem runSt_obs (cfg : Cfg K) (sched : σ → View K → Except Err (Schedule K × σ)) :
    ∀ (n : Nat) (st : σ) {s t : State K}, ObsEq s t →
      ObsEqRS (runSt cfg sched n st t) (runSt cfg sched n st s)
  | 0, _, _, _, h => ⟨⟨h.symm, rfl⟩, rfl⟩
  | n + 1, st, s, t, h => by
    simp only [runSt, guard_obs h]
    by_cases hg : guard s.core = true
    · simp only [hg, if_true]
      have hb := bodySt_obs cfg sched st h
      rcases hs : bodySt cfg sched st s with ⟨⟨s', _ | e⟩, st1⟩ <;>
        rcases ht : bodySt cfg sched st t with ⟨⟨t', _ | e'⟩, st2⟩ <;>
        rw [hs, ht] at hb <;> simp only []
      · have h2 : st2 = st1 := hb.2
        subst h2
        exact runSt_obs cfg sched n st2 hb.1.1.symm
      · exact absurd hb.1.2 (by simp)
      · exact absurd hb.1.2 (by simp)
      · exact hb
    · simp only [hg]
      exact ⟨⟨h.symm, rfl⟩, rfl⟩

/-! ### re-running `bodySt` on the failed state with the scheduler state of the crash -/

theorem bodySt_retry (cfg : Cfg K) (sched : σ → View K → Except Err (Schedule K × σ)) (st : σ) {s s1 : State K}
    (hI : NoOverdue cfg.core s.core) (he : eventsStage cfg s = (s1, none)) :
    let s' : State K := { s1 with core := markInvoked s1.core }
    Fresh s'.core ∧ (guard s.core = true → guard s'.core = true) ∧
    ObsEqRS (bodySt cfg sched st s') (bodySt cfg sched st s) := by
  intro s'
  have hc := eventsStage_core cfg s
  rw [he] at hc
  simp only [] at hc
  have hf : Fresh s1.core := by rw [hc.1]; exact EventCore.eventsStage_fresh hI
  have hf' : Fresh s'.core := hf
  refine ⟨hf', ?_, ?_⟩
  · intro hg
    have := EventCore.eventsStage_guard hg hc.2.symm
    rw [← hc.1] at this
    exact this
  · rw [bodySt_eq, bodySt_eq, he, eventsStage_of_fresh cfg hf']
    simp only []
    exact afterEventsSt_withInv cfg sched st (s1.core.invoked ++ [s1.core.iter]) s1

/-! ### whole runs -/

theorem bodySt_ok_core {cfg : Cfg K} {sched : σ → View K → Except Err (Schedule K × σ)} {st st' : σ} {s s' : State K}
    (h : bodySt cfg sched st s = ((s', none), st')) : Sim.body cfg (frozen sched st) s = (s', none) := by
  rw [← bodySt_fst', h]

theorem runSt_failAt_gt (cfg : Cfg K) (sched : σ → View K → Except Err (Schedule K × σ)) {k : Nat} :
    ∀ (n : Nat) (st : σ) {s : State K}, k < s.core.iter →
      runSt cfg (failAtSt k sched) n st s = runSt cfg sched n st s
  | 0, _, _, _ => rfl
  | n + 1, st, s, h => by
    simp only [runSt]
    split
    · rw [bodySt_failAt_ne cfg sched st (by omega)]
      rcases hb : bodySt cfg sched st s with ⟨⟨s', _ | e⟩, st'⟩ <;> simp only []
      exact runSt_failAt_gt cfg sched n st' (by rw [(body_ok_core (bodySt_ok_core hb)).1]; omega)
    · rfl

/-- crash in period `k`, then resume WITH THE SCHEDULER STATE OF THE CRASH, against the uninterrupted run —
    from any simulator state that satisfies the invariant, any scheduler state, for every fuel -/
theorem resume_runSt (cfg : Cfg K) (sched : σ → View K → Except Err (Schedule K × σ)) (k : Nat) :
    ∀ (n : Nat) (st : σ) {s : State K}, NoOverdue cfg.core s.core → s.core.iter ≤ k →
      runSt cfg (failAtSt k sched) n st s = runSt cfg sched n st s ∨
      ((runSt cfg (failAtSt k sched) n st s).1.2 = some .schedulerFailed ∧
       (runSt cfg (failAtSt k sched) n st s).1.1.core.iter = k ∧
       Fresh (runSt cfg (failAtSt k sched) n st s).1.1.core ∧
       ObsEqRS (runSt cfg sched (n - (k - s.core.iter)) (runSt cfg (failAtSt k sched) n st s).2
                  (runSt cfg (failAtSt k sched) n st s).1.1)
               (runSt cfg sched n st s))
  | 0, _, _, _, _ => Or.inl rfl
  | n + 1, st, s, hI, hk => by
    by_cases hg : guard s.core = true
    · rcases Nat.lt_or_eq_of_le hk with hlt | heq
      · -- before the crash period: same body
        have hb := bodySt_failAt_ne cfg sched st (k := k) (s := s) (by omega)
        simp only [runSt, hg, if_true, hb]
        rcases hbs : bodySt cfg sched st s with ⟨⟨s', _ | e⟩, st'⟩ <;> simp only []
        · have hbs' := bodySt_ok_core hbs
          have hc := body_ok_core hbs'
          rcases resume_runSt cfg sched k n st' (body_noOverdue hI hbs') (by rw [hc.1]; omega) with h | ⟨h1, h2, h3, h4⟩
          · exact Or.inl h
          · right
            refine ⟨h1, h2, h3, ?_⟩
            have : n + 1 - (k - s.core.iter) = n - (k - s'.core.iter) := by rw [hc.1]; omega
            rw [this]
            exact h4
        · exact Or.inl trivial
      · -- the crash period
        rcases bodySt_failAt_eq cfg sched st heq with hb | ⟨s1, he, hn, hb⟩
        · left
          simp only [runSt, hg, if_true, hb]
          rcases hbs : bodySt cfg sched st s with ⟨⟨s', _ | e⟩, st'⟩ <;> simp only []
          exact runSt_failAt_gt cfg sched n st' (by rw [(body_ok_core (bodySt_ok_core hbs)).1]; omega)
        · right
          obtain ⟨hfr, hg', hobs⟩ := bodySt_retry cfg sched st hI he
          have hc := eventsStage_core cfg s
          rw [he] at hc
          simp only [] at hc
          have hi1 : s1.core.iter = s.core.iter := by rw [hc.1, EventCore.eventsStage_iter]
          have hr : runSt cfg (failAtSt k sched) (n + 1) st s
              = (({ s1 with core := markInvoked s1.core }, some .schedulerFailed), st) := by
            simp only [runSt, hg, if_true, hb]
          rw [hr]
          refine ⟨rfl, by show s1.core.iter = k; rw [hi1, heq], hfr, ?_⟩
          have : n + 1 - (k - s.core.iter) = n + 1 := by omega
          rw [this]
          simp only [runSt, hg' hg, hg, if_true]
          rcases h1 : bodySt cfg sched st { s1 with core := markInvoked s1.core } with ⟨⟨a, _ | e⟩, sa⟩ <;>
            rcases h2 : bodySt cfg sched st s with ⟨⟨b, _ | e'⟩, sb⟩ <;> rw [h1, h2] at hobs <;> simp only []
          · have h3 : sa = sb := hobs.2
            subst h3
            exact runSt_obs cfg sched n sa hobs.1.1.symm
          · exact absurd hobs.1.2 (by simp)
          · exact absurd hobs.1.2 (by simp)
          · exact hobs
    · left
      simp only [runSt, hg, Bool.false_eq_true, if_false]

end Acn.SimSortedRd

/-! ### every state a stateful run can leave behind is well-formed (so `to_json` / `from_json` round-trips it) -/

namespace Acn.RegistrySim
open Acn Acn.EventCore Acn.Sim Acn.SimSortedRd

variable {K : Type} [Add K] [Sub K] [Mul K] [Div K] [Neg K] [LT K] [LE K]
  [DecidableLT K] [DecidableLE K] [OfNat K 0] [OfNat K 1] [NatCast K] [HasExp K]
variable {σ : Type}

/-- `run_sinv` with the scheduler state threaded: every period is a `Sim.body` under SOME pure scheduler -/
theorem runSt_sinv (cfg : Cfg K) (sched : σ → View K → Except Err (Schedule K × σ)) (hv : Valid cfg.core) :
    ∀ (n t : Nat) (st : σ) (s : State K), Inv cfg.core t s.core → SInv cfg s → SInv cfg (runSt cfg sched n st s).1.1
  | 0, _, _, _, _, h => h
  | n + 1, t, st, s, hI, h => by
    simp only [runSt]
    split
    · obtain ⟨c1, hes, _⟩ := eventsStage_ok hv hI
      have hb := body_sinv cfg (frozen sched st) h hv.ids_nodup (by rw [hes])
      have hfst := bodySt_fst' cfg sched st s
      rcases hbody : bodySt cfg sched st s with ⟨⟨s', _ | e⟩, st'⟩
      · rw [hbody] at hfst
        simp only at hfst
        rw [← hfst] at hb
        simp only
        have hcore := body_core_noFail hfst.symm
        obtain ⟨c', hc', hI'⟩ := body_ok hv (sched := noFail) (apply := noFail) (fun _ => rfl) (fun _ => rfl) hI
        rw [hc'] at hcore
        have : c' = s'.core := congrArg Prod.fst hcore
        exact runSt_sinv cfg sched hv n (t + 1) st' s' (this ▸ hI') hb
      · rw [hbody] at hfst
        simp only at hfst
        rw [← hfst] at hb
        exact hb
    · exact h

end Acn.RegistrySim
