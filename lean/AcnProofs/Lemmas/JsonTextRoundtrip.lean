/-
  Helper lemmas for C09 (JSON text layer): the fuel that `parse` gives itself (twice the length of the text)
  always suffices, hence the closed form of the round trip: `parse (render v) = some v`.
-/
import AcnProofs.Lemmas.JsonTextParse
namespace Acn.JsonText

theorem render_length_pos (v : JVal) (hw : v.wf = true) : 1 ≤ (render v).length := by
  obtain ⟨c, t, h, _⟩ := render_head v hw
  rw [h]; simp

mutual
theorem cost_le_length : ∀ (v : JVal), v.wf = true → v.cost ≤ 2 * (render v).length
  | .null, _ => by simp [JVal.cost, render]
  | .bool b, _ => by cases b <;> simp [JVal.cost, render]
  | .int n, hw => by have := render_length_pos (.int n) hw; simp only [JVal.cost]; omega
  | .num t, hw => by have := render_length_pos (.num t) hw; simp only [JVal.cost]; omega
  | .str s, hw => by have := render_length_pos (.str s) hw; simp only [JVal.cost]; omega
  | .arr [], _ => by simp [JVal.cost, costList, render]
  | .arr (v :: l), hw => by
    simp only [JVal.wf, wfList, Bool.and_eq_true] at hw
    have h1 := cost_le_length v hw.1
    have h2 := costList_le_length l hw.2
    simp only [JVal.cost, costList, render, List.length_cons, List.length_append, List.length_nil]
    omega
  | .obj [], _ => by simp [JVal.cost, costMembers, render]
  | .obj ((k, v) :: l), hw => by
    simp only [JVal.wf, wfMembers, Bool.and_eq_true] at hw
    have h1 := cost_le_length v hw.1
    have h2 := costMembers_le_length l hw.2
    simp only [JVal.cost, costMembers, render, List.length_cons, List.length_append, List.length_nil]
    omega
theorem costList_le_length : ∀ (l : List JVal), wfList l = true → costList l ≤ 2 * (renderTail l).length + 1
  | [], _ => by simp [costList, renderTail]
  | v :: l, hw => by
    simp only [wfList, Bool.and_eq_true] at hw
    have h1 := cost_le_length v hw.1
    have h2 := costList_le_length l hw.2
    simp only [costList, renderTail, List.length_cons, List.length_append]
    omega
theorem costMembers_le_length : ∀ (l : List (String × JVal)), wfMembers l = true →
    costMembers l ≤ 2 * (renderMTail l).length + 1
  | [], _ => by simp [costMembers, renderMTail]
  | (k, v) :: l, hw => by
    simp only [wfMembers, Bool.and_eq_true] at hw
    have h1 := cost_le_length v hw.1
    have h2 := costMembers_le_length l hw.2
    simp only [costMembers, renderMTail, List.length_cons, List.length_append]
    omega
end

/-- `json.loads(json.dumps(v)) = v` -/
theorem parse_render (v : JVal) (hw : v.wf = true) : parse (render v) = some v := by
  obtain ⟨c, t, h, hws, _⟩ := render_head v hw
  have hp := parseVal_render v (2 * (render v).length + 1) [] hw (by have := cost_le_length v hw; omega) delim_nil
  rw [List.append_nil] at hp
  unfold parse
  have hs : skipWs (render v) = render v := by rw [h]; exact skipWs_of_head _ _ hws
  rw [hs, hp]
  simp [skipWs]

/-- … also with blanks or a newline around the document (`to_json(path)` appends `"\n"`, base.py:262) -/
theorem parse_render_padded (v : JVal) (hw : v.wf = true) (pre post : List Char)
    (h1 : pre.all isWs = true) (h2 : post.all isWs = true) :
    parse (pre ++ (render v ++ post)) = some v := by
  have hskip : ∀ (p q : List Char), p.all isWs = true → skipWs (p ++ q) = skipWs q := by
    intro p q hp
    induction p with
    | nil => rfl
    | cons a p ih =>
      simp only [List.all_cons, Bool.and_eq_true] at hp
      simp [skipWs, hp.1, ih hp.2]
  obtain ⟨c, t, h, hws, _⟩ := render_head v hw
  have hd : Delim post := by
    intro c r e
    subst e
    simp only [List.all_cons, Bool.and_eq_true] at h2
    have := h2.1
    simp only [isWs, Bool.or_eq_true, decide_eq_true_eq] at this
    rcases this with ((rfl | rfl) | rfl) | rfl <;> decide
  have hs : skipWs (render v ++ post) = render v ++ post := by
    rw [h, List.cons_append]; exact skipWs_of_head _ _ hws
  have hpost : skipWs post = [] := by
    have := hskip post [] h2
    simpa [skipWs] using this
  unfold parse
  rw [hskip pre _ h1, hs,
    parseVal_render v _ post hw (by
      have := cost_le_length v hw
      simp only [List.length_append]
      omega) hd]
  simp [hpost]

end Acn.JsonText
