/-
  T1c, stateful methods — contrib `StochasticNetwork.available_evses` / `plugin` / `unplug` refine the hand model
  `Stoch.Net.free` / `Net.plugin` / `Net.unplug` of AcnModel/Stochastic.lean, the functions C19's theorems are about
  (group StochOps; property C19).

  `AcnModel/Gen/CodeStochOps.lean` is regenerated on every run from contrib/acnsim/network/stochastic_network.py
  (and from the methods it calls: `EV.update_station_id`, `BaseEVSE.plugin/unplug`, `ChargingNetwork.plugin` as
  `super().plugin`, translated on a representation whose `station_id` may be None).  `random.choice(available_spots)`
  is `pyChoice ρ`: the element at index `ρ mod len`; the tie instantiates `ρ := cs s.draws`, the model's choice stream.
  `waiting_queue` (OrderedDict) is an association list in insertion order: `popitem(last=False)` takes its head,
  `d[k] = v; d.move_to_end(k)` files `k` at the end, `del d[k]` erases it.

  The network object `p : PyStNet K` and the model state `s` are related by `Abs p s` (CodeTieStochDict.lean): equal
  stations, flag, occupancy (`stOcc`), queue keys and counters.  Each tie says: from related states the translated
  method and the model operation have the SAME OUTCOME (done / the same exception class) and end in related states —
  for every input, every draw.  None of the translated `AttributeError` / `IndexError` / inner `KeyError` paths is
  reachable.  Hypothesis `PyWf p`: `_EVSEs` has distinct keys (it is a dict) and queue entries are filed under their
  own session id; both are preserved by the three methods (`*_wf`).
-/
import AcnProofs.Lemmas.CodeTieStochDict

set_option linter.unusedSectionVars false
set_option linter.unusedSimpArgs false

namespace Acn.CodeTie.St
open Acn Acn.Gen.Code Acn.Stoch

section
variable {K : Type} [Add K] [Sub K] [Mul K] [Div K] [Neg K] [LT K] [LE K]
  [DecidableLT K] [DecidableLE K] [OfNat K 0] [OfNat K 1] [NatCast K] [HasExp K]

/-! ### available_evses -/

theorem available_aux (d : List (String × PyStEvse K)) (hn : (keys d).Nodup) :
    d.filterMap (fun (kv : String × PyStEvse K) => if (kv.2.ev).isNone then some kv.1 else none) =
      (keys d).filter (fun st => ((dictGet? d st).bind (fun e => e.ev.map (·.session))).isNone) := by
  induction d with
  | nil => rfl
  | cons p r ih =>
    obtain ⟨k0, v0⟩ := p
    simp only [keys, List.map_cons, List.nodup_cons] at hn
    have ih' := ih hn.2
    have hc : (keys r).filter (fun st => ((dictGet? ((k0, v0) :: r) st).bind (fun e => e.ev.map (·.session))).isNone) =
        (keys r).filter (fun st => ((dictGet? r st).bind (fun e => e.ev.map (·.session))).isNone) := by
      apply List.filter_congr
      intro st hst
      have : ¬ k0 = st := fun e => hn.1 (e ▸ hst)
      simp [dictGet?, this]
    simp only [keys, List.map_cons, List.filter_cons, List.filterMap_cons]
    simp only [keys] at hc ih'
    rw [hc, ← ih']
    cases hv : v0.ev <;> simp [dictGet?, hv]

/-- `StochasticNetwork.available_evses()` is the model's free list, in the same (`_EVSEs`) order -/
theorem stnet_available_evses_tie (p : PyStNet K) (s : Net) (ha : Abs p s) (hw : PyWf p) :
    stnet_available_evses p = s.free := by
  unfold stnet_available_evses Net.free dictItems
  rw [ha.stations, ha.occ]
  exact available_aux p.evses hw.keys_nodup

theorem mem_free_st {s : Net} {st : Station} (h : st ∈ s.free) : st ∈ s.stations ∧ s.occ st = none := by
  simp only [Net.free, List.mem_filter, Option.isNone_iff_eq_none] at h
  exact h

/-- a free station of the model is a registered EVSE without an EV -/
theorem free_evse (p : PyStNet K) (s : Net) (ha : Abs p s) (st : String) (h1 : st ∈ s.stations)
    (h2 : s.occ st = none) : ∃ evse, dictGet? p.evses st = some evse ∧ evse.ev = none := by
  rw [ha.stations, mem_stations_iff] at h1
  rw [ha.occ] at h2
  cases hg : dictGet? p.evses st with
  | none => rw [hg] at h1; cases h1
  | some evse =>
    refine ⟨evse, rfl, ?_⟩
    simp only [stOcc, occE, hg, Option.bind_some] at h2
    cases hv : evse.ev with
    | none => rfl
    | some e => rw [hv] at h2; cases h2

/-! ### `super().plugin(ev)` on a station that is registered and empty -/

theorem base_plugin_free (p : PyStNet K) (ev : PyStEv K) (st : String) (evse : PyStEvse K)
    (hs : ev.station = some st) (hg : dictGet? p.evses st = some evse) (he : evse.ev = none) :
    stnet_base_plugin p ev none =
      ({ p with evses := dictSet p.evses st { evse with ev := some ev } }, .ok ()) := by
  unfold stnet_base_plugin stevse_plugin
  simp [hs, hg, he]

/-- `ev` after `ev.update_station_id(o)` -/
def evAt (ev : PyStEv K) (o : Option String) : PyStEv K := { ev with station := o }
/-- an EVSE after `plugin(ev)` on it (empty before) -/
def evseHolding (evse : PyStEvse K) (ev : PyStEv K) : PyStEvse K := { evse with ev := some ev }
/-- an EVSE after `unplug()` -/
def evseVacated (evse : PyStEvse K) : PyStEvse K := { evse with ev := none, pilot := 0 }

/-! ### plugin -/

theorem choice_cons (ρ : Nat) (f : String) (fs : List String) :
    pyChoice ρ (f :: fs) = .ok ((f :: fs).getD (ρ % (fs.length + 1)) f) := by
  unfold pyChoice
  have hlt : ρ % (fs.length + 1) < (f :: fs).length := by
    rw [List.length_cons]; exact Nat.mod_lt _ (Nat.succ_pos _)
  simp only [List.length_cons]
  rw [List.getElem?_eq_getElem hlt]
  simp [List.getD_eq_getElem?_getD, List.getElem?_eq_getElem hlt]

theorem getD_mem (f : String) (fs : List String) (k : Nat) : (f :: fs).getD (k % (fs.length + 1)) f ∈ f :: fs := by
  have hlt : k % (fs.length + 1) < (f :: fs).length := by
    rw [List.length_cons]; exact Nat.mod_lt _ (Nat.succ_pos _)
  rw [List.getD_eq_getElem?_getD, List.getElem?_eq_getElem hlt]
  simp only [Option.getD_some]
  exact List.getElem_mem hlt

/-- what the translated `plugin` computes when no EVSE is free: `ev.station_id := None`, filed at the end of the queue -/
theorem plugin_code_nil (ρ : Nat) (p : PyStNet K) (ev : PyStEv K) (sid : Option String)
    (h : stnet_available_evses p = []) :
    stnet_plugin ρ p ev sid =
      (({ p with waiting := dictMoveToEnd (dictSet p.waiting ev.session (evAt ev none)) ev.session },
        evAt ev none), .ok ()) := by
  unfold stnet_plugin
  have hget : dictGet? (dictSet p.waiting ev.session (evAt ev none)) ev.session = some (evAt ev none) := by
    rw [get_set]; simp
  simp only [evAt] at hget ⊢
  simp [h, stev_update_station_id, hget]

/-- … and when the drawn EVSE `st` is registered and empty -/
theorem plugin_code_cons (ρ : Nat) (p : PyStNet K) (ev : PyStEv K) (sid : Option String) (f : String)
    (fs : List String) (h : stnet_available_evses p = f :: fs) (st : String)
    (hch : pyChoice ρ (f :: fs) = .ok st) (evse : PyStEvse K)
    (hg : dictGet? p.evses st = some evse) (he : evse.ev = none) :
    stnet_plugin ρ p ev sid =
      (({ p with evses := dictSet p.evses st (evseHolding evse (evAt ev (some st))) }, evAt ev (some st)), .ok ()) := by
  unfold stnet_plugin
  have hbp := base_plugin_free p (evAt ev (some st)) _ evse rfl hg he
  simp only [evAt, evseHolding] at hbp ⊢
  simp [h, hch, stev_update_station_id, hbp]

/-- `StochasticNetwork.plugin(ev)` with the draw `ρ = cs s.draws` refines `Net.plugin cs`: neither raises, the states
    stay related, and the `station_id` the code has written into `ev` is the one the model records for the session -/
theorem stnet_plugin_tie (p : PyStNet K) (s : Net) (ev : PyStEv K) (sid : Option String) (cs : Nat → Nat)
    (ha : Abs p s) (hw : PyWf p) :
    ∃ s', s.plugin cs ev.session = .ok s' ∧
      (stnet_plugin (cs s.draws) p ev sid).2 = .ok () ∧
      Abs (stnet_plugin (cs s.draws) p ev sid).1.1 s' ∧
      (stnet_plugin (cs s.draws) p ev sid).1.2.station = (s'.ev ev.session).station ∧
      (stnet_plugin (cs s.draws) p ev sid).1.2.session = ev.session ∧
      PyWf (stnet_plugin (cs s.draws) p ev sid).1.1 := by
  have hav := stnet_available_evses_tie p s ha hw
  cases hf : s.free with
  | nil =>
    rw [plugin_code_nil _ p ev sid (hav.trans hf)]
    refine ⟨{ s.modEv ev.session (fun r => { r with station := none, queued := true }) with
              waiting := s.waiting.erase ev.session ++ [ev.session] }, by simp only [Net.plugin, hf], rfl, ?_, ?_, rfl, ?_⟩
    · refine ⟨ha.stations, ha.early, ha.occ, ?_, ha.swaps, ha.never, ha.earlyU⟩
      show s.waiting.erase ev.session ++ [ev.session] = _
      rw [ha.waiting]
      exact (set_move_keys p.waiting ev.session _).symm
    · simp [Net.modEv, evAt]
    · refine ⟨hw.keys_nodup, ?_⟩
      intro k e hm
      rcases mem_set _ _ _ _ (mem_move _ _ _ hm) with h | h
      · exact hw.wait_key k e h
      · cases h; rfl
  | cons f fs =>
    have hmem : (f :: fs).getD (cs s.draws % (fs.length + 1)) f ∈ s.free := by rw [hf]; exact getD_mem f fs _
    obtain ⟨hst, hocc⟩ := mem_free_st hmem
    obtain ⟨evse, hg, he⟩ := free_evse p s ha _ hst hocc
    have hm : s.plugin cs ev.session =
        ({ s.modEv ev.session (fun r => { r with station := some ((f :: fs).getD (cs s.draws % (fs.length + 1)) f) })
            with draws := s.draws + 1 } : Net).attach ev.session := by
      simp only [Net.plugin, hf]
    rw [plugin_code_cons _ p ev sid f fs (hav.trans hf) _ (choice_cons _ f fs) evse hg he, hm]
    generalize (f :: fs).getD (cs s.draws % (fs.length + 1)) f = st at hst hocc hg ⊢
    refine ⟨(({ s.modEv ev.session (fun r => { r with station := some st }) with draws := s.draws + 1 } : Net).setOcc st
        (some ev.session)).modEv ev.session (fun r => { r with plugged := true }), ?_, rfl, ?_, ?_, rfl,
        hw.of_eq (set_keys _ _ _ ((get_isSome_iff _ _).1 (by rw [hg]; rfl))) (fun kv h => h)⟩
    · simp [Net.attach, Net.modEv, hst, hocc]
    · refine ⟨?_, ha.early, ?_, ha.waiting, ha.swaps, ha.never, ha.earlyU⟩
      · show s.stations = keys (dictSet p.evses _ _)
        rw [set_keys _ _ _ ((get_isSome_iff _ _).1 (by rw [hg]; rfl))]
        exact ha.stations
      · show (fun t => if t = _ then some ev.session else s.occ t) = _
        show _ = occE (dictSet p.evses _ _)
        rw [occE_set, ha.occ]
        rfl
    · simp [Net.modEv, Net.setOcc, evAt]

/-! ### unplug: what the translated method computes on each path -/

theorem unplug_code_wait (p : PyStNet K) (st? : Option String) (x : String) (e0 : PyStEv K)
    (hg : dictGet? p.waiting x = some e0) :
    stnet_unplug p st? (some x) =
      ({ p with waiting := dictDel p.waiting x, neverCharged := p.neverCharged + 1 }, .ok ()) := by
  unfold stnet_unplug
  simp [hg]

theorem unplug_code_nostation (p : PyStNet K) (x : String) (h1 : dictGet? p.waiting x = none) :
    stnet_unplug p none (some x) = (p, .error .KeyError) := by
  unfold stnet_unplug
  simp [h1]

theorem unplug_code_unknown (p : PyStNet K) (st x : String) (h1 : dictGet? p.waiting x = none)
    (h2 : (dictGet? p.evses st).isSome = false) :
    stnet_unplug p (some st) (some x) = (p, .error .KeyError) := by
  unfold stnet_unplug
  simp [h1, h2]

theorem unplug_code_empty (p : PyStNet K) (st x : String) (evse : PyStEvse K)
    (h1 : dictGet? p.waiting x = none) (hg : dictGet? p.evses st = some evse) (hv : evse.ev = none) :
    stnet_unplug p (some st) (some x) = (p, .ok ()) := by
  unfold stnet_unplug
  simp [h1, hg, hv]

theorem unplug_code_other (p : PyStNet K) (st x : String) (evse : PyStEvse K) (e0 : PyStEv K)
    (h1 : dictGet? p.waiting x = none) (hg : dictGet? p.evses st = some evse) (hv : evse.ev = some e0)
    (hx : ¬ x = e0.session) :
    stnet_unplug p (some st) (some x) = (p, .ok ()) := by
  unfold stnet_unplug
  simp [h1, hg, hv, hx]

theorem unplug_code_vacate (p : PyStNet K) (st : String) (evse : PyStEvse K) (e0 : PyStEv K)
    (h1 : dictGet? p.waiting e0.session = none) (hg : dictGet? p.evses st = some evse) (hv : evse.ev = some e0)
    (hq : p.waiting = []) :
    stnet_unplug p (some st) (some e0.session) =
      ({ p with evses := dictSet p.evses st (evseVacated evse) }, .ok ()) := by
  unfold stnet_unplug
  rw [hq] at h1
  simp [h1, hg, hv, hq, stevse_unplug, evseVacated]

theorem unplug_code_swap (p : PyStNet K) (st : String) (evse : PyStEvse K) (e0 : PyStEv K) (k : String)
    (nev : PyStEv K) (w : List (String × PyStEv K))
    (h1 : dictGet? p.waiting e0.session = none) (hg : dictGet? p.evses st = some evse) (hv : evse.ev = some e0)
    (hq : p.waiting = (k, nev) :: w) :
    stnet_unplug p (some st) (some e0.session) =
      ({ p with evses := dictSet (dictSet p.evses st (evseVacated evse)) st
                  (evseHolding (evseVacated evse) (evAt nev (some st))),
                waiting := w, swaps := p.swaps + 1 }, .ok ()) := by
  unfold stnet_unplug
  have hgs : dictGet? (dictSet p.evses st (evseVacated evse)) st = some (evseVacated evse) := by
    rw [get_set]; simp
  have hbp := base_plugin_free
    ({ p with evses := dictSet p.evses st (evseVacated evse), waiting := w } : PyStNet K)
    (evAt nev (some st)) st (evseVacated evse) rfl hgs rfl
  rw [hq] at h1
  simp only [evAt, evseHolding, evseVacated] at hbp ⊢
  simp [h1, hg, hv, hq, stevse_unplug, dictPopFirst?, stev_update_station_id, hbp]

/-! ### unplug -/

theorem waiting_mem_iff (p : PyStNet K) (s : Net) (ha : Abs p s) (x : String) :
    (dictGet? p.waiting x).isSome = true ↔ x ∈ s.waiting := by
  rw [ha.waiting]; exact get_isSome_iff _ _

/-- the model's swap: the head of the queue gets the station that has just been vacated -/
theorem admit_model (s : Net) (st : Station) (y : Sess) (w : List Sess) (hst : st ∈ s.stations)
    (hw : s.waiting = y :: w) :
    (s.setOcc st none).admitNext st =
      .ok { (({ (s.setOcc st none).modEv y (fun r => { r with station := some st }) with waiting := w } : Net).setOcc st
              (some y)).modEv y (fun r => { r with plugged := true }) with
            swaps := s.swaps + 1 } := by
  simp [Net.admitNext, Net.setOcc, hw, Net.attach, Net.modEv, hst, bind, Except.bind, pure, Except.pure]

/-- `StochasticNetwork.unplug(station_id, session_id)` with a session id refines `Net.unplug`: the same outcome
    (done / `KeyError`), related states afterwards, and the object is unchanged when it raises.  Covers the queue branch
    (`never_charged`), the `pass` branches (empty EVSE, another EV's session) and the swap (`popitem(last=False)`:
    the OLDEST waiting EV gets the station, `swaps += 1`). -/
theorem stnet_unplug_tie (p : PyStNet K) (s : Net) (st? : Option String) (x : String) (ha : Abs p s) (hw : PyWf p) :
    (stnet_unplug p st? (some x)).2 = outcome (s.unplug st? x) ∧
      (∀ s', s.unplug st? x = .ok s' → Abs (stnet_unplug p st? (some x)).1 s') ∧
      (∀ e, s.unplug st? x = .error e → (stnet_unplug p st? (some x)).1 = p) ∧
      PyWf (stnet_unplug p st? (some x)).1 := by
  by_cases hxw : x ∈ s.waiting
  · have h1 := (waiting_mem_iff p s ha x).2 hxw
    cases hg : dictGet? p.waiting x with
    | none => rw [hg] at h1; cases h1
    | some e0 =>
      rw [unplug_code_wait p st? x e0 hg]
      have hm : s.unplug st? x = .ok { s with waiting := s.waiting.erase x, neverCharged := s.neverCharged + 1 } := by
        simp [Net.unplug, hxw]
      rw [hm]
      refine ⟨rfl, ?_, (fun e h => by cases h), hw.of_eq rfl (fun kv h => mem_del _ _ _ h)⟩
      intro s' h; cases h
      refine ⟨ha.stations, ha.early, ha.occ, ?_, ha.swaps, ?_, ha.earlyU⟩
      · show s.waiting.erase x = keys (dictDel p.waiting x)
        rw [del_keys, ha.waiting]; rfl
      · show s.neverCharged + 1 = p.neverCharged + 1
        rw [ha.never]
  · have h1 : dictGet? p.waiting x = none := by
      cases h : dictGet? p.waiting x with
      | none => rfl
      | some e => exact absurd ((waiting_mem_iff p s ha x).1 (by rw [h]; rfl)) hxw
    cases st? with
    | none =>
      rw [unplug_code_nostation p x h1]
      have hm : s.unplug none x = .error .keyError := by simp [Net.unplug, hxw]
      rw [hm]
      exact ⟨rfl, (fun s' h => by cases h), (fun e _ => rfl), hw⟩
    | some st =>
      by_cases hst : st ∈ s.stations
      · have hst' := hst
        rw [ha.stations, mem_stations_iff] at hst'
        cases hg : dictGet? p.evses st with
        | none => rw [hg] at hst'; cases hst'
        | some evse =>
          have hocc : s.occ st = evse.ev.map (·.session) := by rw [ha.occ]; simp [stOcc, occE, hg]
          cases hv : evse.ev with
          | none =>
            rw [hv] at hocc
            rw [unplug_code_empty p st x evse h1 hg hv]
            have hm : s.unplug (some st) x = .ok s := by simp [Net.unplug, hxw, hst, hocc]
            rw [hm]
            exact ⟨rfl, (fun s' h => by cases h; exact ha), (fun e h => by cases h), hw⟩
          | some e0 =>
            rw [hv] at hocc
            by_cases hx : x = e0.session
            · subst hx
              have hkeys : keys (dictSet p.evses st (evseVacated evse)) = keys p.evses :=
                set_keys _ _ _ ((get_isSome_iff _ _).1 (by rw [hg]; rfl))
              cases hq : p.waiting with
              | nil =>
                have hsw : s.waiting = [] := by rw [ha.waiting, stWaiting, hq]; rfl
                rw [unplug_code_vacate p st evse e0 h1 hg hv hq]
                have hm : s.unplug (some st) e0.session = .ok (s.setOcc st none) := by
                  simp [Net.unplug, hxw, hst, hocc, Net.admitNext, Net.setOcc, hsw]
                rw [hm]
                refine ⟨rfl, ?_, (fun e h => by cases h), hw.of_eq hkeys (fun kv h => h)⟩
                intro s' h; cases h
                refine ⟨ha.stations.trans hkeys.symm, ha.early, ?_, ha.waiting, ha.swaps, ha.never, ha.earlyU⟩
                show (fun t => if t = st then none else s.occ t) = occE (dictSet p.evses st (evseVacated evse))
                rw [occE_set, ha.occ]; rfl
              | cons kv w =>
                obtain ⟨k, nev⟩ := kv
                have hsw : s.waiting = k :: keys w := by rw [ha.waiting, stWaiting, hq]; rfl
                have hk : nev.session = k := hw.wait_key k nev (by rw [hq]; exact List.mem_cons_self)
                rw [unplug_code_swap p st evse e0 k nev w h1 hg hv hq]
                have hm : s.unplug (some st) e0.session = (s.setOcc st none).admitNext st := by
                  simp [Net.unplug, hxw, hst, hocc]
                rw [hm, admit_model s st k (keys w) hst hsw]
                have hkeys2 : keys (dictSet (dictSet p.evses st (evseVacated evse)) st
                    (evseHolding (evseVacated evse) (evAt nev (some st)))) = keys p.evses := by
                  rw [set_keys _ _ _ (by rw [hkeys]; exact (get_isSome_iff _ _).1 (by rw [hg]; rfl)), hkeys]
                refine ⟨rfl, ?_, (fun e h => by cases h),
                  hw.of_eq hkeys2 (fun kv h => by rw [hq]; exact List.mem_cons_of_mem _ h)⟩
                intro s' h; cases h
                refine ⟨?_, ha.early, ?_, rfl, ?_, ha.never, ha.earlyU⟩
                · show s.stations = keys (dictSet (dictSet p.evses st _) st _)
                  rw [set_keys _ _ _ (by rw [hkeys]; exact (get_isSome_iff _ _).1 (by rw [hg]; rfl)), hkeys]
                  exact ha.stations
                · show (fun t => if t = st then some k else (if t = st then none else s.occ t)) =
                    occE (dictSet (dictSet p.evses st (evseVacated evse)) st _)
                  rw [occE_set, occE_set, ha.occ]
                  funext t
                  by_cases ht : t = st <;> simp [ht, hk, evseHolding, evseVacated, evAt, stOcc]
                · show s.swaps + 1 = p.swaps + 1
                  rw [ha.swaps]
            · rw [unplug_code_other p st x evse e0 h1 hg hv hx]
              have hm : s.unplug (some st) x = .ok s := by simp [Net.unplug, hxw, hst, hocc, hx]
              rw [hm]
              exact ⟨rfl, (fun s' h => by cases h; exact ha), (fun e h => by cases h), hw⟩
      · have hst' : (dictGet? p.evses st).isSome = false := by
          cases h : (dictGet? p.evses st).isSome with
          | false => rfl
          | true => exact absurd (by rw [ha.stations, mem_stations_iff]; exact h) hst
        rw [unplug_code_unknown p st x h1 hst']
        have hm : s.unplug (some st) x = .error .keyError := by simp [Net.unplug, hxw, hst]
        rw [hm]
        exact ⟨rfl, (fun s' h => by cases h), (fun e _ => rfl), hw⟩

/-- without a session id (the deprecated call form) the stochastic network refuses: `ValueError` for a registered
    station, `KeyError` otherwise; nothing changes -/
theorem stnet_unplug_none (p : PyStNet K) (st? : Option String) :
    stnet_unplug p st? none =
      (p, .error (if (match st? with | none => false | some k => (dictGet? p.evses k).isSome) then .ValueError
                  else .KeyError)) := by
  unfold stnet_unplug
  cases st? with
  | none => rfl
  | some st => cases h : (dictGet? p.evses st).isSome <;> simp [h]

end

/-- every target of this group was translated in this run -/
theorem all_translated_stochops : translatedStochOps =
    ["stev_update_station_id", "stevse_plugin", "stevse_unplug", "stnet_base_plugin", "stnet_available_evses",
     "stnet_plugin", "stnet_unplug", "stnet_post_charging_update"] := by
  decide

end Acn.CodeTie.St
