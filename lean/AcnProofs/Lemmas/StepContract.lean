/-
  Helper lemmas for C05: the contract of `Simulator.step()` (model: `AcnModel/SimStep.lean`, the repaired loop).

  * `stepPass_supply`      — on the event core a pass IS `EventCore.supplyPass` (`markScheduled · advance · eventsStage`);
  * `stepCond_after_pass`  — after a pass the loop CONTINUES iff events are left, no event was applied in the new period
                             and `max_recompute` is `None` or ≥ 2 (after a pass `_last_schedule_update` is the period just
                             simulated, so `iteration − _last_schedule_update = 1`);
  * `step_single_pass`     — when that test fails the call is exactly one pass: it advances exactly one period and
                             returns `event_queue.empty()`; in particular for every `max_recompute ≤ 1` (`step_one_period`).
-/
import AcnProofs.Lemmas.EventCoreStep
import AcnProofs.Lemmas.ResumeTrigger

set_option linter.unusedSectionVars false

namespace Acn.Sim
open Acn Acn.EventCore

variable {K : Type} [Add K] [Sub K] [Mul K] [Div K] [Neg K] [LT K] [LE K]
  [DecidableLT K] [DecidableLE K] [OfNat K 0] [OfNat K 1] [NatCast K] [HasExp K]

theorem stepPass_supply (cfg : Cfg K) (sch : Schedule K) {s s' : State K} (h : stepPass cfg sch s = (s', none)) :
    supplyPass cfg.core s.core = (s'.core, none) := by
  have := stepPass_core cfg sch s (by rw [h])
  rw [h] at this
  exact this.symm

/-- the loop test of `step()` after a successful pass, in closed form -/
theorem stepCond_after_pass (cfg : Cfg K) (sch : Schedule K) {s s' : State K} (h : stepPass cfg sch s = (s', none)) :
    stepCond cfg.maxRecompute false s'.core =
      .ok (!s'.core.pending.isEmpty && !s'.core.resolve &&
        (match cfg.maxRecompute with | none => true | some m => decide (2 ≤ m))) := by
  have hs := stepPass_supply cfg sch h
  unfold supplyPass at hs
  obtain ⟨h1', _, h3', h4'⟩ := eventsStage_ok_facts hs
  have h1 : s'.core.iter = s.core.iter + 1 := h1'
  have h3 : s'.core.resolve = !(popsAt (advance (markScheduled s.core))).isEmpty := h3'
  have h4 : s'.core.lastUpd = lastEvTs (popsAt (advance (markScheduled s.core))) (some (s.core.iter : Int)) := h4'
  unfold stepCond stepCondUnfixed
  by_cases hp : s'.core.pending.isEmpty = true
  · simp [hp]
  · have hp' : s'.core.pending.isEmpty = false := by simpa using hp
    simp only [hp', Bool.false_eq_true, if_false, Bool.not_false, Bool.true_and]
    by_cases hr : s'.core.resolve = true
    · simp [hr]
    · have hr' : s'.core.resolve = false := by simpa using hr
      simp only [hr', Bool.false_eq_true, if_false, Bool.not_false, Bool.true_and]
      cases hm : cfg.maxRecompute with
      | none => rfl
      | some m =>
        have hpops : popsAt (advance (markScheduled s.core)) = [] := by
          rw [hr'] at h3
          have : (popsAt (advance (markScheduled s.core))).isEmpty = true := by simpa using h3.symm
          exact List.isEmpty_iff.1 this
        rw [hpops] at h4
        simp only [lastEvTs, List.foldl_nil] at h4
        rw [h4, h1]
        simp only []
        congr 1
        apply decide_eq_decide.2
        constructor <;> intro hh <;> omega

/-- when the loop test fails after the first pass, `step()` is that one pass: one period, flag = queue empty -/
theorem step_single_pass (cfg : Cfg K) (sch : Schedule K) (n : Nat) {s s' : State K} (hp : s.core.pending ≠ [])
    (h : stepPass cfg sch s = (s', none))
    (hstop : (!s'.core.pending.isEmpty && !s'.core.resolve &&
      (match cfg.maxRecompute with | none => true | some m => decide (2 ≤ m))) = false) :
    step cfg sch (n + 2) s = (s', .ok s'.core.pending.isEmpty) ∧ s'.core.iter = s.core.iter + 1 := by
  have h1 := step_runs_first_pass cfg sch (n + 1) s s' hp h
  have hc := stepCond_after_pass cfg sch h
  rw [hstop] at hc
  have hi : s'.core.iter = s.core.iter + 1 := by
    have hs := stepPass_supply cfg sch h
    unfold supplyPass at hs
    have := (eventsStage_ok_facts hs).1
    simpa [advance, markScheduled] using this
  refine ⟨?_, hi⟩
  unfold step
  rw [h1]
  simp only [stepLoop, hc]

/-- `max_recompute ≤ 1` (every period is a recompute period): a call is exactly one period -/
theorem step_one_period (cfg : Cfg K) (sch : Schedule K) (n : Nat) {s s' : State K} {m : Nat}
    (hm : cfg.maxRecompute = some m) (hle : m ≤ 1) (hp : s.core.pending ≠ []) (h : stepPass cfg sch s = (s', none)) :
    step cfg sch (n + 2) s = (s', .ok s'.core.pending.isEmpty) ∧ s'.core.iter = s.core.iter + 1 := by
  apply step_single_pass cfg sch n hp h
  rw [hm]
  have : decide (2 ≤ m) = false := by simp; omega
  simp [this]

/-- … and so is a call that stops in an event period, or with the queue empty -/
theorem step_stops_at_event (cfg : Cfg K) (sch : Schedule K) (n : Nat) {s s' : State K}
    (hp : s.core.pending ≠ []) (h : stepPass cfg sch s = (s', none))
    (hev : s'.core.resolve = true ∨ s'.core.pending = []) :
    step cfg sch (n + 2) s = (s', .ok s'.core.pending.isEmpty) ∧ s'.core.iter = s.core.iter + 1 := by
  apply step_single_pass cfg sch n hp h
  rcases hev with hev | hev
  · simp [hev]
  · simp [hev]

end Acn.Sim
