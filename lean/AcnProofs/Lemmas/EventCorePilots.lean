/-
  Projection of the full simulator model onto the pilot matrix (ties C01/Sim to C04):
  one period of `Sim.body` that raises nothing IS `Pilots.periodStep` on the schedule the
  scheduler returned in that period (or no submission when it was not called), and a whole
  `Sim.run` IS `Pilots.runPeriods` on the list of those periods.  Hence C04's
  `applied_eq_spec` (the column handed to the EVSEs in period t = `pilotAt` of the schedules
  returned so far) holds for whole simulations of the full model.
-/
import AcnModel.Sim
import AcnProofs.Lemmas.PilotsRun
import AcnProofs.C04
import Mathlib.Tactic

set_option linter.unusedSectionVars false
set_option linter.unusedSimpArgs false

namespace Acn.Sim
open Acn Acn.EventCore

variable {K : Type} [Add K] [Sub K] [Mul K] [Div K] [Neg K] [LT K] [LE K]
  [DecidableLT K] [DecidableLE K] [OfNat K 0] [OfNat K 1] [NatCast K] [HasExp K]

/-! ### the stages that do not touch the pilot matrix -/

theorem processAll_pilots (cfg : Cfg K) : ∀ (l : List Event) (s : State K),
    (processAll cfg l s).1.pilots = s.pilots := by
  intro l
  induction l with
  | nil => intro s; rfl
  | cons e es ih =>
    intro s
    simp only [processAll]
    have h : (stepEv cfg e s).1.pilots = s.pilots := rfl
    rcases hs : stepEv cfg e s with ⟨s2, _ | err⟩
    · rw [hs] at h; simp only at h ⊢; rw [ih, h]
    · rw [hs] at h; exact h

theorem eventsStage_pilots (cfg : Cfg K) (s : State K) : (eventsStage cfg s).1.pilots = s.pilots :=
  processAll_pilots cfg _ _

theorem setPilotAt_pilots (cfg : Cfg K) (s : State K) (i : Nat) (st : Station K) :
    (setPilotAt cfg s i st).1.pilots = s.pilots := by
  unfold setPilotAt
  simp only
  split <;> rfl

theorem updatePilotsFrom_pilots (cfg : Cfg K) : ∀ (l : List (Station K)) (i : Nat) (s : State K),
    (updatePilotsFrom cfg i l s).1.pilots = s.pilots := by
  intro l
  induction l with
  | nil => intro i s; rfl
  | cons st rest ih =>
    intro i s
    simp only [updatePilotsFrom]
    have h := setPilotAt_pilots cfg s i st
    rcases hs : setPilotAt cfg s i st with ⟨s', _ | e⟩
    · rw [hs] at h; simp only at h ⊢; rw [ih, h]
    · rw [hs] at h; exact h

theorem storeRates_pilots (cfg : Cfg K) (w : Nat) (s : State K) : (storeRates cfg w s).1.pilots = s.pilots := by
  unfold storeRates
  simp only
  split
  · rfl
  · split <;> rfl

/-- a period that raises nothing leaves the widened matrix, and column `iter` exists in it -/
theorem applyStage_pilots (cfg : Cfg K) (s : State K) (h : (applyStage cfg s).2 = none) :
    (applyStage cfg s).1.pilots = Pilots.increaseWidth s.pilots (widthInc s) ∧
    s.core.iter < (Pilots.increaseWidth s.pilots (widthInc s)).width := by
  unfold applyStage at h ⊢
  have hc1 : (widen s).pilots = Pilots.increaseWidth s.pilots (widthInc s) := rfl
  rw [← hc1]
  generalize widen s = s1 at h ⊢
  by_cases hcond : s1.pilots.width ≤ s.core.iter
  · simp [hcond] at h
  · simp only [hcond, if_false] at h ⊢
    have hu := updatePilotsFrom_pilots cfg cfg.stations 0 s1
    rcases hup : updatePilots cfg s1 with ⟨s2, _ | e⟩
    · simp only [hup] at h ⊢
      have hr := storeRates_pilots cfg (widthInc s) s2
      unfold updatePilots at hup
      rw [hup] at hu
      rcases hst : storeRates cfg (widthInc s) s2 with ⟨s3, _ | e⟩
      · rw [hst] at hr
        simp only at hr hu ⊢
        exact ⟨by rw [hr, hu], by omega⟩
      · simp [hst] at h
    · simp [hup] at h

/-! ### the period as C04 sees it -/

theorem lastTs_ge_head (es : List Event) (e : Event) (init : Int) (h : e.ts ≤ init) :
    e.ts ≤ es.foldl (fun m d => max m d.ts) init := by
  induction es generalizing init with
  | nil => simpa using h
  | cons x xs ih => exact ih _ (le_trans h (le_max_left _ _))

theorem lastTs_nonneg {p : List Event} {l : Int} (h : lastTs p = some l) (hnn : ∀ e ∈ p, 0 ≤ e.ts) : 0 ≤ l := by
  cases p with
  | nil => simp [lastTs] at h
  | cons e es =>
    simp only [lastTs, Option.some.injEq] at h
    rw [← h]
    exact le_trans (hnn e (by simp)) (lastTs_ge_head es e e.ts le_rfl)

/-- `width_increase` of the model = `runWidth` of C04 when no pending timestamp is negative -/
theorem widthInc_eq_runWidth (s : State K) (hnn : ∀ e ∈ s.core.pending, 0 ≤ e.ts) :
    widthInc s = Pilots.runWidth s.core.iter ((lastTs s.core.pending).map Int.toNat) := by
  unfold widthInc Pilots.runWidth
  rcases hl : lastTs s.core.pending with _ | l
  · rfl
  · have := lastTs_nonneg hl hnn
    simp only [Option.map_some]
    omega

/-- the schedule the scheduler returned in the period started in state `s` (if it was called) -/
def submitted (cfg : Cfg K) (sched : View K → Except Err (Schedule K)) (s : State K) : Option (Schedule K) :=
  let s1 := (eventsStage cfg s).1
  if needsSched cfg.maxRecompute s1.core then
    match sched (view cfg { s1 with core := markInvoked s1.core }) with
    | .ok sch => some sch
    | .error _ => none
  else none

/-- the period started in state `s`, as a `Pilots.Period` -/
def periodOf (cfg : Cfg K) (sched : View K → Except Err (Schedule K)) (s : State K) : Pilots.Period K :=
  { t := s.core.iter
    lastTs := (lastTs (eventsStage cfg s).1.core.pending).map Int.toNat
    sched := submitted cfg sched s }

theorem processAll_iter (cfg : Cfg K) : ∀ (l : List Event) (s : State K),
    (processAll cfg l s).1.core.iter = s.core.iter := by
  intro l
  induction l with
  | nil => intro s; rfl
  | cons e es ih =>
    intro s
    simp only [processAll]
    have hst : (stepEv cfg e s).1.core.iter = s.core.iter := by
      simp only [stepEv, EventCore.step, EventCore.process]
      split
      · split
        · rfl
        · split
          · split <;> rfl
          · rfl
      · split
        · rfl
        · split <;> rfl
      · rfl
    rcases hs : stepEv cfg e s with ⟨s2, _ | err⟩
    · rw [hs] at hst; simp only at hst ⊢; rw [ih, hst]
    · rw [hs] at hst; exact hst

theorem eventsStage_iter (cfg : Cfg K) (s : State K) : (eventsStage cfg s).1.core.iter = s.core.iter :=
  processAll_iter cfg _ _

/-- PROJECTION onto the pilot matrix: a period of the full model that raises nothing is
    `Pilots.periodStep` on the schedule returned in that period -/
theorem body_pilots (cfg : Cfg K) (sched : View K → Except Err (Schedule K)) (s : State K)
    (h : (body cfg sched s).2 = none) (hwf : s.pilots.WF cfg.stations.length)
    (hnn : ∀ e ∈ (eventsStage cfg s).1.core.pending, 0 ≤ e.ts) :
    (body cfg sched s).1.pilots.WF cfg.stations.length ∧
    ∃ col, Pilots.periodStep (cfg.stations.map (·.id)) s.pilots (periodOf cfg sched s) =
      .ok ((body cfg sched s).1.pilots, col) := by
  have hlen : (cfg.stations.map (·.id)).length = cfg.stations.length := by simp
  have hit := eventsStage_iter cfg s
  have hpl := eventsStage_pilots cfg s
  unfold periodOf submitted
  unfold body at h ⊢
  rcases hes : eventsStage cfg s with ⟨s1, _ | e⟩
  · rw [hes] at hit hpl hnn
    simp only at hit hpl hnn
    simp only [hes] at h ⊢
    by_cases hn : needsSched cfg.maxRecompute s1.core = true
    · simp only [hn, if_true] at h ⊢
      rcases hsch : schedStage cfg sched { s1 with core := markInvoked s1.core } with e | m
      · simp [hsch] at h
      · simp only [hsch] at h ⊢
        unfold schedStage at hsch
        split at hsch
        · simp at hsch
        · rcases hsv : sched (view cfg { s1 with core := markInvoked s1.core }) with e | sch
          · simp [hsv] at hsch
          · simp only [hsv] at hsch ⊢
            rcases hus : Pilots.updateSchedules (cfg.stations.map (·.id)) s1.pilots s1.core.iter
                ((lastTs s1.core.pending).map Int.toNat) sch with e | m'
            · simp [markInvoked, hus] at hsch
            · simp only [markInvoked, hus, Except.ok.injEq] at hsch
              subst hsch
              have hwm : m'.WF cfg.stations.length := by
                have := Acn.C04.wf_preserved (stations := cfg.stations.map (·.id)) (hlen ▸ hpl ▸ hwf) _ _ _ hus
                rwa [hlen] at this
              obtain ⟨hp, hw⟩ := applyStage_pilots cfg _ h
              have hwi : widthInc ({ s1 with pilots := m', core := markScheduled (markInvoked s1.core) } : State K)
                  = Pilots.runWidth s1.core.iter ((lastTs s1.core.pending).map Int.toNat) :=
                widthInc_eq_runWidth
                  ({ s1 with pilots := m', core := markScheduled (markInvoked s1.core) } : State K) hnn
              have hw' : s1.core.iter < (Pilots.increaseWidth m' (widthInc
                  ({ s1 with pilots := m', core := markScheduled (markInvoked s1.core) } : State K))).width := hw
              rw [hp]
              refine ⟨Pilots.increaseWidth_wf hwm _, ?_⟩
              obtain ⟨col, hcol⟩ := Pilots.appliedColumn_isSome (Pilots.increaseWidth_wf hwm (widthInc _)) _ hw'
              refine ⟨col, ?_⟩
              simp only [Pilots.periodStep, ← hit, ← hpl, hus, Pilots.runGrow]
              rw [← hwi]
              simp only [hcol]
    · simp only [hn] at h ⊢
      simp only [Bool.false_eq_true, if_false] at h ⊢
      obtain ⟨hp, hw⟩ := applyStage_pilots cfg _ h
      have hwi := widthInc_eq_runWidth s1 hnn
      rw [hp]
      have hw1 : s1.pilots.WF cfg.stations.length := hpl ▸ hwf
      refine ⟨Pilots.increaseWidth_wf hw1 _, ?_⟩
      obtain ⟨col, hcol⟩ := Pilots.appliedColumn_isSome (Pilots.increaseWidth_wf hw1 (widthInc s1)) _ hw
      refine ⟨col, ?_⟩
      simp only [Pilots.periodStep, ← hit, ← hpl, Pilots.runGrow]
      rw [← hwi, hcol]
  · simp [hes] at h

/-! ### timestamps stay non-negative (needed only to identify `width_increase` with C04's `runWidth`) -/

theorem process_pending_nonneg (cfg : EventCore.Cfg) (hd : ∀ x ∈ cfg.sessions, 0 ≤ x.departure)
    (e : Event) (c : Core) (hp : ∀ d ∈ c.pending, 0 ≤ d.ts) :
    ∀ d ∈ (EventCore.process cfg e c).1.pending, 0 ≤ d.ts := by
  unfold EventCore.process
  split
  · rcases hf : findSession cfg e.sess with _ | x
    · exact hp
    · have hx : x ∈ cfg.sessions := List.mem_of_find?_eq_some hf
      simp only
      split
      · split
        · exact hp
        · intro d hd'
          simp only [List.mem_append, List.mem_singleton] at hd'
          rcases hd' with hd' | rfl
          · exact hp d hd'
          · exact hd x hx
      · exact hp
  · split
    · exact hp
    · split <;> exact hp
  · exact hp

theorem processAll_pending_nonneg (cfg : Cfg K) (hd : ∀ x ∈ cfg.core.sessions, 0 ≤ x.departure) :
    ∀ (l : List Event) (s : State K), (∀ d ∈ s.core.pending, 0 ≤ d.ts) →
      ∀ d ∈ (processAll cfg l s).1.core.pending, 0 ≤ d.ts := by
  intro l
  induction l with
  | nil => intro s hp; exact hp
  | cons e es ih =>
    intro s hp
    simp only [processAll]
    have hst : ∀ d ∈ (stepEv cfg e s).1.core.pending, 0 ≤ d.ts :=
      process_pending_nonneg cfg.core hd e { s.core with eventHist := s.core.eventHist ++ [e] } hp
    rcases hs : stepEv cfg e s with ⟨s2, _ | err⟩
    · rw [hs] at hst; exact ih s2 hst
    · rw [hs] at hst; exact hst

theorem eventsStage_pending_nonneg (cfg : Cfg K) (hd : ∀ x ∈ cfg.core.sessions, 0 ≤ x.departure)
    (s : State K) (hp : ∀ d ∈ s.core.pending, 0 ≤ d.ts) :
    ∀ d ∈ (eventsStage cfg s).1.core.pending, 0 ≤ d.ts := by
  apply processAll_pending_nonneg cfg hd
  intro d hd'
  exact hp d (List.mem_of_mem_filter hd')

theorem body_pending (cfg : Cfg K) (sched : View K → Except Err (Schedule K)) (s : State K)
    (h : (body cfg sched s).2 = none) :
    (body cfg sched s).1.core.pending = (eventsStage cfg s).1.core.pending := by
  have hb := body_core_pending cfg sched s h
  exact hb
where
  body_core_pending (cfg : Cfg K) (sched : View K → Except Err (Schedule K)) (s : State K)
      (h : (body cfg sched s).2 = none) :
      (body cfg sched s).1.core.pending = (eventsStage cfg s).1.core.pending := by
    have hap : ∀ s' : State K, (applyStage cfg s').2 = none →
        (applyStage cfg s').1.core.pending = s'.core.pending := by
      intro s' h'
      unfold applyStage at h' ⊢
      generalize hw : widen s' = s1 at h' ⊢
      have hc1 : s1.core = s'.core := by rw [← hw]; rfl
      by_cases hcond : s1.pilots.width ≤ s'.core.iter
      · simp [hcond] at h'
      · simp only [hcond, if_false] at h' ⊢
        rcases hup : updatePilots cfg s1 with ⟨s2, _ | e⟩
        · simp only [hup] at h' ⊢
          rcases hst : storeRates cfg (widthInc s') s2 with ⟨s3, _ | e⟩
          · simp only [hst] at h' ⊢
            have h2 : s2.core = s1.core := by
              have := updatePilots_core_aux cfg s1; rw [hup] at this; exact this
            have h3 : s3.core = s2.core := by
              have := storeRates_core_aux cfg (widthInc s') s2; rw [hst] at this; exact this
            show (advance s3.core).pending = _
            rw [h3, h2, hc1]; rfl
          · simp [hst] at h'
        · simp [hup] at h'
    unfold body at h ⊢
    rcases hes : eventsStage cfg s with ⟨s1, _ | e⟩
    · simp only [hes] at h ⊢
      by_cases hn : needsSched cfg.maxRecompute s1.core = true
      · simp only [hn, if_true] at h ⊢
        rcases hsch : schedStage cfg sched { s1 with core := markInvoked s1.core } with e | m
        · simp [hsch] at h
        · simp only [hsch] at h ⊢
          rw [hap _ h]; rfl
      · simp only [hn] at h ⊢
        simp only [Bool.false_eq_true, if_false] at h ⊢
        rw [hap _ h]
    · simp [hes] at h
  updatePilots_core_aux (cfg : Cfg K) (s : State K) : (updatePilots cfg s).1.core = s.core := by
    have : ∀ (l : List (Station K)) (i : Nat) (s : State K), (updatePilotsFrom cfg i l s).1.core = s.core := by
      intro l
      induction l with
      | nil => intro i s; rfl
      | cons st rest ih =>
        intro i s
        simp only [updatePilotsFrom]
        have h : (setPilotAt cfg s i st).1.core = s.core := by
          unfold setPilotAt; simp only; split <;> rfl
        rcases hs : setPilotAt cfg s i st with ⟨s', _ | e⟩
        · rw [hs] at h; simp only at h ⊢; rw [ih, h]
        · rw [hs] at h; exact h
    exact this _ _ _
  storeRates_core_aux (cfg : Cfg K) (w : Nat) (s : State K) : (storeRates cfg w s).1.core = s.core := by
    unfold storeRates
    simp only
    split
    · rfl
    · split <;> rfl

/-! ### whole runs -/

/-- the periods of a run started in `s`, as C04 sees them -/
def periodsOf (cfg : Cfg K) (sched : View K → Except Err (Schedule K)) : Nat → State K → List (Pilots.Period K)
  | 0, _ => []
  | n + 1, s =>
    if guard s.core then periodOf cfg sched s :: periodsOf cfg sched n (body cfg sched s).1 else []

/-- PROJECTION for whole runs: a `Sim.run` that raises nothing is `Pilots.runPeriods` on its periods -/
theorem run_pilots (cfg : Cfg K) (sched : View K → Except Err (Schedule K))
    (hd : ∀ x ∈ cfg.core.sessions, 0 ≤ x.departure) : ∀ (n : Nat) (s : State K),
    (run cfg sched n s).2 = none → s.pilots.WF cfg.stations.length → (∀ d ∈ s.core.pending, 0 ≤ d.ts) →
    ∃ cols, Pilots.runPeriods (cfg.stations.map (·.id)) s.pilots (periodsOf cfg sched n s) =
      .ok ((run cfg sched n s).1.pilots, cols) := by
  intro n
  induction n with
  | zero => intro s _ _ _; exact ⟨[], rfl⟩
  | succ n ih =>
    intro s h hwf hp
    unfold run at h ⊢
    unfold periodsOf
    by_cases hg : guard s.core = true
    · simp only [hg, if_true] at h ⊢
      rcases hb : body cfg sched s with ⟨s', _ | e⟩
      · have hb2 : (body cfg sched s).2 = none := by rw [hb]
        have hnn := eventsStage_pending_nonneg cfg hd s hp
        obtain ⟨hwf', col, hstep⟩ := body_pilots cfg sched s hb2 hwf hnn
        have hpend := body_pending cfg sched s hb2
        simp only [hb] at h hwf' hstep hpend ⊢
        obtain ⟨cols, hrest⟩ := ih s' h hwf' (by rw [hpend]; exact hnn)
        exact ⟨col :: cols, by simp only [Pilots.runPeriods, hstep, hrest]⟩
      · simp [hb] at h
    · simp only [hg] at h ⊢
      exact ⟨[], rfl⟩

/-- C04's `applied_eq_spec` for whole simulations of the full model: the final `pilot_signals`
    are the overlay of the schedules the scheduler returned, and the column handed to the EVSEs in
    the `k`-th period is `pilotAt` of the schedules returned up to and including that period -/
theorem run_applied_eq_spec (cfg : Cfg K) (sched : View K → Except Err (Schedule K))
    (hn : (cfg.stations.map (·.id)).Nodup)
    (ha : ∀ x ∈ cfg.core.sessions, 0 ≤ x.arrival) (hd : ∀ x ∈ cfg.core.sessions, 0 ≤ x.departure)
    (hr : ∀ r ∈ cfg.recomputes, 0 ≤ r.1) (n : Nat) (h : (run cfg sched n (init cfg)).2 = none) :
    ∃ cols, Pilots.runPeriods (cfg.stations.map (·.id)) (init cfg).pilots (periodsOf cfg sched n (init cfg)) =
        .ok ((run cfg sched n (init cfg)).1.pilots, cols) ∧
      (∀ st τ, (run cfg sched n (init cfg)).1.pilots.get ((cfg.stations.map (·.id)).idxOf st) τ =
        Pilots.pilotAt (cfg.stations.map (·.id)) (Pilots.subsOf (periodsOf cfg sched n (init cfg))) st τ) ∧
      ∀ k (hk : k < (periodsOf cfg sched n (init cfg)).length), cols[k]? =
        some ((cfg.stations.map (·.id)).map fun st =>
          Pilots.pilotAt (cfg.stations.map (·.id))
            (Pilots.subsOf ((periodsOf cfg sched n (init cfg)).take (k + 1))) st
            (periodsOf cfg sched n (init cfg))[k].t) := by
  have hlen : (cfg.stations.map (·.id)).length = cfg.stations.length := by simp
  have hp0 : ∀ d ∈ (init cfg).core.pending, 0 ≤ d.ts := by
    intro d hd'
    have : d ∈ initPending cfg.core := hd'
    unfold initPending at this
    rcases List.mem_append.1 this with h' | h'
    · obtain ⟨x, hx, rfl⟩ := List.mem_map.1 h'; exact ha x hx
    · obtain ⟨r, hr', rfl⟩ := List.mem_map.1 h'; exact hr r hr'
  obtain ⟨w, hz⟩ : ∃ w, (init cfg).pilots = Pilots.Mat.zeros (cfg.stations.map (·.id)).length w := by
    rw [hlen]; exact ⟨_, rfl⟩
  obtain ⟨cols, hrun⟩ := run_pilots cfg sched hd n (init cfg) h
    (by rw [hz, hlen]; exact Pilots.zeros_wf _ _) hp0
  refine ⟨cols, hrun, ?_⟩
  rw [hz] at hrun
  obtain ⟨_, h2, _, h4⟩ := Acn.C04.applied_eq_spec hn _ _ _ _ hrun
  exact ⟨h2, h4⟩

end Acn.Sim
